(* C08/LinkTie.v -- soundness of the relational tie check Corr.legal_chans (stage 5 comparator clause).

   legal_chans d unw t chans = true  implies  (theorem legal_chans_sound)
     the template has a peak channel b (first argmax of max - min of the (unwhitened) template) and  Legal d b chans :
       - chans is duplicate-free and contains b,
       - every listed channel is a channel of the probe and is on b's shank,
       - no listed channel is farther from b than the cut distance D = the n_keep-th smallest distance from b
         (n_keep = min 12 n_channels; cut_of_is_kth: D really is that order statistic of the distances),
       - the list is downward closed by distance on the shank,
       - chans is, as a set, S intersected with the shank for SOME choice S of the n_keep nearest channels over all
         shanks (Nearest: n_keep distinct channels, none beyond D, every channel strictly nearer than D included; such
         an S is downward closed by distance: Nearest_down_closed) -- i.e. the outcome of get_closest_channels under
         some tie-break of argsort, intersected with the shank.
   Conversely (legal_at_complete / legal_chans_iff) every Legal list is accepted: legal_chans <-> Legal.
   Without a boundary tie (NoTie; implied by Corr.boundary_ok: boundary_ok_NoTie) the accepted lists are exactly the
   duplicate-free lists of { channels on b's shank within distance D } (legal_chans_no_tie_iff).
   Nothing here is about which tie-break NumPy takes: every tie-break is admitted. *)
From Coq Require Import ZArith List Lia Bool Arith Permutation Sorted.
From PV Require Import Base.NpSearch Base.NpSort C08.Model C08.Spec C08.Proofs C08.Corr.
Import ListNotations.
Open Scope Z_scope.

(* ---------- the vocabulary of the statement ---------- *)
(* peak channel of template t on route unw: first argmax of (max - min) over the samples *)
Definition peak_chan (d : dset) (unw : bool) (t : nat) : option nat :=
  match col_fold Z.max (tmpl_of d unw t), col_fold Z.min (tmpl_of d unw t) with
  | Some mx, Some mn => argmax (zip_with Z.sub mx mn)
  | _, _ => None
  end.
(* squared distance of channel ch from channel b *)
Definition dist_of (d : dset) (b : nat) (ch : Z) : Z := nth (Z.to_nat ch) (dists_from d b) (-1).
(* how many channels get_closest_channels keeps *)
Definition n_keep (d : dset) : nat := Nat.min (Z.to_nat n_closest_channels) (n_channels d).
(* the n_keep-th smallest distance from b *)
Definition cut_of (d : dset) (b : nat) : Z := nth (n_keep d - 1) (sorted_dists d b) (-1).
Definition on_shank_b (d : dset) (b : nat) (ch : Z) : bool :=
  nth (Z.to_nat ch) (d_shanks d) (-2) =? nth b (d_shanks d) (-1).
Definition is_chan (d : dset) (ch : Z) : Prop := 0 <= ch < Z.of_nat (n_channels d).

(* S is a choice of the n_keep nearest channels of b over all shanks, under some tie-break *)
Record Nearest (d : dset) (b : nat) (S : list Z) : Prop := {
  nr_nodup : NoDup S;
  nr_len : length S = n_keep d;
  nr_chan : forall ch, In ch S -> is_chan d ch;
  nr_within : forall ch, In ch S -> dist_of d b ch <= cut_of d b;
  nr_closed : forall ch, is_chan d ch -> dist_of d b ch < cut_of d b -> In ch S
}.

Record Legal (d : dset) (b : nat) (chans : list Z) : Prop := {
  lg_nodup : NoDup chans;
  lg_peak : In (Z.of_nat b) chans;
  lg_chan : forall ch, In ch chans -> is_chan d ch;
  lg_on_shank : forall ch, In ch chans -> on_shank_b d b ch = true;
  lg_within : forall ch, In ch chans -> dist_of d b ch <= cut_of d b;
  lg_closed : forall ch ch', In ch' chans -> is_chan d ch -> on_shank_b d b ch = true ->
                             dist_of d b ch < dist_of d b ch' -> In ch chans;
  lg_count : exists S, Nearest d b S /\ forall ch, In ch chans <-> In ch S /\ on_shank_b d b ch = true
}.

(* ---------- legal_chans in that vocabulary ---------- *)
Definition legal_at (d : dset) (b : nat) (chans : list Z) : bool :=
  let all := zrange 0 (n_channels d) in
  let k := Z.of_nat (n_keep d) - zcount (fun ch => dist_of d b ch <? cut_of d b) all in
  let tied_off := zcount (fun ch => (dist_of d b ch =? cut_of d b) && negb (on_shank_b d b ch)) all in
  let a := zcount (fun ch => dist_of d b ch =? cut_of d b) chans in
  (length (np_unique chans) =? length chans)%nat &&
  forallb (fun ch => (0 <=? ch) && (ch <? Z.of_nat (n_channels d)) && on_shank_b d b ch &&
                     (dist_of d b ch <=? cut_of d b)) chans &&
  forallb (fun ch => negb (on_shank_b d b ch && (dist_of d b ch <? cut_of d b)) || memZ ch chans) all &&
  memZ (Z.of_nat b) chans &&
  (k - tied_off <=? a) && (a <=? k).

Lemma legal_chans_eq d unw t chans :
  legal_chans d unw t chans = match peak_chan d unw t with Some b => legal_at d b chans | None => false end.
Proof.
  unfold legal_chans, peak_chan.
  destruct (col_fold Z.max (tmpl_of d unw t)) as [mx|]; [|reflexivity].
  destruct (col_fold Z.min (tmpl_of d unw t)) as [mn|]; [|reflexivity].
  destruct (argmax (zip_with Z.sub mx mn)) as [b|]; reflexivity.
Qed.

(* ---------- list facts ---------- *)
Lemma ins_u_absorb x u : StronglySorted Z.lt u -> In x u -> ins_u x u = u.
Proof.
  induction 1 as [|y r Hs IH Hall]; intros Hin; [destruct Hin|].
  cbn [ins_u]. rewrite Forall_forall in Hall.
  destruct Hin as [Hxy|Hin].
  - subst y. rewrite Z.ltb_irrefl, Z.eqb_refl. reflexivity.
  - pose proof (Hall x Hin) as Hlt.
    destruct (x <? y) eqn:E1; [lia|]. destruct (x =? y) eqn:E2; [lia|].
    rewrite IH by assumption. reflexivity.
Qed.

Lemma ins_u_length x u : (length (ins_u x u) <= S (length u))%nat.
Proof.
  induction u as [|y r IH]; cbn [ins_u length]; [lia|].
  destruct (x <? y); [cbn [length]; lia|]. destruct (x =? y); cbn [length]; lia.
Qed.

Lemma np_unique_length l : (length (np_unique l) <= length l)%nat.
Proof.
  induction l as [|x l IH]; cbn [np_unique fold_right length]; [lia|].
  fold (np_unique l). pose proof (ins_u_length x (np_unique l)). lia.
Qed.

Lemma np_unique_full_NoDup l : length (np_unique l) = length l -> NoDup l.
Proof.
  induction l as [|x l IH]; intros Hlen; [constructor|].
  cbn [np_unique fold_right length] in Hlen. fold (np_unique l) in Hlen.
  pose proof (ins_u_length x (np_unique l)) as H1. pose proof (np_unique_length l) as H2.
  constructor.
  - intros Hin. apply np_unique_in in Hin.
    rewrite (ins_u_absorb x (np_unique l) (np_unique_sorted l) Hin) in Hlen. lia.
  - apply IH. lia.
Qed.

Lemma zrange_NoDup a k : NoDup (zrange a k).
Proof.
  revert a; induction k as [|k IH]; intros a; cbn [zrange]; constructor.
  - intros Hin. apply zrange_ge in Hin. lia.
  - apply IH.
Qed.

Lemma NoDup_filter_Z (f : Z -> bool) l : NoDup l -> NoDup (filter f l).
Proof.
  induction 1 as [|x l Hn Hd IH]; cbn [filter]; [constructor|].
  destruct (f x); [|exact IH]. constructor; [|exact IH].
  intros Hin. apply filter_In in Hin. tauto.
Qed.

Lemma NoDup_app_Z (a b : list Z) : NoDup a -> NoDup b -> (forall x, In x a -> ~ In x b) -> NoDup (a ++ b).
Proof.
  induction 1 as [|x a Hn Hd IH]; intros Hb Hdis; cbn [app]; [exact Hb|].
  constructor.
  - intros Hin. apply in_app_or in Hin. destruct Hin as [Hin|Hin]; [tauto|].
    apply (Hdis x); [left; reflexivity|exact Hin].
  - apply IH; [exact Hb|]. intros y Hy. apply Hdis. right; exact Hy.
Qed.

Lemma In_firstn_Z (n : nat) (l : list Z) x : In x (firstn n l) -> In x l.
Proof.
  revert l; induction n as [|n IH]; intros l Hin; [destruct Hin|].
  destruct l as [|y r]; [destruct Hin|]. cbn [firstn] in Hin. destruct Hin as [H|H]; [left; exact H|right; apply IH; exact H].
Qed.

Lemma NoDup_firstn_Z (n : nat) (l : list Z) : NoDup l -> NoDup (firstn n l).
Proof.
  revert l; induction n as [|n IH]; intros l Hd; [constructor|].
  destruct l as [|y r]; [constructor|]. cbn [firstn]. inversion Hd as [|y' r' Hn Hd']; subst.
  constructor; [|apply IH; exact Hd']. intros Hin. apply Hn. apply In_firstn_Z in Hin. exact Hin.
Qed.

(* ---------- the separate clauses ---------- *)
Section Clauses.
Variables (d : dset) (b : nat) (chans : list Z).
Hypothesis Hleg : legal_at d b chans = true.

Let Hparts :
  (length (np_unique chans) =? length chans)%nat = true /\
  forallb (fun ch => (0 <=? ch) && (ch <? Z.of_nat (n_channels d)) && on_shank_b d b ch &&
                     (dist_of d b ch <=? cut_of d b)) chans = true /\
  forallb (fun ch => negb (on_shank_b d b ch && (dist_of d b ch <? cut_of d b)) || memZ ch chans)
          (zrange 0 (n_channels d)) = true /\
  memZ (Z.of_nat b) chans = true.
Proof.
  pose proof Hleg as H. unfold legal_at in H. cbv zeta in H.
  repeat (apply andb_true_iff in H; destruct H as [H ?]).
  repeat split; assumption.
Qed.

Lemma legal_at_listed ch : In ch chans ->
  is_chan d ch /\ on_shank_b d b ch = true /\ dist_of d b ch <= cut_of d b.
Proof.
  intros Hin. destruct Hparts as (_ & Hf & _ & _).
  rewrite forallb_forall in Hf. specialize (Hf ch Hin).
  apply andb_true_iff in Hf; destruct Hf as [Hf Hw].
  apply andb_true_iff in Hf; destruct Hf as [Hf Hs].
  apply andb_true_iff in Hf; destruct Hf as [H0 H1].
  unfold is_chan. repeat split; try assumption; lia.
Qed.

Lemma legal_at_nearer ch : is_chan d ch -> on_shank_b d b ch = true -> dist_of d b ch < cut_of d b -> In ch chans.
Proof.
  intros Hc Hs Hlt. destruct Hparts as (_ & _ & Hf & _).
  rewrite forallb_forall in Hf. unfold is_chan in Hc.
  assert (Hin : In ch (zrange 0 (n_channels d))) by (apply zrange_in; lia).
  specialize (Hf ch Hin). rewrite Hs in Hf.
  replace (dist_of d b ch <? cut_of d b) with true in Hf by lia.
  cbn [andb negb orb] in Hf. apply memZ_In. exact Hf.
Qed.

Lemma legal_at_nodup : NoDup chans.
Proof. destruct Hparts as (Hn & _). apply np_unique_full_NoDup. apply Nat.eqb_eq. exact Hn. Qed.

Lemma legal_at_peak : In (Z.of_nat b) chans.
Proof. destruct Hparts as (_ & _ & _ & Hm). apply memZ_In. exact Hm. Qed.

Lemma legal_at_count : exists S, Nearest d b S /\ forall ch, In ch chans <-> In ch S /\ on_shank_b d b ch = true.
Proof.
  set (all := zrange 0 (n_channels d)).
  set (fl := fun ch => dist_of d b ch <? cut_of d b).
  set (fe := fun ch => dist_of d b ch =? cut_of d b).
  set (fo := fun ch => (dist_of d b ch =? cut_of d b) && negb (on_shank_b d b ch)).
  assert (Hcnt : Z.of_nat (n_keep d) - zcount fl all - zcount fo all <= zcount fe chans /\
                 zcount fe chans <= Z.of_nat (n_keep d) - zcount fl all).
  { pose proof Hleg as H. unfold legal_at in H. cbv zeta in H.
    apply andb_true_iff in H; destruct H as [Hl Hb].
    apply andb_true_iff in Hl; destruct Hl as [_ Ha].
    subst all fl fe fo. cbv beta. split; lia. }
  unfold zcount in Hcnt. destruct Hcnt as [Hlo Hhi].
  set (p1 := filter fl all) in *. set (p2 := filter fe chans) in *. set (po := filter fo all) in *.
  set (m := (n_keep d - length p1 - length p2)%nat).
  assert (Hm : (m <= length po)%nat) by (subst m; lia).
  assert (Hsum : (length p1 + length p2 <= n_keep d)%nat) by lia.
  exists (p1 ++ p2 ++ firstn m po).
  assert (Hall_nd : NoDup all) by apply zrange_NoDup.
  assert (Hin1 : forall x, In x p1 -> is_chan d x /\ dist_of d b x < cut_of d b).
  { intros x Hx. apply filter_In in Hx. destruct Hx as [Hx Hf]. apply zrange_ge in Hx.
    unfold is_chan. subst fl. cbv beta in Hf. split; lia. }
  assert (Hin2 : forall x, In x p2 -> In x chans /\ dist_of d b x = cut_of d b).
  { intros x Hx. apply filter_In in Hx. destruct Hx as [Hx Hf]. subst fe. cbv beta in Hf. split; [exact Hx|lia]. }
  assert (Hin3 : forall x, In x (firstn m po) ->
                           is_chan d x /\ dist_of d b x = cut_of d b /\ on_shank_b d b x = false).
  { intros x Hx. apply In_firstn_Z in Hx. apply filter_In in Hx. destruct Hx as [Hx Hf]. apply zrange_ge in Hx.
    subst fo. cbv beta in Hf. apply andb_true_iff in Hf. destruct Hf as [He Hs].
    apply negb_true_iff in Hs. unfold is_chan. repeat split; try assumption; lia. }
  split; [constructor|].
  - apply NoDup_app_Z; [apply NoDup_filter_Z; exact Hall_nd| |].
    + apply NoDup_app_Z; [apply NoDup_filter_Z; exact legal_at_nodup|apply NoDup_firstn_Z, NoDup_filter_Z; exact Hall_nd|].
      intros x Hx2 Hx3. apply Hin2 in Hx2. apply Hin3 in Hx3. destruct Hx2 as [Hc _].
      apply legal_at_listed in Hc. destruct Hc as (_ & Hs & _). destruct Hx3 as (_ & _ & Hs'). congruence.
    + intros x Hx1 Hx23. apply Hin1 in Hx1. apply in_app_or in Hx23. destruct Hx23 as [Hx|Hx].
      * apply Hin2 in Hx. lia.
      * apply Hin3 in Hx. lia.
  - rewrite !app_length, firstn_length_le by exact Hm. subst m. lia.
  - intros ch Hin. apply in_app_or in Hin. destruct Hin as [Hin|Hin]; [apply Hin1 in Hin; tauto|].
    apply in_app_or in Hin. destruct Hin as [Hin|Hin]; [|apply Hin3 in Hin; tauto].
    apply Hin2 in Hin. destruct Hin as [Hc _]. apply legal_at_listed in Hc. tauto.
  - intros ch Hin. apply in_app_or in Hin. destruct Hin as [Hin|Hin]; [apply Hin1 in Hin; lia|].
    apply in_app_or in Hin. destruct Hin as [Hin|Hin]; [apply Hin2 in Hin; lia|apply Hin3 in Hin; lia].
  - intros ch Hc Hlt. apply in_or_app. left. apply filter_In. split.
    + apply zrange_in. unfold is_chan in Hc. lia.
    + subst fl. cbv beta. lia.
  - intros ch. split.
    + intros Hin. destruct (legal_at_listed ch Hin) as (Hc & Hs & Hw). split; [|exact Hs].
      apply in_or_app. destruct (Z.eq_dec (dist_of d b ch) (cut_of d b)) as [He|Hne].
      * right. apply in_or_app. left. apply filter_In. split; [exact Hin|]. subst fe. cbv beta. lia.
      * left. apply filter_In. split; [apply zrange_in; unfold is_chan in Hc; lia|]. subst fl. cbv beta. lia.
    + intros [Hin Hs]. apply in_app_or in Hin. destruct Hin as [Hin|Hin].
      * apply Hin1 in Hin. destruct Hin as [Hc Hlt]. apply legal_at_nearer; assumption.
      * apply in_app_or in Hin. destruct Hin as [Hin|Hin]; [apply Hin2 in Hin; tauto|].
        apply Hin3 in Hin. destruct Hin as (_ & _ & Hs'). congruence.
Qed.

Lemma legal_at_Legal : Legal d b chans.
Proof.
  constructor.
  - exact legal_at_nodup.
  - exact legal_at_peak.
  - intros ch Hin. apply legal_at_listed in Hin. tauto.
  - intros ch Hin. apply legal_at_listed in Hin. tauto.
  - intros ch Hin. apply legal_at_listed in Hin. tauto.
  - intros ch ch' Hin' Hc Hs Hlt. apply legal_at_listed in Hin'. destruct Hin' as (_ & _ & Hw).
    apply legal_at_nearer; try assumption. lia.
  - exact legal_at_count.
Qed.
End Clauses.

(* ---------- the theorems on legal_chans itself ---------- *)
Lemma legal_chans_peak d unw t chans : legal_chans d unw t chans = true ->
  exists b, peak_chan d unw t = Some b /\ legal_at d b chans = true.
Proof.
  rewrite legal_chans_eq. destruct (peak_chan d unw t) as [b|]; [|discriminate].
  intros H. exists b. split; [reflexivity|exact H].
Qed.

(* (b) every listed channel is a channel on the peak channel's shank *)
Theorem legal_chans_on_shank d unw t chans : legal_chans d unw t chans = true ->
  exists b, peak_chan d unw t = Some b /\ In (Z.of_nat b) chans /\
            forall ch, In ch chans -> is_chan d ch /\ on_shank_b d b ch = true.
Proof.
  intros H. apply legal_chans_peak in H. destruct H as (b & Hp & Hl). exists b.
  split; [exact Hp|]. split; [exact (legal_at_peak d b chans Hl)|].
  intros ch Hin. apply (legal_at_listed d b chans Hl) in Hin. tauto.
Qed.
Print Assumptions legal_chans_on_shank.

(* (b) downward closed by distance on the shank *)
Theorem legal_chans_closed d unw t chans : legal_chans d unw t chans = true ->
  exists b, peak_chan d unw t = Some b /\
            forall ch ch', In ch' chans -> is_chan d ch -> on_shank_b d b ch = true ->
                           dist_of d b ch < dist_of d b ch' -> In ch chans.
Proof.
  intros H. apply legal_chans_peak in H. destruct H as (b & Hp & Hl). exists b.
  split; [exact Hp|]. exact (lg_closed d b chans (legal_at_Legal d b chans Hl)).
Qed.
Print Assumptions legal_chans_closed.

(* (b) nothing beyond the cut distance *)
Theorem legal_chans_within d unw t chans : legal_chans d unw t chans = true ->
  exists b, peak_chan d unw t = Some b /\ forall ch, In ch chans -> dist_of d b ch <= cut_of d b.
Proof.
  intros H. apply legal_chans_peak in H. destruct H as (b & Hp & Hl). exists b.
  split; [exact Hp|]. exact (lg_within d b chans (legal_at_Legal d b chans Hl)).
Qed.
Print Assumptions legal_chans_within.

(* (a) *)
Theorem legal_chans_sound d unw t chans : legal_chans d unw t chans = true ->
  exists b, peak_chan d unw t = Some b /\ Legal d b chans.
Proof.
  intros H. apply legal_chans_peak in H. destruct H as (b & Hp & Hl). exists b.
  split; [exact Hp|exact (legal_at_Legal d b chans Hl)].
Qed.
Print Assumptions legal_chans_sound.

(* a Nearest selection is downward closed by distance: it is a prefix of SOME argsort of the distances *)
Theorem Nearest_down_closed d b S : Nearest d b S ->
  forall ch ch', In ch' S -> is_chan d ch -> dist_of d b ch < dist_of d b ch' -> In ch S.
Proof.
  intros HN ch ch' Hin' Hc Hlt. apply (nr_closed d b S HN); [exact Hc|].
  pose proof (nr_within d b S HN ch' Hin'). lia.
Qed.
Print Assumptions Nearest_down_closed.

(* the number of listed channels: what is forced *)
Theorem legal_chans_length d unw t chans : legal_chans d unw t chans = true ->
  (1 <= length chans <= n_keep d)%nat.
Proof.
  intros H. apply legal_chans_sound in H. destruct H as (b & _ & HL).
  destruct (lg_count d b chans HL) as (S & HN & Hiff).
  split.
  - pose proof (lg_peak d b chans HL) as Hp. destruct chans; [destruct Hp|cbn [length]; lia].
  - rewrite <- (nr_len d b S HN). apply NoDup_incl_length; [exact (lg_nodup d b chans HL)|].
    intros x Hx. apply Hiff in Hx. tauto.
Qed.
Print Assumptions legal_chans_length.

(* ---------- the cut distance IS the n_keep-th smallest distance ---------- *)
Lemma map_fst_combine_seq (l : list Z) s : map fst (combine l (seq s (length l))) = l.
Proof.
  revert s; induction l as [|x l IH]; intros s; cbn [length seq combine map fst]; [reflexivity|].
  rewrite IH. reflexivity.
Qed.

Lemma sortedk_map_fst {V} (l : list (Z * V)) : sortedk l -> Sorted Z.le (map fst l).
Proof.
  induction 1 as [|x|x y r Hxy Hs IH]; cbn [map]; [constructor|repeat constructor|].
  constructor; [exact IH|]. constructor. exact Hxy.
Qed.

(* sorted_dists d b is the non-decreasing rearrangement of the distances from b *)
Theorem sorted_dists_spec d b :
  Permutation (sorted_dists d b) (dists_from d b) /\ StronglySorted Z.le (sorted_dists d b).
Proof.
  unfold sorted_dists, dists_from.
  destruct (nth_error (d_px d) b) as [x0|]; [|split; constructor].
  destruct (nth_error (d_py d) b) as [y0|]; [|split; constructor].
  cbv zeta.
  set (dd := zip_with Z.add (map (fun x => (x - x0) * (x - x0)) (d_px d))
                            (map (fun y => (y - y0) * (y - y0)) (d_py d))).
  split.
  - apply Permutation_trans with (map fst (combine dd (seq 0 (length dd)))).
    + apply Permutation_map. apply isort_perm.
    + rewrite map_fst_combine_seq. apply Permutation_refl.
  - apply Sorted_StronglySorted; [intros x y z; apply Z.le_trans|].
    apply sortedk_map_fst. apply isort_sorted.
Qed.
Print Assumptions sorted_dists_spec.

Lemma SS_split (l1 l2 : list Z) x : StronglySorted Z.le (l1 ++ x :: l2) ->
  Forall (fun y => y <= x) l1 /\ Forall (fun y => x <= y) l2.
Proof.
  induction l1 as [|a l1 IH]; cbn [app]; intros H; inversion H as [|a' l' Hs Hall]; subst.
  - split; [constructor|exact Hall].
  - destruct (IH Hs) as [H1 H2]. split; [|exact H2]. constructor; [|exact H1].
    rewrite Forall_forall in Hall. apply Hall. apply in_elt.
Qed.

Lemma filter_len_le (f : Z -> bool) l : (length (filter f l) <= length l)%nat.
Proof. induction l as [|x l IH]; cbn [filter length]; [lia|]. destruct (f x); cbn [length]; lia. Qed.

Lemma filter_all (f : Z -> bool) l : Forall (fun x => f x = true) l -> filter f l = l.
Proof. induction 1 as [|x l Hx _ IH]; cbn [filter]; [reflexivity|]. rewrite Hx, IH. reflexivity. Qed.

Lemma filter_none_Z (f : Z -> bool) l : Forall (fun x => f x = false) l -> filter f l = [].
Proof. induction 1 as [|x l Hx _ IH]; cbn [filter]; [reflexivity|]. rewrite Hx, IH. reflexivity. Qed.

Lemma filter_len_perm (f : Z -> bool) l l' : Permutation l l' -> length (filter f l) = length (filter f l').
Proof.
  induction 1 as [|x l l' _ IH|x y l|l l' l'' _ IH1 _ IH2]; cbn [filter]; [reflexivity| | |lia].
  - destruct (f x); cbn [length]; lia.
  - destruct (f x), (f y); cbn [length]; lia.
Qed.

(* order statistic: fewer than n values are < the n-th smallest, at least n are <= it *)
Lemma kth_count (s : list Z) (n : nat) : StronglySorted Z.le s -> (1 <= n <= length s)%nat ->
  (length (filter (fun x => (x <? nth (n - 1)%nat s (-1))%Z) s) < n)%nat /\
  (n <= length (filter (fun x => (x <=? nth (n - 1)%nat s (-1))%Z) s))%nat.
Proof.
  intros Hs Hn. set (D := nth (n - 1) s (-1)).
  destruct (nth_split s (-1) (n := (n - 1)%nat)) as (l1 & l2 & Heq & Hlen); [lia|].
  fold D in Heq. rewrite Heq in Hs. apply SS_split in Hs. destruct Hs as [H1 H2].
  rewrite Heq, !filter_app, !app_length. cbn [filter]. split.
  - replace (D <? D) with false by lia.
    rewrite (filter_none_Z (fun x => x <? D) l2).
    + pose proof (filter_len_le (fun x => x <? D) l1). cbn [length]. lia.
    + eapply Forall_impl; [|exact H2]. cbv beta. intros a Ha. lia.
  - replace (D <=? D) with true by lia.
    rewrite (filter_all (fun x => x <=? D) l1).
    + cbn [length]. lia.
    + eapply Forall_impl; [|exact H1]. cbv beta. intros a Ha. lia.
Qed.

(* in distances: fewer than n_keep distances from b are < cut_of d b, at least n_keep are <= it *)
Theorem cut_of_is_kth d b : (b < n_channels d)%nat -> length (d_py d) = n_channels d ->
  (length (filter (fun x => (x <? cut_of d b)%Z) (dists_from d b)) < n_keep d)%nat /\
  (n_keep d <= length (filter (fun x => (x <=? cut_of d b)%Z) (dists_from d b)))%nat /\
  length (dists_from d b) = n_channels d.
Proof.
  intros Hb Hpy. destruct (sorted_dists_spec d b) as [Hperm Hss].
  assert (Hlen : length (dists_from d b) = n_channels d).
  { unfold dists_from, n_channels in *.
    destruct (nth_error (d_px d) b) as [x0|] eqn:Ex; [|apply nth_error_None in Ex; lia].
    destruct (nth_error (d_py d) b) as [y0|] eqn:Ey; [|apply nth_error_None in Ey; lia].
    clear Ex Ey Hperm Hss Hb.
    generalize (fun x => (x - x0) * (x - x0)) as f, (fun y => (y - y0) * (y - y0)) as g.
    intros f g. revert Hpy. generalize (d_py d) as py. generalize (d_px d) as px.
    induction px as [|x px IH]; intros [|y py] Hl; cbn [length map zip_with] in *; try lia.
    rewrite IH; lia. }
  pose proof (Permutation_length Hperm) as Hl2.
  assert (Hk : (1 <= n_keep d <= length (sorted_dists d b))%nat).
  { unfold n_keep, n_closest_channels. change (Z.to_nat 12) with 12%nat. lia. }
  destruct (kth_count (sorted_dists d b) (n_keep d) Hss Hk) as [H1 H2].
  fold (cut_of d b) in H1, H2.
  rewrite (filter_len_perm _ _ _ Hperm) in H1. rewrite (filter_len_perm _ _ _ Hperm) in H2.
  repeat split; assumption.
Qed.
Print Assumptions cut_of_is_kth.

(* ---------- (c) without a boundary tie the legal set is unique and has a closed form ---------- *)
(* no distance tie across the cut: exactly n_keep channels are within the cut distance *)
Definition NoTie (d : dset) (b : nat) : Prop :=
  zcount (fun ch => dist_of d b ch <=? cut_of d b) (zrange 0 (n_channels d)) = Z.of_nat (n_keep d).

Lemma Nearest_no_tie d b S : NoTie d b -> Nearest d b S ->
  forall ch, In ch S <-> is_chan d ch /\ dist_of d b ch <= cut_of d b.
Proof.
  intros Ht HN ch. split.
  - intros Hin. split; [exact (nr_chan d b S HN ch Hin)|exact (nr_within d b S HN ch Hin)].
  - intros [Hc Hw].
    set (T := filter (fun ch => dist_of d b ch <=? cut_of d b) (zrange 0 (n_channels d))).
    assert (HST : incl S T).
    { intros x Hx. apply filter_In. pose proof (nr_chan d b S HN x Hx) as Hxc.
      pose proof (nr_within d b S HN x Hx) as Hxw. unfold is_chan in Hxc.
      split; [apply zrange_in; lia|lia]. }
    assert (HTS : incl T S).
    { apply NoDup_length_incl; [exact (nr_nodup d b S HN)| |exact HST].
      rewrite (nr_len d b S HN). unfold NoTie, zcount in Ht. fold T in Ht. lia. }
    apply HTS. apply filter_In. unfold is_chan in Hc. split; [apply zrange_in; lia|lia].
Qed.

(* without a tie a legal list is, as a set, { channels on the peak's shank within the cut distance }:
   all legal lists of a template have the same elements *)
Theorem legal_chans_no_tie d unw t chans : legal_chans d unw t chans = true ->
  exists b, peak_chan d unw t = Some b /\
            (NoTie d b -> NoDup chans /\
               forall ch, In ch chans <->
                          is_chan d ch /\ on_shank_b d b ch = true /\ dist_of d b ch <= cut_of d b).
Proof.
  intros H. apply legal_chans_sound in H. destruct H as (b & Hp & HL). exists b.
  split; [exact Hp|]. intros Ht. split; [exact (lg_nodup d b chans HL)|].
  destruct (lg_count d b chans HL) as (S & HN & Hiff). intros ch.
  rewrite Hiff, (Nearest_no_tie d b S Ht HN). tauto.
Qed.
Print Assumptions legal_chans_no_tie.

Corollary legal_chans_unique d unw t c1 c2 b : peak_chan d unw t = Some b -> NoTie d b ->
  legal_chans d unw t c1 = true -> legal_chans d unw t c2 = true -> forall ch, In ch c1 <-> In ch c2.
Proof.
  intros Hp Ht H1 H2 ch.
  apply legal_chans_no_tie in H1. destruct H1 as (b1 & Hp1 & H1).
  apply legal_chans_no_tie in H2. destruct H2 as (b2 & Hp2 & H2).
  rewrite Hp in Hp1, Hp2. injection Hp1 as <-. injection Hp2 as <-.
  destruct (H1 Ht) as [_ E1]. destruct (H2 Ht) as [_ E2]. rewrite E1, E2. tauto.
Qed.
Print Assumptions legal_chans_unique.

(* ---------- Corr.boundary_ok (the comparator's determined regime) gives NoTie ---------- *)
Lemma sorted_cut_count (s : list Z) (n : nat) : StronglySorted Z.le s -> (1 <= n <= length s)%nat ->
  (n = length s \/ nth (n - 1) s (-1) <> nth n s (-2)) ->
  length (filter (fun x => x <=? nth (n - 1) s (-1)) s) = n.
Proof.
  intros Hs Hn Hcut. set (D := nth (n - 1) s (-1)) in *.
  destruct (nth_split s (-1) (n := (n - 1)%nat)) as (l1 & l2 & Heq & Hlen); [lia|].
  fold D in Heq.
  assert (H1 : Forall (fun y => y <= D) l1) by (rewrite Heq in Hs; apply SS_split in Hs; tauto).
  assert (Hfl1 : filter (fun x => x <=? D) l1 = l1).
  { apply filter_all. eapply Forall_impl; [|exact H1]. cbv beta. intros a Ha. lia. }
  destruct l2 as [|y l2].
  - rewrite Heq, filter_app, Hfl1. cbn [filter]. replace (D <=? D) with true by lia.
    rewrite app_length. cbn [length]. lia.
  - assert (Hy : nth n s (-2) = y).
    { rewrite Heq. rewrite app_nth2 by lia. replace (n - length l1)%nat with 1%nat by lia. reflexivity. }
    assert (Hls : length s = (n + 1 + length l2)%nat).
    { rewrite Heq, app_length. cbn [length]. lia. }
    destruct Hcut as [Hcut|Hcut]; [lia|]. rewrite Hy in Hcut.
    assert (HDy : D <= y).
    { rewrite Heq in Hs. apply SS_split in Hs. destruct Hs as [_ H2]. inversion H2; assumption. }
    assert (H2 : Forall (fun z => y <= z) l2).
    { rewrite Heq in Hs. change (l1 ++ D :: y :: l2) with (l1 ++ [D] ++ y :: l2) in Hs.
      rewrite app_assoc in Hs. apply SS_split in Hs. tauto. }
    rewrite Heq, filter_app, Hfl1. cbn [filter].
    replace (D <=? D) with true by lia. replace (y <=? D) with false by lia.
    rewrite (filter_none_Z (fun x => x <=? D) l2).
    + rewrite app_length. cbn [length]. lia.
    + eapply Forall_impl; [|exact H2]. cbv beta. intros a Ha. lia.
Qed.

Lemma filter_ext_in_Z (f g : Z -> bool) l : (forall x, In x l -> f x = g x) -> filter f l = filter g l.
Proof.
  induction l as [|x l IH]; intros H; cbn [filter]; [reflexivity|].
  rewrite (H x (or_introl eq_refl)), IH; [reflexivity|]. intros y Hy. apply H. right; exact Hy.
Qed.

Lemma filter_zrange_nth (f : Z -> bool) dd :
  length (filter (fun ch => f (nth (Z.to_nat ch) dd (-1))) (zrange 0 (length dd))) = length (filter f dd).
Proof.
  induction dd as [|x dd IH] using rev_ind; [reflexivity|].
  rewrite app_length. cbn [length]. rewrite zrange_app, !filter_app, !app_length.
  f_equal.
  - rewrite <- IH. f_equal. apply filter_ext_in_Z. intros ch Hch. apply zrange_ge in Hch.
    rewrite app_nth1 by lia. reflexivity.
  - cbn [zrange filter]. rewrite Z.add_0_l, Nat2Z.id, app_nth2 by lia. rewrite Nat.sub_diag. cbn [nth].
    destruct (f x); reflexivity.
Qed.

Theorem boundary_ok_NoTie d b : boundary_ok d = true -> (b < n_channels d)%nat ->
  length (d_py d) = n_channels d -> NoTie d b.
Proof.
  intros Hbo Hb Hpy. destruct (sorted_dists_spec d b) as [Hperm Hss].
  destruct (cut_of_is_kth d b Hb Hpy) as (_ & _ & Hlen).
  pose proof (Permutation_length Hperm) as Hl2.
  unfold boundary_ok in Hbo. cbv zeta in Hbo. rewrite forallb_forall in Hbo.
  specialize (Hbo b). rewrite in_seq in Hbo. specialize (Hbo (conj (Nat.le_0_l b) Hb)).
  apply andb_true_iff in Hbo. destruct Hbo as [_ Hbo].
  change (Z.to_nat n_closest_channels) with 12%nat in Hbo.
  assert (Hk : (1 <= n_keep d <= length (sorted_dists d b))%nat).
  { unfold n_keep, n_closest_channels. change (Z.to_nat 12) with 12%nat. lia. }
  unfold NoTie, zcount. f_equal. unfold dist_of. rewrite <- Hlen.
  rewrite (filter_zrange_nth (fun x => x <=? cut_of d b) (dists_from d b)).
  rewrite <- (filter_len_perm _ _ _ Hperm). unfold cut_of.
  apply sorted_cut_count; [exact Hss|exact Hk|].
  destruct (n_channels d <=? 12)%nat eqn:E.
  - left. apply Nat.leb_le in E. unfold n_keep, n_closest_channels. change (Z.to_nat 12) with 12%nat. lia.
  - right. apply Nat.leb_gt in E. apply negb_true_iff in Hbo.
    assert (Hnk : n_keep d = 12%nat).
    { unfold n_keep, n_closest_channels. change (Z.to_nat 12) with 12%nat. lia. }
    rewrite Hnk. change (12 - 1)%nat with 11%nat. lia.
Qed.
Print Assumptions boundary_ok_NoTie.

(* ---------- non-vacuity: the 16-channel linear probe of Corr.ex_line, peak 8, tie between channels 2 and 14 ---------- *)
Example ex_line_sound :
  peak_chan ex_line false 0 = Some 8%nat /\ cut_of ex_line 8 = 14400 /\
  dist_of ex_line 8 2 = 14400 /\ dist_of ex_line 8 14 = 14400 /\
  Legal ex_line 8 (zrange 2 12) /\ Legal ex_line 8 (zrange 3 12).
Proof.
  split; [vm_compute; reflexivity|]. split; [vm_compute; reflexivity|].
  split; [vm_compute; reflexivity|]. split; [vm_compute; reflexivity|]. split.
  - assert (H : legal_chans ex_line false 0 (zrange 2 12) = true) by (vm_compute; reflexivity).
    apply legal_chans_sound in H. destruct H as (b & Hp & HL).
    assert (Hb : peak_chan ex_line false 0 = Some 8%nat) by (vm_compute; reflexivity).
    rewrite Hb in Hp. injection Hp as <-. exact HL.
  - assert (H : legal_chans ex_line false 0 (zrange 3 12) = true) by (vm_compute; reflexivity).
    apply legal_chans_sound in H. destruct H as (b & Hp & HL).
    assert (Hb : peak_chan ex_line false 0 = Some 8%nat) by (vm_compute; reflexivity).
    rewrite Hb in Hp. injection Hp as <-. exact HL.
Qed.

(* template 1 peaks on channel 3: no tie there (boundary_ok fails on ex_line only because of peaks like 8) *)
Example ex_line_no_tie :
  peak_chan ex_line false 1 = Some 3%nat /\ NoTie ex_line 3 /\ ~ NoTie ex_line 8 /\
  (forall ch, In ch (chans_of ex_line false 1) <->
              is_chan ex_line ch /\ on_shank_b ex_line 3 ch = true /\ dist_of ex_line 3 ch <= cut_of ex_line 3).
Proof.
  assert (Hp : peak_chan ex_line false 1 = Some 3%nat) by (vm_compute; reflexivity).
  assert (Ht : NoTie ex_line 3) by (unfold NoTie; vm_compute; reflexivity).
  split; [exact Hp|]. split; [exact Ht|]. split.
  - unfold NoTie. intros H. vm_compute in H. discriminate.
  - assert (H : legal_chans ex_line false 1 (chans_of ex_line false 1) = true) by (vm_compute; reflexivity).
    apply legal_chans_no_tie in H. destruct H as (b & Hb & H). rewrite Hp in Hb. injection Hb as <-.
    exact (proj2 (H Ht)).
Qed.

(* ---------- completeness: legal_chans accepts EVERY Legal list (so legal_chans <-> Legal) ---------- *)
Lemma ins_u_length_notin x u : ~ In x u -> length (ins_u x u) = S (length u).
Proof.
  induction u as [|y r IH]; intros Hn; cbn [ins_u length]; [reflexivity|].
  destruct (x <? y) eqn:E1; [reflexivity|]. destruct (x =? y) eqn:E2.
  - exfalso. apply Hn. left. lia.
  - cbn [length]. rewrite IH; [reflexivity|]. intros H. apply Hn. right; exact H.
Qed.

Lemma NoDup_np_unique_length l : NoDup l -> length (np_unique l) = length l.
Proof.
  induction 1 as [|x l Hn Hd IH]; [reflexivity|]. cbn [np_unique fold_right length]. fold (np_unique l).
  rewrite ins_u_length_notin; [lia|]. rewrite np_unique_in. exact Hn.
Qed.

Lemma filter_split2 (f g : Z -> bool) l : (forall x, In x l -> f x = negb (g x)) ->
  length l = (length (filter f l) + length (filter g l))%nat.
Proof.
  induction l as [|x l IH]; intros H; [reflexivity|]. cbn [filter length].
  rewrite (H x (or_introl eq_refl)). rewrite IH by (intros y Hy; apply H; right; exact Hy).
  destruct (g x); cbn [negb length]; lia.
Qed.

Lemma NoDup_same_length (a c : list Z) : NoDup a -> NoDup c -> (forall x, In x a <-> In x c) -> length a = length c.
Proof. intros Ha Hc H. apply Permutation_length. apply NoDup_Permutation; assumption. Qed.

Theorem legal_at_complete d b chans : Legal d b chans -> legal_at d b chans = true.
Proof.
  intros HL. destruct (lg_count d b chans HL) as (S & HN & Hiff).
  pose proof (lg_nodup d b chans HL) as Hnd. pose proof (nr_nodup d b S HN) as HSnd.
  pose proof (nr_len d b S HN) as Hlen.
  set (all := zrange 0 (n_channels d)).
  set (fl := fun ch => dist_of d b ch <? cut_of d b).
  set (fe := fun ch => dist_of d b ch =? cut_of d b).
  set (fo := fun ch => (dist_of d b ch =? cut_of d b) && negb (on_shank_b d b ch)).
  set (gon := on_shank_b d b). set (gof := fun ch => negb (on_shank_b d b ch)).
  assert (Hall_nd : NoDup all) by apply zrange_NoDup.
  assert (Hall_in : forall x, In x all <-> is_chan d x).
  { intros x. unfold is_chan. split; intros Hx; [apply zrange_ge in Hx; lia|apply zrange_in; lia]. }
  assert (E1 : length (filter fl S) = length (filter fl all)).
  { apply NoDup_same_length; [apply NoDup_filter_Z; exact HSnd|apply NoDup_filter_Z; exact Hall_nd|].
    intros x. rewrite !filter_In. split; intros [Hx Hf].
    - split; [apply Hall_in; exact (nr_chan d b S HN x Hx)|exact Hf].
    - split; [|exact Hf]. apply (nr_closed d b S HN); [apply Hall_in; exact Hx|]. subst fl. cbv beta in Hf. lia. }
  assert (E2 : length S = (length (filter fl S) + length (filter fe S))%nat).
  { apply filter_split2. intros x Hx. pose proof (nr_within d b S HN x Hx) as Hw. subst fl fe. cbv beta.
    destruct (Z.ltb_spec (dist_of d b x) (cut_of d b)), (Z.eqb_spec (dist_of d b x) (cut_of d b));
      cbn [negb]; try reflexivity; exfalso; lia. }
  assert (E3 : length (filter fe S) = (length (filter gon (filter fe S)) + length (filter gof (filter fe S)))%nat).
  { apply filter_split2. intros x _. subst gon gof. cbv beta. rewrite negb_involutive. reflexivity. }
  assert (E4 : length (filter gon (filter fe S)) = length (filter fe chans)).
  { apply NoDup_same_length; [apply NoDup_filter_Z, NoDup_filter_Z; exact HSnd|apply NoDup_filter_Z; exact Hnd|].
    intros x. rewrite !filter_In, Hiff. subst gon. cbv beta. tauto. }
  assert (E5 : (length (filter gof (filter fe S)) <= length (filter fo all))%nat).
  { apply NoDup_incl_length; [apply NoDup_filter_Z, NoDup_filter_Z; exact HSnd|].
    intros x Hx. apply filter_In in Hx. destruct Hx as [Hx Ho]. apply filter_In in Hx. destruct Hx as [Hx He].
    apply filter_In. split; [apply Hall_in; exact (nr_chan d b S HN x Hx)|].
    subst fo fe gof. cbv beta in *. rewrite He, Ho. reflexivity. }
  unfold legal_at. cbv zeta. unfold zcount. fold all. fold fl. fold fe. fold fo.
  repeat (apply andb_true_iff; split).
  - apply Nat.eqb_eq. apply NoDup_np_unique_length. exact Hnd.
  - apply forallb_forall. intros ch Hin.
    pose proof (lg_chan d b chans HL ch Hin) as Hc. unfold is_chan in Hc.
    pose proof (lg_on_shank d b chans HL ch Hin) as Hs. pose proof (lg_within d b chans HL ch Hin) as Hw.
    rewrite Hs. replace (0 <=? ch) with true by lia. replace (ch <? Z.of_nat (n_channels d)) with true by lia.
    replace (dist_of d b ch <=? cut_of d b) with true by lia. reflexivity.
  - apply forallb_forall. intros ch Hin. apply Hall_in in Hin.
    destruct (on_shank_b d b ch) eqn:Hs; [|reflexivity].
    destruct (dist_of d b ch <? cut_of d b) eqn:Hlt; [|reflexivity].
    cbn [andb negb orb]. apply memZ_In. apply Hiff. split; [|exact Hs].
    apply (nr_closed d b S HN); [exact Hin|lia].
  - apply memZ_In. exact (lg_peak d b chans HL).
  - apply Z.leb_le. lia.
  - apply Z.leb_le. lia.
Qed.
Print Assumptions legal_at_complete.

(* legal_chans is EXACTLY Legal at the peak channel: sound and complete, every tie-break admitted, nothing else *)
Theorem legal_chans_iff d unw t chans :
  legal_chans d unw t chans = true <-> exists b, peak_chan d unw t = Some b /\ Legal d b chans.
Proof.
  split; [apply legal_chans_sound|]. intros (b & Hp & HL).
  rewrite legal_chans_eq, Hp. apply legal_at_complete. exact HL.
Qed.
Print Assumptions legal_chans_iff.

(* (c) both directions: without a boundary tie legal_chans accepts EXACTLY the duplicate-free lists of
   { channels on the peak's shank within the n_keep-th smallest distance } that contain the peak channel *)
Theorem legal_chans_no_tie_iff d unw t chans b : peak_chan d unw t = Some b -> NoTie d b ->
  (legal_chans d unw t chans = true <->
   NoDup chans /\ In (Z.of_nat b) chans /\
   forall ch, In ch chans <-> is_chan d ch /\ on_shank_b d b ch = true /\ dist_of d b ch <= cut_of d b).
Proof.
  intros Hp Ht. split.
  - intros H. pose proof (legal_chans_no_tie d unw t chans H) as (b1 & Hp1 & H1).
    pose proof (legal_chans_on_shank d unw t chans H) as (b2 & Hp2 & Hpk & _).
    rewrite Hp in Hp1, Hp2. injection Hp1 as <-. injection Hp2 as <-.
    destruct (H1 Ht) as [Hnd Hiff]. repeat split; try assumption; apply Hiff; assumption.
  - intros (Hnd & Hpk & Hiff). apply legal_chans_iff. exists b. split; [exact Hp|].
    constructor; try assumption.
    + intros ch Hin. apply Hiff in Hin. tauto.
    + intros ch Hin. apply Hiff in Hin. tauto.
    + intros ch Hin. apply Hiff in Hin. tauto.
    + intros ch ch' Hin' Hc Hs Hlt. apply Hiff in Hin'. destruct Hin' as (_ & _ & Hw').
      apply Hiff. split; [exact Hc|]. split; [exact Hs|lia].
    + exists (filter (fun ch => dist_of d b ch <=? cut_of d b) (zrange 0 (n_channels d))). split; [constructor|].
      * apply NoDup_filter_Z, zrange_NoDup.
      * unfold NoTie, zcount in Ht. lia.
      * intros ch Hin. apply filter_In in Hin. destruct Hin as [Hin _]. apply zrange_ge in Hin. unfold is_chan. lia.
      * intros ch Hin. apply filter_In in Hin. lia.
      * intros ch Hc Hlt. apply filter_In. unfold is_chan in Hc. split; [apply zrange_in; lia|lia].
      * intros ch. rewrite Hiff, filter_In. unfold is_chan. split.
        -- intros (Hc & Hs & Hw). split; [split; [apply zrange_in; lia|lia]|exact Hs].
        -- intros [[Hin Hw] Hs]. apply zrange_ge in Hin. repeat split; try assumption; lia.
Qed.
Print Assumptions legal_chans_no_tie_iff.
