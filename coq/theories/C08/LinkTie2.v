(* C08/LinkTie2.v -- the MODEL's own channel list is a legal selection.

   LinkTie.v: Corr.legal_chans d unw t chans = true <-> exists b, peak_chan d unw t = Some b /\ Legal d b chans.
   Here: the channel list computed by the model, chans_of d unw t = t_chans of get_template (through
   find_best_channels / closest / stable_argsort / intersect1d), satisfies Legal at the peak channel, hence is
   accepted by the comparator's relational check:

     chans_of_legal :  get_template d t unw = Some tp  ->  every row of the (unwhitened) template has n_channels
                       entries  ->  |py| = n_channels  ->  |shanks| = n_channels  ->
                       peak_chan d unw t = Some b  ->  Legal d b (chans_of d unw t)
     chans_of_accepted : same hypotheses -> legal_chans d unw t (chans_of d unw t) = true.

     get_template_ok / chans_of_legal_wf / chans_of_legal_distinct : the first hypothesis is derived from explicit
                       well-formedness (template present, n_channels columns, |py| = |shanks| = n_channels, no earlier
                       channel at the peak's position -- implied by Corr.distinct_ok).

   The selection S of lg_count is the model's own `closest` list: closest_Nearest shows that the first n_keep
   entries of the stable argsort of the distances are a Nearest selection (sorted-prefix structure of isort:
   sp_cut). *)
From Coq Require Import ZArith List Lia Bool Arith Permutation Sorted.
From PV Require Import Base.NpSearch Base.NpSort C08.Model C08.Spec C08.Proofs C08.Proofs2 C08.Corr C08.LinkTie.
Import ListNotations.
Open Scope Z_scope.

(* ---------- generic list facts ---------- *)
Lemma in_combine_seq (l : list Z) a v i :
  In (v, i) (combine l (seq a (length l))) <-> (a <= i < a + length l)%nat /\ v = nth (i - a) l (-1).
Proof.
  revert a; induction l as [|x l IH]; intros a; cbn [length seq combine In].
  - split; [intros []|intros [Hr _]; lia].
  - rewrite IH. split.
    + intros [E|[Hr Hv]].
      * injection E as <- <-. split; [lia|]. rewrite Nat.sub_diag. reflexivity.
      * split; [lia|]. replace (i - a)%nat with (S (i - S a)) by lia. exact Hv.
    + intros [Hr Hv]. destruct (Nat.eq_dec i a) as [->|Hne].
      * left. rewrite Nat.sub_diag in Hv. cbn [nth] in Hv. subst v. reflexivity.
      * right. split; [lia|]. replace (i - a)%nat with (S (i - S a)) in Hv by lia. exact Hv.
Qed.

Lemma in_combine_zrange (l : list Z) a v ch :
  In (v, ch) (combine l (zrange a (length l))) <->
  a <= ch < a + Z.of_nat (length l) /\ v = nth (Z.to_nat (ch - a)) l (-1).
Proof.
  revert a; induction l as [|x l IH]; intros a; cbn [length zrange combine In].
  - split; [intros []|intros [Hr _]; lia].
  - rewrite IH. split.
    + intros [E|[Hr Hv]].
      * injection E as <- <-. split; [lia|]. rewrite Z.sub_diag. reflexivity.
      * split; [lia|]. replace (Z.to_nat (ch - a)) with (S (Z.to_nat (ch - (a + 1)))) by lia. exact Hv.
    + intros [Hr Hv]. destruct (Z.eq_dec ch a) as [->|Hne].
      * left. rewrite Z.sub_diag in Hv. cbn [Z.to_nat nth] in Hv. subst v. reflexivity.
      * right. split; [lia|]. replace (Z.to_nat (ch - a)) with (S (Z.to_nat (ch - (a + 1)))) in Hv by lia. exact Hv.
Qed.

Lemma map_snd_combine_seq (l : list Z) a : map snd (combine l (seq a (length l))) = seq a (length l).
Proof.
  revert a; induction l as [|x l IH]; intros a; cbn [length seq combine map snd]; [reflexivity|].
  rewrite IH. reflexivity.
Qed.

Lemma map_snd_combine_zrange (l : list Z) a : map snd (combine l (zrange a (length l))) = zrange a (length l).
Proof.
  revert a; induction l as [|x l IH]; intros a; cbn [length zrange combine map snd]; [reflexivity|].
  rewrite IH. reflexivity.
Qed.

Lemma In_firstn_gen {A} (n : nat) (l : list A) x : In x (firstn n l) -> In x l.
Proof. intros H. rewrite <- (firstn_skipn n l). apply in_or_app. left. exact H. Qed.

Lemma NoDup_firstn_gen {A} (n : nat) (l : list A) : NoDup l -> NoDup (firstn n l).
Proof.
  revert l; induction n as [|n IH]; intros l Hd; [constructor|].
  destruct l as [|y r]; [constructor|]. cbn [firstn]. inversion Hd as [|y' r' Hn Hd']; subst.
  constructor; [|apply IH; exact Hd']. intros Hin. apply Hn. apply In_firstn_gen in Hin. exact Hin.
Qed.

Lemma firstn_min_length {A} (k : nat) (l : list A) : firstn (Nat.min k (length l)) l = firstn k l.
Proof.
  destruct (le_lt_dec k (length l)) as [H|H].
  - rewrite Nat.min_l by exact H. reflexivity.
  - rewrite Nat.min_r by lia. rewrite firstn_all. rewrite firstn_all2 by lia. reflexivity.
Qed.

Lemma NoDup_map_snd_filter {A B} (f : A * B -> bool) (l : list (A * B)) :
  NoDup (map snd l) -> NoDup (map snd (filter f l)).
Proof.
  induction l as [|p l IH]; intros Hd; cbn [filter map]; [constructor|].
  cbn [map] in Hd. inversion Hd as [|y r Hn Hd']; subst.
  destruct (f p); [|apply IH; exact Hd']. cbn [map]. constructor; [|apply IH; exact Hd'].
  intros Hin. apply Hn. apply in_map_iff in Hin. destruct Hin as (q & Hq & Hin).
  apply filter_In in Hin. apply in_map_iff. exists q. tauto.
Qed.

Lemma zip_with_length {A B C} (f : A -> B -> C) a b : length (zip_with f a b) = Nat.min (length a) (length b).
Proof.
  revert b; induction a as [|x a IH]; intros b; [reflexivity|].
  destruct b as [|y b]; [reflexivity|]. cbn [zip_with length]. rewrite IH. reflexivity.
Qed.

(* ---------- the sorted (distance, channel) pairs behind stable_argsort ---------- *)
Definition sorted_pairs (dd : list Z) : list (Z * nat) := isort (combine dd (seq 0 (length dd))).

Lemma sp_in dd v i : In (v, i) (sorted_pairs dd) <-> (i < length dd)%nat /\ v = nth i dd (-1).
Proof.
  unfold sorted_pairs. split.
  - intros H. apply (Permutation_in _ (isort_perm _)) in H. apply in_combine_seq in H.
    rewrite Nat.sub_0_r in H. destruct H as [H1 H2]. split; [lia|exact H2].
  - intros [H1 H2]. apply (Permutation_in _ (Permutation_sym (isort_perm _))). apply in_combine_seq.
    rewrite Nat.sub_0_r. split; [lia|exact H2].
Qed.

Lemma sp_length dd : length (sorted_pairs dd) = length dd.
Proof.
  unfold sorted_pairs. rewrite (Permutation_length (isort_perm _)), combine_length, seq_length. lia.
Qed.

Lemma sp_snd_perm dd : Permutation (map snd (sorted_pairs dd)) (seq 0 (length dd)).
Proof.
  unfold sorted_pairs. rewrite <- (map_snd_combine_seq dd 0) at 2. apply Permutation_map. apply isort_perm.
Qed.

Lemma sp_fst_sorted dd : StronglySorted Z.le (map fst (sorted_pairs dd)).
Proof.
  apply Sorted_StronglySorted; [intros x y z; apply Z.le_trans|].
  apply sortedk_map_fst. apply isort_sorted.
Qed.

(* the prefix / suffix structure at position k: the k-th smallest key separates them *)
Lemma sp_cut dd k : (1 <= k <= length dd)%nat ->
  (forall p, In p (firstn k (sorted_pairs dd)) -> fst p <= nth (k - 1) (map fst (sorted_pairs dd)) (-1)) /\
  (forall p, In p (skipn k (sorted_pairs dd)) -> nth (k - 1) (map fst (sorted_pairs dd)) (-1) <= fst p).
Proof.
  intros Hk. set (s := sorted_pairs dd). set (D := nth (k - 1) (map fst s) (-1)).
  pose proof (sp_fst_sorted dd) as Hss. fold s in Hss.
  destruct (nth_split (map fst s) (-1) (n := (k - 1)%nat)) as (l1 & l2 & Heq & Hlen).
  { rewrite map_length. unfold s. rewrite sp_length. lia. }
  fold D in Heq. rewrite Heq in Hss. apply SS_split in Hss. destruct Hss as [H1 H2].
  assert (Hf : firstn k (map fst s) = l1 ++ [D]).
  { rewrite Heq. replace k with (length l1 + 1)%nat by lia. rewrite firstn_app_2. reflexivity. }
  assert (Hsk : skipn k (map fst s) = l2).
  { rewrite Heq. change (l1 ++ D :: l2) with (l1 ++ [D] ++ l2). rewrite app_assoc.
    replace k with (length (l1 ++ [D])) by (rewrite app_length; cbn [length]; lia).
    rewrite skipn_app, skipn_all, Nat.sub_diag. reflexivity. }
  split; intros p Hp.
  - apply (in_map fst) in Hp. rewrite <- firstn_map, Hf in Hp. apply in_app_or in Hp.
    destruct Hp as [Hp|[Hp|[]]]; [|lia]. rewrite Forall_forall in H1. exact (H1 _ Hp).
  - apply (in_map fst) in Hp. rewrite <- skipn_map, Hsk in Hp. rewrite Forall_forall in H2. exact (H2 _ Hp).
Qed.

Lemma sa_eq dd : stable_argsort dd = map snd (sorted_pairs dd).
Proof. reflexivity. Qed.

Lemma sa_length dd : length (stable_argsort dd) = length dd.
Proof. rewrite sa_eq, map_length. apply sp_length. Qed.

Lemma sa_NoDup dd : NoDup (stable_argsort dd).
Proof.
  rewrite sa_eq. apply (Permutation_NoDup (Permutation_sym (sp_snd_perm dd))). apply seq_NoDup.
Qed.

(* the first k entries of the stable argsort: all within the k-th smallest key ... *)
Theorem argsort_prefix_within dd k i : (1 <= k <= length dd)%nat -> In i (firstn k (stable_argsort dd)) ->
  (i < length dd)%nat /\ nth i dd (-1) <= nth (k - 1) (map fst (sorted_pairs dd)) (-1).
Proof.
  intros Hk Hi. rewrite sa_eq, firstn_map in Hi. apply in_map_iff in Hi. destruct Hi as ([v j] & Hj & Hp).
  cbn [snd] in Hj. subst j.
  pose proof (proj1 (sp_cut dd k Hk) _ Hp) as Hle. cbn [fst] in Hle.
  apply In_firstn_gen in Hp. apply sp_in in Hp. destruct Hp as [Hl Hv]. subst v. split; assumption.
Qed.
Print Assumptions argsort_prefix_within.

(* ... and every position with a strictly smaller key is among them (downward closed) *)
Theorem argsort_prefix_closed dd k i : (1 <= k <= length dd)%nat -> (i < length dd)%nat ->
  nth i dd (-1) < nth (k - 1) (map fst (sorted_pairs dd)) (-1) -> In i (firstn k (stable_argsort dd)).
Proof.
  intros Hk Hi Hlt. rewrite sa_eq, firstn_map. apply in_map_iff. exists (nth i dd (-1), i). split; [reflexivity|].
  assert (Hin : In (nth i dd (-1), i) (sorted_pairs dd)) by (apply sp_in; split; [exact Hi|reflexivity]).
  rewrite <- (firstn_skipn k (sorted_pairs dd)) in Hin. apply in_app_or in Hin.
  destruct Hin as [Hin|Hin]; [exact Hin|].
  apply (proj2 (sp_cut dd k Hk)) in Hin. cbn [fst] in Hin. lia.
Qed.
Print Assumptions argsort_prefix_closed.

(* ---------- closest is a Nearest selection ---------- *)
Lemma closest_some_lt px py b c : closest px py b = Some c -> (b < length px)%nat.
Proof.
  unfold closest. destruct (nth_error px b) as [x0|] eqn:E; [|discriminate].
  intros _. apply nth_error_Some. congruence.
Qed.

Lemma closest_eq d b close : closest (d_px d) (d_py d) b = Some close ->
  close = firstn 12 (map Z.of_nat (stable_argsort (dists_from d b))).
Proof.
  unfold closest, dists_from.
  destruct (nth_error (d_px d) b) as [x0|]; [|discriminate].
  destruct (nth_error (d_py d) b) as [y0|]; [|discriminate].
  cbv zeta. change (n_closest_channels =? 0) with false. cbv iota.
  change (Z.to_nat n_closest_channels) with 12%nat.
  match goal with |- context [firstn ?n ?l] => generalize (firstn n l) end.
  intros out. destruct out as [|o r]; [discriminate|].
  destruct (o =? Z.of_nat b); [|discriminate]. intros H. injection H as <-. reflexivity.
Qed.

Lemma sorted_dists_eq d b : sorted_dists d b = map fst (sorted_pairs (dists_from d b)).
Proof.
  unfold sorted_dists, dists_from, sorted_pairs.
  destruct (nth_error (d_px d) b); [|reflexivity]. destruct (nth_error (d_py d) b); reflexivity.
Qed.

Theorem closest_Nearest d b close : closest (d_px d) (d_py d) b = Some close ->
  length (d_py d) = n_channels d -> Nearest d b close.
Proof.
  intros Hc Hpy. pose proof (closest_some_lt _ _ _ _ Hc) as Hb. fold (n_channels d) in Hb.
  destruct (cut_of_is_kth d b Hb Hpy) as (_ & _ & Hlen).
  apply closest_eq in Hc.
  assert (Hk : (1 <= n_keep d <= length (dists_from d b))%nat).
  { unfold n_keep, n_closest_channels. change (Z.to_nat 12) with 12%nat. lia. }
  assert (Hc' : close = map Z.of_nat (firstn (n_keep d) (stable_argsort (dists_from d b)))).
  { rewrite Hc, firstn_map. f_equal. unfold n_keep. change (Z.to_nat n_closest_channels) with 12%nat.
    rewrite <- Hlen. rewrite <- (sa_length (dists_from d b)). symmetry. apply firstn_min_length. }
  assert (Hcut : cut_of d b = nth (n_keep d - 1) (map fst (sorted_pairs (dists_from d b))) (-1)).
  { unfold cut_of. rewrite sorted_dists_eq. reflexivity. }
  clear Hc. subst close. constructor.
  - apply FinFun.Injective_map_NoDup; [intros x y; apply Nat2Z.inj|].
    apply NoDup_firstn_gen. apply sa_NoDup.
  - rewrite map_length, firstn_length, sa_length. lia.
  - intros ch Hin. apply in_map_iff in Hin. destruct Hin as (i & <- & Hi).
    apply (argsort_prefix_within _ _ _ Hk) in Hi. unfold is_chan. lia.
  - intros ch Hin. apply in_map_iff in Hin. destruct Hin as (i & <- & Hi).
    apply (argsort_prefix_within _ _ _ Hk) in Hi. destruct Hi as [_ Hle].
    unfold dist_of. rewrite Nat2Z.id, Hcut. exact Hle.
  - intros ch Hch Hlt. unfold is_chan in Hch. apply in_map_iff. exists (Z.to_nat ch). split; [lia|].
    apply argsort_prefix_closed; [exact Hk|lia|]. unfold dist_of in Hlt. rewrite Hcut in Hlt. exact Hlt.
Qed.
Print Assumptions closest_Nearest.

(* ---------- the pieces of find_best_channels ---------- *)
Lemma amp_step y a b : Forall (fun z => 0 <= z) (zip_with Z.sub a b) ->
  Forall (fun z => 0 <= z) (zip_with Z.sub (zip_with Z.max y a) (zip_with Z.min y b)).
Proof.
  revert a b; induction y as [|y0 y IH]; intros a b H; [constructor|].
  destruct a as [|a0 a]; [constructor|]. destruct b as [|b0 b]; [constructor|].
  cbn [zip_with] in *. inversion H as [|z r Hz Hr]; subst. constructor; [lia|apply IH; exact Hr].
Qed.

(* max - min of a column is never negative *)
Lemma col_amp_nonneg x mx mn : col_fold Z.max x = Some mx -> col_fold Z.min x = Some mn ->
  Forall (fun z => 0 <= z) (zip_with Z.sub mx mn).
Proof.
  destruct x as [|r rs]; [discriminate|]. cbn [col_fold]. intros H1 H2. injection H1 as <-. injection H2 as <-.
  induction rs as [|y rs IH]; cbn [fold_right].
  - induction r as [|z r IHr]; cbn [zip_with]; constructor; [lia|exact IHr].
  - apply amp_step. exact IH.
Qed.

Lemma col_fold_length f x v n : col_fold f x = Some v -> Forall (fun row => length row = n) x -> length v = n.
Proof.
  destruct x as [|r rs]; [discriminate|]. cbn [col_fold]. intros H HF. injection H as <-.
  apply Forall_cons_iff in HF. destruct HF as [Hr Hrs].
  induction rs as [|y rs IH]; cbn [fold_right]; [exact Hr|].
  apply Forall_cons_iff in Hrs. destruct Hrs as [Hy Hrs].
  rewrite zip_with_length, IH by exact Hrs. lia.
Qed.

Lemma intersect1d_in a b z : In z (intersect1d a b) <-> In z a /\ In z b.
Proof. unfold intersect1d. rewrite filter_In, np_unique_in, memZ_In. tauto. Qed.

Lemma peak_in amp m ch : Forall (fun z => 0 <= z) amp -> 0 <= ch < Z.of_nat (length amp) ->
  In ch (map snd (filter (fun p => amplitude_threshold * m <=? fst p) (combine amp (zrange 0 (length amp))))).
Proof.
  intros HF Hr. apply in_map_iff. exists (nth (Z.to_nat (ch - 0)) amp (-1), ch). split; [reflexivity|].
  apply filter_In. split; [apply in_combine_zrange; split; [lia|reflexivity]|].
  cbn [fst]. unfold amplitude_threshold. rewrite Z.mul_0_l. apply Z.leb_le.
  rewrite Forall_forall in HF. apply HF. apply nth_In. lia.
Qed.

Lemma on_shank_in (sh : list Z) shank ch :
  In ch (map snd (filter (fun p => fst p =? shank) (combine sh (zrange 0 (length sh))))) <->
  0 <= ch < Z.of_nat (length sh) /\ nth (Z.to_nat ch) sh (-1) = shank.
Proof.
  rewrite in_map_iff. split.
  - intros ([v c] & Hc & Hin). cbn [snd] in Hc. subst c. apply filter_In in Hin. destruct Hin as [Hin Hf].
    cbn [fst] in Hf. apply in_combine_zrange in Hin. destruct Hin as [Hr Hv]. rewrite Z.sub_0_r in Hv.
    split; [lia|]. rewrite <- Hv. lia.
  - intros [Hr Hv]. exists (nth (Z.to_nat (ch - 0)) sh (-1), ch). split; [reflexivity|].
    apply filter_In. split; [apply in_combine_zrange; split; [lia|reflexivity]|].
    cbn [fst]. rewrite Z.sub_0_r. lia.
Qed.

Lemma ordered_in (amp ids : list Z) ch :
  In ch (map snd (rev (isort (filter (fun p => memZ (snd p) ids) (combine amp (zrange 0 (length amp))))))) <->
  In ch ids /\ 0 <= ch < Z.of_nat (length amp).
Proof.
  rewrite in_map_iff. split.
  - intros ([v c] & Hc & Hin). cbn [snd] in Hc. subst c. apply in_rev in Hin.
    apply (Permutation_in _ (isort_perm _)) in Hin. apply filter_In in Hin. destruct Hin as [Hin Hm].
    cbn [snd] in Hm. apply memZ_In in Hm. apply in_combine_zrange in Hin. split; [exact Hm|lia].
  - intros [Hids Hr]. exists (nth (Z.to_nat (ch - 0)) amp (-1), ch). split; [reflexivity|].
    apply (proj1 (in_rev _ _)). apply (Permutation_in _ (Permutation_sym (isort_perm _))).
    apply filter_In. split; [apply in_combine_zrange; split; [lia|reflexivity]|].
    cbn [snd]. apply memZ_In. exact Hids.
Qed.

Lemma ordered_nodup (f : Z * Z -> bool) (amp : list Z) :
  NoDup (map snd (rev (isort (filter f (combine amp (zrange 0 (length amp))))))).
Proof.
  set (L := filter f (combine amp (zrange 0 (length amp)))).
  apply (Permutation_NoDup (l := map snd L)).
  - apply Permutation_map. eapply Permutation_trans; [apply Permutation_sym, isort_perm|apply Permutation_rev].
  - unfold L. apply NoDup_map_snd_filter. rewrite map_snd_combine_zrange. apply zrange_NoDup.
Qed.

(* ---------- find_best_channels returns a Legal list ---------- *)
Definition peak_of (x : list (list Z)) : option nat :=
  match col_fold Z.max x, col_fold Z.min x with
  | Some mx, Some mn => argmax (zip_with Z.sub mx mn)
  | _, _ => None
  end.

Theorem fbc_legal d x chans bz b :
  find_best_channels d x = Some (chans, bz) -> peak_of x = Some b ->
  Forall (fun row => length row = n_channels d) x ->
  length (d_py d) = n_channels d -> length (d_shanks d) = n_channels d ->
  Legal d b chans /\ bz = Z.of_nat b.
Proof.
  unfold find_best_channels, peak_of.
  destruct (col_fold Z.max x) as [mx|] eqn:Emx; [|discriminate].
  destruct (col_fold Z.min x) as [mn|] eqn:Emn; [|discriminate].
  cbv zeta.
  destruct (argmax (zip_with Z.sub mx mn)) as [b'|] eqn:Eam; [|discriminate].
  destruct (nth_error (zip_with Z.sub mx mn) b') as [max_amp|]; [|discriminate].
  destruct (closest (d_px d) (d_py d) b') as [close|] eqn:Ecl; [|discriminate].
  destruct (negb (memZ (Z.of_nat b') close)); [discriminate|].
  destruct (nth_error (d_shanks d) b') as [shank|] eqn:Esh; [|discriminate].
  destruct (memZ (Z.of_nat b') _) eqn:Emem; [|discriminate].
  intros H Hb Hrows Hpy Hsh. injection H as <- <-. injection Hb as <-.
  split; [|reflexivity].
  pose proof (col_amp_nonneg x mx mn Emx Emn) as Hnn.
  assert (Hamp : length (zip_with Z.sub mx mn) = n_channels d).
  { rewrite zip_with_length, (col_fold_length _ _ _ _ Emx Hrows), (col_fold_length _ _ _ _ Emn Hrows). lia. }
  pose proof (closest_Nearest d b' close Ecl Hpy) as HN.
  assert (Hshank : nth b' (d_shanks d) (-1) = shank) by (apply nth_error_nth; exact Esh).
  assert (Hiff : forall ch, In ch (map snd (rev (isort (filter
             (fun p => memZ (snd p) (intersect1d
                (map snd (filter (fun p => amplitude_threshold * max_amp <=? fst p)
                                 (combine (zip_with Z.sub mx mn) (zrange 0 (length (zip_with Z.sub mx mn))))))
                (intersect1d close (map snd (filter (fun p => fst p =? shank)
                                 (combine (d_shanks d) (zrange 0 (length (d_shanks d)))))))))
             (combine (zip_with Z.sub mx mn) (zrange 0 (length (zip_with Z.sub mx mn)))))))) <->
           In ch close /\ on_shank_b d b' ch = true).
  { intros ch. rewrite ordered_in, !intersect1d_in, on_shank_in. unfold on_shank_b. rewrite Hshank.
    split.
    - intros ((_ & Hcl & Hr & Hv) & _). split; [exact Hcl|]. apply Z.eqb_eq. rewrite <- Hv.
      apply nth_indep. lia.
    - intros [Hcl Hs]. pose proof (nr_chan d b' close HN ch Hcl) as Hch. unfold is_chan in Hch.
      apply Z.eqb_eq in Hs.
      split; [|rewrite Hamp; exact Hch]. split; [apply peak_in; [exact Hnn|rewrite Hamp; exact Hch]|].
      split; [exact Hcl|]. split; [rewrite Hsh; exact Hch|]. rewrite <- Hs. apply nth_indep. lia. }
  constructor.
  - apply ordered_nodup.
  - apply memZ_In. exact Emem.
  - intros ch Hin. apply Hiff in Hin. exact (nr_chan d b' close HN ch (proj1 Hin)).
  - intros ch Hin. apply Hiff in Hin. exact (proj2 Hin).
  - intros ch Hin. apply Hiff in Hin. exact (nr_within d b' close HN ch (proj1 Hin)).
  - intros ch ch' Hin' Hch Hs Hlt. apply Hiff in Hin'. apply Hiff. split; [|exact Hs].
    apply (nr_closed d b' close HN ch Hch). pose proof (nr_within d b' close HN ch' (proj1 Hin')). lia.
  - exists close. split; [exact HN|exact Hiff].
Qed.
Print Assumptions fbc_legal.

(* ---------- get_template / chans_of ---------- *)
Lemma peak_chan_eq d unw t : peak_chan d unw t = peak_of (tmpl_of d unw t).
Proof. reflexivity. Qed.

(* the model's channel list is a Legal selection at the peak channel *)
Theorem chans_of_legal d unw t tp b :
  get_template d t unw = Some tp ->
  Forall (fun row => length row = n_channels d) (tmpl_of d unw t) ->
  length (d_py d) = n_channels d -> length (d_shanks d) = n_channels d ->
  peak_chan d unw t = Some b -> Legal d b (chans_of d unw t).
Proof.
  intros Hg Hrows Hpy Hsh Hp. unfold chans_of. rewrite Hg. rewrite peak_chan_eq in Hp.
  revert Hg Hrows Hp. unfold get_template, tmpl_of.
  destruct (nth_error (d_tmpl d) t) as [tw|]; [|discriminate].
  assert (Hx : forall x, (if unw then unwhiten (d_wmi d) tw else Some tw) = Some x ->
                         (if unw then match unwhiten (d_wmi d) tw with Some x => x | None => [] end else tw) = x).
  { intros x. destruct unw; [|intros H; injection H as <-; reflexivity].
    destruct (unwhiten (d_wmi d) tw); [|discriminate]. intros H; injection H as <-; reflexivity. }
  destruct (if unw then unwhiten (d_wmi d) tw else Some tw) as [x|]; [|discriminate].
  rewrite (Hx x eq_refl). clear Hx.
  destruct (find_best_channels d x) as [[chans bz]|] eqn:Ef; [|discriminate].
  destruct (omap (fun row => gather_cols row chans) x) as [data|]; [|discriminate].
  intros Hg Hrows Hp. injection Hg as <-. cbn [t_chans].
  exact (proj1 (fbc_legal d x chans bz b Ef Hp Hrows Hpy Hsh)).
Qed.
Print Assumptions chans_of_legal.

(* hence accepted by the comparator's relational check *)
Theorem chans_of_accepted d unw t tp b :
  get_template d t unw = Some tp ->
  Forall (fun row => length row = n_channels d) (tmpl_of d unw t) ->
  length (d_py d) = n_channels d -> length (d_shanks d) = n_channels d ->
  peak_chan d unw t = Some b -> legal_chans d unw t (chans_of d unw t) = true.
Proof.
  intros Hg Hrows Hpy Hsh Hp. apply legal_chans_iff. exists b. split; [exact Hp|].
  exact (chans_of_legal d unw t tp b Hg Hrows Hpy Hsh Hp).
Qed.
Print Assumptions chans_of_accepted.

(* a template that get_template accepts has a peak channel (so the last hypothesis is not an extra restriction),
   and it is the model's best channel *)
Theorem get_template_peak d unw t tp : get_template d t unw = Some tp ->
  exists b, peak_chan d unw t = Some b.
Proof.
  rewrite peak_chan_eq. unfold get_template, tmpl_of.
  destruct (nth_error (d_tmpl d) t) as [tw|]; [|discriminate].
  assert (Hx : forall x, (if unw then unwhiten (d_wmi d) tw else Some tw) = Some x ->
                         (if unw then match unwhiten (d_wmi d) tw with Some x => x | None => [] end else tw) = x).
  { intros x. destruct unw; [|intros H; injection H as <-; reflexivity].
    destruct (unwhiten (d_wmi d) tw); [|discriminate]. intros H; injection H as <-; reflexivity. }
  destruct (if unw then unwhiten (d_wmi d) tw else Some tw) as [x|]; [|discriminate].
  rewrite (Hx x eq_refl). clear Hx.
  unfold find_best_channels, peak_of.
  destruct (col_fold Z.max x) as [mx|]; [|discriminate].
  destruct (col_fold Z.min x) as [mn|]; [|discriminate].
  cbv zeta. destruct (argmax (zip_with Z.sub mx mn)) as [b|]; [|discriminate].
  intros _. exists b. reflexivity.
Qed.
Print Assumptions get_template_peak.

(* with no boundary tie the model's list is, as a set, the closed form of LinkTie.legal_chans_no_tie_iff *)
Corollary chans_of_no_tie d unw t tp b :
  get_template d t unw = Some tp ->
  Forall (fun row => length row = n_channels d) (tmpl_of d unw t) ->
  length (d_py d) = n_channels d -> length (d_shanks d) = n_channels d ->
  peak_chan d unw t = Some b -> NoTie d b ->
  NoDup (chans_of d unw t) /\
  forall ch, In ch (chans_of d unw t) <->
             is_chan d ch /\ on_shank_b d b ch = true /\ dist_of d b ch <= cut_of d b.
Proof.
  intros Hg Hrows Hpy Hsh Hp Ht.
  pose proof (chans_of_accepted d unw t tp b Hg Hrows Hpy Hsh Hp) as Hacc.
  apply (legal_chans_no_tie_iff d unw t _ b Hp Ht) in Hacc. tauto.
Qed.
Print Assumptions chans_of_no_tie.

(* ---------- non-vacuity: the hypotheses hold on Corr.ex_line, at the TIED peak 8 ---------- *)
Example ex_line_model_legal :
  (exists tp, get_template ex_line 0 false = Some tp) /\
  Forall (fun row => length row = n_channels ex_line) (tmpl_of ex_line false 0) /\
  length (d_py ex_line) = n_channels ex_line /\ length (d_shanks ex_line) = n_channels ex_line /\
  peak_chan ex_line false 0 = Some 8%nat /\
  Legal ex_line 8 (chans_of ex_line false 0) /\
  legal_chans ex_line false 0 (chans_of ex_line false 0) = true /\
  np_unique (chans_of ex_line false 0) = zrange 2 12.
Proof.
  assert (Hg : exists tp, get_template ex_line 0 false = Some tp) by (vm_compute; eexists; reflexivity).
  assert (Hrows : Forall (fun row => length row = n_channels ex_line) (tmpl_of ex_line false 0))
    by (vm_compute; repeat constructor).
  assert (Hpy : length (d_py ex_line) = n_channels ex_line) by (vm_compute; reflexivity).
  assert (Hsh : length (d_shanks ex_line) = n_channels ex_line) by (vm_compute; reflexivity).
  assert (Hp : peak_chan ex_line false 0 = Some 8%nat) by (vm_compute; reflexivity).
  destruct Hg as [tp Hg].
  split; [exists tp; exact Hg|]. split; [exact Hrows|]. split; [exact Hpy|]. split; [exact Hsh|].
  split; [exact Hp|].
  split; [exact (chans_of_legal ex_line false 0 tp 8%nat Hg Hrows Hpy Hsh Hp)|].
  split; [exact (chans_of_accepted ex_line false 0 tp 8%nat Hg Hrows Hpy Hsh Hp)|].
  vm_compute. reflexivity.
Qed.

(* ---------- get_template does not raise on a well-formed data set ---------- *)
Lemma argmax_from_range l i bi best :
  argmax_from l i bi best = bi \/ (i <= argmax_from l i bi best < i + length l)%nat.
Proof.
  revert i bi best; induction l as [|x r IH]; intros i bi best; cbn [argmax_from length]; [left; reflexivity|].
  destruct (best <? x).
  - destruct (IH (S i) i x) as [H|H]; right; lia.
  - destruct (IH (S i) bi best) as [H|H]; [left; exact H|right; lia].
Qed.

Lemma argmax_lt l b : argmax l = Some b -> (b < length l)%nat.
Proof.
  destruct l as [|x r]; [discriminate|]. cbn [argmax length]. intros H; injection H as <-.
  destruct (argmax_from_range r 1 0 x) as [H|H]; lia.
Qed.

Lemma dists_nonneg d b : Forall (fun z => 0 <= z) (dists_from d b).
Proof.
  unfold dists_from. destruct (nth_error (d_px d) b) as [x0|]; [|constructor].
  destruct (nth_error (d_py d) b) as [y0|]; [|constructor].
  generalize (d_py d). induction (d_px d) as [|x px IH]; intros [|y py]; cbn [map zip_with]; constructor; [|apply IH].
  pose proof (Z.square_nonneg (x - x0)). pose proof (Z.square_nonneg (y - y0)). lia.
Qed.

Lemma zip_nth (f g : Z -> Z) px py b x0 y0 : nth_error px b = Some x0 -> nth_error py b = Some y0 ->
  nth b (zip_with Z.add (map f px) (map g py)) (-1) = f x0 + g y0.
Proof.
  revert px py; induction b as [|b IH]; intros [|x px] [|y py]; cbn [nth_error]; try discriminate.
  - intros H1 H2. injection H1 as ->. injection H2 as ->. reflexivity.
  - intros H1 H2. cbn [map zip_with nth]. apply IH; assumption.
Qed.

Lemma dists_self d b : (b < n_channels d)%nat -> length (d_py d) = n_channels d -> nth b (dists_from d b) (-1) = 0.
Proof.
  intros Hb Hpy. unfold dists_from, n_channels in *.
  destruct (nth_error (d_px d) b) as [x0|] eqn:Ex; [|apply nth_error_None in Ex; lia].
  destruct (nth_error (d_py d) b) as [y0|] eqn:Ey; [|apply nth_error_None in Ey; lia].
  rewrite (zip_nth _ _ _ _ _ _ _ Ex Ey). rewrite !Z.sub_diag. reflexivity.
Qed.

Lemma filter_eqk_first (dd : list Z) a b : (b < length dd)%nat -> nth b dd (-1) = 0 ->
  (forall i, (i < b)%nat -> nth i dd (-1) <> 0) ->
  exists r, filter (eqk 0) (combine dd (seq a (length dd))) = (0, (a + b)%nat) :: r.
Proof.
  revert a b; induction dd as [|x dd IH]; intros a b Hb H0 Hf; cbn [length] in Hb; [lia|].
  cbn [length seq combine filter]. unfold eqk at 1. cbn [fst]. destruct b as [|b].
  - cbn [nth] in H0. subst x. rewrite Z.eqb_refl, Nat.add_0_r. eexists; reflexivity.
  - assert (Hx : x <> 0) by (apply (Hf 0%nat); lia).
    replace (x =? 0) with false by lia.
    destruct (IH (S a) b) as [r Hr]; [lia|exact H0|intros i Hi; apply (Hf (S i)); lia|].
    exists r. rewrite Hr. f_equal. f_equal. lia.
Qed.

(* stability: the first entry of the stable argsort of non-negative keys is the FIRST position holding key 0 *)
Lemma sp_head dd b : Forall (fun z => 0 <= z) dd -> (b < length dd)%nat -> nth b dd (-1) = 0 ->
  (forall i, (i < b)%nat -> nth i dd (-1) <> 0) -> exists r, sorted_pairs dd = (0, b) :: r.
Proof.
  intros Hnn Hb H0 Hf.
  assert (Hin : In (0, b) (sorted_pairs dd)) by (apply sp_in; split; [exact Hb|symmetry; exact H0]).
  assert (Hall : forall v j, In (v, j) (sorted_pairs dd) -> 0 <= v).
  { intros v j H. apply sp_in in H. destruct H as [Hl ->]. rewrite Forall_forall in Hnn. apply Hnn, nth_In. exact Hl. }
  pose proof (isort_stable 0 (combine dd (seq 0 (length dd)))) as Hst. fold (sorted_pairs dd) in Hst.
  destruct (filter_eqk_first dd 0 b Hb H0 Hf) as [r0 Hr0]. rewrite Hr0 in Hst. cbn [Nat.add] in Hst.
  pose proof (isort_sorted (combine dd (seq 0 (length dd)))) as Hso. fold (sorted_pairs dd) in Hso.
  remember (sorted_pairs dd) as s eqn:Es. destruct s as [|[v j] r]; [destruct Hin|].
  assert (Hv : v = 0).
  { pose proof (Hall v j (or_introl eq_refl)) as Hge. destruct Hin as [E|Hin]; [injection E; lia|].
    pose proof (sortedk_ge (v, j) r (0, b) Hso Hin) as H. cbn [fst] in H. lia. }
  subst v. rewrite filter_cons_eq in Hst by reflexivity. injection Hst as Hj _. subst j. exists r. reflexivity.
Qed.

Lemma closest_ok d b : (b < n_channels d)%nat -> length (d_py d) = n_channels d ->
  (forall i, (i < b)%nat -> nth i (dists_from d b) (-1) <> 0) ->
  exists close, closest (d_px d) (d_py d) b = Some close /\ In (Z.of_nat b) close.
Proof.
  intros Hb Hpy Hf. destruct (cut_of_is_kth d b Hb Hpy) as (_ & _ & Hlen).
  assert (Hb' : (b < length (dists_from d b))%nat) by lia.
  destruct (sp_head (dists_from d b) b (dists_nonneg d b) Hb' (dists_self d b Hb Hpy) Hf) as [r Hr].
  assert (Hsa : stable_argsort (dists_from d b) = b :: map snd r) by (rewrite sa_eq, Hr; reflexivity).
  revert Hsa. unfold closest, dists_from, n_channels in *.
  destruct (nth_error (d_px d) b) as [x0|] eqn:Ex; [|apply nth_error_None in Ex; lia].
  destruct (nth_error (d_py d) b) as [y0|] eqn:Ey; [|apply nth_error_None in Ey; lia].
  cbv zeta. intros Hsa. rewrite Hsa. change (n_closest_channels =? 0) with false. cbv iota.
  change (Z.to_nat n_closest_channels) with 12%nat. cbn [map firstn]. rewrite Z.eqb_refl.
  eexists. split; [reflexivity|left; reflexivity].
Qed.

Theorem fbc_ok d x b :
  Forall (fun row => length row = n_channels d) x ->
  length (d_py d) = n_channels d -> length (d_shanks d) = n_channels d ->
  peak_of x = Some b -> (forall i, (i < b)%nat -> nth i (dists_from d b) (-1) <> 0) ->
  exists chans, find_best_channels d x = Some (chans, Z.of_nat b).
Proof.
  intros Hrows Hpy Hsh. unfold peak_of, find_best_channels.
  destruct (col_fold Z.max x) as [mx|] eqn:Emx; [|discriminate].
  destruct (col_fold Z.min x) as [mn|] eqn:Emn; [|discriminate].
  cbv zeta. intros Hp Hf. rewrite Hp.
  assert (Hamp : length (zip_with Z.sub mx mn) = n_channels d).
  { rewrite zip_with_length, (col_fold_length _ _ _ _ Emx Hrows), (col_fold_length _ _ _ _ Emn Hrows). lia. }
  pose proof (argmax_lt _ _ Hp) as Hb. rewrite Hamp in Hb.
  destruct (nth_error (zip_with Z.sub mx mn) b) as [max_amp|] eqn:En; [|apply nth_error_None in En; lia].
  destruct (closest_ok d b Hb Hpy Hf) as (close & Hcl & Hbin). rewrite Hcl.
  replace (memZ (Z.of_nat b) close) with true by (symmetry; apply memZ_In; exact Hbin). cbn [negb].
  destruct (nth_error (d_shanks d) b) as [shank|] eqn:Esh; [|apply nth_error_None in Esh; lia].
  match goal with |- context [memZ (Z.of_nat b) ?o] => replace (memZ (Z.of_nat b) o) with true end.
  - eexists; reflexivity.
  - symmetry. apply memZ_In. apply ordered_in. split; [|rewrite Hamp; lia].
    apply intersect1d_in. split; [apply peak_in; [exact (col_amp_nonneg x mx mn Emx Emn)|rewrite Hamp; lia]|].
    apply intersect1d_in. split; [exact Hbin|]. apply on_shank_in. split; [lia|].
    rewrite Nat2Z.id. apply nth_error_nth. exact Esh.
Qed.
Print Assumptions fbc_ok.

(* well-formedness => get_template returns a template, whose best channel is the peak *)
Theorem get_template_ok (d : dset) (unw : bool) (t : nat) (tw x : list (list Z)) (b : nat) :
  nth_error (d_tmpl d) t = Some tw -> (if unw then unwhiten (d_wmi d) tw else Some tw) = Some x ->
  Forall (fun row => length row = n_channels d) x ->
  length (d_py d) = n_channels d -> length (d_shanks d) = n_channels d ->
  peak_of x = Some b -> (forall i, (i < b)%nat -> nth i (dists_from d b) (-1) <> 0) ->
  exists tp, get_template d t unw = Some tp /\ t_best tp = Z.of_nat b.
Proof.
  intros Ht Hx Hrows Hpy Hsh Hp Hf. unfold get_template. rewrite Ht, Hx.
  destruct (fbc_ok d x b Hrows Hpy Hsh Hp Hf) as [chans Hc]. rewrite Hc.
  destruct (fbc_legal d x chans _ b Hc Hp Hrows Hpy Hsh) as [HL _].
  rewrite (omap_all_some _ (fun row => map (fun ch => nth (Z.to_nat ch) row 0) chans)).
  - eexists; split; reflexivity.
  - intros row Hrow. apply gather_map_ok. intros ch Hch.
    pose proof (lg_chan d b chans HL ch Hch) as Hc'. unfold is_chan in Hc'.
    rewrite Forall_forall in Hrows. pose proof (Hrows row Hrow) as Hl.
    split; [lia|]. apply nth_error_nth'. lia.
Qed.
Print Assumptions get_template_ok.

(* the full statement from explicit well-formedness hypotheses only *)
Theorem chans_of_legal_wf (d : dset) (unw : bool) (t : nat) (tw x : list (list Z)) (b : nat) :
  nth_error (d_tmpl d) t = Some tw -> (if unw then unwhiten (d_wmi d) tw else Some tw) = Some x ->
  Forall (fun row => length row = n_channels d) x ->
  length (d_py d) = n_channels d -> length (d_shanks d) = n_channels d ->
  peak_of x = Some b -> (forall i, (i < b)%nat -> nth i (dists_from d b) (-1) <> 0) ->
  peak_chan d unw t = Some b /\ In (Z.of_nat b) (chans_of d unw t) /\
  Legal d b (chans_of d unw t) /\ legal_chans d unw t (chans_of d unw t) = true.
Proof.
  intros Ht Hx Hrows Hpy Hsh Hp Hf.
  destruct (get_template_ok d unw t tw x b Ht Hx Hrows Hpy Hsh Hp Hf) as (tp & Hg & _).
  assert (Htm : tmpl_of d unw t = x).
  { unfold tmpl_of. rewrite Ht. destruct unw; [rewrite Hx; reflexivity|injection Hx as <-; reflexivity]. }
  assert (Hpc : peak_chan d unw t = Some b) by (rewrite peak_chan_eq, Htm; exact Hp).
  rewrite <- Htm in Hrows.
  pose proof (chans_of_legal d unw t tp b Hg Hrows Hpy Hsh Hpc) as HL.
  split; [exact Hpc|]. split; [exact (lg_peak _ _ _ HL)|]. split; [exact HL|].
  exact (chans_of_accepted d unw t tp b Hg Hrows Hpy Hsh Hpc).
Qed.
Print Assumptions chans_of_legal_wf.

Example ex_line_wf :
  nth_error (d_tmpl ex_line) 0 = Some (tmpl_of ex_line false 0) /\
  peak_of (tmpl_of ex_line false 0) = Some 8%nat /\
  (forall i, (i < 8)%nat -> nth i (dists_from ex_line 8) (-1) <> 0) /\
  Legal ex_line 8 (chans_of ex_line false 0).
Proof.
  assert (Ht : nth_error (d_tmpl ex_line) 0 = Some (tmpl_of ex_line false 0)) by (vm_compute; reflexivity).
  assert (Hp : peak_of (tmpl_of ex_line false 0) = Some 8%nat) by (vm_compute; reflexivity).
  assert (Hf : forall i, (i < 8)%nat -> nth i (dists_from ex_line 8) (-1) <> 0).
  { intros i Hi. do 8 (destruct i as [|i]; [vm_compute; discriminate|]). lia. }
  split; [exact Ht|]. split; [exact Hp|]. split; [exact Hf|].
  refine (proj1 (proj2 (proj2 (chans_of_legal_wf ex_line false 0 _ _ 8%nat Ht eq_refl _ _ _ Hp Hf)))).
  - vm_compute; repeat constructor.
  - vm_compute; reflexivity.
  - vm_compute; reflexivity.
Qed.

(* ---------- the "no earlier channel at the peak's position" hypothesis from Corr.distinct_ok ---------- *)
Lemma distinct_ok_dist d b i : distinct_ok d = true -> (b < n_channels d)%nat -> length (d_py d) = n_channels d ->
  i <> b -> nth i (dists_from d b) (-1) <> 0.
Proof.
  intros Hd Hb Hpy Hne H0.
  unfold distinct_ok in Hd. rewrite forallb_forall in Hd. specialize (Hd b). rewrite in_seq in Hd.
  specialize (Hd (conj (Nat.le_0_l b) Hb)). rewrite sorted_dists_eq in Hd.
  destruct (cut_of_is_kth d b Hb Hpy) as (_ & _ & Hlen).
  assert (Hi : (i < length (dists_from d b))%nat).
  { destruct (le_lt_dec (length (dists_from d b)) i) as [Hge|Hlt]; [|exact Hlt].
    rewrite nth_overflow in H0 by exact Hge. discriminate. }
  assert (Hin_i : In (0, i) (sorted_pairs (dists_from d b))) by (apply sp_in; split; [exact Hi|symmetry; exact H0]).
  assert (Hin_b : In (0, b) (sorted_pairs (dists_from d b))).
  { apply sp_in. split; [lia|]. symmetry. apply dists_self; assumption. }
  pose proof (isort_sorted (combine (dists_from d b) (seq 0 (length (dists_from d b))))) as Hso.
  fold (sorted_pairs (dists_from d b)) in Hso.
  remember (sorted_pairs (dists_from d b)) as s eqn:Es.
  destruct s as [|[v0 j0] [|[v1 j1] r]]; cbn [map fst] in Hd.
  - destruct Hin_i.
  - destruct Hin_i as [Ei|[]]. destruct Hin_b as [Eb|[]]. congruence.
  - apply andb_true_iff in Hd. destruct Hd as [_ Hv1].
    assert (Htail : forall p, In p ((v1, j1) :: r) -> 0 < fst p).
    { intros p [<-|Hp]; [cbn [fst]; lia|].
      pose proof (sortedk_ge (v1, j1) r p (sortedk_tail _ _ Hso) Hp) as Hge. cbn [fst] in Hge. lia. }
    destruct Hin_i as [Ei|Hi']; [|apply Htail in Hi'; cbn [fst] in Hi'; lia].
    destruct Hin_b as [Eb|Hb']; [|apply Htail in Hb'; cbn [fst] in Hb'; lia].
    congruence.
Qed.

(* the model's list is Legal and accepted on every data set with pairwise distinct channel positions
   (Corr.distinct_ok, part of the comparator's regime test) and well-shaped arrays *)
Theorem chans_of_legal_distinct (d : dset) (unw : bool) (t : nat) (tw x : list (list Z)) (b : nat) :
  nth_error (d_tmpl d) t = Some tw -> (if unw then unwhiten (d_wmi d) tw else Some tw) = Some x ->
  Forall (fun row => length row = n_channels d) x ->
  length (d_py d) = n_channels d -> length (d_shanks d) = n_channels d ->
  distinct_ok d = true -> peak_of x = Some b ->
  peak_chan d unw t = Some b /\ In (Z.of_nat b) (chans_of d unw t) /\
  Legal d b (chans_of d unw t) /\ legal_chans d unw t (chans_of d unw t) = true.
Proof.
  intros Ht Hx Hrows Hpy Hsh Hd Hp.
  apply (chans_of_legal_wf d unw t tw x b Ht Hx Hrows Hpy Hsh Hp).
  intros i Hi. apply distinct_ok_dist; try assumption; [|lia].
  unfold peak_of in Hp.
  destruct (col_fold Z.max x) as [mx|] eqn:Emx; [|discriminate].
  destruct (col_fold Z.min x) as [mn|] eqn:Emn; [|discriminate].
  apply argmax_lt in Hp.
  rewrite zip_with_length, (col_fold_length _ _ _ _ Emx Hrows), (col_fold_length _ _ _ _ Emn Hrows) in Hp. lia.
Qed.
Print Assumptions chans_of_legal_distinct.

Example ex_line_distinct :
  distinct_ok ex_line = true /\ boundary_ok ex_line = false /\
  legal_chans ex_line false 0 (chans_of ex_line false 0) = true.
Proof.
  assert (Hd : distinct_ok ex_line = true) by (vm_compute; reflexivity).
  split; [exact Hd|]. split; [vm_compute; reflexivity|].
  refine (proj2 (proj2 (proj2 (chans_of_legal_distinct ex_line false 0 (tmpl_of ex_line false 0) _ 8%nat
                                 _ eq_refl _ _ _ Hd _)))).
  - vm_compute; reflexivity.
  - vm_compute; repeat constructor.
  - vm_compute; reflexivity.
  - vm_compute; reflexivity.
  - vm_compute; reflexivity.
Qed.
