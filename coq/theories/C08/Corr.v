(* C08/Corr.v -- comparator evaluated by vm_compute on generated case files.
   codes: 1  = an observed, determined observable differs from the model (merge_map, nan_idx, n_clusters,
               n_templates, sparse_clusters.data and get_cluster_mean_waveforms on clusters without a count tie)
          20 = a well-formed dataset failed to load / a mean-waveform query raised
          21 = C08_merge_map: keys are not 0..max or some value is not exactly the increasing templates of the id's spikes
          22 = C08_merge_map / C08_nan_idx_both_branches: nan_idx is not exactly the ids of [0, max] (curated) /
               of range(n_templates) (clusters = templates) without spikes
          23 = C08_single: a cluster stemming from one template does not carry that template unchanged
          24 = C08_mean: a cluster stemming from several templates is not, for ANY dominant template, the
               count-weighted mean of the channel-restricted templates on that template's channels, zero elsewhere
          25 = C08_identity: clusters = templates but cluster waveforms <> template waveforms or n_clusters <> n_templates
          26 = C08_mean_fn: get_cluster_mean_waveforms(c, unwhiten) (both routes) is not that mean on the channels of a
               dominant template (columns compared per channel; the order of channel_ids is not observed)
          27 = C08_merge_map_loaded: clusters <> templates but n_clusters or the number of cluster waveforms is not the
               number of ids 0..max
          3  = input outside the stated regime (harness bug)
   Stage 5: geometries with a DISTANCE TIE across the 12-nearest boundary are inside the regime.  Which of the tied channels
   NumPy's default (unstable) argsort keeps is not determined, so on such a data set the implementation's own per-template
   channel lists (get_template(t, unwhiten).channel_ids, observed for every template with spikes) are taken as WITNESSES:
   each must be a legal selection (legal_chans: on the peak channel's shank, every on-shank channel strictly nearer than the
   12th distance, nothing farther, and a number of boundary-tied channels compatible with exactly 12 nearest channels over all
   shanks), and clauses 24 / 26 are evaluated with the witnesses in place of the model's channels (any legal selection of any
   dominant template is accepted).  Without a boundary tie legal_chans admits exactly the model's set.
   The single binary64 division of np.average is reproduced with PrimFloat on the exact operands. *)
From Coq Require Import ZArith List Bool Arith.
From PV Require Export Base.NpSearch Base.NpSort Base.Tok Base.TokArith Base.FloatTok C08.Model C08.Spec.
Import ListNotations.
Open Scope Z_scope.

Inductive input := InLoad (d : dset).

(* get_cluster_mean_waveforms(c): [(channel, column of mean_waveforms over the samples)], sorted by channel *)
Record mobs := mkmobs { mo_c : Z; mo_cols : list (Z * list tok) }.
Record obsrec := mkobs {
  o_mm : list (Z * list Z);            (* merge_map.items() *)
  o_nan : list Z;                      (* nan_idx *)
  o_ncl : Z; o_nt : Z;                 (* n_clusters, n_templates *)
  o_data : list (list (list tok));     (* sparse_clusters.data *)
  o_mean_w : list mobs;                (* unwhiten=False, every cluster id with spikes *)
  o_mean_u : list mobs;                (* unwhiten=True *)
  o_inputs_ok : bool;                  (* the loaded arrays are the abstract input (harness self-check) *)
  o_tch_w : list (Z * list Z);         (* (t, get_template(t, unwhiten=False).channel_ids), every template with spikes *)
  o_tch_u : list (Z * list Z);         (* the same with unwhiten=True *)
  o_dense : bool                       (* sparse_templates.cols is None: dense storage, the storage this model is about
                                          (the data set holds a dense templates file and no template_ind file) *)
}.
(* stage 6: the curation goes on ON THE LOADED OBJECT: model.spike_clusters is updated (in place or rebound) to h_sc and
   the object is queried again -- get_merge_map() and get_cluster_mean_waveforms(c, unwhiten) for every id with spikes *)
Record hobs := mkhobs {
  h_sc : list Z;                       (* the cluster vector the object now holds *)
  h_mm : list (Z * list Z);            (* get_merge_map()[0].items() *)
  h_nan : list Z;                      (* get_merge_map()[1] *)
  h_mean_w : list mobs;                (* unwhiten=False, every cluster id with spikes *)
  h_mean_u : list mobs                 (* unwhiten=True *)
}.
Inductive observed := ObsLoaded (o : obsrec) | ObsCrash | ObsHist (o : obsrec) (hs : list hobs) | ObsHistCrash (o : obsrec).
Record case := { cid : Z; cin : input; cobs : observed }.

Definition flag (code : Z) (ok : bool) : list Z := if ok then [] else [code].

Fixpoint all2b {A B} (f : A -> B -> bool) (a : list A) (b : list B) : bool :=
  match a, b with
  | [], [] => true
  | x :: a', y :: b' => f x y && all2b f a' b'
  | _, _ => false
  end.

(* float64(num) / float64(den), correctly rounded, against the observed value *)
Definition rat_tok_eqb (r : rat) (t : tok) : bool :=
  match fdiv_tok (tz (rn r)) (tz (rd r)) with Some x => tok_eqb x t | None => false end.
Definition mat_eqb (m : list (list rat)) (o : list (list tok)) : bool := all2b (all2b rat_tok_eqb) m o.

(* ---------- regime ---------- *)
Definition sorted_dists (d : dset) (b : nat) : list Z :=
  match nth_error (d_px d) b, nth_error (d_py d) b with
  | Some x0, Some y0 =>
      let dd := zip_with Z.add (map (fun x => (x - x0) * (x - x0)) (d_px d))
                               (map (fun y => (y - y0) * (y - y0)) (d_py d)) in
      map fst (isort (combine dd (seq 0 (length dd))))
  | _, _ => []
  end.
Definition boundary_ok (d : dset) : bool :=
  let nc := n_channels d in
  forallb (fun b => let s := sorted_dists d b in
                    (* the channel itself is the only one at distance 0 (distinct positions) *)
                    match s with
                    | z0 :: z1 :: _ => (z0 =? 0) && (0 <? z1)
                    | [z0] => z0 =? 0
                    | [] => false
                    end &&
                    (if (nc <=? Z.to_nat n_closest_channels)%nat then true
                     else negb (nth 11 s (-1) =? nth 12 s (-2))))
          (seq 0 nc).
(* the channel itself is the only one at distance 0 (pairwise distinct positions) *)
Definition distinct_ok (d : dset) : bool :=
  forallb (fun b => match sorted_dists d b with
                    | z0 :: z1 :: _ => (z0 =? 0) && (0 <? z1)
                    | [z0] => z0 =? 0
                    | [] => false
                    end) (seq 0 (n_channels d)).
Definition in_regime_base (d : dset) : bool :=
  wf_b d &&
  (1 <=? length (d_st d))%nat && (length (d_st d) <=? 4096)%nat &&
  forallb (fun c => (0 <=? c) && (c <? 4096)) (d_sc d) &&
  (* phylib squeezes every array it reads: an axis of length 1 changes the layout (C04's assumption) *)
  (2 <=? length (d_tmpl d))%nat && (2 <=? n_samples_wf d)%nat &&
  (2 <=? n_channels d)%nat && (n_channels d <=? 64)%nat &&
  (length (d_py d) =? n_channels d)%nat && (length (d_shanks d) =? n_channels d)%nat &&
  forallb (forallb (forallb (fun v => Z.abs v <=? 1024))) (d_tmpl d) &&
  forallb (forallb (fun v => Z.abs v <=? 64)) (d_wmi d).
(* the determined regime (no boundary tie): the model's channels are THE channels *)
Definition in_regime (d : dset) : bool := in_regime_base d && boundary_ok d.
(* stage 5: boundary ties allowed (channels judged relationally through witnesses) *)
Definition in_regime_t (d : dset) : bool := in_regime_base d && distinct_ok d.

(* ---------- clauses ---------- *)
Definition keys_of (d : dset) : list Z :=
  match d_sc d with [] => [] | x :: r => zrange 0 (Z.to_nat (zmax_ne x r + 1)) end.

(* 23 *)
Definition single_b (d : dset) (odata : list (list (list tok))) : bool :=
  forallb (fun c => match tset d c with
                    | [t] => match nth_error odata (Z.to_nat c) with
                             | Some orow => mat_eqb (single_rows d (Z.to_nat t)) orow
                             | None => false
                             end
                    | _ => true
                    end) (keys_of d).
(* 24 *)
Definition mean_b (d : dset) (odata : list (list (list tok))) : bool :=
  forallb (fun c => match tset d c with
                    | _ :: _ :: _ =>
                        match nth_error odata (Z.to_nat c) with
                        | Some orow =>
                            let tbl := tables_of d false c in
                            existsb (fun tb => mat_eqb (mean_rows_f d c tbl (chans_of d false tb)) orow) (dominants d c)
                        | None => false
                        end
                    | _ => true
                    end) (keys_of d).
(* 25 *)
Definition identity_b (d : dset) (o : obsrec) : bool :=
  all2b (fun t orow => mat_eqb (single_rows d t) orow) (seq 0 (length (d_tmpl d))) (o_data o) &&
  (o_ncl o =? n_templates d) && (o_nt o =? n_templates d).

(* 26: one observed query *)
Definition mean_fn_b (d : dset) (unw : bool) (mo : mobs) : bool :=
  let c := mo_c mo in
  let tbl := tables_of d unw c in
  let den := zsum (tb_w tbl) in
  existsb (fun tb =>
             let chans := chans_of d unw tb in
             zlist_eqb (map fst (mo_cols mo)) (np_unique chans) &&
             (length (np_unique chans) =? length chans)%nat &&
             forallb (fun p => all2b (fun s t => rat_tok_eqb (mkrat (wnum_f tbl s (fst p)) den) t)
                                     (seq 0 (n_samples_wf d)) (snd p)) (mo_cols mo))
          (dominants d c).
Definition mean_fns_b (d : dset) (unw : bool) (l : list mobs) : bool :=
  zlist_eqb (map mo_c l) (np_unique (d_sc d)) && forallb (mean_fn_b d unw) l.

(* ---------- stage 5: boundary ties, witnesses ---------- *)
Definition dists_from (d : dset) (b : nat) : list Z :=
  match nth_error (d_px d) b, nth_error (d_py d) b with
  | Some x0, Some y0 => zip_with Z.add (map (fun x => (x - x0) * (x - x0)) (d_px d))
                                       (map (fun y => (y - y0) * (y - y0)) (d_py d))
  | _, _ => []
  end.
Definition zcount (f : Z -> bool) (l : list Z) : Z := Z.of_nat (length (filter f l)).
(* chans is a legal channel list of template t (route unw): see the header *)
Definition legal_chans (d : dset) (unw : bool) (t : nat) (chans : list Z) : bool :=
  let x := tmpl_of d unw t in
  match col_fold Z.max x, col_fold Z.min x with
  | Some mx, Some mn =>
      match argmax (zip_with Z.sub mx mn) with
      | None => false
      | Some b =>
          let nc := n_channels d in
          let dd := dists_from d b in
          let dist := fun ch => nth (Z.to_nat ch) dd (-1) in
          let n' := Nat.min (Z.to_nat n_closest_channels) nc in
          let D := nth (n' - 1) (sorted_dists d b) (-1) in
          let shank := nth b (d_shanks d) (-1) in
          let on_shank := fun ch => nth (Z.to_nat ch) (d_shanks d) (-2) =? shank in
          let all := zrange 0 nc in
          let k := Z.of_nat n' - zcount (fun ch => dist ch <? D) all in
          let tied_off := zcount (fun ch => (dist ch =? D) && negb (on_shank ch)) all in
          let a := zcount (fun ch => dist ch =? D) chans in
          (length (np_unique chans) =? length chans)%nat &&
          forallb (fun ch => (0 <=? ch) && (ch <? Z.of_nat nc) && on_shank ch && (dist ch <=? D)) chans &&
          forallb (fun ch => negb (on_shank ch && (dist ch <? D)) || memZ ch chans) all &&
          memZ (Z.of_nat b) chans &&
          (k - tied_off <=? a) && (a <=? k)
      end
  | _, _ => false
  end.
Definition wit_chans (w : list (Z * list Z)) (t : nat) : list Z :=
  match find (fun p => fst p =? Z.of_nat t) w with Some p => snd p | None => [] end.
(* the witnesses are exactly one legal list per template with spikes *)
Definition wit_ok (d : dset) (unw : bool) (w : list (Z * list Z)) : bool :=
  zlist_eqb (map fst w) (np_unique (d_st d)) &&
  forallb (fun p => legal_chans d unw (Z.to_nat (fst p)) (snd p)) w.
(* in the determined regime the witnesses are, as sets, the model's channels *)
Definition wit_model_b (d : dset) (unw : bool) (w : list (Z * list Z)) : bool :=
  forallb (fun p => zlist_eqb (np_unique (snd p)) (np_unique (chans_of d unw (Z.to_nat (fst p))))) w.
Definition tables_wit (d : dset) (unw : bool) (c : Z) (w : list (Z * list Z)) : tables :=
  let ts := seq 0 (length (d_tmpl d)) in
  mktab (map (fun t => cnt d c (Z.of_nat t)) ts) (map (wit_chans w) ts) (map (tmpl_of d unw) ts).
(* 24 with witnesses *)
Definition mean_wit_b (d : dset) (w : list (Z * list Z)) (odata : list (list (list tok))) : bool :=
  forallb (fun c => match tset d c with
                    | _ :: _ :: _ =>
                        match nth_error odata (Z.to_nat c) with
                        | Some orow =>
                            let tbl := tables_wit d false c w in
                            existsb (fun tb => mat_eqb (mean_rows_f d c tbl (wit_chans w tb)) orow) (dominants d c)
                        | None => false
                        end
                    | _ => true
                    end) (keys_of d).
(* 26 with witnesses *)
Definition mean_fn_wit_b (d : dset) (unw : bool) (w : list (Z * list Z)) (mo : mobs) : bool :=
  let c := mo_c mo in
  let tbl := tables_wit d unw c w in
  let den := zsum (tb_w tbl) in
  existsb (fun tb =>
             let chans := wit_chans w tb in
             zlist_eqb (map fst (mo_cols mo)) (np_unique chans) &&
             (length (np_unique chans) =? length chans)%nat &&
             forallb (fun p => all2b (fun s t => rat_tok_eqb (mkrat (wnum_f tbl s (fst p)) den) t)
                                     (seq 0 (n_samples_wf d)) (snd p)) (mo_cols mo))
          (dominants d c).
Definition mean_fns_wit_b (d : dset) (unw : bool) (w : list (Z * list Z)) (l : list mobs) : bool :=
  zlist_eqb (map mo_c l) (np_unique (d_sc d)) && forallb (mean_fn_wit_b d unw w) l.
(* the model's rows are compared only for clusters that do not stem from several templates *)
Definition model_data_t_b (d : dset) (m : loaded) (o : obsrec) : bool :=
  all2b (fun crow orow => if l_curated m && (2 <=? length (tset d (fst crow)))%nat
                          then (length (snd crow) =? length orow)%nat else mat_eqb (snd crow) orow)
        (combine (zrange 0 (length (l_data m))) (l_data m)) (o_data o).

(* ---------- model comparison ---------- *)
Definition tie_free (d : dset) (c : Z) : bool := (length (dominants d c) <=? 1)%nat.

Fixpoint index_of (x : Z) (l : list Z) : option nat :=
  match l with [] => None | y :: r => if x =? y then Some O else option_map S (index_of x r) end.

Definition model_mean_b (d : dset) (unw : bool) (mo : mobs) : bool :=
  if negb (tie_free d (mo_c mo)) then true else
  match mean_waveforms d (mo_c mo) unw with
  | None => false
  | Some m =>
      (length (mo_cols mo) =? length (mw_chans m))%nat && sorted_lt_b (map fst (mo_cols mo)) &&
      forallb (fun p => match index_of (fst p) (mw_chans m) with
                        | Some j => all2b (fun row t => match nth_error row j with
                                                        | Some n => rat_tok_eqb (mkrat n (mw_den m)) t
                                                        | None => false end) (mw_num m) (snd p)
                        | None => false
                        end) (mo_cols mo)
  end.

Definition model_data_b (d : dset) (m : loaded) (o : obsrec) : bool :=
  (* stage 6: tie_free costs n_templates^2 counts; an id stemming from fewer than two templates is tie-free
     (vm_compute is call-by-value: andb evaluates both arguments, hence the nested ifs) *)
  all2b (fun crow orow => if (if l_curated m then if (2 <=? length (tset d (fst crow)))%nat then negb (tie_free d (fst crow))
                                                  else false else false)
                          then (length (snd crow) =? length orow)%nat else mat_eqb (snd crow) orow)
        (combine (zrange 0 (length (l_data m))) (l_data m)) (o_data o).

Definition check_det (d : dset) (m : loaded) (o : obsrec) : list Z :=
      let g1 := all2b (fun k kv => (k =? fst kv)) (zrange 0 (length (l_mm m))) (o_mm o) &&
                all2b zlist_eqb (l_mm m) (map snd (o_mm o)) &&
                zlist_eqb (l_nan m) (o_nan o) && (l_ncl m =? o_ncl o) && (n_templates d =? o_nt o) &&
                model_data_b d m o && o_dense o &&
                forallb (model_mean_b d false) (o_mean_w o) && forallb (model_mean_b d true) (o_mean_u o) &&
                (* stage 5: the observed per-template channel lists are the model's (as sets) *)
                wit_ok d false (o_tch_w o) && wit_ok d true (o_tch_u o) &&
                wit_model_b d false (o_tch_w o) && wit_model_b d true (o_tch_u o) in
      let cur := l_curated m in
      flag 1 g1 ++
      (if cur then flag 21 (mm_b (d_st d) (d_sc d) (o_mm o)) ++ flag 22 (nan_b (d_sc d) (o_nan o)) ++
                   flag 27 ((o_ncl o =? zlen (o_mm o)) && (length (o_data o) =? length (o_mm o))%nat)
       else []) ++
      flag 23 (single_b d (o_data o)) ++
      flag 24 (mean_b d (o_data o)) ++
      (if cur then [] else flag 22 (nan_n_b (n_templates d) (d_sc d) (o_nan o)) ++ flag 25 (identity_b d o)) ++
      flag 26 (mean_fns_b d false (o_mean_w o) && mean_fns_b d true (o_mean_u o)).

(* a distance tie crosses the 12-nearest boundary of some channel: channels through witnesses *)
Definition check_tie (d : dset) (m : loaded) (o : obsrec) : list Z :=
      let g1 := all2b (fun k kv => (k =? fst kv)) (zrange 0 (length (l_mm m))) (o_mm o) &&
                all2b zlist_eqb (l_mm m) (map snd (o_mm o)) &&
                zlist_eqb (l_nan m) (o_nan o) && (l_ncl m =? o_ncl o) && (n_templates d =? o_nt o) &&
                model_data_t_b d m o && o_dense o in
      let cur := l_curated m in
      let wok_w := wit_ok d false (o_tch_w o) in
      let wok_u := wit_ok d true (o_tch_u o) in
      flag 1 g1 ++
      (if cur then flag 21 (mm_b (d_st d) (d_sc d) (o_mm o)) ++ flag 22 (nan_b (d_sc d) (o_nan o)) ++
                   flag 27 ((o_ncl o =? zlen (o_mm o)) && (length (o_data o) =? length (o_mm o))%nat)
       else []) ++
      flag 23 (single_b d (o_data o)) ++
      flag 24 (wok_w && mean_wit_b d (o_tch_w o) (o_data o)) ++
      (if cur then [] else flag 22 (nan_n_b (n_templates d) (d_sc d) (o_nan o)) ++ flag 25 (identity_b d o)) ++
      flag 26 (wok_w && wok_u && mean_fns_wit_b d false (o_tch_w o) (o_mean_w o) &&
               mean_fns_wit_b d true (o_tch_u o) (o_mean_u o)).

(* ---------- stage 6: a later stage of the curation on the same object ---------- *)
(* the data set with the cluster vector of the stage: the statement's clauses are about the CURRENT (spike_templates,
   spike_clusters) pair, so every clause on get_merge_map / get_cluster_mean_waveforms is judged on with_sc d (h_sc h)
   (C08_merge_map, C08_mean_fn are theorems for every pair) *)
Definition with_sc (d : dset) (sc : list Z) : dset :=
  mkds (d_st d) sc (d_tmpl d) (d_px d) (d_py d) (d_shanks d) (d_wmi d).
Definition check_stage (d : dset) (o : obsrec) (h : hobs) : list Z :=
  let d2 := with_sc d (h_sc h) in
  if negb (in_regime_base d2) then [3] else
  match merge_map (d_st d2) (d_sc d2) with
  | None => [3]
  | Some mm =>
      let det := boundary_ok d in
      let g1 := all2b (fun k kv => (k =? fst kv)) (zrange 0 (length mm)) (h_mm h) &&
                all2b zlist_eqb mm (map snd (h_mm h)) && zlist_eqb (nan_from 0 mm) (h_nan h) &&
                (if det then forallb (model_mean_b d2 false) (h_mean_w h) && forallb (model_mean_b d2 true) (h_mean_u h)
                 else true) in
      flag 1 g1 ++
      flag 21 (mm_b (d_st d2) (d_sc d2) (h_mm h)) ++ flag 22 (nan_b (d_sc d2) (h_nan h)) ++
      flag 26 (if det then mean_fns_b d2 false (h_mean_w h) && mean_fns_b d2 true (h_mean_u h)
               else wit_ok d false (o_tch_w o) && wit_ok d true (o_tch_u o) &&
                    mean_fns_wit_b d2 false (o_tch_w o) (h_mean_w h) && mean_fns_wit_b d2 true (o_tch_u o) (h_mean_u h))
  end.

Definition check_loaded (d : dset) (m : loaded) (o : obsrec) : list Z :=
  if boundary_ok d then check_det d m o else check_tie d m o.

Definition check (c : case) : list Z :=
  match cin c with InLoad d =>
  if negb (in_regime_t d) then [3] else
  match load d, cobs c with
  | None, _ => [3]
  | Some _, ObsCrash => [1; 20]
  | Some m, ObsLoaded o =>
      if negb (o_inputs_ok o) then [3] else check_loaded d m o
  | Some m, ObsHist o hs =>
      if negb (o_inputs_ok o) then [3] else
      nodup Z.eq_dec (check_loaded d m o ++ flat_map (check_stage d o) hs)
  | Some m, ObsHistCrash o =>
      if negb (o_inputs_ok o) then [3] else nodup Z.eq_dec (check_loaded d m o ++ [1; 20])
  end end.

(* ---------- stage 5: non-vacuity of legal_chans ---------- *)
(* a regular 16-channel linear probe, template 0 peaks on channel 8: the 12th nearest channel is channel 2 or 14 *)
Definition ex_line : dset :=
  let row := fun pk => map (fun k => if k =? pk then 9 else 1) (zrange 0 16) in
  mkds [0; 1] [2; 2] [[row 8; repeat 0 16]; [row 3; repeat 0 16]]
       (repeat 0 16) (map (fun k => 20 * k) (zrange 0 16)) (repeat 0 16)
       (map (fun i => map (fun j => if i =? j then 1 else 0) (zrange 0 16)) (zrange 0 16)).
Example ex_line_regime : in_regime_t ex_line = true /\ boundary_ok ex_line = false.
Proof. split; vm_compute; reflexivity. Qed.
Example ex_line_low : legal_chans ex_line false 0 (zrange 2 12) = true.       (* 2 .. 13 *)
Proof. vm_compute; reflexivity. Qed.
Example ex_line_high : legal_chans ex_line false 0 (zrange 3 12) = true.      (* 3 .. 14 *)
Proof. vm_compute; reflexivity. Qed.
Example ex_line_both : legal_chans ex_line false 0 (zrange 2 13) = false.     (* 2 .. 14: thirteen channels *)
Proof. vm_compute; reflexivity. Qed.
Example ex_line_short : legal_chans ex_line false 0 (zrange 3 11) = false.    (* 3 .. 13: eleven channels *)
Proof. vm_compute; reflexivity. Qed.
Example ex_line_hole : legal_chans ex_line false 0 (2 :: 14 :: zrange 4 10) = false.   (* channel 3 (strictly nearer) missing *)
Proof. vm_compute; reflexivity. Qed.
(* template 1 peaks on channel 3: no tie (0 .. 11 are the 12 nearest), exactly the model's set is legal *)
Example ex_line_det : legal_chans ex_line false 1 (chans_of ex_line false 1) = true /\
                      legal_chans ex_line false 1 (zrange 1 12) = false /\
                      np_unique (chans_of ex_line false 1) = zrange 0 12.
Proof. repeat split; vm_compute; reflexivity. Qed.

Definition run (cases : list case) : list (Z * Z) :=
  flat_map (fun c => map (fun code => (cid c, code)) (check c)) cases.
