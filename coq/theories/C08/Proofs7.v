(* C08/Proofs7.v -- which dominant template the code takes (np.argmax: the lowest id among the maximal
   counts), uniqueness of the dominant template on tie-free clusters, and the waveform of an id without spikes. *)
From Coq Require Import ZArith List Lia Bool Arith Sorted Permutation.
From PV Require Import Base.NpSearch Base.NpSort Base.Tok Base.TokArith C08.Model C08.Spec C08.Proofs C08.Proofs2
                       C08.Proofs3.
Import ListNotations.
Open Scope Z_scope.

Lemma argmax_from_first (r pre : list Z) i bi b :
  length pre = i -> nth_error pre bi = Some b -> (forall k w, (k < bi)%nat -> nth_error pre k = Some w -> w < b) ->
  (forall w, In w pre -> w <= b) ->
  forall k w, (k < argmax_from r i bi b)%nat -> nth_error (pre ++ r) k = Some w ->
              exists v, nth_error (pre ++ r) (argmax_from r i bi b) = Some v /\ w < v.
Proof.
  revert pre i bi b. induction r as [|x r IH]; intros pre i bi b Hl Hb Hlt Hub k w Hk Hw.
  - cbn [argmax_from] in *. rewrite app_nil_r in *. exists b. split; [exact Hb|]. eapply Hlt; eauto.
  - cbn [argmax_from] in *. replace (pre ++ x :: r) with ((pre ++ [x]) ++ r) in * by (rewrite <- app_assoc; reflexivity).
    destruct (b <? x) eqn:E.
    + eapply (IH (pre ++ [x]) (S i) i x); eauto.
      * rewrite app_length. cbn. lia.
      * rewrite nth_error_app2 by lia. replace (i - length pre)%nat with O by lia. reflexivity.
      * intros k' w' Hk' Hw'. rewrite nth_error_app1 in Hw' by lia. apply nth_error_In, Hub in Hw'. lia.
      * intros w' Hw'. apply in_app_or in Hw'. destruct Hw' as [Hw'|[<-|[]]]; [apply Hub in Hw'; lia|lia].
    + assert (Hbi : (bi < length pre)%nat) by (apply nth_error_Some; congruence).
      eapply (IH (pre ++ [x]) (S i) bi b); eauto.
      * rewrite app_length. cbn. lia.
      * rewrite nth_error_app1 by lia. exact Hb.
      * intros k' w' Hk' Hw'. rewrite nth_error_app1 in Hw' by lia. eapply Hlt; eauto.
      * intros w' Hw'. apply in_app_or in Hw'. destruct Hw' as [Hw'|[<-|[]]]; [now apply Hub|lia].
Qed.

Lemma argmax_first l j k w :
  argmax l = Some j -> (k < j)%nat -> nth_error l k = Some w -> exists v, nth_error l j = Some v /\ w < v.
Proof.
  destruct l as [|x r]; [discriminate|]. cbn [argmax]. intros E Hk Hw. injection E as <-.
  apply (argmax_from_first r [x] 1 0 x) with (k := k); auto.
  - intros k' w' Hk'. lia.
  - intros w' [<-|[]]. lia.
Qed.

(* the dominant template taken by get_cluster_mean_waveforms is the one of lowest id *)
Theorem mean_waveforms_lowest d c unw m :
  WF d -> mean_waveforms d c unw = Some m ->
  exists tb, Dominant d c tb /\ mw_chans m = chans_of d unw tb /\
             forall t, (t < tb)%nat -> cnt d c (Z.of_nat t) < cnt d c (Z.of_nat tb).
Proof.
  intros Hwf H. pose proof H as H0. unfold mean_waveforms in H.
  destruct (get_template_counts d c) as [count|] eqn:Ec; [|discriminate].
  destruct (argmax count) as [best|] eqn:Ea; [|discriminate].
  destruct (get_template d best unw) as [tb|] eqn:Eb; [|discriminate].
  destruct (omap _ (filter _ _)) as [tpls|]; [|discriminate].
  destruct (omap _ tpls) as [wfs|]; [|discriminate].
  destruct (_ =? 0) eqn:Ed; [discriminate|]. injection H as <-. cbn [mw_chans].
  destruct (mean_waveforms_spec d c unw _ Hwf H0) as (tb' & Hdom & Hch & _).
  apply (counts_spec d c count Hwf) in Ec.
  (* the theorem's witness is the argmax itself *)
  exists best. destruct (get_template_inv _ _ _ _ Eb) as (_ & _ & _ & Hcb).
  assert (Hlen : length count = length (d_tmpl d)) by (rewrite Ec, map_length, seq_length; reflexivity).
  destruct (argmax_spec _ _ Ea) as (v & Hv & Hub).
  assert (Hb : (best < length (d_tmpl d))%nat) by (rewrite <- Hlen; apply nth_error_Some; congruence).
  assert (Hnth : forall t, (t < length (d_tmpl d))%nat -> nth_error count t = Some (cnt d c (Z.of_nat t))).
  { intros t Ht. rewrite Ec, nth_error_map, nth_error_seq_lt by exact Ht. reflexivity. }
  assert (Hv' : v = cnt d c (Z.of_nat best)) by (rewrite Hnth in Hv by exact Hb; congruence).
  split; [|split; [now rewrite Hcb|]].
  - destruct Hdom as (Hlt' & Hpos' & Hmax'). split; [exact Hb|]. split.
    + specialize (Hub (cnt d c (Z.of_nat tb'))). rewrite Hv' in Hub.
      assert (In (cnt d c (Z.of_nat tb')) count) by (eapply nth_error_In; apply Hnth; exact Hlt'). specialize (Hub H). lia.
    + intros t Ht. rewrite <- Hv'. apply Hub. eapply nth_error_In. now apply Hnth.
  - intros t Ht. destruct (argmax_first _ _ t _ Ea Ht (Hnth t ltac:(lia))) as (v2 & Hv2 & Hlt). congruence.
Qed.

(* on a tie-free cluster the dominant template is unique: the specification then determines the waveform *)
Theorem dominant_unique d c tb tb' :
  Dominant d c tb -> Dominant d c tb' ->
  (forall t, (t < length (d_tmpl d))%nat -> t <> tb -> cnt d c (Z.of_nat t) < cnt d c (Z.of_nat tb)) -> tb' = tb.
Proof.
  intros (H1 & _ & _) (H1' & _ & H3') Htf. destruct (Nat.eq_dec tb' tb) as [E|E]; [exact E|exfalso].
  specialize (Htf tb' H1' E). specialize (H3' tb H1). lia.
Qed.

(* an id of [0, max] without spikes carries the zero waveform *)
Theorem cluster_empty d m c M :
  d_sc d <> d_st d -> load d = Some m -> IsMax M (d_sc d) -> 0 <= c <= M -> ~ In c (d_sc d) ->
  nth_error (l_data m) (Z.to_nat c) = Some (repeat (repeat (rat_of 0) (n_channels d)) (n_samples_wf d)).
Proof.
  intros Hne H HM Hc Hnot.
  destruct (load_curated d m Hne H) as (_ & Hm & _ & Hcw & Hl & _).
  pose proof (load_merge_map d m Hne H) as Hspec.
  destruct (Hspec _ HM) as (_ & Hent & _).
  destruct (Hent c Hc) as (l & Hl' & _ & Hmem).
  assert (l = []).
  { destruct l as [|t l]; [reflexivity|exfalso]. assert (Hp : PairIn (d_st d) (d_sc d) c t) by (apply Hmem; now left).
    destruct Hp as (i & Hi & _). apply Hnot. eapply nth_error_In; exact Hi. }
  subst l. destruct (cluster_row d _ _ _ _ Hcw Hl') as (row & Hrow & Hn). rewrite Hn. cbn in Hrow. congruence.
Qed.
