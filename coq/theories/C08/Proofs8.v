(* C08/Proofs8.v -- nan_idx pass: in BOTH branches of _load_data (identity branch repaired on fix-c14b) nan_idx is the
   increasing list of the ids of range(n_clusters) that no spike carries; the boolean checker of clause 22 for the
   identity branch is sound. *)
From Coq Require Import ZArith List Lia Bool Arith Sorted Permutation.
From PV Require Import Base.NpSearch Base.NpSort Base.Tok Base.TokArith C08.Model C08.Spec C08.Proofs C08.Proofs2
                       C08.Proofs3 C08.Proofs6.
Import ListNotations.
Open Scope Z_scope.

Lemma setdiff_arange_spec n sc : NanIdx_Spec (Z.of_nat n) sc (setdiff_arange n sc).
Proof.
  unfold NanIdx_Spec, setdiff_arange. split; [apply sorted_filter, zrange_sorted|].
  intros c. rewrite filter_In. split.
  - intros (Hc & Hn). apply zrange_ge in Hc. split; [lia|]. intros Hin. apply memZ_In in Hin. rewrite Hin in Hn. discriminate.
  - intros (Hc & Hn). split; [apply zrange_in; lia|]. destruct (memZ c sc) eqn:E; [|reflexivity].
    apply memZ_In in E. contradiction.
Qed.

Theorem nan_n_b_sound ncl sc onan : nan_n_b ncl sc onan = true -> NanIdx_Spec ncl sc onan.
Proof.
  unfold nan_n_b. intros H. apply zlist_eqb_spec in H. subst onan.
  destruct (Z.le_gt_cases 0 ncl) as [Hn|Hn].
  - rewrite <- (Z2Nat.id ncl) at 1 by exact Hn. apply (setdiff_arange_spec (Z.to_nat ncl) sc).
  - replace (Z.to_nat ncl) with 0%nat by lia. cbn. split; [constructor|]. intros c. cbn. split; [tauto|lia].
Qed.

(* both branches *)
Theorem load_nan_both d m : load d = Some m -> NanIdx_Spec (l_ncl m) (d_sc d) (l_nan m).
Proof.
  intros H. destruct (zlist_eqb (d_sc d) (d_st d)) eqn:Eq.
  - apply zlist_eqb_spec in Eq.
    assert (Hne : d_sc d <> []).
    { intros E. unfold load in H. rewrite E in H. destruct (negb _); discriminate. }
    rewrite (load_identity d Eq Hne) in H. injection H as <-. cbn [l_ncl l_nan]. rewrite Eq.
    unfold n_templates, zlen. apply setdiff_arange_spec.
  - assert (Hne : d_sc d <> d_st d) by (intros E; apply zlist_eqb_spec in E; congruence).
    destruct (load_curated d m Hne H) as (_ & Hm & _ & _ & _ & Hncl).
    destruct (merge_map_some_nonneg _ _ _ Hm) as (Hne' & Hpos).
    pose proof (load_merge_map d m Hne H) as Hspec.
    destruct (d_sc d) as [|x r] eqn:Esc; [congruence|]. rewrite <- Esc in *.
    assert (HM : IsMax (zmax_ne x r) (d_sc d)).
    { rewrite Esc. split; [apply zmax_ne_in|]. intros y Hy. now apply zmax_ne_ub. }
    destruct (Hspec _ HM) as (_ & _ & Hs & Hn). rewrite (Hncl _ HM). split; [exact Hs|].
    intros c. rewrite Hn. split; intros [A B]; (split; [lia|exact B]).
Qed.

(* the identity branch read on the templates: an id is marked iff it is a template id that no spike has *)
Corollary load_nan_identity d m :
  d_sc d = d_st d -> load d = Some m ->
  l_curated m = false /\ l_ncl m = n_templates d /\
  forall c, In c (l_nan m) <-> (0 <= c < n_templates d /\ ~ In c (d_st d)).
Proof.
  intros E H. pose proof (load_nan_both d m H) as [_ Hn].
  assert (Hne : d_sc d <> []).
  { intros E'. unfold load in H. rewrite E' in H. destruct (negb _); discriminate. }
  rewrite (load_identity d E Hne) in H. injection H as <-. cbn [l_curated l_ncl l_nan] in *.
  split; [reflexivity|]. split; [reflexivity|]. intros c. rewrite E in Hn. apply Hn.
Qed.
