(* C08/Spec.v -- the property, stated independently of the algorithm: provenance as a relation between
   spikes, cluster waveforms as closed-form functions of (cluster, sample, channel) built from the spike
   counts, plus the boolean versions evaluated by Corr.v on the implementation's observed outputs.

   What "the channels of template t" are is C05's subject (nearest channels on the peak channel's shank,
   above the amplitude threshold); this specification takes them from the model's get_template and is
   otherwise independent of how the model computes merge maps, counts and means. *)
From Coq Require Import ZArith List Bool Arith Sorted.
From PV Require Import Base.NpSearch Base.NpSort Base.Tok Base.TokArith C08.Model.
Import ListNotations.
Open Scope Z_scope.

(* ---------- provenance ---------- *)
(* some spike has cluster c and template t *)
Definition PairIn (st sc : list Z) (c t : Z) : Prop :=
  exists i, nth_error sc i = Some c /\ nth_error st i = Some t.
Definition IsMax (M : Z) (l : list Z) : Prop := In M l /\ forall x, In x l -> x <= M.

(* mm = the merge map as the list of its values for the keys 0, 1, ..., ; nan = nan_idx *)
Definition MergeMap_Spec (st sc : list Z) (mm : list (list Z)) (nan : list Z) : Prop :=
  forall M, IsMax M sc ->
    zlen mm = M + 1 /\
    (forall c, 0 <= c <= M ->
       exists l, nth_error mm (Z.to_nat c) = Some l /\ StronglySorted Z.lt l /\
                 forall t, In t l <-> PairIn st sc c t) /\
    StronglySorted Z.lt nan /\
    (forall c, In c nan <-> (0 <= c <= M /\ ~ In c sc)).

Definition pair_b (st sc : list Z) (c t : Z) : bool :=
  existsb (fun p => (fst p =? c) && (snd p =? t)) (combine sc st).
Fixpoint sorted_lt_b (l : list Z) : bool :=
  match l with
  | [] => true
  | x :: r => match r with [] => true | y :: _ => (x <? y) && sorted_lt_b r end
  end.
Definition mm_entry_b (st sc : list Z) (c : Z) (l : list Z) : bool :=
  sorted_lt_b l && forallb (pair_b st sc c) l &&
  forallb (fun p => negb (fst p =? c) || memZ (snd p) l) (combine sc st).
Definition mm_b (st sc : list Z) (omm : list (Z * list Z)) : bool :=
  match sc with
  | [] => false
  | x :: r => zlist_eqb (map fst omm) (zrange 0 (Z.to_nat (zmax_ne x r + 1))) &&
              forallb (fun kv => mm_entry_b st sc (fst kv) (snd kv)) omm
  end.
Definition nan_b (sc : list Z) (onan : list Z) : bool :=
  match sc with
  | [] => false
  | x :: r => zlist_eqb onan (filter (fun c => negb (memZ c sc)) (zrange 0 (Z.to_nat (zmax_ne x r + 1))))
  end.

(* nan_idx in EITHER branch of _load_data: the increasing ids of range(n_clusters) that no spike carries *)
Definition NanIdx_Spec (ncl : Z) (sc : list Z) (nan : list Z) : Prop :=
  StronglySorted Z.lt nan /\ forall c, In c nan <-> (0 <= c < ncl /\ ~ In c sc).
Definition nan_n_b (ncl : Z) (sc : list Z) (onan : list Z) : bool :=
  zlist_eqb onan (filter (fun c => negb (memZ c sc)) (zrange 0 (Z.to_nat ncl))).

(* ---------- waveforms ---------- *)
(* number of spikes with cluster c and template t *)
Definition cnt (d : dset) (c t : Z) : Z :=
  Z.of_nat (length (filter (fun p => (fst p =? c) && (snd p =? t)) (combine (d_sc d) (d_st d)))).
(* the templates cluster c stems from, increasing *)
Definition tset (d : dset) (c : Z) : list Z :=
  filter (fun t => 0 <? cnt d c t) (zrange 0 (length (d_tmpl d))).

(* a dominant template of cluster c: one with the maximal (positive) number of the cluster's spikes *)
Definition Dominant (d : dset) (c : Z) (tb : nat) : Prop :=
  (tb < length (d_tmpl d))%nat /\ 0 < cnt d c (Z.of_nat tb) /\
  forall t, (t < length (d_tmpl d))%nat -> cnt d c (Z.of_nat t) <= cnt d c (Z.of_nat tb).
Definition dominant_b (d : dset) (c : Z) (tb : nat) : bool :=
  (tb <? length (d_tmpl d))%nat && (0 <? cnt d c (Z.of_nat tb)) &&
  forallb (fun t => cnt d c (Z.of_nat t) <=? cnt d c (Z.of_nat tb)) (seq 0 (length (d_tmpl d))).
Definition dominants (d : dset) (c : Z) : list nat := filter (dominant_b d c) (seq 0 (length (d_tmpl d))).

(* the (optionally unwhitened) waveform of template t, and its channels *)
Definition tmpl_of (d : dset) (unw : bool) (t : nat) : list (list Z) :=
  match nth_error (d_tmpl d) t with
  | Some tw => if unw then match unwhiten (d_wmi d) tw with Some x => x | None => [] end else tw
  | None => []
  end.
Definition chans_of (d : dset) (unw : bool) (t : nat) : list Z :=
  match get_template d t unw with Some tp => t_chans tp | None => [] end.
Definition cell (x : list (list Z)) (s : nat) (k : Z) : Z := nth (Z.to_nat k) (nth s x []) 0.
(* template t restricted to its own channels (zero elsewhere), at sample s and channel k *)
Definition masked (d : dset) (unw : bool) (t s : nat) (k : Z) : Z :=
  if memZ k (chans_of d unw t) then cell (tmpl_of d unw t) s k else 0.
(* numerator and denominator of the spike-count weighted mean *)
Definition wnum (d : dset) (unw : bool) (c : Z) (s : nat) (k : Z) : Z :=
  zsum (map (fun t => cnt d c (Z.of_nat t) * masked d unw t s k) (seq 0 (length (d_tmpl d)))).
Definition wden (d : dset) (c : Z) : Z :=
  zsum (map (fun t => cnt d c (Z.of_nat t)) (seq 0 (length (d_tmpl d)))).

(* the waveform of a cluster stemming from the single template t *)
Definition single_rows (d : dset) (t : nat) : list (list rat) :=
  match nth_error (d_tmpl d) t with Some tw => map (map rat_of) tw | None => [] end.
(* the waveform of a cluster stemming from several templates, dominant template tb: the weighted mean on the
   channels of tb, zero elsewhere *)
Definition mean_rows (d : dset) (c : Z) (tb : nat) : list (list rat) :=
  map (fun s => map (fun k => if memZ k (chans_of d false tb)
                              then mkrat (wnum d false c s k) (wden d c) else rat_of 0)
                    (zrange 0 (n_channels d)))
      (seq 0 (n_samples_wf d)).
(* get_cluster_mean_waveforms: numerators, one row per sample, one column per channel of tb *)
Definition mean_num (d : dset) (unw : bool) (c : Z) (tb : nat) : list (list Z) :=
  map (fun s => map (fun k => wnum d unw c s k) (chans_of d unw tb)) (seq 0 (n_samples_wf d)).

(* ---------- the same waveforms with the per-template tables computed once (what Corr.v evaluates;
   equal to mean_rows / wnum by Proofs3.mean_rows_f_eq) ---------- *)
Record tables := mktab { tb_w : list Z; tb_ch : list (list Z); tb_tm : list (list (list Z)) }.
Definition tables_of (d : dset) (unw : bool) (c : Z) : tables :=
  let ts := seq 0 (length (d_tmpl d)) in
  mktab (map (fun t => cnt d c (Z.of_nat t)) ts) (map (chans_of d unw) ts) (map (tmpl_of d unw) ts).
Fixpoint wsum3 (ws : list Z) (chs : list (list Z)) (tms : list (list (list Z))) (s : nat) (k : Z) : Z :=
  match ws, chs, tms with
  | w :: ws', ch :: chs', tm :: tms' => w * (if memZ k ch then cell tm s k else 0) + wsum3 ws' chs' tms' s k
  | _, _, _ => 0
  end.
Definition wnum_f (tb : tables) (s : nat) (k : Z) : Z := wsum3 (tb_w tb) (tb_ch tb) (tb_tm tb) s k.
Definition mean_rows_f (d : dset) (c : Z) (tbl : tables) (tbchans : list Z) : list (list rat) :=
  let den := zsum (tb_w tbl) in
  map (fun s => map (fun k => if memZ k tbchans then mkrat (wnum_f tbl s k) den else rat_of 0)
                    (zrange 0 (n_channels d)))
      (seq 0 (n_samples_wf d)).

(* ---------- well-formed data sets ---------- *)
Definition WF (d : dset) : Prop :=
  length (d_st d) = length (d_sc d) /\
  (forall t, In t (d_st d) -> 0 <= t < n_templates d) /\
  (forall tw, In tw (d_tmpl d) -> length tw = n_samples_wf d /\
                                 forall row, In row tw -> length row = n_channels d) /\
  length (d_wmi d) = n_channels d /\
  (forall r, In r (d_wmi d) -> length r = n_channels d).

Definition wf_b (d : dset) : bool :=
  (length (d_st d) =? length (d_sc d))%nat &&
  forallb (fun t => (0 <=? t) && (t <? n_templates d)) (d_st d) &&
  forallb (fun tw => (length tw =? n_samples_wf d)%nat &&
                     forallb (fun row => (length row =? n_channels d)%nat) tw) (d_tmpl d) &&
  (length (d_wmi d) =? n_channels d)%nat &&
  forallb (fun r => (length r =? n_channels d)%nat) (d_wmi d).
