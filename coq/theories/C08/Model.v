(* C08/Model.v -- executable model of phylib's curated-cluster bookkeeping.  No proofs here.
   phylib/io/model.py (TemplateModel, dense template storage, i.e. sparse_templates.cols is None):
     get_merge_map, get_template_counts, get_cluster_mean_waveforms, cluster_waveforms, the branch of
     _load_data choosing merged vs identical clusters (as repaired on branch fix-c08: in the identical
     branch n_clusters = n_templates), and what those use of get_template: _get_template_dense,
     _find_best_channels, get_closest_channels, _unwhiten.

   Conventions.  Ids, counts, channel numbers and sample values are Z (integer templates: the exact
   regime of the correspondence); positions inside lists are nat.  Wherever NumPy / Python raises
   (IndexError, KeyError, ValueError, AssertionError, ZeroDivisionError) the model returns None.  A mean is
   kept as the two exact operands (numerator, denominator) of np.average's single final division
   (rat); the division itself is reproduced only in Corr.v.  Loader defaults (no shank file -> zeros,
   no whitening file -> identity) belong to C04: the data set handed to this model carries the loaded
   arrays. *)
From Coq Require Import ZArith List Bool Arith.
From PV Require Import Base.NpSearch Base.NpSort Base.Tok Base.TokArith.
Import ListNotations.
Open Scope Z_scope.

Record dset := mkds {
  d_st : list Z;                    (* spike_templates *)
  d_sc : list Z;                    (* spike_clusters *)
  d_tmpl : list (list (list Z));    (* sparse_templates.data: n_templates x n_samples x n_channels *)
  d_px : list Z; d_py : list Z;     (* channel_positions[:, 0], [:, 1] *)
  d_shanks : list Z;                (* channel_shanks *)
  d_wmi : list (list Z)             (* wmi: n_channels x n_channels *)
}.

(* class attributes of TemplateModel *)
Definition n_closest_channels : Z := 12.
Definition amplitude_threshold : Z := 0.

Definition n_templates (d : dset) : Z := zlen (d_tmpl d).
Definition n_channels (d : dset) : nat := length (d_px d).             (* channel_mapping.shape[0] *)
Definition n_samples_wf (d : dset) : nat := match d_tmpl d with [] => O | t :: _ => length t end.

(* ---------- NumPy primitives ---------- *)
Definition memZ (x : Z) (l : list Z) : bool := existsb (Z.eqb x) l.

Fixpoint zlist_eqb (a b : list Z) : bool :=
  match a, b with
  | [], [] => true
  | x :: a', y :: b' => (x =? y) && zlist_eqb a' b'
  | _, _ => false
  end.

(* np.unique: increasing, duplicate-free *)
Fixpoint ins_u (x : Z) (l : list Z) : list Z :=
  match l with
  | [] => [x]
  | y :: r => if x <? y then x :: l else if x =? y then l else y :: ins_u x r
  end.
Definition np_unique (l : list Z) : list Z := fold_right ins_u [] l.

(* np.intersect1d(a, b): the increasing list of the values present in both *)
Definition intersect1d (a b : list Z) : list Z := filter (fun x => memZ x b) (np_unique a).

(* b[a == key]: the entries of b at the positions where a equals key, in order *)
Definition sel (a b : list Z) (key : Z) : list Z :=
  map snd (filter (fun p => fst p =? key) (combine a b)).

(* np.max of a non-empty array x :: r *)
Definition zmax_ne (x : Z) (r : list Z) : Z := fold_right Z.max x r.

Definition countZ (k : Z) (l : list Z) : Z := Z.of_nat (length (filter (Z.eqb k) l)).

(* np.bincount(x, minlength=ml): None = ValueError (negative entry) *)
Definition bc_len (x : list Z) (ml : Z) : Z :=
  match x with [] => Z.max 0 ml | y :: r => Z.max (zmax_ne y r + 1) ml end.
Definition bincount (x : list Z) (ml : Z) : option (list Z) :=
  if existsb (fun v => v <? 0) x then None
  else Some (map (fun k => countZ k x) (zrange 0 (Z.to_nat (bc_len x ml)))).

(* np.argmax: position of the first maximal element; None = ValueError on an empty array *)
Fixpoint argmax_from (l : list Z) (i best_i : nat) (best : Z) : nat :=
  match l with
  | [] => best_i
  | x :: r => if best <? x then argmax_from r (S i) i x else argmax_from r (S i) best_i best
  end.
Definition argmax (l : list Z) : option nat :=
  match l with [] => None | x :: r => Some (argmax_from r 1 0 x) end.

Fixpoint zip_with {A B C} (f : A -> B -> C) (a : list A) (b : list B) : list C :=
  match a, b with
  | x :: a', y :: b' => f x y :: zip_with f a' b'
  | _, _ => []
  end.

Section Gen.
Context {A : Type}.
Fixpoint set_nth (l : list A) (i : nat) (v : A) : option (list A) :=
  match l, i with
  | [], _ => None
  | _ :: r, O => Some (v :: r)
  | x :: r, S k => option_map (cons x) (set_nth r k v)
  end.
(* row[chans] = vals, one assignment after the other; None = IndexError / shape mismatch
   (channel numbers here are never negative: they come from np.nonzero / np.argsort) *)
Fixpoint scatter (l : list A) (chans : list Z) (vals : list A) : option (list A) :=
  match chans, vals with
  | [], [] => Some l
  | ch :: cr, v :: vr =>
      if ch <? 0 then None else
      match set_nth l (Z.to_nat ch) v with Some l' => scatter l' cr vr | None => None end
  | _, _ => None
  end.
(* row[chans] *)
Definition gather_cols (row : list A) (chans : list Z) : option (list A) :=
  omap (fun ch => if ch <? 0 then None else nth_error row (Z.to_nat ch)) chans.
End Gen.

(* ---------- get_merge_map ---------- *)
(* inverse_mapping_dict[n].append(t); the dict has the keys 0 .. max, kept as a list *)
Fixpoint app_at (inv : list (list Z)) (n : nat) (t : Z) : list (list Z) :=
  match inv with
  | [] => []
  | l :: r => match n with O => (l ++ [t]) :: r | S k => l :: app_at r k t end
  end.
(* for n in np.unique(spike_clusters[spike_templates == temp]): inv[n].append(temp) *)
Definition mm_step (st sc : list Z) (inv : list (list Z)) (temp : Z) : list (list Z) :=
  fold_left (fun inv n => app_at inv (Z.to_nat n) temp) (np_unique (sel st sc temp)) inv.
Definition merge_map (st sc : list Z) : option (list (list Z)) :=
  match sc with
  | [] => None                                                  (* np.max([]): ValueError *)
  | x :: r =>
      if existsb (fun c => c <? 0) sc then None                 (* inv[-1]: KeyError *)
      else Some (fold_left (mm_step st sc) (np_unique st) (repeat [] (Z.to_nat (zmax_ne x r + 1))))
  end.
(* nan_idx = [idx for idx, val in inv.items() if len(val) == 0] *)
Fixpoint nan_from (i : Z) (m : list (list Z)) : list Z :=
  match m with
  | [] => []
  | l :: r => match l with [] => i :: nan_from (i + 1) r | _ :: _ => nan_from (i + 1) r end
  end.

(* ---------- templates (dense storage) ---------- *)
(* template.max(axis=0), template.min(axis=0); None = empty template (ValueError) *)
Definition col_fold (f : Z -> Z -> Z) (x : list (list Z)) : option (list Z) :=
  match x with [] => None | r :: rs => Some (fold_right (zip_with f) r rs) end.

(* np.dot(x, wmi): row s of the result = sum_k x[s][k] * wmi[k]; None = shape mismatch *)
Definition vec_mat (ncols : nat) (row : list Z) (m : list (list Z)) : list Z :=
  fold_right (zip_with Z.add) (repeat 0 ncols) (zip_with (fun xk mrow => map (Z.mul xk) mrow) row m).
Definition unwhiten (wmi : list (list Z)) (x : list (list Z)) : option (list (list Z)) :=
  let n := length wmi in
  if forallb (fun row => (length row =? n)%nat) x && forallb (fun r => (length r =? n)%nat) wmi
  then Some (map (fun row => vec_mat n row wmi) x) else None.

(* get_closest_channels(channel_positions, b, n_closest_channels) *)
Definition closest (px py : list Z) (b : nat) : option (list Z) :=
  match nth_error px b, nth_error py b with
  | Some x0, Some y0 =>
      let dd := zip_with Z.add (map (fun x => (x - x0) * (x - x0)) px) (map (fun y => (y - y0) * (y - y0)) py) in
      let out := map Z.of_nat (stable_argsort dd) in
      let out := if n_closest_channels =? 0 then out else firstn (Z.to_nat n_closest_channels) out in
      match out with
      | o :: _ => if o =? Z.of_nat b then Some out else None        (* assert out[0] == channel_index *)
      | [] => None
      end
  | _, _ => None
  end.

(* _find_best_channels(template): (channel_ids ordered by decreasing amplitude, best_channel) *)
Definition find_best_channels (d : dset) (x : list (list Z)) : option (list Z * Z) :=
  match col_fold Z.max x, col_fold Z.min x with
  | Some mx, Some mn =>
      let amp := zip_with Z.sub mx mn in
      match argmax amp with
      | None => None
      | Some b =>
          match nth_error amp b with
          | None => None
          | Some max_amp =>
              let chs := zrange 0 (length amp) in
              let peak := map snd (filter (fun p => amplitude_threshold * max_amp <=? fst p) (combine amp chs)) in
              match closest (d_px d) (d_py d) b with
              | None => None
              | Some close =>
                  if negb (memZ (Z.of_nat b) close) then None else
                  match nth_error (d_shanks d) b with
                  | None => None
                  | Some shank =>
                      let on_shank := map snd (filter (fun p => fst p =? shank)
                                                      (combine (d_shanks d) (zrange 0 (length (d_shanks d))))) in
                      let close' := intersect1d close on_shank in
                      let ids := intersect1d peak close' in
                      (* channel_ids[np.argsort(amplitude[channel_ids])[::-1]] *)
                      let ordered := map snd (rev (isort (filter (fun p => memZ (snd p) ids) (combine amp chs)))) in
                      if memZ (Z.of_nat b) ordered then Some (ordered, Z.of_nat b) else None
                  end
              end
          end
      end
  | _, _ => None
  end.

Record tpl := mktpl { t_chans : list Z; t_data : list (list Z); t_best : Z }.

(* get_template(t, unwhiten=unw) -> _get_template_dense with channel_ids=None, amplitude_threshold=None *)
Definition get_template (d : dset) (t : nat) (unw : bool) : option tpl :=
  match nth_error (d_tmpl d) t with
  | None => None
  | Some tw =>
      match (if unw then unwhiten (d_wmi d) tw else Some tw) with
      | None => None
      | Some x =>
          match find_best_channels d x with
          | None => None
          | Some (chans, b) =>
              match omap (fun row => gather_cols row chans) x with      (* template[:, channel_ids] *)
              | None => None
              | Some data => Some (mktpl chans data b)
              end
          end
      end
  end.

(* ---------- get_template_counts / get_cluster_mean_waveforms ---------- *)
Definition get_template_counts (d : dset) (c : Z) : option (list Z) :=
  bincount (sel (d_sc d) (d_st d) c) (n_templates d).

Definition mat_add (a b : list (list Z)) : list (list Z) := zip_with (zip_with Z.add) a b.
Definition mat_scale (w : Z) (a : list (list Z)) : list (list Z) := map (map (Z.mul w)) a.

Record mw := mkmw { mw_chans : list Z; mw_num : list (list Z); mw_den : Z }.

Definition mean_waveforms (d : dset) (c : Z) (unw : bool) : option mw :=
  match get_template_counts d c with
  | None => None
  | Some count =>
      match argmax count with
      | None => None
      | Some best =>
          (* template_ids = np.nonzero(count)[0]; count = count[template_ids] *)
          let pairs := filter (fun p => negb (snd p =? 0)) (combine (seq 0 (length count)) count) in
          match get_template d best unw with
          | None => None
          | Some tb =>
              let chans := t_chans tb in
              match omap (fun p => get_template d (fst p) unw) pairs with
              | None => None
              | Some tpls =>
                  let nc := n_channels d in
                  (* data[i][:, b.channel_ids] = b.template ; waveforms = data[..., channel_ids] *)
                  match omap (fun b => omap (fun row => obind (scatter (repeat 0 nc) (t_chans b) row)
                                                               (fun full => gather_cols full chans))
                                             (t_data b)) tpls with
                  | None => None
                  | Some wfs =>
                      let ws := map snd pairs in
                      let den := zsum ws in
                      if den =? 0 then None                      (* ZeroDivisionError: weights sum to zero *)
                      else
                        let zero := repeat (repeat 0 (length chans)) (n_samples_wf d) in
                        let num := fold_right mat_add zero (zip_with mat_scale ws wfs) in
                        Some (mkmw chans num den)
                  end
              end
          end
      end
  end.

(* ---------- cluster_waveforms ---------- *)
Record rat := mkrat { rn : Z; rd : Z }.
Definition rat_of (v : Z) : rat := mkrat v 1.

Definition cw_row (d : dset) (c : Z) (val : list Z) : option (list (list rat)) :=
  match val with
  | [] => Some (repeat (repeat (rat_of 0) (n_channels d)) (n_samples_wf d))
  | [t] => if t <? 0 then None else
           match nth_error (d_tmpl d) (Z.to_nat t) with
           | Some tw => Some (map (map rat_of) tw)
           | None => None
           end
  | _ => match mean_waveforms d c false with
         | None => None
         | Some m =>
             (* data[clust, :, channel_ids] = swapaxes(mean_waveforms, 0, 1) *)
             omap (fun numrow => scatter (repeat (rat_of 0) (n_channels d)) (mw_chans m)
                                         (map (fun n => mkrat n (mw_den m)) numrow)) (mw_num m)
         end
  end.

Definition cluster_waveforms (d : dset) (mm : list (list Z)) : option (list (list (list rat))) :=
  omap (fun p => cw_row d (fst p) (snd p)) (combine (zrange 0 (length mm)) mm).

(* ---------- the branch of _load_data ---------- *)
(* np.setdiff1d(np.arange(n_clusters, dtype=np.int64), spike_clusters): the ids of range(n) that no spike carries,
   increasing (the identity branch AS REPAIRED on branch fix-c14b; before the repair: nan_idx = []) *)
Definition setdiff_arange (n : nat) (sc : list Z) : list Z := filter (fun c => negb (memZ c sc)) (zrange 0 n).

Record loaded := mkld {
  l_curated : bool;
  l_mm : list (list Z);                 (* merge_map: entry c = templates of cluster c; [] when not curated ({}) *)
  l_nan : list Z;                       (* nan_idx: get_merge_map's when curated, the setdiff1d otherwise *)
  l_data : list (list (list rat));      (* sparse_clusters.data *)
  l_ncl : Z                             (* n_clusters *)
}.

Definition load (d : dset) : option loaded :=
  if negb (length (d_st d) =? length (d_sc d))%nat then None else     (* the shape asserts *)
  match d_sc d with
  | [] => None                                                       (* no spike: the loader fails *)
  | x :: r =>
      if zlist_eqb (d_sc d) (d_st d)                                 (* np.all(spike_clusters == spike_templates) *)
      then Some (mkld false [] (setdiff_arange (length (d_tmpl d)) (d_sc d))
                      (map (map (map rat_of)) (d_tmpl d)) (n_templates d))
      else match merge_map (d_st d) (d_sc d) with
           | None => None
           | Some mm =>
               match cluster_waveforms d mm with
               | None => None
               | Some data => Some (mkld true mm (nan_from 0 mm) data (zmax_ne x r + 1))
               end
           end
  end.
