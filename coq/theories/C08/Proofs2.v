(* C08/Proofs2.v -- get_cluster_mean_waveforms: the model's gather / scatter / weighted-sum pipeline equals
   the closed form of Spec.v (weighted mean of the channel-restricted templates on the channels of a dominant
   template). *)
From Coq Require Import ZArith List Lia Bool Arith Sorted Permutation.
From PV Require Import Base.NpSearch Base.NpSort Base.Tok Base.TokArith C08.Model C08.Spec C08.Proofs.
Import ListNotations.
Open Scope Z_scope.

(* ---------- generic list lemmas ---------- *)
Lemma omap_cons {A B} (f : A -> option B) x l r :
  omap f (x :: l) = Some r -> exists y ys, f x = Some y /\ omap f l = Some ys /\ r = y :: ys.
Proof.
  cbn [omap]. unfold obind. destruct (f x) as [y|]; [|discriminate].
  destruct (omap f l) as [ys|]; [|discriminate]. intros E. injection E as <-. eauto.
Qed.

Lemma omap_length {A B} (f : A -> option B) l r : omap f l = Some r -> length r = length l.
Proof.
  revert r. induction l as [|x l IH]; intros r H.
  - cbn in H. injection H as <-. reflexivity.
  - apply omap_cons in H. destruct H as (y & ys & _ & H & ->). cbn. f_equal. now apply IH.
Qed.

Lemma omap_as_map {A B} (f : A -> option B) (g : A -> B) l r :
  omap f l = Some r -> (forall x y, In x l -> f x = Some y -> y = g x) -> r = map g l.
Proof.
  revert r. induction l as [|x l IH]; intros r H Hg.
  - cbn in H. injection H as <-. reflexivity.
  - apply omap_cons in H. destruct H as (y & ys & Hy & H & ->). cbn [map]. f_equal.
    + apply Hg; [now left|exact Hy].
    + apply IH; [exact H|]. intros x' y' Hin. apply Hg. now right.
Qed.

Lemma omap_in {A B} (f : A -> option B) l r x :
  omap f l = Some r -> In x l -> exists y, f x = Some y.
Proof.
  revert r. induction l as [|x' l IH]; intros r H Hin; [destruct Hin|].
  apply omap_cons in H. destruct H as (y & ys & Hy & H & ->).
  destruct Hin as [->|Hin]; [eauto|]. eapply IH; eauto.
Qed.

Lemma omap_nth {A B} (f : A -> option B) l r i x :
  omap f l = Some r -> nth_error l i = Some x -> exists y, f x = Some y /\ nth_error r i = Some y.
Proof.
  revert r i. induction l as [|x' l IH]; intros r i H Hi; [destruct i; discriminate|].
  apply omap_cons in H. destruct H as (y & ys & Hy & H & ->).
  destruct i as [|i]; cbn in Hi.
  - injection Hi as <-. exists y. split; [exact Hy|reflexivity].
  - cbn [nth_error]. eapply IH; eauto.
Qed.

Lemma nth_error_ext {A} (a b : list A) : (forall k, nth_error a k = nth_error b k) -> a = b.
Proof.
  revert b. induction a as [|x a IH]; intros [|y b] H; try reflexivity.
  - specialize (H O). discriminate.
  - specialize (H O). discriminate.
  - f_equal; [specialize (H O); cbn in H; congruence|]. apply IH. intros k. exact (H (S k)).
Qed.

Lemma map_nth_seq {A B} (g : A -> B) (x : list A) (dflt : A) :
  map g x = map (fun s => g (nth s x dflt)) (seq 0 (length x)).
Proof.
  induction x as [|a x IH]; [reflexivity|].
  cbn [length seq map nth]. f_equal. rewrite <- seq_shift, map_map. exact IH.
Qed.

Lemma zrange_seq a n : zrange a n = map (fun i => a + Z.of_nat i) (seq 0 n).
Proof.
  revert a. induction n as [|n IH]; intros a; [reflexivity|].
  cbn [zrange seq map]. f_equal; [lia|]. rewrite IH, <- seq_shift, map_map.
  apply map_ext. intros i. lia.
Qed.

Lemma zip_with_map {A B C D} (f : B -> C -> D) (g : A -> B) (h : A -> C) l :
  zip_with f (map g l) (map h l) = map (fun x => f (g x) (h x)) l.
Proof. induction l as [|x l IH]; [reflexivity|]. cbn. now rewrite IH. Qed.

Lemma zsum_app a b : zsum (a ++ b) = zsum a + zsum b.
Proof. induction a as [|x a IH]; cbn; [reflexivity|]. unfold zsum in *. cbn. lia. Qed.

(* ---------- set_nth / scatter / gather ---------- *)
Section Scatter.
Context {A : Type}.

Lemma set_nth_spec (l : list A) i v :
  (i < length l)%nat ->
  exists l', set_nth l i v = Some l' /\ length l' = length l /\
             forall k, nth_error l' k = if (k =? i)%nat then Some v else nth_error l k.
Proof.
  revert i. induction l as [|x l IH]; intros i Hi; [cbn in Hi; lia|].
  destruct i as [|i]; cbn [set_nth].
  - eexists. split; [reflexivity|]. split; [reflexivity|]. intros [|k]; reflexivity.
  - destruct (IH i) as (l' & E & Hl & Hn); [cbn in Hi; lia|]. rewrite E. cbn [option_map].
    eexists. split; [reflexivity|]. split; [cbn; lia|]. intros [|k]; [reflexivity|]. cbn [nth_error]. rewrite Hn. reflexivity.
Qed.

(* row[chans] = [f ch | ch in chans]: a function of the channel, so repeated channels are harmless *)
Lemma scatter_map (f : Z -> A) (chans : list Z) (l : list A) :
  (forall ch, In ch chans -> 0 <= ch < Z.of_nat (length l)) ->
  exists l', scatter l chans (map f chans) = Some l' /\ length l' = length l /\
             forall k, nth_error l' k = if memZ (Z.of_nat k) chans then Some (f (Z.of_nat k)) else nth_error l k.
Proof.
  revert l. induction chans as [|ch cr IH]; intros l Hr.
  - exists l. cbn. auto.
  - cbn [map scatter]. assert (Hch : 0 <= ch < Z.of_nat (length l)) by (apply Hr; now left).
    replace (ch <? 0) with false by lia.
    destruct (set_nth_spec l (Z.to_nat ch) (f ch)) as (l1 & E1 & L1 & N1); [lia|]. rewrite E1.
    destruct (IH l1) as (l' & E & L & N).
    { intros c Hc. rewrite L1. apply Hr. now right. }
    exists l'. split; [exact E|]. split; [congruence|].
    intros k. rewrite N, N1. unfold memZ. cbn [existsb]. fold (memZ (Z.of_nat k) cr).
    destruct (memZ (Z.of_nat k) cr); [now rewrite orb_true_r|]. rewrite orb_false_r.
    destruct (Nat.eqb_spec k (Z.to_nat ch)) as [E'|E'].
    + replace (Z.of_nat k =? ch) with true by lia. f_equal. f_equal. lia.
    + replace (Z.of_nat k =? ch) with false by lia. reflexivity.
Qed.

Lemma gather_as_map (dflt : A) (row : list A) (chans : list Z) vals :
  gather_cols row chans = Some vals ->
  vals = map (fun k => nth (Z.to_nat k) row dflt) chans /\
  forall ch, In ch chans -> 0 <= ch < Z.of_nat (length row).
Proof.
  unfold gather_cols. revert vals. induction chans as [|ch cr IH]; intros vals H.
  - cbn in H. injection H as <-. split; [reflexivity|intros ? []].
  - apply omap_cons in H. destruct H as (y & ys & Hy & H & ->).
    destruct (IH ys H) as (-> & Hr). destruct (ch <? 0) eqn:E; [discriminate|].
    assert (Hlt : (Z.to_nat ch < length row)%nat) by (apply nth_error_Some; congruence).
    split.
    + cbn [map]. f_equal. symmetry. apply nth_error_nth. exact Hy.
    + intros c [<-|Hc]; [lia|auto].
Qed.

Lemma gather_map_ok (g : Z -> A) (row : list A) (chans : list Z) :
  (forall ch, In ch chans -> 0 <= ch /\ nth_error row (Z.to_nat ch) = Some (g ch)) ->
  gather_cols row chans = Some (map g chans).
Proof.
  unfold gather_cols. induction chans as [|ch cr IH]; intros H; [reflexivity|].
  cbn [omap map]. destruct (H ch (or_introl eq_refl)) as (H0 & H1).
  replace (ch <? 0) with false by lia. rewrite H1. cbn [obind]. rewrite IH; [reflexivity|].
  intros c Hc. apply H. now right.
Qed.
End Scatter.

Lemma nth_error_repeat_Z {A} (x : A) n k : nth_error (repeat x n) k = if (k <? n)%nat then Some x else None.
Proof.
  destruct (Nat.ltb_spec k n) as [H|H].
  - now apply nth_error_repeat.
  - apply nth_error_None. rewrite repeat_length. exact H.
Qed.

Lemma nth_error_seq_lt a n k : (k < n)%nat -> nth_error (seq a n) k = Some (a + k)%nat.
Proof.
  revert a k. induction n as [|n IH]; intros a k H; [lia|].
  destruct k as [|k]; cbn [seq nth_error]; [f_equal; lia|]. rewrite IH by lia. f_equal. lia.
Qed.

(* scattering a function of the channel into a constant row = the masked row *)
Lemma scatter_const {A} (f : Z -> A) (z : A) (chans : list Z) (n : nat) :
  (forall ch, In ch chans -> 0 <= ch < Z.of_nat n) ->
  scatter (repeat z n) chans (map f chans) =
  Some (map (fun k => if memZ k chans then f k else z) (zrange 0 n)).
Proof.
  intros Hr. destruct (scatter_map f chans (repeat z n)) as (l' & E & L & N).
  { intros ch Hc. rewrite repeat_length. auto. }
  rewrite E. f_equal. apply nth_error_ext. intros k. rewrite N, nth_error_repeat_Z.
  rewrite zrange_seq, map_map.
  destruct (Nat.ltb_spec k n) as [H|H].
  - rewrite (nth_error_map _ _ _). rewrite nth_error_seq_lt by exact H. cbn [option_map].
    replace (0 + Z.of_nat (0 + k)) with (Z.of_nat k) by lia. destruct (memZ _ _); reflexivity.
  - destruct (memZ (Z.of_nat k) chans) eqn:M.
    + apply memZ_In in M. apply Hr in M. lia.
    + symmetry. apply nth_error_None. rewrite map_length, seq_length. exact H.
Qed.

(* ---------- shapes ---------- *)
Lemma zip_with_length {A B C} (f : A -> B -> C) a b : length (zip_with f a b) = Nat.min (length a) (length b).
Proof. revert b. induction a as [|x a IH]; intros [|y b]; cbn; auto. Qed.

Lemma zip_with_in {A B C} (f : A -> B -> C) a b e :
  In e (zip_with f a b) -> exists x y, In x a /\ In y b /\ e = f x y.
Proof.
  revert b. induction a as [|x a IH]; intros [|y b] H; try destruct H.
  - exists x, y. cbn. auto.
  - destruct (IH b H) as (x' & y' & ? & ? & ?). exists x', y'. cbn. auto.
Qed.

Lemma fold_zip_length (n : nat) (init : list Z) (L : list (list Z)) :
  length init = n -> (forall e, In e L -> length e = n) ->
  length (fold_right (zip_with Z.add) init L) = n.
Proof.
  intros Hi. induction L as [|e L IH]; intros H; [exact Hi|].
  cbn [fold_right]. rewrite zip_with_length, IH, (H e (or_introl eq_refl)); [lia|].
  intros e' He. apply H. now right.
Qed.

Lemma vec_mat_length n row m : (forall r, In r m -> length r = n) -> length (vec_mat n row m) = n.
Proof.
  intros H. unfold vec_mat. apply fold_zip_length; [apply repeat_length|].
  intros e He. apply zip_with_in in He. destruct He as (xk & mrow & _ & Hm & ->).
  rewrite map_length. now apply H.
Qed.

Lemma tmpl_of_shape d unw t tw :
  WF d -> nth_error (d_tmpl d) t = Some tw ->
  (unw = true -> unwhiten (d_wmi d) tw <> None) ->
  length (tmpl_of d unw t) = n_samples_wf d /\
  forall row, In row (tmpl_of d unw t) -> length row = n_channels d.
Proof.
  intros (_ & _ & Ht & Hw & Hwr) E Hu. unfold tmpl_of. rewrite E.
  destruct (Ht tw (nth_error_In _ _ E)) as (H1 & H2).
  destruct unw; [|split; assumption].
  specialize (Hu eq_refl). unfold unwhiten in *. destruct (_ && _); [|congruence].
  split; [now rewrite map_length|]. intros row Hr. apply in_map_iff in Hr. destruct Hr as (r0 & <- & _).
  rewrite vec_mat_length; [exact Hw|]. intros r Hr. rewrite Hw. now apply Hwr.
Qed.

Lemma get_template_inv d t unw tp :
  get_template d t unw = Some tp ->
  (exists b, find_best_channels d (tmpl_of d unw t) = Some (t_chans tp, b)) /\
  omap (fun row => gather_cols row (t_chans tp)) (tmpl_of d unw t) = Some (t_data tp) /\
  (exists tw, nth_error (d_tmpl d) t = Some tw /\ (unw = true -> unwhiten (d_wmi d) tw <> None)) /\
  chans_of d unw t = t_chans tp.
Proof.
  intros H. assert (Hc : chans_of d unw t = t_chans tp) by (unfold chans_of; now rewrite H).
  unfold get_template in H. unfold tmpl_of.
  destruct (nth_error (d_tmpl d) t) as [tw|]; [|discriminate].
  destruct unw.
  - destruct (unwhiten (d_wmi d) tw) as [x|] eqn:EU; [|discriminate].
    destruct (find_best_channels d x) as [[chans b]|]; [|discriminate].
    destruct (omap _ x) as [data|] eqn:E; [|discriminate]. injection H as <-. cbn [t_chans t_data].
    split; [eauto|]. split; [exact E|]. split; [|exact Hc]. exists tw. split; [reflexivity|intros _; rewrite EU; discriminate].
  - destruct (find_best_channels d tw) as [[chans b]|]; [|discriminate].
    destruct (omap _ tw) as [data|] eqn:E; [|discriminate]. injection H as <-. cbn [t_chans t_data].
    split; [eauto|]. split; [exact E|]. split; [|exact Hc]. exists tw. split; [reflexivity|discriminate].
Qed.

Lemma find_best_nonempty d x r : find_best_channels d x = Some r -> x <> [].
Proof. intros H ->. discriminate. Qed.

(* the channels of a template are channel numbers *)
Lemma chans_in_range d t unw tp :
  WF d -> get_template d t unw = Some tp ->
  forall ch, In ch (t_chans tp) -> 0 <= ch < Z.of_nat (n_channels d).
Proof.
  intros Hwf H. destruct (get_template_inv _ _ _ _ H) as ((b & Hb) & Hd & (tw & Htw & Hu) & _).
  destruct (tmpl_of_shape d unw t tw Hwf Htw Hu) as (_ & Hrow).
  apply find_best_nonempty in Hb. destruct (tmpl_of d unw t) as [|row x]; [congruence|].
  apply omap_cons in Hd. destruct Hd as (y & ys & Hy & _ & _).
  apply (gather_as_map 0) in Hy. destruct Hy as (_ & Hr). rewrite <- (Hrow row (or_introl eq_refl)). exact Hr.
Qed.

Lemma omap_all_some {A B} (f : A -> option B) (g : A -> B) l :
  (forall x, In x l -> f x = Some (g x)) -> omap f l = Some (map g l).
Proof.
  induction l as [|x l IH]; intros H; [reflexivity|].
  cbn [omap map]. rewrite (H x (or_introl eq_refl)). cbn [obind]. rewrite IH; [reflexivity|].
  intros y Hy. apply H. now right.
Qed.

Lemma omap_map {A B C} (f : B -> option C) (g : A -> B) l : omap f (map g l) = omap (fun x => f (g x)) l.
Proof. induction l as [|x l IH]; [reflexivity|]. cbn [map omap]. now rewrite IH. Qed.

Lemma nth_error_zrange_map {A} (h : Z -> A) n ch :
  0 <= ch < Z.of_nat n -> nth_error (map h (zrange 0 n)) (Z.to_nat ch) = Some (h ch).
Proof.
  intros H. rewrite zrange_seq, map_map, nth_error_map, nth_error_seq_lt by lia. cbn [option_map].
  f_equal. f_equal. lia.
Qed.

(* data[i][:, b.channel_ids] = b.template ; data[i][:, channel_ids]  =  template i masked to its own channels,
   read on the requested channels *)
Lemma wf_rows d unw t tp chansB :
  WF d -> get_template d t unw = Some tp ->
  (forall ch, In ch chansB -> 0 <= ch < Z.of_nat (n_channels d)) ->
  omap (fun row => obind (scatter (repeat 0 (n_channels d)) (t_chans tp) row)
                         (fun full => gather_cols full chansB)) (t_data tp)
  = Some (map (fun s => map (fun k => masked d unw t s k) chansB) (seq 0 (n_samples_wf d))).
Proof.
  intros Hwf H HB. pose proof (chans_in_range d t unw tp Hwf H) as Hr.
  destruct (get_template_inv _ _ _ _ H) as (_ & Hd & (tw & Htw & Hu) & Hc).
  destruct (tmpl_of_shape d unw t tw Hwf Htw Hu) as (Hlen & Hrow).
  set (x := tmpl_of d unw t) in *.
  set (G := fun xrow : list Z => map (fun k => nth (Z.to_nat k) xrow 0) (t_chans tp)).
  assert (Hdata : t_data tp = map G x).
  { eapply omap_as_map; [exact Hd|]. intros xrow y _ Hy. now apply (gather_as_map 0) in Hy. }
  rewrite Hdata.
  set (R := fun xrow : list Z => map (fun k => if memZ k (t_chans tp) then nth (Z.to_nat k) xrow 0 else 0) chansB).
  rewrite omap_map.
  rewrite (omap_all_some _ R).
  2:{ intros xrow Hin. unfold G.
      rewrite scatter_const.
      2:{ intros ch Hch. now apply Hr. }
      cbn [obind]. unfold R. apply gather_map_ok. intros ch Hch. split; [apply HB in Hch; lia|].
      apply (nth_error_zrange_map (fun k => if memZ k (t_chans tp) then nth (Z.to_nat k) xrow 0 else 0)).
      now apply HB. }
  f_equal. rewrite (map_nth_seq R x []), Hlen. apply map_ext. intros s. unfold R.
  apply map_ext. intros k. unfold masked, cell. rewrite Hc. reflexivity.
Qed.

(* ---------- counts ---------- *)
Lemma countZ_sel (l : list (Z * Z)) c k :
  countZ k (map snd (filter (fun p => fst p =? c) l)) =
  Z.of_nat (length (filter (fun p => (fst p =? c) && (snd p =? k)) l)).
Proof.
  unfold countZ. f_equal. induction l as [|[a b] l IH]; [reflexivity|].
  cbn [filter fst snd]. destruct (a =? c); cbn [andb map filter fst snd]; [|exact IH].
  rewrite (Z.eqb_sym k b). destruct (b =? k); cbn [length]; now rewrite IH.
Qed.

Lemma sel_in_st d c v : In v (sel (d_sc d) (d_st d) c) -> In v (d_st d).
Proof. intros H. apply sel_in in H. destruct H as (i & _ & Hi). eapply nth_error_In; exact Hi. Qed.

Lemma counts_spec d c count :
  WF d -> get_template_counts d c = Some count ->
  count = map (fun t => cnt d c (Z.of_nat t)) (seq 0 (length (d_tmpl d))).
Proof.
  intros (_ & Hst & _) H. unfold get_template_counts, bincount in H.
  destruct (existsb _ _); [discriminate|]. injection H as <-.
  assert (Hlen : bc_len (sel (d_sc d) (d_st d) c) (n_templates d) = n_templates d).
  { unfold bc_len. destruct (sel (d_sc d) (d_st d) c) as [|y r] eqn:E.
    - unfold n_templates, zlen. lia.
    - pose proof (zmax_ne_in y r) as Hin. rewrite <- E in Hin. apply sel_in_st, Hst in Hin. lia. }
  rewrite Hlen. unfold n_templates, zlen. rewrite Nat2Z.id, zrange_seq, map_map.
  apply map_ext. intros t. unfold sel, cnt. rewrite countZ_sel. reflexivity.
Qed.

Lemma cnt_nonneg d c t : 0 <= cnt d c t.
Proof. unfold cnt. lia. Qed.

(* ---------- argmax ---------- *)
Lemma argmax_from_spec (r pre : list Z) i bi b :
  length pre = i -> nth_error pre bi = Some b -> (forall w, In w pre -> w <= b) ->
  exists v, nth_error (pre ++ r) (argmax_from r i bi b) = Some v /\ forall w, In w (pre ++ r) -> w <= v.
Proof.
  revert pre i bi b. induction r as [|x r IH]; intros pre i bi b Hl Hb Hub.
  - cbn [argmax_from]. rewrite app_nil_r. eauto.
  - cbn [argmax_from]. replace (pre ++ x :: r) with ((pre ++ [x]) ++ r) by (rewrite <- app_assoc; reflexivity).
    destruct (b <? x) eqn:E.
    + apply IH.
      * rewrite app_length. cbn. lia.
      * rewrite nth_error_app2 by lia. replace (i - length pre)%nat with O by lia. reflexivity.
      * intros w Hw. apply in_app_or in Hw. destruct Hw as [Hw|[<-|[]]]; [apply Hub in Hw; lia|lia].
    + apply IH.
      * rewrite app_length. cbn. lia.
      * rewrite nth_error_app1; [exact Hb|]. apply nth_error_Some. congruence.
      * intros w Hw. apply in_app_or in Hw. destruct Hw as [Hw|[<-|[]]]; [now apply Hub|lia].
Qed.

Lemma argmax_spec l j :
  argmax l = Some j -> exists v, nth_error l j = Some v /\ forall w, In w l -> w <= v.
Proof.
  destruct l as [|x r]; [discriminate|]. cbn [argmax]. intros E. injection E as <-.
  apply (argmax_from_spec r [x] 1 0 x); [reflexivity|reflexivity|]. intros w [<-|[]]. lia.
Qed.

(* ---------- weighted sums ---------- *)
Lemma repeat_as_map {A B} (x : A) (l : list B) : repeat x (length l) = map (fun _ => x) l.
Proof. induction l as [|y l IH]; [reflexivity|]. cbn. now rewrite IH. Qed.

Lemma sum_rows {P : Type} (w : P -> Z) (h : P -> nat -> Z -> Z) (L : list Z) (n : nat) (pairs : list P) :
  fold_right mat_add (repeat (repeat 0 (length L)) n)
             (map (fun p => mat_scale (w p) (map (fun s => map (h p s) L) (seq 0 n))) pairs)
  = map (fun s => map (fun k => zsum (map (fun p => w p * h p s k) pairs)) L) (seq 0 n).
Proof.
  induction pairs as [|p pairs IH].
  - cbn [map fold_right zsum]. rewrite <- (seq_length n 0) at 1. rewrite repeat_as_map.
    apply map_ext. intros _. apply repeat_as_map.
  - cbn [map fold_right]. rewrite IH. unfold mat_add, mat_scale. rewrite map_map, zip_with_map.
    apply map_ext. intros s. rewrite map_map, zip_with_map. reflexivity.
Qed.

Lemma zsum_filter_nz {T} (h : T -> Z) (l : list (T * Z)) :
  zsum (map (fun p => snd p * h (fst p)) (filter (fun p => negb (snd p =? 0)) l)) =
  zsum (map (fun p => snd p * h (fst p)) l).
Proof.
  induction l as [|[t v] l IH]; [reflexivity|]. cbn [filter snd fst].
  destruct (Z.eqb_spec v 0) as [->|E]; cbn [negb map zsum fold_right]; unfold zsum in *; cbn [fst snd]; lia.
Qed.

Lemma zsum_snd_filter_nz {T} (l : list (T * Z)) :
  zsum (map snd (filter (fun p => negb (snd p =? 0)) l)) = zsum (map snd l).
Proof.
  induction l as [|[t v] l IH]; [reflexivity|]. cbn [filter snd].
  destruct (Z.eqb_spec v 0) as [->|E]; cbn [negb map zsum fold_right]; unfold zsum in *; cbn [snd]; lia.
Qed.

Lemma combine_map_r {A B} (f : A -> B) l : combine l (map f l) = map (fun x => (x, f x)) l.
Proof. induction l as [|x l IH]; [reflexivity|]. cbn. now rewrite IH. Qed.

Lemma zsum_all_zero l : (forall x, In x l -> x = 0) -> zsum l = 0.
Proof.
  induction l as [|x l IH]; intros H; [reflexivity|]. unfold zsum in *. cbn [fold_right].
  rewrite (H x (or_introl eq_refl)), IH; [reflexivity|]. intros y Hy. apply H. now right.
Qed.

(* ---------- get_cluster_mean_waveforms ---------- *)
Lemma wfs_spec d unw chansB (pairs : list (nat * Z)) tpls wfs :
  WF d -> (forall ch, In ch chansB -> 0 <= ch < Z.of_nat (n_channels d)) ->
  omap (fun p => get_template d (fst p) unw) pairs = Some tpls ->
  omap (fun b => omap (fun row => obind (scatter (repeat 0 (n_channels d)) (t_chans b) row)
                                        (fun full => gather_cols full chansB)) (t_data b)) tpls = Some wfs ->
  wfs = map (fun p => map (fun s => map (fun k => masked d unw (fst p) s k) chansB) (seq 0 (n_samples_wf d))) pairs.
Proof.
  intros Hwf HB. revert tpls wfs. induction pairs as [|p pairs IH]; intros tpls wfs H1 H2.
  - cbn in H1. injection H1 as <-. cbn in H2. injection H2 as <-. reflexivity.
  - apply omap_cons in H1. destruct H1 as (tp & tps & Hp & H1 & ->).
    apply omap_cons in H2. destruct H2 as (y & ys & Hy & H2 & ->).
    cbn [map]. f_equal; [|now apply (IH tps)].
    rewrite (wf_rows d unw (fst p) tp chansB Hwf Hp HB) in Hy. now injection Hy as <-.
Qed.

Theorem mean_waveforms_spec d c unw m :
  WF d -> mean_waveforms d c unw = Some m ->
  exists tb, Dominant d c tb /\ mw_chans m = chans_of d unw tb /\ mw_den m = wden d c /\
             mw_num m = mean_num d unw c tb.
Proof.
  intros Hwf H. unfold mean_waveforms in H.
  destruct (get_template_counts d c) as [count|] eqn:Ec; [|discriminate].
  destruct (argmax count) as [best|] eqn:Ea; [|discriminate].
  destruct (get_template d best unw) as [tb|] eqn:Eb; [|discriminate].
  apply (counts_spec d c count Hwf) in Ec.
  set (nt := length (d_tmpl d)) in *.
  set (cf := fun t : nat => cnt d c (Z.of_nat t)) in *.
  assert (Hcomb : combine (seq 0 (length count)) count = map (fun t => (t, cf t)) (seq 0 nt)).
  { rewrite Ec, map_length, seq_length. apply combine_map_r. }
  rewrite Hcomb in H.
  set (pairs := filter (fun p : nat * Z => negb (snd p =? 0)) (map (fun t => (t, cf t)) (seq 0 nt))) in *.
  destruct (omap (fun p => get_template d (fst p) unw) pairs) as [tpls|] eqn:Et; [|discriminate].
  destruct (omap _ tpls) as [wfs|] eqn:Ew; [|discriminate].
  destruct (zsum (map snd pairs) =? 0) eqn:Ed; [discriminate|].
  injection H as <-. cbn [mw_chans mw_num mw_den].
  pose proof (chans_in_range d best unw tb Hwf Eb) as HB.
  destruct (get_template_inv _ _ _ _ Eb) as (_ & _ & _ & Hch).
  assert (Hden : zsum (map snd pairs) = wden d c).
  { unfold pairs. rewrite zsum_snd_filter_nz, map_map. reflexivity. }
  exists best. split; [|split; [now rewrite Hch|split; [exact Hden|]]].
  - (* dominant *)
    apply argmax_spec in Ea. destruct Ea as (v & Hv & Hub).
    assert (Hlt : (best < nt)%nat).
    { assert (best < length count)%nat by (apply nth_error_Some; congruence).
      rewrite Ec, map_length, seq_length in H. exact H. }
    assert (Hv' : v = cf best).
    { rewrite Ec, nth_error_map, nth_error_seq_lt in Hv by exact Hlt. cbn in Hv. congruence. }
    assert (Hle : forall t, (t < nt)%nat -> cf t <= cf best).
    { intros t Ht. rewrite <- Hv'. apply Hub. rewrite Ec. apply in_map. apply in_seq. lia. }
    split; [exact Hlt|]. split; [|exact Hle].
    destruct (Z.ltb_spec 0 (cf best)) as [Hpos|Hneg]; [exact Hpos|exfalso].
    rewrite Hden in Ed. unfold wden in Ed. rewrite zsum_all_zero in Ed; [discriminate|].
    intros x Hx. apply in_map_iff in Hx. destruct Hx as (t & <- & Ht). apply in_seq in Ht.
    pose proof (cnt_nonneg d c (Z.of_nat t)). specialize (Hle t ltac:(lia)). unfold cf in *. lia.
  - (* numerators *)
    rewrite (wfs_spec d unw (t_chans tb) pairs tpls wfs Hwf HB Et Ew).
    rewrite zip_with_map.
    rewrite (sum_rows (fun p : nat * Z => snd p) (fun p s k => masked d unw (fst p) s k)).
    unfold mean_num. rewrite Hch. apply map_ext. intros s. apply map_ext. intros k.
    unfold pairs. rewrite (zsum_filter_nz (fun t => masked d unw t s k)), map_map. reflexivity.
Qed.
