(* C08/History.v -- the quantifier of the property: "all pairs (spike_templates, spike_clusters) produced by
   arbitrary sequences of merges, splits and reassignments".

   The curation operations on a cluster vector, with phy's conventions (phy/cluster/clustering.py):
     merge(S)           every spike of a cluster of S gets ONE fresh id (Clustering.merge: new_cluster_id());
     split(sel)         = Clustering.assign: the selected spikes get ONE fresh id, and every unselected spike of a
                        cluster that lost a spike gets a fresh id too (_extend_assignment): both halves are renumbered,
                        the old id is left without spikes;
     reassign(i, c)     spike i is put into the (arbitrary, possibly existing) non-negative id c -- what an external
                        edit of spike_clusters.npy, or an older phy "move", does; NOT a phy merge/split.
   Fresh = larger than every id used so far in the history: phy keeps a running counter (_new_cluster_id, initially
   max(spike_clusters) + 1) that never goes back, also across undo; the history relation therefore carries a bound B
   (every id ever used is <= B) that operations may raise by more than they need (undone operations).

   Hist st B sc      sc is reachable from clusters = templates = st by such operations, ids used so far <= B
   HistPhy st B0 B sc  the same with merges and splits only (what phy itself can produce); B0 = the initial bound

   Proved here: (hist_guard) every reachable vector has the length of st and non-negative ids -- the whole guard of
   C08_merge_map; (hist_complete) conversely every vector of that length with non-negative ids is reachable (by
   reassignments alone), so the guard is EXACTLY the quantifier; (histphy_no_reuse) merges and splits alone never
   re-use an id: an id <= B0 still present labels exactly the spikes of the template of the same number -- the vectors
   that violate this (a spike moved into an existing cluster) are not phy-reachable but are reachable with a
   reassignment, and are covered by the theorems of Props.v all the same. *)
From Coq Require Import ZArith List Lia Bool Arith Sorted.
From PV Require Import Base.NpSearch C08.Model C08.Spec C08.Proofs.
Import ListNotations.
Open Scope Z_scope.

(* ---------- the operations ---------- *)
Definition indexed_from (s : nat) (sc : list Z) : list (nat * Z) := combine (seq s (length sc)) sc.
Definition indexed (sc : list Z) : list (nat * Z) := indexed_from 0 sc.

Definition merge_op (S : list Z) (new : Z) (sc : list Z) : list Z :=
  map (fun c => if memZ c S then new else c) sc.

(* cluster c contains a selected spike *)
Definition touched (sel : nat -> bool) (sc : list Z) (c : Z) : bool :=
  existsb (fun p => sel (fst p) && (snd p =? c)) (indexed sc).
Definition split_op (sel : nat -> bool) (new : Z) (rest : Z -> Z) (sc : list Z) : list Z :=
  map (fun p => if sel (fst p) then new else if touched sel sc (snd p) then rest (snd p) else snd p) (indexed sc).

Definition reassign_from (s i : nat) (c : Z) (sc : list Z) : list Z :=
  map (fun p => if (fst p =? i)%nat then c else snd p) (indexed_from s sc).
Definition reassign_op (i : nat) (c : Z) (sc : list Z) : list Z := reassign_from 0 i c sc.

(* ---------- histories ---------- *)
Inductive Hist (st : list Z) : Z -> list Z -> Prop :=
| Hist_init B : (forall c, In c st -> c <= B) -> Hist st B st
| Hist_merge B B' sc S new : Hist st B sc -> B < new <= B' -> Hist st B' (merge_op S new sc)
| Hist_split B B' sc sel new rest :
    Hist st B sc -> B < new <= B' -> (forall c, B < rest c <= B') -> Hist st B' (split_op sel new rest sc)
| Hist_reassign B B' sc i c : Hist st B sc -> B <= B' -> 0 <= c <= B' -> Hist st B' (reassign_op i c sc).

Inductive HistPhy (st : list Z) (B0 : Z) : Z -> list Z -> Prop :=
| HP_init : (forall c, In c st -> c <= B0) -> HistPhy st B0 B0 st
| HP_merge B B' sc S new : HistPhy st B0 B sc -> B < new <= B' -> HistPhy st B0 B' (merge_op S new sc)
| HP_split B B' sc sel new rest :
    HistPhy st B0 B sc -> B < new <= B' -> (forall c, B < rest c <= B') -> HistPhy st B0 B' (split_op sel new rest sc).

(* an id <= B0 that is still present labels exactly the spikes of the template of the same number *)
Definition NoReuse (st sc : list Z) (B0 : Z) : Prop :=
  forall i c t, nth_error sc i = Some c -> nth_error st i = Some t -> c <= B0 ->
    c = t /\ forall j, nth_error st j = Some t -> nth_error sc j = Some t.

(* ---------- list facts ---------- *)
Lemma indexed_from_length s sc : length (indexed_from s sc) = length sc.
Proof. unfold indexed_from. rewrite combine_length, seq_length. lia. Qed.

Lemma indexed_from_in s sc p : In p (indexed_from s sc) -> In (snd p) sc /\ (s <= fst p < s + length sc)%nat.
Proof.
  destruct p as [i c]. intros H. split; [exact (in_combine_r _ _ _ _ H)|].
  apply in_combine_l in H. apply in_seq in H. cbn. lia.
Qed.

Lemma nth_error_indexed_from s sc i :
  nth_error (indexed_from s sc) i = option_map (fun c => ((s + i)%nat, c)) (nth_error sc i).
Proof.
  unfold indexed_from. revert s i. induction sc as [|x r IH]; intros s [|i]; cbn; try reflexivity.
  - now rewrite Nat.add_0_r.
  - rewrite IH. destruct (nth_error r i); cbn; [|reflexivity]. do 2 f_equal. lia.
Qed.

Lemma nth_error_map' {A B} (f : A -> B) l i : nth_error (map f l) i = option_map f (nth_error l i).
Proof. revert i. induction l as [|x r IH]; intros [|i]; cbn; try reflexivity. apply IH. Qed.

Lemma merge_op_length S new sc : length (merge_op S new sc) = length sc.
Proof. apply map_length. Qed.
Lemma split_op_length sel new rest sc : length (split_op sel new rest sc) = length sc.
Proof. unfold split_op, indexed. now rewrite map_length, indexed_from_length. Qed.
Lemma reassign_op_length i c sc : length (reassign_op i c sc) = length sc.
Proof. unfold reassign_op, reassign_from. now rewrite map_length, indexed_from_length. Qed.

Lemma nth_error_merge S new sc i :
  nth_error (merge_op S new sc) i = option_map (fun c => if memZ c S then new else c) (nth_error sc i).
Proof. apply nth_error_map'. Qed.

Lemma nth_error_split sel new rest sc i :
  nth_error (split_op sel new rest sc) i =
  option_map (fun c => if sel i then new else if touched sel sc c then rest c else c) (nth_error sc i).
Proof.
  unfold split_op, indexed. rewrite nth_error_map', nth_error_indexed_from. now destruct (nth_error sc i).
Qed.

Lemma touched_spec sel sc c : touched sel sc c = true <-> exists j, sel j = true /\ nth_error sc j = Some c.
Proof.
  unfold touched. rewrite existsb_exists. split.
  - intros ([j x] & Hin & Hb). cbn in Hb. apply andb_true_iff in Hb. destruct Hb as (Hs & Hx%Z.eqb_eq). subst x.
    apply In_nth_error in Hin. destruct Hin as (k & Hk). unfold indexed in Hk. rewrite nth_error_indexed_from in Hk.
    destruct (nth_error sc k) as [y|] eqn:E; [|discriminate]. cbn in Hk. injection Hk as <- ->. now exists k.
  - intros (j & Hs & Hj). exists (j, c). split.
    + apply (nth_error_In _ j). unfold indexed. now rewrite nth_error_indexed_from, Hj.
    + cbn. now rewrite Hs, Z.eqb_refl.
Qed.

(* ---------- the guard of C08_merge_map holds along every history ---------- *)
Lemma hist_guard st B sc :
  (forall c, In c st -> 0 <= c) -> Hist st B sc ->
  length sc = length st /\ forall c, In c sc -> 0 <= c <= B.
Proof.
  intros Hst H. induction H as [B HB|B B' sc S new H IH Hn|B B' sc sel new rest H IH Hn Hr|B B' sc i c H IH HB Hc].
  - split; [reflexivity|]. intros c Hc. split; [now apply Hst|now apply HB].
  - destruct IH as (IL & IR). split; [now rewrite merge_op_length|].
    intros c Hc. apply in_map_iff in Hc. destruct Hc as (c0 & <- & Hc0). specialize (IR _ Hc0).
    destruct (memZ c0 S); lia.
  - destruct IH as (IL & IR). split; [now rewrite split_op_length|].
    intros c Hc. apply in_map_iff in Hc. destruct Hc as (p & <- & Hp). apply indexed_from_in in Hp.
    destruct Hp as (Hp & _). specialize (IR _ Hp). specialize (Hr (snd p)).
    destruct (sel (fst p)); [lia|]. destruct (touched sel sc (snd p)); lia.
  - destruct IH as (IL & IR). split; [now rewrite reassign_op_length|].
    intros c' Hc'. apply in_map_iff in Hc'. destruct Hc' as (p & <- & Hp). apply indexed_from_in in Hp.
    destruct Hp as (Hp & _). specialize (IR _ Hp). destruct (fst p =? i)%nat; lia.
Qed.

(* ---------- conversely: every vector allowed by the guard is reachable (reassignments alone) ---------- *)
Lemma reassign_from_id s i c l : (i < s)%nat -> reassign_from s i c l = l.
Proof.
  intros Hi. unfold reassign_from, indexed_from. revert s Hi. induction l as [|x r IH]; intros s Hi; cbn; [reflexivity|].
  replace (s =? i)%nat with false by (symmetry; apply Nat.eqb_neq; lia). f_equal. apply IH. lia.
Qed.

Lemma reassign_from_at s pre x a c :
  reassign_from s (s + length pre) c (pre ++ x :: a) = pre ++ c :: a.
Proof.
  revert s. induction pre as [|y pre IH]; intros s.
  - cbn [length app]. rewrite Nat.add_0_r. unfold reassign_from, indexed_from. cbn. rewrite Nat.eqb_refl. f_equal.
    apply (reassign_from_id (S s) s c a). lia.
  - unfold reassign_from, indexed_from in *. cbn [length app seq combine map fst snd].
    replace (s =? s + S (length pre))%nat with false by (symmetry; apply Nat.eqb_neq; lia). f_equal.
    replace (s + S (length pre))%nat with (S s + length pre)%nat by lia. apply (IH (S s)).
Qed.

Lemma hist_rewrite st B pre a b :
  length a = length b -> (forall c, In c b -> 0 <= c <= B) -> Hist st B (pre ++ a) -> Hist st B (pre ++ b).
Proof.
  revert pre b. induction a as [|x a IH]; intros pre [|y b] HL Hb H; try discriminate; [exact H|].
  cbn in HL. injection HL as HL.
  replace (pre ++ y :: b) with ((pre ++ [y]) ++ b) by now rewrite <- app_assoc.
  apply IH; [exact HL|intros c Hc; apply Hb; now right|]. rewrite <- app_assoc. cbn [app].
  rewrite <- (reassign_from_at 0 pre x a y). cbn [Nat.add].
  apply (Hist_reassign st B B _ (length pre) y H); [lia|apply Hb; now left].
Qed.

Lemma hist_complete st B sc :
  length sc = length st -> (forall c, In c st -> c <= B) -> (forall c, In c sc -> 0 <= c <= B) -> Hist st B sc.
Proof.
  intros HL Hst Hsc. apply (hist_rewrite st B [] st sc); [now symmetry|exact Hsc|]. now apply Hist_init.
Qed.

(* ---------- merges and splits alone never re-use an id ---------- *)
Lemma histphy_hist st B0 B sc : HistPhy st B0 B sc -> Hist st B sc.
Proof.
  intros H. induction H; [now apply Hist_init|now apply (Hist_merge st B)|now apply (Hist_split st B)].
Qed.

Lemma histphy_bound st B0 B sc : HistPhy st B0 B sc -> B0 <= B.
Proof. intros H. induction H; lia. Qed.

Lemma histphy_no_reuse st B0 B sc : HistPhy st B0 B sc -> NoReuse st sc B0.
Proof.
  intros H. induction H as [HB|B B' sc S new H IH Hn|B B' sc sel new rest H IH Hn Hr].
  - intros i c t Hc Ht _. assert (c = t) by congruence. subst c. split; [reflexivity|]. intros j Hj. exact Hj.
  - pose proof (histphy_bound _ _ _ _ H) as HB0.
    intros i c t Hc Ht Hle. rewrite nth_error_merge in Hc. destruct (nth_error sc i) as [c0|] eqn:E0; [|discriminate].
    cbn in Hc. destruct (memZ c0 S) eqn:EM; [injection Hc as <-; lia|]. injection Hc as <-.
    destruct (IH i c0 t E0 Ht Hle) as (-> & Hall). split; [reflexivity|]. intros j Hj.
    rewrite nth_error_merge, (Hall j Hj). cbn. now rewrite EM.
  - pose proof (histphy_bound _ _ _ _ H) as HB0.
    intros i c t Hc Ht Hle. rewrite nth_error_split in Hc. destruct (nth_error sc i) as [c0|] eqn:E0; [|discriminate].
    cbn in Hc. destruct (sel i) eqn:ES; [injection Hc as <-; lia|].
    destruct (touched sel sc c0) eqn:ET; [injection Hc as <-; specialize (Hr c0); lia|]. injection Hc as <-.
    destruct (IH i c0 t E0 Ht Hle) as (-> & Hall). split; [reflexivity|]. intros j Hj.
    rewrite nth_error_split, (Hall j Hj). cbn. rewrite ET.
    destruct (sel j) eqn:ESj; [|reflexivity].
    assert (touched sel sc t = true) by (apply touched_spec; exists j; split; [exact ESj|now apply Hall]). congruence.
Qed.

(* phy's own choice of the fresh id: max(spike_clusters) + 1 *)
Definition next_id (sc : list Z) : Z := match sc with [] => 0 | x :: r => zmax_ne x r + 1 end.
Lemma next_id_fresh sc c : In c sc -> c < next_id sc.
Proof. destruct sc as [|x r]; [intros []|]. intros H. pose proof (zmax_ne_ub x r c H). cbn. lia. Qed.
