(* C08/Proofs9.v -- stage 3: the boolean checkers of the correspondence are COMPLETE (declarative clause -> checker
   accepts); with the soundness lemmas of Proofs3/Proofs6/Proofs8 they decide clauses 21, 22 and the well-formedness
   test, so a code 21/22 is reported exactly when the observed merge map / nan_idx violate the statement. *)
From Coq Require Import ZArith List Lia Bool Arith Sorted Permutation.
From PV Require Import Base.NpSearch Base.NpSort Base.Tok Base.TokArith C08.Model C08.Spec C08.Proofs C08.Proofs2
                       C08.Proofs3 C08.Proofs6 C08.Proofs8.
Import ListNotations.
Open Scope Z_scope.

Lemma sorted_lt_b_complete l : StronglySorted Z.lt l -> sorted_lt_b l = true.
Proof.
  induction 1 as [|x r Hs IH Hx]; [reflexivity|]. cbn [sorted_lt_b]. destruct r as [|y r']; [reflexivity|].
  rewrite IH, andb_true_r. apply Z.ltb_lt. rewrite Forall_forall in Hx. apply Hx. now left.
Qed.

(* two strictly increasing lists with the same elements are the same list *)
Lemma sorted_lt_ext a b :
  StronglySorted Z.lt a -> StronglySorted Z.lt b -> (forall x, In x a <-> In x b) -> a = b.
Proof.
  intros Ha. revert b. induction Ha as [|x a Ha IH Hx]; intros b Hb Hab.
  - destruct b as [|y b]; [reflexivity|]. exfalso. apply (proj2 (Hab y)). now left.
  - destruct Hb as [|y b Hb Hy].
    + exfalso. apply (proj1 (Hab x)). now left.
    + rewrite Forall_forall in Hx, Hy.
      assert (x = y).
      { destruct (proj1 (Hab x) (or_introl eq_refl)) as [E|Hin]; [now symmetry|].
        destruct (proj2 (Hab y) (or_introl eq_refl)) as [E|Hin']; [exact E|].
        specialize (Hx _ Hin'). specialize (Hy _ Hin). lia. }
      subst y. f_equal. apply IH; [exact Hb|]. intros z. split; intros Hz.
      * destruct (proj1 (Hab z) (or_intror Hz)) as [E|H']; [|exact H']. subst z. specialize (Hx _ Hz). lia.
      * destruct (proj2 (Hab z) (or_intror Hz)) as [E|H']; [|exact H']. subst z. specialize (Hy _ Hz). lia.
Qed.

Lemma mm_entry_b_complete st sc c l :
  StronglySorted Z.lt l -> (forall t, In t l <-> PairIn st sc c t) -> mm_entry_b st sc c l = true.
Proof.
  intros Hs Hl. unfold mm_entry_b. rewrite !andb_true_iff, !forallb_forall. repeat split.
  - now apply sorted_lt_b_complete.
  - intros t Ht. apply pair_b_spec. now apply Hl.
  - intros [a b] Hin. cbn [fst snd]. destruct (a =? c) eqn:E; [|reflexivity]. cbn. apply Z.eqb_eq in E. subst a.
    apply memZ_In, Hl. now apply in_combine_nth.
Qed.

Lemma ismax_zmax_ne x r : IsMax (zmax_ne x r) (x :: r).
Proof. split; [apply zmax_ne_in|]. intros y Hy. now apply zmax_ne_ub. Qed.

Theorem mm_b_complete st sc omm : sc <> [] -> MM_Obs_Spec st sc omm -> mm_b st sc omm = true.
Proof.
  intros Hne H. destruct sc as [|x r]; [congruence|]. destruct (H _ (ismax_zmax_ne x r)) as (Hk & He).
  unfold mm_b. rewrite andb_true_iff, forallb_forall. split.
  - apply zlist_eqb_spec. exact Hk.
  - intros [c l] Hin. cbn [fst snd]. destruct (He c l Hin) as (Hs & Hl). now apply mm_entry_b_complete.
Qed.

Theorem nan_b_complete sc onan : sc <> [] -> Nan_Obs_Spec sc onan -> nan_b sc onan = true.
Proof.
  intros Hne H. destruct sc as [|x r]; [congruence|]. destruct (H _ (ismax_zmax_ne x r)) as (Hs & Hm).
  set (canon := filter (fun c => negb (memZ c (x :: r))) (zrange 0 (Z.to_nat (zmax_ne x r + 1)))).
  assert (Hc : nan_b (x :: r) canon = true) by (apply zlist_eqb_spec; reflexivity).
  destruct (nan_b_sound _ _ Hc _ (ismax_zmax_ne x r)) as (Hs' & Hm').
  apply zlist_eqb_spec. fold canon. apply sorted_lt_ext; [exact Hs|exact Hs'|]. intros c. now rewrite Hm, Hm'.
Qed.

Theorem nan_n_b_complete ncl sc onan : NanIdx_Spec ncl sc onan -> nan_n_b ncl sc onan = true.
Proof.
  intros (Hs & Hm).
  set (canon := filter (fun c => negb (memZ c sc)) (zrange 0 (Z.to_nat ncl))).
  assert (Hc : nan_n_b ncl sc canon = true) by (apply zlist_eqb_spec; reflexivity).
  destruct (nan_n_b_sound _ _ _ Hc) as (Hs' & Hm').
  apply zlist_eqb_spec. fold canon. apply sorted_lt_ext; [exact Hs|exact Hs'|]. intros c. now rewrite Hm, Hm'.
Qed.

Lemma wf_b_complete d : WF d -> wf_b d = true.
Proof.
  unfold wf_b, WF. intros (H1 & H2 & H3 & H4 & H5). rewrite !andb_true_iff, !forallb_forall. repeat split.
  - now apply Nat.eqb_eq.
  - intros t Ht. apply H2 in Ht. lia.
  - intros tw Htw. destruct (H3 _ Htw) as (Ha & Hb). apply andb_true_iff. split; [now apply Nat.eqb_eq|].
    apply forallb_forall. intros row Hr. apply Nat.eqb_eq. now apply Hb.
  - now apply Nat.eqb_eq.
  - intros r Hr. apply Nat.eqb_eq. now apply H5.
Qed.

(* the list of dominant templates evaluated by clauses 24/26 is exactly the set of dominant templates, increasing;
   it is non-empty for a cluster that has a spike of a valid template *)
Lemma dominants_spec d c tb : In tb (dominants d c) <-> Dominant d c tb.
Proof.
  unfold dominants. rewrite filter_In, dominant_b_spec. split; [tauto|]. intros H. split; [|exact H].
  apply in_seq. destruct H as (H & _). lia.
Qed.
