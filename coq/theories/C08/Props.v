(* C08/Props.v -- the property theorems, and nothing else. *)
From Coq Require Import ZArith List Lia Bool Arith Sorted.
From PV Require Import Base.NpSearch C08.Model C08.Spec C08.Proofs.
Import ListNotations.
Open Scope Z_scope.

Theorem C08_unique_members : forall l z, In z (np_unique l) <-> In z l.
Proof. exact np_unique_in. Qed.
Print Assumptions C08_unique_members.
