(* C08/Props.v -- the property theorems, and nothing else.  Each is closed by [exact] of a lemma of
   Proofs*.v and followed by Print Assumptions.

   Reading.  st = spike_templates, sc = spike_clusters (same length, at least one spike, cluster ids >= 0).
   The merge map is kept as the list of its values for the keys 0, 1, ..., max(sc).  A cluster waveform
   cell is the pair (numerator, denominator) of exact integers whose quotient np.average computes with one
   binary64 division (reproduced only in Corr.v); rat_of v = (v, 1).  "The channels of template t" are
   those of get_template (C05's subject) and enter the statements only through chans_of.  WF d = the
   arrays of d have consistent shapes and every template id is below n_templates. *)
From Coq Require Import ZArith List Lia Bool Arith Sorted.
From PV Require Import Base.NpSearch C08.Model C08.Spec C08.Proofs C08.Proofs2 C08.Proofs3 C08.Proofs4 C08.Proofs5 C08.Proofs6 C08.Proofs7 C08.Proofs8 C08.Proofs9 C08.History.
Import ListNotations.
Open Scope Z_scope.

(* Provenance.  For EVERY id c in [0, max]: the merge map has an entry for c, it is strictly increasing
   (hence duplicate-free) and holds exactly the templates t such that some spike has cluster c and template
   t; nan_idx is strictly increasing and holds exactly the ids of [0, max] without a spike; the map has
   max + 1 entries (no other key). *)
Theorem C08_merge_map : forall (st sc : list Z),
  length st = length sc -> sc <> [] -> (forall c, In c sc -> 0 <= c) ->
  exists mm, merge_map st sc = Some mm /\ MergeMap_Spec st sc mm (nan_from 0 mm).
Proof. exact merge_map_spec. Qed.
Print Assumptions C08_merge_map.

(* the guards are exact: no spike -> np.max raises; a negative cluster id -> KeyError *)
Theorem C08_merge_map_guards : forall (st sc : list Z),
  (sc = [] -> merge_map st sc = None) /\ (forall c, In c sc -> c < 0 -> merge_map st sc = None).
Proof. intros st sc. split; [intros ->; apply merge_map_empty|apply merge_map_negative]. Qed.
Print Assumptions C08_merge_map_guards.

(* what _load_data stores when clusters differ from templates meets the same specification, with one
   waveform and one entry per id and n_clusters = max + 1 *)
Theorem C08_merge_map_loaded : forall (d : dset) (m : loaded),
  d_sc d <> d_st d -> load d = Some m ->
  l_curated m = true /\ MergeMap_Spec (d_st d) (d_sc d) (l_mm m) (l_nan m) /\
  length (l_data m) = length (l_mm m) /\ l_ncl m = zlen (l_mm m).
Proof.
  intros d m Hne H. split; [exact (proj1 (load_curated d m Hne H))|].
  split; [exact (load_merge_map d m Hne H)|exact (load_shape d m Hne H)].
Qed.
Print Assumptions C08_merge_map_loaded.

(* A cluster stemming from a single template t (it has a spike, and every spike of it has template t)
   carries that template's waveform unchanged, on all channels. *)
Theorem C08_single : forall (d : dset) (m : loaded) (c t : Z),
  d_sc d <> d_st d -> load d = Some m ->
  In c (d_sc d) -> (forall t', PairIn (d_st d) (d_sc d) c t' -> t' = t) ->
  nth_error (l_data m) (Z.to_nat c) = Some (single_rows d (Z.to_nat t)).
Proof. exact cluster_single. Qed.
Print Assumptions C08_single.

(* get_cluster_mean_waveforms(c, unwhiten) (both routes): there is a dominant template tb (positive and
   maximal number of the cluster's spikes) such that the returned channels are tb's, the denominator is the
   number of spikes of c and, for every sample s and every returned channel k, the numerator is
   sum_t count(c, t) * (template t at (s, k) if k is one of t's own channels, else 0). *)
Theorem C08_mean_fn : forall (d : dset) (c : Z) (unw : bool) (m : mw),
  WF d -> mean_waveforms d c unw = Some m ->
  exists tb, Dominant d c tb /\ mw_chans m = chans_of d unw tb /\ mw_den m = wden d c /\
             mw_num m = mean_num d unw c tb.
Proof. exact mean_waveforms_spec. Qed.
Print Assumptions C08_mean_fn.

(* A cluster stemming from several templates carries, on the channels of a dominant template, the
   spike-count weighted mean of its templates' channel-restricted waveforms, and zero on every other channel
   (mean_rows, Spec.v). *)
Theorem C08_mean : forall (d : dset) (m : loaded) (c t1 t2 : Z),
  WF d -> d_sc d <> d_st d -> load d = Some m ->
  PairIn (d_st d) (d_sc d) c t1 -> PairIn (d_st d) (d_sc d) c t2 -> t1 <> t2 ->
  exists tb, Dominant d c tb /\ nth_error (l_data m) (Z.to_nat c) = Some (mean_rows d c tb).
Proof. exact cluster_mean. Qed.
Print Assumptions C08_mean.

(* Ties.  The specification is relational in the dominant template; the code (np.argmax) takes the one of
   lowest id, and on a cluster where one template has strictly more spikes than every other the dominant
   template is unique, so C08_mean / C08_mean_fn determine the waveform there. *)
Theorem C08_dominant_lowest : forall (d : dset) (c : Z) (unw : bool) (m : mw),
  WF d -> mean_waveforms d c unw = Some m ->
  exists tb, Dominant d c tb /\ mw_chans m = chans_of d unw tb /\
             forall t, (t < tb)%nat -> cnt d c (Z.of_nat t) < cnt d c (Z.of_nat tb).
Proof. exact mean_waveforms_lowest. Qed.
Print Assumptions C08_dominant_lowest.

Theorem C08_dominant_unique : forall (d : dset) (c : Z) (tb tb' : nat),
  Dominant d c tb -> Dominant d c tb' ->
  (forall t, (t < length (d_tmpl d))%nat -> t <> tb -> cnt d c (Z.of_nat t) < cnt d c (Z.of_nat tb)) -> tb' = tb.
Proof. exact dominant_unique. Qed.
Print Assumptions C08_dominant_unique.

(* An id of [0, max] without spikes (reported in nan_idx by C08_merge_map_loaded) carries the zero waveform. *)
Theorem C08_empty : forall (d : dset) (m : loaded) (c M : Z),
  d_sc d <> d_st d -> load d = Some m -> IsMax M (d_sc d) -> 0 <= c <= M -> ~ In c (d_sc d) ->
  nth_error (l_data m) (Z.to_nat c) = Some (repeat (repeat (rat_of 0) (n_channels d)) (n_samples_wf d)).
Proof. exact cluster_empty. Qed.
Print Assumptions C08_empty.

(* When cluster and template assignments coincide: no merge map, the cluster waveforms are the template
   waveforms (one per template, used or not), there are as many clusters as templates, and nan_idx is
   np.setdiff1d(arange(n_clusters), spike_clusters) (the identity branch as repaired on fix-c14b; it was []). *)
Theorem C08_identity : forall (d : dset),
  d_sc d = d_st d -> d_sc d <> [] ->
  load d = Some (mkld false [] (setdiff_arange (length (d_tmpl d)) (d_st d))
                      (map (single_rows d) (seq 0 (length (d_tmpl d)))) (n_templates d)).
Proof. exact load_identity. Qed.
Print Assumptions C08_identity.

(* "Ids without spikes are reported as empty", in BOTH branches of _load_data: whatever was loaded, nan_idx is
   strictly increasing and  c in nan_idx  <->  0 <= c < n_clusters and no spike has cluster c.
   (Curated: n_clusters = max + 1, this is the nan part of C08_merge_map_loaded; identity: n_clusters = n_templates.) *)
Theorem C08_nan_idx_both_branches : forall (d : dset) (m : loaded),
  load d = Some m ->
  StronglySorted Z.lt (l_nan m) /\ forall c, In c (l_nan m) <-> (0 <= c < l_ncl m /\ ~ In c (d_sc d)).
Proof. exact load_nan_both. Qed.
Print Assumptions C08_nan_idx_both_branches.

(* ... read on the templates when clusters = templates: exactly the template ids that no spike has (their cluster
   waveform is still the template's, C08_identity; in the curated branch an empty id carries zeros, C08_empty) *)
Theorem C08_nan_idx_identity : forall (d : dset) (m : loaded),
  d_sc d = d_st d -> load d = Some m ->
  l_curated m = false /\ l_ncl m = n_templates d /\
  forall c, In c (l_nan m) <-> (0 <= c < n_templates d /\ ~ In c (d_st d)).
Proof. exact load_nan_identity. Qed.
Print Assumptions C08_nan_idx_identity.

(* Totality.  Templates_OK d unw = get_template succeeds on every template id (channel selection is C05's
   subject; it fails only on malformed geometry).  Then the mean waveform of every cluster that has a spike
   exists, and loading succeeds on every well-formed data set with at least one spike and non-negative ids --
   so C08_single / C08_mean / C08_merge_map_loaded are not vacuous anywhere in that domain. *)
Theorem C08_mean_fn_total : forall (d : dset) (c : Z) (unw : bool),
  WF d -> Templates_OK d unw -> In c (d_sc d) -> exists m, mean_waveforms d c unw = Some m.
Proof. exact mean_waveforms_total. Qed.
Print Assumptions C08_mean_fn_total.

Theorem C08_loads : forall (d : dset),
  WF d -> Templates_OK d false -> d_sc d <> [] -> (forall c, In c (d_sc d) -> 0 <= c) ->
  exists m, load d = Some m.
Proof. exact load_total. Qed.
Print Assumptions C08_loads.

(* Templates_OK holds on every well-formed data set whose geometry is well formed (GeoWF: one position and
   one shank id per channel, at least one channel and one sample, pairwise distinct positions -- the loader
   enforces the latter by falling back to linear positions): the peak channel is its own nearest channel
   (head of the stable distance sort), lies on its own shank and reaches the amplitude threshold 0.
   Hence loading succeeds, with no hypothesis on channel selection left. *)
Theorem C08_templates_ok : forall (d : dset) (unw : bool), WF d -> GeoWF d -> Templates_OK d unw.
Proof. exact templates_ok. Qed.
Print Assumptions C08_templates_ok.

Theorem C08_loads_wf : forall (d : dset),
  WF d -> GeoWF d -> d_sc d <> [] -> (forall c, In c (d_sc d) -> 0 <= c) -> exists m, load d = Some m.
Proof. intros d Hwf Hgeo. apply load_total; [exact Hwf|now apply templates_ok]. Qed.
Print Assumptions C08_loads_wf.

(* the weights are the provenance counts: template t has positive weight in cluster c exactly when some
   spike has cluster c and template t *)
Theorem C08_weights : forall (d : dset) (c t : Z), 0 < cnt d c t <-> PairIn (d_st d) (d_sc d) c t.
Proof. exact cnt_pos. Qed.
Print Assumptions C08_weights.

(* the table-driven evaluation of the specification used by the comparator (Corr.v, clauses 24 and 26) is
   the specification *)
Theorem C08_tables : forall (d : dset) (unw : bool) (c : Z) (tb s : nat) (k : Z),
  (wnum_f (tables_of d unw c) s k = wnum d unw c s k) /\
  (mean_rows_f d c (tables_of d false c) (chans_of d false tb) = mean_rows d c tb).
Proof. intros. split; [apply wnum_f_eq|apply mean_rows_f_eq]. Qed.
Print Assumptions C08_tables.

(* clauses 21 and 22 of the correspondence, evaluated on the OBSERVED merge_map.items() and nan_idx, imply
   the provenance statement for the observation: keys exactly 0..max, every value strictly increasing and
   equal as a set to the templates of the key's spikes; nan_idx = the increasing ids of [0, max] without spikes;
   and (clause 22 in the identity branch, n = n_templates) nan_idx = the increasing ids of range(n) without spikes *)
Theorem C08_provenance_checker_sound : forall (st sc : list Z) (omm : list (Z * list Z)) (onan : list Z) (n : Z),
  (mm_b st sc omm = true -> MM_Obs_Spec st sc omm) /\ (nan_b sc onan = true -> Nan_Obs_Spec sc onan) /\
  (nan_n_b n sc onan = true -> NanIdx_Spec n sc onan).
Proof. intros. split; [apply mm_b_sound|split; [apply nan_b_sound|apply nan_n_b_sound]]. Qed.
Print Assumptions C08_provenance_checker_sound.

(* the boolean checkers used by the correspondence decide the declarative notions *)
Theorem C08_checkers : forall (d : dset) (c : Z) (tb : nat),
  (wf_b d = true -> WF d) /\ (dominant_b d c tb = true <-> Dominant d c tb).
Proof. intros d c tb. split; [apply wf_b_sound|apply dominant_b_spec]. Qed.
Print Assumptions C08_checkers.

(* ---- non-vacuity: a curated data set with a two-template cluster (count tie), a single-template
   cluster, empty ids in the middle and a template whose channels are restricted by its shank ---- *)
Definition ex_d : dset :=
  mkds [0; 0; 1; 1; 2; 2; 2] [0; 3; 3; 1; 1; 5; 5]
       [ [[1; 2; 3]; [4; 5; 6]]; [[7; 8; 9]; [1; 1; 1]]; [[0; 5; 0]; [0; -5; 0]] ]
       [0; 0; 0] [0; 20; 40] [0; 0; 1] [[1; 0; 0]; [0; 1; 0]; [0; 0; 1]].

Example C08_ex_merge_map :
  merge_map (d_st ex_d) (d_sc ex_d) = Some [[0]; [1; 2]; []; [0; 1]; []; [2]] /\
  nan_from 0 [[0]; [1; 2]; []; [0; 1]; []; [2]] = [2; 4].
Proof. vm_compute. split; reflexivity. Qed.
Example C08_ex_wf : wf_b ex_d = true.
Proof. vm_compute. reflexivity. Qed.
Example C08_ex_geo : GeoWF ex_d.
Proof.
  repeat split; try (cbn; lia).
  intros i j xi yi xj yj Hij Hxi Hyi Hxj Hyj E. injection E as -> ->.
  destruct i as [|[|[|i]]], j as [|[|[|j]]]; cbn in *; try congruence; try lia;
    try (destruct i; discriminate); try (destruct j; discriminate).
Qed.
Example C08_ex_loads : exists m, load ex_d = Some m /\ l_ncl m = 6 /\
  nth_error (l_data m) 5 = Some (single_rows ex_d 2) /\          (* cluster 5 <- template 2 only *)
  nth_error (l_data m) 3 = Some (mean_rows ex_d 3 0) /\          (* cluster 3 <- templates 0 and 1, one spike each *)
  mean_rows ex_d 3 0 = [[mkrat 1 2; mkrat 2 2; rat_of 0]; [mkrat 4 2; mkrat 5 2; rat_of 0]].
Proof. eexists. split; [vm_compute; reflexivity|]. vm_compute. repeat split; reflexivity. Qed.
Example C08_ex_pairs : PairIn (d_st ex_d) (d_sc ex_d) 3 0 /\ PairIn (d_st ex_d) (d_sc ex_d) 3 1 /\
  Dominant ex_d 3 0 /\ Dominant ex_d 3 1 /\ d_sc ex_d <> d_st ex_d.
Proof.
  split; [exists 1%nat; split; reflexivity|]. split; [exists 2%nat; split; reflexivity|].
  split; [apply dominant_b_spec; reflexivity|]. split; [apply dominant_b_spec; reflexivity|]. discriminate.
Qed.
Example C08_ex_templates_ok : forall t, (t < 3)%nat -> get_template ex_d t false <> None /\ get_template ex_d t true <> None.
Proof. intros [|[|[|t]]] H; try lia; split; vm_compute; discriminate. Qed.
Example C08_ex_empty : IsMax 5 (d_sc ex_d) /\ ~ In 2 (d_sc ex_d).
Proof. split; [split; [cbn; tauto|intros x H; cbn in H; lia]|cbn; lia]. Qed.
Example C08_ex_mean_fn : exists m, mean_waveforms ex_d 1 true = Some m /\ mw_den m = 2 /\ mw_chans m = [2].
Proof. eexists. split; [vm_compute; reflexivity|]. split; reflexivity. Qed.
Example C08_ex_identity :
  let d := mkds [0; 1; 1] [0; 1; 1] (d_tmpl ex_d) (d_px ex_d) (d_py ex_d) (d_shanks ex_d) (d_wmi ex_d) in
  exists m, load d = Some m /\ l_ncl m = 3 /\ length (l_data m) = 3%nat /\ l_nan m = [2].   (* template 2 has no spike *)
Proof. eexists. split; [vm_compute; reflexivity|]. repeat split; reflexivity. Qed.
Example C08_ex_identity_start_middle :      (* 5 templates (the data of ex_d repeated), spikes on 1 and 3 only *)
  let d := mkds [1; 3; 3] [1; 3; 3] (d_tmpl ex_d ++ firstn 2 (d_tmpl ex_d)) (d_px ex_d) (d_py ex_d) (d_shanks ex_d) (d_wmi ex_d) in
  exists m, load d = Some m /\ l_ncl m = 5 /\ l_nan m = [0; 2; 4] /\ nan_n_b 5 (d_sc d) [0; 2; 4] = true /\
            nan_n_b 5 (d_sc d) [] = false.
Proof. eexists. split; [vm_compute; reflexivity|]. repeat split; reflexivity. Qed.
Example C08_ex_nan_curated : exists m, load ex_d = Some m /\ l_nan m = [2; 4] /\ l_ncl m = 6.
Proof. eexists. split; [vm_compute; reflexivity|]. split; reflexivity. Qed.

(* ================================================================================================================ *)
(* Stage 3.                                                                                                          *)
(* ---- the checkers are complete: with C08_provenance_checker_sound / C08_checkers they DECIDE clauses 21, 22 and the
   well-formedness test (the MM_Obs_Spec / Nan_Obs_Spec clauses are stated for the maximum of a non-empty sc) ---- *)
Theorem C08_checkers_complete : forall (d : dset) (st sc : list Z) (omm : list (Z * list Z)) (onan : list Z) (n : Z),
  (sc <> [] -> MM_Obs_Spec st sc omm -> mm_b st sc omm = true) /\
  (sc <> [] -> Nan_Obs_Spec sc onan -> nan_b sc onan = true) /\
  (NanIdx_Spec n sc onan -> nan_n_b n sc onan = true) /\
  (WF d -> wf_b d = true) /\
  (forall c tb, In tb (dominants d c) <-> Dominant d c tb).
Proof.
  intros. split; [apply mm_b_complete|]. split; [apply nan_b_complete|]. split; [apply nan_n_b_complete|].
  split; [apply wf_b_complete|]. intros c tb. apply dominants_spec.
Qed.
Print Assumptions C08_checkers_complete.

(* ---- the quantifier: "all pairs (spike_templates, spike_clusters) produced by arbitrary sequences of merges, splits
   and reassignments" (History.v: Hist st B sc = sc is reachable from clusters = templates = st by merges to a fresh
   id, phy splits (both halves renumbered with fresh ids) and reassignments of one spike to any non-negative id; B
   bounds the ids used so far).  The guard of C08_merge_map is EXACTLY that set: every reachable vector satisfies it,
   and every vector that satisfies it is reachable. ---- *)
Theorem C08_history_guard : forall (st sc : list Z) (B : Z),
  (forall t, In t st -> 0 <= t) -> Hist st B sc ->
  length sc = length st /\ forall c, In c sc -> 0 <= c <= B.
Proof. intros st sc B. apply hist_guard. Qed.
Print Assumptions C08_history_guard.

Theorem C08_history_exact : forall (st sc : list Z),
  (forall t, In t st -> 0 <= t) ->
  ((exists B, Hist st B sc) <-> (length st = length sc /\ forall c, In c sc -> 0 <= c)).
Proof.
  intros st sc Hst. split.
  - intros (B & H). destruct (hist_guard st B sc Hst H) as (HL & Hc). split; [now symmetry|]. intros c Hin.
    now apply Hc.
  - intros (HL & Hc).
    (* a bound above every id of st and sc *)
    assert (Hb : forall l : list Z, exists B, forall c, In c l -> c <= B).
    { induction l as [|x l (B & HB)]; [exists 0; intros c []|]. exists (Z.max x B). intros c [<-|Hin]; [lia|].
      specialize (HB c Hin). lia. }
    destruct (Hb (st ++ sc)) as (B & HB). exists B. apply hist_complete; [now symmetry| |].
    + intros c Hin. apply HB, in_or_app. now left.
    + intros c Hin. split; [now apply Hc|]. apply HB, in_or_app. now right.
Qed.
Print Assumptions C08_history_exact.

(* hence every theorem above applies along every curation history: on a well-formed data set whose cluster vector
   is reachable from its template vector, loading succeeds, nan_idx is exact and -- when the vector differs from the
   templates -- the stored merge map meets the provenance specification (C08_single / C08_mean / C08_empty then give
   the waveform of every id) *)
Theorem C08_history_applies : forall (d : dset) (B : Z),
  WF d -> GeoWF d -> d_st d <> [] -> Hist (d_st d) B (d_sc d) ->
  exists m, load d = Some m /\
    NanIdx_Spec (l_ncl m) (d_sc d) (l_nan m) /\
    (d_sc d <> d_st d -> l_curated m = true /\ MergeMap_Spec (d_st d) (d_sc d) (l_mm m) (l_nan m) /\
                         length (l_data m) = length (l_mm m) /\ l_ncl m = zlen (l_mm m)) /\
    (d_sc d = d_st d -> l_curated m = false /\ l_ncl m = n_templates d).
Proof.
  intros d B Hwf Hgeo Hne H.
  assert (Hst : forall t, In t (d_st d) -> 0 <= t) by (intros t Ht; destruct Hwf as (_ & Hr & _); apply Hr in Ht; lia).
  destruct (hist_guard _ _ _ Hst H) as (HL & Hc).
  assert (Hsc : d_sc d <> []) by (intros E; rewrite E in HL; destruct (d_st d); [congruence|discriminate]).
  destruct (load_total d Hwf (templates_ok d false Hwf Hgeo) Hsc) as (m & Hm); [intros c Hin; now apply Hc|].
  exists m. split; [exact Hm|]. split; [exact (load_nan_both d m Hm)|]. split.
  - intros Hd. split; [exact (proj1 (load_curated d m Hd Hm))|].
    split; [exact (load_merge_map d m Hd Hm)|exact (load_shape d m Hd Hm)].
  - intros E. destruct (load_nan_identity d m E Hm) as (A & C & _). now split.
Qed.
Print Assumptions C08_history_applies.

(* what merges and splits ALONE (phy's own operations, fresh ids) can produce is narrower: an id <= B0 (the ids in use
   before curation) that is still present labels exactly the spikes of the template of the same number -- ids are
   never re-used.  Vectors violating this (a spike moved into an existing cluster) are reachable only with a
   reassignment; they satisfy the guard, so the theorems cover them too (example below). *)
Theorem C08_history_phy_no_reuse : forall (st sc : list Z) (B0 B : Z),
  HistPhy st B0 B sc -> Hist st B sc /\ B0 <= B /\ NoReuse st sc B0.
Proof.
  intros st sc B0 B H. split; [now apply histphy_hist with B0|]. split; [now apply histphy_bound with st sc|].
  now apply histphy_no_reuse with B.
Qed.
Print Assumptions C08_history_phy_no_reuse.

(* ---- examples: merge(0, 1) -> 3, then phy split of cluster 3 -> 4 (selected) and 5 (rest): id 3 is left empty ---- *)
Example C08_ex_history :
  let st := [0; 0; 1; 1; 2] in
  let sc1 := merge_op [0; 1] (next_id st) st in
  let sc2 := split_op (fun i => (i <? 2)%nat) 4 (fun _ => 5) sc1 in
  sc1 = [3; 3; 3; 3; 2] /\ sc2 = [4; 4; 5; 5; 2] /\ HistPhy st 2 5 sc2 /\
  merge_map st sc2 = Some [[]; []; [2]; []; [0]; [1]] /\ nan_from 0 [[]; []; [2]; []; [0]; [1]] = [0; 1; 3].
Proof.
  cbv zeta. split; [reflexivity|]. split; [reflexivity|]. split; [|split; reflexivity].
  apply (HP_split _ 2 3 5 _ (fun i => (i <? 2)%nat) 4 (fun _ => 5)); [|lia|intros; lia].
  apply (HP_merge _ 2 2 3 _ [0; 1] 3); [|lia]. apply HP_init. intros c H. cbn in H. lia.
Qed.
(* a spike of template 0 moved into the existing cluster 1: not producible by merges and splits (NoReuse fails at
   spike 1: id 1 <= B0 but template 0), reachable with one reassignment, and covered: merge_map = {0: [0], 1: [0, 1]} *)
Example C08_ex_history_reassign :
  let st := [0; 0; 1] in let sc := [0; 1; 1] in
  sc = reassign_op 1 1 st /\ Hist st 1 sc /\ (forall B0 B, ~ HistPhy st B0 B sc) /\
  merge_map st sc = Some [[0]; [0; 1]].
Proof.
  cbv zeta. split; [reflexivity|]. split; [|split; [|reflexivity]].
  - apply (Hist_reassign _ 1 1 [0; 0; 1] 1 1); [|lia|lia]. apply Hist_init. intros c H. cbn in H. lia.
  - intros B0 B H. pose proof (histphy_no_reuse _ _ _ _ H) as HN.
    assert (HB0 : 1 <= B0).
    { clear HN. remember [0; 0; 1] as st. assert (Hst : In 1 st) by (subst; cbn; tauto). clear Heqst.
      induction H; auto. }
    destruct (HN 1%nat 1 0 eq_refl eq_refl HB0) as (E & _). discriminate.
Qed.
Example C08_ex_checkers_complete : mm_b [0; 0; 1] [0; 1; 1] [(0, [0]); (1, [0; 1])] = true /\
  mm_b [0; 0; 1] [0; 1; 1] [(0, [0]); (1, [1])] = false /\ nan_b [0; 3] [1; 2] = true /\ nan_b [0; 3] [1] = false.
Proof. vm_compute. repeat split. Qed.
