(* C09/Proofs7.v -- stage 3: the justification of the InBig comparator as a theorem.  get_depths returns, for
   spike k, a value that depends only on the features and the template of spike k; hence on a dataset that
   repeats a period of K spikes the result is the result on one period, repeated. *)
From Coq Require Import ZArith QArith List Bool Lia Arith.
From PV Require Import C09.Model C09.Spec C09.Proofs C09.Proofs4.
Import ListNotations.
Open Scope Z_scope.

(* the n-element periodic repetition of l *)
Definition tile {A} (n : nat) (l : list A) (d : A) : list A := map (fun k => nth (k mod length l)%nat l d) (seq 0 n).

Lemma tile_length {A} n (l : list A) d : length (tile n l d) = n.
Proof. unfold tile. now rewrite map_length, seq_length. Qed.
Lemma tile_nth {A} n (l : list A) d k : (k < n)%nat -> nth k (tile n l d) d = nth (k mod length l)%nat l d.
Proof. intros H. unfold tile. exact (nth_map_seq (fun k => nth (k mod length l)%nat l d) n k d H). Qed.
Lemma tile_forallb {A} (p : A -> bool) n (l : list A) d : l <> [] -> forallb p l = true -> forallb p (tile n l d) = true.
Proof.
  intros Hne H. apply forallb_forall. intros x Hx. unfold tile in Hx. apply in_map_iff in Hx as (k & <- & _).
  rewrite forallb_forall in H. apply H. apply nth_In. apply Nat.mod_upper_bound. destruct l; [congruence|cbn; lia].
Qed.

(* the value of the whole method: one application of depth_of per spike *)
Lemma get_depths_map nbatch i data cols :
  1 <= nbatch -> wf_depth i = true -> di_feat i = Some (data, cols) -> length data = Z.to_nat (di_nspikes i) ->
  get_depths_Q nbatch i = Some (Some (map (depth_of_Q i data cols) (seq 0 (length data)))).
Proof.
  intros Hb Hwf Hf Hl. unfold get_depths_Q, get_depths. rewrite Hwf, Hf. cbn [negb].
  replace (Nat.eqb (length data) (Z.to_nat (di_nspikes i))) with true by (symmetry; now apply Nat.eqb_eq).
  cbn [negb]. rewrite Hl. set (n := Z.to_nat (di_nspikes i)).
  assert (Hnsp : di_nspikes i = Z.of_nat n).
  { unfold n. unfold wf_depth in Hwf. rewrite !andb_true_iff in Hwf. destruct Hwf as [[H0 _] _]. lia. }
  rewrite Hnsp.
  pose proof (depth_loop_all (depth_of QN q_ofZ q_mul q_div q_add i data cols) None nbatch n Hb (S n) 0 ltac:(lia) ltac:(lia)) as HL.
  cbn [seq map app Nat.sub] in HL. rewrite Nat.sub_0_r in HL. change (Z.of_nat 0) with 0 in HL. rewrite HL. reflexivity.
Qed.

Theorem depths_periodic_thm : forall (nbatch : Z) (pos : mat) (data : list mat) (cols : mat) (st : list Z) (n : nat),
  1 <= nbatch -> data <> [] -> length st = length data ->
  let i1 := mk_depth_in (zlen data) (Some (data, cols)) st pos in
  let iN := mk_depth_in (Z.of_nat n) (Some (tile n data [], cols)) (tile n st 0) pos in
  wf_depth i1 = true ->
  exists pat out,
    get_depths_Q nbatch i1 = Some (Some pat) /\ length pat = length data /\
    get_depths_Q nbatch iN = Some (Some out) /\ length out = n /\
    forall k, (k < n)%nat -> nth k out None = nth (k mod length data)%nat pat None.
Proof.
  intros nbatch pos data cols st n Hb Hne Hst i1 iN Hwf.
  assert (HK : (length data <> 0)%nat) by (destruct data; [congruence|cbn; lia]).
  (* the tiled dataset is well formed *)
  assert (HwfN : wf_depth iN = true).
  { unfold wf_depth in *. cbn [di_nspikes di_st di_feat di_pos i1 iN] in *.
    unfold zlen in Hwf. rewrite Nat2Z.id in *. rewrite !tile_length, Nat.eqb_refl.
    rewrite Nat.eqb_refl in Hwf. cbn [negb] in *.
    rewrite !andb_true_iff in Hwf. destruct Hwf as [[_ Hs] [[[C1 C2] C3] C4]].
    rewrite !andb_true_iff. split; [split; [apply Z.leb_le; lia|reflexivity]|].
    split; [split; [split; [exact C1|]|]|exact C4].
    - now apply tile_forallb.
    - apply tile_forallb; [|exact C3]. intros E. rewrite E in Hst. cbn in Hst. lia. }
  pose proof (get_depths_map nbatch i1 data cols Hb Hwf eq_refl ltac:(cbn; unfold zlen; now rewrite Nat2Z.id)) as E1.
  pose proof (get_depths_map nbatch iN (tile n data []) cols Hb HwfN eq_refl ltac:(cbn; now rewrite tile_length, Nat2Z.id)) as EN.
  rewrite tile_length in EN.
  eexists. eexists. split; [exact E1|]. split; [now rewrite map_length, seq_length|].
  split; [exact EN|]. split; [now rewrite map_length, seq_length|].
  intros k Hk.
  assert (Hm : (k mod length data < length data)%nat) by (now apply Nat.mod_upper_bound).
  rewrite (nth_map_in _ (seq 0 n) k (None : QN) O) by (now rewrite seq_length). rewrite seq_nth by exact Hk.
  rewrite (nth_map_in _ (seq 0 (length data)) _ (None : QN) O) by (now rewrite seq_length). rewrite seq_nth by exact Hm.
  cbn [Nat.add]. unfold depth_of_Q, depth_of, ypos_of, nthZ. cbn [di_st di_pos iN i1].
  rewrite !Nat2Z.id. rewrite (tile_nth n data [] k Hk), (tile_nth n st 0 k Hk), Hst. reflexivity.
Qed.
