(* C09/Proofs3.v -- _amplitudes (per-present-id means), _channels / templates_probes (peak channel),
   _waveform_durations (peak-to-trough on the peak channel). *)
From Coq Require Import ZArith QArith List Bool Lia Arith Sorted.
From PV Require Import C09.Model C09.Spec C09.Proofs C09.Proofs2.
Import ListNotations.
Open Scope Z_scope.

(* ================= np.unique ================= *)
Lemma insertZ_in x l y : In y (insertZ x l) <-> y = x \/ In y l.
Proof.
  induction l as [|z r IH]; cbn [insertZ In]; [intuition|].
  destruct (x <=? z); cbn [In]; [intuition|]. rewrite IH. intuition.
Qed.
Lemma sortZ_in l y : In y (sortZ l) <-> In y l.
Proof.
  induction l as [|x r IH]; cbn [sortZ fold_right In]; [tauto|].
  fold (sortZ r). rewrite insertZ_in, IH. intuition.
Qed.
Lemma insertZ_sorted x l : StronglySorted Z.le l -> StronglySorted Z.le (insertZ x l).
Proof.
  induction l as [|z r IH]; intros H; cbn [insertZ]; [repeat constructor|].
  apply StronglySorted_inv in H as [Hr Hz].
  destruct (x <=? z) eqn:E.
  - constructor; [constructor; assumption|]. constructor; [lia|].
    rewrite Forall_forall in *. intros y Hy. specialize (Hz y Hy). lia.
  - constructor; [now apply IH|]. rewrite Forall_forall in *. intros y Hy.
    apply insertZ_in in Hy as [->|Hy]; [lia|now apply Hz].
Qed.
Lemma sortZ_sorted l : StronglySorted Z.le (sortZ l).
Proof. induction l as [|x r IH]; cbn [sortZ fold_right]; [constructor|]. now apply insertZ_sorted. Qed.

Lemma dedup_spec l : StronglySorted Z.le l ->
  StronglySorted Z.lt (dedup l) /\ forall y, In y (dedup l) <-> In y l.
Proof.
  induction l as [|x r IH]; intros H; [split; [constructor|tauto]|].
  apply StronglySorted_inv in H as [Hr Hx]. specialize (IH Hr) as [IH1 IH2].
  destruct r as [|y r']; [split; [repeat constructor|tauto]|].
  change (dedup (x :: y :: r')) with (if x =? y then dedup (y :: r') else x :: dedup (y :: r')).
  destruct (x =? y) eqn:E.
  - apply Z.eqb_eq in E. subst y. split; [exact IH1|]. intros z. rewrite IH2. cbn [In]. intuition.
  - apply Z.eqb_neq in E. split.
    + constructor; [exact IH1|]. rewrite Forall_forall in *. intros z Hz. apply IH2 in Hz.
      pose proof (Hx y (or_introl eq_refl)) as Hxy.
      destruct Hz as [<-|Hz]; [lia|].
      apply StronglySorted_inv in Hr as [_ Hy]. rewrite Forall_forall in Hy. specialize (Hy z Hz). lia.
    + intros z. cbn [In]. rewrite IH2. cbn [In]. tauto.
Qed.
Lemma np_unique_spec l :
  StronglySorted Z.lt (np_unique l) /\ forall y, In y (np_unique l) <-> In y l.
Proof.
  unfold np_unique. destruct (dedup_spec (sortZ l) (sortZ_sorted l)) as [H1 H2].
  split; [exact H1|]. intros y. rewrite H2. apply sortZ_in.
Qed.

(* ================= C09_mean_amps ================= *)
Lemma filter_length_pos {A} (p : A -> bool) l x : In x l -> p x = true -> (0 < length (filter p l))%nat.
Proof.
  intros Hin Hp. assert (H : In x (filter p l)) by (apply filter_In; auto).
  destruct (filter p l); [destruct H|cbn; lia].
Qed.

Theorem mean_amps_thm : forall (tmp amps : list Z),
  (forall s, In s tmp -> 0 <= s) -> length amps = length tmp ->
  exists out, mean_amps_Q tmp amps = Some out /\ Spec_mean_amps tmp amps out.
Proof.
  intros tmp amps Hnn Hlen. unfold mean_amps_Q, mean_amps.
  replace (forallb (fun s => 0 <=? s) tmp) with true.
  2:{ symmetry. apply forallb_forall. intros s Hs. specialize (Hnn s Hs). lia. }
  replace (Nat.eqb (length amps) (length tmp)) with true by (symmetry; now apply Nat.eqb_eq).
  cbn [andb negb]. eexists. split; [reflexivity|].
  destruct (np_unique_spec tmp) as [Hs Hm].
  exists (np_unique tmp). split; [exact Hs|]. split; [exact Hm|]. split; [now rewrite map_length|].
  intros j id Hj mem.
  assert (Hid : In id tmp) by (apply Hm; eapply nth_error_In; eauto).
  pose proof (Hnn id Hid) as Hid0.
  assert (Hb : (Z.to_nat id < bc_len tmp 0)%nat).
  { unfold bc_len. destruct tmp as [|y r]; [destruct Hid|]. pose proof (lmax_ge _ _ Hid). lia. }
  assert (Emem : mem = members tmp (Z.to_nat id) amps).
  { unfold mem, members. now rewrite Z2Nat.id by lia. }
  rewrite nth_error_map, Hj. cbn [option_map]. unfold nthZ, bincount.
  rewrite !bincount_w_nth by (rewrite ?repeat_length; auto).
  rewrite members_ones. rewrite Z2Nat.id by lia. rewrite <- Emem.
  assert (Hc : length mem = length (filter (fun s => s =? id) tmp)).
  { rewrite Emem, members_length by exact Hlen. now rewrite Z2Nat.id by lia. }
  assert (Hpos : (0 < length mem)%nat).
  { rewrite Hc. apply (filter_length_pos _ tmp id Hid). apply Z.eqb_refl. }
  unfold zlen. rewrite <- Hc. unfold q_div, q_ofZ. rewrite Qeq_bool_inject.
  replace (Z.of_nat (length mem) =? 0) with false by (symmetry; apply Z.eqb_neq; lia).
  eexists. split; [reflexivity|]. split; [destruct mem; [cbn in Hpos; lia|discriminate]|].
  field. intros Hz. apply (proj1 (inject_Z_eq0 _)) in Hz. lia.
Qed.

(* ================= C09_peak_channel ================= *)
Lemma data_ok_inv nc data : data_ok nc data = true ->
  (1 <= nc)%nat /\ forall t, In t data -> (1 <= length t)%nat /\ forallb (row_ok nc) t = true.
Proof.
  unfold data_ok. rewrite andb_true_iff. intros [H1 H2]. split; [now apply Nat.leb_le|].
  intros t Ht. rewrite forallb_forall in H2. specialize (H2 t Ht). unfold wave_ok in H2.
  apply andb_true_iff in H2 as [Ha Hb]. split; [now apply Nat.leb_le|exact Hb].
Qed.

Lemma ch_amps_nonempty nc t : (1 <= nc)%nat -> ch_amps nc t <> [].
Proof. intros H E. apply (f_equal (@length Z)) in E. unfold ch_amps in E. rewrite map_length, seq_length in E. cbn in E. lia. Qed.

Lemma peak_channel_model nc t : (1 <= nc)%nat -> (1 <= length t)%nat ->
  IsPeakChannel (entry t) (length t) nc (argmax (ch_amps nc t)).
Proof.
  intros Hnc Hns. exists (ch_amps nc t). split; [now apply ch_amps_ptp|]. apply argmax_first. now apply ch_amps_nonempty.
Qed.

Theorem channels_thm : forall (nc : nat) (data : list mat) (out : list Z),
  channels nc data = Some out -> Spec_channels nc data out.
Proof.
  intros nc data out H. unfold channels in H. destruct (data_ok nc data) eqn:E; [|discriminate].
  injection H as <-. destruct (data_ok_inv nc data E) as [Hnc Hd]. unfold peak_channels.
  split; [now rewrite !map_length|]. intros n t Ht.
  exists (argmax (ch_amps nc t)). split; [now rewrite nth_error_map, nth_error_map, Ht|].
  apply peak_channel_model; [exact Hnc|]. apply Hd. eapply nth_error_In; eauto.
Qed.

Theorem probes_thm : forall (nc : nat) (data : list mat) (probes out : list Z),
  templates_probes nc data probes = Some out -> Spec_probes nc data probes out.
Proof.
  intros nc data probes out H. unfold templates_probes in H.
  destruct (data_ok nc data) eqn:E; cbn [andb] in H; [|discriminate].
  destruct (Nat.eqb (length probes) nc) eqn:El; [|discriminate]. apply Nat.eqb_eq in El.
  injection H as <-. destruct (data_ok_inv nc data E) as [Hnc Hd]. unfold peak_channels.
  split; [now rewrite !map_length|]. intros n t Ht.
  assert (Hp : IsPeakChannel (entry t) (length t) nc (argmax (ch_amps nc t))).
  { apply peak_channel_model; [exact Hnc|]. apply Hd. eapply nth_error_In; eauto. }
  exists (argmax (ch_amps nc t)). split; [exact Hp|].
  rewrite nth_error_map, nth_error_map, Ht. cbn [option_map].
  destruct Hp as (ps & [L _] & (Hlt & _)). symmetry. apply nth_error_nth_lt. lia.
Qed.

(* the peak channel is unique (first arg-max of the unique peak-to-peak list) *)
Lemma IsArgmaxFirst_unique a b l : IsArgmaxFirst a l -> IsArgmaxFirst b l -> a = b.
Proof.
  intros (Ha & Ha1 & Ha2) (Hb & Hb1 & Hb2).
  destruct (Nat.lt_trichotomy a b) as [H|[H|H]]; [|exact H|].
  - specialize (Hb2 a H). specialize (Ha1 b Hb). lia.
  - specialize (Ha2 b H). specialize (Hb1 a Ha). lia.
Qed.
Lemma IsPeakChannel_unique f ns nc a b : IsPeakChannel f ns nc a -> IsPeakChannel f ns nc b -> a = b.
Proof.
  intros (ps & H1 & H2) (ps' & H1' & H2'). rewrite (IsPtpList_unique _ _ _ _ _ H1 H1') in H2.
  eapply IsArgmaxFirst_unique; eauto.
Qed.

(* ================= C09_duration ================= *)
Lemma nth_concat_uniform {A} (tbl : list (list A)) nc n p d :
  (forall r, In r tbl -> length r = nc) -> (n < length tbl)%nat -> (p < nc)%nat ->
  nth (n * nc + p) (concat tbl) d = nth p (nth n tbl []) d.
Proof.
  revert n; induction tbl as [|r tbl' IH]; intros n Hr Hn Hp; cbn [length] in Hn; [lia|].
  cbn [concat]. assert (Hl : length r = nc) by (apply Hr; now left).
  destruct n as [|n'].
  - cbn [Nat.mul Nat.add nth]. apply app_nth1. lia.
  - rewrite app_nth2 by (rewrite Hl; lia).
    replace (S n' * nc + p - length r)%nat with (n' * nc + p)%nat by (rewrite Hl; lia).
    cbn [nth]. apply IH; [intros r' Hr'; apply Hr; now right|lia|exact Hp].
Qed.

Lemma seq_nth_error a n k : (k < n)%nat -> nth_error (seq a n) k = Some (a + k)%nat.
Proof. intros H. rewrite (nth_error_nth_lt _ k O) by (now rewrite seq_length). now rewrite seq_nth. Qed.

Lemma durations_Z_nth nc data n t : data_ok nc data = true -> nth_error data n = Some t ->
  let c := argmax (ch_amps nc t) in
  nth_error (durations_Z nc data) n = Some (Z.of_nat (argmax (colZ c t)) - Z.of_nat (argmin (colZ c t))).
Proof.
  intros E Ht c. destruct (data_ok_inv nc data E) as [Hnc Hd].
  assert (Hn : (n < length data)%nat) by (eapply nth_error_some_lt; eauto).
  assert (Htin : In t data) by (eapply nth_error_In; eauto).
  assert (Hc : (c < nc)%nat).
  { destruct (peak_channel_model nc t Hnc (proj1 (Hd t Htin))) as (ps & [L _] & (Hlt & _)). fold c in Hlt. lia. }
  unfold durations_Z. rewrite nth_error_map.
  rewrite (map2_nth_error _ _ _ n n c).
  - cbn [option_map]. f_equal. unfold durations_tbl.
    rewrite (nth_concat_uniform _ nc n c 0).
    + rewrite (nth_map_in _ data n [] []) by exact Hn. rewrite (nth_error_nth' data n t [] Ht).
      now rewrite nth_map_seq by exact Hc.
    + intros r Hr. apply in_map_iff in Hr as (t' & <- & _). now rewrite map_length, seq_length.
    + now rewrite map_length.
    + exact Hc.
  - now apply seq_nth_error.
  - unfold peak_channels. now rewrite nth_error_map, Ht.
Qed.

Theorem durations_thm : forall (nc : nat) (data : list mat) (rate : Q) (out : list QN),
  ~ (rate == 0)%Q ->
  waveform_durations_Q nc data (Some rate) = Some out -> Spec_durations nc data rate out.
Proof.
  intros nc data rate out Hrate H. unfold waveform_durations_Q, waveform_durations in H.
  destruct (data_ok nc data) eqn:E; [|discriminate]. injection H as <-.
  destruct (data_ok_inv nc data E) as [Hnc Hd].
  split.
  - rewrite map_length. unfold durations_Z. rewrite map_length, map2_length; [now rewrite seq_length|].
    unfold peak_channels. now rewrite seq_length, map_length.
  - intros n t Ht. assert (Htin : In t data) by (eapply nth_error_In; eauto).
    destruct (Hd t Htin) as [Hns _].
    set (c := argmax (ch_amps nc t)).
    exists c, (argmax (colZ c t)), (argmin (colZ c t)). eexists.
    split; [now apply peak_channel_model|].
    rewrite <- colZ_column.
    assert (Hne : colZ c t <> []).
    { intros En. apply (f_equal (@length Z)) in En. unfold colZ in En. rewrite map_length in En. cbn in En. lia. }
    split; [now apply argmax_first|]. split; [now apply argmin_first|].
    split.
    + rewrite nth_error_map, (durations_Z_nth nc data n t E Ht). cbn [option_map]. fold c.
      unfold q_div, q_mul, q_ofZ.
      destruct (Qeq_bool rate 0) eqn:Er; [apply Qeq_bool_iff in Er; contradiction|]. reflexivity.
    + reflexivity.
Qed.
