(* C09/Proofs5.v -- soundness of the boolean checkers Corr.v runs on observed outputs. *)
From Coq Require Import ZArith QArith List Bool Lia Arith.
From PV Require Import C09.Model C09.Spec C09.Proofs C09.Proofs2 C09.Proofs3.
Import ListNotations.
Open Scope Z_scope.

Lemma ch_amps_nth nc t j : (j < nc)%nat -> nth j (ch_amps nc t) 0 = ptp_of t j.
Proof. intros H. unfold ch_amps. now rewrite nth_map_seq by exact H. Qed.

Lemma peak_channel_b_sound nc t c : (1 <= length t)%nat -> peak_channel_b nc t c = true ->
  0 <= c /\ IsPeakChannel (entry t) (length t) nc (Z.to_nat c).
Proof.
  intros Hns H. unfold peak_channel_b in H. rewrite !andb_true_iff in H. destruct H as [[H0 H1] H2].
  split; [lia|]. exists (ch_amps nc t). split; [now apply ch_amps_ptp|].
  assert (Hl : length (ch_amps nc t) = nc) by (unfold ch_amps; now rewrite map_length, seq_length).
  assert (Hc : (Z.to_nat c < nc)%nat) by lia.
  rewrite forallb_forall in H2.
  split; [lia|]. split.
  - intros j Hj. rewrite Hl in Hj. rewrite !ch_amps_nth by assumption.
    specialize (H2 j ltac:(apply in_seq; lia)). apply andb_true_iff in H2 as [H2 _]. lia.
  - intros j Hj. rewrite !ch_amps_nth by lia.
    specialize (H2 j ltac:(apply in_seq; lia)). apply andb_true_iff in H2 as [_ H2].
    apply orb_true_iff in H2 as [H2|H2]; [|lia]. apply negb_true_iff, Z.ltb_ge in H2. lia.
Qed.

Theorem peak_channels_b_sound : forall (nc : nat) (data : list mat) (out : list Z),
  data_ok nc data = true -> peak_channels_b nc data out = true -> Spec_channels nc data out.
Proof.
  intros nc data out Hok. destruct (data_ok_inv nc data Hok) as [_ Hd]. clear Hok.
  unfold peak_channels_b. revert out; induction data as [|t r IH]; intros [|c out'] H; cbn [all2] in H; try discriminate.
  - split; [reflexivity|]. intros [|n] t Ht; discriminate.
  - apply andb_true_iff in H as [H1 H2].
    destruct (IH (fun t' Ht' => Hd t' (or_intror Ht')) out' H2) as [L S].
    destruct (peak_channel_b_sound nc t c (proj1 (Hd t (or_introl eq_refl))) H1) as [Hc0 Hp].
    split; [cbn [length]; now rewrite L|]. intros [|n] t' Ht'; cbn [nth_error] in *.
    + injection Ht' as <-. exists (Z.to_nat c). split; [now rewrite Z2Nat.id by lia|exact Hp].
    + now apply S.
Qed.

Theorem nan_iff_empty_b_sound : forall (i : amp_in) (finite : list bool),
  nan_iff_empty_b i finite = true ->
  length finite = length (ai_data i) /\
  forall n, (n < length (ai_data i))%nat -> (nth n finite true = false <-> ~ In (Z.of_nat n) (ai_spikes i)).
Proof.
  intros i finite H. unfold nan_iff_empty_b in H. apply andb_true_iff in H as [H1 H2].
  apply Nat.eqb_eq in H1. split; [exact H1|]. intros n Hn. rewrite forallb_forall in H2.
  specialize (H2 n ltac:(apply in_seq; lia)). apply eqb_prop in H2. rewrite H2. split.
  - intros E Hin. assert (existsb (fun s => s =? Z.of_nat n) (ai_spikes i) = true); [|congruence].
    apply existsb_exists. exists (Z.of_nat n). split; [exact Hin|apply Z.eqb_refl].
  - intros Hn'. destruct (existsb (fun s => s =? Z.of_nat n) (ai_spikes i)) eqn:E; [|reflexivity].
    apply existsb_exists in E as (s & Hs & Es). apply Z.eqb_eq in Es. subst s. contradiction.
Qed.
