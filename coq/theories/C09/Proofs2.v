(* C09/Proofs2.v -- bincount = per-id sums over the member spikes; per-template amplitudes; rescaled
   templates and their peak amplitude. *)
From Coq Require Import ZArith QArith List Bool Lia Arith Sorted.
From PV Require Import C09.Model C09.Spec C09.Proofs.
Import ListNotations.
Open Scope Z_scope.

(* ================= bincount ================= *)
Lemma add_nth_length acc i v : length (add_nth acc i v) = length acc.
Proof. revert i; induction acc as [|x r IH]; intros [|k]; cbn [add_nth length]; auto. Qed.

Lemma add_nth_nth acc i v n : (n < length acc)%nat ->
  nth n (add_nth acc i v) 0 = if Nat.eqb n i then nth n acc 0 + v else nth n acc 0.
Proof.
  revert i n; induction acc as [|x r IH]; intros i n H; cbn [length] in H; [lia|].
  destruct i as [|i], n as [|n]; cbn [add_nth nth Nat.eqb]; try reflexivity.
  apply IH. lia.
Qed.

Definition bstep (acc : list Z) (p : Z * Z) : list Z := add_nth acc (Z.to_nat (fst p)) (snd p).
Definition is_id (n : nat) (p : Z * Z) : bool := fst p =? Z.of_nat n.

Lemma fold_bstep_length xw acc : length (fold_left bstep xw acc) = length acc.
Proof. revert acc; induction xw as [|p r IH]; intros acc; cbn [fold_left]; [reflexivity|]. rewrite IH. apply add_nth_length. Qed.

Lemma fold_bstep_nth xw acc n : (n < length acc)%nat -> (forall p, In p xw -> 0 <= fst p) ->
  nth n (fold_left bstep xw acc) 0 = nth n acc 0 + zsum (map snd (filter (is_id n) xw)).
Proof.
  revert acc; induction xw as [|p r IH]; intros acc Hn Hp; cbn [fold_left filter map zsum fold_right]; [lia|].
  rewrite IH; [|unfold bstep; now rewrite add_nth_length|intros q Hq; apply Hp; now right].
  unfold bstep at 1. rewrite add_nth_nth by exact Hn.
  specialize (Hp p (or_introl eq_refl)). unfold is_id at 2.
  destruct (Nat.eqb n (Z.to_nat (fst p))) eqn:E.
  - apply Nat.eqb_eq in E. replace (fst p =? Z.of_nat n) with true by (symmetry; apply Z.eqb_eq; lia).
    cbn [map zsum fold_right]. fold (zsum (map snd (filter (is_id n) r))). lia.
  - apply Nat.eqb_neq in E. replace (fst p =? Z.of_nat n) with false by (symmetry; apply Z.eqb_neq; lia).
    reflexivity.
Qed.

Lemma nth_repeat0 n k : nth n (repeat 0 k) 0 = 0.
Proof. revert n; induction k as [|k IH]; intros [|n]; cbn; auto. Qed.

Lemma in_combine_fst {A B} (a : list A) (b : list B) p : In p (combine a b) -> In (fst p) a.
Proof. destruct p as [x y]. apply in_combine_l. Qed.

Lemma bincount_w_length x w ml : length (bincount_w x w ml) = bc_len x ml.
Proof. unfold bincount_w. fold bstep. rewrite fold_bstep_length. apply repeat_length. Qed.

Lemma members_eq {A} (x : list Z) n (w : list A) :
  members x n w = map snd (filter (fun p => fst p =? Z.of_nat n) (combine x w)).
Proof. reflexivity. Qed.

Lemma bincount_w_nth x w ml n : (n < bc_len x ml)%nat -> (forall s, In s x -> 0 <= s) ->
  nth n (bincount_w x w ml) 0 = zsum (members x n w).
Proof.
  intros Hn Hx. unfold bincount_w. fold bstep. rewrite fold_bstep_nth.
  - rewrite nth_repeat0. reflexivity.
  - now rewrite repeat_length.
  - intros p Hp. apply Hx. now apply in_combine_fst in Hp.
Qed.

Lemma lmax_in l : l <> [] -> In (lmax l) l.
Proof. intros H. now destruct (lmax_IsMax l H). Qed.
Lemma lmax_ge l x : In x l -> x <= lmax l.
Proof. intros H. assert (l <> []) by (intros ->; destruct H). destruct (lmax_IsMax l H0) as [_ H1]. auto. Qed.

(* all ids below the number of waveforms: the result has exactly one bin per waveform *)
Lemma bc_len_bounded x ml : 0 <= ml -> (forall s, In s x -> 0 <= s < ml) -> bc_len x ml = Z.to_nat ml.
Proof.
  intros Hml H. unfold bc_len. destruct x as [|y r]; [f_equal; lia|].
  assert (Hin : In (lmax (y :: r)) (y :: r)) by (apply lmax_in; discriminate).
  specialize (H _ Hin). f_equal. lia.
Qed.

Lemma members_ones x n : zsum (members x n (repeat 1 (length x))) = zlen (filter (fun s => s =? Z.of_nat n) x).
Proof.
  unfold members, zlen. induction x as [|s r IH]; [reflexivity|].
  cbn [length repeat combine filter fst]. destruct (s =? Z.of_nat n).
  - cbn [map snd zsum fold_right length]. fold (zsum (map snd (filter (fun p => fst p =? Z.of_nat n) (combine r (repeat 1 (length r)))))).
    rewrite IH. lia.
  - exact IH.
Qed.
Lemma members_length {A} x n (w : list A) : length w = length x ->
  length (members x n w) = length (filter (fun s => s =? Z.of_nat n) x).
Proof.
  unfold members. revert w; induction x as [|s r IH]; intros [|y w'] H; cbn in H; try discriminate; [reflexivity|].
  cbn [combine filter fst]. destruct (s =? Z.of_nat n); cbn [map length]; rewrite IH by lia; reflexivity.
Qed.
Lemma members_map {A B} (h : A -> B) x n (w : list A) : members x n (map h w) = map h (members x n w).
Proof.
  unfold members. revert w; induction x as [|s r IH]; intros [|y w']; cbn [map combine filter]; try reflexivity.
  cbn [fst]. destruct (s =? Z.of_nat n); cbn [map snd]; now rewrite IH.
Qed.

(* ================= rationals ================= *)
Lemma inject_Z_eq0 c : (inject_Z c == 0)%Q <-> c = 0.
Proof. unfold Qeq, inject_Z. cbn. lia. Qed.
Lemma Qeq_bool_inject c : Qeq_bool (inject_Z c) 0 = (c =? 0).
Proof.
  destruct (Qeq_bool (inject_Z c) 0) eqn:E.
  - apply Qeq_bool_iff in E. apply (proj1 (inject_Z_eq0 c)) in E. subst. reflexivity.
  - symmetry. apply Z.eqb_neq. intros ->. apply Qeq_bool_neq in E. apply E. reflexivity.
Qed.

Lemma qsum_scaled (f : Q) (l : list Z) :
  exists q, qsum (map (fun z => q_mul (q_ofZ z) (Some f)) l) = Some q /\ (q == inject_Z (zsum l) * f)%Q.
Proof.
  induction l as [|z r (q & Hq & He)]; cbn [map qsum fold_right zsum].
  - exists 0%Q. split; [reflexivity|]. cbn. ring.
  - fold (qsum (map (fun z => q_mul (q_ofZ z) (Some f)) r)). rewrite Hq. cbn [q_mul q_ofZ q_add].
    eexists. split; [reflexivity|]. rewrite He. fold (zsum r). rewrite inject_Z_plus. ring.
Qed.

(* ================= C09_template_amps ================= *)
Lemma amp_sums_counts i : WF i ->
  length (amp_sums i) = length (ai_data i) /\ length (amp_counts i) = length (ai_data i) /\
  forall n, (n < length (ai_data i))%nat ->
    nth n (amp_sums i) 0 = zsum (members (ai_spikes i) n (spike_amps_Z i)) /\
    nth n (amp_counts i) 0 = zlen (filter (fun s => s =? Z.of_nat n) (ai_spikes i)).
Proof.
  intros W. unfold amp_sums, amp_counts, bincount.
  assert (Hb : bc_len (ai_spikes i) (zlen (amps_au i)) = length (ai_data i)).
  { rewrite bc_len_bounded.
    - unfold zlen. rewrite amps_au_length. lia.
    - unfold zlen; lia.
    - intros s Hs. unfold zlen. rewrite amps_au_length. apply (wf_spikes i W s Hs). }
  rewrite !bincount_w_length, Hb. split; [reflexivity|]. split; [reflexivity|].
  intros n Hn. assert (Hnn : forall s, In s (ai_spikes i) -> 0 <= s) by (intros s Hs; apply (wf_spikes i W s Hs)).
  rewrite !bincount_w_nth by (rewrite ?Hb; auto). split; [reflexivity|apply members_ones].
Qed.

Lemma spike_amps_Z_length i : WF i -> length (spike_amps_Z i) = length (ai_spikes i).
Proof. intros W. unfold spike_amps_Z. apply map2_length. symmetry. apply (wf_len i W). Qed.

Lemma nth_error_nth_lt {A} (l : list A) n d : (n < length l)%nat -> nth_error l n = Some (nth n l d).
Proof. revert n; induction l as [|x r IH]; intros [|n] H; cbn in *; try lia; [reflexivity|apply IH; lia]. Qed.

(* the n-th per-template amplitude before the unit factor *)
Lemma amp_v_nth i n : WF i -> (n < length (ai_data i))%nat ->
  nth_error (map2 (fun s c => q_div (q_ofZ s) (q_ofZ c)) (amp_sums i) (amp_counts i)) n =
  Some (q_div (q_ofZ (zsum (members (ai_spikes i) n (spike_amps_Z i))))
              (q_ofZ (zlen (filter (fun s => s =? Z.of_nat n) (ai_spikes i))))).
Proof.
  intros W Hn. destruct (amp_sums_counts i W) as (L1 & L2 & Hv). destruct (Hv n Hn) as [E1 E2].
  rewrite (map2_nth_error _ _ _ n (nth n (amp_sums i) 0) (nth n (amp_counts i) 0)).
  - now rewrite E1, E2.
  - apply nth_error_nth_lt. lia.
  - apply nth_error_nth_lt. lia.
Qed.

(* the three outputs, named *)
Definition out_spike (i : amp_in) (f : QN) : list QN := map (fun z => q_mul (q_ofZ z) f) (spike_amps_Z i).
Definition amp_v (i : amp_in) : list QN := map2 (fun s c => q_div (q_ofZ s) (q_ofZ c)) (amp_sums i) (amp_counts i).
Definition out_tamps (i : amp_in) (f : QN) : list QN := map (fun x => q_mul x f) (amp_v i).
Definition out_phys (i : amp_in) (f : QN) : list (list (list QN)) :=
  map2 (fun t k => map (map (fun w => q_mul (q_mul (q_ofZ w) k) f)) t) (templates_wfs i)
       (map2 (fun x a => q_div x (q_ofZ a)) (amp_v i) (amps_au i)).
Lemma amplitudes_true_Q_unfold i f o : amplitudes_true_Q i f = Some o ->
  wf_amp i = true /\ ao_spike o = out_spike i f /\ ao_tamps o = out_tamps i f /\ ao_phys o = out_phys i f.
Proof.
  unfold amplitudes_true_Q, amplitudes_true. destruct (wf_amp i); [|discriminate].
  intros H. injection H as <-. repeat split; reflexivity.
Qed.

Theorem template_amps_thm : forall (i : amp_in) (factor : Q) (o : amp_out QN),
  amplitudes_true_Q i (QF factor) = Some o ->
  Spec_template_amps i (ao_spike o) (ao_tamps o).
Proof.
  intros i factor o H. destruct (amplitudes_true_Q_unfold _ _ _ H) as (Ewf & -> & -> & _).
  pose proof (wf_amp_WF i Ewf) as W. destruct (amp_sums_counts i W) as (L1 & L2 & _).
  split; [unfold out_tamps, amp_v; rewrite map_length, map2_length; lia|].
  intros n Hn mem. subst mem.
  assert (E : nth_error (out_tamps i (QF factor)) n =
              Some (q_mul (q_div (q_ofZ (zsum (members (ai_spikes i) n (spike_amps_Z i))))
                                 (q_ofZ (zlen (filter (fun s => s =? Z.of_nat n) (ai_spikes i))))) (QF factor)))
    by (unfold out_tamps, amp_v; rewrite nth_error_map, (amp_v_nth i n W Hn); reflexivity).
  rewrite (nth_error_nth' _ _ _ _ E). clear E.
  unfold out_spike. rewrite members_map.
  set (zs := members (ai_spikes i) n (spike_amps_Z i)).
  assert (Hlen : length zs = length (filter (fun s => s =? Z.of_nat n) (ai_spikes i))).
  { apply members_length. now apply spike_amps_Z_length. }
  unfold zlen at 1. rewrite <- Hlen. unfold q_div at 1, q_ofZ at 1 2. rewrite Qeq_bool_inject.
  destruct (Z.of_nat (length zs) =? 0) eqn:E.
  - cbn [q_mul]. apply Z.eqb_eq in E. destruct zs; [reflexivity|cbn in E; lia].
  - unfold q_mul at 1, QF at 1. apply Z.eqb_neq in E. split; [destruct zs; [cbn in E; lia|discriminate]|].
    destruct (qsum_scaled factor zs) as (q & Hq & He). exists q. split; [exact Hq|].
    rewrite He. unfold zlen. rewrite map_length. field. intros Hz. apply (proj1 (inject_Z_eq0 _)) in Hz. lia.
Qed.

(* ================= C09_rescaled_peak ================= *)
Lemma IsPtp_unique f ns c p p' : IsPtp f ns c p -> IsPtp f ns c p' -> p = p'.
Proof.
  intros (hi & lo & H1 & H2 & ->) (hi' & lo' & H1' & H2' & ->).
  rewrite (IsMax_unique _ _ _ H1 H1'), (IsMin_unique _ _ _ H2 H2'). reflexivity.
Qed.
Lemma IsPtpList_unique f ns nc ps ps' : IsPtpList f ns nc ps -> IsPtpList f ns nc ps' -> ps = ps'.
Proof.
  intros [L H] [L' H']. apply (nth_ext _ _ 0 0); [lia|]. intros c Hc. rewrite L in Hc.
  eapply IsPtp_unique; eauto.
Qed.
Lemma IsPeakAmp_unique f ns nc a a' : IsPeakAmp f ns nc a -> IsPeakAmp f ns nc a' -> a = a'.
Proof.
  intros (ps & H1 & H2) (ps' & H1' & H2'). rewrite (IsPtpList_unique _ _ _ _ _ H1 H1') in H2.
  eapply IsMax_unique; eauto.
Qed.

Lemma IsMaxQ_eq m m' l : (m == m')%Q -> IsMaxQ m l -> IsMaxQ m' l.
Proof.
  intros E [(x & Hx & Hxe) H]. split; [exists x; split; [exact Hx|now rewrite Hxe]|].
  intros y Hy. rewrite <- E. now apply H.
Qed.

Lemma scale_max (g : Z -> Q) (K : Q) l hi : (forall z, g z == inject_Z z * K)%Q -> (0 <= K)%Q ->
  IsMax hi l -> IsMaxQ (inject_Z hi * K) (map g l).
Proof.
  intros Hg HK [Hin Hall]. split.
  - exists (g hi). split; [now apply in_map|apply Hg].
  - intros x Hx. apply in_map_iff in Hx as (z & <- & Hz). rewrite Hg.
    apply Qmult_le_compat_r; [|exact HK]. rewrite <- Zle_Qle. now apply Hall.
Qed.
Lemma scale_min (g : Z -> Q) (K : Q) l lo : (forall z, g z == inject_Z z * K)%Q -> (0 <= K)%Q ->
  IsMin lo l -> IsMinQ (inject_Z lo * K) (map g l).
Proof.
  intros Hg HK [Hin Hall]. split.
  - exists (g lo). split; [now apply in_map|apply Hg].
  - intros x Hx. apply in_map_iff in Hx as (z & <- & Hz). rewrite Hg.
    apply Qmult_le_compat_r; [|exact HK]. rewrite <- Zle_Qle. now apply Hall.
Qed.

(* scaling a table by K >= 0 scales its largest channel peak-to-peak by K *)
Lemma scale_peak (U : nat -> nat -> Z) (f : nat -> nat -> Q) (K : Q) ns nc au :
  (forall s c, f s c == inject_Z (U s c) * K)%Q -> (0 <= K)%Q ->
  IsPeakAmp U ns nc au -> IsPeakAmpQ f ns nc (inject_Z au * K).
Proof.
  intros Hf HK (ps & [L Hp] & Hm).
  exists (map (fun p => inject_Z p * K)%Q ps). split; [now rewrite map_length|]. split.
  - intros c Hc. rewrite (nth_map_in _ ps c 0%Q 0) by lia.
    destruct (Hp c Hc) as (hi & lo & H1 & H2 & ->).
    exists (inject_Z hi * K)%Q, (inject_Z lo * K)%Q.
    assert (Ecol : columnQ f ns c = map (fun s => f s c) (seq 0 ns)) by reflexivity.
    split; [|split].
    + unfold columnQ. unfold column in H1.
      destruct (scale_max (fun z => inject_Z z * K)%Q K _ hi (fun z => Qeq_refl _) HK H1) as [(x & Hx & Hxe) Hall].
      rewrite map_map in Hx, Hall. split.
      * apply in_map_iff in Hx as (s & <- & Hs). exists (f s c). split; [apply in_map_iff; eauto|]. rewrite Hf. exact Hxe.
      * intros y Hy. apply in_map_iff in Hy as (s & <- & Hs). rewrite Hf. apply Hall. apply in_map_iff. eauto.
    + unfold columnQ. unfold column in H2.
      destruct (scale_min (fun z => inject_Z z * K)%Q K _ lo (fun z => Qeq_refl _) HK H2) as [(x & Hx & Hxe) Hall].
      rewrite map_map in Hx, Hall. split.
      * apply in_map_iff in Hx as (s & <- & Hs). exists (f s c). split; [apply in_map_iff; eauto|]. rewrite Hf. exact Hxe.
      * intros y Hy. apply in_map_iff in Hy as (s & <- & Hs). rewrite Hf. apply Hall. apply in_map_iff. eauto.
    + unfold Zminus. rewrite inject_Z_plus, inject_Z_opp. ring.
  - apply (scale_max (fun p => inject_Z p * K)%Q K ps au); [intros; reflexivity|exact HK|exact Hm].
Qed.

Lemma IsPeakAmpQ_eq f ns nc a a' : (a == a')%Q -> IsPeakAmpQ f ns nc a -> IsPeakAmpQ f ns nc a'.
Proof. intros E (ps & L & Hp & Hm). exists ps. split; [exact L|]. split; [exact Hp|]. eapply IsMaxQ_eq; eauto. Qed.

Lemma templates_wfs_nth i n t : nth_error (ai_data i) n = Some t -> Z.of_nat n < ai_nwav i ->
  nth_error (templates_wfs i) n = Some (matmulZ t (ai_wmi i) (length (ai_wmi i))).
Proof.
  intros Ht Hn. unfold templates_wfs. rewrite nth_error_map, (combine_seq_nth_error _ 0 n t Ht).
  cbn [option_map fst snd Nat.add]. replace (Z.of_nat n <? ai_nwav i) with true by (symmetry; apply Z.ltb_lt; exact Hn).
  reflexivity.
Qed.
Lemma templates_wfs_length i : length (templates_wfs i) = length (ai_data i).
Proof. unfold templates_wfs. now rewrite map_length, combine_length, seq_length, Nat.min_id. Qed.

Theorem rescaled_thm : forall (i : amp_in) (factor : Q) (o : amp_out QN) (n : nat) (t : mat) (v : Q) (au : Z),
  amplitudes_true_Q i (QF factor) = Some o ->
  nth_error (ai_data i) n = Some t -> Z.of_nat n < ai_nwav i ->
  nth_error (ao_tamps o) n = Some (Some v) -> (0 <= v)%Q ->
  IsPeakAmp (unwh (ai_wmi i) t) (length t) (length (ai_wmi i)) au -> 0 < au ->
  Spec_rescaled i n t v (nth n (ao_phys o) []).
Proof.
  intros i factor o n t v au H Ht Hn Hv Hv0 Hau Hpos.
  destruct (amplitudes_true_Q_unfold _ _ _ H) as (Ewf & _ & Et & ->). rewrite Et in Hv. clear Et.
  pose proof (wf_amp_WF i Ewf) as W.
  assert (Hnl : (n < length (ai_data i))%nat) by (eapply nth_error_some_lt; eauto).
  assert (Htin : In t (ai_data i)) by (eapply nth_error_In; eauto).
  destruct (wf_data i W t Htin) as [Hns Hrows].
  (* the model's arbitrary-unit amplitude is au *)
  pose proof (amps_au_nth i n t W Ht Hn) as Eau.
  rewrite <- (IsPeakAmp_unique _ _ _ _ _ Hau (unwhitened_peak t (ai_wmi i) Hns (wf_nc i W) Hrows)) in Eau.
  (* the per-template amplitude before the factor *)
  unfold out_tamps, amp_v in Hv. rewrite nth_error_map, (amp_v_nth i n W Hnl) in Hv. unfold option_map in Hv.
  set (vn := q_div _ _) in *. destruct vn as [v0|] eqn:Evn; unfold q_mul, QF in Hv; [|discriminate].
  injection Hv as <-.
  set (K := (v0 / inject_Z au * factor)%Q).
  assert (Hau0 : ~ (inject_Z au == 0)%Q) by (intros Hz; apply (proj1 (inject_Z_eq0 _)) in Hz; lia).
  assert (HK : (0 <= K)%Q).
  { unfold K. setoid_replace (v0 / inject_Z au * factor)%Q with ((v0 * factor) * / inject_Z au)%Q by (field; exact Hau0).
    apply Qmult_le_0_compat; [exact Hv0|]. apply Qinv_le_0_compat. change (inject_Z 0 <= inject_Z au)%Q. rewrite <- Zle_Qle. lia. }
  (* the n-th rescaled template *)
  set (wf_n := matmulZ t (ai_wmi i) (length (ai_wmi i))).
  assert (Ephys : nth n (out_phys i (QF factor)) []
                  = map (map (fun w => Some (inject_Z w * (v0 / inject_Z au) * factor)%Q)) wf_n).
  { apply nth_error_nth'. unfold out_phys.
    rewrite (map2_nth_error _ _ _ n wf_n (Some (v0 / inject_Z au)%Q)).
    - reflexivity.
    - now apply templates_wfs_nth.
    - rewrite (map2_nth_error _ _ _ n (Some v0) au).
      + unfold q_div, q_ofZ. rewrite Qeq_bool_inject. replace (au =? 0) with false by (symmetry; apply Z.eqb_neq; lia). reflexivity.
      + unfold amp_v. etransitivity; [apply (amp_v_nth i n W Hnl)|]. fold vn. now rewrite Evn.
      + exact Eau. }
  rewrite Ephys.
  exists (fun s c => (inject_Z (unwh (ai_wmi i) t s c) * (v0 / inject_Z au) * factor)%Q). split; [|split].
  - intros s c Hs Hc. rewrite (nth_map_in _ wf_n s [] []) by (unfold wf_n; now rewrite matmul_length).
    rewrite nth_error_map.
    assert (Hrow : length (nth s t []) = length (ai_wmi i)).
    { rewrite forallb_forall in Hrows. specialize (Hrows (nth s t []) (nth_In _ _ Hs)). now apply Nat.eqb_eq. }
    assert (Hlen : length (nth s wf_n []) = length (ai_wmi i)).
    { unfold wf_n, matmulZ. rewrite (nth_map_in _ t s [] []) by exact Hs. now rewrite map_length, seq_length. }
    rewrite (nth_error_nth_lt _ c 0) by lia. cbn [option_map].
    change (nth c (nth s wf_n []) 0) with (entry wf_n s c). unfold wf_n. rewrite matmul_entry by assumption. reflexivity.
  - unfold wf_n. now rewrite map_length, matmul_length.
  - apply (IsPeakAmpQ_eq _ _ _ (inject_Z au * K)%Q); [unfold K; field; exact Hau0|].
    apply (scale_peak (unwh (ai_wmi i) t)); [intros s c; unfold K, Qdiv; ring|exact HK|exact Hau].
Qed.

(* ================= NaN exactly for the ids without spikes ================= *)
Lemma members_nil_iff {A} x n (w : list A) : length w = length x ->
  (members x n w = [] <-> ~ In (Z.of_nat n) x).
Proof.
  intros Hl. split.
  - intros E Hin. apply (f_equal (@length A)) in E. rewrite members_length in E by exact Hl. cbn in E.
    assert (H : In (Z.of_nat n) (filter (fun s => s =? Z.of_nat n) x)) by (apply filter_In; split; [exact Hin|apply Z.eqb_refl]).
    destruct (filter (fun s => s =? Z.of_nat n) x); [destruct H|discriminate].
  - intros Hn. apply length_zero_iff_nil. rewrite members_length by exact Hl.
    apply length_zero_iff_nil. destruct (filter (fun s => s =? Z.of_nat n) x) as [|y r] eqn:E; [reflexivity|].
    assert (H : In y (filter (fun s => s =? Z.of_nat n) x)) by (rewrite E; now left).
    apply filter_In in H as [H1 H2]. apply Z.eqb_eq in H2. subst y. contradiction.
Qed.

Theorem empty_ids_nan_thm : forall (i : amp_in) (factor : Q) (o : amp_out QN) (n : nat),
  amplitudes_true_Q i (QF factor) = Some o -> (n < length (ai_data i))%nat ->
  (nth_error (ao_tamps o) n = Some None <-> ~ In (Z.of_nat n) (ai_spikes i)).
Proof.
  intros i factor o n H Hn. pose proof (template_amps_thm i factor o H) as [L S].
  specialize (S n Hn). cbn zeta in S.
  destruct (amplitudes_true_Q_unfold _ _ _ H) as (Ewf & Es & _ & _).
  pose proof (wf_amp_WF i Ewf) as W.
  assert (Hl : length (ao_spike o) = length (ai_spikes i)).
  { rewrite Es. unfold out_spike. rewrite map_length. now apply spike_amps_Z_length. }
  rewrite <- (members_nil_iff (ai_spikes i) n (ao_spike o) Hl).
  rewrite (nth_error_nth_lt (ao_tamps o) n (Some 0%Q)) by lia.
  destruct (nth n (ao_tamps o) (Some 0%Q)) as [v|].
  - destruct S as [S _]. split; [discriminate|contradiction].
  - split; [intros _; exact S|reflexivity].
Qed.

Theorem rescaled_nan_thm : forall (i : amp_in) (factor : Q) (o : amp_out QN) (n : nat),
  amplitudes_true_Q i (QF factor) = Some o -> nth_error (ao_tamps o) n = Some None ->
  forall row x, In row (nth n (ao_phys o) []) -> In x row -> x = None.
Proof.
  intros i factor o n H Hv row x Hrow Hx.
  destruct (amplitudes_true_Q_unfold _ _ _ H) as (Ewf & _ & Et & Ep). rewrite Ep in Hrow. rewrite Et in Hv. clear Et Ep.
  pose proof (wf_amp_WF i Ewf) as W. destruct (amp_sums_counts i W) as (L1 & L2 & _).
  assert (Hn : (n < length (ai_data i))%nat).
  { apply nth_error_some_lt in Hv. unfold out_tamps, amp_v in Hv. rewrite map_length, map2_length in Hv; lia. }
  unfold out_tamps in Hv. rewrite nth_error_map in Hv.
  destruct (nth_error (amp_v i) n) as [vn|] eqn:Evn; [|discriminate]. cbn [option_map] in Hv.
  destruct vn as [v0|]; [discriminate|].
  destruct (nth_error_lt_some (templates_wfs i) n) as [t' Ht']; [now rewrite templates_wfs_length|].
  destruct (nth_error_lt_some (amps_au i) n) as [a Ha]; [now rewrite amps_au_length|].
  assert (E : nth n (out_phys i (QF factor)) [] = map (map (fun w => q_mul (q_mul (q_ofZ w) None) (QF factor))) t').
  { apply nth_error_nth'. unfold out_phys. rewrite (map2_nth_error _ _ _ n t' (None : QN)); [reflexivity|exact Ht'|].
    rewrite (map2_nth_error _ _ _ n (None : QN) a); [reflexivity|exact Evn|exact Ha]. }
  rewrite E in Hrow.
  apply in_map_iff in Hrow as (r & <- & _). apply in_map_iff in Hx as (w & <- & _). reflexivity.
Qed.

(* inside the guard the model does not fail *)
Lemma amplitudes_true_total i f : wf_amp i = true -> exists o, amplitudes_true_Q i f = Some o.
Proof. intros H. unfold amplitudes_true_Q, amplitudes_true. rewrite H. cbn [negb]. eexists. reflexivity. Qed.
