(* C09/Spec2.v -- stage 3 additions to the declarative side (Spec.v itself is unchanged: C14 depends on it).
   * what get_amplitudes_true returns OUTSIDE the guards of C09_rescaled_peak (negative mean amplitude, flat
     template), so that the boundary of that theorem is a statement and not prose;
   * the outcome of get_depths for a feature store loaded without pc_feature_ind.npy (sparse_features.cols is
     None), and of _channels / get_amplitudes_true on sparse templates (template_ind.npy): these are outside the
     quantifier of the property ("all dense datasets") and are modelled only as far as their outcome. *)
From Coq Require Import ZArith QArith Qabs List Bool.
From PV Require Import C09.Model C09.Spec.
Import ListNotations.
Open Scope Z_scope.

(* The rescaled template n is the unwhitened template times the scale K = v / au (v = per-template amplitude,
   au = largest channel peak-to-peak of the unwhitened template, au > 0), whatever the sign of v, and its
   largest channel peak-to-peak is |v|. *)
Definition Spec_rescaled_abs (i : amp_in) (t : mat) (au : Z) (v : Q) (phys : list (list QN)) : Prop :=
  exists (K : Q) (f : nat -> nat -> Q),
    (K * inject_Z au == v)%Q /\
    (forall s c, f s c == inject_Z (unwh (ai_wmi i) t s c) * K)%Q /\
    (forall s c, (s < length t)%nat -> (c < length (ai_wmi i))%nat ->
       nth_error (nth s phys []) c = Some (Some (f s c))) /\
    length phys = length t /\
    IsPeakAmpQ f (length t) (length (ai_wmi i)) (Qabs v).

(* every entry of an (ns, nc) table is NaN -- and the table has its full shape *)
Definition AllNaN (ns nc : nat) (phys : list (list QN)) : Prop :=
  length phys = ns /\ forall row, In row phys -> length row = nc /\ forall x, In x row -> x = None.

(* ---------- get_depths when the feature store has no column table ---------- *)
(* _load_features sets cols = None when pc_feature_ind.npy is absent ("features are dense"); get_depths then
   evaluates self.sparse_features.cols[...] -> TypeError -- unless the early exit (row count != n_spikes)
   is taken first.  Outcomes: None = raises; Some None = the method returns None. *)
Definition get_depths_nocols (nspikes nrows : Z) : option (option (list QN)) :=
  if nrows =? nspikes then None else Some None.

(* ---------- sparse templates (template_ind.npy present) ---------- *)
(* get_amplitudes_true: `if sparse.cols:` -- the truth value of an array (ValueError when it has more than one
   element, NotImplementedError when its single element is non-zero): the call raises.
   _channels: sparse.cols[:, 0] ("the first channel is the highest amplitude channel"). *)
Definition channels_sparse (cols : mat) : list Z := map (fun r => nth 0 r 0) cols.

(* ---------- completeness side of the checkers ---------- *)
(* (the checkers themselves are in Spec.v: peak_channels_b, nan_iff_empty_b) *)
