(* C09/Spec.v -- the property, declaratively: maxima / minima / first arg-extrema as predicates, the
   unwhitened template as an explicit sum, per-id means as "mean * count = sum over the members",
   depths as "depth * sum(w) = sum(y * w)".  Nothing here mentions bincount, matmul, flatten or the
   batch loop.  Plus the boolean checkers Corr.v runs on observed outputs. *)
From Coq Require Import ZArith QArith List Bool Sorted.
From PV Require Import C09.Model.
Import ListNotations.
Open Scope Z_scope.

(* ---------- extreme values, declaratively ---------- *)
Definition IsMax (m : Z) (l : list Z) : Prop := In m l /\ forall x, In x l -> x <= m.
Definition IsMin (m : Z) (l : list Z) : Prop := In m l /\ forall x, In x l -> m <= x.
(* np.argmax / np.argmin: the first position holding the extreme value *)
Definition IsArgmaxFirst (i : nat) (l : list Z) : Prop :=
  (i < length l)%nat /\ (forall j, (j < length l)%nat -> nth j l 0 <= nth i l 0) /\
  (forall j, (j < i)%nat -> nth j l 0 < nth i l 0).
Definition IsArgminFirst (i : nat) (l : list Z) : Prop :=
  (i < length l)%nat /\ (forall j, (j < length l)%nat -> nth i l 0 <= nth j l 0) /\
  (forall j, (j < i)%nat -> nth i l 0 < nth j l 0).

(* entry (row r, column c) of a stored 2-d array *)
Definition entry (t : mat) (r c : nat) : Z := nth c (nth r t []) 0.
(* the unwhitened template: (t . wmi)[s][c] = sum_k t[s][k] * wmi[k][c] *)
Definition unwh (wmi t : mat) (s c : nat) : Z :=
  zsum (map (fun k => entry t s k * entry wmi k c) (seq 0 (length wmi))).
Definition column (f : nat -> nat -> Z) (ns c : nat) : list Z := map (fun s => f s c) (seq 0 ns).

(* p is the peak-to-peak (max - min over the ns samples) of channel c of the table f *)
Definition IsPtp (f : nat -> nat -> Z) (ns c : nat) (p : Z) : Prop :=
  exists hi lo, IsMax hi (column f ns c) /\ IsMin lo (column f ns c) /\ p = hi - lo.
(* ps lists the peak-to-peak of each of the nc channels *)
Definition IsPtpList (f : nat -> nat -> Z) (ns nc : nat) (ps : list Z) : Prop :=
  length ps = nc /\ forall c, (c < nc)%nat -> IsPtp f ns c (nth c ps 0).
(* a is the largest channel peak-to-peak *)
Definition IsPeakAmp (f : nat -> nat -> Z) (ns nc : nat) (a : Z) : Prop :=
  exists ps, IsPtpList f ns nc ps /\ IsMax a ps.
(* c is the peak channel: the first channel with the largest peak-to-peak *)
Definition IsPeakChannel (f : nat -> nat -> Z) (ns nc : nat) (c : nat) : Prop :=
  exists ps, IsPtpList f ns nc ps /\ IsArgmaxFirst c ps.

(* the same notions on exact rationals *)
Definition IsMaxQ (m : Q) (l : list Q) : Prop := (exists x, In x l /\ x == m)%Q /\ forall x, In x l -> (x <= m)%Q.
Definition IsMinQ (m : Q) (l : list Q) : Prop := (exists x, In x l /\ x == m)%Q /\ forall x, In x l -> (m <= x)%Q.
Definition columnQ (f : nat -> nat -> Q) (ns c : nat) : list Q := map (fun s => f s c) (seq 0 ns).
Definition IsPtpQ (f : nat -> nat -> Q) (ns c : nat) (p : Q) : Prop :=
  exists hi lo, IsMaxQ hi (columnQ f ns c) /\ IsMinQ lo (columnQ f ns c) /\ (p == hi - lo)%Q.
Definition IsPeakAmpQ (f : nat -> nat -> Q) (ns nc : nat) (a : Q) : Prop :=
  exists ps, length ps = nc /\ (forall c, (c < nc)%nat -> IsPtpQ f ns c (nth c ps 0%Q)) /\ IsMaxQ a ps.

(* ---------- get_amplitudes_true ---------- *)
(* scaled spike amplitude = stored amplitude * largest channel peak-to-peak of the spike's unwhitened
   template * unit factor *)
Definition Spec_spike_amps (i : amp_in) (factor : Q) (out : list QN) : Prop :=
  length out = length (ai_spikes i) /\
  forall k s a, nth_error (ai_spikes i) k = Some s -> nth_error (ai_amps i) k = Some a ->
    exists t au q, nth_error (ai_data i) (Z.to_nat s) = Some t /\
      IsPeakAmp (unwh (ai_wmi i) t) (length t) (length (ai_wmi i)) au /\
      nth_error out k = Some (Some q) /\ (q == inject_Z a * inject_Z au * factor)%Q.

(* values attached to the spikes assigned to id n, in spike order *)
Definition members {A} (spikes : list Z) (n : nat) (vals : list A) : list A :=
  map snd (filter (fun p => fst p =? Z.of_nat n) (combine spikes vals)).
Definition qsum (l : list QN) : QN := fold_right q_add (Some 0%Q) l.
(* one entry per waveform; NaN exactly for the ids without spikes (whichever id that is); otherwise
   the mean of the scaled amplitudes of the member spikes *)
Definition Spec_template_amps (i : amp_in) (spike_out tamps : list QN) : Prop :=
  length tamps = length (ai_data i) /\
  forall n, (n < length (ai_data i))%nat ->
    let mem := members (ai_spikes i) n spike_out in
    match nth n tamps (Some 0%Q) with
    | None => mem = []
    | Some v => mem <> [] /\ exists sum, qsum mem = Some sum /\ (v * inject_Z (zlen mem) == sum)%Q
    end.

(* the rescaled template n is the unwhitened template times a non-negative scale, and its largest
   channel peak-to-peak is exactly the per-template amplitude v *)
Definition Spec_rescaled (i : amp_in) (n : nat) (t : mat) (v : Q) (phys : list (list QN)) : Prop :=
  exists f : nat -> nat -> Q,
    (forall s c, (s < length t)%nat -> (c < length (ai_wmi i))%nat ->
       nth_error (nth s phys []) c = Some (Some (f s c))) /\
    length phys = length t /\
    IsPeakAmpQ f (length t) (length (ai_wmi i)) v.

(* ---------- _amplitudes ---------- *)
Definition Spec_mean_amps (tmp amps : list Z) (out : list QN) : Prop :=
  exists ids, StronglySorted Z.lt ids /\ (forall x, In x ids <-> In x tmp) /\ length out = length ids /\
    forall j id, nth_error ids j = Some id ->
      let mem := map snd (filter (fun p => fst p =? id) (combine tmp amps)) in
      exists q, nth_error out j = Some (Some q) /\ mem <> [] /\ (q * inject_Z (zlen mem) == inject_Z (zsum mem))%Q.

(* ---------- _channels, templates_probes ---------- *)
Definition Spec_channels (nc : nat) (data : list mat) (out : list Z) : Prop :=
  length out = length data /\
  forall n t, nth_error data n = Some t ->
    exists c, nth_error out n = Some (Z.of_nat c) /\ IsPeakChannel (entry t) (length t) nc c.
Definition Spec_probes (nc : nat) (data : list mat) (probes out : list Z) : Prop :=
  length out = length data /\
  forall n t, nth_error data n = Some t ->
    exists c, IsPeakChannel (entry t) (length t) nc c /\ nth_error out n = nth_error probes c.

(* ---------- _waveform_durations ---------- *)
Definition Spec_durations (nc : nat) (data : list mat) (rate : Q) (out : list QN) : Prop :=
  length out = length data /\
  forall n t, nth_error data n = Some t ->
    exists c imax imin q, IsPeakChannel (entry t) (length t) nc c /\
      IsArgmaxFirst imax (column (entry t) (length t) c) /\
      IsArgminFirst imin (column (entry t) (length t) c) /\
      nth_error out n = Some (Some q) /\
      (q == inject_Z (Z.of_nat imax - Z.of_nat imin) / rate * inject_Z 1000)%Q.

(* ---------- get_depths ---------- *)
(* weight of local channel c of spike k: the positive part of the first principal component, squared *)
Definition dweight (data : list mat) (k c : nat) : Z :=
  let x := Z.max (nth 0 (nth c (nth k data []) []) 0) 0 in x * x.
(* y coordinate of local channel c of spike k: channel_positions[cols[spike_templates[k]][c]][1] *)
Definition dypos (i : depth_in) (cols : mat) (k c : nat) : Z :=
  entry (di_pos i) (Z.to_nat (entry cols (Z.to_nat (nth k (di_st i) 0)) c)) 1.
Definition Spec_depths (i : depth_in) (data : list mat) (cols : mat) (out : list QN) : Prop :=
  length out = length data /\
  forall k, (k < length data)%nat ->
    let ncl := length (nth k data []) in
    let S := zsum (map (dweight data k) (seq 0 ncl)) in
    let W := zsum (map (fun c => dypos i cols k c * dweight data k c) (seq 0 ncl)) in
    match nth k out (Some 0%Q) with
    | None => S = 0
    | Some q => S <> 0 /\ (q * inject_Z S == inject_Z W)%Q
    end.

(* ================= boolean checkers used by Corr.v ================= *)
(* finite.[n] = false  <->  no spike is assigned to id n; one flag per waveform *)
Definition nan_iff_empty_b (i : amp_in) (finite : list bool) : bool :=
  Nat.eqb (length finite) (length (ai_data i)) &&
  forallb (fun n => Bool.eqb (nth n finite true) (existsb (fun s => s =? Z.of_nat n) (ai_spikes i)))
          (seq 0 (length (ai_data i))).

Definition ptp_of (t : mat) (c : nat) : Z := lmax (colZ c t) - lmin (colZ c t).
(* c is in range, no channel has a larger peak-to-peak, every earlier channel has a smaller one *)
Definition peak_channel_b (nc : nat) (t : mat) (c : Z) : bool :=
  (0 <=? c) && (c <? Z.of_nat nc) &&
  forallb (fun c' => (ptp_of t c' <=? ptp_of t (Z.to_nat c)) &&
                     (negb (Z.of_nat c' <? c) || (ptp_of t c' <? ptp_of t (Z.to_nat c)))) (seq 0 nc).
Fixpoint all2 {A B} (f : A -> B -> bool) (a : list A) (b : list B) : bool :=
  match a, b with
  | [], [] => true
  | x :: a', y :: b' => f x y && all2 f a' b'
  | _, _ => false
  end.
Definition peak_channels_b (nc : nat) (data : list mat) (out : list Z) : bool :=
  all2 (peak_channel_b nc) data out.
