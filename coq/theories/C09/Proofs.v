(* C09/Proofs.v -- list / extreme-value / matmul / bincount lemmas and the theorems about
   get_amplitudes_true (spike amplitudes, per-template amplitudes, rescaled templates). *)
From Coq Require Import ZArith QArith List Bool Lia Arith Sorted.
From PV Require Import C09.Model C09.Spec.
Import ListNotations.
Open Scope Z_scope.

(* ================= generic list facts ================= *)
Lemma map_nth_seq {A B} (f : A -> B) (l : list A) (d : A) :
  map f l = map (fun s => f (nth s l d)) (seq 0 (length l)).
Proof.
  induction l as [|x r IH]; [reflexivity|]. cbn [length seq map nth]. f_equal.
  rewrite <- seq_shift, map_map. exact IH.
Qed.

Lemma nth_error_nth' {A} (l : list A) k x d : nth_error l k = Some x -> nth k l d = x.
Proof. revert k; induction l as [|y r IH]; intros [|k] H; cbn in *; try discriminate; [congruence|auto]. Qed.

Lemma nth_error_some_lt {A} (l : list A) k x : nth_error l k = Some x -> (k < length l)%nat.
Proof. intros H. apply nth_error_Some. congruence. Qed.

Lemma nth_error_lt_some {A} (l : list A) k : (k < length l)%nat -> exists x, nth_error l k = Some x.
Proof. intros H. destruct (nth_error l k) eqn:E; [eauto|]. apply nth_error_None in E. lia. Qed.

Lemma map2_length {A B C} (f : A -> B -> C) a b : length a = length b -> length (map2 f a b) = length a.
Proof. revert b; induction a as [|x r IH]; intros [|y b'] H; cbn in *; try discriminate; auto. Qed.

Lemma map2_nth_error {A B C} (f : A -> B -> C) a b k x y :
  nth_error a k = Some x -> nth_error b k = Some y -> nth_error (map2 f a b) k = Some (f x y).
Proof.
  revert b k; induction a as [|x' r IH]; intros [|y' b'] [|k] Ha Hb; cbn in *; try discriminate.
  - congruence.
  - eauto.
Qed.

Lemma combine_seq_nth_error {A} (l : list A) a k x :
  nth_error l k = Some x -> nth_error (combine (seq a (length l)) l) k = Some ((a + k)%nat, x).
Proof.
  revert a k; induction l as [|y r IH]; intros a [|k] H; cbn in *; try discriminate.
  - injection H as ->. now rewrite Nat.add_0_r.
  - rewrite (IH (S a) k H). do 2 f_equal. lia.
Qed.

Lemma nth_map_seq {B} (f : nat -> B) n c d : (c < n)%nat -> nth c (map f (seq 0 n)) d = f c.
Proof.
  intros H. rewrite (nth_indep _ d (f O)) by (now rewrite map_length, seq_length).
  rewrite map_nth, seq_nth by exact H. reflexivity.
Qed.
Lemma nth_map_in {A B} (f : A -> B) l k d d' : (k < length l)%nat -> nth k (map f l) d = f (nth k l d').
Proof. intros H. rewrite (nth_indep _ d (f d')) by (now rewrite map_length). apply map_nth. Qed.

Lemma forallb_nth_error {A} (p : A -> bool) l k x : forallb p l = true -> nth_error l k = Some x -> p x = true.
Proof. intros H E. rewrite forallb_forall in H. apply H. eapply nth_error_In; eauto. Qed.

(* ================= extreme values ================= *)
Lemma fold_max_ge l a : a <= fold_left Z.max l a.
Proof. revert a; induction l as [|x r IH]; intros a; cbn [fold_left]; [lia|]. specialize (IH (Z.max a x)). lia. Qed.
Lemma fold_max_all l a x : In x l -> x <= fold_left Z.max l a.
Proof.
  revert a; induction l as [|y r IH]; intros a; cbn [fold_left In]; [tauto|].
  intros [->|H]; [pose proof (fold_max_ge r (Z.max a x)); lia|auto].
Qed.
Lemma fold_max_in l a : fold_left Z.max l a = a \/ In (fold_left Z.max l a) l.
Proof.
  revert a; induction l as [|y r IH]; intros a; cbn [fold_left In]; [now left|].
  destruct (IH (Z.max a y)) as [H|H]; [|right; now right].
  rewrite H. destruct (Z.max_spec a y) as [[_ ->]|[_ ->]]; [right; now left|now left].
Qed.
Lemma lmax_IsMax l : l <> [] -> IsMax (lmax l) l.
Proof.
  destruct l as [|x r]; [congruence|]. intros _. unfold lmax. split.
  - destruct (fold_max_in r x) as [->|H]; [now left|now right].
  - intros y [<-|H]; [apply fold_max_ge|now apply fold_max_all].
Qed.

Lemma fold_min_le l a : fold_left Z.min l a <= a.
Proof. revert a; induction l as [|x r IH]; intros a; cbn [fold_left]; [lia|]. specialize (IH (Z.min a x)). lia. Qed.
Lemma fold_min_all l a x : In x l -> fold_left Z.min l a <= x.
Proof.
  revert a; induction l as [|y r IH]; intros a; cbn [fold_left In]; [tauto|].
  intros [->|H]; [pose proof (fold_min_le r (Z.min a x)); lia|auto].
Qed.
Lemma fold_min_in l a : fold_left Z.min l a = a \/ In (fold_left Z.min l a) l.
Proof.
  revert a; induction l as [|y r IH]; intros a; cbn [fold_left In]; [now left|].
  destruct (IH (Z.min a y)) as [H|H]; [|right; now right].
  rewrite H. destruct (Z.min_spec a y) as [[_ ->]|[_ ->]]; [now left|right; now left].
Qed.
Lemma lmin_IsMin l : l <> [] -> IsMin (lmin l) l.
Proof.
  destruct l as [|x r]; [congruence|]. intros _. unfold lmin. split.
  - destruct (fold_min_in r x) as [->|H]; [now left|now right].
  - intros y [<-|H]; [apply fold_min_le|now apply fold_min_all].
Qed.

Lemma IsMax_unique a b l : IsMax a l -> IsMax b l -> a = b.
Proof. intros [Ha1 Ha2] [Hb1 Hb2]. specialize (Ha2 b Hb1). specialize (Hb2 a Ha1). lia. Qed.
Lemma IsMin_unique a b l : IsMin a l -> IsMin b l -> a = b.
Proof. intros [Ha1 Ha2] [Hb1 Hb2]. specialize (Ha2 b Hb1). specialize (Hb2 a Ha1). lia. Qed.

(* first arg-extrema: invariant of the scan *)
Lemma argmax_from_spec (pre : list Z) best bi l :
  (bi < length pre)%nat -> nth bi pre 0 = best ->
  (forall j, (j < length pre)%nat -> nth j pre 0 <= best) ->
  (forall j, (j < bi)%nat -> nth j pre 0 < best) ->
  IsArgmaxFirst (argmax_from best bi (length pre) l) (pre ++ l).
Proof.
  revert pre best bi; induction l as [|x r IH]; intros pre best bi Hbi Hb Hall Hfirst; cbn [argmax_from].
  - rewrite app_nil_r. split; [exact Hbi|]. split; intros j Hj; rewrite Hb; auto.
  - replace (pre ++ x :: r) with ((pre ++ [x]) ++ r) by (now rewrite <- app_assoc).
    replace (S (length pre)) with (length (pre ++ [x])) by (rewrite app_length; cbn; lia).
    destruct (best <? x) eqn:E.
    + apply IH.
      * rewrite app_length; cbn; lia.
      * rewrite app_nth2 by lia. now rewrite Nat.sub_diag.
      * intros j Hj. rewrite app_length in Hj; cbn in Hj.
        destruct (Nat.eq_dec j (length pre)) as [->|Hn].
        -- rewrite app_nth2 by lia. rewrite Nat.sub_diag. cbn. lia.
        -- rewrite app_nth1 by lia. specialize (Hall j ltac:(lia)). lia.
      * intros j Hj. rewrite app_nth1 by lia. specialize (Hall j Hj). lia.
    + apply IH.
      * rewrite app_length; cbn; lia.
      * rewrite app_nth1 by lia. exact Hb.
      * intros j Hj. rewrite app_length in Hj; cbn in Hj.
        destruct (Nat.eq_dec j (length pre)) as [->|Hn].
        -- rewrite app_nth2 by lia. rewrite Nat.sub_diag. cbn. lia.
        -- rewrite app_nth1 by lia. apply Hall. lia.
      * intros j Hj. rewrite app_nth1 by lia. now apply Hfirst.
Qed.
Lemma argmax_first l : l <> [] -> IsArgmaxFirst (argmax l) l.
Proof.
  destruct l as [|x r]; [congruence|]. intros _. unfold argmax.
  apply (argmax_from_spec [x] x 0 r); cbn; try lia; try reflexivity.
  - intros [|j] Hj; [lia|lia].
Qed.

Lemma argmin_from_spec (pre : list Z) best bi l :
  (bi < length pre)%nat -> nth bi pre 0 = best ->
  (forall j, (j < length pre)%nat -> best <= nth j pre 0) ->
  (forall j, (j < bi)%nat -> best < nth j pre 0) ->
  IsArgminFirst (argmin_from best bi (length pre) l) (pre ++ l).
Proof.
  revert pre best bi; induction l as [|x r IH]; intros pre best bi Hbi Hb Hall Hfirst; cbn [argmin_from].
  - rewrite app_nil_r. split; [exact Hbi|]. split; intros j Hj; rewrite Hb; auto.
  - replace (pre ++ x :: r) with ((pre ++ [x]) ++ r) by (now rewrite <- app_assoc).
    replace (S (length pre)) with (length (pre ++ [x])) by (rewrite app_length; cbn; lia).
    destruct (x <? best) eqn:E.
    + apply IH.
      * rewrite app_length; cbn; lia.
      * rewrite app_nth2 by lia. now rewrite Nat.sub_diag.
      * intros j Hj. rewrite app_length in Hj; cbn in Hj.
        destruct (Nat.eq_dec j (length pre)) as [->|Hn].
        -- rewrite app_nth2 by lia. rewrite Nat.sub_diag. cbn. lia.
        -- rewrite app_nth1 by lia. specialize (Hall j ltac:(lia)). lia.
      * intros j Hj. rewrite app_nth1 by lia. specialize (Hall j Hj). lia.
    + apply IH.
      * rewrite app_length; cbn; lia.
      * rewrite app_nth1 by lia. exact Hb.
      * intros j Hj. rewrite app_length in Hj; cbn in Hj.
        destruct (Nat.eq_dec j (length pre)) as [->|Hn].
        -- rewrite app_nth2 by lia. rewrite Nat.sub_diag. cbn. lia.
        -- rewrite app_nth1 by lia. apply Hall. lia.
      * intros j Hj. rewrite app_nth1 by lia. now apply Hfirst.
Qed.
Lemma argmin_first l : l <> [] -> IsArgminFirst (argmin l) l.
Proof.
  destruct l as [|x r]; [congruence|]. intros _. unfold argmin.
  apply (argmin_from_spec [x] x 0 r); cbn; try lia; try reflexivity.
  - intros [|j] Hj; [lia|lia].
Qed.

(* ================= peak-to-peak of a stored waveform ================= *)
Lemma colZ_column t c : colZ c t = column (entry t) (length t) c.
Proof. unfold colZ, column, entry. apply (map_nth_seq (fun r => nth c r 0) t []). Qed.

Lemma column_ext f g ns c : (forall s, (s < ns)%nat -> f s c = g s c) -> column f ns c = column g ns c.
Proof. intros H. unfold column. apply map_ext_in. intros s Hs. apply in_seq in Hs. apply H. lia. Qed.

Lemma column_nonempty f ns c : (1 <= ns)%nat -> column f ns c <> [].
Proof. intros H E. apply (f_equal (@length Z)) in E. unfold column in E. rewrite map_length, seq_length in E. cbn in E. lia. Qed.

Lemma ch_amps_ptp t nc : (1 <= length t)%nat -> IsPtpList (entry t) (length t) nc (ch_amps nc t).
Proof.
  intros Hns. unfold ch_amps. split; [now rewrite map_length, seq_length|].
  intros c Hc. rewrite nth_map_seq by exact Hc. rewrite colZ_column.
  exists (lmax (column (entry t) (length t) c)), (lmin (column (entry t) (length t) c)).
  split; [apply lmax_IsMax; now apply column_nonempty|]. split; [apply lmin_IsMin; now apply column_nonempty|reflexivity].
Qed.

Lemma IsPtp_ext f g ns c p : (forall s, (s < ns)%nat -> f s c = g s c) -> IsPtp f ns c p -> IsPtp g ns c p.
Proof. intros H (hi & lo & H1 & H2 & H3). exists hi, lo. now rewrite <- (column_ext f g ns c H). Qed.
Lemma IsPtpList_ext f g ns nc ps :
  (forall s c, (s < ns)%nat -> (c < nc)%nat -> f s c = g s c) -> IsPtpList f ns nc ps -> IsPtpList g ns nc ps.
Proof. intros H [H1 H2]. split; [exact H1|]. intros c Hc. apply (IsPtp_ext f g); [intros s Hs; now apply H|now apply H2]. Qed.

(* ================= matmul = the explicit sum ================= *)
Lemma dotZ_spec row (m : mat) c : length row = length m ->
  dotZ row (colZ c m) = zsum (map (fun k => nth k row 0 * entry m k c) (seq 0 (length m))).
Proof.
  revert row; induction m as [|r m' IH]; intros [|x row'] H; cbn in H; try discriminate; [reflexivity|].
  cbn [colZ map dotZ length seq zsum fold_right]. unfold entry at 1. cbn [nth].
  f_equal. fold (colZ c m'). rewrite (IH row') by lia. unfold zsum. f_equal.
  rewrite <- seq_shift, map_map. apply map_ext. intros k. reflexivity.
Qed.

Lemma matmul_entry t wmi s c :
  (s < length t)%nat -> (c < length wmi)%nat -> length (nth s t []) = length wmi ->
  entry (matmulZ t wmi (length wmi)) s c = unwh wmi t s c.
Proof.
  intros Hs Hc Hr. unfold entry, matmulZ.
  rewrite (nth_map_in _ t s [] []) by exact Hs. rewrite nth_map_seq by exact Hc.
  rewrite dotZ_spec by exact Hr. reflexivity.
Qed.

Lemma matmul_length t wmi nc : length (matmulZ t wmi nc) = length t.
Proof. unfold matmulZ. now rewrite map_length. Qed.

(* the peak amplitude of an unwhitened waveform *)
Lemma unwhitened_peak t wmi :
  (1 <= length t)%nat -> (1 <= length wmi)%nat -> forallb (row_ok (length wmi)) t = true ->
  IsPeakAmp (unwh wmi t) (length t) (length wmi) (lmax (ch_amps (length wmi) (matmulZ t wmi (length wmi)))).
Proof.
  intros Hns Hnc Hrows. set (t' := matmulZ t wmi (length wmi)).
  exists (ch_amps (length wmi) t'). split.
  - assert (Hl : length t' = length t) by apply matmul_length.
    rewrite <- Hl. apply (IsPtpList_ext (entry t')); [|apply ch_amps_ptp; lia].
    intros s c Hs Hc. rewrite Hl in Hs. apply matmul_entry; [exact Hs|exact Hc|].
    rewrite forallb_forall in Hrows. specialize (Hrows (nth s t []) (nth_In _ _ Hs)).
    unfold row_ok in Hrows. now apply Nat.eqb_eq.
  - apply lmax_IsMax. unfold ch_amps. intros E. apply (f_equal (@length Z)) in E.
    rewrite map_length, seq_length in E. cbn in E. lia.
Qed.

(* ================= wf_amp unpacked ================= *)
Record WF (i : amp_in) : Prop := {
  wf_nc : (1 <= length (ai_wmi i))%nat;
  wf_data : forall t, In t (ai_data i) -> (1 <= length t)%nat /\ forallb (row_ok (length (ai_wmi i))) t = true;
  wf_nwav : 0 <= ai_nwav i <= zlen (ai_data i);
  wf_spikes : forall s, In s (ai_spikes i) -> 0 <= s < zlen (ai_data i);
  wf_len : length (ai_amps i) = length (ai_spikes i)
}.
Lemma wf_amp_WF i : wf_amp i = true -> WF i.
Proof.
  unfold wf_amp. rewrite !andb_true_iff. intros [[[[[[[H1 H2] H3] H4] H5] H6] H7] H8].
  constructor.
  - now apply Nat.leb_le.
  - intros t Ht. rewrite forallb_forall in H4. specialize (H4 t Ht). unfold wave_ok in H4.
    apply andb_true_iff in H4 as [Ha Hb]. split; [now apply Nat.leb_le|exact Hb].
  - lia.
  - intros s Hs. rewrite forallb_forall in H7. specialize (H7 s Hs). lia.
  - now apply Nat.eqb_eq.
Qed.

(* the arbitrary-unit amplitude of waveform n < n_wav *)
Lemma amps_au_nth i n t : WF i -> nth_error (ai_data i) n = Some t -> Z.of_nat n < ai_nwav i ->
  nth_error (amps_au i) n = Some (lmax (ch_amps (length (ai_wmi i)) (matmulZ t (ai_wmi i) (length (ai_wmi i))))).
Proof.
  intros W Ht Hn. unfold amps_au, templates_wfs. rewrite nth_error_map, nth_error_map.
  rewrite (combine_seq_nth_error _ 0 n t Ht). cbn [option_map fst snd Nat.add].
  replace (Z.of_nat n <? ai_nwav i) with true by (symmetry; apply Z.ltb_lt; exact Hn). reflexivity.
Qed.
Lemma amps_au_length i : length (amps_au i) = length (ai_data i).
Proof. unfold amps_au, templates_wfs. now rewrite !map_length, combine_length, seq_length, Nat.min_id. Qed.

(* ---------- C09_spike_amps ---------- *)
Definition QF (factor : Q) : QN := Some factor.

Theorem spike_amps_thm : forall (i : amp_in) (factor : Q) (o : amp_out QN),
  amplitudes_true_Q i (QF factor) = Some o ->
  (forall s, In s (ai_spikes i) -> s < ai_nwav i) ->
  Spec_spike_amps i factor (ao_spike o).
Proof.
  intros i factor o H Hlt. unfold amplitudes_true_Q, amplitudes_true in H.
  destruct (wf_amp i) eqn:Ewf; cbn [negb] in H; [|discriminate]. injection H as <-. cbn [ao_spike].
  pose proof (wf_amp_WF i Ewf) as W. split.
  - rewrite map_length. unfold spike_amps_Z. rewrite map2_length; [reflexivity|]. symmetry. apply (wf_len i W).
  - intros k s a Hs Ha.
    assert (Hin : In s (ai_spikes i)) by (eapply nth_error_In; eauto).
    pose proof (wf_spikes i W s Hin) as Hr. specialize (Hlt s Hin).
    destruct (nth_error_lt_some (ai_data i) (Z.to_nat s)) as [t Ht]; [unfold zlen in Hr; lia|].
    assert (Htin : In t (ai_data i)) by (eapply nth_error_In; eauto).
    destruct (wf_data i W t Htin) as [Hns Hrows].
    set (au := lmax (ch_amps (length (ai_wmi i)) (matmulZ t (ai_wmi i) (length (ai_wmi i))))).
    exists t, au, (inject_Z (au * a) * factor)%Q. split; [exact Ht|]. split.
    + apply unwhitened_peak; [exact Hns|apply (wf_nc i W)|exact Hrows].
    + split.
      * rewrite nth_error_map. unfold spike_amps_Z.
        rewrite (map2_nth_error _ _ _ k s a Hs Ha). cbn [option_map]. unfold q_mul, q_ofZ, QF.
        unfold nthZ. rewrite (nth_error_nth' (amps_au i) (Z.to_nat s) au 0); [reflexivity|].
        apply amps_au_nth; [exact W|exact Ht|lia].
      * rewrite !inject_Z_mult. ring.
Qed.
