(* C09/Proofs6.v -- stage 3: what get_amplitudes_true returns outside the guards of C09_rescaled_peak
   (any sign of the mean amplitude: peak = |v|; flat template: NaN everywhere, amplitude 0), and the
   completeness direction of the boolean checkers of Spec.v. *)
From Coq Require Import ZArith QArith Qabs List Bool Lia Arith.
From PV Require Import C09.Model C09.Spec C09.Spec2 C09.Proofs C09.Proofs2 C09.Proofs3 C09.Proofs5.
Import ListNotations.
Open Scope Z_scope.

(* ================= negating a table keeps its peak amplitude ================= *)
Lemma IsMax_neg hi l : IsMax hi l -> IsMin (- hi) (map Z.opp l).
Proof.
  intros [Hin Hall]. split; [now apply in_map|].
  intros x Hx. apply in_map_iff in Hx as (y & <- & Hy). specialize (Hall y Hy). lia.
Qed.
Lemma IsMin_neg lo l : IsMin lo l -> IsMax (- lo) (map Z.opp l).
Proof.
  intros [Hin Hall]. split; [now apply in_map|].
  intros x Hx. apply in_map_iff in Hx as (y & <- & Hy). specialize (Hall y Hy). lia.
Qed.
Lemma column_neg (U : nat -> nat -> Z) ns c : column (fun s c => - U s c) ns c = map Z.opp (column U ns c).
Proof. unfold column. now rewrite map_map. Qed.
Lemma IsPeakAmp_neg (U : nat -> nat -> Z) ns nc au :
  IsPeakAmp U ns nc au -> IsPeakAmp (fun s c => - U s c) ns nc au.
Proof.
  intros (ps & [L Hp] & Hm). exists ps. split; [|exact Hm]. split; [exact L|].
  intros c Hc. destruct (Hp c Hc) as (hi & lo & H1 & H2 & E).
  exists (- lo), (- hi). rewrite column_neg. split; [now apply IsMin_neg|]. split; [now apply IsMax_neg|]. lia.
Qed.

(* scaling a table by ANY K scales its largest channel peak-to-peak by |K| *)
Lemma scale_peak_abs (U : nat -> nat -> Z) (f : nat -> nat -> Q) (K : Q) ns nc au :
  (forall s c, f s c == inject_Z (U s c) * K)%Q ->
  IsPeakAmp U ns nc au -> IsPeakAmpQ f ns nc (inject_Z au * Qabs K).
Proof.
  intros Hf Hau. destruct (Qlt_le_dec K 0) as [Hneg|Hpos].
  - apply (IsPeakAmpQ_eq _ _ _ (inject_Z au * (- K))%Q).
    + rewrite (Qabs_neg K) by (apply Qlt_le_weak; exact Hneg). reflexivity.
    + apply (scale_peak (fun s c => - U s c)).
      * intros s c. rewrite Hf, inject_Z_opp. ring.
      * apply (Qopp_le_compat K 0). apply Qlt_le_weak. exact Hneg.
      * now apply IsPeakAmp_neg.
  - apply (IsPeakAmpQ_eq _ _ _ (inject_Z au * K)%Q).
    + rewrite (Qabs_pos K) by exact Hpos. reflexivity.
    + now apply (scale_peak U).
Qed.

(* ================= C09_rescaled_abs: the rescaled template for any sign of the amplitude ================= *)
Theorem rescaled_abs_thm : forall (i : amp_in) (factor : Q) (o : amp_out QN) (n : nat) (t : mat) (v : Q) (au : Z),
  amplitudes_true_Q i (QF factor) = Some o ->
  nth_error (ai_data i) n = Some t -> Z.of_nat n < ai_nwav i ->
  nth_error (ao_tamps o) n = Some (Some v) ->
  IsPeakAmp (unwh (ai_wmi i) t) (length t) (length (ai_wmi i)) au -> 0 < au ->
  Spec_rescaled_abs i t au v (nth n (ao_phys o) []).
Proof.
  intros i factor o n t v au H Ht Hn Hv Hau Hpos.
  destruct (amplitudes_true_Q_unfold _ _ _ H) as (Ewf & _ & Et & ->). rewrite Et in Hv. clear Et.
  pose proof (wf_amp_WF i Ewf) as W.
  assert (Hnl : (n < length (ai_data i))%nat) by (eapply nth_error_some_lt; eauto).
  assert (Htin : In t (ai_data i)) by (eapply nth_error_In; eauto).
  destruct (wf_data i W t Htin) as [Hns Hrows].
  pose proof (amps_au_nth i n t W Ht Hn) as Eau.
  rewrite <- (IsPeakAmp_unique _ _ _ _ _ Hau (unwhitened_peak t (ai_wmi i) Hns (wf_nc i W) Hrows)) in Eau.
  unfold out_tamps, amp_v in Hv. rewrite nth_error_map, (amp_v_nth i n W Hnl) in Hv. unfold option_map in Hv.
  set (vn := q_div _ _) in *. destruct vn as [v0|] eqn:Evn; unfold q_mul, QF in Hv; [|discriminate].
  injection Hv as <-.
  set (K := (v0 / inject_Z au * factor)%Q).
  assert (Hau0 : ~ (inject_Z au == 0)%Q) by (intros Hz; apply (proj1 (inject_Z_eq0 _)) in Hz; lia).
  set (wf_n := matmulZ t (ai_wmi i) (length (ai_wmi i))).
  assert (Ephys : nth n (out_phys i (QF factor)) []
                  = map (map (fun w => Some (inject_Z w * (v0 / inject_Z au) * factor)%Q)) wf_n).
  { apply nth_error_nth'. unfold out_phys.
    rewrite (map2_nth_error _ _ _ n wf_n (Some (v0 / inject_Z au)%Q)).
    - reflexivity.
    - now apply templates_wfs_nth.
    - rewrite (map2_nth_error _ _ _ n (Some v0) au).
      + unfold q_div, q_ofZ. rewrite Qeq_bool_inject. replace (au =? 0) with false by (symmetry; apply Z.eqb_neq; lia). reflexivity.
      + unfold amp_v. etransitivity; [apply (amp_v_nth i n W Hnl)|]. fold vn. now rewrite Evn.
      + exact Eau. }
  rewrite Ephys.
  exists K, (fun s c => (inject_Z (unwh (ai_wmi i) t s c) * (v0 / inject_Z au) * factor)%Q).
  split; [unfold K; field; exact Hau0|]. split; [intros s c; unfold K, Qdiv; ring|]. split; [|split].
  - intros s c Hs Hc. rewrite (nth_map_in _ wf_n s [] []) by (unfold wf_n; now rewrite matmul_length).
    rewrite nth_error_map.
    assert (Hrow : length (nth s t []) = length (ai_wmi i)).
    { rewrite forallb_forall in Hrows. specialize (Hrows (nth s t []) (nth_In _ _ Hs)). now apply Nat.eqb_eq. }
    assert (Hlen : length (nth s wf_n []) = length (ai_wmi i)).
    { unfold wf_n, matmulZ. rewrite (nth_map_in _ t s [] []) by exact Hs. now rewrite map_length, seq_length. }
    rewrite (nth_error_nth_lt _ c 0) by lia. cbn [option_map].
    change (nth c (nth s wf_n []) 0) with (entry wf_n s c). unfold wf_n. rewrite matmul_entry by assumption. reflexivity.
  - unfold wf_n. now rewrite map_length, matmul_length.
  - apply (IsPeakAmpQ_eq _ _ _ (inject_Z au * Qabs K)%Q).
    + assert (EK : (K == (v0 * factor) * / inject_Z au)%Q) by (unfold K; field; exact Hau0).
      rewrite EK, Qabs_Qmult.
      rewrite (Qabs_pos (/ inject_Z au)).
      * field. exact Hau0.
      * apply Qinv_le_0_compat. change (inject_Z 0 <= inject_Z au)%Q. rewrite <- Zle_Qle. lia.
    + apply (scale_peak_abs (unwh (ai_wmi i) t)); [intros s c; unfold K, Qdiv; ring|exact Hau].
Qed.

(* ================= C09_rescaled_flat: a flat template ================= *)
Lemma members_flat spikes amps (au : list Z) n : nthZ au (Z.of_nat n) = 0 ->
  zsum (members spikes n (map2 (fun s a => nthZ au s * a) spikes amps)) = 0.
Proof.
  intros H0. unfold members. revert amps; induction spikes as [|s r IH]; intros [|a amps']; cbn [map2 combine filter map zsum fold_right];
    try reflexivity.
  cbn [fst]. destruct (s =? Z.of_nat n) eqn:E.
  - cbn [map snd zsum fold_right]. apply Z.eqb_eq in E. subst s. rewrite H0.
    specialize (IH amps'). unfold zsum in IH. rewrite IH. lia.
  - apply IH.
Qed.

Theorem rescaled_flat_thm : forall (i : amp_in) (factor : Q) (o : amp_out QN) (n : nat) (t : mat),
  amplitudes_true_Q i (QF factor) = Some o ->
  nth_error (ai_data i) n = Some t -> Z.of_nat n < ai_nwav i ->
  IsPeakAmp (unwh (ai_wmi i) t) (length t) (length (ai_wmi i)) 0 ->
  AllNaN (length t) (length (ai_wmi i)) (nth n (ao_phys o) []) /\
  (In (Z.of_nat n) (ai_spikes i) -> exists v, nth_error (ao_tamps o) n = Some (Some v) /\ (v == 0)%Q).
Proof.
  intros i factor o n t H Ht Hn Hau.
  destruct (amplitudes_true_Q_unfold _ _ _ H) as (Ewf & _ & Et & Ep). rewrite Et, Ep. clear Et Ep.
  pose proof (wf_amp_WF i Ewf) as W.
  assert (Hnl : (n < length (ai_data i))%nat) by (eapply nth_error_some_lt; eauto).
  assert (Htin : In t (ai_data i)) by (eapply nth_error_In; eauto).
  destruct (wf_data i W t Htin) as [Hns Hrows].
  pose proof (amps_au_nth i n t W Ht Hn) as Eau.
  rewrite <- (IsPeakAmp_unique _ _ _ _ _ Hau (unwhitened_peak t (ai_wmi i) Hns (wf_nc i W) Hrows)) in Eau.
  set (wf_n := matmulZ t (ai_wmi i) (length (ai_wmi i))).
  split.
  - (* the ratio v / 0 is NaN whatever v is *)
    destruct (nth_error_lt_some (amp_v i) n) as [vn Hvn].
    { unfold amp_v. destruct (amp_sums_counts i W) as (L1 & L2 & _). rewrite map2_length; lia. }
    assert (Ephys : nth n (out_phys i (QF factor)) [] = map (map (fun w => (None : QN))) wf_n).
    { apply nth_error_nth'. unfold out_phys.
      rewrite (map2_nth_error _ _ _ n wf_n (None : QN)).
      - reflexivity.
      - now apply templates_wfs_nth.
      - rewrite (map2_nth_error _ _ _ n vn 0 Hvn Eau). destruct vn; reflexivity. }
    rewrite Ephys. split; [unfold wf_n; now rewrite map_length, matmul_length|].
    intros row Hrow. apply in_map_iff in Hrow as (r & <- & Hr). split.
    + rewrite map_length. unfold wf_n, matmulZ in Hr. apply in_map_iff in Hr as (r0 & <- & _).
      now rewrite map_length, seq_length.
    + intros x Hx. apply in_map_iff in Hx as (w & <- & _). reflexivity.
  - intros Hin. unfold out_tamps. rewrite nth_error_map. unfold amp_v. rewrite (amp_v_nth i n W Hnl).
    cbn [option_map].
    assert (Hsum : zsum (members (ai_spikes i) n (spike_amps_Z i)) = 0).
    { unfold spike_amps_Z. apply members_flat. unfold nthZ. rewrite Nat2Z.id.
      now apply (nth_error_nth' (amps_au i) n 0 0). }
    rewrite Hsum.
    set (cnt := zlen (filter (fun s => s =? Z.of_nat n) (ai_spikes i))).
    assert (Hc : cnt <> 0).
    { unfold cnt, zlen. pose proof (filter_length_pos (fun s => s =? Z.of_nat n) (ai_spikes i) (Z.of_nat n) Hin (Z.eqb_refl _)). lia. }
    unfold q_div, q_ofZ. rewrite Qeq_bool_inject. replace (cnt =? 0) with false by (symmetry; now apply Z.eqb_neq).
    unfold q_mul, QF. eexists. split; [reflexivity|].
    unfold Qdiv. change (inject_Z 0) with 0%Q. ring.
Qed.

(* ================= completeness of the checkers ================= *)
Lemma peak_channel_b_complete nc t c : (1 <= length t)%nat ->
  IsPeakChannel (entry t) (length t) nc c -> peak_channel_b nc t (Z.of_nat c) = true.
Proof.
  intros Hns (ps & Hps & (Hc & Hmax & Hfirst)).
  rewrite (IsPtpList_unique _ _ _ _ _ Hps (ch_amps_ptp t nc Hns)) in *. clear Hps.
  assert (Hl : length (ch_amps nc t) = nc) by (unfold ch_amps; now rewrite map_length, seq_length).
  rewrite Hl in *. unfold peak_channel_b. rewrite Nat2Z.id.
  apply andb_true_iff. split; [apply andb_true_iff; split; [apply Z.leb_le|apply Z.ltb_lt]; lia|].
  apply forallb_forall. intros j Hj. apply in_seq in Hj.
  specialize (Hmax j ltac:(lia)). rewrite !ch_amps_nth in Hmax by lia.
  apply andb_true_iff. split; [apply Z.leb_le; exact Hmax|].
  destruct (Z.of_nat j <? Z.of_nat c) eqn:E; cbn [negb orb]; [|reflexivity].
  apply Z.ltb_lt in E. specialize (Hfirst j ltac:(lia)). rewrite !ch_amps_nth in Hfirst by lia.
  now apply Z.ltb_lt.
Qed.

Theorem peak_channels_b_complete : forall (nc : nat) (data : list mat) (out : list Z),
  data_ok nc data = true -> Spec_channels nc data out -> peak_channels_b nc data out = true.
Proof.
  intros nc data out Hok. destruct (data_ok_inv nc data Hok) as [_ Hd]. clear Hok.
  unfold peak_channels_b. revert out; induction data as [|t r IH]; intros [|c out'] [L S]; cbn [length] in L; try discriminate.
  - reflexivity.
  - cbn [all2]. apply andb_true_iff. split.
    + destruct (S 0%nat t eq_refl) as (c0 & Ec & Hp). cbn [nth_error] in Ec. injection Ec as ->.
      apply peak_channel_b_complete; [apply (Hd t (or_introl eq_refl))|exact Hp].
    + apply IH; [intros t' Ht'; apply Hd; now right|].
      split; [lia|]. intros n t' Ht'. apply (S (Datatypes.S n) t' Ht').
Qed.

Theorem nan_iff_empty_b_complete : forall (i : amp_in) (finite : list bool),
  length finite = length (ai_data i) ->
  (forall n, (n < length (ai_data i))%nat -> (nth n finite true = false <-> ~ In (Z.of_nat n) (ai_spikes i))) ->
  nan_iff_empty_b i finite = true.
Proof.
  intros i finite L Hall. unfold nan_iff_empty_b. apply andb_true_iff. split; [now apply Nat.eqb_eq|].
  apply forallb_forall. intros n Hn. apply in_seq in Hn. specialize (Hall n ltac:(lia)).
  destruct (existsb (fun s => s =? Z.of_nat n) (ai_spikes i)) eqn:E.
  - apply existsb_exists in E as (s & Hs & Es). apply Z.eqb_eq in Es. subst s.
    destruct (nth n finite true); [reflexivity|]. exfalso. now apply (proj1 Hall).
  - destruct (nth n finite true) eqn:F; [|reflexivity]. exfalso.
    assert (Hnot : ~ In (Z.of_nat n) (ai_spikes i)).
    { intros Hin. assert (existsb (fun s => s =? Z.of_nat n) (ai_spikes i) = true); [|congruence].
      apply existsb_exists. exists (Z.of_nat n). split; [exact Hin|apply Z.eqb_refl]. }
    apply (proj2 Hall) in Hnot. congruence.
Qed.

(* ================= get_depths without a column table / sparse templates: outcomes ================= *)
Lemma get_depths_nocols_spec nspikes nrows :
  (nrows = nspikes -> get_depths_nocols nspikes nrows = None) /\
  (nrows <> nspikes -> get_depths_nocols nspikes nrows = Some None).
Proof.
  unfold get_depths_nocols. split; intros H.
  - now rewrite (proj2 (Z.eqb_eq _ _) H).
  - now rewrite (proj2 (Z.eqb_neq _ _) H).
Qed.
