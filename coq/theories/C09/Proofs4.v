(* C09/Proofs4.v -- get_depths: the batch loop visits every spike exactly once for every batch size
   >= 1, and the per-spike value sum_c (y_c * w_c / S) is the weighted mean (sum_c y_c * w_c) / S,
   NaN exactly when the positive part of the features vanishes. *)
From Coq Require Import ZArith QArith List Bool Lia Arith.
From PV Require Import C09.Model C09.Spec C09.Proofs C09.Proofs2.
Import ListNotations.
Open Scope Z_scope.

(* ================= the batch loop ================= *)
Lemma skipn_repeat {A} (x : A) k n : skipn k (repeat x n) = repeat x (n - k).
Proof. revert k; induction n as [|n IH]; intros [|k]; cbn [repeat skipn Nat.sub]; auto. Qed.

Lemma depth_loop_all {N} (f : nat -> N) (nan : N) (nbatch : Z) (n : nat) :
  1 <= nbatch ->
  forall fuel cn, (cn <= n)%nat -> (n - cn < fuel)%nat ->
    depth_loop N fuel nbatch (Z.of_nat n) f (Z.of_nat cn) (map f (seq 0 cn) ++ repeat nan (n - cn))
    = Some (map f (seq 0 n)).
Proof.
  intros Hb. induction fuel as [|fuel IH]; intros cn Hcn Hf; [lia|].
  cbn [depth_loop]. rewrite Nat2Z.id.
  set (hn := Z.to_nat (Z.min (Z.of_nat cn + nbatch) (Z.of_nat n))).
  assert (Hh : (cn <= hn <= n)%nat) by (unfold hn; lia).
  assert (Eacc : firstn cn (map f (seq 0 cn) ++ repeat nan (n - cn)) ++ map f (seq cn (hn - cn)) ++
                 skipn hn (map f (seq 0 cn) ++ repeat nan (n - cn))
                 = map f (seq 0 hn) ++ repeat nan (n - hn)).
  { rewrite firstn_app, map_length, seq_length, Nat.sub_diag. cbn [firstn]. rewrite app_nil_r.
    rewrite firstn_all2 by (rewrite map_length, seq_length; lia).
    rewrite skipn_app, map_length, seq_length.
    rewrite skipn_all2 by (rewrite map_length, seq_length; lia). cbn [app].
    rewrite skipn_repeat. replace (n - cn - (hn - cn))%nat with (n - hn)%nat by lia.
    rewrite app_assoc, <- map_app, <- seq_app. replace (cn + (hn - cn))%nat with hn by lia. reflexivity. }
  rewrite Eacc.
  destruct (Z.of_nat n <=? Z.of_nat cn + nbatch) eqn:E.
  - assert (hn = n) by (unfold hn; lia). subst hn. rewrite H, Nat.sub_diag. cbn [repeat]. now rewrite app_nil_r.
  - assert (Ehn : Z.of_nat cn + nbatch = Z.of_nat hn) by (unfold hn; lia).
    rewrite Ehn. apply IH; lia.
Qed.

(* ================= the per-spike value ================= *)
Lemma fold_add_none l : fold_left q_add l None = None.
Proof. induction l as [|x r IH]; cbn [fold_left]; [reflexivity|exact IH]. Qed.

Lemma map2_map_seq {A B C} (g : A -> B -> C) (F : nat -> A) (G : nat -> B) n a :
  map2 g (map F (seq a n)) (map G (seq a n)) = map (fun c => g (F c) (G c)) (seq a n).
Proof. revert a; induction n as [|n IH]; intros a; cbn [seq map map2]; [reflexivity|]. now rewrite IH. Qed.

Lemma depth_sum_zero (F G : nat -> Z) n a :
  (1 <= n)%nat ->
  fold_left q_add (map (fun c => q_div (q_mul (q_ofZ (F c)) (q_ofZ (G c))) (q_ofZ 0)) (seq a n)) (Some 0%Q) = None.
Proof.
  intros Hn. destruct n as [|n]; [lia|]. cbn [seq map fold_left]. unfold q_div at 2, q_mul at 2, q_ofZ at 4 5 6.
  cbn [Qeq_bool]. apply fold_add_none.
Qed.

Lemma depth_sum_nonzero (F G : nat -> Z) (S : Z) n : S <> 0 -> forall a (acc : Q),
  exists r, fold_left q_add (map (fun c => q_div (q_mul (q_ofZ (F c)) (q_ofZ (G c))) (q_ofZ S)) (seq a n)) (Some acc) = Some r /\
            (r == acc + inject_Z (zsum (map (fun c => (F c * G c)%Z) (seq a n))) / inject_Z S)%Q.
Proof.
  intros HS. assert (HSq : ~ (inject_Z S == 0)%Q) by (intros Hz; apply (proj1 (inject_Z_eq0 _)) in Hz; lia).
  induction n as [|n IH]; intros a acc; cbn [seq map fold_left zsum fold_right].
  - exists acc. split; [reflexivity|]. field. exact HSq.
  - unfold q_div at 2, q_mul at 2, q_ofZ at 4 5 6. rewrite Qeq_bool_inject.
    replace (S =? 0) with false by (symmetry; now apply Z.eqb_neq). cbn [q_add].
    destruct (IH (Datatypes.S a) (acc + inject_Z (F a) * inject_Z (G a) / inject_Z S)%Q) as (r & Hr & He).
    exists r. split; [exact Hr|]. rewrite He.
    fold (zsum (map (fun c => F c * G c) (seq (Datatypes.S a) n))).
    rewrite inject_Z_plus, inject_Z_mult. field. exact HSq.
Qed.

(* ================= wf_depth unpacked ================= *)
Record WFD (i : depth_in) (data : list mat) (cols : mat) (ncl : nat) : Prop := {
  wd_cols : forall r, In r cols -> length r = ncl;
  wd_data : forall s, In s data -> length s = ncl;
  wd_st : forall s, In s (di_st i) -> 0 <= s < zlen cols;
  wd_stlen : length (di_st i) = length data
}.
Lemma wf_depth_WFD i data cols : wf_depth i = true -> di_feat i = Some (data, cols) ->
  length data = Z.to_nat (di_nspikes i) -> exists ncl, WFD i data cols ncl.
Proof.
  unfold wf_depth. intros H Hf Hl. rewrite Hf in H. rewrite !andb_true_iff in H. destruct H as [[H0 H1] H2].
  replace (Nat.eqb (length data) (Z.to_nat (di_nspikes i))) with true in H2 by (symmetry; now apply Nat.eqb_eq).
  cbn [negb] in H2. rewrite !andb_true_iff in H2. destruct H2 as [[[Hc Hd] Hs] _].
  exists (match cols with [] => O | r :: _ => length r end). constructor.
  - intros r Hr. rewrite forallb_forall in Hc. specialize (Hc r Hr). apply andb_true_iff in Hc as [Hc _]. now apply Nat.eqb_eq.
  - intros s Hs'. rewrite forallb_forall in Hd. specialize (Hd s Hs'). apply andb_true_iff in Hd as [Hd _]. now apply Nat.eqb_eq.
  - intros s Hs'. rewrite forallb_forall in Hs. specialize (Hs s Hs'). unfold in_range, zlen in *. lia.
  - apply Nat.eqb_eq in H1. lia.
Qed.

Lemma depth_of_spec i data cols ncl k : WFD i data cols ncl -> (k < length data)%nat -> (1 <= ncl)%nat ->
  let S := zsum (map (dweight data k) (seq 0 ncl)) in
  let W := zsum (map (fun c => dypos i cols k c * dweight data k c) (seq 0 ncl)) in
  match depth_of_Q i data cols k with
  | None => S = 0
  | Some q => S <> 0 /\ (q * inject_Z S == inject_Z W)%Q
  end.
Proof.
  intros W Hk Hncl S Wt. unfold depth_of_Q, depth_of.
  assert (Hs : length (nth k data []) = ncl) by (apply (wd_data _ _ _ _ W); now apply nth_In).
  assert (Ef : pos_sq (nth k data []) = map (dweight data k) (seq 0 ncl)).
  { unfold pos_sq. rewrite (map_nth_seq _ (nth k data []) []), Hs. reflexivity. }
  assert (Hst : In (nth k (di_st i) 0) (di_st i)) by (apply nth_In; rewrite (wd_stlen _ _ _ _ W); exact Hk).
  pose proof (wd_st _ _ _ _ W _ Hst) as Hr.
  assert (Hrow : length (nth (Z.to_nat (nth k (di_st i) 0)) cols []) = ncl).
  { apply (wd_cols _ _ _ _ W). apply nth_In. unfold zlen in Hr. lia. }
  assert (Ey : ypos_of i cols k = map (dypos i cols k) (seq 0 ncl)).
  { unfold ypos_of, nthZ. rewrite Nat2Z.id.
    rewrite (map_nth_seq _ (nth (Z.to_nat (nth k (di_st i) 0)) cols []) 0), Hrow. reflexivity. }
  rewrite Ef, Ey, map2_map_seq. fold S. change (q_ofZ 0) with (Some 0%Q).
  destruct (Z.eq_dec S 0) as [E0|E0].
  - rewrite E0. rewrite (depth_sum_zero (dypos i cols k) (dweight data k) ncl 0 Hncl). reflexivity.
  - destruct (depth_sum_nonzero (dypos i cols k) (dweight data k) S ncl E0 0%nat 0%Q) as (r & Hr' & He).
    rewrite Hr'. split; [exact E0|]. rewrite He. fold Wt.
    field. intros Hz. apply (proj1 (inject_Z_eq0 _)) in Hz. lia.
Qed.

(* ================= C09_depths ================= *)
Theorem depths_thm : forall (nbatch : Z) (i : depth_in) (data : list mat) (cols : mat),
  1 <= nbatch -> wf_depth i = true -> di_feat i = Some (data, cols) ->
  length data = Z.to_nat (di_nspikes i) ->
  (forall s, In s data -> (1 <= length s)%nat) ->
  exists out, get_depths_Q nbatch i = Some (Some out) /\ Spec_depths i data cols out.
Proof.
  intros nbatch i data cols Hb Hwf Hf Hl Hne.
  destruct (wf_depth_WFD i data cols Hwf Hf Hl) as (ncl & W).
  unfold get_depths_Q, get_depths. rewrite Hwf, Hf. cbn [negb].
  replace (Nat.eqb (length data) (Z.to_nat (di_nspikes i))) with true by (symmetry; now apply Nat.eqb_eq).
  cbn [negb]. set (n := Z.to_nat (di_nspikes i)).
  assert (Hnsp : di_nspikes i = Z.of_nat n).
  { unfold n. unfold wf_depth in Hwf. rewrite !andb_true_iff in Hwf. destruct Hwf as [[H0 _] _]. lia. }
  rewrite Hnsp.
  pose proof (depth_loop_all (depth_of QN q_ofZ q_mul q_div q_add i data cols) None nbatch n Hb (S n) 0 ltac:(lia) ltac:(lia)) as HL.
  cbn [seq map app Nat.sub] in HL. rewrite Nat.sub_0_r in HL. change (Z.of_nat 0) with 0 in HL. rewrite HL.
  eexists. split; [reflexivity|]. split; [rewrite map_length, seq_length; lia|].
  intros k Hk. cbn zeta.
  assert (Hkn : (k < n)%nat) by lia.
  rewrite (nth_map_in _ (seq 0 n) k (Some 0%Q) O) by (now rewrite seq_length). rewrite seq_nth by exact Hkn. cbn [Nat.add].
  assert (Hs : length (nth k data []) = ncl) by (apply (wd_data _ _ _ _ W); now apply nth_In).
  rewrite Hs. apply (depth_of_spec i data cols ncl k W Hk).
  rewrite <- Hs. apply Hne. now apply nth_In.
Qed.

(* without a feature store, or with one that does not cover every spike, the method returns None *)
Theorem depths_none_thm : forall (nbatch : Z) (i : depth_in),
  wf_depth i = true ->
  match di_feat i with
  | None => True
  | Some (data, _) => length data <> Z.to_nat (di_nspikes i)
  end ->
  get_depths_Q nbatch i = Some None.
Proof.
  intros nbatch i Hwf H. unfold get_depths_Q, get_depths. rewrite Hwf. cbn [negb].
  destruct (di_feat i) as [[data cols]|]; [|reflexivity].
  replace (Nat.eqb (length data) (Z.to_nat (di_nspikes i))) with false by (symmetry; now apply Nat.eqb_neq).
  reflexivity.
Qed.
