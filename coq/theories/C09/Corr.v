(* C09/Corr.v -- comparator evaluated by vm_compute on generated case files.
   One case = one loaded dataset: the stored arrays of the TemplateModel (snapshot taken before the
   calls) and everything the anchored methods returned.
   codes: 1  = an observed value differs from the model (every observable of C09 is determined)
          20 = the dataset could not be loaded / a method raised where the model does not
          21 = C09_spike_amps: scaled spike amplitudes (use='templates' or 'clusters')
          22 = C09_template_amps: per-template / per-cluster mean of the scaled spike amplitudes,
               one entry per waveform, NaN exactly for the ids without spikes
          23 = C09_rescaled_peak: rescaled templates (values; and, where the scale is exact, the
               largest peak-to-peak of the observed rescaled template = the observed mean amplitude)
          24 = C09_mean_amps: templates_amplitudes / clusters_amplitudes
          25 = C09_peak_channel: templates_channels / clusters_channels / templates_probes
          26 = C09_duration: templates_/clusters_waveforms_durations
          27 = C09_depths: get_depths (also its outcome for a feature store without a column table:
               C09_depths_nocols)
          28 = outside the dense reading, outcome only (C09_sparse_channels): on sparse templates
               get_amplitudes_true raises and _channels returns the first stored channel
          3  = input outside the stated regime (harness bug)
   Stage 5: get_amplitudes_true is judged against the model with n_wav = the number of stored waveforms
   (Spec3.full_ai: the reading of the statement, C09_full_guard / C09_spike_amps_full); the loaded
   n_templates / n_clusters must be that number (else code 1: the guard of the theorems does not hold for
   the loaded model), and the dataset-side spike ids / amplitudes are the model's input.
   The oracle is the term of Model.v instantiated with exact rationals (the instance the theorems are
   about); observed binary64 values are converted exactly and must lie within 2^-48 relative of it. *)
From Coq Require Import ZArith QArith Qabs List Bool.
From PV Require Export Base.Tok Base.TokArith C09.Model C09.Spec C09.Spec2 C09.Spec3.
Import ListNotations.
Open Scope Z_scope.

(* ---------- judging observed binary64 values against the exact model ---------- *)
(* The oracle is the exact instance of the model (amplitudes_true_Q, ... : the terms the theorems are
   about).  An observed float is accepted when it is within 2^-48 relative (about 32 ulp) of the exact
   rational -- a handful of correctly rounded operations in any order, so that a harmless re-association
   of the code is not an alarm -- and NaN must be NaN exactly.  All arithmetic below is exact. *)
Definition tok_Q (t : tok) : option Q :=
  match t with
  | TNum m e => Some (if 0 <=? e then inject_Z (m * 2 ^ e) else (m # Z.to_pos (2 ^ (- e))))
  | _ => None
  end.
Definition TOL : Q := inject_Z (2 ^ 48).
Definition close (exact : QN) (o : tok) : bool :=
  match exact, o with
  | None, TNaN => true
  | Some q, TNum _ _ =>
      match tok_Q o with
      | Some x => Qle_bool (Qabs (x - q) * TOL) (Qabs q)
      | None => false
      end
  | _, _ => false
  end.

(* ---------- cases ---------- *)
Record inp := mkinp {
  i_tdata : list mat;        (* sparse_templates.data *)
  i_cdata : list mat;        (* sparse_clusters.data *)
  i_wmi : mat;
  i_st : list Z; i_sc : list Z; i_amps : list Z;
  i_nt : Z; i_ncl : Z;       (* n_templates, n_clusters *)
  i_factor : tok; i_rate : tok;
  i_probes : list Z;
  i_pos : mat;
  i_feat : option (list mat * mat);
  i_nspikes : Z;
  i_nocols : option Z        (* Some nrows: a feature store of nrows rows loaded WITHOUT pc_feature_ind.npy
                                (sparse_features.cols is None); i_feat is None then *)
}.
Record ampobs := mkampobs { a_spike : list tok; a_phys : list (list (list tok)); a_tamps : list tok }.
Record obs := mkobs {
  o_amp_t : option ampobs; o_amp_c : option ampobs;          (* None = the call raised *)
  o_mean_t : option (list tok); o_mean_c : option (list tok);
  o_chan_t : option (list Z); o_chan_c : option (list Z); o_probes_t : option (list Z);
  o_dur_t : option (list tok); o_dur_c : option (list tok);
  o_depths : option (option (list tok))
}.
(* InBig: a dataset of n spikes (n around and above the batch size 50000 of get_depths) that repeats the
   K = length data spikes given here (features, templates) periodically; only get_depths is observed. *)
(* InSparse: a dataset with template_ind.npy (sparse templates): the column table; observed: did the two
   get_amplitudes_true calls raise, and what templates_channels / clusters_channels returned. *)
(* InHist (stage 6): a HISTORY on one loaded model: the stored spike templates st, and the successive in-memory
   states (spike_clusters, amplitudes) of the model -- state 0 = as loaded, then one state after every caller-side
   update of model.spike_clusters (in place or by re-assigning the attribute; merges, splits, moves, renumberings:
   the set of ids in use changes) and / or of model.amplitudes.  Observed after every state: templates_amplitudes and
   clusters_amplitudes (None = the property raised).  By C09_mean_amps (for ALL id / amplitude lists) each state is
   an instance of the same theorem: the result is a function of the arrays the model holds NOW. *)
Inductive input := InModel (i : inp) | InBig (pos : mat) (data : list mat) (cols : mat) (st : list Z) (n : Z)
                 | InSparse (cols : mat) | InBad
                 | InHist (st : list Z) (states : list (list Z * list Z)).
Inductive observed := ObsAll (o : obs) | ObsBig (o : option (option (list tok)))
                    | ObsSparse (amp_t_raised amp_c_raised : bool) (chan_t chan_c : option (list Z)) | ObsCrash
                    | ObsHist (l : list (option (list tok) * option (list tok))).
Record case := { cid : Z; cin : input; cobs : observed }.

Definition flag (code : Z) (ok : bool) : list Z := if ok then [] else [code].
Fixpoint all2b {A B} (f : A -> B -> bool) (a : list A) (b : list B) : bool :=
  match a, b with
  | [], [] => true
  | x :: a', y :: b' => f x y && all2b f a' b'
  | _, _ => false
  end.
Definition closel := all2b close.
Definition close3 (a : list (list (list QN))) (b : list (list (list tok))) : bool := all2b (all2b closel) a b.
Definition oeq {A B} (eqb : A -> B -> bool) (m : option A) (o : option B) : bool :=
  match m, o with Some x, Some y => eqb x y | _, _ => false end.

(* ---------- exact token helpers for the relational peak check ---------- *)
Definition tmax2 (a b : tok) : option tok :=
  match tok_leb a b with Some true => Some b | Some false => Some a | None => None end.
Definition tmin2 (a b : tok) : option tok :=
  match tok_leb a b with Some true => Some a | Some false => Some b | None => None end.
Definition tfold (f : tok -> tok -> option tok) (l : list tok) : option tok :=
  match l with
  | [] => None
  | x :: r => fold_left (fun acc y => obind acc (fun a => f a y)) r (if is_finite x then Some x else None)
  end.
(* largest peak-to-peak over channels of an observed (ns, nc) template, in exact arithmetic *)
Definition obs_peak (nc : nat) (t : list (list tok)) : option tok :=
  obind (omap (fun c => let colc := map (fun r => nth c r TNaN) t in
                        obind (tfold tmax2 colc) (fun hi => obind (tfold tmin2 colc) (fun lo => tsub hi lo)))
              (seq 0 nc))
        (tfold tmax2).
Definition tabs (t : tok) : tok := match t with TNum m e => TNum (Z.abs m) e | _ => t end.

(* where the mean amplitude of the member spikes is an integer, every step of the rescaling is exact:
   then the observed rescaled template's largest peak-to-peak must equal the observed mean amplitude *)
Definition peak_rel_b (ai : amp_in) (ob : ampobs) : bool :=
  let nc := length (ai_wmi ai) in
  let au := amps_au ai in
  let asum := bincount_w (ai_spikes ai) (ai_amps ai) (zlen au) in
  let cnt := amp_counts ai in
  forallb (fun n =>
    let c := nth n cnt 0 in let a := nth n au 0 in let s := nth n asum 0 in
    if (0 <? c) && (0 <? a) && (s mod c =? 0) then
      match obs_peak nc (nth n (a_phys ob) []) with
      | Some p => tok_eqb p (tabs (nth n (a_tamps ob) TNaN))
      | None => false
      end
    else true) (seq 0 (length au)).

(* ---------- regime ---------- *)
Definition B24 : Z := 2 ^ 24.
Definition B50 : Z := 2 ^ 50.
Definition small (b : Z) (z : Z) : bool := Z.abs z <? b.
Definition pos_finite (t : tok) : bool := match t with TNum m _ => 0 <? m | _ => false end.

Definition amp_regime (ai : amp_in) : bool :=
  wf_amp ai &&
  forallb (forallb (forallb (small B24))) (ai_data ai) &&
  forallb (forallb (forallb (small B24))) (templates_wfs ai) &&
  forallb (small B24) (amps_au ai) &&
  forallb (small B50) (spike_amps_Z ai) && forallb (small B50) (amp_sums ai) &&
  forallb (small B24) (ai_amps ai).

Definition depth_regime (di : depth_in) : bool :=
  wf_depth di && (di_nspikes di <? NBATCH) &&
  forallb (forallb (fun y => (0 <=? y) && small B24 y)) (di_pos di) &&
  match di_feat di with
  | None => true
  | Some (data, cols) =>
      forallb (fun s => forallb (forallb (fun x => small 4096 x)) s) data
  end.

Definition mk_ai (i : inp) (clusters : bool) : amp_in :=
  if clusters then mk_amp_in (i_cdata i) (i_wmi i) (i_sc i) (i_amps i) (i_ncl i)
  else mk_amp_in (i_tdata i) (i_wmi i) (i_st i) (i_amps i) (i_nt i).
Definition mk_di (i : inp) : depth_in := mk_depth_in (i_nspikes i) (i_feat i) (i_st i) (i_pos i).

Definition regime (i : inp) : bool :=
  let nc := length (i_wmi i) in
  amp_regime (full_ai (mk_ai i false)) && amp_regime (full_ai (mk_ai i true)) &&
  pos_finite (i_factor i) && pos_finite (i_rate i) &&
  Nat.eqb (length (i_probes i)) nc && depth_regime (mk_di i) &&
  forallb (fun s => 0 <=? s) (i_st i) && forallb (fun s => 0 <=? s) (i_sc i) &&
  match i_nocols i, i_feat i with Some nrows, Some _ => false | Some nrows, None => 0 <=? nrows | None, _ => true end.

(* ---------- the check ---------- *)
Definition zl_eq (a b : list Z) : bool := zl_eqb a b.

Definition check_amp (ai0 : amp_in) (factor : tok) (o : option ampobs) : list Z :=
  let ai := full_ai ai0 in           (* every stored waveform unwhitened: the statement's reading *)
  let gn := nwav_full_b ai0 in       (* the loaded loop bound is the number of stored waveforms *)
  match amplitudes_true_Q ai (tok_Q factor), o with
  | Some m, Some ob =>
      let g21 := closel (ao_spike m) (a_spike ob) in
      let g22 := closel (ao_tamps m) (a_tamps ob) && nan_iff_empty_b ai (map is_finite (a_tamps ob)) in
      let g23 := close3 (ao_phys m) (a_phys ob) && peak_rel_b ai ob in
      flag 1 (g21 && g22 && g23 && gn) ++ flag 21 g21 ++ flag 22 g22 ++ flag 23 g23
  | Some _, None => [1; 20; 21; 22; 23]
  | None, _ => [3]
  end.

(* every observed value against the value of its position in the repeated pattern *)
Fixpoint cyc (pat cur : list QN) (o : list tok) : bool :=
  match o with
  | [] => true
  | x :: r => match cur with
              | p :: cur' => close p x && cyc pat cur' r
              | [] => match pat with
                      | p :: cur' => close p x && cyc pat cur' r
                      | [] => false
                      end
              end
  end.

(* By C09_depths (proved for every batch size) get_depths returns, for spike k, a value that depends
   only on the features and the template of spike k: the periodic dataset is therefore judged spike by
   spike against the model evaluated on one period -- exactly the statement of Props.C09_depths_periodic
   (the model on the tiled dataset = the model on one period, repeated, for every batch size). *)
Definition check_big (pos : mat) (data : list mat) (cols : mat) (st : list Z) (n : Z)
                     (o : option (option (list tok))) : list Z :=
  let di := mk_depth_in (zlen data) (Some (data, cols)) st pos in
  if negb (depth_regime di && (1 <=? zlen data) && (1 <=? n)) then [3] else
  match get_depths_Q NBATCH di, o with
  | Some (Some pat), Some (Some l) => let ok := (zlen l =? n) && cyc pat pat l in flag 1 ok ++ flag 27 ok
  | Some (Some _), _ => [1; 20; 27]
  | _, _ => [3]
  end.

(* one state of a history: both mean-amplitude properties against the model on the arrays of THAT state *)
Definition hist_regime (st : list Z) (states : list (list Z * list Z)) : bool :=
  forallb (fun s => 0 <=? s) st &&
  forallb (fun sa => forallb (fun s => 0 <=? s) (fst sa) && forallb (small B24) (snd sa) &&
                     Nat.eqb (length (fst sa)) (length st) && Nat.eqb (length (snd sa)) (length st)) states.
Definition check_hist (st : list Z) (states : list (list Z * list Z))
                      (l : list (option (list tok) * option (list tok))) : list Z :=
  if negb (hist_regime st states) then [3] else
  let g := all2b (fun sa o => oeq closel (mean_amps_Q st (snd sa)) (fst o) &&
                              oeq closel (mean_amps_Q (fst sa) (snd sa)) (snd o)) states l in
  flag 1 g ++ flag 24 g.

Definition check (c : case) : list Z :=
  match cin c, cobs c with
  | InHist _ _, ObsCrash => [1; 20]
  | InHist st states, ObsHist l => check_hist st states l
  | InHist _ _, _ => [3]
  | InModel _, ObsHist _ => [3]
  | InBad, _ => [1; 20]
  | InModel _, ObsCrash => [1; 20]
  | InBig _ _ _ _ _, ObsCrash => [1; 20]
  | InBig pos data cols st n, ObsBig o => check_big pos data cols st n o
  | InBig _ _ _ _ _, _ => [3]
  | InSparse _, ObsCrash => [1; 20]
  | InSparse cols, ObsSparse rt rc ct cc =>
      let g := rt && rc && oeq zl_eq (Some (channels_sparse cols)) ct && oeq zl_eq (Some (channels_sparse cols)) cc in
      flag 1 g ++ flag 28 g
  | InSparse _, _ => [3]
  | InModel _, ObsBig _ => [3]
  | InModel _, ObsSparse _ _ _ _ => [3]
  | InModel i, ObsAll o =>
      if negb (regime i) then [3] else
      let nc := length (i_wmi i) in
      let g24 := oeq closel (mean_amps_Q (i_st i) (i_amps i)) (o_mean_t o) &&
                 oeq closel (mean_amps_Q (i_sc i) (i_amps i)) (o_mean_c o) in
      let g25 := oeq zl_eq (channels nc (i_tdata i)) (o_chan_t o) &&
                 oeq zl_eq (channels nc (i_cdata i)) (o_chan_c o) &&
                 oeq zl_eq (templates_probes nc (i_tdata i) (i_probes i)) (o_probes_t o) &&
                 match o_chan_t o with Some l => peak_channels_b nc (i_tdata i) l | None => false end &&
                 match o_chan_c o with Some l => peak_channels_b nc (i_cdata i) l | None => false end in
      let g26 := oeq closel (waveform_durations_Q nc (i_tdata i) (tok_Q (i_rate i))) (o_dur_t o) &&
                 oeq closel (waveform_durations_Q nc (i_cdata i) (tok_Q (i_rate i))) (o_dur_c o) in
      let g27 := match i_nocols i with
                 | Some nrows =>      (* no column table: raises iff one row per spike, else returns None *)
                     match get_depths_nocols (i_nspikes i) nrows, o_depths o with
                     | None, None => true
                     | Some None, Some None => true
                     | _, _ => false
                     end
                 | None =>
                     match get_depths_Q NBATCH (mk_di i), o_depths o with
                     | Some (Some l), Some (Some l') => closel l l'
                     | Some None, Some None => true
                     | _, _ => false
                     end
                 end in
      check_amp (mk_ai i false) (i_factor i) (o_amp_t o) ++
      check_amp (mk_ai i true) (i_factor i) (o_amp_c o) ++
      flag 1 (g24 && g25 && g26 && g27) ++ flag 24 g24 ++ flag 25 g25 ++ flag 26 g26 ++ flag 27 g27
  end.

Definition dedupZ (l : list Z) : list Z :=
  fold_right (fun x acc => if existsb (Z.eqb x) acc then acc else x :: acc) [] l.
Definition run (cases : list case) : list (Z * Z) :=
  flat_map (fun c => map (fun code => (cid c, code)) (dedupZ (check c))) cases.
