(* C09/Props.v -- the property theorems, and nothing else.  Exact arithmetic: stored arrays over Z,
   float-valued results over QN = option Q (None = NaN), for every size of every array.
   amplitudes_true_Q, mean_amps_Q, waveform_durations_Q, get_depths_Q are the model of Model.v (the
   operation sequence of phylib's code) instantiated with exact rational operations. *)
From Coq Require Import ZArith QArith Qabs List Bool Sorted Lia.
(* C05 (for the link theorems) first, C09 last: unqualified names are C09's, C05's are written qualified *)
From PV Require Import C05.Model C05.Spec C05.Props Base.NpSort.
From PV Require Import C09.Model C09.Spec C09.Proofs C09.Proofs2 C09.Proofs3 C09.Proofs4 C09.Proofs5.
From PV Require Import C09.Spec2 C09.Proofs6 C09.Proofs7 C09.Link C09.Spec3.
Import ListNotations.
Open Scope Z_scope.

(* inside the shape guard (the conditions under which NumPy does not raise) the model returns *)
Theorem C09_total : forall (i : amp_in) (f : QN), wf_amp i = true -> exists o, amplitudes_true_Q i f = Some o.
Proof. exact amplitudes_true_total. Qed.
Print Assumptions C09_total.

(* Scaled spike amplitudes: for every spike k, stored amplitude * largest channel peak-to-peak of the
   unwhitened template (data[s] . wmi, as an explicit sum) of the spike's id * unit factor.
   (Every loaded model has all ids < n_wav: n_wav is n_templates, or max id + 1.) *)
Theorem C09_spike_amps : forall (i : amp_in) (factor : Q) (o : amp_out QN),
  amplitudes_true_Q i (Some factor) = Some o ->
  (forall s, In s (ai_spikes i) -> s < ai_nwav i) ->
  Spec_spike_amps i factor (ao_spike o).
Proof. exact spike_amps_thm. Qed.
Print Assumptions C09_spike_amps.

(* Per-template (per-cluster) amplitudes: one entry per stored waveform; entry n is NaN when no spike is
   assigned to n, otherwise (entry n) * (number of member spikes) = sum of the scaled amplitudes of the
   member spikes -- the outputs are related to each other, for every id n below the number of waveforms *)
Theorem C09_template_amps : forall (i : amp_in) (factor : Q) (o : amp_out QN),
  amplitudes_true_Q i (Some factor) = Some o ->
  Spec_template_amps i (ao_spike o) (ao_tamps o).
Proof. exact template_amps_thm. Qed.
Print Assumptions C09_template_amps.

(* NaN exactly for the ids without spikes: any id below the number of waveforms, including the highest *)
Theorem C09_empty_ids_nan : forall (i : amp_in) (factor : Q) (o : amp_out QN) (n : nat),
  amplitudes_true_Q i (Some factor) = Some o -> (n < length (ai_data i))%nat ->
  (nth_error (ao_tamps o) n = Some None <-> ~ In (Z.of_nat n) (ai_spikes i)).
Proof. exact empty_ids_nan_thm. Qed.
Print Assumptions C09_empty_ids_nan.

(* The rescaled template n is the unwhitened template times a non-negative scale and its largest channel
   peak-to-peak is exactly the per-template amplitude v -- for a template that is not flat (au > 0) and
   a non-negative mean amplitude.  (A flat template with spikes gives 0/0 = NaN; a negative mean
   amplitude flips the template: the peak is then |v|.) *)
Theorem C09_rescaled_peak : forall (i : amp_in) (factor : Q) (o : amp_out QN) (n : nat) (t : mat) (v : Q) (au : Z),
  amplitudes_true_Q i (Some factor) = Some o ->
  nth_error (ai_data i) n = Some t -> Z.of_nat n < ai_nwav i ->
  nth_error (ao_tamps o) n = Some (Some v) -> (0 <= v)%Q ->
  IsPeakAmp (unwh (ai_wmi i) t) (length t) (length (ai_wmi i)) au -> 0 < au ->
  Spec_rescaled i n t v (nth n (ao_phys o) []).
Proof. exact rescaled_thm. Qed.
Print Assumptions C09_rescaled_peak.

(* ... and the rescaled template of an id without spikes is NaN everywhere *)
Theorem C09_rescaled_nan : forall (i : amp_in) (factor : Q) (o : amp_out QN) (n : nat),
  amplitudes_true_Q i (Some factor) = Some o -> nth_error (ao_tamps o) n = Some None ->
  forall row x, In row (nth n (ao_phys o) []) -> In x row -> x = None.
Proof. exact rescaled_nan_thm. Qed.
Print Assumptions C09_rescaled_nan.

(* the quantities named in the statements above are determined by the stored arrays *)
Theorem C09_peak_unique : forall f ns nc,
  (forall a a', IsPeakAmp f ns nc a -> IsPeakAmp f ns nc a' -> a = a') /\
  (forall c c', IsPeakChannel f ns nc c -> IsPeakChannel f ns nc c' -> c = c').
Proof. intros f ns nc. split; [apply IsPeakAmp_unique|apply IsPeakChannel_unique]. Qed.
Print Assumptions C09_peak_unique.

(* _amplitudes (templates_amplitudes / clusters_amplitudes): one entry per id that occurs, ids increasing,
   entry * (number of member spikes) = sum of the stored amplitudes of the member spikes *)
Theorem C09_mean_amps : forall (tmp amps : list Z),
  (forall s, In s tmp -> 0 <= s) -> length amps = length tmp ->
  exists out, mean_amps_Q tmp amps = Some out /\ Spec_mean_amps tmp amps out.
Proof. exact mean_amps_thm. Qed.
Print Assumptions C09_mean_amps.

(* _channels: the peak channel of every waveform is the first channel with the largest peak-to-peak *)
Theorem C09_peak_channel : forall (nc : nat) (data : list mat) (out : list Z),
  channels nc data = Some out -> Spec_channels nc data out.
Proof. exact channels_thm. Qed.
Print Assumptions C09_peak_channel.

(* templates_probes: the probe of the peak channel *)
Theorem C09_template_probes : forall (nc : nat) (data : list mat) (probes out : list Z),
  templates_probes nc data probes = Some out -> Spec_probes nc data probes out.
Proof. exact probes_thm. Qed.
Print Assumptions C09_template_probes.

(* _waveform_durations: (first arg-max - first arg-min over the samples of the peak channel) / rate * 1000 *)
Theorem C09_duration : forall (nc : nat) (data : list mat) (rate : Q) (out : list QN),
  ~ (rate == 0)%Q ->
  waveform_durations_Q nc data (Some rate) = Some out -> Spec_durations nc data rate out.
Proof. exact durations_thm. Qed.
Print Assumptions C09_duration.

(* get_depths, for EVERY batch size >= 1 (the code uses 50000): every spike is visited exactly once and
   depth * sum_c w_c = sum_c y_c * w_c with w_c = (positive part of the first PC)^2; NaN exactly when the
   positive part vanishes *)
Theorem C09_depths : forall (nbatch : Z) (i : depth_in) (data : list mat) (cols : mat),
  1 <= nbatch -> wf_depth i = true -> di_feat i = Some (data, cols) ->
  length data = Z.to_nat (di_nspikes i) ->
  (forall s, In s data -> (1 <= length s)%nat) ->
  exists out, get_depths_Q nbatch i = Some (Some out) /\ Spec_depths i data cols out.
Proof. exact depths_thm. Qed.
Print Assumptions C09_depths.

Theorem C09_depths_none : forall (nbatch : Z) (i : depth_in),
  wf_depth i = true ->
  match di_feat i with
  | None => True
  | Some (data, _) => length data <> Z.to_nat (di_nspikes i)
  end ->
  get_depths_Q nbatch i = Some None.
Proof. exact depths_none_thm. Qed.
Print Assumptions C09_depths_none.

(* Why the repair was needed: np.bincount WITHOUT minlength (the code before the fix commit) has only
   max(id) + 1 bins, fewer than the number of waveforms as soon as the highest id has no spike -- the
   division against the per-waveform amplitudes then cannot be the statement's "one value per id". *)
Theorem C09_minlength_needed : exists i : amp_in,
  wf_amp i = true /\ (forall s, In s (ai_spikes i) -> s < ai_nwav i) /\
  (length (bincount (ai_spikes i) 0) < length (ai_data i))%nat /\
  length (amp_counts i) = length (ai_data i).
Proof.
  exists (mk_amp_in [ [[1; 0]; [-2; 3]] ; [[0; 5]; [4; -1]] ; [[7; 7]; [7; 0]] ] [[1; 2]; [0; -1]] [1; 0; 1; 0] [2; 3; 4; 5] 3).
  split; [vm_compute; reflexivity|]. split; [cbn; intros s [<-|[<-|[<-|[<-|[]]]]]; reflexivity|].
  split; vm_compute; [lia|reflexivity].
Qed.
Print Assumptions C09_minlength_needed.

(* the boolean checkers that Corr.v evaluates on the implementation's outputs imply the declarative statements *)
Theorem C09_checker_sound_channels : forall (nc : nat) (data : list mat) (out : list Z),
  data_ok nc data = true -> peak_channels_b nc data out = true -> Spec_channels nc data out.
Proof. exact peak_channels_b_sound. Qed.
Print Assumptions C09_checker_sound_channels.

Theorem C09_checker_sound_nan : forall (i : amp_in) (finite : list bool),
  nan_iff_empty_b i finite = true ->
  length finite = length (ai_data i) /\
  forall n, (n < length (ai_data i))%nat -> (nth n finite true = false <-> ~ In (Z.of_nat n) (ai_spikes i)).
Proof. exact nan_iff_empty_b_sound. Qed.
Print Assumptions C09_checker_sound_nan.

(* ---- non-vacuity: concrete, non-trivial instances ---- *)
Definition ex_in : amp_in :=
  mk_amp_in [ [[1; 0]; [-2; 3]] ; [[0; 5]; [4; -1]] ; [[7; 7]; [7; 0]] ]   (* three 2x2 templates *)
            [[1; 2]; [0; -1]]                                               (* wmi, not symmetric *)
            [1; 0; 1; 0] [2; 3; 4; 5] 3.                                    (* template 2 (the highest) has no spike *)
Example C09_ex_amplitudes :
  option_map (fun o => (ao_spike o, ao_tamps o)) (amplitudes_true_Q ex_in (Some (5 # 2))) =
  Some ([Some (inject_Z 28 * (5 # 2)); Some (inject_Z 27 * (5 # 2)); Some (inject_Z 56 * (5 # 2)); Some (inject_Z 45 * (5 # 2))]%Q,
        [Some (inject_Z 72 / inject_Z 2 * (5 # 2)); Some (inject_Z 84 / inject_Z 2 * (5 # 2)); None]%Q).
Proof. vm_compute. reflexivity. Qed.
Example C09_ex_guard : wf_amp ex_in = true /\ (forall s, In s (ai_spikes ex_in) -> s < ai_nwav ex_in).
Proof. split; [vm_compute; reflexivity|]. cbn. intros s [<-|[<-|[<-|[<-|[]]]]]; reflexivity. Qed.
(* template 1 unwhitened is [[0;-5];[4;9]]: peak-to-peak 4 and 14 *)
Example C09_ex_peak : IsPeakAmp (unwh (ai_wmi ex_in) [[0; 5]; [4; -1]]) 2 2 14.
Proof.
  exists [4; 14]. split; [split; [reflexivity|]|].
  - intros [|[|c]] Hc; [| |exfalso; lia].
    + exists 4, 0. vm_compute. repeat split; auto; intros x [<-|[<-|[]]]; discriminate.
    + exists 9, (-5). vm_compute. repeat split; auto; intros x [<-|[<-|[]]]; discriminate.
  - split; [cbn; auto|]. intros x [<-|[<-|[]]]; discriminate.
Qed.
Example C09_ex_mean_amps :
  mean_amps_Q [3; 0; 3; 3] [2; 7; 4; 6] = Some [Some (inject_Z 7 / inject_Z 1); Some (inject_Z 12 / inject_Z 3)]%Q.
Proof. vm_compute. reflexivity. Qed.
Example C09_ex_checkers :
  peak_channels_b 3 [ [[0; 5; 1]; [2; 0; 6]] ] [1] = true /\ peak_channels_b 3 [ [[0; 5; 1]; [2; 0; 6]] ] [2] = false /\
  nan_iff_empty_b ex_in [true; true; false] = true /\ nan_iff_empty_b ex_in [true; true] = false.
Proof. vm_compute. repeat split. Qed.
Example C09_ex_channels :     (* ties: channels 1 and 2 both have peak-to-peak 5: the first wins *)
  channels 3 [ [[0; 5; 1]; [2; 0; 6]] ] = Some [1] /\
  waveform_durations_Q 3 [ [[0; 5; 1]; [2; 0; 6]] ] (Some (inject_Z 30000)) =
    Some [Some (inject_Z (0 - 1) / inject_Z 30000 * inject_Z 1000)%Q].
Proof. split; vm_compute; reflexivity. Qed.
Definition ex_depth : depth_in :=
  mk_depth_in 3 (Some ([ [[2; 9]; [-1; 9]; [2; 9]]; [[0; 1]; [-3; 1]; [-4; 1]]; [[1; 0]; [1; 0]; [0; 0]] ],
                       [[0; 2; 3]; [1; 2; 0]]))
              [1; 0; 1] [[0; 0]; [0; 20]; [16; 40]; [16; 100]].
Example C09_ex_depths :      (* batch size 2: two batches; spike 1 has no positive feature: NaN *)
  wf_depth ex_depth = true /\
  option_map (option_map (map (fun x => match x with Some q => Some (Qred q) | None => None end)))
             (get_depths_Q 2 ex_depth) = Some (Some [Some (10 # 1); None; Some (30 # 1)]%Q).
Proof. split; vm_compute; reflexivity. Qed.

(* =====================================================================================================
   Stage 3: the boundary of C09_rescaled_peak as theorems, checker completeness, outcomes outside the
   dense reading, and the link to C05 (get_template on dense storage).
   ===================================================================================================== *)

(* OUTSIDE the guard "mean amplitude >= 0" of C09_rescaled_peak: for a non-flat template (au > 0) and ANY sign
   of the per-template amplitude v, the rescaled template is the unwhitened template times K = v / au (negative
   for a negative v: the template is flipped) and its largest channel peak-to-peak is |v| -- so "exactly that
   peak amplitude" holds iff v >= 0, and C09_rescaled_peak is the case v >= 0 of this theorem. *)
Theorem C09_rescaled_abs : forall (i : amp_in) (factor : Q) (o : amp_out QN) (n : nat) (t : mat) (v : Q) (au : Z),
  amplitudes_true_Q i (Some factor) = Some o ->
  nth_error (ai_data i) n = Some t -> Z.of_nat n < ai_nwav i ->
  nth_error (ao_tamps o) n = Some (Some v) ->
  IsPeakAmp (unwh (ai_wmi i) t) (length t) (length (ai_wmi i)) au -> 0 < au ->
  Spec_rescaled_abs i t au v (nth n (ao_phys o) []).
Proof. exact rescaled_abs_thm. Qed.
Print Assumptions C09_rescaled_abs.

(* OUTSIDE the guard "template not flat": a template whose unwhitened waveform is constant on every channel
   (au = 0) is rescaled to NaN in every entry (v / 0, whatever v is: 0/0 with member spikes, NaN/0 without),
   full shape, and its per-template amplitude, when it has member spikes, is 0 (not NaN). *)
Theorem C09_rescaled_flat : forall (i : amp_in) (factor : Q) (o : amp_out QN) (n : nat) (t : mat),
  amplitudes_true_Q i (Some factor) = Some o ->
  nth_error (ai_data i) n = Some t -> Z.of_nat n < ai_nwav i ->
  IsPeakAmp (unwh (ai_wmi i) t) (length t) (length (ai_wmi i)) 0 ->
  AllNaN (length t) (length (ai_wmi i)) (nth n (ao_phys o) []) /\
  (In (Z.of_nat n) (ai_spikes i) -> exists v, nth_error (ao_tamps o) n = Some (Some v) /\ (v == 0)%Q).
Proof. exact rescaled_flat_thm. Qed.
Print Assumptions C09_rescaled_flat.

(* the boolean checkers are also COMPLETE: they accept every output that satisfies the declarative statement,
   so a clause 25 / 22 alarm of the comparator is never an artefact of the checker *)
Theorem C09_checker_complete_channels : forall (nc : nat) (data : list mat) (out : list Z),
  data_ok nc data = true -> Spec_channels nc data out -> peak_channels_b nc data out = true.
Proof. exact peak_channels_b_complete. Qed.
Print Assumptions C09_checker_complete_channels.

Theorem C09_checker_complete_nan : forall (i : amp_in) (finite : list bool),
  length finite = length (ai_data i) ->
  (forall n, (n < length (ai_data i))%nat -> (nth n finite true = false <-> ~ In (Z.of_nat n) (ai_spikes i))) ->
  nan_iff_empty_b i finite = true.
Proof. exact nan_iff_empty_b_complete. Qed.
Print Assumptions C09_checker_complete_nan.

(* ... hence the model's own peak channels are the only output the checker accepts *)
Theorem C09_checker_channels_exact : forall (nc : nat) (data : list mat) (out : list Z),
  data_ok nc data = true -> (peak_channels_b nc data out = true <-> channels nc data = Some out).
Proof.
  intros nc data out Hok. split.
  - intros H. pose proof (peak_channels_b_sound nc data out Hok H) as [L S].
    unfold channels. rewrite Hok. f_equal. pose proof (channels_thm nc data _ ltac:(unfold channels; rewrite Hok; reflexivity)) as [L' S'].
    apply (nth_ext _ _ 0 0); [lia|]. intros n Hn. rewrite L' in Hn.
    destruct (nth_error_lt_some data n Hn) as [t Ht].
    destruct (S n t Ht) as (c & Ec & Hc). destruct (S' n t Ht) as (c' & Ec' & Hc').
    rewrite (nth_error_nth' _ _ _ 0 Ec), (nth_error_nth' _ _ _ 0 Ec'), (IsPeakChannel_unique _ _ _ _ _ Hc Hc'). reflexivity.
  - intros H. apply peak_channels_b_complete; [exact Hok|]. now apply channels_thm.
Qed.
Print Assumptions C09_checker_channels_exact.

(* OUTSIDE the dense reading (outcome only).  A feature store loaded without pc_feature_ind.npy has no column
   table (sparse_features.cols is None): get_depths raises (TypeError: None is not subscriptable) exactly when the
   store has one row per spike, and returns None otherwise (the row-count exit comes first). *)
Theorem C09_depths_nocols : forall nspikes nrows : Z,
  (nrows = nspikes -> get_depths_nocols nspikes nrows = None) /\
  (nrows <> nspikes -> get_depths_nocols nspikes nrows = Some None).
Proof. exact get_depths_nocols_spec. Qed.
Print Assumptions C09_depths_nocols.

(* sparse templates: _channels returns the first stored channel of every template *)
Theorem C09_sparse_channels : forall (cols : mat),
  length (channels_sparse cols) = length cols /\
  forall n r, nth_error cols n = Some r -> nth_error (channels_sparse cols) n = Some (nth 0 r 0).
Proof.
  intros cols. unfold channels_sparse. split; [apply map_length|].
  intros n r H. now rewrite nth_error_map, H.
Qed.
Print Assumptions C09_sparse_channels.

(* ---- link to C05 (TemplateModel.get_template, dense storage) ---------------------------------------------
   `transpose nc t` is the stored (n_samples, nc) array t in C05's representation (list of columns). *)

(* C05's _unwhiten of a dense template is C09's np.matmul(data[n], wmi), entry by entry (times template_scaling) *)
Theorem C09_link_unwhitened : forall (W : mat) (sc : Z) (t : mat),
  (1 <= length W)%nat -> (1 <= length t)%nat -> forallb (row_ok (length W)) t = true ->
  exists U, C05.Model.unwhiten_dense W sc (transpose (length W) t) = Some U /\
    length U = length W /\
    (forall c, (c < length W)%nat -> length (nth c U []) = length t) /\
    forall s c, (s < length t)%nat -> (c < length W)%nat -> nth s (nth c U []) 0 = unwh W t s c * sc.
Proof. exact link_unwhitened. Qed.
Print Assumptions C09_link_unwhitened.

Theorem C09_link_unwhitened_same : forall (W : mat) (t : mat),
  (1 <= length W)%nat -> (1 <= length t)%nat -> forallb (row_ok (length W)) t = true ->
  C05.Model.unwhiten_dense W 1 (transpose (length W) t) = Some (transpose (length W) (matmulZ t W (length W))).
Proof. exact link_unwhitened_same. Qed.
Print Assumptions C09_link_unwhitened_same.

(* per-channel peak-to-peak and first arg-max: the two models compute the same vectors / indices *)
Theorem C09_link_amplitudes : forall (nc : nat) (t : mat),
  map C05.Model.ptp (transpose nc t) = ch_amps nc t /\
  C05.Model.argmax_first (map C05.Model.ptp (transpose nc t)) = argmax (ch_amps nc t).
Proof. intros nc t. split; [apply amps_agree|]. rewrite amps_agree. apply argmax_agree. Qed.
Print Assumptions C09_link_amplitudes.

(* "the largest channel peak-to-peak of the spike's unwhitened template" of C09_spike_amps (templates_amps_au[n])
   IS the first entry of the amplitude vector of get_template(n) -- the record that C05 proves aligned
   (column j = unwhitened template on channel_ids[j], amplitude[j] = its peak-to-peak) and sorted -- and the
   amplitude of that record's best_channel.  (template_scaling = 1: get_amplitudes_true does not apply it.) *)
Theorem C09_link_peak_amp : forall argsort, C05.Spec.Argsort_ok argsort ->
  forall (i : amp_in) (d : C05.Model.dataset) (n : nat) (t : mat) (rec : C05.Model.trec),
  wf_amp i = true -> nth_error (ai_data i) n = Some t -> Z.of_nat n < ai_nwav i ->
  C05.Model.d_cols d = None -> 0 <= C05.Model.d_nclosest d ->
  C05.Model.d_wmi d = ai_wmi i -> C05.Model.d_scale d = 1 ->
  nth_error (C05.Model.d_templates d) n = Some (transpose (length (ai_wmi i)) t) ->
  C05.Model.get_template argsort d (C05.Model.default_request n) = Some rec ->
  let a := nth 0 (C05.Model.t_amplitude rec) 0 in
  nth_error (amps_au i) n = Some a /\
  IsPeakAmp (unwh (ai_wmi i) t) (length t) (length (ai_wmi i)) a /\
  (exists T, C05.Spec.Full_template d (C05.Model.default_request n) T /\
             C05.Spec.Aligned T rec /\ C05.Spec.Sorted_rec T rec /\
             a = C05.Spec.amp_of T (C05.Model.t_best rec)).
Proof. exact link_peak_amp. Qed.
Print Assumptions C09_link_peak_amp.

(* C09_spike_amps composed with the link: with the dataset's templates in C05's representation, the scaled
   amplitude of spike k is stored amplitude * FIRST amplitude of get_template(spike_templates[k]) * unit factor *)
Theorem C09_link_spike_amps : forall argsort, C05.Spec.Argsort_ok argsort ->
  forall (i : amp_in) (d : C05.Model.dataset) (factor : Q) (o : amp_out QN) (k : nat) (s a : Z) (rec : C05.Model.trec),
  amplitudes_true_Q i (Some factor) = Some o ->
  (forall s', In s' (ai_spikes i) -> s' < ai_nwav i) ->
  nth_error (ai_spikes i) k = Some s -> nth_error (ai_amps i) k = Some a ->
  C05.Model.d_cols d = None -> 0 <= C05.Model.d_nclosest d ->
  C05.Model.d_wmi d = ai_wmi i -> C05.Model.d_scale d = 1 ->
  C05.Model.d_templates d = map (transpose (length (ai_wmi i))) (ai_data i) ->
  C05.Model.get_template argsort d (C05.Model.default_request (Z.to_nat s)) = Some rec ->
  exists q, nth_error (ao_spike o) k = Some (Some q) /\
            (q == inject_Z a * inject_Z (nth 0%nat (C05.Model.t_amplitude rec) 0%Z) * factor)%Q.
Proof. exact link_spike_amps. Qed.
Print Assumptions C09_link_spike_amps.

(* _channels (templates_channels / clusters_channels, computed on the STORED template) returns the best_channel
   of get_template(n, unwhiten=False), for any channel list / threshold of the request *)
Theorem C09_link_peak_channel : forall argsort (nc : nat) (data : list mat) (out : list Z) (d : C05.Model.dataset)
    (n : nat) (t : mat) (r : C05.Model.request) (rec : C05.Model.trec),
  channels nc data = Some out -> nth_error data n = Some t ->
  C05.Model.d_cols d = None ->
  nth_error (C05.Model.d_templates d) n = Some (transpose nc t) ->
  C05.Model.r_tid r = n -> C05.Model.r_unwhiten r = false ->
  C05.Model.get_template argsort d r = Some rec ->
  nth_error out n = Some (Z.of_nat (C05.Model.t_best rec)).
Proof. exact link_peak_channel. Qed.
Print Assumptions C09_link_peak_channel.

(* ---- non-vacuity of the stage 3 theorems ---- *)
(* negative amplitudes on template 1 (mean -9/2), template 0 flat with two spikes, template 2 without spikes *)
Definition ex_edge : amp_in :=
  mk_amp_in [ [[3; 3]; [3; 3]] ; [[0; 5]; [4; -1]] ; [[7; 7]; [7; 0]] ] [[1; 0]; [0; 1]] [1; 0; 1; 0] [-2; 3; -7; 5] 3.
Example C09_ex_edge :
  option_map (fun o => (ao_tamps o, nth 0 (ao_phys o) [], nth 1 (ao_phys o) []))
             (amplitudes_true_Q ex_edge (Some 1%Q)) =
  Some ([Some (inject_Z 0 / inject_Z 2 * 1); Some (inject_Z (-54) / inject_Z 2 * 1); None]%Q,
        [[None; None]; [None; None]],
        [[Some (inject_Z 0 * (inject_Z (-54) / inject_Z 2 / inject_Z 6) * 1); Some (inject_Z 5 * (inject_Z (-54) / inject_Z 2 / inject_Z 6) * 1)];
         [Some (inject_Z 4 * (inject_Z (-54) / inject_Z 2 / inject_Z 6) * 1); Some (inject_Z (-1) * (inject_Z (-54) / inject_Z 2 / inject_Z 6) * 1)]]%Q).
Proof. vm_compute. reflexivity. Qed.
(* template 1 = [[0;5];[4;-1]]: peak-to-peak 4 and 6; scaled by -27/6: entries 0, -45/2, -18, 9/2: peak-to-peak 27 = |-27| *)
Example C09_ex_edge_peaks :
  IsPeakAmp (unwh (ai_wmi ex_edge) [[0; 5]; [4; -1]]) 2 2 6 /\ IsPeakAmp (unwh (ai_wmi ex_edge) [[3; 3]; [3; 3]]) 2 2 0.
Proof.
  split.
  - exists [4; 6]. split; [split; [reflexivity|]|].
    + intros [|[|c]] Hc; [| |exfalso; lia].
      * exists 4, 0. vm_compute. repeat split; auto; intros x [<-|[<-|[]]]; discriminate.
      * exists 5, (-1). vm_compute. repeat split; auto; intros x [<-|[<-|[]]]; discriminate.
    + split; [cbn; auto|]. intros x [<-|[<-|[]]]; discriminate.
  - exists [0; 0]. split; [split; [reflexivity|]|].
    + intros [|[|c]] Hc; [| |exfalso; lia]; exists 3, 3; vm_compute; repeat split; auto; intros x [<-|[<-|[]]]; discriminate.
    + split; [cbn; auto|]. intros x [<-|[<-|[]]]; discriminate.
Qed.
Example C09_ex_nocols : get_depths_nocols 9 9 = None /\ get_depths_nocols 9 4 = Some None /\
                        channels_sparse [[1; 0; 2]; [2; 1; 0]] = [1; 2].
Proof. repeat split. Qed.
(* the link on C05's own example dataset (C05_ex_dense: amplitudes 3, 10, 28, 9; record amplitude [28; 10]) *)
Definition ex_link_t : mat := [[0; 0; 0; 0]; [5; 3; 9; 7]; [0; 0; 0; 0]].       (* rows of C05's template 0 *)
Definition ex_link_in : amp_in :=
  mk_amp_in [ex_link_t] [[0; 2; 0; 0]; [1; 0; 0; 0]; [0; 0; 0; -1]; [0; 0; 4; 0]] [0; 0] [1; 2] 1.
Example C09_ex_link :
  transpose 4 ex_link_t = [[0; 5; 0]; [0; 3; 0]; [0; 9; 0]; [0; 7; 0]] /\
  wf_amp ex_link_in = true /\ amps_au ex_link_in = [28] /\
  option_map C05.Model.t_amplitude
    (C05.Model.get_template NpSort.stable_argsort
       (C05.Model.mkds [transpose 4 ex_link_t] None (ai_wmi ex_link_in) 1
          [C05.Model.mkpos 0 0; C05.Model.mkpos 0 20; C05.Model.mkpos 0 40; C05.Model.mkpos 0 60] [0; 1; 1; 1] 2 (C05.Model.mkthr 0 1))
       (C05.Model.default_request 0)) = Some [28; 10] /\
  channels 4 [ex_link_t] = Some [2].
Proof. repeat split; vm_compute; reflexivity. Qed.

(* ---- definedness: the model returns exactly inside the shape guards (= where NumPy does not raise) ---- *)
Theorem C09_defined_iff : forall (i : amp_in) (f : QN),
  (exists o, amplitudes_true_Q i f = Some o) <-> wf_amp i = true.
Proof.
  intros i f. split; [|apply amplitudes_true_total].
  intros [o H]. now destruct (amplitudes_true_Q_unfold _ _ _ H).
Qed.
Print Assumptions C09_defined_iff.

Theorem C09_channels_defined_iff : forall (nc : nat) (data : list mat) (rate : QN),
  ((exists out, channels nc data = Some out) <-> data_ok nc data = true) /\
  ((exists out, waveform_durations_Q nc data rate = Some out) <-> data_ok nc data = true).
Proof.
  intros nc data rate. unfold channels, waveform_durations_Q, waveform_durations.
  destruct (data_ok nc data); split; split; intros H;
    first [reflexivity | eexists; reflexivity | discriminate | (destruct H; discriminate)].
Qed.
Print Assumptions C09_channels_defined_iff.

(* ---- the justification of the comparator's InBig cases (datasets of 50 000 ... 150 003 spikes) as a theorem ----
   get_depths returns, for spike k, a value that depends only on the features and the template of spike k: on the
   dataset that repeats a period of K spikes n times round (tile), for EVERY batch size, the result is the result
   on one period, repeated.  Corr.check_big evaluates the model on the period and compares cyclically. *)
Theorem C09_depths_periodic : forall (nbatch : Z) (pos : mat) (data : list mat) (cols : mat) (st : list Z) (n : nat),
  1 <= nbatch -> data <> [] -> length st = length data ->
  let i1 := mk_depth_in (zlen data) (Some (data, cols)) st pos in
  let iN := mk_depth_in (Z.of_nat n) (Some (tile n data [], cols)) (tile n st 0) pos in
  wf_depth i1 = true ->
  exists pat out,
    get_depths_Q nbatch i1 = Some (Some pat) /\ length pat = length data /\
    get_depths_Q nbatch iN = Some (Some out) /\ length out = n /\
    forall k, (k < n)%nat -> nth k out None = nth (k mod length data)%nat pat None.
Proof. exact depths_periodic_thm. Qed.
Print Assumptions C09_depths_periodic.

Example C09_ex_periodic :     (* the period of C09_ex_depths, 7 spikes, batch size 3 *)
  match ex_depth with
  | mk_depth_in _ (Some (data, cols)) st pos =>
      option_map (option_map (map (fun x => match x with Some q => Some (Qred q) | None => None end)))
        (get_depths_Q 3 (mk_depth_in 7 (Some (tile 7 data [], cols)) (tile 7 st 0) pos))
  | _ => None
  end = Some (Some [Some (10 # 1); None; Some (30 # 1); Some (10 # 1); None; Some (30 # 1); Some (10 # 1)]%Q).
Proof. vm_compute. reflexivity. Qed.

(* =====================================================================================================
   Stage 5: the guard "every id is below n_wav" of C09_spike_amps / C09_rescaled_peak is a condition on a value
   the LOADER computes (self.n_clusters / self.n_templates), not on the dataset.  The statement's reading is the
   model with n_wav = the number of stored waveforms (Spec3.full_ai): there the guard holds by the shape guard
   alone, so the clauses hold for every id that has a stored waveform; and the guard is NEEDED -- with a loop
   bound below the number of stored waveforms (e.g. the number of ids in use, when the ids in use have a gap)
   the same code returns amplitude 0 for the spikes of the highest ids.  Corr.check_amp judges the observed
   values against the full_ai instance and requires the loaded n_wav to be the number of stored waveforms.
   ===================================================================================================== *)
Theorem C09_full_guard : forall (i : amp_in), wf_amp (full_ai i) = true ->
  (forall s, In s (ai_spikes (full_ai i)) -> s < ai_nwav (full_ai i)) /\ (forall n, (n < length (ai_data (full_ai i)))%nat -> Z.of_nat n < ai_nwav (full_ai i)).
Proof.
  intros i H. apply wf_amp_WF in H. split.
  - intros s Hs. destruct (wf_spikes _ H s Hs) as [_ Hlt]. exact Hlt.
  - intros n Hn. cbn [full_ai ai_nwav ai_data] in *. unfold zlen. lia.
Qed.
Print Assumptions C09_full_guard.

(* the spike-amplitude clause with no hypothesis on the loader: whenever the loaded loop bound is the number of
   stored waveforms (nwav_full_b, which the comparator checks on every loaded model) *)
Theorem C09_spike_amps_full : forall (i : amp_in) (factor : Q) (o : amp_out QN),
  nwav_full_b i = true ->
  amplitudes_true_Q i (Some factor) = Some o ->
  Spec_spike_amps i factor (ao_spike o).
Proof.
  intros i factor o Hn Ho. apply C09_spike_amps; [exact Ho|].
  assert (Hwf : wf_amp i = true).
  { unfold amplitudes_true_Q, amplitudes_true in Ho. destruct (wf_amp i); [reflexivity|discriminate]. }
  apply wf_amp_WF in Hwf. intros s Hs. destruct (wf_spikes _ Hwf s Hs) as [_ Hlt].
  unfold nwav_full_b in Hn. apply Z.eqb_eq in Hn. lia.
Qed.
Print Assumptions C09_spike_amps_full.

(* ... and the guard is needed: three stored cluster waveforms, ids in use {0, 2} (id 1 has no spike), loop
   bound 2 = the number of ids in use: the shape guard holds, nothing raises, and the spikes of cluster 2 get
   amplitude 0 although the unwhitened waveform of cluster 2 has peak-to-peak 7 *)
Definition ex_gap : amp_in :=
  mk_amp_in [ [[1; 0]; [-2; 3]] ; [[0; 5]; [4; -1]] ; [[7; 7]; [7; 0]] ] [[1; 2]; [0; -1]] [2; 0; 2; 0] [2; 3; 4; 5] 2.
Example C09_ex_guard_needed :
  wf_amp ex_gap = true /\ ids_below_nwav_b ex_gap = false /\ nwav_full_b ex_gap = false /\ option_map (@ao_spike QN) (amplitudes_true_Q ex_gap (Some 1%Q)) =
    Some [Some (inject_Z 0 * 1); Some (inject_Z 27 * 1); Some (inject_Z 0 * 1); Some (inject_Z 45 * 1)]%Q /\ option_map (@ao_spike QN) (amplitudes_true_Q (full_ai ex_gap) (Some 1%Q)) =
    Some [Some (inject_Z 14 * 1); Some (inject_Z 27 * 1); Some (inject_Z 28 * 1); Some (inject_Z 45 * 1)]%Q /\ ~ Spec_spike_amps ex_gap 1 [Some (inject_Z 0 * 1); Some (inject_Z 27 * 1); Some (inject_Z 0 * 1); Some (inject_Z 45 * 1)]%Q.
Proof.
  refine (conj _ (conj _ (conj _ (conj _ (conj _ _))))); try (vm_compute; reflexivity).
  intros [_ H]. destruct (H 0%nat 2 2 eq_refl eq_refl) as (t & au & q & Ht & Hpk & Hq & Heq).
  cbn in Ht. injection Ht as <-. cbn in Hq. injection Hq as <-.
  assert (Hau : au = 7).
  { apply (IsPeakAmp_unique _ _ _ _ _ Hpk). cbn [ex_gap ai_wmi length].
    exists [0; 7]. split.
    - split; [reflexivity|]. intros c Hc. destruct c as [|[|c]]; [| |lia].
      + exists 7, 7. repeat split; vm_compute; try tauto; intros x [<-|[<-|[]]]; discriminate.
      + exists 14, 7. repeat split; vm_compute; try tauto; intros x [<-|[<-|[]]]; discriminate.
    - split; [cbn; tauto|]. intros x [<-|[<-|[]]]; lia. }
  subst au. vm_compute in Heq. discriminate.
Qed.

(* ---- Stage 6: histories on one model.  templates_amplitudes / clusters_amplitudes are properties evaluated on
   the arrays the model holds at the moment of the read: after every caller-side update of model.spike_clusters
   (merge, split, move, renumbering; in place or by re-assignment) or of model.amplitudes, the result is the
   per-present-id mean over the CURRENT arrays -- each state of a history is an instance of C09_mean_amps, whatever
   the earlier states were (Corr.check_hist judges every state of a generated history against mean_amps_Q on the
   arrays of that state). *)
Theorem C09_mean_amps_history : forall (states : list (list Z * list Z)),
  (forall sa, In sa states -> (forall s, In s (fst sa) -> 0 <= s) /\ length (snd sa) = length (fst sa)) ->
  Forall (fun sa => exists out, mean_amps_Q (fst sa) (snd sa) = Some out /\ Spec_mean_amps (fst sa) (snd sa) out) states.
Proof.
  intros states H. apply Forall_forall. intros sa Hin. destruct (H sa Hin) as [Hp Hl].
  apply C09_mean_amps; assumption.
Qed.
Print Assumptions C09_mean_amps_history.
(* as loaded: ids {0,1,2,3}; clusters 1 and 2 merged into the new id 5 (ids {0,3,5}: two ids vanish, one appears);
   then half of cluster 3 split off into the new id 6 *)
Example C09_ex_history :
  map (fun sa => mean_amps_Q (fst sa) (snd sa))
      [ ([0; 1; 2; 3; 1; 3], [2; 4; 6; 8; 10; 12]); ([0; 5; 5; 3; 5; 3], [2; 4; 6; 8; 10; 12]);
        ([0; 5; 5; 6; 5; 3], [2; 4; 6; 8; 10; 12]) ] =
  [ Some [Some (inject_Z 2 / inject_Z 1); Some (inject_Z 14 / inject_Z 2); Some (inject_Z 6 / inject_Z 1); Some (inject_Z 20 / inject_Z 2)];
    Some [Some (inject_Z 2 / inject_Z 1); Some (inject_Z 20 / inject_Z 2); Some (inject_Z 20 / inject_Z 3)];
    Some [Some (inject_Z 2 / inject_Z 1); Some (inject_Z 12 / inject_Z 1); Some (inject_Z 20 / inject_Z 3); Some (inject_Z 8 / inject_Z 1)] ]%Q.
Proof. vm_compute. reflexivity. Qed.
