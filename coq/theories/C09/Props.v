(* C09/Props.v -- the property theorems, and nothing else.  Exact arithmetic: stored arrays over Z,
   float-valued results over option Q (None = NaN), for every size of every array. *)
From Coq Require Import ZArith QArith List Bool Sorted.
From PV Require Import C09.Model C09.Spec C09.Proofs.
Import ListNotations.
Open Scope Z_scope.

(* Scaled spike amplitudes: for every spike k, stored amplitude * largest channel peak-to-peak of the
   unwhitened template of the spike's id * unit factor.  (Every loaded model has all ids < n_wav.) *)
Theorem C09_spike_amps : forall (i : amp_in) (factor : Q) (o : amp_out QN),
  amplitudes_true_Q i (Some factor) = Some o ->
  (forall s, In s (ai_spikes i) -> s < ai_nwav i) ->
  Spec_spike_amps i factor (ao_spike o).
Proof. exact spike_amps_thm. Qed.
Print Assumptions C09_spike_amps.

(* ---- non-vacuity ---- *)
Definition ex_in : amp_in :=
  mk_amp_in [ [[1; 0]; [-2; 3]] ; [[0; 5]; [4; -1]] ; [[7; 7]; [7; 0]] ]   (* three 2x2 templates *)
            [[1; 2]; [0; -1]]                                               (* wmi, not symmetric *)
            [1; 0; 1; 0] [2; 3; 4; 5] 3.                                    (* template 2 has no spike *)
Example C09_ex_amplitudes :
  option_map (fun o => (ao_spike o, ao_tamps o)) (amplitudes_true_Q ex_in (Some (5 # 2))) =
  Some ([Some (inject_Z 28 * (5 # 2)); Some (inject_Z 27 * (5 # 2)); Some (inject_Z 56 * (5 # 2)); Some (inject_Z 45 * (5 # 2))]%Q,
        [Some (inject_Z 72 / inject_Z 2 * (5 # 2)); Some (inject_Z 84 / inject_Z 2 * (5 # 2)); None]%Q).
Proof. vm_compute. reflexivity. Qed.
