(* C09/Link.v -- stage 3: the link between C09's model (get_amplitudes_true / _channels) and C05's model of
   TemplateModel.get_template on DENSE storage.

   C09 stores a template as its (n_samples, n_channels) rows; C05 as the list of its columns.  `transpose` is
   the change of representation of the SAME stored array.  Proved here:
   * C05's _unwhiten of a dense template is C09's np.matmul(data[n], wmi), entry by entry (and, for
     template_scaling = 1, the two unwhitened templates are the same matrix);
   * the per-channel peak-to-peak vectors and the first arg-max of the two models coincide;
   * "the largest channel peak-to-peak of the spike's unwhitened template" (templates_amps_au[n], the quantity
     of C09_spike_amps) is the FIRST entry of the amplitude vector of the record get_template(n) -- the record
     C05 proves aligned and sorted -- and the amplitude of its best_channel;
   * _channels (on the stored template) returns best_channel of get_template(n, unwhiten=False).
   C05's names are used qualified (both developments define lmax, ptp, argmax_from ...). *)
From Coq Require Import ZArith QArith List Bool Lia Arith.
(* C05 first, C09 last: unqualified names are C09's *)
From PV Require Import C05.Model C05.Spec C05.Proofs C05.Proofs3 C05.Proofs9 C05.Props.
From PV Require Import C09.Model C09.Spec C09.Proofs C09.Proofs2 C09.Proofs3 C09.Proofs5.
Import ListNotations.
Open Scope Z_scope.

(* the stored (n_samples, n_channels) array as the list of its nc columns *)
Definition transpose (nc : nat) (t : mat) : list (list Z) := map (fun c => colZ c t) (seq 0 nc).

Lemma transpose_length nc t : length (transpose nc t) = nc.
Proof. unfold transpose. now rewrite map_length, seq_length. Qed.
Lemma transpose_nth nc t c : (c < nc)%nat -> nth c (transpose nc t) [] = colZ c t.
Proof. intros H. unfold transpose. exact (nth_map_seq (fun c => colZ c t) nc c [] H). Qed.
Lemma colZ_length c (t : mat) : length (colZ c t) = length t.
Proof. unfold colZ. now rewrite map_length. Qed.
Lemma colZ_nth c (t : mat) s : (s < length t)%nat -> nth s (colZ c t) 0 = entry t s c.
Proof. intros H. unfold colZ, entry. now rewrite (nth_map_in _ t s 0 []) by exact H. Qed.
Lemma n_samples_transpose nc t : (1 <= nc)%nat -> C05.Model.n_samples (transpose nc t) = length t.
Proof.
  intros H. unfold transpose. destruct nc as [|k]; [lia|]. cbn [seq map C05.Model.n_samples]. apply colZ_length.
Qed.

(* ---------- the primitives of the two models agree ---------- *)
Lemma lmax_agree l : C05.Model.lmax l = lmax l.
Proof.
  destruct l as [|x r]; [reflexivity|]. cbn [C05.Model.lmax lmax]. symmetry.
  apply fold_symmetric; intros; [apply Z.max_assoc|apply Z.max_comm].
Qed.
Lemma lmin_agree l : C05.Model.lmin l = lmin l.
Proof.
  destruct l as [|x r]; [reflexivity|]. cbn [C05.Model.lmin lmin]. symmetry.
  apply fold_symmetric; intros; [apply Z.min_assoc|apply Z.min_comm].
Qed.
Lemma ptp_agree (t : mat) c : C05.Model.ptp (colZ c t) = ptp_of t c.
Proof. unfold C05.Model.ptp, ptp_of. now rewrite lmax_agree, lmin_agree. Qed.
(* template.max(axis=0) - template.min(axis=0) of C05 = x.max(axis=1) - x.min(axis=1) of C09 *)
Lemma amps_agree nc t : map C05.Model.ptp (transpose nc t) = ch_amps nc t.
Proof. unfold transpose, ch_amps. rewrite map_map. apply map_ext. intros c. apply ptp_agree. Qed.
Lemma argmax_from_agree l : forall i bi bv, C05.Model.argmax_from l i bi bv = argmax_from bv bi i l.
Proof.
  induction l as [|x r IH]; intros i bi bv; cbn [C05.Model.argmax_from argmax_from]; [reflexivity|].
  destruct (bv <? x); apply IH.
Qed.
Lemma argmax_agree l : C05.Model.argmax_first l = argmax l.
Proof. destruct l as [|x r]; [reflexivity|]. cbn [C05.Model.argmax_first argmax]. apply argmax_from_agree. Qed.

(* ---------- _unwhiten (C05) = np.matmul(data[n], wmi) (C09) ---------- *)
Theorem link_unwhitened : forall (W : mat) (sc : Z) (t : mat),
  (1 <= length W)%nat -> (1 <= length t)%nat -> forallb (row_ok (length W)) t = true ->
  exists U, C05.Model.unwhiten_dense W sc (transpose (length W) t) = Some U /\
    length U = length W /\
    (forall c, (c < length W)%nat -> length (nth c U []) = length t) /\
    forall s c, (s < length t)%nat -> (c < length W)%nat -> nth s (nth c U []) 0 = unwh W t s c * sc.
Proof.
  intros W sc t HW Ht Hrows.
  destruct (C05.Model.unwhiten_dense W sc (transpose (length W) t)) as [U|] eqn:E.
  2:{ unfold C05.Model.unwhiten_dense in E. rewrite transpose_length, Nat.eqb_refl in E. discriminate. }
  exists U. split; [reflexivity|].
  destruct (C05.Proofs.unwhiten_dense_spec _ _ _ _ E) as [_ [HL HU]].
  rewrite (n_samples_transpose _ t HW) in HU.
  split; [exact HL|]. split; [intros c Hc; apply (HU c Hc)|].
  intros s c Hs Hc. destruct (HU c Hc) as [_ Hv]. rewrite (Hv s Hs). f_equal.
  unfold unwh, C05.Spec.zsum, zsum. f_equal. apply map_ext_in. intros k Hk. apply in_seq in Hk.
  rewrite transpose_nth by lia. rewrite colZ_nth by exact Hs. reflexivity.
Qed.

(* with template_scaling = 1 the two unwhitened templates are the same matrix *)
Theorem link_unwhitened_same : forall (W : mat) (t : mat),
  (1 <= length W)%nat -> (1 <= length t)%nat -> forallb (row_ok (length W)) t = true ->
  C05.Model.unwhiten_dense W 1 (transpose (length W) t) =
  Some (transpose (length W) (matmulZ t W (length W))).
Proof.
  intros W t HW Ht Hrows. destruct (link_unwhitened W 1 t HW Ht Hrows) as (U & E & HL & Hlen & Hv).
  rewrite E. f_equal. apply (nth_ext _ _ [] []); [now rewrite transpose_length|].
  intros c Hc. rewrite HL in Hc. rewrite transpose_nth by exact Hc.
  apply (nth_ext _ _ 0 0); [now rewrite colZ_length, matmul_length, Hlen|].
  intros s Hs. rewrite (Hlen c Hc) in Hs. rewrite (Hv s c Hs Hc), Z.mul_1_r.
  rewrite colZ_nth by (now rewrite matmul_length). symmetry. apply matmul_entry; [exact Hs|exact Hc|].
  rewrite forallb_forall in Hrows. specialize (Hrows (nth s t []) (nth_In _ _ Hs)). now apply Nat.eqb_eq.
Qed.

(* ---------- the peak amplitude of C09 is the head of C05's amplitude vector ---------- *)
Section Oracle.
Variable argsort : list Z -> list nat.
Hypothesis AS : C05.Spec.Argsort_ok argsort.

Theorem link_peak_amp : forall (i : amp_in) (d : C05.Model.dataset) (n : nat) (t : mat) (rec : C05.Model.trec),
  wf_amp i = true -> nth_error (ai_data i) n = Some t -> Z.of_nat n < ai_nwav i ->
  C05.Model.d_cols d = None -> 0 <= C05.Model.d_nclosest d ->
  C05.Model.d_wmi d = ai_wmi i -> C05.Model.d_scale d = 1 ->
  nth_error (C05.Model.d_templates d) n = Some (transpose (length (ai_wmi i)) t) ->
  C05.Model.get_template argsort d (C05.Model.default_request n) = Some rec ->
  let a := nth 0 (C05.Model.t_amplitude rec) 0 in
  nth_error (amps_au i) n = Some a /\
  IsPeakAmp (unwh (ai_wmi i) t) (length t) (length (ai_wmi i)) a /\
  (exists T, C05.Spec.Full_template d (C05.Model.default_request n) T /\
             C05.Spec.Aligned T rec /\ C05.Spec.Sorted_rec T rec /\
             a = C05.Spec.amp_of T (C05.Model.t_best rec)).
Proof.
  intros i d n t rec Ewf Ht Hn Hc Hnc HW Hsc Hd Hrec a.
  pose proof (wf_amp_WF i Ewf) as W.
  assert (Htin : In t (ai_data i)) by (eapply nth_error_In; eauto).
  destruct (wf_data i W t Htin) as [Hns Hrows]. pose proof (wf_nc i W) as Hnc1.
  set (r := C05.Model.default_request n) in *.
  destruct (C05.Props.C05_sorted argsort AS d r rec Hc Hnc eq_refl Hrec) as (T & FT & HS).
  destruct (C05.Props.C05_dense_aligned argsort AS d r rec Hc Hnc Hrec) as (T' & FT' & HA).
  rewrite (C05.Props.C05_full_template_unique d r T' T FT' FT) in HA. clear T' FT'.
  (* the full template of the request is the transposed C09 unwhitened template *)
  set (nc := length (ai_wmi i)) in *.
  set (wfs := matmulZ t (ai_wmi i) nc).
  assert (ET : T = transpose nc wfs).
  { destruct FT as (cols & Ecols & Hfull). cbn [r C05.Model.default_request C05.Model.r_tid C05.Model.r_unwhiten] in Ecols, Hfull.
    rewrite Hd in Ecols. injection Ecols as <-. destruct Hfull as [_ HU]. rewrite HW, Hsc in HU.
    pose proof (link_unwhitened_same (ai_wmi i) t Hnc1 Hns Hrows) as Esame. fold nc in Esame. fold wfs in Esame.
    destruct (C05.Proofs.unwhiten_dense_spec _ _ _ _ Esame) as [_ HU'].
    exact (C05.Proofs3.Unwhitened_unique _ _ _ _ _ HU HU'). }
  assert (Eamp : forall c, (c < nc)%nat -> C05.Spec.amp_of T c = nth c (ch_amps nc wfs) 0).
  { intros c Hcc. unfold C05.Spec.amp_of. rewrite ET, transpose_nth by exact Hcc.
    rewrite ptp_agree. symmetry. now apply ch_amps_nth. }
  assert (HTl : length T = nc) by (rewrite ET; apply transpose_length).
  set (A := ch_amps nc wfs).
  assert (HAl : length A = nc) by (unfold A, ch_amps; now rewrite map_length, seq_length).
  pose proof HS as HS0. destruct HS as (ND & NI & Hin & [Hb Hpk] & Hhd).
  rewrite HTl in Hb, Hpk.
  (* the amplitude of the best channel is the maximum of the per-channel amplitudes *)
  assert (Hmax : C05.Spec.amp_of T (C05.Model.t_best rec) = lmax A).
  { apply (IsMax_unique _ _ A); [|apply lmax_IsMax; intros E; rewrite E in HAl; cbn in HAl; lia].
    split.
    - rewrite (Eamp _ Hb). apply nth_In. fold A. lia.
    - intros x Hx. destruct (In_nth A x 0 Hx) as (c & Hcl & <-). rewrite HAl in Hcl.
      fold A in Eamp. rewrite <- (Eamp c Hcl). now apply Hpk. }
  (* the head of the amplitude vector is the amplitude of the first listed channel = that of the best channel *)
  assert (Ea : a = C05.Spec.amp_of T (C05.Model.t_best rec)).
  { destruct HA as (L1 & L2 & Hal).
    destruct (C05.Model.t_channels rec) as [|c0 chs] eqn:Ech; [destruct Hin|].
    destruct (Hal 0%nat ltac:(cbn; lia)) as (_ & Etmp & Eam). cbn [nth] in Etmp.
    unfold a. rewrite Eam, Etmp. fold (C05.Spec.amp_of T c0). now apply Hhd. }
  split; [|split].
  - rewrite Ea, Hmax. now apply amps_au_nth.
  - rewrite Ea, Hmax. now apply unwhitened_peak.
  - exists T. split; [exact FT|]. split; [exact HA|]. split; [exact HS0|exact Ea].
Qed.

(* ---------- _channels = best_channel of get_template(n, unwhiten=False) ---------- *)
Theorem link_peak_channel : forall (nc : nat) (data : list mat) (out : list Z) (d : C05.Model.dataset)
    (n : nat) (t : mat) (r : C05.Model.request) (rec : C05.Model.trec),
  channels nc data = Some out -> nth_error data n = Some t ->
  C05.Model.d_cols d = None ->
  nth_error (C05.Model.d_templates d) n = Some (transpose nc t) ->
  C05.Model.r_tid r = n -> C05.Model.r_unwhiten r = false ->
  C05.Model.get_template argsort d r = Some rec ->
  nth_error out n = Some (Z.of_nat (C05.Model.t_best rec)).
Proof.
  intros nc data out d n t r rec Hch Ht Hc Hd Htid Hunw Hrec.
  unfold channels in Hch. destruct (data_ok nc data); [|discriminate]. injection Hch as <-.
  unfold peak_channels. rewrite !nth_error_map, Ht. cbn [option_map]. do 2 f_equal.
  unfold C05.Model.get_template in Hrec. rewrite Hc in Hrec.
  unfold C05.Model.get_template_dense, C05.Model.dense_full in Hrec. rewrite Htid, Hd, Hunw in Hrec.
  destruct (negb _); [discriminate|].
  destruct (C05.Model.find_best_channels _ _ _ _ _ _) as [b|] eqn:Eb; [|discriminate].
  pose proof (C05.Proofs9.find_best_best argsort _ _ _ _ _ _ Eb) as Ebest.
  destruct (match C05.Model.r_chans r with Some _ => _ | None => _ end) as [ids|]; [|discriminate].
  injection Hrec as <-. cbn [C05.Model.t_best]. rewrite Ebest, amps_agree. symmetry. apply argmax_agree.
Qed.
(* ---------- composition with C09_spike_amps: every scaled spike amplitude in terms of the C05 record ---------- *)
Theorem link_spike_amps : forall (i : amp_in) (d : C05.Model.dataset) (factor : Q) (o : amp_out QN)
    (k : nat) (s a : Z) (rec : C05.Model.trec),
  amplitudes_true_Q i (QF factor) = Some o ->
  (forall s', In s' (ai_spikes i) -> s' < ai_nwav i) ->
  nth_error (ai_spikes i) k = Some s -> nth_error (ai_amps i) k = Some a ->
  C05.Model.d_cols d = None -> 0 <= C05.Model.d_nclosest d ->
  C05.Model.d_wmi d = ai_wmi i -> C05.Model.d_scale d = 1 ->
  C05.Model.d_templates d = map (transpose (length (ai_wmi i))) (ai_data i) ->
  C05.Model.get_template argsort d (C05.Model.default_request (Z.to_nat s)) = Some rec ->
  exists q, nth_error (ao_spike o) k = Some (Some q) /\
            (q == inject_Z a * inject_Z (nth 0%nat (C05.Model.t_amplitude rec) 0%Z) * factor)%Q.
Proof.
  intros i d factor o k s a rec H Hlt Hs Ha Hc Hnc HW Hsc Hd Hrec.
  destruct (spike_amps_thm i factor o H Hlt) as [_ Hsp].
  destruct (Hsp k s a Hs Ha) as (t & au & q & Ht & Hau & Hq & Eq).
  destruct (amplitudes_true_Q_unfold _ _ _ H) as (Ewf & _).
  assert (Hin : In s (ai_spikes i)) by (eapply nth_error_In; eauto).
  pose proof (wf_spikes i (wf_amp_WF i Ewf) s Hin) as Hr.
  assert (Hn : Z.of_nat (Z.to_nat s) < ai_nwav i) by (rewrite Z2Nat.id by lia; now apply Hlt).
  assert (Hdt : nth_error (C05.Model.d_templates d) (Z.to_nat s) = Some (transpose (length (ai_wmi i)) t))
    by (rewrite Hd, nth_error_map, Ht; reflexivity).
  destruct (link_peak_amp i d (Z.to_nat s) t rec Ewf Ht Hn Hc Hnc HW Hsc Hdt Hrec) as (_ & Hpk & _).
  exists q. split; [exact Hq|]. rewrite Eq, (IsPeakAmp_unique _ _ _ _ _ Hau Hpk). reflexivity.
Qed.
End Oracle.
