(* C09/Model.v -- executable model of the amplitude / depth / duration / peak-channel summaries of
   phylib.io.model.TemplateModel (get_amplitudes_true, _amplitudes, _channels, templates_probes,
   _waveform_durations, get_depths), as repaired by the commit on branch fix-c09 (np.bincount with
   minlength = number of waveforms).  No proofs in this file.

   Integer-valued stored arrays (templates, inverse whitening matrix, amplitudes, positions, features) are
   lists of Z; every quantity the code computes in floating point *after* the integer bookkeeping
   (one multiplication by the unit factor, the division sum/count, the rescaling ratio, duration /
   rate * 1e3, the depth terms) is computed in an abstract number type N with operations ofZ, nmul,
   ndiv, nadd, in exactly the order the code applies them.  The theorems and the comparator Corr.v both
   use the instance N := option Q (exact arithmetic, None = NaN) defined at the end of this file.
   Where NumPy raises, the model returns None. *)
From Coq Require Import ZArith QArith List Bool.
Import ListNotations.
Open Scope Z_scope.

Definition mat := list (list Z).
Definition zlen {A} (l : list A) : Z := Z.of_nat (length l).

(* ---------- integer array primitives ---------- *)
Fixpoint dotZ (a b : list Z) : Z :=
  match a, b with x :: a', y :: b' => x * y + dotZ a' b' | _, _ => 0 end.
Definition colZ (j : nat) (m : mat) : list Z := map (fun r => nth j r 0) m.
(* np.matmul(a, b): a is (ns, k), b is (k, nc) *)
Definition matmulZ (a b : mat) (nc : nat) : mat :=
  map (fun row => map (fun j => dotZ row (colZ j b)) (seq 0 nc)) a.
Definition zeros_like (t : mat) : mat := map (map (fun _ : Z => 0)) t.

(* np.max / np.min of a non-empty vector (0 on the empty one: excluded by the shape guards) *)
Definition lmax (l : list Z) : Z := match l with [] => 0 | x :: r => fold_left Z.max r x end.
Definition lmin (l : list Z) : Z := match l with [] => 0 | x :: r => fold_left Z.min r x end.

(* np.argmax / np.argmin: index of the first occurrence of the extreme value *)
Fixpoint argmax_from (best : Z) (bi i : nat) (l : list Z) : nat :=
  match l with
  | [] => bi
  | x :: r => if best <? x then argmax_from x i (S i) r else argmax_from best bi (S i) r
  end.
Definition argmax (l : list Z) : nat := match l with [] => O | x :: r => argmax_from x 0 1 r end.
Fixpoint argmin_from (best : Z) (bi i : nat) (l : list Z) : nat :=
  match l with
  | [] => bi
  | x :: r => if x <? best then argmin_from x i (S i) r else argmin_from best bi (S i) r
  end.
Definition argmin (l : list Z) : nat := match l with [] => O | x :: r => argmin_from x 0 1 r end.

(* x.max(axis=1) - x.min(axis=1) of one (ns, nc) waveform: peak-to-peak per channel *)
Definition ch_amps (nc : nat) (t : mat) : list Z :=
  map (fun c => lmax (colZ c t) - lmin (colZ c t)) (seq 0 nc).

(* acc[i] += v (out of range: unchanged; excluded by the length computed in bc_len) *)
Fixpoint add_nth (acc : list Z) (i : nat) (v : Z) : list Z :=
  match acc, i with
  | [], _ => []
  | x :: r, O => (x + v) :: r
  | x :: r, S k => x :: add_nth r k v
  end.
(* length of np.bincount(x, minlength=ml) *)
Definition bc_len (x : list Z) (ml : Z) : nat :=
  Z.to_nat (match x with [] => Z.max 0 ml | _ => Z.max (lmax x + 1) ml end).
(* np.bincount(x, weights=w, minlength=ml) on non-negative x: one accumulation per element, in order *)
Definition bincount_w (x w : list Z) (ml : Z) : list Z :=
  fold_left (fun acc p => add_nth acc (Z.to_nat (fst p)) (snd p)) (combine x w) (repeat 0 (bc_len x ml)).
Definition bincount (x : list Z) (ml : Z) : list Z := bincount_w x (repeat 1 (length x)) ml.

(* np.unique of an integer vector: sort, drop repeats *)
Fixpoint insertZ (x : Z) (l : list Z) : list Z :=
  match l with [] => [x] | y :: r => if x <=? y then x :: l else y :: insertZ x r end.
Definition sortZ (l : list Z) : list Z := fold_right insertZ [] l.
Fixpoint dedup (l : list Z) : list Z :=
  match l with
  | [] => []
  | x :: r => match r with
              | [] => [x]
              | y :: _ => if x =? y then dedup r else x :: dedup r
              end
  end.
Definition np_unique (l : list Z) : list Z := dedup (sortZ l).

Fixpoint map2 {A B C} (f : A -> B -> C) (a : list A) (b : list B) : list C :=
  match a, b with x :: a', y :: b' => f x y :: map2 f a' b' | _, _ => [] end.
Definition nthZ (l : list Z) (i : Z) : Z := nth (Z.to_nat i) l 0.
Definition zsum (l : list Z) : Z := fold_right Z.add 0 l.

(* ---------- get_amplitudes_true: integer part ---------- *)
Record amp_in := mk_amp_in {
  ai_data : list mat;      (* sparse.data, [waveform][sample][channel] (templates or clusters) *)
  ai_wmi : mat;            (* self.wmi, (nc, nc) *)
  ai_spikes : list Z;      (* spike_templates or spike_clusters *)
  ai_amps : list Z;        (* self.amplitudes *)
  ai_nwav : Z              (* n_templates or n_clusters *)
}.

Definition row_ok (nc : nat) (r : list Z) : bool := Nat.eqb (length r) nc.
Definition wave_ok (nc : nat) (t : mat) : bool := Nat.leb 1 (length t) && forallb (row_ok nc) t.
(* the conditions under which NumPy does not raise *)
Definition wf_amp (i : amp_in) : bool :=
  let nc := length (ai_wmi i) in
  Nat.leb 1 nc && forallb (row_ok nc) (ai_wmi i) &&
  Nat.leb 1 (length (ai_data i)) && forallb (wave_ok nc) (ai_data i) &&
  (0 <=? ai_nwav i) && (ai_nwav i <=? zlen (ai_data i)) &&
  forallb (fun s => (0 <=? s) && (s <? zlen (ai_data i))) (ai_spikes i) &&
  Nat.eqb (length (ai_amps i)) (length (ai_spikes i)).

(* templates_wfs = zeros_like(data); for n in arange(n_wav): templates_wfs[n] = matmul(data[n], wmi) *)
Definition templates_wfs (i : amp_in) : list mat :=
  let nc := length (ai_wmi i) in
  map (fun p => if Z.of_nat (fst p) <? ai_nwav i then matmulZ (snd p) (ai_wmi i) nc else zeros_like (snd p))
      (combine (seq 0 (length (ai_data i))) (ai_data i)).
(* templates_amps_au = max over channels of (max - min over samples) *)
Definition amps_au (i : amp_in) : list Z :=
  map (fun t => lmax (ch_amps (length (ai_wmi i)) t)) (templates_wfs i).
(* spike_amps = templates_amps_au[spikes] * amplitudes *)
Definition spike_amps_Z (i : amp_in) : list Z :=
  map2 (fun s a => nthZ (amps_au i) s * a) (ai_spikes i) (ai_amps i).
Definition amp_sums (i : amp_in) : list Z := bincount_w (ai_spikes i) (spike_amps_Z i) (zlen (amps_au i)).
Definition amp_counts (i : amp_in) : list Z := bincount (ai_spikes i) (zlen (amps_au i)).

(* ---------- _channels / _waveform_durations: integer part ---------- *)
Definition data_ok (nc : nat) (data : list mat) : bool := Nat.leb 1 nc && forallb (wave_ok nc) data.
(* np.argmax(tmp.max(axis=1) - tmp.min(axis=1), axis=1) *)
Definition peak_channels (nc : nat) (data : list mat) : list nat := map (fun t => argmax (ch_amps nc t)) data.
Definition channels (nc : nat) (data : list mat) : option (list Z) :=
  if data_ok nc data then Some (map Z.of_nat (peak_channels nc data)) else None.
(* channel_probes[templates_channels] *)
Definition templates_probes (nc : nat) (data : list mat) (probes : list Z) : option (list Z) :=
  if data_ok nc data && Nat.eqb (length probes) nc
  then Some (map (fun c => nth c probes 0) (peak_channels nc data)) else None.
(* tmp.argmax(axis=1) - tmp.argmin(axis=1): (nt, nc) *)
Definition durations_tbl (nc : nat) (data : list mat) : list (list Z) :=
  map (fun t => map (fun c => Z.of_nat (argmax (colZ c t)) - Z.of_nat (argmin (colZ c t))) (seq 0 nc)) data.
(* np.ravel_multi_index((arange(nt), peaks), (nt, nc)) and durations.flatten()[ind] *)
Definition durations_Z (nc : nat) (data : list mat) : list Z :=
  let flat := concat (durations_tbl nc data) in
  let ind := map2 (fun t p => (t * nc + p)%nat) (seq 0 (length data)) (peak_channels nc data) in
  map (fun k => nth k flat 0) ind.

(* ---------- get_depths: integer part ---------- *)
Record depth_in := mk_depth_in {
  di_nspikes : Z;                    (* self.n_spikes = len(spike_times) *)
  di_feat : option (list mat * mat); (* sparse_features: data [spike][local channel][pc], cols [template][local channel] *)
  di_st : list Z;                    (* spike_templates *)
  di_pos : mat                       (* channel_positions, rows (x, y) *)
}.
Definition in_range (n : nat) (z : Z) : bool := (0 <=? z) && (z <? Z.of_nat n).
Definition wf_depth (i : depth_in) : bool :=
  (0 <=? di_nspikes i) && Nat.eqb (length (di_st i)) (Z.to_nat (di_nspikes i)) &&
  match di_feat i with
  | None => true
  | Some (data, cols) =>
      if negb (Nat.eqb (length data) (Z.to_nat (di_nspikes i))) then true else
      let ncl := match cols with [] => O | r :: _ => length r end in
      forallb (fun r => Nat.eqb (length r) ncl && forallb (in_range (length (di_pos i))) r) cols &&
      forallb (fun s => Nat.eqb (length s) ncl && forallb (fun ch => Nat.leb 1 (length ch)) s) data &&
      forallb (in_range (length cols)) (di_st i) &&
      forallb (fun r => Nat.eqb (length r) 2) (di_pos i)
  end.
(* np.maximum(features[:, :, 0], 0) ** 2 for one spike *)
Definition pos_sq (s : mat) : list Z := map (fun ch => let x := Z.max (nth 0 ch 0) 0 in x * x) s.
(* channel_positions[cols[spike_templates[i]], 1] *)
Definition ypos_of (i : depth_in) (cols : mat) (k : nat) : list Z :=
  map (fun ch => nth 1 (nth (Z.to_nat ch) (di_pos i) []) 0) (nth (Z.to_nat (nthZ (di_st i) (Z.of_nat k))) cols []).

(* ================= float-valued tails, generic in the number type ================= *)
Section Generic.
Variable N : Type.
Variable ofZ : Z -> N.
Variables nmul ndiv nadd : N -> N -> N.

Record amp_out := mk_amp_out {
  ao_spike : list N;               (* spike_amps * sample2unit *)
  ao_phys : list (list (list N));  (* templates_physical_unit * sample2unit *)
  ao_tamps : list N                (* templates_amps_v * sample2unit *)
}.

Definition amplitudes_true (i : amp_in) (factor : N) : option amp_out :=
  if negb (wf_amp i) then None else
  let au := amps_au i in
  (* templates_amps_v = bincount(spikes, weights=spike_amps, minlength) / bincount(spikes, minlength) *)
  let v := map2 (fun s c => ndiv (ofZ s) (ofZ c)) (amp_sums i) (amp_counts i) in
  (* templates_amps_v / templates_amps_au *)
  let ratio := map2 (fun x a => ndiv x (ofZ a)) v au in
  Some (mk_amp_out
    (map (fun z => nmul (ofZ z) factor) (spike_amps_Z i))
    (map2 (fun t k => map (map (fun w => nmul (nmul (ofZ w) k) factor)) t) (templates_wfs i) ratio)
    (map (fun x => nmul x factor) v)).

(* _amplitudes(tmp): tid = unique(tmp); bincount(tmp, weights=amplitudes)[tid] / bincount(tmp)[tid] *)
Definition mean_amps (tmp amps : list Z) : option (list N) :=
  if negb (forallb (fun s => 0 <=? s) tmp && Nat.eqb (length amps) (length tmp)) then None else
  let tid := np_unique tmp in
  let n := bincount tmp 0 in
  let a := bincount_w tmp amps 0 in
  Some (map (fun id => ndiv (ofZ (nthZ a id)) (ofZ (nthZ n id))) tid).

(* durations.flatten()[ind].astype(float64) / sample_rate * 1e3 *)
Definition waveform_durations (nc : nat) (data : list mat) (rate : N) : option (list N) :=
  if data_ok nc data then Some (map (fun d => nmul (ndiv (ofZ d) rate) (ofZ 1000)) (durations_Z nc data))
  else None.

(* one spike: sum over local channels of (ypos * f) / sum(f) *)
Definition depth_of (i : depth_in) (data : list mat) (cols : mat) (k : nat) : N :=
  let f := pos_sq (nth k data []) in
  let y := ypos_of i cols k in
  let s := zsum f in
  fold_left nadd (map2 (fun yy ff => ndiv (nmul (ofZ yy) (ofZ ff)) (ofZ s)) y f) (ofZ 0).

(* the batch loop of get_depths; acc = spikes_depths, NaN-initialised; fuel exhausted = None *)
Fixpoint depth_loop (fuel : nat) (nbatch : Z) (nspi : Z) (f : nat -> N) (c : Z) (acc : list N) : option (list N) :=
  match fuel with
  | O => None
  | S fu =>
      let lo := Z.to_nat c in
      let hi := Z.to_nat (Z.min (c + nbatch) nspi) in
      let acc' := firstn lo acc ++ map f (seq lo (hi - lo)) ++ skipn hi acc in
      let c' := c + nbatch in
      if nspi <=? c' then Some acc' else depth_loop fu nbatch nspi f c' acc'
  end.

(* outer None = NumPy raises; inner None = the method returns None *)
Definition get_depths (nbatch : Z) (nan : N) (i : depth_in) : option (option (list N)) :=
  if negb (wf_depth i) then None else
  match di_feat i with
  | None => Some None
  | Some (data, cols) =>
      if negb (Nat.eqb (length data) (Z.to_nat (di_nspikes i))) then Some None else
      let n := Z.to_nat (di_nspikes i) in
      match depth_loop (S n) nbatch (di_nspikes i) (depth_of i data cols) 0 (repeat nan n) with
      | Some l => Some (Some l)
      | None => None
      end
  end.
End Generic.

Arguments mk_amp_out {N}.
Arguments ao_spike {N}. Arguments ao_phys {N}. Arguments ao_tamps {N}.

(* ================= the exact instance: N = option Q, None = NaN ================= *)
Definition QN := option Q.
Definition q_ofZ (z : Z) : QN := Some (inject_Z z).
Definition q_mul (a b : QN) : QN :=
  match a, b with Some x, Some y => Some (x * y)%Q | _, _ => None end.
Definition q_add (a b : QN) : QN :=
  match a, b with Some x, Some y => Some (x + y)%Q | _, _ => None end.
(* x / 0 is NaN for x = 0 and an infinity otherwise; both are None here: the theorems never divide a
   non-zero value by zero *)
Definition q_div (a b : QN) : QN :=
  match a, b with
  | Some x, Some y => if Qeq_bool y 0 then None else Some (x / y)%Q
  | _, _ => None
  end.

Definition amplitudes_true_Q := amplitudes_true QN q_ofZ q_mul q_div.
Definition mean_amps_Q := mean_amps QN q_ofZ q_div.
Definition waveform_durations_Q := waveform_durations QN q_ofZ q_mul q_div.
Definition depth_of_Q := depth_of QN q_ofZ q_mul q_div q_add.
Definition get_depths_Q (nbatch : Z) := get_depths QN q_ofZ q_mul q_div q_add nbatch None.
(* the constant in the code *)
Definition NBATCH : Z := 50000.
