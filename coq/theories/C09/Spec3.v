(* C09/Spec3.v -- stage 5: the guard of the amplitude theorems as a checked condition.
   C09_spike_amps / C09_rescaled_peak carry the hypothesis "every id is below n_wav" (n_wav = the loop bound
   get_amplitudes_true reads from self.n_templates / self.n_clusters).  That hypothesis is about a value the
   LOADER computes (TemplateModel._load_data), not about the dataset: the statement of the property quantifies
   over datasets and says "the spike's unwhitened template", for every id that has a stored waveform.  The
   reading of the statement is therefore the model with n_wav = the number of stored waveforms (full_ai); the
   comparator judges the observed values against that instance and, separately, requires the loaded n_wav to
   be that number (nwav_full_b). *)
From Coq Require Import ZArith List Bool.
From PV Require Import C09.Model.
Import ListNotations.
Open Scope Z_scope.

(* the same stored arrays, every stored waveform unwhitened *)
Definition full_ai (i : amp_in) : amp_in :=
  mk_amp_in (ai_data i) (ai_wmi i) (ai_spikes i) (ai_amps i) (zlen (ai_data i)).
(* the loaded loop bound is the number of stored waveforms *)
Definition nwav_full_b (i : amp_in) : bool := ai_nwav i =? zlen (ai_data i).
(* the guard of C09_spike_amps, decidable *)
Definition ids_below_nwav_b (i : amp_in) : bool := forallb (fun s => s <? ai_nwav i) (ai_spikes i).
