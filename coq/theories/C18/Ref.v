(* C18/Ref.v -- the reference oracles the correspondence computes with.  Any oracles satisfying
   Codec_OK / Text_OK / Csv_OK give the same results on well-formed inputs (theorems C18_json_file,
   C18_tsv, C18_tsv_simple); these are concrete ones, shown to satisfy the hypotheses in ProofsRef.v
   (so the hypotheses are satisfiable).  The reference csv layer ref_csv is in Model.v. *)
From Coq Require Import ZArith List Bool String Ascii.
From PV Require Import Base.NpSearch C18.Model.
Import ListNotations.
Open Scope Z_scope.

(* a buffer is written as text: one token per element, each followed by ";" *)
Definition ch_semi : ascii := ";"%char.
Definition ch_comma : ascii := ","%char.
Definition ftok_text (f : ftok) : list ascii :=
  match f with
  | FFin neg m e => "f"%char :: (if neg then ch_minus else ch_plus) :: show_int m ++ ch_comma :: show_int e
  | FNaN => ["n"%char]
  | FInf neg => [if neg then "q"%char else "p"%char]
  end.
Definition scalar_tok (x : scalar) : list ascii :=
  match x with
  | SBool b => ["b"%char; if b then "1"%char else "0"%char]
  | SInt z => "i"%char :: show_int z
  | SFlt f => ftok_text f
  end.
Definition scalar_text (x : scalar) : list ascii := scalar_tok x ++ [ch_semi].
(* split at every [sep]; cur is the current token, reversed *)
Fixpoint split_at (sep : ascii) (l cur : list ascii) : list (list ascii) :=
  match l with
  | [] => [rev cur]
  | c :: r => if Ascii.eqb c sep then rev cur :: split_at sep r [] else split_at sep r (c :: cur)
  end.
Definition read_int (l : list ascii) : option Z :=
  match l with
  | c :: r => if Ascii.eqb c ch_minus then (if isdigit r then Some (- digits_val r) else None)
              else if isdigit l then Some (digits_val l) else None
  | [] => None
  end.
Definition scalar_of_text (l : list ascii) : option scalar :=
  match l with
  | t :: r =>
      match code t with
      | 98 => match r with [d] => Some (SBool (code d =? 49)) | _ => None end
      | 105 => option_map SInt (read_int r)
      | 110 => Some (SFlt FNaN)
      | 112 => Some (SFlt (FInf false))
      | 113 => Some (SFlt (FInf true))
      | 102 => match r with
               | sg :: r' => match split_at ch_comma r' [] with
                             | [a; b] => match read_int a, read_int b with
                                         | Some m, Some e => Some (SFlt (FFin (Ascii.eqb sg ch_minus) m e))
                                         | _, _ => None
                                         end
                             | _ => None
                             end
               | [] => None
               end
      | _ => None
      end
  | [] => None
  end.
Definition ref_frombuffer (dt : dtype) (data : list ascii) : option (list scalar) :=
  match rev (split_at ch_semi data []) with
  | [] :: toks => mapM scalar_of_text (rev toks)          (* the text ends with a separator *)
  | _ => None
  end.
Definition ref_codec : codec :=
  mkcodec (fun _ el => List.concat (map scalar_text el)) ref_frombuffer l2s (fun s => Some (s2l s)).
Definition ref_text : textlayer jtree := mktext jtree (fun t => t) Some (fun _ => false).


(* a text layer that also has an empty text (an existing empty file): None *)
Definition ref_text_e : textlayer (option jtree) :=
  mktext (option jtree) Some (fun o => o) (fun o => match o with None => true | Some _ => false end).

(* reference float layer.  repr(x): the exact decimal expansion of x ('%.nf' % x with n = -e digits when
   x = m * 2^e, e < 0; one digit otherwise) -- longer than CPython's shortest repr, the same value.
   float(): the exact conversion of the decimals that are binary64 values (the only ones the round-trip
   hypothesis speaks about); any other decimal is given NaN, the reference is never asked for one *)
Definition ref_frepr (f : ftok) : list ascii :=
  match f with
  | FFin _ _ e => fmt (if e <? 0 then - e else 1) f
  | _ => fmt 1 f
  end.
Fixpoint strip2 (p : positive) (e : Z) : Z * Z :=
  match p with xO q => strip2 q (e + 1) | _ => (Zpos p, e) end.
Definition norm2 (neg : bool) (v e : Z) : ftok :=
  match v with Zpos p => FFin neg (fst (strip2 p e)) (snd (strip2 p e)) | _ => FFin neg 0 0 end.
Definition ref_fnearest (neg : bool) (mant e10 : Z) : ftok :=
  if 0 <=? e10 then norm2 neg (mant * 10 ^ e10) 0
  else if mant mod 5 ^ (- e10) =? 0 then norm2 neg (mant / 5 ^ (- e10)) e10 else FNaN.
Definition ref_float : floatlayer := mkfl ref_frepr ref_fnearest.
