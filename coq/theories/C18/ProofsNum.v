(* C18/ProofsNum.v -- the text <-> number functions of the model: int(str(z)) = z, what
   _try_make_number reads back from str(int) and '%.nf' % float, the texts are not empty and are
   transported by the csv layer, round-half-even is a nearest integer. *)
From Coq Require Import ZArith List Bool String Ascii Lia ZifyBool.
From PV Require Import Base.NpSearch C18.Model C18.Spec C18.Proofs.
Import ListNotations.
Open Scope Z_scope.

(* ================= characters ================= *)
Lemma digit_not_space c : is_digit c = true -> is_space c = false.
Proof. unfold is_digit, is_space. cbv zeta. intros H. lia. Qed.

Lemma digit_csv_ok c : is_digit c = true -> char_csv_ok c = true.
Proof. unfold is_digit, char_csv_ok. intros H. lia. Qed.

Lemma digit_neq c d : is_digit c = true -> is_digit d = false -> Ascii.eqb c d = false.
Proof.
  intros H1 H2. destruct (Ascii.eqb c d) eqn:E; [|reflexivity].
  apply Ascii.eqb_eq in E. subst. congruence.
Qed.

Lemma lower_digit c : is_digit c = true -> lower c = c.
Proof.
  unfold lower, is_digit. cbv zeta. intros H.
  destruct ((65 <=? code c) && (code c <=? 90)) eqn:E; [lia|reflexivity].
Qed.

(* ================= strip ================= *)
Definition nsp (l : list ascii) : bool := forallb (fun c => negb (is_space c)) l.

Lemma lstrip_nsp l : nsp l = true -> lstrip l = l.
Proof.
  destruct l as [|c r]; [reflexivity|]. unfold nsp. cbn [forallb lstrip]. intros H.
  destruct (is_space c); [discriminate H|reflexivity].
Qed.

Lemma nsp_rev l : nsp l = true -> nsp (rev l) = true.
Proof.
  unfold nsp. rewrite !forallb_forall. intros H x Hx. apply H.
  apply (proj2 (in_rev l x)). exact Hx.
Qed.

Lemma strip_nsp l : nsp l = true -> strip l = l.
Proof.
  intros H. unfold strip. rewrite (lstrip_nsp l) by assumption.
  rewrite lstrip_nsp by (apply nsp_rev; assumption). apply rev_involutive.
Qed.

(* ================= sign, digit runs ================= *)
Definition sgn (neg : bool) : list ascii := if neg then [ch_minus] else [].
Definition hdd (l : list ascii) : Prop :=
  match l with d :: _ => is_digit d = true | [] => False end.

Lemma hdd_app Q rest : Q <> [] -> forallb is_digit Q = true -> hdd (Q ++ rest).
Proof.
  intros HQ Hq. destruct Q as [|d Q]; [congruence|]. cbn [forallb] in Hq.
  apply andb_prop in Hq. cbn [app hdd]. tauto.
Qed.

Lemma split_sign_sgn neg l : hdd l -> split_sign (sgn neg ++ l) = (neg, l).
Proof.
  intros H. destruct l as [|d r]; [contradiction|]. cbn [hdd] in H.
  destruct neg; cbn [sgn app split_sign].
  - replace (Ascii.eqb ch_minus ch_minus) with true by reflexivity. reflexivity.
  - rewrite (digit_neq d ch_minus), (digit_neq d ch_plus) by (first [assumption|reflexivity]).
    reflexivity.
Qed.

Lemma chars_eqb_digit l x s : hdd l -> is_digit x = false -> chars_eqb (map lower l) (x :: s) = false.
Proof.
  intros H Hx. destruct l as [|d r]; [contradiction|]. cbn [hdd] in H.
  cbn [map chars_eqb]. rewrite lower_digit, digit_neq by assumption. reflexivity.
Qed.

Lemma fold_dstep D : forall acc,
  fold_left dstep D acc = acc * 10 ^ Z.of_nat (List.length D) + digits_val D.
Proof.
  induction D as [|d D IH]; intros acc.
  - unfold digits_val. cbn [fold_left List.length]. change (Z.of_nat 0) with 0. rewrite Z.pow_0_r. lia.
  - rewrite digits_val_eq. cbn [fold_left List.length].
    rewrite (IH (dstep acc d)), (IH (dstep 0 d)). rewrite Nat2Z.inj_succ, Z.pow_succ_r by lia.
    unfold dstep. ring.
Qed.

(* the rest after a digit run: nothing, or a character that is neither a digit nor "_" *)
Definition stops (rest : list ascii) : Prop :=
  match rest with [] => True | c :: _ => is_digit c = false /\ Ascii.eqb c ch_us = false end.

Lemma dp_loop_digits D : forall rest acc cnt, forallb is_digit D = true -> stops rest ->
  dp_loop (D ++ rest) acc cnt = mkdp (fold_left dstep D acc) (cnt + Z.of_nat (List.length D)) rest.
Proof.
  induction D as [|d D IH]; intros rest acc cnt HD Hr.
  - cbn [app fold_left List.length]. replace (cnt + Z.of_nat 0) with cnt by lia.
    destruct rest as [|c r]; [reflexivity|]. destruct Hr as [H1 H2]. cbn [dp_loop].
    rewrite H1, H2. reflexivity.
  - cbn [forallb] in HD. apply andb_prop in HD. destruct HD as [Hd HD].
    cbn [app dp_loop]. rewrite Hd. rewrite IH by assumption. cbn [fold_left List.length].
    rewrite Nat2Z.inj_succ. replace (cnt + 1 + Z.of_nat (List.length D)) with (cnt + Z.succ (Z.of_nat (List.length D))) by lia.
    reflexivity.
Qed.

Lemma digitpart_digits D rest : D <> [] -> forallb is_digit D = true -> stops rest ->
  digitpart (D ++ rest) = Some (mkdp (digits_val D) (Z.of_nat (List.length D)) rest).
Proof.
  intros HD Hd Hr. destruct D as [|d D]; [congruence|].
  cbn [forallb] in Hd. apply andb_prop in Hd. destruct Hd as [H1 H2].
  cbn [app digitpart]. rewrite H1. rewrite dp_loop_digits by assumption.
  rewrite digits_val_eq. cbn [fold_left List.length]. rewrite Nat2Z.inj_succ.
  replace (dstep 0 d) with (dval d) by (unfold dstep; lia).
  replace (1 + Z.of_nat (List.length D)) with (Z.succ (Z.of_nat (List.length D))) by lia. reflexivity.
Qed.

Lemma digitpart_all D : D <> [] -> forallb is_digit D = true ->
  digitpart D = Some (mkdp (digits_val D) (Z.of_nat (List.length D)) []).
Proof.
  intros HD Hd. pose proof (digitpart_digits D [] HD Hd I) as H. rewrite app_nil_r in H. exact H.
Qed.

Lemma digits_nsp D : forallb is_digit D = true -> nsp D = true.
Proof.
  unfold nsp. rewrite !forallb_forall. intros H x Hx. rewrite digit_not_space; [reflexivity|].
  apply H, Hx.
Qed.

Lemma sgn_nsp neg : nsp (sgn neg) = true.
Proof. destruct neg; reflexivity. Qed.

Lemma nsp_app a b : nsp a = true -> nsp b = true -> nsp (a ++ b) = true.
Proof. unfold nsp. intros Ha Hb. rewrite forallb_app, Ha, Hb. reflexivity. Qed.

(* ================= int(text) ================= *)
Lemma py_int_digits neg D : D <> [] -> forallb is_digit D = true ->
  py_int (sgn neg ++ D) = Some (if neg then - digits_val D else digits_val D).
Proof.
  intros HD Hd. unfold py_int.
  rewrite strip_nsp by (apply nsp_app; [apply sgn_nsp|apply digits_nsp; assumption]).
  rewrite split_sign_sgn.
  2:{ rewrite <- (app_nil_r D). apply hdd_app; assumption. }
  rewrite digitpart_all by assumption. cbn [dp_rest dp_val]. reflexivity.
Qed.

Lemma dot_stops F : stops (ch_dot :: F).
Proof. split; reflexivity. Qed.

Lemma dec_nsp neg Q F : forallb is_digit Q = true -> forallb is_digit F = true ->
  nsp (sgn neg ++ Q ++ ch_dot :: F) = true.
Proof.
  intros Hq Hf. apply nsp_app; [apply sgn_nsp|]. apply nsp_app; [apply digits_nsp; assumption|].
  change (ch_dot :: F) with ([ch_dot] ++ F). apply nsp_app; [reflexivity|apply digits_nsp; assumption].
Qed.

Lemma py_int_dec neg Q F : Q <> [] -> forallb is_digit Q = true -> forallb is_digit F = true ->
  py_int (sgn neg ++ Q ++ ch_dot :: F) = None.
Proof.
  intros HQ Hq Hf. unfold py_int. rewrite strip_nsp by (apply dec_nsp; assumption).
  rewrite split_sign_sgn by (apply hdd_app; assumption).
  rewrite digitpart_digits by (first [assumption|apply dot_stops]).
  cbn [dp_rest]. reflexivity.
Qed.

(* ================= float(text) of a decimal literal ================= *)
Lemma py_float_dec neg Q F : Q <> [] -> forallb is_digit Q = true -> F <> [] ->
  forallb is_digit F = true ->
  py_float (sgn neg ++ Q ++ ch_dot :: F) =
  Some (ODec neg (digits_val Q * 10 ^ Z.of_nat (List.length F) + digits_val F) (- Z.of_nat (List.length F))).
Proof.
  intros HQ Hq HF Hf. unfold py_float. rewrite strip_nsp by (apply dec_nsp; assumption).
  assert (Hh : hdd (Q ++ ch_dot :: F)) by (apply hdd_app; assumption).
  rewrite split_sign_sgn by assumption.
  unfold str_inf, str_infinity, str_nan. cbn [s2l list_ascii_of_string].
  rewrite !chars_eqb_digit by (first [assumption|reflexivity]).
  cbn [orb].
  rewrite digitpart_digits by (first [assumption|apply dot_stops]).
  cbn [dp_rest dp_val dp_cnt].
  replace (Ascii.eqb ch_dot ch_dot) with true by reflexivity.
  rewrite digitpart_all by assumption.
  cbn [dp_rest dp_val dp_cnt]. reflexivity.
Qed.

(* ================= str(int) ================= *)
Lemma show_int_sgn z : show_int z = sgn (z <? 0) ++ show_nat (Z.abs z).
Proof.
  unfold show_int. destruct (z <? 0) eqn:E; cbn [sgn app].
  - replace (Z.abs z) with (- z) by lia. reflexivity.
  - replace (Z.abs z) with z by lia. reflexivity.
Qed.

(* int(str(z)) = z *)
Lemma py_int_show_int z : py_int (show_int z) = Some z.
Proof.
  rewrite show_int_sgn. destruct (show_nat_spec (Z.abs z)) as (E1 & E2 & E3); [lia|].
  rewrite py_int_digits by assumption. rewrite E3. f_equal.
  destruct (z <? 0) eqn:E; lia.
Qed.

Lemma try_number_int z : try_make_number (CT (l2s (show_int z))) = OInt z.
Proof. unfold try_make_number. rewrite s2l_l2s, py_int_show_int. reflexivity. Qed.

(* ================= round half even ================= *)
Lemma rhe_cases num den : 0 < den -> 0 <= num -> exists q r,
  num = den * q + r /\ 0 <= r < den /\ 0 <= q /\
  rhe num den = (if 2 * r <? den then q else if den <? 2 * r then q + 1
                 else if Z.even q then q else q + 1).
Proof.
  intros Hd Hn. exists (num / den), (num mod den).
  split; [apply Z.div_mod; lia|]. split; [apply Z.mod_pos_bound; lia|].
  split; [apply Z.div_pos; lia|]. reflexivity.
Qed.

(* round-half-even really is a nearest integer: |rhe*den - num| <= den/2, and ties go to even *)
Lemma rhe_nearest num den : 0 < den -> 0 <= num -> 2 * Z.abs (rhe num den * den - num) <= den.
Proof.
  intros Hd Hn. destruct (rhe_cases num den Hd Hn) as (q & r & E & Hr & Hq & ->). subst num.
  destruct (2 * r <? den) eqn:E1; [lia|].
  destruct (den <? 2 * r) eqn:E2; [lia|].
  destruct (Z.even q); lia.
Qed.

Lemma rhe_tie_even num den : 0 < den -> 0 <= num ->
  2 * Z.abs (rhe num den * den - num) = den -> Z.even (rhe num den) = true.
Proof.
  intros Hd Hn. destruct (rhe_cases num den Hd Hn) as (q & r & E & Hr & Hq & ->). subst num.
  destruct (2 * r <? den) eqn:E1; [lia|].
  destruct (den <? 2 * r) eqn:E2; [lia|].
  destruct (Z.even q) eqn:E3; [intros _; exact E3|].
  intros _. rewrite Z.add_1_r, Z.even_succ, <- Z.negb_even, E3. reflexivity.
Qed.

Lemma rhe_nonneg num den : 0 < den -> 0 <= num -> 0 <= rhe num den.
Proof.
  intros Hd Hn. destruct (rhe_cases num den Hd Hn) as (q & r & E & Hr & Hq & ->).
  destruct (2 * r <? den); [lia|]. destruct (den <? 2 * r); [lia|]. destruct (Z.even q); lia.
Qed.

Lemma scaled_nonneg n m e : 0 <= n -> 0 <= m -> 0 <= scaled n m e.
Proof.
  intros Hn Hm. unfold scaled. destruct (0 <=? e) eqn:E.
  - apply Z.mul_nonneg_nonneg; [apply Z.mul_nonneg_nonneg; [lia|]|]; apply Z.pow_nonneg; lia.
  - apply rhe_nonneg; [apply Z.pow_pos_nonneg; lia|].
    apply Z.mul_nonneg_nonneg; [lia|apply Z.pow_nonneg; lia].
Qed.

(* ================= '%.nf' % x ================= *)
Lemma fixed_digits_spec k : forall v acc, exists ds,
  fixed_digits k v acc = ds ++ acc /\ List.length ds = k /\ forallb is_digit ds = true /\
  digits_val ds = v mod 10 ^ Z.of_nat k.
Proof.
  induction k as [|k IH]; intros v acc.
  - exists []. cbn [fixed_digits app List.length forallb]. repeat split.
    change (Z.of_nat 0) with 0. rewrite Z.pow_0_r, Z.mod_1_r. reflexivity.
  - cbn [fixed_digits]. fold (dchr (v mod 10)).
    assert (Hm : 0 <= v mod 10 < 10) by (apply Z.mod_pos_bound; lia).
    destruct (IH (v / 10) (dchr (v mod 10) :: acc)) as (ds & E1 & E2 & E3 & E4).
    exists (ds ++ [dchr (v mod 10)]). rewrite E1, <- app_assoc. split; [reflexivity|]. split.
    { rewrite app_length, E2. cbn [List.length]. lia. }
    split.
    { rewrite forallb_app, E3. cbn [forallb]. rewrite dchr_digit by lia. reflexivity. }
    rewrite digits_val_snoc, E4, dchr_val by lia. rewrite Nat2Z.inj_succ, Z.pow_succ_r by lia.
    assert (Hp : 0 < 10 ^ Z.of_nat k) by (apply Z.pow_pos_nonneg; lia).
    rewrite (Z.rem_mul_r v 10 (10 ^ Z.of_nat k)) by lia. lia.
Qed.

Lemma fmt_fin n neg m e : 0 <= n -> 0 <= m -> exists Q F,
  fmt n (FFin neg m e) = sgn neg ++ Q ++ (if 0 <? n then ch_dot :: F else []) /\
  Q <> [] /\ forallb is_digit Q = true /\ forallb is_digit F = true /\
  Z.of_nat (List.length F) = n /\ digits_val Q * 10 ^ n + digits_val F = scaled n m e.
Proof.
  intros Hn Hm. unfold fmt. cbv zeta.
  pose proof (scaled_nonneg n m e Hn Hm) as Hk. set (k := scaled n m e) in *.
  assert (Hp : 0 < 10 ^ n) by (apply Z.pow_pos_nonneg; lia).
  destruct (show_nat_spec (k / 10 ^ n)) as (Q1 & Q2 & Q3); [apply Z.div_pos; lia|].
  destruct (fixed_digits_spec (Z.to_nat n) (k mod 10 ^ n) []) as (F & F1 & F2 & F3 & F4).
  exists (show_nat (k / 10 ^ n)), F. rewrite F1, app_nil_r.
  split; [destruct neg; reflexivity|]. split; [assumption|]. split; [assumption|].
  split; [assumption|]. split; [rewrite F2; lia|].
  rewrite Q3, F4, Z2Nat.id, Z.mod_mod by lia. rewrite Z.mul_comm. symmetry. apply Z.div_mod. lia.
Qed.

(* '%.nf' % x read back by _try_make_number, n >= 1: not an int; the float literal with mantissa
   scaled n m e and exponent -n; nan / inf by name *)
Lemma try_number_float n f : 1 <= n ->
  (match f with FFin _ m _ => 0 <= m | _ => True end) ->
  try_make_number (CT (l2s (fmt n f))) =
  match f with
  | FFin neg m e => ODec neg (scaled n m e) (- n)
  | FNaN => ONaN
  | FInf neg => OInf neg
  end.
Proof.
  intros Hn Hf. destruct f as [neg m e| |neg].
  - destruct (fmt_fin n neg m e) as (Q & F & E & Q1 & Q2 & F1 & F2 & EV); [lia|assumption|].
    replace (0 <? n) with true in E by lia.
    unfold try_make_number. rewrite s2l_l2s, E.
    assert (HF : F <> []) by (destruct F; [cbn [List.length] in F2; lia|discriminate]).
    rewrite py_int_dec, py_float_dec by assumption. rewrite F2, EV. reflexivity.
  - vm_compute. reflexivity.
  - destruct neg; vm_compute; reflexivity.
Qed.

(* ================= the texts: not empty, transported by the csv layer ================= *)
Lemma l2s_nonempty l : l <> [] -> String.eqb (l2s l) "" = false.
Proof. destruct l; [congruence|reflexivity]. Qed.

Lemma sgn_app_nonempty neg Q R : Q <> [] -> sgn neg ++ Q ++ R <> [].
Proof. intros HQ. destruct neg; cbn [sgn app]; [discriminate|]. destruct Q; [congruence|discriminate]. Qed.

Lemma show_int_nonempty z : String.eqb (l2s (show_int z)) "" = false.
Proof.
  apply l2s_nonempty. rewrite show_int_sgn. destruct (show_nat_spec (Z.abs z)) as (E1 & _); [lia|].
  rewrite <- (app_nil_r (show_nat (Z.abs z))). apply sgn_app_nonempty. assumption.
Qed.

Lemma fmt_nonempty n f : 0 <= n -> (match f with FFin _ m _ => 0 <= m | _ => True end) ->
  String.eqb (l2s (fmt n f)) "" = false.
Proof.
  intros Hn Hf. destruct f as [neg m e| |neg].
  - destruct (fmt_fin n neg m e Hn Hf) as (Q & F & E & Q1 & _). rewrite E.
    apply l2s_nonempty, sgn_app_nonempty. assumption.
  - reflexivity.
  - destruct neg; reflexivity.
Qed.

Section Chars.
Variable P : ascii -> bool.
Hypothesis Pd : forall c, is_digit c = true -> P c = true.
Hypothesis Pm : P ch_minus = true.
Hypothesis Pdot : P ch_dot = true.
Hypothesis Pnan : forallb P str_nan = true.
Hypothesis Pinf : forallb P str_inf = true.

Lemma all_digits_P l : forallb is_digit l = true -> forallb P l = true.
Proof. rewrite !forallb_forall. intros H x Hx. apply Pd, H, Hx. Qed.

Lemma sgn_P neg : forallb P (sgn neg) = true.
Proof. destruct neg; cbn [sgn forallb]; [rewrite Pm|]; reflexivity. Qed.

Lemma show_int_P z : forallb P (show_int z) = true.
Proof.
  rewrite show_int_sgn. destruct (show_nat_spec (Z.abs z)) as (_ & E2 & _); [lia|].
  rewrite forallb_app, sgn_P, all_digits_P by assumption. reflexivity.
Qed.

Lemma fmt_P n f : 0 <= n -> (match f with FFin _ m _ => 0 <= m | _ => True end) ->
  forallb P (fmt n f) = true.
Proof.
  intros Hn Hf. destruct f as [neg m e| |neg].
  - destruct (fmt_fin n neg m e Hn Hf) as (Q & F & E & _ & Q2 & F1 & _). rewrite E.
    rewrite !forallb_app, sgn_P, (all_digits_P Q) by assumption.
    destruct (0 <? n); [|reflexivity]. cbn [forallb]. rewrite Pdot, all_digits_P by assumption.
    reflexivity.
  - exact Pnan.
  - destruct neg; cbn [fmt forallb]; [rewrite Pm|]; exact Pinf.
Qed.
End Chars.

Lemma show_int_csv_ok z : str_csv_ok (l2s (show_int z)) = true.
Proof.
  unfold str_csv_ok. rewrite s2l_l2s. apply show_int_P; first [exact digit_csv_ok|reflexivity].
Qed.

Lemma fmt_csv_ok n f : 0 <= n -> (match f with FFin _ m _ => 0 <= m | _ => True end) ->
  str_csv_ok (l2s (fmt n f)) = true.
Proof.
  intros Hn Hf. unfold str_csv_ok. rewrite s2l_l2s.
  apply fmt_P; first [exact digit_csv_ok|reflexivity|assumption].
Qed.

(* the two halves of try_number_float, separately (used for the reference repr(float)) *)
Lemma py_int_fmt n neg m e : 1 <= n -> 0 <= m -> py_int (fmt n (FFin neg m e)) = None.
Proof.
  intros Hn Hm. destruct (fmt_fin n neg m e) as (Q & F & E & Q1 & Q2 & F1 & F2 & EV); [lia|assumption|].
  replace (0 <? n) with true in E by lia. rewrite E. apply py_int_dec; assumption.
Qed.
Lemma py_float_fmt n neg m e : 1 <= n -> 0 <= m ->
  py_float (fmt n (FFin neg m e)) = Some (ODec neg (scaled n m e) (- n)).
Proof.
  intros Hn Hm. destruct (fmt_fin n neg m e) as (Q & F & E & Q1 & Q2 & F1 & F2 & EV); [lia|assumption|].
  replace (0 <? n) with true in E by lia. rewrite E.
  assert (HF : F <> []) by (destruct F; [cbn [List.length] in F2; lia|discriminate]).
  rewrite py_float_dec by assumption. rewrite F2, EV. reflexivity.
Qed.

Print Assumptions try_number_float.
Print Assumptions py_int_show_int.
