(* C18/ProofsLim.v -- the int_max_str_digits guard: the length of str(n) against powers of ten; under
   the guard the limited conversions are the unlimited ones, beyond it they raise. *)
From Coq Require Import ZArith List Bool String Ascii Lia ZifyBool.
From PV Require Import Base.NpSearch C18.Model C18.Spec C18.Lim C18.Proofs C18.ProofsNum.
Import ListNotations.
Open Scope Z_scope.

Lemma zlen_length {A} (l : list A) : zlen l = Z.of_nat (List.length l).
Proof. reflexivity. Qed.

(* ================= digits and powers of ten ================= *)
Lemma digits_val_bound D : forallb is_digit D = true -> 0 <= digits_val D < 10 ^ Z.of_nat (List.length D).
Proof.
  induction D as [|d D IH] using rev_ind; intros H.
  - cbn. lia.
  - rewrite forallb_app in H. apply andb_true_iff in H. destruct H as [H1 H2]. cbn [forallb] in H2.
    rewrite digits_val_snoc, app_length. cbn [List.length]. rewrite Nat.add_1_r, Nat2Z.inj_succ, Z.pow_succ_r by lia.
    specialize (IH H1). unfold is_digit, dval in *. lia.
Qed.

Lemma digits_val_head c t : forallb is_digit (c :: t) = true -> Ascii.eqb c "0"%char = false ->
  10 ^ Z.of_nat (List.length t) <= digits_val (c :: t).
Proof.
  intros H E. cbn [forallb] in H. apply andb_true_iff in H. destruct H as [Hc Ht].
  rewrite digits_val_eq. cbn [fold_left]. rewrite fold_dstep.
  pose proof (digits_val_bound t Ht) as Hb.
  assert (Hd : 1 <= dstep 0 c).
  { unfold dstep, dval. unfold is_digit in Hc.
    assert (code c <> 48); [|lia]. intros Hx. apply Ascii.eqb_neq in E. apply E.
    unfold code in Hx. apply (f_equal Z.to_N) in Hx. rewrite N2Z.id in Hx.
    apply (f_equal ascii_of_N) in Hx. rewrite ascii_N_embedding in Hx. exact Hx. }
  assert (0 < 10 ^ Z.of_nat (List.length t)) by (apply Z.pow_pos_nonneg; lia). nia.
Qed.

Lemma show_nat_loop_head' fuel : forall n acc, 0 < n < 2 ^ Z.of_nat fuel ->
  exists c t, show_nat_loop fuel n acc = c :: t /\ Ascii.eqb c "0"%char = false.
Proof.
  induction fuel as [|f IH]; intros n acc H.
  - change (Z.of_nat 0) with 0 in H. rewrite Z.pow_0_r in H. lia.
  - cbn [show_nat_loop]. destruct (n <? 10) eqn:E.
    + eexists _, _. split; [reflexivity|]. rewrite Z.mod_small by lia.
      apply Ascii.eqb_neq. intros Hc. apply (f_equal code) in Hc. rewrite code_chr in Hc by lia.
      change (code "0"%char) with 48 in Hc. lia.
    + rewrite Nat2Z.inj_succ, Z.pow_succ_r in H by lia. apply IH.
      split; [apply Z.div_str_pos; lia|apply Z.div_lt_upper_bound; lia].
Qed.

(* str(n) has at most k digits exactly when n < 10^k *)
Lemma show_nat_len n k : 0 <= n -> 1 <= k -> (zlen (show_nat n) <=? k) = (n <? 10 ^ k).
Proof.
  intros Hn Hk. destruct (show_nat_spec n Hn) as (N1 & N2 & N3).
  destruct (Z.eq_dec n 0) as [->|Hz].
  - change (show_nat 0) with ["0"%char]. assert (0 < 10 ^ k) by (apply Z.pow_pos_nonneg; lia).
    unfold zlen. cbn [List.length]. lia.
  - destruct (show_nat_loop_head' (S (Z.to_nat (Z.log2 n))) n []) as (c & t & Ec & E0).
    { split; [lia|]. rewrite Nat2Z.inj_succ, Z2Nat.id by apply Z.log2_nonneg. apply Z.log2_spec. lia. }
    fold (show_nat n) in Ec. rewrite Ec in *.
    pose proof (digits_val_bound _ N2) as Hu. pose proof (digits_val_head c t N2 E0) as Hl.
    rewrite N3 in *. unfold zlen. cbn [List.length] in *. rewrite Nat2Z.inj_succ in *.
    destruct (Z.succ (Z.of_nat (List.length t)) <=? k) eqn:E.
    + symmetry. apply Z.ltb_lt. eapply Z.lt_le_trans; [apply Hu|]. apply Z.pow_le_mono_r; lia.
    + symmetry. apply Z.ltb_ge. eapply Z.le_trans; [|apply Hl]. apply Z.pow_le_mono_r; lia.
Qed.

(* ================= int() with the limit ================= *)
Lemma py_int_lim_spec lim l :
  py_int_lim lim l = match py_int l with
                     | Some z => if over_limit lim (int_digits l) then None else Some z
                     | None => None
                     end.
Proof.
  unfold py_int_lim, py_int, int_digits. destruct (split_sign (strip l)) as [neg l2]. cbn [snd].
  destruct (digitpart l2) as [d|]; [|reflexivity]. destruct (dp_rest d); [|reflexivity].
  destruct (over_limit lim (dp_cnt d)); reflexivity.
Qed.

Lemma py_int_lim_none lim l : py_int l = None -> py_int_lim lim l = None.
Proof. intros H. rewrite py_int_lim_spec, H. reflexivity. Qed.

Lemma over_limit_0 cnt : over_limit 0 cnt = false.
Proof. reflexivity. Qed.

Lemma int_digits_show_int z : int_digits (show_int z) = zlen (show_nat (Z.abs z)).
Proof.
  unfold int_digits. rewrite show_int_sgn. destruct (show_nat_spec (Z.abs z)) as (E1 & E2 & E3); [lia|].
  rewrite strip_nsp by (apply nsp_app; [apply sgn_nsp|apply digits_nsp; assumption]).
  rewrite split_sign_sgn by (rewrite <- (app_nil_r (show_nat (Z.abs z))); apply hdd_app; assumption).
  cbn [snd]. rewrite digitpart_all by assumption. reflexivity.
Qed.

(* for a limit k as a variable (no tactic ever sees the numeral 10^4300) *)
Lemma over_limit_pow k z : 1 <= k -> over_limit k (zlen (show_nat (Z.abs z))) = negb (Z.abs z <? 10 ^ k).
Proof.
  intros Hk. unfold over_limit. rewrite <- (show_nat_len (Z.abs z) k) by lia. lia.
Qed.

Lemma one_le_limit : 1 <= int_max_str_digits.
Proof. discriminate. Qed.

Lemma over_limit_int z : over_limit int_max_str_digits (zlen (show_nat (Z.abs z))) = negb (int_in_limit z).
Proof. exact (over_limit_pow int_max_str_digits z one_le_limit). Qed.

(* under the guard: str() and int() are the unlimited conversions and round-trip *)
Theorem int_limit_ok z : int_in_limit z = true ->
  str_int_lim int_max_str_digits z = Some (show_int z) /\
  py_int_lim int_max_str_digits (show_int z) = Some z /\
  try_make_number_lim int_max_str_digits (CT (l2s (show_int z))) = OInt z.
Proof.
  intros H. pose proof (over_limit_int z) as Ho. rewrite H in Ho. cbn [negb] in Ho.
  assert (E : py_int_lim int_max_str_digits (show_int z) = Some z).
  { rewrite py_int_lim_spec, py_int_show_int, int_digits_show_int, Ho. reflexivity. }
  split; [unfold str_int_lim; rewrite Ho; reflexivity|]. split; [exact E|].
  unfold try_make_number_lim. rewrite s2l_l2s, E. reflexivity.
Qed.

(* beyond the guard: str() raises (nothing is written), and int() of such a literal raises *)
Theorem int_limit_exceeded z : int_in_limit z = false ->
  str_int_lim int_max_str_digits z = None /\ py_int_lim int_max_str_digits (show_int z) = None.
Proof.
  intros H. pose proof (over_limit_int z) as Ho. rewrite H in Ho. cbn [negb] in Ho.
  split; [unfold str_int_lim; rewrite Ho; reflexivity|].
  rewrite py_int_lim_spec, py_int_show_int, int_digits_show_int, Ho. reflexivity.
Qed.

(* a text whose integer part (if it is an integer literal at all) is within the limit is typed the same *)
Theorem try_number_lim_agree lim s : over_limit lim (int_digits (s2l s)) = false ->
  try_make_number_lim lim (CT s) = try_make_number (CT s).
Proof.
  intros H. unfold try_make_number_lim, try_make_number. rewrite py_int_lim_spec, H.
  destruct (py_int (s2l s)); reflexivity.
Qed.

(* any text that int() rejects is typed the same whatever the limit *)
Lemma try_number_lim_nonint lim s : py_int (s2l s) = None -> try_make_number_lim lim (CT s) = try_make_number (CT s).
Proof. intros H. unfold try_make_number_lim, try_make_number. rewrite (py_int_lim_none lim _ H), H. reflexivity. Qed.

(* ================= cells of the tables under the limit ================= *)
(* a value within the guard is written as without the limit, and its cell is typed as without it *)
Theorem render_lim_ok n v : 1 <= n -> value_ok v = true -> value_in_limit v = true ->
  render_lim int_max_str_digits n v = Some (render n v) /\
  try_make_number_lim int_max_str_digits (render n v) = try_make_number (render n v).
Proof.
  intros Hn Hv Hl. destruct v as [|z|f|s]; cbn [render_lim render value_in_limit] in *.
  - split; [reflexivity|]. apply try_number_lim_nonint. reflexivity.
  - destruct (int_limit_ok z Hl) as (E1 & _ & E3). rewrite E1. split; [reflexivity|].
    rewrite E3, try_number_int. reflexivity.
  - split; [reflexivity|]. apply try_number_lim_nonint. rewrite s2l_l2s.
    destruct f as [neg m e| |neg].
    + cbn [value_ok] in Hv. apply py_int_fmt; lia.
    + reflexivity.
    + destruct neg; reflexivity.
  - split; [reflexivity|]. apply try_number_lim_nonint.
    cbn [value_ok] in Hv. apply andb_true_iff in Hv. destruct Hv as [Hv _]. unfold nonnumeric in Hv.
    apply andb_true_iff in Hv. destruct Hv as [_ H2]. destruct (py_int (s2l s)); [discriminate|reflexivity].
Qed.

Theorem render_raw_lim_ok F v : Float_OK F -> simple_value_ok v = true -> value_in_limit v = true ->
  render_raw_lim F int_max_str_digits v = Some (render_raw F v) /\
  try_make_number_lim int_max_str_digits (render_raw F v) = try_make_number (render_raw F v).
Proof.
  intros HF Hv Hl. destruct v as [|z|f|s]; cbn [render_raw_lim render_raw value_in_limit simple_value_ok] in *.
  - discriminate.
  - destruct (int_limit_ok z Hl) as (E1 & _ & E3). rewrite E1. split; [reflexivity|].
    rewrite E3, try_number_int. reflexivity.
  - split; [reflexivity|]. apply try_number_lim_nonint. rewrite s2l_l2s. apply (fl_not_int F HF f Hv).
  - split; [reflexivity|]. apply try_number_lim_nonint.
    cbn [value_ok] in Hv. apply andb_true_iff in Hv. destruct Hv as [Hv _]. unfold nonnumeric in Hv.
    apply andb_true_iff in Hv. destruct Hv as [_ H2]. destruct (py_int (s2l s)); [discriminate|reflexivity].
Qed.

(* a value beyond the guard cannot be written at all *)
Theorem render_lim_exceeded n z : int_in_limit z = false -> render_lim int_max_str_digits n (VInt z) = None.
Proof. intros H. cbn [render_lim]. rewrite (proj1 (int_limit_exceeded z H)). reflexivity. Qed.

Print Assumptions int_limit_ok.
