(* C18/ProofsPy2.v -- parameter files, values other than a lone string: the evaluator ev reads back
   what py_repr printed (None, bool, int, float through the float oracle, str, nested lists and
   dictionaries); lit_rest agrees with lit_body; no text has a raw line break;
   read_python (write_python d) = d. *)
From Coq Require Import ZArith List Bool String Ascii Lia ZifyBool.
From PV Require Import Base.NpSearch C18.Model C18.Spec C18.Proofs C18.ProofsJson C18.ProofsNum C18.ProofsPy.
Import ListNotations.
Open Scope Z_scope.

(* ================= string literals with a rest ================= *)
Definition lit_rest_step (rec : list ascii -> option (list ascii * list ascii)) (q : ascii) (l : list ascii)
  : option (list ascii * list ascii) :=
  match l with
  | [] => None
  | c :: r =>
      if Ascii.eqb c q then Some ([], r)
      else if Ascii.eqb c ch_bs then
        match r with
        | e :: r' =>
            let ez := code e in
            if (ez =? 92) || (ez =? 39) || (ez =? 34) then cons_fst e (rec r')
            else if ez =? 116 then cons_fst (chr 9) (rec r')
            else if ez =? 110 then cons_fst (chr 10) (rec r')
            else if ez =? 114 then cons_fst (chr 13) (rec r')
            else if ez =? 120 then
              match r' with
              | h1 :: h2 :: r'' =>
                  match hexval h1, hexval h2 with
                  | Some a, Some b => if 16 * a + b <? 128
                                      then cons_fst (chr (16 * a + b)) (rec r'')
                                      else None
                  | _, _ => None
                  end
              | _ => None
              end
            else None
        | [] => None
        end
      else if (code c =? 10) || (code c =? 13) then None
      else cons_fst c (rec r)
  end.

Lemma lit_rest_unfold q l : lit_rest q l = lit_rest_step (lit_rest q) q l.
Proof. destruct l; reflexivity. Qed.

Lemma lit_rest_step_esc_char rec q c rest : q = ch_sq \/ q = ch_dq ->
  lit_rest_step rec q (esc_char q c ++ rest) = cons_fst c (rec rest).
Proof.
  intros [-> | ->]; destruct c as [[] [] [] [] [] [] [] []]; vm_compute; reflexivity.
Qed.

Lemma lit_rest_esc_char q c rest : q = ch_sq \/ q = ch_dq ->
  lit_rest q (esc_char q c ++ rest) = cons_fst c (lit_rest q rest).
Proof. intros Hq. rewrite lit_rest_unfold. apply lit_rest_step_esc_char, Hq. Qed.

Lemma lit_rest_flat_map q s rest : q = ch_sq \/ q = ch_dq ->
  lit_rest q (flat_map (esc_char q) s ++ q :: rest) = Some (s, rest).
Proof.
  intros Hq. induction s as [|c s IH].
  - cbn [flat_map app lit_rest]. rewrite Ascii.eqb_refl. reflexivity.
  - cbn [flat_map]. rewrite <- app_assoc, (lit_rest_esc_char q c _ Hq), IH. reflexivity.
Qed.

(* repr(s) is a quote, the escaped characters, the same quote *)
Lemma repr_str_shape s : exists q, (q = ch_sq \/ q = ch_dq) /\ repr_str s = q :: flat_map (esc_char q) s ++ [q].
Proof. exists (repr_quote s). split; [apply repr_quote_cases|reflexivity]. Qed.

Lemma quote_is_quote q : q = ch_sq \/ q = ch_dq -> is_quote q = true.
Proof. intros [-> | ->]; reflexivity. Qed.

(* lit_rest is lit_body that does not insist on the end of the text *)
Definition whole (o : option (list ascii * list ascii)) : option (list ascii) :=
  match o with Some (s, []) => Some s | _ => None end.
Lemma whole_cons_fst c o : whole (cons_fst c o) = option_map (cons c) (whole o).
Proof. destruct o as [[s [|x r]]|]; reflexivity. Qed.

Lemma lit_body_rest q : forall n l, (List.length l <= n)%nat -> lit_body q l = whole (lit_rest q l).
Proof.
  induction n as [|n IH]; intros l Hl.
  - destruct l; [reflexivity|cbn [List.length] in Hl; lia].
  - destruct l as [|c r]; [reflexivity|]. cbn [List.length] in Hl.
    assert (Hr : forall x r0, (List.length r0 <= List.length r)%nat ->
                 option_map (cons x) (lit_body q r0) = whole (cons_fst x (lit_rest q r0))).
    { intros x r0 H0. rewrite whole_cons_fst, IH by lia. reflexivity. }
    cbn [lit_body lit_rest].
    destruct (Ascii.eqb c q). { destruct r; reflexivity. }
    destruct (Ascii.eqb c ch_bs).
    { destruct r as [|e r']; [reflexivity|]. cbv zeta. cbn [List.length] in Hr.
      destruct ((code e =? 92) || (code e =? 39) || (code e =? 34)); [apply Hr; lia|].
      destruct (code e =? 116); [apply Hr; lia|].
      destruct (code e =? 110); [apply Hr; lia|].
      destruct (code e =? 114); [apply Hr; lia|].
      destruct (code e =? 120); [|reflexivity].
      destruct r' as [|h1 [|h2 r'']]; try reflexivity.
      destruct (hexval h1); [|reflexivity]. destruct (hexval h2); [|reflexivity].
      destruct (16 * z + z0 <? 128); [|reflexivity]. apply Hr. cbn [List.length]. lia. }
    destruct ((code c =? 10) || (code c =? 13)); [reflexivity|]. apply Hr. lia.
Qed.

Theorem lit_body_is_lit_rest q l : lit_body q l = whole (lit_rest q l).
Proof. apply (lit_body_rest q (List.length l)). lia. Qed.

(* ================= tokens ================= *)
Definition rest_ok (rest : list ascii) : Prop :=
  match rest with [] => True | c :: _ => stop_char c = true end.
(* characters of a name / number token that do not open another kind of expression *)
Definition atom_char (c : ascii) : bool :=
  negb (stop_char c) && negb (is_quote c) && negb (Ascii.eqb c ch_lbr) && negb (Ascii.eqb c ch_lcb).

Lemma atom_char_parts c : atom_char c = true ->
  stop_char c = false /\ is_quote c = false /\ Ascii.eqb c ch_lbr = false /\ Ascii.eqb c ch_lcb = false.
Proof.
  unfold atom_char. intros H. repeat (apply andb_true_iff in H; destruct H as [H ?]).
  repeat split; apply negb_true_iff; assumption.
Qed.

Lemma scan_tok_app t rest : forallb atom_char t = true -> rest_ok rest -> scan_tok (t ++ rest) = (t, rest).
Proof.
  intros Ht Hr. induction t as [|c t IH].
  - cbn [app]. destruct rest as [|c r]; [reflexivity|]. cbn [rest_ok] in Hr. cbn [scan_tok]. rewrite Hr. reflexivity.
  - cbn [forallb] in Ht. apply andb_true_iff in Ht. destruct Ht as [Hc Ht].
    destruct (atom_char_parts c Hc) as (H1 & _). cbn [app scan_tok]. rewrite H1, (IH Ht). reflexivity.
Qed.

Lemma float_char_atom c : float_char c = true -> atom_char c = true.
Proof.
  intros H. destruct (atom_char c) eqn:E; [reflexivity|].
  destruct c as [[] [] [] [] [] [] [] []]; vm_compute in E; try discriminate E; vm_compute in H; discriminate H.
Qed.
Lemma float_chars_atom t : forallb float_char t = true -> forallb atom_char t = true.
Proof. rewrite !forallb_forall. intros H c Hc. apply float_char_atom, H, Hc. Qed.

Lemma float_char_not_space c : float_char c = true -> is_space c = false.
Proof.
  intros H. destruct (is_space c) eqn:E; [|reflexivity].
  destruct c as [[] [] [] [] [] [] [] []]; vm_compute in E; try discriminate E; vm_compute in H; discriminate H.
Qed.
Lemma float_chars_nsp t : forallb float_char t = true -> nsp t = true.
Proof.
  unfold nsp. rewrite !forallb_forall. intros H c Hc. rewrite float_char_not_space; [reflexivity|apply H, Hc].
Qed.

(* a token of float characters is none of the three names *)
Lemma float_chars_not_name t : forallb float_char t = true ->
  chars_eqb t str_None = false /\ chars_eqb t str_True = false /\ chars_eqb t str_False = false.
Proof.
  intros H. destruct t as [|c t]; [repeat split; reflexivity|].
  cbn [forallb] in H. apply andb_true_iff in H. destruct H as [Hc _].
  assert (E : Ascii.eqb c "N"%char = false /\ Ascii.eqb c "T"%char = false /\ Ascii.eqb c "F"%char = false).
  { repeat split; apply Ascii.eqb_neq; intros ->; discriminate Hc. }
  destruct E as (E1 & E2 & E3).
  unfold str_None, str_True, str_False. cbn [s2l list_ascii_of_string chars_eqb]. rewrite E1, E2, E3. repeat split; reflexivity.
Qed.

Section WithFloat.
Variable F : floatlayer.
Hypothesis HF : Float_OK F.

(* unfolding equations of the mutual evaluator *)
Lemma ev_S fu c r : ev F (S fu) (c :: r) =
  if is_quote c then
    match lit_rest c r with Some p => Some (PStr (l2s (fst p)), snd p) | None => None end
  else if Ascii.eqb c ch_lbr then
    match r with
    | c2 :: r2 => if Ascii.eqb c2 ch_rbr then Some (PList [], r2) else ev_list F fu r []
    | [] => None
    end
  else if Ascii.eqb c ch_lcb then
    match r with
    | c2 :: r2 => if Ascii.eqb c2 ch_rcb then Some (PDict [], r2) else ev_dict F fu r []
    | [] => None
    end
  else let (t, rest) := scan_tok (c :: r) in
       match eval_atom F t with
       | Some v => Some (v, rest)
       | None => None
       end.
Proof. reflexivity. Qed.
Lemma ev_list_S fu l acc : ev_list F (S fu) l acc =
  match ev F fu l with
  | Some (v, c :: rest) =>
      if Ascii.eqb c ch_comma_ then
        match rest with
        | sp :: rest' => if Ascii.eqb sp ch_space then ev_list F fu rest' (v :: acc) else None
        | [] => None
        end
      else if Ascii.eqb c ch_rbr then Some (PList (rev (v :: acc)), rest)
      else None
  | _ => None
  end.
Proof. reflexivity. Qed.
Lemma ev_dict_S fu q r acc : ev_dict F (S fu) (q :: r) acc =
  if is_quote q then
    match lit_rest q r with
    | Some (k, c1 :: c2 :: r2) =>
        if Ascii.eqb c1 ch_colon && Ascii.eqb c2 ch_space then
          match ev F fu r2 with
          | Some (v, c :: rest) =>
              if Ascii.eqb c ch_comma_ then
                match rest with
                | sp :: rest' => if Ascii.eqb sp ch_space then ev_dict F fu rest' ((l2s k, v) :: acc) else None
                | [] => None
                end
              else if Ascii.eqb c ch_rcb
              then Some (PDict (dict_of_list String.eqb (rev ((l2s k, v) :: acc))), rest)
              else None
          | _ => None
          end
        else None
    | _ => None
    end
  else None.
Proof. reflexivity. Qed.

(* ================= atoms ================= *)
Lemma ev_atom fu t v rest : t <> [] -> forallb atom_char t = true -> eval_atom F t = Some v -> rest_ok rest ->
  ev F (S fu) (t ++ rest) = Some (v, rest).
Proof.
  intros Hne Ht Hv Hr. destruct t as [|c t]; [congruence|].
  pose proof Ht as Ht'. cbn [forallb] in Ht'. apply andb_true_iff in Ht'. destruct Ht' as [Hc _].
  destruct (atom_char_parts c Hc) as (_ & H2 & H3 & H4).
  change ((c :: t) ++ rest) with (c :: (t ++ rest)). rewrite ev_S. rewrite H2, H3, H4.
  change (c :: (t ++ rest)) with ((c :: t) ++ rest). rewrite (scan_tok_app _ _ Ht Hr).
  rewrite Hv. reflexivity.
Qed.

Lemma show_nat_loop_head fuel : forall n acc, 0 < n < 2 ^ Z.of_nat fuel ->
  exists c t, show_nat_loop fuel n acc = c :: t /\ Ascii.eqb c "0"%char = false.
Proof.
  induction fuel as [|f IH]; intros n acc H.
  - change (Z.of_nat 0) with 0 in H. rewrite Z.pow_0_r in H. lia.
  - cbn [show_nat_loop]. destruct (n <? 10) eqn:E.
    + eexists _, _. split; [reflexivity|]. rewrite Z.mod_small by lia.
      apply Ascii.eqb_neq. intros Hc. apply (f_equal code) in Hc. rewrite code_chr in Hc by lia.
      change (code "0"%char) with 48 in Hc. lia.
    + rewrite Nat2Z.inj_succ, Z.pow_succ_r in H by lia. apply IH.
      split; [apply Z.div_str_pos; lia|apply Z.div_lt_upper_bound; lia].
Qed.

Lemma show_nat_head n : 0 < n -> exists c t, show_nat n = c :: t /\ Ascii.eqb c "0"%char = false.
Proof.
  intros H. unfold show_nat. apply show_nat_loop_head. split; [lia|].
  rewrite Nat2Z.inj_succ, Z2Nat.id by apply Z.log2_nonneg. apply Z.log2_spec. lia.
Qed.

Lemma show_int_float_chars z : forallb float_char (show_int z) = true.
Proof.
  apply show_int_P; try reflexivity. intros c Hc. unfold float_char. rewrite Hc. reflexivity.
Qed.

Lemma show_int_nonnil z : show_int z <> [].
Proof.
  rewrite show_int_sgn. destruct (show_nat_spec (Z.abs z)) as (E1 & _); [lia|].
  rewrite <- (app_nil_r (show_nat (Z.abs z))). apply sgn_app_nonempty. assumption.
Qed.

Lemma eval_atom_int z : eval_atom F (show_int z) = Some (PInt z).
Proof.
  destruct (Z.eq_dec z 0) as [->|Hz]; [reflexivity|].
  unfold eval_atom. destruct (float_chars_not_name _ (show_int_float_chars z)) as (E1 & E2 & E3).
  rewrite E1, E2, E3. rewrite py_int_show_int.
  destruct (show_nat_spec (Z.abs z)) as (N1 & N2 & N3); [lia|].
  destruct (show_nat_head (Z.abs z)) as (c & t & Ec & E0); [lia|].
  assert (Hs : split_sign (show_int z) = (z <? 0, show_nat (Z.abs z))).
  { rewrite show_int_sgn. apply split_sign_sgn. rewrite <- (app_nil_r (show_nat (Z.abs z))). apply hdd_app; assumption. }
  unfold is_num_start. rewrite Hs. cbn [snd]. rewrite Ec.
  rewrite Ec in N2. cbn [forallb] in N2. apply andb_true_iff in N2. destruct N2 as [N2 _]. rewrite N2. cbn [orb].
  rewrite E0. cbn [andb]. destruct t; reflexivity.
Qed.

(* float(): a float-typed cell of a text without white space starts, after the sign, with a digit or a point *)
Lemma py_float_num_start t neg mant e10 : nsp t = true -> py_float t = Some (ODec neg mant e10) -> is_num_start t = true.
Proof.
  intros Hs H. unfold py_float in H. rewrite strip_nsp in H by exact Hs. unfold is_num_start.
  destruct (split_sign t) as [sg l2]. cbn [snd].
  destruct (chars_eqb (map lower l2) str_inf || chars_eqb (map lower l2) str_infinity); [discriminate H|].
  destruct (chars_eqb (map lower l2) str_nan); [discriminate H|].
  destruct l2 as [|c r]; [discriminate H|].
  destruct (is_digit c) eqn:Ed; [reflexivity|]. cbn [orb].
  cbn [digitpart] in H. rewrite Ed in H.
  destruct (Ascii.eqb c ch_dot); [reflexivity|]. discriminate H.
Qed.

Lemma frepr_nonnil f : f64_ok f = true -> frepr F f <> [].
Proof.
  intros Hf E. destruct (fl_rt F HF f Hf) as (c & E1 & _). rewrite E in E1. discriminate E1.
Qed.

Lemma eval_atom_float neg m e : f64_ok (FFin neg m e) = true ->
  eval_atom F (frepr F (FFin neg m e)) = Some (PFloat (FFin neg m e)).
Proof.
  intros Hf. pose proof (fl_chars F HF _ Hf) as Hc.
  destruct (fl_rt F HF _ Hf) as (c & E1 & E2).
  unfold eval_atom. destruct (float_chars_not_name _ Hc) as (N1 & N2 & N3). rewrite N1, N2, N3.
  destruct c as [z|sg mant e10| |sg|g|s]; cbn [cell_double] in E2; try discriminate E2.
  rewrite (py_float_num_start _ sg mant e10 (float_chars_nsp _ Hc) E1).
  rewrite (fl_not_int F HF _ Hf), E1. congruence.
Qed.

(* ================= the texts ================= *)
(* values: plain, floats binary64, dictionaries with distinct keys *)
Definition okv (v : pyval) : Prop := plain v = true /\ pfloat_ok v = true /\ wfb v = true.

Lemma okv_list l : okv (PList l) -> Forall okv l.
Proof.
  intros (H1 & H2 & H3). cbn [plain pfloat_ok wfb] in *. rewrite forallb_forall in *.
  apply Forall_forall. intros x Hx. repeat split; auto.
Qed.
Lemma okv_dict l : okv (PDict l) -> Forall (fun kv => okv (snd kv)) l /\ nodup_b (map fst l) = true.
Proof.
  intros (H1 & H2 & H3). cbn [plain pfloat_ok wfb] in *.
  repeat (apply andb_true_iff in H3; destruct H3 as [H3 ?]).
  rewrite forallb_forall in *. split; [|assumption].
  apply Forall_forall. intros x Hx. repeat split; auto.
Qed.

(* every text starts with a character that is not a token end (so not "]" or "}"), and is not empty *)
Lemma py_repr_head v : okv v -> exists c t, py_repr F v = c :: t /\ stop_char c = false.
Proof.
  intros (H1 & H2 & _). destruct v as [|b|z|f|s|l|l|dt x|dt sh lay el]; cbn [py_repr]; try discriminate H1.
  - eexists _, _. split; reflexivity.
  - destruct b; eexists _, _; split; reflexivity.
  - pose proof (show_int_float_chars z) as Hc. pose proof (show_int_nonnil z) as Hn.
    destruct (show_int z) as [|c t]; [congruence|]. exists c, t. split; [reflexivity|].
    cbn [forallb] in Hc. apply andb_true_iff in Hc. destruct Hc as [Hc _].
    apply (atom_char_parts c (float_char_atom c Hc)).
  - cbn [pfloat_ok] in H2. pose proof (fl_chars F HF f H2) as Hc. pose proof (frepr_nonnil f H2) as Hn.
    destruct (frepr F f) as [|c t]; [congruence|]. exists c, t. split; [reflexivity|].
    cbn [forallb] in Hc. apply andb_true_iff in Hc. destruct Hc as [Hc _].
    apply (atom_char_parts c (float_char_atom c Hc)).
  - destruct (repr_str_shape (s2l s)) as (q & Hq & E). rewrite E. eexists _, _. split; [reflexivity|].
    destruct Hq as [-> | ->]; reflexivity.
  - eexists _, _. split; reflexivity.
  - eexists _, _. split; reflexivity.
Qed.

Lemma stop_comma : stop_char ch_comma_ = true. Proof. reflexivity. Qed.
Lemma stop_rbr : stop_char ch_rbr = true. Proof. reflexivity. Qed.
Lemma stop_rcb : stop_char ch_rcb = true. Proof. reflexivity. Qed.

Definition Ev (v : pyval) : Prop :=
  forall fuel rest, (List.length (py_repr F v) <= fuel)%nat -> rest_ok rest ->
  ev F fuel (py_repr F v ++ rest) = Some (v, rest).

Lemma join_cons2 (a b : list ascii) r :
  join_sep (a :: b :: r) = a ++ ch_comma_ :: ch_space :: join_sep (b :: r).
Proof. reflexivity. Qed.

Lemma ev_list_items : forall xs x acc fu rest, Forall Ev (x :: xs) -> Forall okv (x :: xs) ->
  (List.length (join_sep (map (py_repr F) (x :: xs))) < fu)%nat -> rest_ok rest ->
  ev_list F fu (join_sep (map (py_repr F) (x :: xs)) ++ ch_rbr :: rest) acc = Some (PList (rev acc ++ x :: xs), rest).
Proof.
  induction xs as [|y ys IH]; intros x acc fu rest HE Ho Hl Hr; destruct fu as [|fu]; try lia;
    inversion HE as [|? ? HEx HE']; subst; inversion Ho as [|? ? Hox Ho']; subst.
  - cbn [map join_sep] in *. rewrite ev_list_S.
    rewrite (HEx fu (ch_rbr :: rest)) by (try exact stop_rbr; lia).
    replace (Ascii.eqb ch_rbr ch_comma_) with false by reflexivity.
    replace (Ascii.eqb ch_rbr ch_rbr) with true by reflexivity. cbn [rev]. reflexivity.
  - change (map (py_repr F) (x :: y :: ys)) with (py_repr F x :: py_repr F y :: map (py_repr F) ys) in *.
    rewrite join_cons2 in *. rewrite app_length in Hl. cbn [List.length] in Hl.
    rewrite <- app_assoc. cbn [app]. rewrite ev_list_S.
    rewrite (HEx fu) by (try exact stop_comma; lia).
    replace (Ascii.eqb ch_comma_ ch_comma_) with true by reflexivity.
    replace (Ascii.eqb ch_space ch_space) with true by reflexivity.
    change (py_repr F y :: map (py_repr F) ys) with (map (py_repr F) (y :: ys)) in *.
    rewrite (IH y (x :: acc) fu rest HE' Ho') by (try assumption; lia).
    cbn [rev]. rewrite <- app_assoc. reflexivity.
Qed.

Definition item_text (kv : string * pyval) : list ascii :=
  repr_str (s2l (fst kv)) ++ ch_colon :: ch_space :: py_repr F (snd kv).

Lemma ev_dict_items : forall xs kv acc fu rest, Forall (fun kv => Ev (snd kv)) (kv :: xs) ->
  Forall (fun kv => okv (snd kv)) (kv :: xs) ->
  (List.length (join_sep (map item_text (kv :: xs))) < fu)%nat -> rest_ok rest ->
  ev_dict F fu (join_sep (map item_text (kv :: xs)) ++ ch_rcb :: rest) acc =
  Some (PDict (dict_of_list String.eqb (rev acc ++ kv :: xs)), rest).
Proof.
  induction xs as [|y ys IH]; intros [k v] acc fu rest HE Ho Hl Hr; destruct fu as [|fu]; try lia;
    inversion HE as [|? ? HEx HE']; subst; inversion Ho as [|? ? Hox Ho']; subst; cbn [snd] in HEx.
  - cbn [map join_sep] in *. unfold item_text in *. cbn [fst snd] in *.
    destruct (repr_str_shape (s2l k)) as (q & Hq & E). rewrite E in *.
    rewrite !app_length in Hl. cbn [List.length] in Hl. rewrite app_length in Hl. cbn [List.length] in Hl.
    cbn [app]. rewrite ev_dict_S. rewrite (quote_is_quote q Hq).
    rewrite <- !app_assoc. cbn [app]. rewrite (lit_rest_flat_map q _ _ Hq).
    replace (Ascii.eqb ch_colon ch_colon && Ascii.eqb ch_space ch_space) with true by reflexivity.
    rewrite (HEx fu (ch_rcb :: rest)) by (try exact stop_rcb; lia).
    replace (Ascii.eqb ch_rcb ch_comma_) with false by reflexivity.
    replace (Ascii.eqb ch_rcb ch_rcb) with true by reflexivity. cbn [rev]. rewrite py_l2s_s2l. reflexivity.
  - change (map item_text ((k, v) :: y :: ys)) with (item_text (k, v) :: item_text y :: map item_text ys) in *.
    rewrite join_cons2 in *. unfold item_text at 1. unfold item_text at 1 in Hl. cbn [fst snd] in *.
    destruct (repr_str_shape (s2l k)) as (q & Hq & E). rewrite E in *.
    rewrite !app_length in Hl. cbn [List.length] in Hl. rewrite !app_length in Hl. cbn [List.length] in Hl.
    cbn [app]. rewrite ev_dict_S. rewrite (quote_is_quote q Hq).
    rewrite <- !app_assoc. cbn [app]. rewrite (lit_rest_flat_map q _ _ Hq).
    replace (Ascii.eqb ch_colon ch_colon && Ascii.eqb ch_space ch_space) with true by reflexivity.
    rewrite (HEx fu) by (try exact stop_comma; lia).
    replace (Ascii.eqb ch_comma_ ch_comma_) with true by reflexivity.
    replace (Ascii.eqb ch_space ch_space) with true by reflexivity.
    change (item_text y :: map item_text ys) with (map item_text (y :: ys)) in *.
    rewrite (IH y ((l2s (s2l k), v) :: acc) fu rest HE' Ho') by (try assumption; lia).
    cbn [rev]. rewrite <- app_assoc, py_l2s_s2l. reflexivity.
Qed.

Theorem ev_repr : forall v, okv v -> Ev v.
Proof.
  induction v as [|b|z|f|s|l IH|l IH|dt x|dt sh lay el] using pyval_rect'; intros Ho fuel rest Hl Hr.
  - destruct fuel as [|fu]; [cbn in Hl; lia|]. apply ev_atom; [discriminate|reflexivity|reflexivity|exact Hr].
  - destruct fuel as [|fu]; [destruct b; cbn in Hl; lia|].
    destruct b; (apply ev_atom; [discriminate|reflexivity|reflexivity|exact Hr]).
  - cbn [py_repr] in *. pose proof (show_int_nonnil z) as Hn.
    destruct fuel as [|fu]; [destruct (show_int z); [congruence|cbn in Hl; lia]|].
    apply ev_atom; [exact Hn|apply float_chars_atom, show_int_float_chars|apply eval_atom_int|exact Hr].
  - destruct Ho as (H1 & H2 & _). cbn [plain pfloat_ok] in H1, H2. cbn [py_repr] in *.
    pose proof (frepr_nonnil f H2) as Hn.
    destruct fuel as [|fu]; [destruct (frepr F f); [congruence|cbn in Hl; lia]|].
    destruct f as [neg m e| |neg]; try discriminate H1.
    apply ev_atom; [exact Hn|apply float_chars_atom, (fl_chars F HF _ H2)|apply eval_atom_float, H2|exact Hr].
  - cbn [py_repr] in *. destruct (repr_str_shape (s2l s)) as (q & Hq & E). rewrite E in *.
    destruct fuel as [|fu]; [cbn in Hl; lia|].
    cbn [app]. rewrite ev_S. rewrite (quote_is_quote q Hq). rewrite <- app_assoc. cbn [app].
    rewrite (lit_rest_flat_map q _ _ Hq). cbn [fst snd]. rewrite py_l2s_s2l. reflexivity.
  - (* list *)
    pose proof (okv_list l Ho) as Hol. cbn [py_repr] in *. destruct fuel as [|fu]; [cbn in Hl; lia|].
    cbn [List.length] in Hl. rewrite app_length in Hl. cbn [List.length] in Hl.
    assert (HE : Forall Ev l).
    { rewrite Forall_forall in *. intros x Hx. apply IH; [exact Hx|apply Hol, Hx]. }
    cbn [app]. rewrite ev_S. replace (is_quote ch_lbr) with false by reflexivity.
    replace (Ascii.eqb ch_lbr ch_lbr) with true by reflexivity.
    destruct l as [|x xs].
    + cbn [map join_sep app]. replace (Ascii.eqb ch_rbr ch_rbr) with true by reflexivity. reflexivity.
    + inversion Hol as [|? ? Hox _]; subst.
      destruct (py_repr_head x Hox) as (c & t & Ec & Hc).
      assert (Hj : exists t', join_sep (map (py_repr F) (x :: xs)) = c :: t').
      { destruct xs; cbn [map join_sep]; rewrite Ec; eexists; reflexivity. }
      destruct Hj as (t' & Hj). rewrite <- app_assoc. cbn [app].
      pose proof (ev_list_items xs x [] fu rest HE Hol) as Hi. rewrite Hj in *. cbn [app] in *.
      replace (Ascii.eqb c ch_rbr) with false
        by (symmetry; apply Ascii.eqb_neq; intros ->; discriminate Hc).
      apply Hi; [lia|exact Hr].
  - (* dict *)
    destruct (okv_dict l Ho) as (Hol & Hnd). cbn [py_repr] in *. destruct fuel as [|fu]; [cbn in Hl; lia|].
    fold item_text in *.
    cbn [List.length] in Hl. rewrite app_length in Hl. cbn [List.length] in Hl.
    assert (HE : Forall (fun kv => Ev (snd kv)) l).
    { rewrite Forall_forall in *. intros x Hx. apply IH; [exact Hx|apply Hol, Hx]. }
    cbn [app]. rewrite ev_S. replace (is_quote ch_lcb) with false by reflexivity.
    replace (Ascii.eqb ch_lcb ch_lbr) with false by reflexivity.
    replace (Ascii.eqb ch_lcb ch_lcb) with true by reflexivity.
    destruct l as [|[k v] xs].
    + cbn [map join_sep app]. replace (Ascii.eqb ch_rcb ch_rcb) with true by reflexivity. reflexivity.
    + destruct (repr_str_shape (s2l k)) as (q & Hq & E).
      assert (Hj : exists t', join_sep (map item_text ((k, v) :: xs)) = q :: t').
      { destruct xs; cbn [map join_sep]; unfold item_text at 1; cbn [fst]; rewrite E; eexists; reflexivity. }
      destruct Hj as (t' & Hj). rewrite <- app_assoc. cbn [app].
      pose proof (ev_dict_items xs (k, v) [] fu rest HE Hol) as Hi. rewrite Hj in *. cbn [app] in *.
      replace (Ascii.eqb q ch_rcb) with false by (destruct Hq as [-> | ->]; reflexivity).
      rewrite Hi by (try assumption; lia). cbn [rev app].
      rewrite (dict_of_list_nodup_str _ Hnd). reflexivity.
  - destruct Ho as (H1 & _). discriminate H1.
  - destruct Ho as (H1 & _). discriminate H1.
Qed.

(* ================= one right-hand side, the file ================= *)
Lemma eval_expr_repr v : okv v -> eval_expr F (py_repr F v) = Some v.
Proof.
  intros Ho. destruct (py_repr_head v Ho) as (c & t & Ec & Hc).
  destruct v as [|b|z|f|s|l|l|dt x|dt sh lay el];
    try (destruct Ho as (H1 & _); discriminate H1).
  5:{ (* a string alone *)
      cbn [py_repr] in *. destruct (repr_str_shape (s2l s)) as (q & Hq & E).
      unfold eval_expr. rewrite E at 1. rewrite (quote_is_quote q Hq).
      rewrite eval_repr_str. cbn [option_map]. rewrite py_l2s_s2l. reflexivity. }
  all: unfold eval_expr; rewrite Ec at 1;
    assert (Hq : is_quote c = false);
    [ | rewrite Hq; rewrite <- (app_nil_r (py_repr F _)) at 2; rewrite (ev_repr _ Ho) by (try exact I; lia); reflexivity ].
  - cbn [py_repr] in Ec. injection Ec as <- _. reflexivity.
  - cbn [py_repr] in Ec. destruct b; injection Ec as <- _; reflexivity.
  - cbn [py_repr] in Ec. pose proof (show_int_float_chars z) as Hf. rewrite Ec in Hf.
    cbn [forallb] in Hf. apply andb_true_iff in Hf. destruct Hf as [Hf _].
    apply (atom_char_parts c (float_char_atom c Hf)).
  - destruct Ho as (_ & H2 & _). cbn [pfloat_ok] in H2. cbn [py_repr] in Ec.
    pose proof (fl_chars F HF f H2) as Hf. rewrite Ec in Hf.
    cbn [forallb] in Hf. apply andb_true_iff in Hf. destruct Hf as [Hf _].
    apply (atom_char_parts c (float_char_atom c Hf)).
  - cbn [py_repr] in Ec. injection Ec as <- _. reflexivity.
  - cbn [py_repr] in Ec. injection Ec as <- _. reflexivity.
Qed.

Definition py_item_ok (kv : string * pyval) : bool :=
  py_key_ok (fst kv) && plain (snd kv) && wfb (snd kv) && pfloat_ok (snd kv).

Definition py_exec_line (ke : string * list ascii) : option (string * pyval) :=
  if is_ident (fst ke) && negb (smem (fst ke) keywords)
  then option_map (pair (fst ke)) (eval_expr F (snd ke))
  else None.

Lemma py_item_parts kv : py_item_ok kv = true ->
  is_ident (fst kv) && negb (smem (fst kv) keywords) = true /\ lower_str (fst kv) = fst kv /\ okv (snd kv).
Proof.
  unfold py_item_ok, py_key_ok. intros H. repeat (apply andb_true_iff in H; destruct H as [H ?]).
  split; [apply andb_true_iff; split; assumption|]. split; [apply String.eqb_eq; assumption|].
  repeat split; assumption.
Qed.

Lemma mapM_write_python d : forallb py_item_ok d = true -> mapM py_exec_line (write_python F d) = Some d.
Proof.
  induction d as [|[k v] d IH]; intros H; [reflexivity|].
  cbn [forallb] in H. apply andb_true_iff in H. destruct H as [Hkv Hd].
  destruct (py_item_parts _ Hkv) as (Hk & _ & Ho). cbn [fst snd] in *.
  unfold write_python in *. cbn [map mapM fst snd]. rewrite (IH Hd).
  unfold py_exec_line at 1. cbn [fst snd]. rewrite Hk, (eval_expr_repr v Ho). reflexivity.
Qed.

Lemma map_lower_keys (d : list (string * pyval)) :
  forallb py_item_ok d = true -> map (fun kv => (lower_str (fst kv), snd kv)) d = d.
Proof.
  induction d as [|[k v] d IH]; intros H; [reflexivity|].
  cbn [forallb] in H. apply andb_true_iff in H. destruct H as [Hkv Hd].
  destruct (py_item_parts _ Hkv) as (_ & Hl & _). cbn [fst snd] in *.
  cbn [map fst snd]. rewrite Hl, (IH Hd). reflexivity.
Qed.

(* read_python (write_python d) = d *)
Theorem read_write_python d : py_ok d = true -> read_python F (write_python F d) = Some d.
Proof.
  intros H. unfold py_ok in H. apply andb_true_iff in H. destruct H as [Hnd Hall].
  change (forallb py_item_ok d = true) in Hall.
  unfold read_python.
  change (fun ke : string * list ascii =>
            if is_ident (fst ke) && negb (smem (fst ke) keywords)
            then option_map (pair (fst ke)) (eval_expr F (snd ke))
            else None) with py_exec_line.
  rewrite (mapM_write_python d Hall), (dict_of_list_nodup_str d Hnd), (map_lower_keys d Hall),
    (dict_of_list_nodup_str d Hnd). reflexivity.
Qed.

(* ================= every right-hand side is one line ================= *)
Lemma no_lb_app a b : forallb no_lb (a ++ b) = forallb no_lb a && forallb no_lb b.
Proof. apply forallb_app. Qed.

Lemma float_char_no_lb c : float_char c = true -> no_lb c = true.
Proof.
  intros H. destruct (no_lb c) eqn:E; [reflexivity|].
  destruct c as [[] [] [] [] [] [] [] []]; vm_compute in E; try discriminate E; vm_compute in H; discriminate H.
Qed.

Lemma join_no_lb l : Forall (fun t => forallb no_lb t = true) l -> forallb no_lb (join_sep l) = true.
Proof.
  induction l as [|x r IH]; intros H; [reflexivity|]. inversion H as [|? ? Hx Hr]; subst.
  destruct r as [|y r]; [exact Hx|]. rewrite join_cons2, no_lb_app, Hx. cbn [forallb andb].
  replace (no_lb ch_comma_) with true by reflexivity. replace (no_lb ch_space) with true by reflexivity.
  cbn [andb]. apply IH, Hr.
Qed.

Theorem py_repr_one_line : forall v, pfloat_ok v = true -> forallb no_lb (py_repr F v) = true.
Proof.
  induction v as [|b|z|f|s|l IH|l IH|dt x|dt sh lay el] using pyval_rect'; intros Hf; cbn [py_repr].
  - reflexivity.
  - destruct b; reflexivity.
  - pose proof (show_int_float_chars z) as H. rewrite forallb_forall in H |- *.
    intros c Hc. apply float_char_no_lb, H, Hc.
  - cbn [pfloat_ok] in Hf. pose proof (fl_chars F HF f Hf) as H. rewrite forallb_forall in H |- *.
    intros c Hc. apply float_char_no_lb, H, Hc.
  - apply repr_str_one_line.
  - cbn [pfloat_ok] in Hf. cbn [forallb]. rewrite no_lb_app. cbn [forallb].
    replace (no_lb ch_lbr) with true by reflexivity. replace (no_lb ch_rbr) with true by reflexivity.
    rewrite join_no_lb; [reflexivity|]. apply Forall_forall. intros t Ht. apply in_map_iff in Ht.
    destruct Ht as (x & <- & Hx). rewrite Forall_forall in IH. apply IH; [exact Hx|].
    rewrite forallb_forall in Hf. apply Hf, Hx.
  - cbn [pfloat_ok] in Hf. cbn [forallb]. rewrite no_lb_app. cbn [forallb].
    replace (no_lb ch_lcb) with true by reflexivity. replace (no_lb ch_rcb) with true by reflexivity.
    rewrite join_no_lb; [reflexivity|]. apply Forall_forall. intros t Ht. apply in_map_iff in Ht.
    destruct Ht as (x & <- & Hx). rewrite no_lb_app. cbn [forallb].
    replace (no_lb ch_colon) with true by reflexivity. replace (no_lb ch_space) with true by reflexivity.
    change (forallb no_lb (repr_str (s2l (fst x)))) with
      (forallb (fun c => negb ((code c =? 10) || (code c =? 13))) (repr_str (s2l (fst x)))).
    rewrite repr_str_one_line. cbn [andb]. rewrite Forall_forall in IH. apply IH; [exact Hx|].
    rewrite forallb_forall in Hf. apply Hf, Hx.
  - reflexivity.
  - reflexivity.
Qed.
End WithFloat.

Print Assumptions read_write_python.
