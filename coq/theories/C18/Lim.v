(* C18/Lim.v -- CPython's limit on int <-> str conversions (sys.get_int_max_str_digits(), 4300 by
   default since 3.11): str(z) / repr(z) / '%d' / json's int printer raise ValueError when |z| has more
   than 4300 decimal digits, and int(s) raises ValueError when the literal has more than 4300 digits
   (sign, white space and underscores not counted, leading zeros counted).  Model.v's show_int / py_int
   are the conversions without the limit (sys.set_int_max_str_digits(0)); here are the limited ones.
   The theorems (ProofsLim.v, Props.v) state the bound as a guard: for |z| < 10^4300 the limited
   functions are the unlimited ones, beyond it nothing can be written or read. *)
From Coq Require Import ZArith List Bool String Ascii.
From PV Require Import Base.NpSearch C18.Model.
Import ListNotations.
Open Scope Z_scope.

Definition int_max_str_digits : Z := 4300.
(* lim = 0 switches the limit off *)
Definition over_limit (lim cnt : Z) : bool := (0 <? lim) && (lim <? cnt).

(* str(z) *)
Definition str_int_lim (lim z : Z) : option (list ascii) :=
  if over_limit lim (zlen (show_nat (Z.abs z))) then None else Some (show_int z).

(* the number of digits int() counts in a literal *)
Definition int_digits (l : list ascii) : Z :=
  match digitpart (snd (split_sign (strip l))) with Some d => dp_cnt d | None => 0 end.

(* int(s) *)
Definition py_int_lim (lim : Z) (l : list ascii) : option Z :=
  let (neg, l2) := split_sign (strip l) in
  match digitpart l2 with
  | Some d => match dp_rest d with
              | [] => if over_limit lim (dp_cnt d) then None
                      else Some (if neg then - dp_val d else dp_val d)
              | _ => None
              end
  | None => None
  end.

(* _try_make_number: the ValueError of the limit is caught like any other, float() has no limit *)
Definition try_make_number_lim (lim : Z) (t : ctext) : cell :=
  match t with
  | CT s => match py_int_lim lim (s2l s) with
            | Some z => OInt z
            | None => match py_float (s2l s) with
                      | Some c => c
                      | None => OStr s
                      end
            end
  end.

(* one cell of write_tsv / _write_tsv_simple under the limit: None = ValueError while writing *)
Definition render_lim (lim n : Z) (v : value) : option ctext :=
  match v with
  | VInt z => option_map (fun t => CT (l2s t)) (str_int_lim lim z)
  | _ => Some (render n v)
  end.
Definition render_raw_lim (F : floatlayer) (lim : Z) (v : value) : option ctext :=
  match v with
  | VInt z => option_map (fun t => CT (l2s t)) (str_int_lim lim z)
  | _ => Some (render_raw F v)
  end.

(* the guard: |z| < 10^4300 *)
Definition int_in_limit (z : Z) : bool := Z.abs z <? 10 ^ int_max_str_digits.
Definition value_in_limit (v : value) : bool := match v with VInt z => int_in_limit z | _ => true end.
