(* C18/Spec.v -- the property, stated independently of the encoders/decoders, with the boolean
   checkers the correspondence (Corr.v) runs on the implementation's observed outputs. *)
From Coq Require Import ZArith List Bool String Ascii QArith Qabs.
From PV Require Import Base.NpSearch C18.Model.
Import ListNotations.
Open Scope Z_scope.

(* ---------------------------------------------------------------------------------------------- *)
(* JSON                                                                                           *)
(* ---------------------------------------------------------------------------------------------- *)
(* "equal contents": what a saved value must load as.  One-dimensional arrays of at most ten items
   are equal lists, NumPy scalars are equal Python scalars, every other array keeps dtype, shape
   and (C-order) values whatever its memory layout was; everything else is unchanged. *)
Fixpoint normalise (v : pyval) : pyval :=
  match v with
  | PNp _ x => scalar_py x
  | PArr dt shape _ el => if small1d shape then PList (map scalar_py el) else PArr dt shape LC el
  | PList l => PList (map normalise l)
  | PDict l => PDict (map (fun kv => (fst kv, normalise (snd kv))) l)
  | _ => v
  end.
Definition normalise_top (d : list (key * pyval)) : list (key * pyval) :=
  map (fun kv => (fst kv, normalise (snd kv))) d.

Fixpoint nodup_b (l : list string) : bool :=
  match l with [] => true | x :: r => negb (smem x r) && nodup_b r end.
(* strictly increasing in code-point order: the canonical member order of a represented dict *)
Fixpoint sorted_b (l : list string) : bool :=
  match l with
  | x :: (y :: _) as r => String.ltb x y && sorted_b r
  | _ => true
  end.

(* values an array of a dtype can hold *)
Definition int_range (b : base) : option (Z * Z) :=
  match b with
  | BI8 => Some (- 2 ^ 7, 2 ^ 7 - 1) | BI16 => Some (- 2 ^ 15, 2 ^ 15 - 1)
  | BI32 => Some (- 2 ^ 31, 2 ^ 31 - 1) | BI64 => Some (- 2 ^ 63, 2 ^ 63 - 1)
  | BU8 => Some (0, 2 ^ 8 - 1) | BU16 => Some (0, 2 ^ 16 - 1)
  | BU32 => Some (0, 2 ^ 32 - 1) | BU64 => Some (0, 2 ^ 64 - 1)
  | _ => None
  end.
(* binary float format: precision, exponent of the smallest subnormal, overflow exponent *)
Record ffmt := mkffmt { f_prec : Z; f_emin : Z; f_emax : Z }.
Definition float_fmt (b : base) : option ffmt :=
  match b with
  | BF16 => Some (mkffmt 11 (-24) 16) | BF32 => Some (mkffmt 24 (-149) 128)
  | BF64 => Some (mkffmt 53 (-1074) 1024) | _ => None
  end.
(* canonical token (mantissa odd, or 0 with exponent 0) of a value of the format *)
Definition ftok_ok (F : ffmt) (f : ftok) : bool :=
  match f with
  | FFin _ m e => if m =? 0 then e =? 0
                  else (0 <? m) && Z.odd m && (m <? 2 ^ f_prec F) && (f_emin F <=? e) &&
                       (e + Z.log2 m + 1 <=? f_emax F)
  | _ => true
  end.
Definition scalar_ok (dt : dtype) (x : scalar) : bool :=
  match x with
  | SBool _ => match dbase dt with BBool => true | _ => false end
  | SInt z => match int_range (dbase dt) with Some (lo, hi) => (lo <=? z) && (z <=? hi) | None => false end
  | SFlt f => match float_fmt (dbase dt) with Some F => ftok_ok F f | None => false end
  end.

(* the values the statement quantifies over (reading of DESIGN.md C18): nested dictionaries have
   distinct string keys (represented in sorted order) other than the two markers the decoder
   reserves; arrays and NumPy scalars have a dtype NumPy can hold and elements of that dtype, arrays
   a non-negative shape and as many elements as the shape says *)
Fixpoint wfb (v : pyval) : bool :=
  match v with
  | PList l => forallb wfb l
  | PDict l => nodup_b (map fst l) && sorted_b (map fst l) &&
               negb (smem k_ndarray (map fst l)) && negb (smem k_qba (map fst l)) &&
               forallb (fun kv => wfb (snd kv)) l
  | PNp dt x => dtype_ok dt && scalar_ok dt x
  | PArr dt shape _ el => dtype_ok dt && forallb (fun x => 0 <=? x) shape && (zprod shape =? zlen el) &&
                          forallb (scalar_ok dt) el
  | _ => true
  end.

(* a string that _intify_keys turns into an integer: optional minus sign, then digits only *)
Definition int_like (s : string) : bool :=
  match intify_key s with KInt _ => true | KStr _ => false end.

Definition key_ok (k : key) : bool :=
  match k with
  | KInt _ => true
  | KStr s => negb (int_like s) && negb (String.eqb s k_ndarray) && negb (String.eqb s k_qba)
  end.

Fixpoint key_mem (k : key) (l : list key) : bool :=
  match l with [] => false | x :: r => key_eqb x k || key_mem k r end.
Fixpoint key_nodup_b (l : list key) : bool :=
  match l with [] => true | x :: r => negb (key_mem x r) && key_nodup_b r end.

(* a top-level dictionary: distinct integer / non-integer-like string keys, represented in the order
   of their stringified forms *)
Definition wf_top_b (d : list (key * pyval)) : bool :=
  key_nodup_b (map fst d) && forallb key_ok (map fst d) &&
  sorted_b (map (fun kv => stringify_key (fst kv)) d) && forallb (fun kv => wfb (snd kv)) d.

(* trees the text-layer oracle is asked about: object members in sorted key order *)
Fixpoint jsorted (t : jtree) : bool :=
  match t with
  | JList l => forallb jsorted l
  | JObj l => sorted_b (map fst l) && forallb (fun kv => jsorted (snd kv)) l
  | _ => true
  end.

(* ---- equality tests ---- *)
Definition ftok_eqb (a b : ftok) : bool :=
  match a, b with
  | FFin n m e, FFin n' m' e' => Bool.eqb n n' && (m =? m') && (e =? e')
  | FNaN, FNaN => true
  | FInf n, FInf n' => Bool.eqb n n'
  | _, _ => false
  end.
Definition scalar_eqb (a b : scalar) : bool :=
  match a, b with
  | SBool x, SBool y => Bool.eqb x y
  | SInt x, SInt y => x =? y
  | SFlt x, SFlt y => ftok_eqb x y
  | _, _ => false
  end.
Definition layout_eqb (a b : layout) : bool :=
  match a, b with LC, LC | LF, LF | LS, LS | LR, LR => true | _, _ => false end.
Section ListEq.
Context {A : Type}.
Variable eqb : A -> A -> bool.
Fixpoint list_eqb (a b : list A) : bool :=
  match a, b with
  | [], [] => true
  | x :: a', y :: b' => eqb x y && list_eqb a' b'
  | _, _ => false
  end.
End ListEq.
Fixpoint zl_eqb (a b : list Z) : bool :=
  match a, b with
  | [], [] => true
  | x :: a', y :: b' => (x =? y) && zl_eqb a' b'
  | _, _ => false
  end.

Fixpoint pyval_eqb (a b : pyval) {struct a} : bool :=
  match a, b with
  | PNone, PNone => true
  | PBool x, PBool y => Bool.eqb x y
  | PInt x, PInt y => x =? y
  | PFloat x, PFloat y => ftok_eqb x y
  | PStr x, PStr y => String.eqb x y
  | PList x, PList y =>
      (fix go (x y : list pyval) {struct x} : bool :=
         match x, y with
         | [], [] => true
         | u :: x', v :: y' => pyval_eqb u v && go x' y'
         | _, _ => false
         end) x y
  | PDict x, PDict y =>
      (fix go (x y : list (string * pyval)) {struct x} : bool :=
         match x, y with
         | [], [] => true
         | (k, u) :: x', (k', v) :: y' => String.eqb k k' && pyval_eqb u v && go x' y'
         | _, _ => false
         end) x y
  | PNp d x, PNp d' y => dtype_eqb d d' && scalar_eqb x y
  | PArr d s l x, PArr d' s' l' y =>
      dtype_eqb d d' && zl_eqb s s' && layout_eqb l l' && list_eqb scalar_eqb x y
  | _, _ => false
  end.

(* clause 1: the loaded dictionary has the saved keys, with their types *)
Definition json_keys_b (inp out : list (key * pyval)) : bool :=
  list_eqb key_eqb (map fst out) (map fst inp).
(* clause 2: every value loads as its normal form *)
Definition json_vals_b (inp out : list (key * pyval)) : bool :=
  list_eqb pyval_eqb (map snd out) (map (fun kv => normalise (snd kv)) inp).

(* ---------------------------------------------------------------------------------------------- *)
(* tables                                                                                         *)
(* ---------------------------------------------------------------------------------------------- *)
(* a cell value as it must read back: integers and strings unchanged, floats as the decimal number
   with n digits after the point nearest to them (ties to even), absent/None omitted *)
Definition expected (n : Z) (v : value) : option cell :=
  match v with
  | VNone => None
  | VInt z => Some (OInt z)
  | VFloat (FFin neg m e) => Some (ODec neg (scaled n m e) (- n))
  | VFloat FNaN => Some ONaN
  | VFloat (FInf neg) => Some (OInf neg)
  | VStr s => Some (OStr s)
  end.
(* through _write_tsv_simple floats are written with repr and come back exactly (an observed float is
   an OFlt token; what the model's reader returns for it is characterised by Cell_Is below) *)
Definition expected_raw (v : value) : cell :=
  match v with
  | VNone => OStr ""
  | VInt z => OInt z
  | VFloat f => OFlt f
  | VStr s => OStr s
  end.

(* a string cell in the reading: not empty, and neither int() nor float() accepts it.  int() and float() also
   strip Unicode white space (FS GS RS US, NEL, NBSP, LS, PS ...) and accept non-ASCII decimal digits, which the
   byte model of py_int / py_float does not know.  So a string is in the reading when the model rejects it and
   either it is plain ASCII without FS GS RS US (the model then decides like CPython), or it holds a "mark": a
   printable ASCII character that is neither a digit, a sign, '_', '.', nor a letter of e / inf / nan / infinity
   -- CPython rejects every string with such a character, whatever else (any non-ASCII text as UTF-8 bytes,
   control characters) it holds. *)
Definition is_ascii_str (s : string) : bool := forallb (fun c => code c <? 128) (s2l s).
Definition num_alpha_char (c : ascii) : bool :=
  is_digit c || existsb (Ascii.eqb c) (s2l "+-_.einfatyEINFATY").
Definition mark_char (c : ascii) : bool := (33 <=? code c) && (code c <=? 126) && negb (num_alpha_char c).
Definition plain_char (c : ascii) : bool := (code c <? 28) || ((32 <=? code c) && (code c <? 128)).
Definition nonnumeric (s : string) : bool :=
  negb (String.eqb s "") && (forallb plain_char (s2l s) || existsb mark_char (s2l s)) &&
  match py_int (s2l s), py_float (s2l s) with None, None => true | _, _ => false end.
(* header cells / field names: no NUL, no line break (the delimiter is detected on the first physical line) *)
Definition char_csv_ok (c : ascii) : bool := negb ((code c =? 0) || (code c =? 10) || (code c =? 13)).
Definition ctext_ok (t : ctext) : bool :=
  match t with CT s => forallb char_csv_ok (s2l s) end.
Definition str_csv_ok (s : string) : bool := forallb char_csv_ok (s2l s).
(* cells the csv layer transports unchanged: every character but NUL (csv.writer quotes a cell holding LF or
   CR; the readers open the file with newline='', so a quoted CR / CR LF / LF comes back as written; the other
   line boundaries of str.splitlines -- VT FF FS GS RS NEL LS PS -- are ordinary characters for csv) *)
Definition char_cell_ok (c : ascii) : bool := negb (code c =? 0).
Definition ctext_cell_ok (t : ctext) : bool :=
  match t with CT s => forallb char_cell_ok (s2l s) end.
Definition str_cell_ok (s : string) : bool := forallb char_cell_ok (s2l s).
Definition value_ok (v : value) : bool :=
  match v with
  | VStr s => nonnumeric s && str_cell_ok s
  | VFloat (FFin _ m _) => 0 <=? m
  | _ => true
  end.
Definition no_tab (s : string) : bool := negb (existsb (Ascii.eqb ch_tab) (s2l s)).
(* a row: a dictionary (distinct field names without tab / line break) of admissible values *)
Definition row_ok (r : row) : bool :=
  nodup_b (map fst r) && forallb (fun kv => no_tab (fst kv) && str_csv_ok (fst kv) && value_ok (snd kv)) r.

(* the declarative statement for one written row r and the row o read back *)
Definition Row_Spec (first : option string) (excl : list string) (n : Z) (r : row)
           (o : list (string * cell)) : Prop :=
  NoDup (map fst o) /\
  (forall k, lookup String.eqb k o =
             if smem k excl then None
             else match lookup String.eqb k r with Some v => expected n v | None => None end) /\
  (forall f, first = Some f -> In f (map fst o) -> exists t', map fst o = f :: t').

Definition Rows_Spec (first : option string) (excl : list string) (n : Z) (rows : list row)
           (out : list (list (string * cell))) : Prop :=
  Forall2 (Row_Spec first excl n) rows out.

(* ---- comparison of an observed cell with an expected one ---- *)
Definition Qpow2 (z : Z) : Q := Qpower (2 # 1)%Q z.
Definition Qpow10 (z : Z) : Q := Qpower (10 # 1)%Q z.
(* y = (-1)^neg' m 2^e is within half a unit in the last place of mant * 10^e10 (normal range); y is
   an infinity of that sign when the decimal is at least 2^1024 - 2^970 (the largest double plus half a
   unit in its last place), where float() overflows to inf *)
Definition near_dec (neg : bool) (mant e10 : Z) (y : ftok) : bool :=
  match y with
  | FFin neg' m e =>
      Bool.eqb neg neg' &&
      if mant =? 0 then m =? 0
      else (0 <? m) &&
           let u := Z.log2 m + e - 52 in
           Qle_bool (Qabs (inject_Z m * Qpow2 e - inject_Z mant * Qpow10 e10) * (2 # 1))%Q (Qpow2 u)
  | FInf neg' => Bool.eqb neg neg' && Qle_bool (Qpow2 1024 - Qpow2 970)%Q (inject_Z mant * Qpow10 e10)%Q
  | FNaN => false
  end.

(* expected (from the model / the specification) against observed (floats observed as OFlt tokens) *)
Definition cell_match (x o : cell) : bool :=
  match x, o with
  | OInt a, OInt b => a =? b
  | ODec neg mant e10, OFlt y => near_dec neg mant e10 y
  | ONaN, OFlt FNaN => true
  | OInf a, OFlt (FInf b) => Bool.eqb a b
  | OFlt a, OFlt b => ftok_eqb a b
  | OStr a, OStr b => String.eqb a b
  | _, _ => false
  end.
Definition ocell_match (x o : option cell) : bool :=
  match x, o with
  | None, None => true
  | Some a, Some b => cell_match a b
  | _, _ => false
  end.

(* clause 4: every observed row is a dictionary that agrees with the written row on every key of
   either (as a finite map), absent / None / excluded fields omitted *)
Definition row_spec_b (excl : list string) (n : Z) (r : row) (o : list (string * cell)) : bool :=
  nodup_b (map fst o) &&
  forallb (fun k => ocell_match (if smem k excl then None
                                 else match lookup String.eqb k r with Some v => expected n v | None => None end)
                                (lookup String.eqb k o))
          (map fst r ++ map fst o).
Fixpoint rows_spec_b (excl : list string) (n : Z) (rows : list row) (out : list (list (string * cell))) : bool :=
  match rows, out with
  | [], [] => true
  | r :: rows', o :: out' => row_spec_b excl n r o && rows_spec_b excl n rows' out'
  | _, _ => false
  end.
(* clause 5: the requested first column comes first in every row that has it *)
Definition first_b (first : option string) (out : list (list (string * cell))) : bool :=
  match first with
  | None => true
  | Some f => forallb (fun o => negb (smem f (map fst o)) ||
                                match o with (k, _) :: _ => String.eqb k f | [] => false end) out
  end.

(* clause 6: two-column cluster table *)
Fixpoint zmem (x : Z) (l : list Z) : bool :=
  match l with [] => false | y :: r => (x =? y) || zmem x r end.
Fixpoint znodup_b (l : list Z) : bool :=
  match l with [] => true | x :: r => negb (zmem x r) && znodup_b r end.
(* binary64 *)
Definition f64 : ffmt := mkffmt 53 (-1074) 1024.
Definition f64_ok (f : ftok) : bool := ftok_ok f64 f.
(* the cell the reader returns for a written value: integers and strings unchanged; for a float x a
   float()-typed cell (never an int or a string) whose double is x *)
Definition Cell_Is (F : floatlayer) (v : value) (c : cell) : Prop :=
  match v with
  | VFloat f => cell_double F c = Some f
  | _ => c = expected_raw v
  end.
Definition Simple_Spec (F : floatlayer) (field : string) (data : list (Z * value)) (out : string * list (Z * cell)) : Prop :=
  fst out = field /\ NoDup (map fst (snd out)) /\
  forall id, match lookup Z.eqb id data with
             | Some v => exists c, lookup Z.eqb id (snd out) = Some c /\ Cell_Is F v c
             | None => lookup Z.eqb id (snd out) = None
             end.
Definition simple_spec_b (field : string) (data : list (Z * value)) (of : string) (out : list (Z * cell)) : bool :=
  String.eqb of field && znodup_b (map fst out) &&
  forallb (fun id => ocell_match (option_map expected_raw (lookup Z.eqb id data)) (lookup Z.eqb id out))
          (map fst data ++ map fst out).
Definition simple_value_ok (v : value) : bool :=
  match v with VNone => false | VFloat f => f64_ok f | _ => value_ok v end.

(* clause 7: parameter file *)
Definition py_key_ok (k : string) : bool :=
  is_ident k && negb (smem k keywords) && String.eqb (lower_str k) k.
(* the floats of a parameter value are binary64 values (canonical tokens) *)
Fixpoint pfloat_ok (v : pyval) : bool :=
  match v with
  | PFloat f => f64_ok f
  | PList l => forallb pfloat_ok l
  | PDict l => forallb (fun kv => pfloat_ok (snd kv)) l
  | _ => true
  end.
Definition py_ok (d : list (string * pyval)) : bool :=
  nodup_b (map fst d) &&
  forallb (fun kv => py_key_ok (fst kv) && plain (snd kv) && wfb (snd kv) && pfloat_ok (snd kv)) d.
Definition py_spec_b (d out : list (string * pyval)) : bool :=
  list_eqb (fun a b => String.eqb (fst a) (fst b) && pyval_eqb (snd a) (snd b)) out d.

(* ---------------------------------------------------------------------------------------------- *)
(* what the theorems assume of the oracles (and nothing else)                                     *)
(* ---------------------------------------------------------------------------------------------- *)
Record Codec_OK (C : codec) : Prop := {
  b64_rt : forall b, b64dec C (b64enc C b) = Some b;
  buf_rt : forall dt el, dtype_ok dt = true -> forallb (scalar_ok dt) el = true ->
                         frombuffer C dt (tobytes C dt el) = Some el }.

Record Text_OK {T : Type} (L : textlayer T) : Prop := {
  text_rt : forall t, jsorted t = true -> jparse L (jprint L t) = Some t;
  text_ne : forall t, tempty L (jprint L t) = false }.

(* repr(float) / float(): the text repr gives for a binary64 value x is a float literal (of the grammar
   py_float transcribes) that float() converts to x again; int() rejects it; it is made of the
   characters of a float: digits . e + - and the letters of inf / nan *)
Definition float_char (c : ascii) : bool :=
  is_digit c || Ascii.eqb c ch_dot || Ascii.eqb c ch_minus || Ascii.eqb c ch_plus ||
  existsb (Ascii.eqb c) (s2l "einfa").
Record Float_OK (F : floatlayer) : Prop := {
  fl_rt : forall f, f64_ok f = true -> exists c, py_float (frepr F f) = Some c /\ cell_double F c = Some f;
  fl_not_int : forall f, f64_ok f = true -> py_int (frepr F f) = None;
  fl_chars : forall f, f64_ok f = true -> forallb float_char (frepr F f) = true }.

Record Csv_OK {T : Type} (V : csvlayer T) : Prop := {
  csv_rt : forall dl lines, forallb (forallb ctext_cell_ok) lines = true ->
                            csv_read V dl (csv_write V dl lines) = Some lines;
  csv_tab : forall dl h rest, forallb ctext_ok h = true ->
              first_line_tab V (csv_write V dl (h :: rest)) =
              (delim_eqb dl Tab && (2 <=? zlen h)) || existsb has_tab h }.
