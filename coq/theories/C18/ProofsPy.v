(* C18/ProofsPy.v -- parameter files: evaluating repr(s) gives s, repr(s) is one line, a dict built
   from distinct keys is the list, read_python (write_python d) = d. *)
From Coq Require Import ZArith List Bool String Ascii Lia ZifyBool.
From PV Require Import Base.NpSearch C18.Model C18.Spec.
Import ListNotations.
Open Scope Z_scope.

(* ---------------------------------------------------------------------------------------------- *)
(* strings <-> character lists                                                                    *)
(* ---------------------------------------------------------------------------------------------- *)
Lemma py_s2l_l2s (l : list ascii) : s2l (l2s l) = l.
Proof. unfold s2l, l2s. apply list_ascii_of_string_of_list_ascii. Qed.

Lemma py_l2s_s2l (s : string) : l2s (s2l s) = s.
Proof. unfold s2l, l2s. apply string_of_list_ascii_of_string. Qed.

(* ---------------------------------------------------------------------------------------------- *)
(* repr(str) / string literal evaluation                                                          *)
(* ---------------------------------------------------------------------------------------------- *)
(* one unfolding of lit_body with the recursive calls abstracted (so that the 512 concrete cases below
   compute on a small term: normalising the stuck [lit_body q rest] itself is slow) *)
Definition lit_step (rec : list ascii -> option (list ascii)) (q : ascii) (l : list ascii)
  : option (list ascii) :=
  match l with
  | [] => None
  | c :: r =>
      if Ascii.eqb c q then match r with [] => Some [] | _ => None end
      else if Ascii.eqb c ch_bs then
        match r with
        | e :: r' =>
            let ez := code e in
            if (ez =? 92) || (ez =? 39) || (ez =? 34) then option_map (cons e) (rec r')
            else if ez =? 116 then option_map (cons (chr 9)) (rec r')
            else if ez =? 110 then option_map (cons (chr 10)) (rec r')
            else if ez =? 114 then option_map (cons (chr 13)) (rec r')
            else if ez =? 120 then
              match r' with
              | h1 :: h2 :: r'' =>
                  match hexval h1, hexval h2 with
                  | Some a, Some b => if 16 * a + b <? 128
                                      then option_map (cons (chr (16 * a + b))) (rec r'')
                                      else None
                  | _, _ => None
                  end
              | _ => None
              end
            else None
        | [] => None
        end
      else if (code c =? 10) || (code c =? 13) then None
      else option_map (cons c) (rec r)
  end.

Lemma lit_body_step (q : ascii) (l : list ascii) : lit_body q l = lit_step (lit_body q) q l.
Proof. destruct l; reflexivity. Qed.

(* one character: the literal evaluator consumes exactly the escape of c and produces c
   (512 concrete cases: 2 quotes x 256 characters) *)
Lemma lit_step_esc_char (rec : list ascii -> option (list ascii)) (q c : ascii) (rest : list ascii) :
  q = ch_sq \/ q = ch_dq ->
  lit_step rec q (esc_char q c ++ rest) = option_map (cons c) (rec rest).
Proof.
  intros [-> | ->]; destruct c as [[] [] [] [] [] [] [] []]; vm_compute; reflexivity.
Qed.

Lemma lit_body_esc_char (q c : ascii) (rest : list ascii) :
  q = ch_sq \/ q = ch_dq ->
  lit_body q (esc_char q c ++ rest) = option_map (cons c) (lit_body q rest).
Proof.
  intros Hq. rewrite lit_body_step. apply lit_step_esc_char. exact Hq.
Qed.

Lemma lit_body_close (q : ascii) : lit_body q [q] = Some [].
Proof. cbn [lit_body]. rewrite Ascii.eqb_refl. reflexivity. Qed.

Lemma lit_body_flat_map (q : ascii) (s : list ascii) :
  q = ch_sq \/ q = ch_dq -> lit_body q (flat_map (esc_char q) s ++ [q]) = Some s.
Proof.
  intros Hq. induction s as [|c s IH].
  - cbn [flat_map app]. apply lit_body_close.
  - cbn [flat_map]. rewrite <- app_assoc. rewrite (lit_body_esc_char q c _ Hq). rewrite IH. reflexivity.
Qed.

Lemma repr_quote_cases (s : list ascii) : repr_quote s = ch_sq \/ repr_quote s = ch_dq.
Proof.
  unfold repr_quote.
  destruct (existsb (Ascii.eqb ch_sq) s && negb (existsb (Ascii.eqb ch_dq) s)) eqn:E; auto.
Qed.

Lemma eval_quoted (q : ascii) (s : list ascii) :
  q = ch_sq \/ q = ch_dq -> eval_str_lit (q :: flat_map (esc_char q) s ++ [q]) = Some s.
Proof.
  intros Hq. cbn [eval_str_lit].
  replace (Ascii.eqb q ch_sq || Ascii.eqb q ch_dq)%bool with true
    by (destruct Hq as [-> | ->]; reflexivity).
  apply lit_body_flat_map; exact Hq.
Qed.

(* evaluating repr(s) gives s back: every string, including quotes, backslashes, line breaks, control
   characters and bytes >= 128 *)
Lemma eval_repr_str (s : list ascii) : eval_str_lit (repr_str s) = Some s.
Proof.
  unfold repr_str. cbv zeta. apply eval_quoted. apply repr_quote_cases.
Qed.

(* ---- repr(s) has no raw line break ---- *)
Definition no_lb (c : ascii) : bool := negb ((code c =? 10) || (code c =? 13)).

Lemma esc_char_no_lb (q c : ascii) :
  q = ch_sq \/ q = ch_dq -> forallb no_lb (esc_char q c) = true.
Proof.
  intros [-> | ->]; destruct c as [[] [] [] [] [] [] [] []]; vm_compute; reflexivity.
Qed.

Lemma flat_map_esc_no_lb (q : ascii) (s : list ascii) :
  q = ch_sq \/ q = ch_dq -> forallb no_lb (flat_map (esc_char q) s) = true.
Proof.
  intros Hq. induction s as [|c s IH].
  - reflexivity.
  - cbn [flat_map]. rewrite forallb_app. rewrite (esc_char_no_lb q c Hq). rewrite IH. reflexivity.
Qed.

Lemma quote_no_lb (q : ascii) : q = ch_sq \/ q = ch_dq -> no_lb q = true.
Proof. intros [-> | ->]; vm_compute; reflexivity. Qed.

(* repr(s) contains no raw line break, so `k = repr(s)` occupies exactly one line of the file *)
Lemma repr_str_one_line (s : list ascii) :
  forallb (fun c => negb ((code c =? 10) || (code c =? 13))) (repr_str s) = true.
Proof.
  change (forallb no_lb (repr_str s) = true).
  unfold repr_str. cbv zeta.
  pose proof (repr_quote_cases s) as Hq.
  cbn [forallb]. rewrite forallb_app. cbn [forallb].
  rewrite (quote_no_lb _ Hq). rewrite (flat_map_esc_no_lb _ s Hq). reflexivity.
Qed.

(* ---------------------------------------------------------------------------------------------- *)
(* dict construction                                                                              *)
(* ---------------------------------------------------------------------------------------------- *)
Lemma smem_cons (x y : string) (l : list string) : smem x (y :: l) = (String.eqb x y || smem x l)%bool.
Proof. reflexivity. Qed.

Lemma smem_app (x : string) (l1 l2 : list string) : smem x (l1 ++ l2) = (smem x l1 || smem x l2)%bool.
Proof. unfold smem. apply existsb_app. Qed.

Lemma smem_false_neq (x y : string) (l : list string) :
  smem x l = false -> In y l -> String.eqb y x = false.
Proof.
  intros H Hy. destruct (String.eqb y x) eqn:E; [|reflexivity].
  apply String.eqb_eq in E. subst y.
  assert (smem x l = true) as H1.
  { unfold smem. apply existsb_exists. exists x. split; [exact Hy|apply String.eqb_refl]. }
  rewrite H1 in H. discriminate H.
Qed.

Lemma dset_fresh {V : Type} (acc : list (string * V)) (k : string) (v : V) :
  smem k (map fst acc) = false -> dset String.eqb acc k v = acc ++ [(k, v)].
Proof.
  induction acc as [|[k' v'] acc IH]; intros H.
  - reflexivity.
  - cbn [map fst] in H. rewrite smem_cons in H. apply orb_false_iff in H. destruct H as [H1 H2].
    cbn [dset app]. rewrite String.eqb_sym. rewrite H1. rewrite (IH H2). reflexivity.
Qed.

Lemma fold_dset_fresh {V : Type} (l acc : list (string * V)) :
  nodup_b (map fst l) = true ->
  (forall k, In k (map fst l) -> smem k (map fst acc) = false) ->
  fold_left (fun d kv => dset String.eqb d (fst kv) (snd kv)) l acc = acc ++ l.
Proof.
  revert acc. induction l as [|[k v] l IH]; intros acc Hnd Hfresh.
  - cbn [fold_left]. rewrite app_nil_r. reflexivity.
  - cbn [map fst nodup_b] in Hnd. apply andb_true_iff in Hnd. destruct Hnd as [Hk Hnd].
    apply negb_true_iff in Hk.
    cbn [fold_left fst snd].
    rewrite dset_fresh by (apply Hfresh; cbn [map fst]; left; reflexivity).
    rewrite IH.
    + rewrite <- app_assoc. reflexivity.
    + exact Hnd.
    + intros k' Hk'. rewrite map_app. rewrite smem_app. cbn [map fst].
      rewrite (Hfresh k') by (cbn [map fst]; right; exact Hk').
      rewrite smem_cons. rewrite (smem_false_neq k k' _ Hk Hk'). reflexivity.
Qed.

(* a Python dict built from an association list with distinct keys is that list *)
Lemma dict_of_list_nodup_str {V : Type} (l : list (string * V)) :
  nodup_b (map fst l) = true -> dict_of_list String.eqb l = l.
Proof.
  intros H. unfold dict_of_list. rewrite fold_dset_fresh.
  - reflexivity.
  - exact H.
  - intros k _. reflexivity.
Qed.

Print Assumptions eval_repr_str.
