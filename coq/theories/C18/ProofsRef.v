(* C18/ProofsRef.v -- the reference oracles satisfy the oracle hypotheses: Codec_OK, Text_OK and
   Csv_OK are satisfiable, so the theorems stated under them are not vacuous. *)
From Coq Require Import ZArith List Bool String Ascii Lia ZifyBool.
From PV Require Import Base.NpSearch C18.Model C18.Spec C18.Ref C18.Proofs C18.ProofsJson C18.ProofsNum.
Import ListNotations.
Open Scope Z_scope.

Lemma split_at_tok sep tok rest cur : forallb (fun c => negb (Ascii.eqb c sep)) tok = true ->
  split_at sep (tok ++ sep :: rest) cur = (rev cur ++ tok) :: split_at sep rest [].
Proof.
  revert cur. induction tok as [|c tok IH]; intros cur H.
  - cbn [app split_at]. rewrite Ascii.eqb_refl, app_nil_r. reflexivity.
  - cbn [forallb] in H. apply andb_true_iff in H. destruct H as [H1 H2]. apply negb_true_iff in H1.
    cbn [app split_at]. rewrite H1, IH by exact H2. cbn [rev]. rewrite <- app_assoc. reflexivity.
Qed.

Lemma split_at_last sep tok cur : forallb (fun c => negb (Ascii.eqb c sep)) tok = true ->
  split_at sep tok cur = [rev cur ++ tok].
Proof.
  revert cur. induction tok as [|c tok IH]; intros cur H.
  - cbn [split_at]. rewrite app_nil_r. reflexivity.
  - cbn [forallb] in H. apply andb_true_iff in H. destruct H as [H1 H2]. apply negb_true_iff in H1.
    cbn [split_at]. rewrite H1, IH by exact H2. cbn [rev]. rewrite <- app_assoc. reflexivity.
Qed.

(* characters of str(int): neither separator *)
Definition not_sep (c : ascii) : bool := negb (Ascii.eqb c ch_semi) && negb (Ascii.eqb c ch_comma).
Lemma digit_not_sep c : is_digit c = true -> not_sep c = true.
Proof.
  intros H. unfold not_sep. apply andb_true_iff. split; apply negb_true_iff; apply Ascii.eqb_neq; intros ->; discriminate H.
Qed.
Lemma show_int_not_sep z : forallb not_sep (show_int z) = true.
Proof. apply show_int_P; first [exact digit_not_sep|reflexivity]. Qed.
Lemma not_sep_semi l : forallb not_sep l = true -> forallb (fun c => negb (Ascii.eqb c ch_semi)) l = true.
Proof.
  rewrite !forallb_forall. intros H c Hc. specialize (H c Hc). unfold not_sep in H. apply andb_true_iff in H. apply H.
Qed.
Lemma not_sep_comma l : forallb not_sep l = true -> forallb (fun c => negb (Ascii.eqb c ch_comma)) l = true.
Proof.
  rewrite !forallb_forall. intros H c Hc. specialize (H c Hc). unfold not_sep in H. apply andb_true_iff in H. apply H.
Qed.

Lemma read_int_show_int z : read_int (show_int z) = Some z.
Proof.
  rewrite show_int_sgn. destruct (show_nat_spec (Z.abs z)) as (E1 & E2 & E3); [lia|].
  destruct (z <? 0) eqn:E; cbn [sgn app].
  - unfold read_int. rewrite Ascii.eqb_refl. rewrite isdigit_show_nat by lia. rewrite E3. f_equal. lia.
  - unfold read_int. destruct (show_nat (Z.abs z)) as [|c r] eqn:El; [congruence|].
    assert (Hc : is_digit c = true) by (cbn [forallb] in E2; apply andb_true_iff in E2; apply E2).
    replace (Ascii.eqb c ch_minus) with false by (symmetry; apply Ascii.eqb_neq; intros ->; discriminate Hc).
    unfold isdigit. rewrite E2, E3. f_equal. lia.
Qed.

Lemma scalar_tok_no_semi x : forallb (fun c => negb (Ascii.eqb c ch_semi)) (scalar_tok x) = true.
Proof.
  destruct x as [b|z|f]; cbn [scalar_tok].
  - destruct b; reflexivity.
  - cbn [forallb]. rewrite (not_sep_semi _ (show_int_not_sep z)). reflexivity.
  - destruct f as [neg m e| |neg]; cbn [ftok_text]; [|reflexivity|destruct neg; reflexivity].
    cbn [forallb]. rewrite forallb_app. cbn [forallb].
    rewrite (not_sep_semi _ (show_int_not_sep m)), (not_sep_semi _ (show_int_not_sep e)).
    destruct neg; reflexivity.
Qed.

Lemma scalar_of_tok x : scalar_of_text (scalar_tok x) = Some x.
Proof.
  destruct x as [b|z|f]; cbn [scalar_tok].
  - destruct b; reflexivity.
  - unfold scalar_of_text. change (code "i"%char) with 105. cbv iota. rewrite read_int_show_int. reflexivity.
  - destruct f as [neg m e| |neg]; cbn [ftok_text]; [|reflexivity|destruct neg; reflexivity].
    unfold scalar_of_text. change (code "f"%char) with 102. cbv iota.
    rewrite split_at_tok by (apply not_sep_comma, show_int_not_sep).
    rewrite split_at_last by (apply not_sep_comma, show_int_not_sep).
    cbn [rev app]. rewrite !read_int_show_int. destruct neg; reflexivity.
Qed.

Lemma split_buffer el : split_at ch_semi (List.concat (map scalar_text el)) [] = map scalar_tok el ++ [[]].
Proof.
  induction el as [|x r IH]; [reflexivity|].
  cbn [map List.concat]. unfold scalar_text at 1. rewrite <- app_assoc. cbn [app].
  rewrite split_at_tok by apply scalar_tok_no_semi. rewrite IH. reflexivity.
Qed.

Theorem ref_codec_ok : Codec_OK ref_codec.
Proof.
  split.
  - intros b. cbn [ref_codec b64dec b64enc]. rewrite s2l_l2s. reflexivity.
  - intros dt el _ _. cbn [ref_codec frombuffer tobytes]. unfold ref_frombuffer.
    rewrite split_buffer, rev_app_distr. cbn [rev app]. rewrite rev_involutive.
    replace (Some el) with (Some (map (fun x : scalar => x) el)) by (rewrite map_id; reflexivity).
    apply mapM_map. apply Forall_forall. intros x _. apply scalar_of_tok.
Qed.

Theorem ref_text_ok : Text_OK ref_text.
Proof. split; reflexivity. Qed.

Theorem ref_csv_ok : Csv_OK ref_csv.
Proof.
  split.
  - intros dl lines _. cbn. destruct dl; reflexivity.
  - intros dl h rest _. reflexivity.
Qed.
