(* C18/ProofsRef.v -- the reference oracles satisfy the oracle hypotheses: Codec_OK, Text_OK and
   Csv_OK are satisfiable, so the theorems stated under them are not vacuous. *)
From Coq Require Import ZArith List Bool String Ascii Lia ZifyBool.
From PV Require Import Base.NpSearch C18.Model C18.Spec C18.Ref C18.Proofs C18.ProofsJson C18.ProofsNum.
Import ListNotations.
Open Scope Z_scope.

Lemma split_at_tok sep tok rest cur : forallb (fun c => negb (Ascii.eqb c sep)) tok = true ->
  split_at sep (tok ++ sep :: rest) cur = (rev cur ++ tok) :: split_at sep rest [].
Proof.
  revert cur. induction tok as [|c tok IH]; intros cur H.
  - cbn [app split_at]. rewrite Ascii.eqb_refl, app_nil_r. reflexivity.
  - cbn [forallb] in H. apply andb_true_iff in H. destruct H as [H1 H2]. apply negb_true_iff in H1.
    cbn [app split_at]. rewrite H1, IH by exact H2. cbn [rev]. rewrite <- app_assoc. reflexivity.
Qed.

Lemma split_at_last sep tok cur : forallb (fun c => negb (Ascii.eqb c sep)) tok = true ->
  split_at sep tok cur = [rev cur ++ tok].
Proof.
  revert cur. induction tok as [|c tok IH]; intros cur H.
  - cbn [split_at]. rewrite app_nil_r. reflexivity.
  - cbn [forallb] in H. apply andb_true_iff in H. destruct H as [H1 H2]. apply negb_true_iff in H1.
    cbn [split_at]. rewrite H1, IH by exact H2. cbn [rev]. rewrite <- app_assoc. reflexivity.
Qed.

(* characters of str(int): neither separator *)
Definition not_sep (c : ascii) : bool := negb (Ascii.eqb c ch_semi) && negb (Ascii.eqb c ch_comma).
Lemma digit_not_sep c : is_digit c = true -> not_sep c = true.
Proof.
  intros H. unfold not_sep. apply andb_true_iff. split; apply negb_true_iff; apply Ascii.eqb_neq; intros ->; discriminate H.
Qed.
Lemma show_int_not_sep z : forallb not_sep (show_int z) = true.
Proof. apply show_int_P; first [exact digit_not_sep|reflexivity]. Qed.
Lemma not_sep_semi l : forallb not_sep l = true -> forallb (fun c => negb (Ascii.eqb c ch_semi)) l = true.
Proof.
  rewrite !forallb_forall. intros H c Hc. specialize (H c Hc). unfold not_sep in H. apply andb_true_iff in H. apply H.
Qed.
Lemma not_sep_comma l : forallb not_sep l = true -> forallb (fun c => negb (Ascii.eqb c ch_comma)) l = true.
Proof.
  rewrite !forallb_forall. intros H c Hc. specialize (H c Hc). unfold not_sep in H. apply andb_true_iff in H. apply H.
Qed.

Lemma read_int_show_int z : read_int (show_int z) = Some z.
Proof.
  rewrite show_int_sgn. destruct (show_nat_spec (Z.abs z)) as (E1 & E2 & E3); [lia|].
  destruct (z <? 0) eqn:E; cbn [sgn app].
  - unfold read_int. rewrite Ascii.eqb_refl. rewrite isdigit_show_nat by lia. rewrite E3. f_equal. lia.
  - unfold read_int. destruct (show_nat (Z.abs z)) as [|c r] eqn:El; [congruence|].
    assert (Hc : is_digit c = true) by (cbn [forallb] in E2; apply andb_true_iff in E2; apply E2).
    replace (Ascii.eqb c ch_minus) with false by (symmetry; apply Ascii.eqb_neq; intros ->; discriminate Hc).
    unfold isdigit. rewrite E2, E3. f_equal. lia.
Qed.

Lemma scalar_tok_no_semi x : forallb (fun c => negb (Ascii.eqb c ch_semi)) (scalar_tok x) = true.
Proof.
  destruct x as [b|z|f]; cbn [scalar_tok].
  - destruct b; reflexivity.
  - cbn [forallb]. rewrite (not_sep_semi _ (show_int_not_sep z)). reflexivity.
  - destruct f as [neg m e| |neg]; cbn [ftok_text]; [|reflexivity|destruct neg; reflexivity].
    cbn [forallb]. rewrite forallb_app. cbn [forallb].
    rewrite (not_sep_semi _ (show_int_not_sep m)), (not_sep_semi _ (show_int_not_sep e)).
    destruct neg; reflexivity.
Qed.

Lemma scalar_of_tok x : scalar_of_text (scalar_tok x) = Some x.
Proof.
  destruct x as [b|z|f]; cbn [scalar_tok].
  - destruct b; reflexivity.
  - unfold scalar_of_text. change (code "i"%char) with 105. cbv iota. rewrite read_int_show_int. reflexivity.
  - destruct f as [neg m e| |neg]; cbn [ftok_text]; [|reflexivity|destruct neg; reflexivity].
    unfold scalar_of_text. change (code "f"%char) with 102. cbv iota.
    rewrite split_at_tok by (apply not_sep_comma, show_int_not_sep).
    rewrite split_at_last by (apply not_sep_comma, show_int_not_sep).
    cbn [rev app]. rewrite !read_int_show_int. destruct neg; reflexivity.
Qed.

Lemma split_buffer el : split_at ch_semi (List.concat (map scalar_text el)) [] = map scalar_tok el ++ [[]].
Proof.
  induction el as [|x r IH]; [reflexivity|].
  cbn [map List.concat]. unfold scalar_text at 1. rewrite <- app_assoc. cbn [app].
  rewrite split_at_tok by apply scalar_tok_no_semi. rewrite IH. reflexivity.
Qed.

Theorem ref_codec_ok : Codec_OK ref_codec.
Proof.
  split.
  - intros b. cbn [ref_codec b64dec b64enc]. rewrite s2l_l2s. reflexivity.
  - intros dt el _ _. cbn [ref_codec frombuffer tobytes]. unfold ref_frombuffer.
    rewrite split_buffer, rev_app_distr. cbn [rev app]. rewrite rev_involutive.
    replace (Some el) with (Some (map (fun x : scalar => x) el)) by (rewrite map_id; reflexivity).
    apply mapM_map. apply Forall_forall. intros x _. apply scalar_of_tok.
Qed.

Theorem ref_text_ok : Text_OK ref_text.
Proof. split; reflexivity. Qed.

Theorem ref_csv_ok : Csv_OK ref_csv.
Proof.
  split.
  - intros dl lines _. cbn. destruct dl; reflexivity.
  - intros dl h rest _. reflexivity.
Qed.

Theorem ref_text_e_ok : Text_OK ref_text_e.
Proof. split; reflexivity. Qed.

(* ================= the reference float layer ================= *)
Lemma rhe_exact a d : 0 < d -> 0 <= a -> rhe (a * d) d = a.
Proof.
  intros Hd Ha. unfold rhe. rewrite Z.div_mul, Z.mod_mul by lia.
  replace (2 * 0 <? d) with true by lia. reflexivity.
Qed.

Lemma strip2_shift k : forall p e, strip2 (Pos.shiftl_nat p k) e = strip2 p (e + Z.of_nat k).
Proof.
  induction k as [|k IH]; intros p e.
  - cbn [Pos.shiftl_nat nat_rect]. f_equal. lia.
  - change (Pos.shiftl_nat p (S k)) with (xO (Pos.shiftl_nat p k)). cbn [strip2]. rewrite IH. f_equal. lia.
Qed.
Lemma shiftl_nat_val k p : Zpos (Pos.shiftl_nat p k) = Zpos p * 2 ^ Z.of_nat k.
Proof.
  induction k as [|k IH].
  - cbn [Pos.shiftl_nat nat_rect]. change (Z.of_nat 0) with 0. rewrite Z.pow_0_r. lia.
  - change (Pos.shiftl_nat p (S k)) with (xO (Pos.shiftl_nat p k)). rewrite Pos2Z.inj_xO, IH.
    rewrite Nat2Z.inj_succ, Z.pow_succ_r by lia. ring.
Qed.
Lemma strip2_odd p e : Z.odd (Zpos p) = true -> strip2 p e = (Zpos p, e).
Proof. destruct p; [reflexivity|discriminate|reflexivity]. Qed.

(* an odd m scaled by a power of two normalises back to (m, exponent) *)
Lemma norm2_odd neg m j e : 0 < m -> Z.odd m = true -> 0 <= j -> norm2 neg (m * 2 ^ j) e = FFin neg m (e + j).
Proof.
  intros Hm Ho Hj. destruct m as [|p|p]; try lia.
  rewrite <- (Z2Nat.id j) by lia. rewrite <- shiftl_nat_val. unfold norm2.
  rewrite strip2_shift, (strip2_odd p _ Ho). reflexivity.
Qed.

Lemma ref_nearest_fin neg m e : f64_ok (FFin neg m e) = true ->
  ref_fnearest neg (scaled (if e <? 0 then - e else 1) m e) (- (if e <? 0 then - e else 1)) = FFin neg m e.
Proof.
  unfold f64_ok, ftok_ok. intros H. destruct (m =? 0) eqn:Em.
  - assert (m = 0) by lia. assert (e = 0) by lia. subst. reflexivity.
  - assert (Hm : 0 < m) by lia. assert (Ho : Z.odd m = true).
    { repeat (apply andb_true_iff in H; destruct H as [H ?]). assumption. }
    clear H. destruct (e <? 0) eqn:Ee.
    + (* e < 0: the expansion has -e digits, mantissa m * 5^(-e) *)
      unfold ref_fnearest. replace (0 <=? - - e) with false by lia.
      unfold scaled. replace (0 <=? e) with false by lia.
      replace (- - - e) with (- e) by lia. replace (- - e) with e by lia.
      assert (H5 : 0 < 5 ^ (- e)) by (apply Z.pow_pos_nonneg; lia).
      assert (H2 : 0 < 2 ^ (- e)) by (apply Z.pow_pos_nonneg; lia).
      replace (m * 10 ^ (- e)) with (m * 5 ^ (- e) * 2 ^ (- e))
        by (change 10 with (5 * 2); rewrite Z.pow_mul_l; ring).
      rewrite rhe_exact by (try apply Z.mul_nonneg_nonneg; lia).
      rewrite Z.mod_mul, Z.div_mul by lia. cbn [Z.eqb].
      pose proof (norm2_odd neg m 0 e Hm Ho) as Hn. rewrite Z.pow_0_r, Z.mul_1_r, Z.add_0_r in Hn.
      apply Hn. lia.
    + (* e >= 0: an integer, written with one digit after the point *)
      unfold ref_fnearest. replace (0 <=? - (1)) with false by reflexivity.
      unfold scaled. replace (0 <=? e) with true by lia.
      change (- - (1)) with 1. rewrite !Z.pow_1_r.
      replace (m * 2 ^ e * 10) with (m * 2 ^ (e + 1) * 5) by (rewrite Z.pow_add_r, Z.pow_1_r by lia; ring).
      rewrite Z.mod_mul, Z.div_mul by lia. cbn [Z.eqb].
      rewrite norm2_odd by lia. f_equal. lia.
Qed.

Lemma f64_nonneg neg m e : f64_ok (FFin neg m e) = true -> 0 <= m.
Proof. unfold f64_ok, ftok_ok. destruct (m =? 0) eqn:E; lia. Qed.

Theorem ref_float_ok : Float_OK ref_float.
Proof.
  split.
  - intros f Hf. destruct f as [neg m e| |neg].
    + pose proof (f64_nonneg neg m e Hf) as Hm. cbn [ref_float frepr ref_frepr].
      rewrite py_float_fmt by (try (destruct (e <? 0) eqn:Ee); lia).
      eexists. split; [reflexivity|]. cbn [cell_double ref_float fnearest]. f_equal.
      apply ref_nearest_fin, Hf.
    + exists ONaN. split; vm_compute; reflexivity.
    + exists (OInf neg). destruct neg; split; vm_compute; reflexivity.
  - intros f Hf. destruct f as [neg m e| |neg].
    + pose proof (f64_nonneg neg m e Hf) as Hm. cbn [ref_float frepr ref_frepr].
      apply py_int_fmt; [destruct (e <? 0) eqn:Ee; lia|exact Hm].
    + vm_compute. reflexivity.
    + destruct neg; vm_compute; reflexivity.
  - intros f Hf. cbn [ref_float frepr]. unfold ref_frepr.
    assert (HP : forall n g, 0 <= n -> (match g with FFin _ m _ => 0 <= m | _ => True end) ->
                             forallb float_char (fmt n g) = true).
    { intros n g Hn Hg. apply fmt_P; try reflexivity; try assumption.
      intros c Hc. unfold float_char. rewrite Hc. reflexivity. }
    destruct f as [neg m e| |neg].
    + apply HP; [destruct (e <? 0) eqn:Ee; lia|apply (f64_nonneg neg m e Hf)].
    + apply HP; [lia|exact I].
    + apply HP; [lia|exact I].
Qed.
