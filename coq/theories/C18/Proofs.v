(* C18/Proofs.v -- the model meets the specification, for every input.
   Part 1: characters and decimal text, dictionary keys, JSON round trip. *)
From Coq Require Import ZArith List Bool String Ascii Lia ZifyBool.
From PV Require Import Base.NpSearch C18.Model C18.Spec.
Import ListNotations.
Open Scope Z_scope.

(* ================= characters ================= *)
Lemma code_chr d : 0 <= d < 256 -> code (chr d) = d.
Proof.
  intros H. unfold code, chr. rewrite N_ascii_embedding by lia. lia.
Qed.

Lemma s2l_l2s l : s2l (l2s l) = l.
Proof. apply list_ascii_of_string_of_list_ascii. Qed.
Lemma l2s_s2l s : l2s (s2l s) = s.
Proof. apply string_of_list_ascii_of_string. Qed.

Definition dchr (d : Z) : ascii := chr (48 + d).
Lemma dchr_digit d : 0 <= d < 10 -> is_digit (dchr d) = true.
Proof. intros H. unfold is_digit, dchr. rewrite code_chr by lia. lia. Qed.
Lemma dchr_val d : 0 <= d < 10 -> dval (dchr d) = d.
Proof. intros H. unfold dval, dchr. rewrite code_chr by lia. lia. Qed.

Definition dstep (a : Z) (c : ascii) : Z := 10 * a + dval c.
Lemma digits_val_eq l : digits_val l = fold_left dstep l 0.
Proof. reflexivity. Qed.
Lemma digits_val_snoc l c : digits_val (l ++ [c]) = 10 * digits_val l + dval c.
Proof. unfold digits_val. rewrite fold_left_app. reflexivity. Qed.

(* ================= str(int) ================= *)
Lemma show_nat_loop_spec fuel : forall n acc, (0 < fuel)%nat -> 0 <= n < 2 ^ Z.of_nat fuel ->
  exists ds, show_nat_loop fuel n acc = ds ++ acc /\ ds <> [] /\
             forallb is_digit ds = true /\ digits_val ds = n.
Proof.
  induction fuel as [|f IH]; intros n acc Hf H.
  - lia.
  - cbn [show_nat_loop]. fold (dchr (n mod 10)).
    assert (Hm : 0 <= n mod 10 < 10) by (apply Z.mod_pos_bound; lia).
    destruct (n <? 10) eqn:E.
    + exists [dchr (n mod 10)]. split; [reflexivity|]. split; [discriminate|]. split.
      * cbn [forallb]. rewrite dchr_digit by lia. reflexivity.
      * unfold digits_val. cbn [fold_left]. rewrite dchr_val by lia. rewrite Z.mod_small by lia. lia.
    + rewrite Nat2Z.inj_succ, Z.pow_succ_r in H by lia.
      assert (Hp : 0 < 2 ^ Z.of_nat f) by (apply Z.pow_pos_nonneg; lia).
      destruct (IH (n / 10) (dchr (n mod 10) :: acc)) as (ds & E1 & E2 & E3 & E4).
      { destruct f; [cbn in H; lia|lia]. }
      { split; [apply Z.div_pos; lia|]. apply Z.div_lt_upper_bound; lia. }
      exists (ds ++ [dchr (n mod 10)]). rewrite E1, <- app_assoc. split; [reflexivity|].
      split; [destruct ds; discriminate|]. split.
      * rewrite forallb_app, E3. cbn [forallb]. rewrite dchr_digit by lia. reflexivity.
      * rewrite digits_val_snoc, E4, dchr_val by lia. pose proof (Z.div_mod n 10). lia.
Qed.

Lemma show_nat_spec n : 0 <= n ->
  show_nat n <> [] /\ forallb is_digit (show_nat n) = true /\ digits_val (show_nat n) = n.
Proof.
  intros H. unfold show_nat.
  destruct (show_nat_loop_spec (S (Z.to_nat (Z.log2 n))) n []) as (ds & E1 & E2 & E3 & E4).
  - lia.
  - split; [lia|]. rewrite Nat2Z.inj_succ, Z2Nat.id by apply Z.log2_nonneg.
    destruct (Z.eq_dec n 0) as [->|Hn]; [cbn; lia|]. apply Z.log2_spec. lia.
  - rewrite E1, app_nil_r. auto.
Qed.

Lemma isdigit_show_nat n : 0 <= n -> isdigit (show_nat n) = true.
Proof.
  intros H. destruct (show_nat_spec n H) as (E1 & E2 & _). unfold isdigit.
  destruct (show_nat n); [congruence|exact E2].
Qed.

Lemma minus_not_digit : is_digit ch_minus = false.
Proof. reflexivity. Qed.

(* ================= keys ================= *)
Lemma intify_stringify_int z : intify_key (stringify_key (KInt z)) = KInt z.
Proof.
  unfold stringify_key, intify_key. rewrite s2l_l2s. unfold show_int.
  destruct (z <? 0) eqn:E.
  - assert (H : 0 <= - z) by lia. destruct (show_nat_spec (- z) H) as (_ & _ & E3).
    cbn [isdigit forallb]. rewrite minus_not_digit. cbn [andb].
    rewrite isdigit_show_nat by lia. replace (Ascii.eqb ch_minus ch_minus) with true by reflexivity.
    cbn [andb]. rewrite E3. f_equal. lia.
  - assert (H : 0 <= z) by lia. destruct (show_nat_spec z H) as (_ & _ & E3).
    rewrite isdigit_show_nat by lia. rewrite E3. reflexivity.
Qed.

Lemma intify_stringify_str s : int_like s = false -> intify_key (stringify_key (KStr s)) = KStr s.
Proof.
  unfold int_like. cbn [stringify_key]. unfold intify_key.
  destruct (isdigit (s2l s)); [discriminate|].
  destruct (s2l s) as [|c r]; [reflexivity|].
  destruct (Ascii.eqb c ch_minus && isdigit r); [discriminate|reflexivity].
Qed.

Lemma intify_stringify k : key_ok k = true -> intify_key (stringify_key k) = k.
Proof.
  destruct k as [z|s]; intros H; [apply intify_stringify_int|].
  apply intify_stringify_str. cbn [key_ok] in H. destruct (int_like s); [discriminate|reflexivity].
Qed.
