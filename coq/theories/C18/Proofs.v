(* C18/Proofs.v -- the model meets the specification, for every input. *)
From Coq Require Import ZArith List Bool String Ascii Lia.
From PV Require Import Base.NpSearch C18.Model C18.Spec.
Import ListNotations.
Open Scope Z_scope.

Lemma dtype_name_inv dt : dtype_ok dt = true -> dtype_of_name (dtype_name dt) = Some dt.
Proof. destruct dt as [[] []]; cbn; intros H; try discriminate H; reflexivity. Qed.
