(* C18/ProofsTsv.v -- tables: read_tsv (write_tsv rows) gives the rows back, for every csv layer
   satisfying Csv_OK; two-column cluster tables. *)
From Coq Require Import ZArith List Bool String Ascii Lia ZifyBool Permutation.
From PV Require Import Base.NpSearch Base.NpSort C18.Model C18.Spec C18.Proofs C18.ProofsJson C18.ProofsNum.
Import ListNotations.
Open Scope Z_scope.

(* ================= union of fields, sorted, first field first ================= *)
Lemma dedup_in x l : In x (dedup l) <-> In x l.
Proof.
  induction l as [|y r IH]; [tauto|]. cbn [dedup]. destruct (smem y r) eqn:E.
  - rewrite IH. cbn [In]. split; [tauto|]. intros [->|H]; [apply smem_in, E|exact H].
  - cbn [In]. rewrite IH. tauto.
Qed.
Lemma dedup_nodup l : NoDup (dedup l).
Proof.
  induction l as [|y r IH]; [constructor|]. cbn [dedup]. destruct (smem y r) eqn:E; [exact IH|].
  constructor; [|exact IH]. rewrite dedup_in. apply smem_notin, E.
Qed.

Lemma sinsert_perm x l : Permutation (sinsert x l) (x :: l).
Proof.
  induction l as [|y r IH]; cbn [sinsert]; [reflexivity|].
  destruct (String.leb x y); [reflexivity|].
  rewrite IH. apply perm_swap.
Qed.
Lemma ssort_perm l : Permutation (ssort l) l.
Proof.
  induction l as [|x r IH]; [reflexivity|]. unfold ssort in *. cbn [fold_right].
  rewrite sinsert_perm. constructor. exact IH.
Qed.

Lemma ssort_in x l : In x (ssort l) <-> In x l.
Proof.
  split; intros H; [apply (Permutation_in _ (ssort_perm l)), H|apply (Permutation_in _ (Permutation_sym (ssort_perm l))), H].
Qed.

Lemma sremove_in x y l : In y (sremove x l) <-> In y l /\ y <> x.
Proof.
  unfold sremove. rewrite filter_In. split; intros [H1 H2]; split; auto.
  - intros ->. rewrite String.eqb_refl in H2. discriminate.
  - apply negb_true_iff. apply String.eqb_neq. congruence.
Qed.

Section Fields.
Variables (first : option string) (excl : list string) (rows : list row).
Let u := dedup (List.concat (map (map fst) rows)).
Let u' := filter (fun k => negb (smem k excl)) u.

Lemma u'_in k : In k u' <-> (exists r, In r rows /\ In k (map fst r)) /\ smem k excl = false.
Proof.
  unfold u', u. rewrite filter_In, dedup_in, in_concat. rewrite negb_true_iff.
  split; intros [H1 H2]; split; auto.
  - destruct H1 as (ks & Hks & Hk). apply in_map_iff in Hks. destruct Hks as (r & <- & Hr). eauto.
  - destruct H1 as (r & Hr & Hk). exists (map fst r). split; [apply in_map, Hr|exact Hk].
Qed.
Lemma u'_nodup : NoDup u'.
Proof. unfold u'. apply NoDup_filter. apply dedup_nodup. Qed.

Lemma fields_in k : In k (fields_of first excl rows) <->
  (exists r, In r rows /\ In k (map fst r)) /\ smem k excl = false.
Proof.
  rewrite <- u'_in. unfold fields_of. fold u. fold u'.
  destruct first as [f|]; [destruct (smem f u') eqn:E|].
  - cbn [In]. rewrite ssort_in. rewrite sremove_in.
    apply smem_in in E. split.
    + intros [<-|[H _]]; auto.
    + intros H. destruct (string_dec f k); auto.
  - apply ssort_in.
  - apply ssort_in.
Qed.

Lemma fields_nodup : NoDup (fields_of first excl rows).
Proof.
  unfold fields_of. fold u. fold u'.
  destruct first as [f|]; [destruct (smem f u') eqn:E|].
  - constructor.
    + rewrite ssort_in. rewrite sremove_in. tauto.
    + apply (Permutation_NoDup (Permutation_sym (ssort_perm _))). unfold sremove. apply NoDup_filter, u'_nodup.
  - apply (Permutation_NoDup (Permutation_sym (ssort_perm _))), u'_nodup.
  - apply (Permutation_NoDup (Permutation_sym (ssort_perm _))), u'_nodup.
Qed.

Lemma fields_first f : first = Some f -> In f (fields_of first excl rows) ->
  exists t, fields_of first excl rows = f :: t.
Proof.
  intros -> H. unfold fields_of in *. fold u in H |- *. fold u' in H |- *.
  destruct (smem f u') eqn:E; [eexists; reflexivity|].
  apply (proj1 (ssort_in _ _)) in H. apply (proj2 (smem_in _ _)) in H. rewrite H in E. discriminate.
Qed.
End Fields.

(* ================= one cell ================= *)
Definition cellof (n : Z) (r : row) (f : string) : option cell :=
  let t := render n (get_cell f r) in if is_empty_text t then None else Some (try_make_number t).
Definition present (n : Z) (r : row) (f : string) : list (string * cell) :=
  match cellof n r f with Some c => [(f, c)] | None => [] end.

Lemma zip_cells_present n r fs :
  zip_cells fs (map (fun f => render n (get_cell f r)) fs) = flat_map (present n r) fs.
Proof.
  induction fs as [|f fs IH]; [reflexivity|].
  cbn [map zip_cells flat_map]. unfold present at 1, cellof. cbv zeta.
  destruct (is_empty_text (render n (get_cell f r))); rewrite IH; reflexivity.
Qed.

Lemma present_keys n r fs :
  map fst (flat_map (present n r) fs) = filter (fun f => match cellof n r f with Some _ => true | None => false end) fs.
Proof.
  induction fs as [|f fs IH]; [reflexivity|].
  cbn [flat_map filter]. rewrite map_app, IH. unfold present. destruct (cellof n r f); reflexivity.
Qed.

Lemma lookup_present n r fs k : NoDup fs -> In k fs ->
  lookup String.eqb k (flat_map (present n r) fs) = cellof n r k.
Proof.
  induction fs as [|f fs IH]; intros Hn Hin; [destruct Hin|].
  inversion Hn as [|? ? Hnot Hn']; subst. cbn [flat_map].
  destruct Hin as [->|Hin].
  - unfold present at 1. destruct (cellof n r k) eqn:E.
    + cbn [app lookup]. rewrite String.eqb_refl. reflexivity.
    + cbn [app]. apply (lookup_notin String.eqb seqb_sound). rewrite present_keys, filter_In. tauto.
  - unfold present at 1. destruct (cellof n r f) eqn:E; cbn [app lookup]; [|apply IH; assumption].
    rewrite (proj2 (String.eqb_neq f k)) by (intros ->; contradiction). apply IH; assumption.
Qed.

(* a rendered cell is empty exactly for None, and reads back as the expected value *)
Lemma cell_of_value n v : 1 <= n -> value_ok v = true ->
  (let t := render n v in if is_empty_text t then None else Some (try_make_number t)) = expected n v.
Proof.
  intros Hn Hv. cbv zeta. destruct v as [|z|f|s]; cbn [render is_empty_text expected].
  - reflexivity.
  - rewrite show_int_nonempty, try_number_int. reflexivity.
  - assert (Hf : match f with FFin _ m _ => 0 <= m | _ => True end).
    { destruct f; cbn [value_ok] in Hv; [lia|exact I|exact I]. }
    rewrite fmt_nonempty by (auto; lia). rewrite try_number_float by auto. destruct f; reflexivity.
  - cbn [value_ok] in Hv. apply andb_true_iff in Hv. destruct Hv as [Hv _]. unfold nonnumeric in Hv.
    apply andb_true_iff in Hv. destruct Hv as [H1 H2]. apply andb_true_iff in H1. destruct H1 as [H1 _].
    apply negb_true_iff in H1. rewrite H1.
    cbn [try_make_number]. destruct (py_int (s2l s)); [discriminate|]. destruct (py_float (s2l s)); [discriminate|].
    reflexivity.
Qed.

Lemma char_csv_cell c : char_csv_ok c = true -> char_cell_ok c = true.
Proof. unfold char_csv_ok, char_cell_ok. destruct (code c =? 0); cbn; intros H; [discriminate H|reflexivity]. Qed.
Lemma str_csv_cell s : str_csv_ok s = true -> str_cell_ok s = true.
Proof. unfold str_csv_ok, str_cell_ok. rewrite !forallb_forall. intros H c Hc. apply char_csv_cell, H, Hc. Qed.
Lemma ctext_csv_cell t : ctext_ok t = true -> ctext_cell_ok t = true.
Proof. destruct t as [s]. apply str_csv_cell. Qed.

Lemma render_csv_ok n v : 0 <= n -> value_ok v = true -> ctext_cell_ok (render n v) = true.
Proof.
  intros Hn Hv. destruct v as [|z|f|s].
  - reflexivity.
  - apply ctext_csv_cell. cbn [render ctext_ok]. apply show_int_csv_ok.
  - apply ctext_csv_cell. cbn [render ctext_ok]. apply fmt_csv_ok; [exact Hn|]. destruct f; cbn [value_ok] in Hv; [lia|exact I|exact I].
  - cbn [render ctext_cell_ok]. cbn [value_ok] in Hv. apply andb_true_iff in Hv. apply Hv.
Qed.

Lemma row_ok_parts r : row_ok r = true ->
  NoDup (map fst r) /\ forall k v, In (k, v) r -> no_tab k = true /\ str_csv_ok k = true /\ value_ok v = true.
Proof.
  unfold row_ok. intros H. apply andb_true_iff in H. destruct H as [H1 H2]. split; [apply nodup_b_NoDup, H1|].
  intros k v Hin. rewrite forallb_forall in H2. specialize (H2 _ Hin). cbn [fst snd] in H2.
  repeat (apply andb_true_iff in H2; destruct H2 as [H2 ?]). auto.
Qed.

Lemma get_cell_ok r f : row_ok r = true -> value_ok (get_cell f r) = true.
Proof.
  intros H. destruct (row_ok_parts r H) as [_ Hall]. unfold get_cell.
  destruct (lookup String.eqb f r) eqn:E; [|reflexivity].
  apply (lookup_some_in String.eqb seqb_sound) in E. apply (Hall _ _ E).
Qed.

(* ================= one row ================= *)
Lemma row_roundtrip first excl n rows r : 1 <= n -> forallb row_ok rows = true -> In r rows ->
  let fs := fields_of first excl rows in
  Row_Spec first excl n r (dict_of_list String.eqb (zip_cells fs (map (fun f => render n (get_cell f r)) fs))).
Proof.
  intros Hn Hrows Hr fs. rewrite forallb_forall in Hrows. pose proof (Hrows r Hr) as Hrow.
  pose proof (fields_nodup first excl rows) as Hfs. fold fs in Hfs.
  rewrite zip_cells_present.
  assert (Hkeys : NoDup (map fst (flat_map (present n r) fs))) by (rewrite present_keys; apply NoDup_filter, Hfs).
  rewrite (dict_of_list_nodup String.eqb seqb_sound) by exact Hkeys.
  split; [exact Hkeys|]. split.
  - intros k. destruct (in_dec string_dec k fs) as [Hin|Hnot].
    + rewrite lookup_present by assumption.
      apply fields_in in Hin. destruct Hin as [_ Hex]. rewrite Hex.
      unfold cellof. rewrite cell_of_value by (auto using get_cell_ok).
      unfold get_cell. destruct (lookup String.eqb k r); reflexivity.
    + rewrite (lookup_notin String.eqb seqb_sound) by (rewrite present_keys, filter_In; tauto).
      destruct (smem k excl) eqn:Ex; [reflexivity|].
      destruct (lookup String.eqb k r) eqn:El; [|reflexivity].
      elim Hnot. apply fields_in. split; [|exact Ex]. exists r. split; [exact Hr|].
      apply (lookup_some_in String.eqb seqb_sound) in El. apply in_map_iff. exists (k, v). auto.
  - intros f Hf Hin. rewrite present_keys in Hin |- *. apply filter_In in Hin. destruct Hin as [Hin Hc].
    destruct (fields_first first excl rows f Hf Hin) as (t & Et). fold fs in Et. rewrite Et.
    cbn [filter]. rewrite Hc. eexists; reflexivity.
Qed.

(* ================= the file ================= *)
Lemma mapM_text_str fs : mapM text_str (map CT fs) = Some fs.
Proof.
  replace (Some fs) with (Some (map (fun x : string => x) fs)) by (rewrite map_id; reflexivity).
  apply mapM_map. apply Forall_forall. intros; reflexivity.
Qed.

Lemma zlen_map {A B} (f : A -> B) l : zlen (map f l) = zlen l.
Proof. unfold zlen. rewrite map_length. reflexivity. Qed.

Lemma Forall2_map_r {A B} (R : A -> B -> Prop) (f : A -> B) l :
  (forall x, In x l -> R x (f x)) -> Forall2 R l (map f l).
Proof.
  induction l as [|x r IH]; intros H; [constructor|].
  cbn [map]. constructor; [apply H; left; reflexivity|]. apply IH. intros y Hy. apply H. right. exact Hy.
Qed.

Section WithCsv.
Context {T : Type}.
Variable V : csvlayer T.
Hypothesis HV : Csv_OK V.

Lemma detect_written dl h rest : forallb ctext_ok h = true -> existsb has_tab h = false ->
  (dl = Tab -> 2 <= zlen h) -> detect V (csv_write V dl (h :: rest)) = dl.
Proof.
  intros Hh Ht H2. unfold detect. rewrite (csv_tab V HV) by exact Hh. rewrite Ht, orb_false_r.
  destruct dl; cbn [delim_eqb andb]; [|reflexivity].
  specialize (H2 eq_refl). replace (2 <=? zlen h) with true by lia. reflexivity.
Qed.

Lemma write_tsv_nonempty dl first excl n rows : rows <> [] ->
  write_tsv V dl first excl n rows =
  csv_write V dl (map CT (fields_of first excl rows) ::
                  map (fun r => map (fun f => render n (get_cell f r)) (fields_of first excl rows)) rows).
Proof. destruct rows; [congruence|reflexivity]. Qed.

Theorem read_write_tsv dl first excl n rows :
  1 <= n -> forallb row_ok rows = true -> 2 <= zlen (fields_of first excl rows) ->
  exists out, read_tsv V (write_tsv V dl first excl n rows) = Some out /\ Rows_Spec first excl n rows out.
Proof.
  intros Hn Hrows H2.
  assert (Hne : rows <> []) by (intros ->; destruct first; vm_compute in H2; apply H2; reflexivity).
  set (fs := fields_of first excl rows) in *.
  assert (Hfs : forall k, In k fs -> no_tab k = true /\ str_csv_ok k = true).
  { intros k Hk. apply fields_in in Hk. destruct Hk as [(r & Hr & Hk) _].
    rewrite forallb_forall in Hrows. destruct (row_ok_parts r (Hrows r Hr)) as [_ Hall].
    apply in_map_iff in Hk. destruct Hk as ([k' v] & <- & Hin). destruct (Hall _ _ Hin) as (A & B & _). auto. }
  rewrite write_tsv_nonempty by exact Hne. fold fs.
  unfold read_tsv. rewrite detect_written.
  - rewrite (csv_rt V HV).
    + rewrite mapM_text_str. eexists. split; [reflexivity|].
      unfold Rows_Spec. rewrite map_map. apply Forall2_map_r. intros r Hr. apply (row_roundtrip first excl n rows r); auto.
    + cbn [forallb]. apply andb_true_iff. split.
      * rewrite forallb_forall. intros c Hc. apply in_map_iff in Hc. destruct Hc as (k & <- & Hk).
        apply ctext_csv_cell. cbn [ctext_ok]. apply (Hfs k Hk).
      * rewrite forallb_forall. intros line Hl. apply in_map_iff in Hl. destruct Hl as (r & <- & Hr).
        rewrite forallb_forall. intros c Hc. apply in_map_iff in Hc. destruct Hc as (f & <- & Hf).
        apply render_csv_ok; [lia|]. apply get_cell_ok. rewrite forallb_forall in Hrows. auto.
  - rewrite forallb_forall. intros c Hc. apply in_map_iff in Hc. destruct Hc as (k & <- & Hk).
    cbn [ctext_ok]. apply (Hfs k Hk).
  - destruct (existsb has_tab (map CT fs)) eqn:E; [|reflexivity].
    apply existsb_exists in E. destruct E as (c & Hc & Ht). apply in_map_iff in Hc.
    destruct Hc as (k & <- & Hk). cbn [has_tab] in Ht. destruct (Hfs k Hk) as [A _].
    unfold no_tab in A. rewrite Ht in A. discriminate.
  - intros _. rewrite zlen_map. exact H2.
Qed.

(* ================= two-column cluster tables ================= *)
Lemma znodup_b_NoDup l : znodup_b l = true -> NoDup l.
Proof.
  induction l as [|x r IH]; intros H; [constructor|].
  cbn [znodup_b] in H. apply andb_true_iff in H. destruct H as [H1 H2].
  constructor; [|apply IH, H2]. intros Hin. apply negb_true_iff in H1.
  assert (zmem x r = true); [|congruence].
  clear - Hin. induction r as [|y r IH]; [destruct Hin|]. cbn [zmem]. destruct Hin as [->|Hin]; [lia|].
  rewrite IH by assumption. apply orb_true_r.
Qed.

Lemma zeqb_sound a b : Z.eqb a b = true -> a = b.
Proof. lia. Qed.

Variable F : floatlayer.
Hypothesis HF : Float_OK F.

Lemma float_char_csv_ok c : float_char c = true -> char_csv_ok c = true.
Proof.
  intros H. destruct (char_csv_ok c) eqn:E; [reflexivity|].
  unfold char_csv_ok in E. apply negb_false_iff in E.
  destruct c as [[] [] [] [] [] [] [] []]; vm_compute in E; try discriminate E; vm_compute in H; discriminate H.
Qed.

(* the cell read back for a written value *)
Lemma raw_cell_is v : simple_value_ok v = true -> Cell_Is F v (try_make_number (render_raw F v)).
Proof.
  destruct v as [|z|f|s]; cbn [simple_value_ok render_raw Cell_Is expected_raw]; intros Hv.
  - discriminate.
  - apply try_number_int.
  - cbn [try_make_number]. rewrite s2l_l2s. rewrite (fl_not_int F HF f Hv).
    destruct (fl_rt F HF f Hv) as (c & E1 & E2). rewrite E1. exact E2.
  - cbn [value_ok] in Hv. apply andb_true_iff in Hv. destruct Hv as [Hv _]. unfold nonnumeric in Hv.
    apply andb_true_iff in Hv. destruct Hv as [_ H2].
    cbn [try_make_number]. destruct (py_int (s2l s)); [discriminate|]. destruct (py_float (s2l s)); [discriminate|].
    reflexivity.
Qed.

Lemma raw_csv_ok v : simple_value_ok v = true -> ctext_cell_ok (render_raw F v) = true.
Proof.
  destruct v as [|z|f|s]; cbn [simple_value_ok render_raw]; intros Hv.
  - reflexivity.
  - apply ctext_csv_cell. cbn [ctext_ok]. apply show_int_csv_ok.
  - apply ctext_csv_cell. cbn [ctext_ok]. rewrite s2l_l2s. pose proof (fl_chars F HF f Hv) as Hc. rewrite forallb_forall in Hc |- *.
    intros c Hin. apply float_char_csv_ok, Hc, Hin.
  - cbn [ctext_cell_ok]. cbn [value_ok] in Hv. apply andb_true_iff in Hv. apply Hv.
Qed.

Lemma lookup_map_val {A B} (g : A -> B) k (l : list (Z * A)) :
  lookup Z.eqb k (map (fun kv => (fst kv, g (snd kv))) l) = option_map g (lookup Z.eqb k l).
Proof.
  induction l as [|[k' v] r IH]; [reflexivity|]. cbn [map lookup fst snd].
  destruct (k' =? k); [reflexivity|exact IH].
Qed.

Lemma lookup_perm {A} k (l l' : list (Z * A)) : NoDup (map fst l) -> Permutation l' l ->
  lookup Z.eqb k l' = lookup Z.eqb k l.
Proof.
  intros Hn Hp.
  assert (Hn' : NoDup (map fst l')) by (apply (Permutation_NoDup (Permutation_sym (Permutation_map fst Hp))), Hn).
  destruct (lookup Z.eqb k l) eqn:E.
  - apply (lookup_some_in Z.eqb zeqb_sound) in E. apply (lookup_in Z.eqb zeqb_sound Z.eqb_refl); [exact Hn'|].
    apply (Permutation_in _ (Permutation_sym Hp)), E.
  - destruct (lookup Z.eqb k l') eqn:E'; [|reflexivity].
    apply (lookup_some_in Z.eqb zeqb_sound) in E'. apply (Permutation_in _ Hp) in E'.
    apply (lookup_in Z.eqb zeqb_sound Z.eqb_refl _ _ _ Hn) in E'. congruence.
Qed.

Theorem read_write_simple dl field data :
  znodup_b (map fst data) = true -> forallb (fun kv => simple_value_ok (snd kv)) data = true ->
  no_tab field = true -> str_csv_ok field = true ->
  exists out, read_simple V (write_simple V F dl field data) = Some out /\ Simple_Spec F field data out.
Proof.
  intros Hnd Hv Ht Hc. apply znodup_b_NoDup in Hnd.
  pose proof (isort_perm data) as Hp.
  assert (Hv' : forall kv, In kv (isort data) -> simple_value_ok (snd kv) = true).
  { intros kv Hin. rewrite forallb_forall in Hv. apply Hv. apply (Permutation_in _ Hp), Hin. }
  unfold write_simple, read_simple. rewrite detect_written.
  - rewrite (csv_rt V HV).
    + set (g := fun kv : Z * value => (fst kv, try_make_number (render_raw F (snd kv)))).
      rewrite (mapM_map _ _ g).
      * eexists. split; [reflexivity|]. unfold Simple_Spec. cbn [fst snd].
        assert (Hk : NoDup (map fst (map g (isort data)))).
        { rewrite map_map. cbn [g fst]. apply (Permutation_NoDup (Permutation_sym (Permutation_map fst Hp))), Hnd. }
        rewrite (dict_of_list_nodup Z.eqb zeqb_sound) by exact Hk.
        split; [reflexivity|]. split; [exact Hk|].
        intros id. unfold g.
        rewrite (lookup_map_val (fun v => try_make_number (render_raw F v))).
        rewrite (lookup_perm id data (isort data) Hnd Hp).
        destruct (lookup Z.eqb id data) as [v|] eqn:El; cbn [option_map]; [|reflexivity].
        eexists. split; [reflexivity|]. apply raw_cell_is.
        apply (lookup_some_in Z.eqb zeqb_sound) in El. rewrite forallb_forall in Hv. apply (Hv _ El).
      * apply Forall_forall. intros kv Hin. cbn [fst snd]. rewrite s2l_l2s, py_int_show_int. reflexivity.
    + cbn [forallb]. apply andb_true_iff. split.
      * change (ctext_cell_ok (CT "cluster_id")) with true. cbn [andb]. rewrite andb_true_r.
        apply ctext_csv_cell. cbn [ctext_ok]. exact Hc.
      * rewrite forallb_forall. intros line Hl. apply in_map_iff in Hl. destruct Hl as (kv & <- & Hin).
        cbn [forallb].
        rewrite (ctext_csv_cell (CT (l2s (show_int (fst kv)))) (show_int_csv_ok (fst kv))), raw_csv_ok by (apply Hv', Hin).
        reflexivity.
  - change (ctext_ok (CT "cluster_id")) with true. cbn [forallb ctext_ok andb]. rewrite andb_true_r. exact Hc.
  - cbn [existsb has_tab]. change (existsb (Ascii.eqb ch_tab) (s2l "cluster_id")) with false.
    unfold no_tab in Ht. apply negb_true_iff in Ht. rewrite Ht. reflexivity.
  - intros _. unfold zlen. cbn [List.length]. lia.
Qed.

End WithCsv.

(* a table without rows (outside the statement: no columns): write_tsv leaves an empty file (`if not
   data: return`), on which read_tsv's next(reader) raises StopIteration -- whatever the delimiter and
   the other arguments.  Stated for the reference csv layer (an empty file has no rows under either
   delimiter; Csv_OK does not speak about reading with another delimiter than the written one) *)
Lemma read_write_no_rows_ref dl first excl n : read_tsv ref_csv (write_tsv ref_csv dl first excl n []) = None.
Proof. destruct dl; reflexivity. Qed.
