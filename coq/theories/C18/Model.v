(* C18/Model.v -- executable model of phylib's serialisation helpers.  No proofs here.
   phylib/utils/_misc.py: _CustomEncoder.default, _json_custom_hook, _stringify_keys, _intify_keys
   (repaired: signed digit strings), save_json / load_json, _pretty_floats, _try_make_number,
   write_tsv / read_tsv, _write_tsv_simple / _read_tsv_simple, write_python (repaired: repr of
   strings) / read_python.

   What is a model of what:
   * the JSON *text* layer (json.dump's printer with sort_keys, json.loads' parser) is an ORACLE: a
     record [textlayer] of functions jtree <-> text; the theorems assume exactly "parsing the printed
     text of a tree whose object members are sorted gives the tree back, and the text is not empty".
     A Python dict is represented by its association list sorted by key (dict equality cannot see
     the order), so that sort_keys=True is the identity on the represented trees;
   * base64 and ndarray buffer <-> elements are ORACLES: a record [codec] with tobytes (the C-order
     buffer np.ascontiguousarray(obj).data of an array of a dtype), frombuffer (np.frombuffer),
     b64enc / b64dec; the theorems assume exactly b64dec (b64enc b) = b and
     frombuffer dt (tobytes dt el) = el for elements that fit the dtype;
   * the csv text layer (quoting, delimiters, line ends) is an ORACLE: a record [csvlayer]; assumed:
     reading with the delimiter the file was written with gives the written cells back (cells
     without NUL / CR / LF), and the first line of the file contains a tab iff the writer's
     delimiter is tab and the header has >= 2 cells, or a header cell contains a tab.  What *is*
     modelled is the delimiter detection of the readers, the header/field logic and number typing;
   * int(), float() (its grammar), str(int), '%.nf' % float are modelled on character lists (ASCII);
   * repr(float) and the binary64 value float() gives to a decimal literal are an ORACLE: a record
     [floatlayer] (frepr, fnearest); assumed (Spec.Float_OK): the text of repr(x) is a float literal of
     the modelled grammar whose value is x again, int() rejects it, and it consists of the characters
     of a float (digits . e + - and the letters of inf / nan);
   * repr(str), str() / repr() of None, bool, int, float (through the oracle), lists and dictionaries
     and the evaluation (exec) of these texts are modelled on character lists (read_python /
     write_python: py_repr, ev);
   * a path that does not exist / an empty file / a table without rows: [fstate], *_path functions. *)
From Coq Require Import ZArith List Bool String Ascii.
From PV Require Import Base.NpSearch Base.NpSort.
Import ListNotations.
Open Scope Z_scope.

(* ---------------------------------------------------------------------------------------------- *)
(* characters, strings                                                                            *)
(* ---------------------------------------------------------------------------------------------- *)
Definition s2l := list_ascii_of_string.
Definition l2s := string_of_list_ascii.
Definition code (c : ascii) : Z := Z.of_N (N_of_ascii c).
Definition chr (z : Z) : ascii := ascii_of_N (Z.to_N z).
Definition is_digit (c : ascii) : bool := (48 <=? code c) && (code c <=? 57).
Definition dval (c : ascii) : Z := code c - 48.
Definition ch_minus : ascii := "-"%char.
Definition ch_plus : ascii := "+"%char.
Definition ch_dot : ascii := "."%char.
Definition ch_us : ascii := "_"%char.
Definition ch_tab : ascii := chr 9.

Section MapM.
Context {A B : Type}.
Variable f : A -> option B.
Fixpoint mapM (l : list A) : option (list B) :=
  match l with
  | [] => Some []
  | x :: r => match f x, mapM r with Some y, Some ys => Some (y :: ys) | _, _ => None end
  end.
End MapM.

(* Python dict construction from a sequence of (key, value) assignments: a repeated key keeps its
   first position and takes the last value *)
Section Dict.
Context {K V : Type}.
Variable keqb : K -> K -> bool.
Fixpoint dset (d : list (K * V)) (k : K) (v : V) : list (K * V) :=
  match d with
  | [] => [(k, v)]
  | (k', v') :: r => if keqb k' k then (k', v) :: r else (k', v') :: dset r k v
  end.
Definition dict_of_list (l : list (K * V)) : list (K * V) :=
  fold_left (fun d kv => dset d (fst kv) (snd kv)) l [].
Fixpoint lookup (k : K) (d : list (K * V)) : option V :=
  match d with
  | [] => None
  | (k', v) :: r => if keqb k' k then Some v else lookup k r
  end.
Definition has_key (k : K) (d : list (K * V)) : bool :=
  match lookup k d with Some _ => true | None => false end.
End Dict.

Definition smem (s : string) (l : list string) : bool := existsb (String.eqb s) l.

(* ---------------------------------------------------------------------------------------------- *)
(* str(int), str.isdigit(), int(digit string)                                                     *)
(* ---------------------------------------------------------------------------------------------- *)
(* decimal digits of n >= 0, most significant first; the fuel (number of binary digits) is shown to
   be sufficient in Proofs.v (show_nat_val) *)
Fixpoint show_nat_loop (fuel : nat) (n : Z) (acc : list ascii) : list ascii :=
  match fuel with
  | O => acc
  | S f => let acc' := chr (48 + n mod 10) :: acc in
           if n <? 10 then acc' else show_nat_loop f (n / 10) acc'
  end.
Definition show_nat (n : Z) : list ascii := show_nat_loop (S (Z.to_nat (Z.log2 n))) n [].
Definition show_int (z : Z) : list ascii :=
  if z <? 0 then ch_minus :: show_nat (- z) else show_nat z.

Definition isdigit (l : list ascii) : bool :=
  match l with [] => false | _ => forallb is_digit l end.
Definition digits_val (l : list ascii) : Z := fold_left (fun a c => 10 * a + dval c) l 0.

(* ---------------------------------------------------------------------------------------------- *)
(* dictionary keys                                                                                *)
(* ---------------------------------------------------------------------------------------------- *)
Inductive key := KInt (z : Z) | KStr (s : string).
Definition key_eqb (a b : key) : bool :=
  match a, b with
  | KInt x, KInt y => x =? y
  | KStr x, KStr y => String.eqb x y
  | _, _ => false
  end.

(* _stringify_keys: integers become str(k) *)
Definition stringify_key (k : key) : string :=
  match k with KInt z => l2s (show_int z) | KStr s => s end.

(* _intify_keys (repaired): k.isdigit() or (k.startswith('-') and k[1:].isdigit()) -> int(k) *)
Definition intify_key (s : string) : key :=
  let l := s2l s in
  if isdigit l then KInt (digits_val l)
  else match l with
       | c :: r => if Ascii.eqb c ch_minus && isdigit r then KInt (- digits_val r) else KStr s
       | [] => KStr s
       end.

(* ---------------------------------------------------------------------------------------------- *)
(* values                                                                                         *)
(* ---------------------------------------------------------------------------------------------- *)
(* a binary64 value as an exact token: (-1)^neg * m * 2^e (m >= 0), nan, +-inf *)
Inductive ftok := FFin (neg : bool) (m e : Z) | FNaN | FInf (neg : bool).
Inductive scalar := SBool (b : bool) | SInt (z : Z) | SFlt (f : ftok).
Inductive base := BBool | BI8 | BI16 | BI32 | BI64 | BU8 | BU16 | BU32 | BU64 | BF16 | BF32 | BF64.
(* dswap: stored in the non-native byte order (str(dtype) = '>i4') *)
Record dtype := mkdt { dbase : base; dswap : bool }.
(* memory layout of an input array: C, Fortran, positive-step slice, reversed view *)
Inductive layout := LC | LF | LS | LR.

Inductive pyval :=
| PNone
| PBool (b : bool)
| PInt (z : Z)
| PFloat (f : ftok)
| PStr (s : string)
| PList (l : list pyval)
| PDict (l : list (string * pyval))
| PNp (dt : dtype) (x : scalar)                 (* np.generic *)
| PArr (dt : dtype) (shape : list Z) (lay : layout) (elems : list scalar).   (* elems in C order *)

Inductive jtree :=
| JNull
| JBool (b : bool)
| JInt (z : Z)
| JFloat (f : ftok)
| JStr (s : string)
| JList (l : list jtree)
| JObj (l : list (string * jtree)).

Definition base_eqb (a b : base) : bool :=
  match a, b with
  | BBool, BBool | BI8, BI8 | BI16, BI16 | BI32, BI32 | BI64, BI64 | BU8, BU8 | BU16, BU16
  | BU32, BU32 | BU64, BU64 | BF16, BF16 | BF32, BF32 | BF64, BF64 => true
  | _, _ => false
  end.
Definition dtype_eqb (a b : dtype) : bool := base_eqb (dbase a) (dbase b) && Bool.eqb (dswap a) (dswap b).

Definition one_byte (b : base) : bool := match b with BBool | BI8 | BU8 => true | _ => false end.
(* a dtype NumPy can hold: one-byte types have no byte order *)
Definition dtype_ok (dt : dtype) : bool := negb (dswap dt && one_byte (dbase dt)).

(* str(arr.dtype) *)
Definition dtype_name (dt : dtype) : string :=
  if dswap dt then
    match dbase dt with
    | BBool => "bool" | BI8 => "int8" | BU8 => "uint8"
    | BI16 => ">i2" | BI32 => ">i4" | BI64 => ">i8"
    | BU16 => ">u2" | BU32 => ">u4" | BU64 => ">u8"
    | BF16 => ">f2" | BF32 => ">f4" | BF64 => ">f8"
    end
  else
    match dbase dt with
    | BBool => "bool" | BI8 => "int8" | BU8 => "uint8"
    | BI16 => "int16" | BI32 => "int32" | BI64 => "int64"
    | BU16 => "uint16" | BU32 => "uint32" | BU64 => "uint64"
    | BF16 => "float16" | BF32 => "float32" | BF64 => "float64"
    end.

Definition all_dtypes : list dtype :=
  flat_map (fun b => [mkdt b false; mkdt b true])
           [BBool; BI8; BI16; BI32; BI64; BU8; BU16; BU32; BU64; BF16; BF32; BF64].

(* np.dtype(name) on the names str(dtype) produces; other spellings are not modelled *)
Definition dtype_of_name (s : string) : option dtype :=
  find (fun dt => dtype_ok dt && String.eqb (dtype_name dt) s) all_dtypes.

(* ndarray.tolist() / np.generic.item() on one element *)
Definition scalar_py (x : scalar) : pyval :=
  match x with SBool b => PBool b | SInt z => PInt z | SFlt f => PFloat f end.
Definition scalar_j (x : scalar) : jtree :=
  match x with SBool b => JBool b | SInt z => JInt z | SFlt f => JFloat f end.

(* obj.ndim == 1 and obj.shape[0] <= 10 *)
Definition small1d (shape : list Z) : bool :=
  match shape with [n] => n <=? 10 | _ => false end.

Definition k_ndarray : string := "__ndarray__".
Definition k_dtype : string := "dtype".
Definition k_shape : string := "shape".
Definition k_qba : string := "__qbytearray__".

(* ---- oracles: buffers and base64 ---- *)
(* bytes objects are lists of characters *)
Record codec := mkcodec {
  tobytes : dtype -> list scalar -> list ascii;          (* np.ascontiguousarray(obj).data, elements in C order *)
  frombuffer : dtype -> list ascii -> option (list scalar);   (* np.frombuffer(data, dtype) *)
  b64enc : list ascii -> string;                         (* base64.b64encode(b).decode('utf8') *)
  b64dec : string -> option (list ascii)                 (* base64.b64decode(s) *)
}.

(* ---- oracle: the JSON text layer ---- *)
Record textlayer (T : Type) := mktext {
  jprint : jtree -> T;                                   (* json.dump(..., indent=2, sort_keys=True) *)
  jparse : T -> option jtree;                            (* json.loads *)
  tempty : T -> bool                                     (* not contents *)
}.
Arguments jprint {T} _ _.
Arguments jparse {T} _ _.
Arguments tempty {T} _ _.

Definition zprod (l : list Z) : Z := fold_right Z.mul 1 l.

Definition ints_of (l : list pyval) : option (list Z) :=
  mapM (fun v => match v with PInt z => Some z | _ => None end) l.

(* .reshape(shape); a -1 entry in shape is not modelled *)
Definition reshape (dt : dtype) (shape : list Z) (el : list scalar) : option pyval :=
  if forallb (fun x => 0 <=? x) shape && (zprod shape =? zlen el)
  then Some (PArr dt shape LC el) else None.

Section Json.
Variable C : codec.

(* json.dump(..., cls=_CustomEncoder): built-in types are printed directly, everything else goes
   through default() and the result is encoded again *)
Fixpoint encode (v : pyval) : jtree :=
  match v with
  | PNone => JNull
  | PBool b => JBool b
  | PInt z => JInt z
  | PFloat f => JFloat f
  | PStr s => JStr s
  | PList l => JList (map encode l)
  | PDict l => JObj (map (fun kv => (fst kv, encode (snd kv))) l)
  | PNp dt x => scalar_j x                                      (* obj.item() *)
  | PArr dt shape lay el =>
      if small1d shape then JList (map scalar_j el)             (* obj.tolist() *)
      else JObj [(k_ndarray, JStr (b64enc C (tobytes C dt el)));   (* b64encode(ascontiguousarray(obj).data) *)
                 (k_dtype, JStr (dtype_name dt));               (* str(obj.dtype) *)
                 (k_shape, JList (map JInt shape))]             (* obj.shape *)
  end.

(* _json_custom_hook, called by the parser on every JSON object after its members were decoded *)
Definition hook (d : list (string * pyval)) : option pyval :=
  if has_key String.eqb k_ndarray d then
    match lookup String.eqb k_ndarray d, lookup String.eqb k_dtype d, lookup String.eqb k_shape d with
    | Some (PStr s), Some (PStr nm), Some (PList sh) =>
        match b64dec C s, dtype_of_name nm, ints_of sh with
        | Some data, Some dt, Some shape =>
            match frombuffer C dt data with
            | Some el => reshape dt shape el
            | None => None
            end
        | _, _, _ => None
        end
    | _, _, _ => None                                           (* KeyError / binascii.Error / TypeError *)
    end
  else if has_key String.eqb k_qba d then None                  (* QByteArray: PyQt5, not modelled *)
  else Some (PDict d).

Fixpoint decode (t : jtree) : option pyval :=
  match t with
  | JNull => Some PNone
  | JBool b => Some (PBool b)
  | JInt z => Some (PInt z)
  | JFloat f => Some (PFloat f)
  | JStr s => Some (PStr s)
  | JList l => option_map PList (mapM decode l)
  | JObj l =>
      match mapM (fun kv => option_map (pair (fst kv)) (decode (snd kv))) l with
      | Some d => hook (dict_of_list String.eqb d)
      | None => None
      end
  end.

(* save_json: data = _stringify_keys(data); json.dump(data, ...) -- the tree handed to the printer *)
Definition save_json (d : list (key * pyval)) : jtree :=
  encode (PDict (dict_of_list String.eqb (map (fun kv => (stringify_key (fst kv), snd kv)) d))).

(* load_json: out = json.loads(contents, object_hook=...); return _intify_keys(out) *)
Definition load_json (t : jtree) : option (list (key * pyval)) :=
  match decode t with
  | Some (PDict d) => Some (dict_of_list key_eqb (map (fun kv => (intify_key (fst kv), snd kv)) d))
  | _ => None                                                   (* assert isinstance(d, dict) *)
  end.

(* the same through the file text *)
Context {T : Type}.
Variable L : textlayer T.
Definition save_json_text (d : list (key * pyval)) : T := jprint L (save_json d).
Definition load_json_text (contents : T) : option (list (key * pyval)) :=
  if tempty L contents then Some []                              (* if not contents: return {} *)
  else match jparse L contents with
       | Some t => load_json t
       | None => None                                            (* JSONDecodeError *)
       end.
End Json.

(* ---------------------------------------------------------------------------------------------- *)
(* number <-> text                                                                                *)
(* ---------------------------------------------------------------------------------------------- *)
(* v as exactly n decimal digits (v mod 10^n, zero padded) in front of acc *)
Fixpoint fixed_digits (n : nat) (v : Z) (acc : list ascii) : list ascii :=
  match n with
  | O => acc
  | S n' => fixed_digits n' (v / 10) (chr (48 + v mod 10) :: acc)
  end.

(* round-half-even of num/den, den > 0, num >= 0 *)
Definition rhe (num den : Z) : Z :=
  let q := num / den in
  let r := num mod den in
  if 2 * r <? den then q
  else if den <? 2 * r then q + 1
  else if Z.even q then q else q + 1.

(* |x| * 10^n rounded to an integer the way C's printf does (exact value, ties to even) *)
Definition scaled (n m e : Z) : Z :=
  if 0 <=? e then m * 2 ^ e * 10 ^ n else rhe (m * 10 ^ n) (2 ^ (- e)).

Definition str_nan : list ascii := s2l "nan".
Definition str_inf : list ascii := s2l "inf".
Definition str_infinity : list ascii := s2l "infinity".

(* ('%.' + str(n) + 'f') % x, 0 <= n *)
Definition fmt (n : Z) (f : ftok) : list ascii :=
  match f with
  | FNaN => str_nan
  | FInf neg => if neg then ch_minus :: str_inf else str_inf
  | FFin neg m e =>
      let k := scaled n m e in
      let body := show_nat (k / 10 ^ n) ++
                  (if 0 <? n then ch_dot :: fixed_digits (Z.to_nat n) (k mod 10 ^ n) [] else []) in
      if neg then ch_minus :: body else body
  end.

(* what a table cell reads back as *)
Inductive cell :=
| OInt (z : Z)
| ODec (neg : bool) (mant e10 : Z)   (* float(text) of a decimal literal: the double nearest to
                                        (-1)^neg * mant * 10^e10 *)
| ONaN
| OInf (neg : bool)
| OFlt (f : ftok)                     (* an observed binary64 value (never produced by the model's readers) *)
| OStr (s : string).

Definition is_space (c : ascii) : bool :=
  let z := code c in (z =? 32) || ((9 <=? z) && (z <=? 13)).
Fixpoint lstrip (l : list ascii) : list ascii :=
  match l with c :: r => if is_space c then lstrip r else l | [] => [] end.
Definition strip (l : list ascii) : list ascii := rev (lstrip (rev (lstrip l))).

Definition split_sign (l : list ascii) : bool * list ascii :=
  match l with
  | c :: r => if Ascii.eqb c ch_minus then (true, r) else if Ascii.eqb c ch_plus then (false, r) else (false, l)
  | [] => (false, [])
  end.

(* digit (["_"] digit)*, longest match: value, number of digits, rest *)
Record dpart := mkdp { dp_val : Z; dp_cnt : Z; dp_rest : list ascii }.
Fixpoint dp_loop (l : list ascii) (acc cnt : Z) : dpart :=
  match l with
  | c :: r =>
      if is_digit c then dp_loop r (10 * acc + dval c) (cnt + 1)
      else if Ascii.eqb c ch_us then
        match r with
        | d :: r' => if is_digit d then dp_loop r' (10 * acc + dval d) (cnt + 1) else mkdp acc cnt l
        | [] => mkdp acc cnt l
        end
      else mkdp acc cnt l
  | [] => mkdp acc cnt []
  end.
Definition digitpart (l : list ascii) : option dpart :=
  match l with
  | c :: r => if is_digit c then Some (dp_loop r (dval c) 1) else None
  | [] => None
  end.

(* int(s) for a str s, base 10; None = ValueError *)
Definition py_int (l : list ascii) : option Z :=
  let (neg, l2) := split_sign (strip l) in
  match digitpart l2 with
  | Some d => match dp_rest d with
              | [] => Some (if neg then - dp_val d else dp_val d)
              | _ => None
              end
  | None => None
  end.

Definition lower (c : ascii) : ascii :=
  let z := code c in if (65 <=? z) && (z <=? 90) then chr (z + 32) else c.
Fixpoint chars_eqb (a b : list ascii) : bool :=
  match a, b with
  | [], [] => true
  | x :: a', y :: b' => Ascii.eqb x y && chars_eqb a' b'
  | _, _ => false
  end.
Definition is_e (c : ascii) : bool := (code c =? 101) || (code c =? 69).

(* float(s) for a str s; None = ValueError *)
Definition py_float (l : list ascii) : option cell :=
  let (neg, l2) := split_sign (strip l) in
  let low := map lower l2 in
  if chars_eqb low str_inf || chars_eqb low str_infinity then Some (OInf neg)
  else if chars_eqb low str_nan then Some ONaN
  else
    let ip := digitpart l2 in
    let r1 := match ip with Some d => dp_rest d | None => l2 end in
    let fp := match r1 with
              | c :: r => if Ascii.eqb c ch_dot then digitpart r else None
              | [] => None
              end in
    let r2 := match r1 with
              | c :: r => if Ascii.eqb c ch_dot
                          then match fp with Some d => dp_rest d | None => r end
                          else r1
              | [] => []
              end in
    match ip, fp with
    | None, None => None
    | _, _ =>
        let iv := match ip with Some d => dp_val d | None => 0 end in
        let fv := match fp with Some d => dp_val d | None => 0 end in
        let fc := match fp with Some d => dp_cnt d | None => 0 end in
        let mant := iv * 10 ^ fc + fv in
        match r2 with
        | [] => Some (ODec neg mant (- fc))
        | c :: r3 =>
            if is_e c then
              let (eneg, r4) := split_sign r3 in
              match digitpart r4 with
              | Some d => match dp_rest d with
                          | [] => Some (ODec neg mant (- fc + (if eneg then - dp_val d else dp_val d)))
                          | _ => None
                          end
              | None => None
              end
            else None
        end
    end.

(* the text of one csv cell *)
Inductive ctext := CT (s : string).

(* _try_make_number *)
Definition try_make_number (t : ctext) : cell :=
  match t with
  | CT s => match py_int (s2l s) with
            | Some z => OInt z
            | None => match py_float (s2l s) with
                      | Some c => c
                      | None => OStr s
                      end
            end
  end.

(* ---- oracle: repr(float) and the value of a float literal ---- *)
Record floatlayer := mkfl {
  frepr : ftok -> list ascii;             (* repr(x) = str(x) of a float x (what csv.writer / '%s' / repr(list) put in the text) *)
  fnearest : bool -> Z -> Z -> ftok       (* the binary64 value float() / the compiler give to the decimal
                                             literal (-1)^neg * mant * 10^e10 (strtod: correctly rounded) *)
}.
(* the double a cell typed by float() holds ([ODec]: the literal's exact decimal value, converted by the oracle) *)
Definition cell_double (F : floatlayer) (c : cell) : option ftok :=
  match c with
  | ODec neg mant e10 => Some (fnearest F neg mant e10)
  | ONaN => Some FNaN
  | OInf neg => Some (FInf neg)
  | _ => None
  end.

(* ---------------------------------------------------------------------------------------------- *)
(* tables                                                                                         *)
(* ---------------------------------------------------------------------------------------------- *)
Inductive delim := Tab | Comma.
Definition delim_eqb (a b : delim) : bool :=
  match a, b with Tab, Tab | Comma, Comma => true | _, _ => false end.

Inductive value := VNone | VInt (z : Z) | VFloat (f : ftok) | VStr (s : string).
Definition row := list (string * value).

(* ---- oracle: the csv text layer ---- *)
Record csvlayer (T : Type) := mkcsv {
  csv_write : delim -> list (list ctext) -> T;     (* csv.writer(f, delimiter=d).writerow/writerows; no row = empty file *)
  csv_read : delim -> T -> option (list (list ctext));   (* list(csv.reader(f, delimiter=d)) *)
  first_line_tab : T -> bool                       (* '\t' in f.readline() *)
}.
Arguments csv_write {T} _ _ _.
Arguments csv_read {T} _ _ _.
Arguments first_line_tab {T} _ _.

(* one cell of write_tsv: _pretty_floats(row.get(field, None), n), then csv's str() *)
Definition render (n : Z) (v : value) : ctext :=
  match v with
  | VNone => CT ""
  | VInt z => CT (l2s (show_int z))
  | VFloat f => CT (l2s (fmt n f))
  | VStr s => CT s
  end.
(* one cell of _write_tsv_simple: csv's str(), which is repr() for a float *)
Definition render_raw (F : floatlayer) (v : value) : ctext :=
  match v with
  | VNone => CT ""
  | VInt z => CT (l2s (show_int z))
  | VFloat f => CT (l2s (frepr F f))
  | VStr s => CT s
  end.

(* set().union of all rows: distinct keys (the iteration order of a Python set is not used: the code
   sorts it) *)
Fixpoint dedup (l : list string) : list string :=
  match l with
  | [] => []
  | x :: r => if smem x r then dedup r else x :: dedup r
  end.
(* sorted() on str: code-point order *)
Fixpoint sinsert (x : string) (l : list string) : list string :=
  match l with
  | [] => [x]
  | y :: r => if String.leb x y then x :: l else y :: sinsert x r
  end.
Definition ssort (l : list string) : list string := fold_right sinsert [] l.
Definition sremove (x : string) (l : list string) : list string :=
  filter (fun y => negb (String.eqb x y)) l.

Definition fields_of (first : option string) (excl : list string) (rows : list row) : list string :=
  let u := dedup (List.concat (map (map fst) rows)) in
  let u' := filter (fun k => negb (smem k excl)) u in
  match first with
  | Some f => if smem f u' then f :: ssort (sremove f u') else ssort u'
  | None => ssort u'
  end.

Definition get_cell (f : string) (r : row) : value :=
  match lookup String.eqb f r with Some v => v | None => VNone end.

Definition has_tab (t : ctext) : bool :=
  match t with CT s => existsb (Ascii.eqb ch_tab) (s2l s) end.
Definition is_empty_text (t : ctext) : bool :=
  match t with CT s => String.eqb s "" end.
Definition text_str (t : ctext) : option string :=
  match t with CT s => Some s end.

(* {k: _try_make_number(v) for k, v in zip(field_names, row) if v != ''} as a sequence of assignments *)
Fixpoint zip_cells (names : list string) (r : list ctext) : list (string * cell) :=
  match names, r with
  | k :: names', v :: r' =>
      if is_empty_text v then zip_cells names' r' else (k, try_make_number v) :: zip_cells names' r'
  | _, _ => []
  end.

Section Tables.
Context {T : Type}.
Variable V : csvlayer T.
Variable F : floatlayer.

(* write_tsv; the delimiter comes from the path suffix *)
Definition write_tsv (dl : delim) (first : option string) (excl : list string) (n : Z)
           (rows : list row) : T :=
  match rows with
  | [] => csv_write V dl []                                     (* `if not data: return`: empty file *)
  | _ => let fs := fields_of first excl rows in
         csv_write V dl (map CT fs :: map (fun r => map (fun f => render n (get_cell f r)) fs) rows)
  end.

(* delimiter = '\t' if '\t' in f.readline() else ',' *)
Definition detect (f : T) : delim := if first_line_tab V f then Tab else Comma.

(* read_tsv on an existing file.  None = an exception *)
Definition read_tsv (f : T) : option (list (list (string * cell))) :=
  match csv_read V (detect f) f with
  | Some (h :: rows) =>                                         (* field_names = list(next(reader)) *)
      match mapM text_str h with
      | Some names => Some (map (fun r => dict_of_list String.eqb (zip_cells names r)) rows)
      | None => None
      end
  | _ => None                                                   (* next(reader): StopIteration / csv.Error *)
  end.

(* _write_tsv_simple: rows sorted by cluster id *)
Definition write_simple (dl : delim) (field : string) (data : list (Z * value)) : T :=
  csv_write V dl ([CT "cluster_id"; CT field] ::
                  map (fun kv => [CT (l2s (show_int (fst kv))); render_raw F (snd kv)]) (isort data)).

(* _read_tsv_simple on an existing file *)
Definition read_simple (f : T) : option (string * list (Z * cell)) :=
  match csv_read V (detect f) f with
  | Some ([_; CT field] :: rows) =>                             (* _, field_name = next(reader) *)
      match mapM (fun r => match r with
                           | [CT a; v] => match py_int (s2l a) with     (* cluster_id, value = row *)
                                          | Some id => Some (id, try_make_number v)
                                          | None => None
                                          end
                           | _ => None
                           end) rows with
      | Some kvs => Some (field, dict_of_list Z.eqb kvs)
      | None => None
      end
  | _ => None
  end.
End Tables.

(* the reference csv layer used by the correspondence: the text of a file is the delimiter it was
   written with plus its rows of cells; read with another delimiter: not modelled, except that an
   empty file has no rows under either delimiter *)
Record tfile := mkfile { t_delim : delim; t_lines : list (list ctext) }.
Definition ref_csv : csvlayer tfile :=
  mkcsv tfile mkfile
        (fun dl f => if delim_eqb dl (t_delim f) || match t_lines f with [] => true | _ => false end
                     then Some (t_lines f) else None)
        (fun f => match t_lines f with
                  | [] => false
                  | h :: _ => (delim_eqb (t_delim f) Tab && (2 <=? zlen h)) || existsb has_tab h
                  end).

(* ---------------------------------------------------------------------------------------------- *)
(* parameter files                                                                                *)
(* ---------------------------------------------------------------------------------------------- *)
(* ---- repr(str) on characters (str as its UTF-8 bytes; bytes >= 128 belong to printable non-ASCII
   characters and are copied -- Python escapes the non-printable ones, which evaluates to the same
   string) ---- *)
Definition ch_sq : ascii := chr 39.
Definition ch_dq : ascii := chr 34.
Definition ch_bs : ascii := chr 92.
Definition hexchr (d : Z) : ascii := if d <? 10 then chr (48 + d) else chr (87 + d).
Definition hexval (c : ascii) : option Z :=
  let z := code c in
  if (48 <=? z) && (z <=? 57) then Some (z - 48)
  else if (97 <=? z) && (z <=? 102) then Some (z - 87)
  else if (65 <=? z) && (z <=? 70) then Some (z - 55)
  else None.

(* the quote repr chooses: double quotes iff the string has a single quote and no double quote *)
Definition repr_quote (s : list ascii) : ascii :=
  if existsb (Ascii.eqb ch_sq) s && negb (existsb (Ascii.eqb ch_dq) s) then ch_dq else ch_sq.

Definition esc_char (q c : ascii) : list ascii :=
  let z := code c in
  if Ascii.eqb c q || Ascii.eqb c ch_bs then [ch_bs; c]
  else if z =? 9 then [ch_bs; "t"%char]
  else if z =? 10 then [ch_bs; "n"%char]
  else if z =? 13 then [ch_bs; "r"%char]
  else if (z <? 32) || (z =? 127) then [ch_bs; "x"%char; hexchr (z / 16); hexchr (z mod 16)]
  else [c].

Definition repr_str (s : list ascii) : list ascii :=
  let q := repr_quote s in q :: flat_map (esc_char q) s ++ [q].

(* evaluation of a (non-raw, single-line) string literal: the body after the opening quote [q], up to
   and including the closing quote, which must end the text.  None = SyntaxError (raw line break,
   unterminated literal, text after the literal) or an escape that is not modelled (octal, \a \b \f
   \v \N \u \U, line continuation, unknown escapes, \x80..\xff) *)
Fixpoint lit_body (q : ascii) (l : list ascii) : option (list ascii) :=
  match l with
  | [] => None
  | c :: r =>
      if Ascii.eqb c q then match r with [] => Some [] | _ => None end
      else if Ascii.eqb c ch_bs then
        match r with
        | e :: r' =>
            let ez := code e in
            if (ez =? 92) || (ez =? 39) || (ez =? 34) then option_map (cons e) (lit_body q r')
            else if ez =? 116 then option_map (cons (chr 9)) (lit_body q r')
            else if ez =? 110 then option_map (cons (chr 10)) (lit_body q r')
            else if ez =? 114 then option_map (cons (chr 13)) (lit_body q r')
            else if ez =? 120 then
              match r' with
              | h1 :: h2 :: r'' =>
                  match hexval h1, hexval h2 with
                  | Some a, Some b => if 16 * a + b <? 128
                                      then option_map (cons (chr (16 * a + b))) (lit_body q r'')
                                      else None
                  | _, _ => None
                  end
              | _ => None
              end
            else None
        | [] => None
        end
      else if (code c =? 10) || (code c =? 13) then None
      else option_map (cons c) (lit_body q r)
  end.
Definition eval_str_lit (l : list ascii) : option (list ascii) :=
  match l with
  | q :: r => if Ascii.eqb q ch_sq || Ascii.eqb q ch_dq then lit_body q r else None
  | [] => None
  end.

(* ---- repr() of the values a parameter dictionary holds: None, bool, int, float (oracle), str, lists
   and string-keyed dictionaries of these.  str(v) = repr(v) for all of them except str itself, for
   which write_python calls repr explicitly.  NumPy values are not modelled: a text exec rejects. ---- *)
Definition ch_comma_ : ascii := ","%char.
Definition ch_space : ascii := " "%char.
Definition ch_colon : ascii := ":"%char.
Definition ch_lbr : ascii := "["%char.
Definition ch_rbr : ascii := "]"%char.
Definition ch_lcb : ascii := "{"%char.
Definition ch_rcb : ascii := "}"%char.
Definition str_None : list ascii := s2l "None".
Definition str_True : list ascii := s2l "True".
Definition str_False : list ascii := s2l "False".

(* ', '.join(texts) *)
Fixpoint join_sep (l : list (list ascii)) : list ascii :=
  match l with
  | [] => []
  | x :: r => match r with [] => x | _ => x ++ ch_comma_ :: ch_space :: join_sep r end
  end.

Definition finite (f : ftok) : bool := match f with FFin _ _ _ => true | _ => false end.
(* values whose str() is a Python expression that evaluates to an equal value *)
Fixpoint plain (v : pyval) : bool :=
  match v with
  | PNone | PBool _ | PInt _ | PStr _ => true
  | PFloat f => finite f                                        (* str gives nan / inf: NameError *)
  | PList l => forallb plain l
  | PDict l => forallb (fun kv => plain (snd kv)) l
  | PNp _ _ | PArr _ _ _ _ => false
  end.

Section PyText.
Variable F : floatlayer.

Fixpoint py_repr (v : pyval) : list ascii :=
  match v with
  | PNone => str_None
  | PBool b => if b then str_True else str_False
  | PInt z => show_int z
  | PFloat f => frepr F f
  | PStr s => repr_str (s2l s)
  | PList l => ch_lbr :: join_sep (map py_repr l) ++ [ch_rbr]
  | PDict l => ch_lcb :: join_sep (map (fun kv => repr_str (s2l (fst kv)) ++ ch_colon :: ch_space :: py_repr (snd kv)) l)
                      ++ [ch_rcb]
  | PNp _ _ | PArr _ _ _ _ => s2l "<?>"
  end.

(* ---- evaluation (exec) of such a text ---- *)
(* a string literal after its opening quote [q]: the value and the text after the closing quote.  None
   as for lit_body *)
Definition cons_fst (c : ascii) (o : option (list ascii * list ascii)) : option (list ascii * list ascii) :=
  match o with Some p => Some (c :: fst p, snd p) | None => None end.
Fixpoint lit_rest (q : ascii) (l : list ascii) : option (list ascii * list ascii) :=
  match l with
  | [] => None
  | c :: r =>
      if Ascii.eqb c q then Some ([], r)
      else if Ascii.eqb c ch_bs then
        match r with
        | e :: r' =>
            let ez := code e in
            if (ez =? 92) || (ez =? 39) || (ez =? 34) then cons_fst e (lit_rest q r')
            else if ez =? 116 then cons_fst (chr 9) (lit_rest q r')
            else if ez =? 110 then cons_fst (chr 10) (lit_rest q r')
            else if ez =? 114 then cons_fst (chr 13) (lit_rest q r')
            else if ez =? 120 then
              match r' with
              | h1 :: h2 :: r'' =>
                  match hexval h1, hexval h2 with
                  | Some a, Some b => if 16 * a + b <? 128
                                      then cons_fst (chr (16 * a + b)) (lit_rest q r'')
                                      else None
                  | _, _ => None
                  end
              | _ => None
              end
            else None
        | [] => None
        end
      else if (code c =? 10) || (code c =? 13) then None
      else cons_fst c (lit_rest q r)
  end.

(* a name / number token ends at white space or at one of , ] } : *)
Definition stop_char (c : ascii) : bool :=
  is_space c || Ascii.eqb c ch_comma_ || Ascii.eqb c ch_rbr || Ascii.eqb c ch_rcb || Ascii.eqb c ch_colon.
Fixpoint scan_tok (l : list ascii) : list ascii * list ascii :=
  match l with
  | c :: r => if stop_char c then ([], l) else let (t, rest) := scan_tok r in (c :: t, rest)
  | [] => ([], [])
  end.

(* after an optional sign, a digit or a point: the token is a number, not a name *)
Definition is_num_start (t : list ascii) : bool :=
  match snd (split_sign t) with c :: _ => is_digit c || Ascii.eqb c ch_dot | [] => false end.

(* None / True / False, a decimal integer literal (no leading zero unless it is zero), a float literal
   (its value: the oracle's correctly rounded conversion), with an optional sign.  Everything else
   (names such as nan / inf, calls, operators, complex and non-decimal literals): None *)
Definition eval_atom (t : list ascii) : option pyval :=
  if chars_eqb t str_None then Some PNone
  else if chars_eqb t str_True then Some (PBool true)
  else if chars_eqb t str_False then Some (PBool false)
  else if is_num_start t then
    match py_int t with
    | Some z => match snd (split_sign t) with
                | c :: _ :: _ => if Ascii.eqb c "0"%char && negb (z =? 0) then None else Some (PInt z)
                | _ => Some (PInt z)
                end
    | None => match py_float t with
              | Some (ODec neg mant e10) => Some (PFloat (fnearest F neg mant e10))
              | _ => None
              end
    end
  else None.

Definition is_quote (c : ascii) : bool := Ascii.eqb c ch_sq || Ascii.eqb c ch_dq.

(* one expression at the head of the text: the value and the rest of the text.  Lists and dictionaries
   in the layout repr() gives them (", " and ": " separators); a dictionary display is built by
   successive assignment (a repeated key keeps its first position and takes the last value), members in
   textual order.  fuel bounds the nesting depth plus the number of members *)
Fixpoint ev (fuel : nat) (l : list ascii) {struct fuel} : option (pyval * list ascii) :=
  match fuel with
  | O => None
  | S fu =>
      match l with
      | [] => None
      | c :: r =>
          if is_quote c then
            match lit_rest c r with Some p => Some (PStr (l2s (fst p)), snd p) | None => None end
          else if Ascii.eqb c ch_lbr then
            match r with
            | c2 :: r2 => if Ascii.eqb c2 ch_rbr then Some (PList [], r2) else ev_list fu r []
            | [] => None
            end
          else if Ascii.eqb c ch_lcb then
            match r with
            | c2 :: r2 => if Ascii.eqb c2 ch_rcb then Some (PDict [], r2) else ev_dict fu r []
            | [] => None
            end
          else let (t, rest) := scan_tok l in
               match eval_atom t with
               | Some v => Some (v, rest)
               | None => None
               end
      end
  end
with ev_list (fuel : nat) (l : list ascii) (acc : list pyval) {struct fuel} : option (pyval * list ascii) :=
  match fuel with
  | O => None
  | S fu =>
      match ev fu l with
      | Some (v, c :: rest) =>
          if Ascii.eqb c ch_comma_ then
            match rest with
            | sp :: rest' => if Ascii.eqb sp ch_space then ev_list fu rest' (v :: acc) else None
            | [] => None
            end
          else if Ascii.eqb c ch_rbr then Some (PList (rev (v :: acc)), rest)
          else None
      | _ => None
      end
  end
with ev_dict (fuel : nat) (l : list ascii) (acc : list (string * pyval)) {struct fuel} : option (pyval * list ascii) :=
  match fuel with
  | O => None
  | S fu =>
      match l with
      | q :: r =>
          if is_quote q then
            match lit_rest q r with
            | Some (k, c1 :: c2 :: r2) =>
                if Ascii.eqb c1 ch_colon && Ascii.eqb c2 ch_space then
                  match ev fu r2 with
                  | Some (v, c :: rest) =>
                      if Ascii.eqb c ch_comma_ then
                        match rest with
                        | sp :: rest' => if Ascii.eqb sp ch_space then ev_dict fu rest' ((l2s k, v) :: acc) else None
                        | [] => None
                        end
                      else if Ascii.eqb c ch_rcb
                      then Some (PDict (dict_of_list String.eqb (rev ((l2s k, v) :: acc))), rest)
                      else None
                  | _ => None
                  end
                else None
            | _ => None
            end
          else None
      | [] => None
      end
  end.

(* the right-hand side of one assignment `k = text`: a string literal alone goes through eval_str_lit
   (the function the repr(str) theorems are about; lit_rest agrees with it, ProofsPy2), anything else
   through ev, which must consume the whole text *)
Definition eval_expr (text : list ascii) : option pyval :=
  match text with
  | c :: _ =>
      if is_quote c then option_map (fun l => PStr (l2s l)) (eval_str_lit text)
      else match ev (S (List.length text)) text with
           | Some (v, []) => Some v
           | _ => None
           end
  | [] => None
  end.

(* write_python: one line `k = v` per item, v = repr(v) for a str, str(v) otherwise *)
Definition write_python (d : list (string * pyval)) : list (string * list ascii) :=
  map (fun kv => (fst kv, py_repr (snd kv))) d.
End PyText.

(* _pretty_floats on a dict / list / tuple value of a table cell (outside the statement: such a cell is
   written as the str() of the prettified value and reads back as that string).  Inside a container the
   recursive calls do not pass n on: the default n = 2 applies; tuples become lists *)
Fixpoint pretty_in (v : pyval) : pyval :=
  match v with
  | PFloat f => PStr (l2s (fmt 2 f))
  | PList l => PList (map pretty_in l)
  | PDict l => PDict (map (fun kv => (fst kv, pretty_in (snd kv))) l)
  | _ => v
  end.
Definition render_nested (F : floatlayer) (v : pyval) : ctext := CT (l2s (py_repr F (pretty_in v))).

Definition is_alpha_ (c : ascii) : bool :=
  let z := code c in ((65 <=? z) && (z <=? 90)) || ((97 <=? z) && (z <=? 122)) || (z =? 95).
Definition is_ident (s : string) : bool :=
  match s2l s with
  | c :: r => is_alpha_ c && forallb (fun x => is_alpha_ x || is_digit x) r
  | [] => false
  end.
Definition keywords : list string :=
  (["False"; "None"; "True"; "and"; "as"; "assert"; "async"; "await"; "break"; "class"; "continue";
   "def"; "del"; "elif"; "else"; "except"; "finally"; "for"; "from"; "global"; "if"; "import"; "in";
   "is"; "lambda"; "nonlocal"; "not"; "or"; "pass"; "raise"; "return"; "try"; "while"; "with"; "yield"])%string.
Definition lower_str (s : string) : string := l2s (map lower (s2l s)).

(* read_python: exec() the lines into a dict, then lower-case the keys *)
Definition read_python (F : floatlayer) (lines : list (string * list ascii)) : option (list (string * pyval)) :=
  match mapM (fun ke => if is_ident (fst ke) && negb (smem (fst ke) keywords)
                        then option_map (pair (fst ke)) (eval_expr F (snd ke))
                        else None) lines with
  | Some kvs => Some (dict_of_list String.eqb
                        (map (fun kv => (lower_str (fst kv), snd kv)) (dict_of_list String.eqb kvs)))
  | None => None
  end.

(* ---------------------------------------------------------------------------------------------- *)
(* paths that do not exist, empty files (outside the statement: there is no matching save; kept so   *)
(* that every line of the anchored functions is compared with the model)                             *)
(* ---------------------------------------------------------------------------------------------- *)
Inductive fstate (T : Type) := FMissing | FFile (t : T).
Arguments FMissing {T}.
Arguments FFile {T} _.

(* load_json(path): IOError when the path does not exist *)
Definition load_json_path (C : codec) {T : Type} (L : textlayer T) (p : fstate T) : option (list (key * pyval)) :=
  match p with FMissing => None | FFile t => load_json_text C L t end.
(* read_tsv(path): [] when the path does not exist *)
Definition read_tsv_path {T : Type} (V : csvlayer T) (p : fstate T) : option (list (list (string * cell))) :=
  match p with FMissing => Some [] | FFile t => read_tsv V t end.
(* _read_tsv_simple(path): the empty dict {} (not a pair) when the path does not exist *)
Inductive simple_out := SNoFile | SOut (field : string) (data : list (Z * cell)).
Definition read_simple_path {T : Type} (V : csvlayer T) (p : fstate T) : option simple_out :=
  match p with
  | FMissing => Some SNoFile
  | FFile t => match read_simple V t with Some (f, d) => Some (SOut f d) | None => None end
  end.
(* read_python(path): IOError when the path does not exist *)
Definition read_python_path (F : floatlayer) (p : fstate (list (string * list ascii))) : option (list (string * pyval)) :=
  match p with FMissing => None | FFile t => read_python F t end.
