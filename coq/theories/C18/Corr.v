(* C18/Corr.v -- comparator evaluated by vm_compute on generated case files.
   codes: 1  = observed output differs from the model (determined observable)
          21 = C18_json / C18_keys: the loaded dictionary does not have the saved keys (with types)
          22 = C18_json: a loaded value is not the normal form of the saved one (dtype, shape, values,
               <= 10-item 1-D arrays as lists, scalars, strings, lists, None, nested dicts)
          24 = C18_tsv: a row read back is not the written row (as a finite map; None/absent omitted;
               floats to the written precision)
          25 = C18_tsv: the requested first column is not first
          26 = C18_tsv_simple: two-column cluster table does not read back
          27 = C18_python: parameter file does not read back equal
          28 = C18_int_text / C18_float_text / C18_nonnumeric: _try_make_number types a cell wrongly
          3  = input outside the stated regime (harness bug) *)
From Coq Require Import ZArith List Bool String Ascii.
From PV Require Export Base.NpSearch C18.Model C18.Spec.
Import ListNotations.
Open Scope Z_scope.

Inductive input :=
| InJson (d : list (key * pyval))
| InTsv (dl : delim) (first : option string) (excl : list string) (n : Z) (rows : list row)
| InSimple (dl : delim) (field : string) (data : list (Z * value))
| InPython (d : list (string * pyval))
| InNumber (s : string).

Inductive observed :=
| ObsJson (d : list (key * pyval))
| ObsRows (out : list (list (string * cell)))
| ObsSimple (field : string) (out : list (Z * cell))
| ObsPython (d : list (string * pyval))
| ObsNumber (c : cell)
| ObsCrash.

Record case := { cid : Z; cin : input; cobs : observed }.

Definition flag (code : Z) (ok : bool) : list Z := if ok then [] else [code].

(* ---- reference oracles (any oracles satisfying Codec_OK / Text_OK / Csv_OK give the same results on
   well-formed inputs, by the theorems; these are the ones the comparator computes with) ---- *)
Definition ch_semi : ascii := ";"%char.
Definition ch_comma : ascii := ","%char.
Definition ftok_text (f : ftok) : list ascii :=
  match f with
  | FFin neg m e => "f"%char :: (if neg then ch_minus else ch_plus) :: show_int m ++ ch_comma :: show_int e
  | FNaN => ["n"%char]
  | FInf neg => [if neg then "q"%char else "p"%char]
  end.
Definition scalar_text (x : scalar) : list ascii :=
  match x with
  | SBool b => ["b"%char; if b then "1"%char else "0"%char]
  | SInt z => "i"%char :: show_int z
  | SFlt f => ftok_text f
  end ++ [ch_semi].
(* split at every [sep]; cur is the current token, reversed *)
Fixpoint split_at (sep : ascii) (l cur : list ascii) : list (list ascii) :=
  match l with
  | [] => [rev cur]
  | c :: r => if Ascii.eqb c sep then rev cur :: split_at sep r [] else split_at sep r (c :: cur)
  end.
Definition read_int (l : list ascii) : option Z :=
  match l with
  | c :: r => if Ascii.eqb c ch_minus then (if isdigit r then Some (- digits_val r) else None)
              else if isdigit l then Some (digits_val l) else None
  | [] => None
  end.
Definition scalar_of_text (l : list ascii) : option scalar :=
  match l with
  | t :: r =>
      match code t with
      | 98 => match r with [d] => Some (SBool (code d =? 49)) | _ => None end
      | 105 => option_map SInt (read_int r)
      | 110 => Some (SFlt FNaN)
      | 112 => Some (SFlt (FInf false))
      | 113 => Some (SFlt (FInf true))
      | 102 => match r with
               | sg :: r' => match split_at ch_comma r' [] with
                             | [a; b] => match read_int a, read_int b with
                                         | Some m, Some e => Some (SFlt (FFin (Ascii.eqb sg ch_minus) m e))
                                         | _, _ => None
                                         end
                             | _ => None
                             end
               | [] => None
               end
      | _ => None
      end
  | [] => None
  end.
Definition ref_frombuffer (dt : dtype) (data : list ascii) : option (list scalar) :=
  match rev (split_at ch_semi data []) with
  | [] :: toks => mapM scalar_of_text (rev toks)          (* the text ends with a separator *)
  | _ => None
  end.
Definition ref_codec : codec :=
  mkcodec (fun _ el => List.concat (map scalar_text el)) ref_frombuffer l2s (fun s => Some (s2l s)).
Definition ref_text : textlayer jtree := mktext jtree (fun t => t) Some (fun _ => false).

(* strings as lists of byte codes, for case files (tabs, quotes, UTF-8) *)
Definition sl (l : list Z) : string := l2s (map chr l).

Definition top_eqb (a b : list (key * pyval)) : bool :=
  list_eqb (fun x y => key_eqb (fst x) (fst y) && pyval_eqb (snd x) (snd y)) a b.

(* model row (expected) against observed row, in order *)
Definition orow_match (m o : list (string * cell)) : bool :=
  list_eqb (fun x y => String.eqb (fst x) (fst y) && cell_match (snd x) (snd y)) m o.
Definition simple_match (m o : list (Z * cell)) : bool :=
  list_eqb (fun x y => (fst x =? fst y) && cell_match (snd x) (snd y)) m o.

Definition char_ok (c : ascii) : bool := ((32 <=? code c) && (code c <=? 126)) || (code c =? 9).
Definition text_ok (s : string) : bool := forallb char_ok (s2l s).
Definition cell_text_ok (v : value) : bool := match v with VStr s => text_ok s | _ => true end.

Definition check (c : case) : list Z :=
  match cin c, cobs c with
  | InJson d, o =>
      if negb (wf_top_b d) then [3] else
      match o with
      | ObsJson out =>
          flag 1 (match load_json_text ref_codec ref_text (save_json_text ref_codec ref_text d) with Some m => top_eqb m out | None => false end) ++
          flag 21 (json_keys_b d out) ++ flag 22 (json_vals_b d out)
      | _ => [1; 21; 22]
      end
  | InTsv dl first excl n rows, o =>
      if negb (forallb row_ok rows && forallb (fun r => forallb (fun kv => cell_text_ok (snd kv)) r) rows &&
               (1 <=? n) && (n <=? 12) &&
               (2 <=? zlen (fields_of first excl rows)) && forallb is_ident (fields_of first excl rows))
      then [3] else
      match o with
      | ObsRows out =>
          flag 1 (match read_tsv ref_csv (write_tsv ref_csv dl first excl n rows) with
                  | Some m => list_eqb orow_match m out
                  | None => false
                  end) ++
          flag 24 (rows_spec_b excl n rows out) ++ flag 25 (first_b first out)
      | _ => [1; 24; 25]
      end
  | InSimple dl field data, o =>
      if negb (znodup_b (map fst data) && forallb (fun kv => simple_value_ok (snd kv) && cell_text_ok (snd kv)) data &&
               is_ident field)
      then [3] else
      match o with
      | ObsSimple of out =>
          flag 1 (match read_simple ref_csv (write_simple ref_csv dl field data) with
                  | Some (mf, m) => String.eqb mf of && simple_match m out
                  | None => false
                  end) ++
          flag 26 (simple_spec_b field data of out)
      | _ => [1; 26]
      end
  | InPython d, o =>
      if negb (py_ok d) then [3] else
      match o with
      | ObsPython out =>
          flag 1 (match read_python (write_python d) with
                  | Some m => py_spec_b m out
                  | None => false
                  end) ++
          flag 27 (py_spec_b d out)
      | _ => [1; 27]
      end
  | InNumber s, o =>
      if negb (text_ok s) then [3] else
      match o with
      | ObsNumber c => let ok := cell_match (try_make_number (CT s)) c in flag 1 ok ++ flag 28 ok
      | _ => [1; 28]
      end
  end.

Definition run (cases : list case) : list (Z * Z) :=
  flat_map (fun c => map (fun code => (cid c, code)) (check c)) cases.
