(* C18/Corr.v -- comparator evaluated by vm_compute on generated case files.
   codes: 1  = observed output differs from the model (determined observable)
          21 = C18_json / C18_keys: the loaded dictionary does not have the saved keys (with types)
          22 = C18_json: a loaded value is not the normal form of the saved one (dtype, shape, values,
               <= 10-item 1-D arrays as lists, scalars, strings, lists, None, nested dicts)
          24 = C18_tsv: a row read back is not the written row (as a finite map; None/absent omitted;
               floats to the written precision)
          25 = C18_tsv: the requested first column is not first
          26 = C18_tsv_simple: two-column cluster table does not read back
          27 = C18_python: parameter file does not read back equal
          28 = C18_int_text / C18_float_text / C18_nonnumeric: _try_make_number types a cell wrongly
               (with CPython's int_max_str_digits limit: Lim.v)
          3  = input outside the stated regime (harness bug)
   Edge cases (InEdge: a path that does not exist, an empty file, a table without rows, an integer
   beyond the int_max_str_digits guard) are outside the statement and judged by code 1 alone. *)
From Coq Require Import ZArith List Bool String Ascii.
From PV Require Export Base.NpSearch C18.Model C18.Spec C18.Ref C18.Lim.
Import ListNotations.
Open Scope Z_scope.

(* inputs outside the statement, kept so that every branch of the anchored functions is compared with
   the model.  EBigInt w z: the integer z (beyond the limit) given to write_tsv (w = 0), _write_tsv_simple
   (1), write_python (2), save_json as a value (3) or as a key (4) *)
Inductive edge :=
| EJsonMissing | EJsonEmpty | ETsvMissing | ESimpleMissing | EPythonMissing
| ETsvNoRows (dl : delim) (first : option string) (excl : list string) (n : Z)
| ETsvNested (v : pyval)         (* write_tsv(p, [{'a': v, 'b': 1}]) with a list / dict v, then read_tsv *)
| EBigInt (w : Z) (z : Z).

Inductive input :=
| InEdge (e : edge)
| InJson (d : list (key * pyval))
| InTsv (dl : delim) (first : option string) (excl : list string) (n : Z) (rows : list row)
| InSimple (dl : delim) (field : string) (data : list (Z * value))
| InPython (d : list (string * pyval))
| InNumber (s : string).

Inductive observed :=
| ObsJson (d : list (key * pyval))
| ObsRows (out : list (list (string * cell)))
| ObsSimple (field : string) (out : list (Z * cell))
| ObsPython (d : list (string * pyval))
| ObsNumber (c : cell)
| ObsEmptyDict
| ObsCrash.

Record case := { cid : Z; cin : input; cobs : observed }.

Definition flag (code : Z) (ok : bool) : list Z := if ok then [] else [code].

(* integers of thousands of digits, for case files (Coq's parser is slow on long numerals, not on long strings) *)
Definition zbig (neg : bool) (s : string) : Z := let v := digits_val (s2l s) in if neg then - v else v.

(* strings as lists of byte codes, for case files (tabs, quotes, UTF-8) *)
Definition sl (l : list Z) : string := l2s (map chr l).

Definition top_eqb (a b : list (key * pyval)) : bool :=
  list_eqb (fun x y => key_eqb (fst x) (fst y) && pyval_eqb (snd x) (snd y)) a b.

(* model row (expected) against observed row, as finite maps: the order of the columns other than the
   requested first one is not part of the property (clause 25 checks the first column) *)
Definition orow_match (m o : list (string * cell)) : bool :=
  (zlen m =? zlen o) && nodup_b (map fst o) &&
  forallb (fun kc => match lookup String.eqb (fst kc) o with
                     | Some c' => cell_match (snd kc) c'
                     | None => false
                     end) m.
Definition simple_match (m o : list (Z * cell)) : bool :=
  (zlen m =? zlen o) && znodup_b (map fst o) &&
  forallb (fun kc => match lookup Z.eqb (fst kc) o with
                     | Some c' => cell_match (snd kc) c'
                     | None => false
                     end) m.

(* stage 6: string cells of every character except NUL (csv before Python 3.11 rejects it): control characters,
   the line boundaries of str.splitlines (LF VT FF FS GS RS NEL LS PS; CR and CR LF, which the readers keep once
   they open the file with newline='' -- the generator draws CR only when that repair is in the tree),
   non-ASCII text as its UTF-8 bytes *)
Definition char_ok (c : ascii) : bool := negb (code c =? 0).
Definition text_ok (s : string) : bool := forallb char_ok (s2l s).
Definition cell_text_ok (v : value) : bool := match v with VStr s => text_ok s | _ => true end.
(* the string cells of the reading (Spec.nonnumeric: plain ASCII, or any bytes with a mark character) *)
Definition str_wide_ok (s : string) : bool := nonnumeric s && text_ok s.
Definition value_wide_ok (v : value) : bool :=
  match v with VStr s => str_wide_ok s | _ => value_ok v end.
Definition row_wide_ok (r : row) : bool :=
  nodup_b (map fst r) && forallb (fun kv => no_tab (fst kv) && str_csv_ok (fst kv) && value_wide_ok (snd kv)) r.
Definition simple_value_wide_ok (v : value) : bool :=
  match v with VStr s => str_wide_ok s | _ => simple_value_ok v end.
(* _try_make_number alone: every ASCII white space too *)
Definition num_text_ok (s : string) : bool :=
  forallb (fun c => ((32 <=? code c) && (code c <=? 126)) || ((9 <=? code c) && (code c <=? 13))) (s2l s).

(* the int_max_str_digits guard on the inputs of the statement's cases: Lim.int_in_limit with the power
   10^4300 computed once (evaluating it for every integer of every case would take a second each) *)
Definition lim_bound : Z := Eval vm_compute in 10 ^ int_max_str_digits.
Definition in_limit (z : Z) : bool := Z.abs z <? lim_bound.
Definition value_lim (v : value) : bool := match v with VInt z => in_limit z | _ => true end.
Fixpoint pv_lim (v : pyval) : bool :=
  match v with
  | PInt z => in_limit z
  | PList l => forallb pv_lim l
  | PDict l => forallb (fun kv => pv_lim (snd kv)) l
  | PArr _ sh _ _ => forallb in_limit sh
  | _ => true
  end.
Definition key_lim (k : key) : bool := match k with KInt z => in_limit z | KStr _ => true end.

(* what the model says about an edge input; None = the input is not an edge input (regime) *)
Definition edge_expect (e : edge) : option observed :=
  match e with
  | EJsonMissing => Some (match load_json_path ref_codec ref_text_e FMissing with Some d => ObsJson d | None => ObsCrash end)
  | EJsonEmpty => Some (match load_json_path ref_codec ref_text_e (FFile None) with Some d => ObsJson d | None => ObsCrash end)
  | ETsvMissing => Some (match read_tsv_path ref_csv FMissing with Some r => ObsRows r | None => ObsCrash end)
  | ESimpleMissing => Some (match read_simple_path ref_csv FMissing with
                            | Some SNoFile => ObsEmptyDict
                            | Some (SOut f d) => ObsSimple f d
                            | None => ObsCrash
                            end)
  | EPythonMissing => Some (match read_python_path ref_float FMissing with Some d => ObsPython d | None => ObsCrash end)
  | ETsvNoRows dl first excl n =>
      Some (match read_tsv_path ref_csv (FFile (write_tsv ref_csv dl first excl n [])) with
            | Some r => ObsRows r | None => ObsCrash end)
  | ETsvNested v =>
      if negb (match v with PList _ | PDict _ => plain (pretty_in v) && wfb v && pv_lim v | _ => false end) then None
      else Some (ObsRows [[("a"%string, try_make_number (render_nested ref_float v)); ("b"%string, OInt 1)]])
  | EBigInt w z =>
      if in_limit z || negb ((0 <=? w) && (w <=? 4)) then None
      else Some ObsCrash     (* str_int_lim int_max_str_digits z = None: theorem C18_int_limit_exceeded (evaluating
                                 str() of a 4301-digit integer in Coq's binary Z takes minutes) *)
  end.
Definition obs_same (x o : observed) : bool :=
  match x, o with
  | ObsCrash, ObsCrash => true
  | ObsEmptyDict, ObsEmptyDict => true
  | ObsJson a, ObsJson b => top_eqb a b
  | ObsRows a, ObsRows b => list_eqb orow_match a b
  | _, _ => false
  end.

(* float() overflows to inf beyond the double range: the comparison of near_dec covers it *)
Definition check (c : case) : list Z :=
  match cin c, cobs c with
  | InEdge e, o =>
      match edge_expect e with
      | Some x => flag 1 (obs_same x o)
      | None => [3]
      end
  | InJson d, o =>
      if negb (wf_top_b d && forallb (fun kv => key_lim (fst kv) && pv_lim (snd kv)) d) then [3] else
      match o with
      | ObsJson out =>
          flag 1 (match load_json_text ref_codec ref_text (save_json_text ref_codec ref_text d) with Some m => top_eqb m out | None => false end) ++
          flag 21 (json_keys_b d out) ++ flag 22 (json_vals_b d out)
      | _ => [1; 21; 22]
      end
  | InTsv dl first excl n rows, o =>
      if negb (forallb row_wide_ok rows && forallb (fun r => forallb (fun kv => cell_text_ok (snd kv)) r) rows &&
               forallb (fun r => forallb (fun kv => value_lim (snd kv)) r) rows &&
               (1 <=? n) && (n <=? 12) &&
               (2 <=? zlen (fields_of first excl rows)) && forallb is_ident (fields_of first excl rows))
      then [3] else
      match o with
      | ObsRows out =>
          flag 1 (match read_tsv ref_csv (write_tsv ref_csv dl first excl n rows) with
                  | Some m => list_eqb orow_match m out
                  | None => false
                  end) ++
          flag 24 (rows_spec_b excl n rows out) ++ flag 25 (first_b first out)
      | _ => [1; 24; 25]
      end
  | InSimple dl field data, o =>
      if negb (znodup_b (map fst data) && forallb (fun kv => simple_value_wide_ok (snd kv) && cell_text_ok (snd kv)) data &&
               forallb (fun kv => in_limit (fst kv) && value_lim (snd kv)) data && is_ident field)
      then [3] else
      match o with
      | ObsSimple of out =>
          flag 1 (match read_simple ref_csv (write_simple ref_csv ref_float dl field data) with
                  | Some (mf, m) => String.eqb mf of && simple_match m out
                  | None => false
                  end) ++
          flag 26 (simple_spec_b field data of out)
      | _ => [1; 26]
      end
  | InPython d, o =>
      if negb (py_ok d && forallb (fun kv => pv_lim (snd kv)) d) then [3] else
      match o with
      | ObsPython out =>
          flag 1 (match read_python ref_float (write_python ref_float d) with
                  | Some m => py_spec_b m out
                  | None => false
                  end) ++
          flag 27 (py_spec_b d out)
      | _ => [1; 27]
      end
  | InNumber s, o =>
      if negb (num_text_ok s) then [3] else
      match o with
      | ObsNumber c => let ok := cell_match (try_make_number_lim int_max_str_digits (CT s)) c in flag 1 ok ++ flag 28 ok
      | _ => [1; 28]
      end
  end.

Definition run (cases : list case) : list (Z * Z) :=
  flat_map (fun c => map (fun code => (cid c, code)) (check c)) cases.
