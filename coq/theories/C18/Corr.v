(* C18/Corr.v -- comparator evaluated by vm_compute on generated case files.
   codes: 1  = observed output differs from the model (determined observable)
          21 = C18_json / C18_keys: the loaded dictionary does not have the saved keys (with types)
          22 = C18_json: a loaded value is not the normal form of the saved one (dtype, shape, values,
               <= 10-item 1-D arrays as lists, scalars, strings, lists, None, nested dicts)
          24 = C18_tsv: a row read back is not the written row (as a finite map; None/absent omitted;
               floats to the written precision)
          25 = C18_tsv: the requested first column is not first
          26 = C18_tsv_simple: two-column cluster table does not read back
          27 = C18_python: parameter file does not read back equal
          28 = C18_int_text / C18_float_text / C18_nonnumeric: _try_make_number types a cell wrongly
          3  = input outside the stated regime (harness bug) *)
From Coq Require Import ZArith List Bool String Ascii.
From PV Require Export Base.NpSearch C18.Model C18.Spec C18.Ref.
Import ListNotations.
Open Scope Z_scope.

Inductive input :=
| InJson (d : list (key * pyval))
| InTsv (dl : delim) (first : option string) (excl : list string) (n : Z) (rows : list row)
| InSimple (dl : delim) (field : string) (data : list (Z * value))
| InPython (d : list (string * pyval))
| InNumber (s : string).

Inductive observed :=
| ObsJson (d : list (key * pyval))
| ObsRows (out : list (list (string * cell)))
| ObsSimple (field : string) (out : list (Z * cell))
| ObsPython (d : list (string * pyval))
| ObsNumber (c : cell)
| ObsCrash.

Record case := { cid : Z; cin : input; cobs : observed }.

Definition flag (code : Z) (ok : bool) : list Z := if ok then [] else [code].

(* strings as lists of byte codes, for case files (tabs, quotes, UTF-8) *)
Definition sl (l : list Z) : string := l2s (map chr l).

Definition top_eqb (a b : list (key * pyval)) : bool :=
  list_eqb (fun x y => key_eqb (fst x) (fst y) && pyval_eqb (snd x) (snd y)) a b.

(* model row (expected) against observed row, as finite maps: the order of the columns other than the
   requested first one is not part of the property (clause 25 checks the first column) *)
Definition orow_match (m o : list (string * cell)) : bool :=
  (zlen m =? zlen o) && nodup_b (map fst o) &&
  forallb (fun kc => match lookup String.eqb (fst kc) o with
                     | Some c' => cell_match (snd kc) c'
                     | None => false
                     end) m.
Definition simple_match (m o : list (Z * cell)) : bool :=
  (zlen m =? zlen o) && znodup_b (map fst o) &&
  forallb (fun kc => match lookup Z.eqb (fst kc) o with
                     | Some c' => cell_match (snd kc) c'
                     | None => false
                     end) m.

Definition char_ok (c : ascii) : bool := ((32 <=? code c) && (code c <=? 126)) || (code c =? 9).
Definition text_ok (s : string) : bool := forallb char_ok (s2l s).
Definition cell_text_ok (v : value) : bool := match v with VStr s => text_ok s | _ => true end.
(* _try_make_number alone: every ASCII white space too *)
Definition num_text_ok (s : string) : bool :=
  forallb (fun c => ((32 <=? code c) && (code c <=? 126)) || ((9 <=? code c) && (code c <=? 13))) (s2l s).

Definition check (c : case) : list Z :=
  match cin c, cobs c with
  | InJson d, o =>
      if negb (wf_top_b d) then [3] else
      match o with
      | ObsJson out =>
          flag 1 (match load_json_text ref_codec ref_text (save_json_text ref_codec ref_text d) with Some m => top_eqb m out | None => false end) ++
          flag 21 (json_keys_b d out) ++ flag 22 (json_vals_b d out)
      | _ => [1; 21; 22]
      end
  | InTsv dl first excl n rows, o =>
      if negb (forallb row_ok rows && forallb (fun r => forallb (fun kv => cell_text_ok (snd kv)) r) rows &&
               (1 <=? n) && (n <=? 12) &&
               (2 <=? zlen (fields_of first excl rows)) && forallb is_ident (fields_of first excl rows))
      then [3] else
      match o with
      | ObsRows out =>
          flag 1 (match read_tsv ref_csv (write_tsv ref_csv dl first excl n rows) with
                  | Some m => list_eqb orow_match m out
                  | None => false
                  end) ++
          flag 24 (rows_spec_b excl n rows out) ++ flag 25 (first_b first out)
      | _ => [1; 24; 25]
      end
  | InSimple dl field data, o =>
      if negb (znodup_b (map fst data) && forallb (fun kv => simple_value_ok (snd kv) && cell_text_ok (snd kv)) data &&
               is_ident field)
      then [3] else
      match o with
      | ObsSimple of out =>
          flag 1 (match read_simple ref_csv (write_simple ref_csv dl field data) with
                  | Some (mf, m) => String.eqb mf of && simple_match m out
                  | None => false
                  end) ++
          flag 26 (simple_spec_b field data of out)
      | _ => [1; 26]
      end
  | InPython d, o =>
      if negb (py_ok d) then [3] else
      match o with
      | ObsPython out =>
          flag 1 (match read_python (write_python d) with
                  | Some m => py_spec_b m out
                  | None => false
                  end) ++
          flag 27 (py_spec_b d out)
      | _ => [1; 27]
      end
  | InNumber s, o =>
      if negb (num_text_ok s) then [3] else
      match o with
      | ObsNumber c => let ok := cell_match (try_make_number (CT s)) c in flag 1 ok ++ flag 28 ok
      | _ => [1; 28]
      end
  end.

Definition run (cases : list case) : list (Z * Z) :=
  flat_map (fun c => map (fun code => (cid c, code)) (check c)) cases.
