(* C18/ProofsJson.v -- JSON round trip: decode (encode v) = normalise v for every well-formed value and
   every codec satisfying Codec_OK; load_json (save_json d) = d up to normalisation; the same through
   the text layer for every text layer satisfying Text_OK. *)
From Coq Require Import ZArith List Bool String Ascii Lia ZifyBool.
From PV Require Import Base.NpSearch C18.Model C18.Spec C18.Proofs.
Import ListNotations.
Open Scope Z_scope.

(* ================= association lists as Python dicts ================= *)
Section DictLemmas.
Context {K V : Type}.
Variable keqb : K -> K -> bool.
Hypothesis keqb_sound : forall a b, keqb a b = true -> a = b.

Lemma keqb_neq a b : a <> b -> keqb a b = false.
Proof. intros H. destruct (keqb a b) eqn:E; [|reflexivity]. elim H. apply keqb_sound, E. Qed.

Lemma dset_fresh (d : list (K * V)) k v : ~ In k (map fst d) -> dset keqb d k v = d ++ [(k, v)].
Proof.
  induction d as [|[k' v'] r IH]; intros H; [reflexivity|].
  cbn [dset]. cbn [map fst In] in H. rewrite keqb_neq by tauto. rewrite IH by tauto. reflexivity.
Qed.

Lemma dict_fold_nodup (l acc : list (K * V)) : NoDup (map fst (acc ++ l)) ->
  fold_left (fun d kv => dset keqb d (fst kv) (snd kv)) l acc = acc ++ l.
Proof.
  revert acc. induction l as [|[k v] r IH]; intros acc H; [rewrite app_nil_r; reflexivity|].
  cbn [fold_left fst snd]. rewrite dset_fresh.
  - rewrite IH; rewrite <- app_assoc; [reflexivity|exact H].
  - rewrite map_app in H. cbn [map fst] in H. apply NoDup_remove_2 in H.
    intros Hin. apply H. apply in_or_app. left. exact Hin.
Qed.

Lemma dict_of_list_nodup (l : list (K * V)) : NoDup (map fst l) -> dict_of_list keqb l = l.
Proof. intros H. unfold dict_of_list. rewrite dict_fold_nodup; [reflexivity|exact H]. Qed.

Lemma lookup_notin k (l : list (K * V)) : ~ In k (map fst l) -> lookup keqb k l = None.
Proof.
  induction l as [|[k' v'] r IH]; intros H; [reflexivity|].
  cbn [lookup]. cbn [map fst In] in H. rewrite keqb_neq by tauto. apply IH. tauto.
Qed.

Hypothesis keqb_refl : forall a, keqb a a = true.

Lemma lookup_in k v (l : list (K * V)) : NoDup (map fst l) -> In (k, v) l -> lookup keqb k l = Some v.
Proof.
  induction l as [|[k' v'] r IH]; intros Hn Hin; [destruct Hin|].
  cbn [lookup]. cbn [map fst] in Hn. inversion Hn as [|? ? Hnot Hn']; subst.
  destruct Hin as [E|Hin].
  - inversion E; subst. rewrite keqb_refl. reflexivity.
  - rewrite keqb_neq; [apply IH; assumption|].
    intros ->. apply Hnot. apply in_map_iff. exists (k, v). split; [reflexivity|exact Hin].
Qed.

Lemma lookup_some_in k v (l : list (K * V)) : lookup keqb k l = Some v -> In (k, v) l.
Proof.
  induction l as [|[k' v'] r IH]; intros H; [discriminate|].
  cbn [lookup] in H. destruct (keqb k' k) eqn:E.
  - apply keqb_sound in E. inversion H; subst. left. reflexivity.
  - right. apply IH, H.
Qed.
End DictLemmas.

Lemma seqb_sound a b : String.eqb a b = true -> a = b.
Proof. apply String.eqb_eq. Qed.

Lemma smem_in s l : smem s l = true <-> In s l.
Proof.
  unfold smem. rewrite existsb_exists. split.
  - intros (x & Hin & E). apply String.eqb_eq in E. subst. exact Hin.
  - intros H. exists s. split; [exact H|apply String.eqb_refl].
Qed.
Lemma smem_notin s l : smem s l = false <-> ~ In s l.
Proof. rewrite <- smem_in. destruct (smem s l); split; intros; congruence. Qed.

Lemma nodup_b_NoDup l : nodup_b l = true -> NoDup l.
Proof.
  induction l as [|x r IH]; intros H; [constructor|].
  cbn [nodup_b] in H. apply andb_true_iff in H. destruct H as [H1 H2].
  constructor; [|apply IH, H2]. apply smem_notin. destruct (smem x r); [discriminate|reflexivity].
Qed.

Lemma key_eqb_sound a b : key_eqb a b = true -> a = b.
Proof.
  destruct a, b; cbn [key_eqb]; intros H; try discriminate.
  - f_equal. lia.
  - f_equal. apply String.eqb_eq, H.
Qed.
Lemma key_eqb_refl a : key_eqb a a = true.
Proof. destruct a; cbn [key_eqb]; [lia|apply String.eqb_refl]. Qed.

Lemma key_mem_in k l : key_mem k l = true <-> In k l.
Proof.
  induction l as [|x r IH]; cbn [key_mem In]; [split; [discriminate|tauto]|].
  rewrite orb_true_iff, IH. split; intros [H|H]; auto.
  - left. apply key_eqb_sound, H.
  - left. subst. apply key_eqb_refl.
Qed.
Lemma key_nodup_b_NoDup l : key_nodup_b l = true -> NoDup l.
Proof.
  induction l as [|x r IH]; intros H; [constructor|].
  cbn [key_nodup_b] in H. apply andb_true_iff in H. destruct H as [H1 H2].
  constructor; [|apply IH, H2]. intros Hin. apply key_mem_in in Hin. rewrite Hin in H1. discriminate.
Qed.

(* ================= mapM ================= *)
Lemma mapM_map {A B C : Type} (f : B -> option C) (g : A -> B) (h : A -> C) (l : list A) :
  Forall (fun x => f (g x) = Some (h x)) l -> mapM f (map g l) = Some (map h l).
Proof.
  induction 1 as [|x r Hx _ IH]; [reflexivity|].
  cbn [map mapM]. rewrite Hx, IH. reflexivity.
Qed.

(* ================= induction on values ================= *)
Section PyvalInd.
Variable P : pyval -> Prop.
Hypothesis HNone : P PNone.
Hypothesis HBool : forall b, P (PBool b).
Hypothesis HInt : forall z, P (PInt z).
Hypothesis HFloat : forall f, P (PFloat f).
Hypothesis HStr : forall s, P (PStr s).
Hypothesis HList : forall l, Forall P l -> P (PList l).
Hypothesis HDict : forall l, Forall (fun kv => P (snd kv)) l -> P (PDict l).
Hypothesis HNp : forall dt x, P (PNp dt x).
Hypothesis HArr : forall dt sh lay el, P (PArr dt sh lay el).
Fixpoint pyval_rect' (v : pyval) : P v :=
  match v with
  | PNone => HNone
  | PBool b => HBool b
  | PInt z => HInt z
  | PFloat f => HFloat f
  | PStr s => HStr s
  | PList l => HList l ((fix go (l : list pyval) : Forall P l :=
                           match l with
                           | [] => Forall_nil P
                           | x :: r => Forall_cons x (pyval_rect' x) (go r)
                           end) l)
  | PDict l => HDict l ((fix go (l : list (string * pyval)) : Forall (fun kv => P (snd kv)) l :=
                           match l with
                           | [] => Forall_nil _
                           | x :: r => Forall_cons x (pyval_rect' (snd x)) (go r)
                           end) l)
  | PNp dt x => HNp dt x
  | PArr dt sh lay el => HArr dt sh lay el
  end.
End PyvalInd.

(* ================= dtype names ================= *)
Lemma dtype_name_inv dt : dtype_ok dt = true -> dtype_of_name (dtype_name dt) = Some dt.
Proof. destruct dt as [[] []]; intros H; try discriminate H; vm_compute; reflexivity. Qed.

(* str(dtype) is injective on the dtypes NumPy can hold: the decoder cannot confuse two dtypes *)
Lemma dtype_name_inj a b : dtype_ok a = true -> dtype_ok b = true -> dtype_name a = dtype_name b -> a = b.
Proof.
  intros Ha Hb E. apply dtype_name_inv in Ha. apply dtype_name_inv in Hb. rewrite E in Ha. congruence.
Qed.

(* ================= decode . encode ================= *)
Lemma scalar_roundtrip (C : codec) x : decode C (scalar_j x) = Some (scalar_py x).
Proof. destruct x; reflexivity. Qed.

Lemma decode_ints (C : codec) sh : mapM (decode C) (map JInt sh) = Some (map PInt sh).
Proof. apply mapM_map. apply Forall_forall. intros; reflexivity. Qed.

Lemma ints_of_ints sh : ints_of (map PInt sh) = Some sh.
Proof.
  unfold ints_of. induction sh as [|x r IH]; [reflexivity|].
  cbn [map mapM]. rewrite IH. reflexivity.
Qed.

Lemma arr_dict (a b c : pyval) :
  dict_of_list String.eqb [(k_ndarray, a); (k_dtype, b); (k_shape, c)] = [(k_ndarray, a); (k_dtype, b); (k_shape, c)].
Proof. reflexivity. Qed.

Lemma has_key_none {V : Type} k (l : list (string * V)) : smem k (map fst l) = false -> has_key String.eqb k l = false.
Proof.
  intros H. unfold has_key. rewrite (lookup_notin String.eqb seqb_sound); [reflexivity|].
  apply smem_notin, H.
Qed.

Section WithCodec.
Variable C : codec.
Hypothesis HC : Codec_OK C.

Lemma hook_arr dt sh el :
  dtype_ok dt = true -> forallb (fun x => 0 <=? x) sh = true -> zprod sh = zlen el ->
  forallb (scalar_ok dt) el = true ->
  hook C [(k_ndarray, PStr (b64enc C (tobytes C dt el))); (k_dtype, PStr (dtype_name dt)); (k_shape, PList (map PInt sh))]
  = Some (PArr dt sh LC el).
Proof.
  intros Hd Hs Hp He. unfold hook.
  change (has_key String.eqb k_ndarray _) with true. cbv iota.
  change (lookup String.eqb k_ndarray _) with (Some (PStr (b64enc C (tobytes C dt el)))).
  change (lookup String.eqb k_dtype _) with (Some (PStr (dtype_name dt))).
  change (lookup String.eqb k_shape _) with (Some (PList (map PInt sh))).
  cbv iota beta.
  rewrite (b64_rt C HC), (dtype_name_inv dt Hd), ints_of_ints, (buf_rt C HC dt el Hd He).
  unfold reshape. rewrite Hs. replace (zprod sh =? zlen el) with true by lia. reflexivity.
Qed.

Theorem decode_encode : forall v, wfb v = true -> decode C (encode C v) = Some (normalise v).
Proof.
  induction v as [| | | | |l IH|l IH|dt x|dt sh lay el] using pyval_rect'; intros Hw; try reflexivity.
  - (* list *)
    cbn [encode decode normalise wfb] in *.
    rewrite (mapM_map (decode C) (encode C) normalise); [reflexivity|].
    rewrite forallb_forall in Hw. rewrite Forall_forall in *. intros x Hx. apply IH; auto.
  - (* dict *)
    cbn [encode decode normalise wfb] in *.
    repeat (apply andb_true_iff in Hw; destruct Hw as [Hw ?]).
    rewrite (mapM_map _ _ (fun kv => (fst kv, normalise (snd kv)))).
    + rewrite (dict_of_list_nodup String.eqb seqb_sound).
      * unfold hook. rewrite !has_key_none; [reflexivity| |]; rewrite map_map; cbn [fst];
          match goal with Hm : negb (smem ?k _) = true |- smem ?k _ = false => apply negb_true_iff, Hm end.
      * rewrite map_map. cbn [fst]. apply nodup_b_NoDup. assumption.
    + match goal with H : forallb _ l = true |- _ => rewrite forallb_forall in H; rename H into Hall end.
      rewrite Forall_forall in *. intros kv Hkv. cbn [fst snd]. rewrite IH; auto.
  - (* NumPy scalar *)
    cbn [encode normalise]. apply scalar_roundtrip.
  - (* array *)
    cbn [encode normalise wfb] in *.
    repeat (apply andb_true_iff in Hw; destruct Hw as [Hw ?]).
    destruct (small1d sh) eqn:Es.
    + cbn [decode]. rewrite (mapM_map (decode C) scalar_j scalar_py); [reflexivity|].
      apply Forall_forall. intros; apply scalar_roundtrip.
    + cbn [decode mapM fst snd option_map]. rewrite decode_ints. cbn [option_map].
      rewrite arr_dict. apply hook_arr; auto. lia.
Qed.

(* ================= top level: save_json / load_json ================= *)
Lemma stringify_inj a b : key_ok a = true -> key_ok b = true -> stringify_key a = stringify_key b -> a = b.
Proof.
  intros Ha Hb E. rewrite <- (intify_stringify a Ha), <- (intify_stringify b Hb), E. reflexivity.
Qed.

Lemma stringified_nodup (ks : list key) : NoDup ks -> forallb key_ok ks = true -> NoDup (map stringify_key ks).
Proof.
  induction 1 as [|k r Hn Hd IH]; intros Hk; [constructor|].
  cbn [forallb] in Hk. apply andb_true_iff in Hk. destruct Hk as [Hk Hr].
  cbn [map]. constructor; [|apply IH, Hr].
  intros Hin. apply in_map_iff in Hin. destruct Hin as (k' & E & Hin').
  rewrite forallb_forall in Hr. apply stringify_inj in E; auto. subst. contradiction.
Qed.

Lemma stringified_not_marker k m : key_ok k = true ->
  intify_key m = KStr m -> key_ok (KStr m) = false -> stringify_key k <> m.
Proof.
  intros Hk Hm Hbad E. destruct k as [z|s].
  - pose proof (intify_stringify (KInt z) eq_refl) as H. rewrite E, Hm in H. discriminate.
  - cbn [stringify_key] in E. subst. congruence.
Qed.

Theorem load_save : forall d, wf_top_b d = true -> load_json C (save_json C d) = Some (normalise_top d).
Proof.
  intros d Hw. unfold wf_top_b in Hw.
  repeat (apply andb_true_iff in Hw; destruct Hw as [Hw ?]).
  rename Hw into Hnd. rename H1 into Hok. rename H0 into Hsort. rename H into Hv.
  apply key_nodup_b_NoDup in Hnd.
  assert (Hsn : NoDup (map stringify_key (map fst d))) by (apply stringified_nodup; assumption).
  unfold save_json, load_json.
  set (sd := map (fun kv => (stringify_key (fst kv), snd kv)) d).
  assert (Hfst : map fst sd = map stringify_key (map fst d)).
  { unfold sd. rewrite !map_map. reflexivity. }
  rewrite (dict_of_list_nodup String.eqb seqb_sound) by (rewrite Hfst; exact Hsn).
  assert (Hm : forall m, intify_key m = KStr m -> key_ok (KStr m) = false -> smem m (map fst sd) = false).
  { intros m H1 H2. apply smem_notin. rewrite Hfst. intros Hin. apply in_map_iff in Hin.
    destruct Hin as (k & E & Hin). rewrite forallb_forall in Hok.
    exact (stringified_not_marker k m (Hok k Hin) H1 H2 E). }
  rewrite decode_encode.
  - cbn [normalise]. rewrite map_map. cbn [fst snd].
    unfold sd. rewrite !map_map. cbn [fst snd].
    rewrite (dict_of_list_nodup key_eqb key_eqb_sound).
    + unfold normalise_top. f_equal. apply map_ext_in. intros [k v] Hin. cbn [fst snd].
      rewrite intify_stringify; [reflexivity|].
      rewrite forallb_forall in Hok. apply Hok. apply in_map_iff. exists (k, v). auto.
    + rewrite map_map. cbn [fst].
      replace (map (fun x : key * pyval => intify_key (stringify_key (fst x))) d) with (map fst d); [exact Hnd|].
      apply map_ext_in. intros [k v] Hin. cbn [fst]. rewrite intify_stringify; [reflexivity|].
      rewrite forallb_forall in Hok. apply Hok. apply in_map_iff. exists (k, v). auto.
  - cbn [wfb]. rewrite Hfst.
    replace (map stringify_key (map fst d)) with (map (fun kv : key * pyval => stringify_key (fst kv)) d)
      by (rewrite map_map; reflexivity).
    rewrite Hsort.
    replace (map (fun kv : key * pyval => stringify_key (fst kv)) d) with (map fst sd)
      by (rewrite Hfst, map_map; reflexivity).
    rewrite (Hm k_ndarray eq_refl eq_refl), (Hm k_qba eq_refl eq_refl).
    assert (Hn' : nodup_b (map fst sd) = true).
    { clear - Hsn Hfst. rewrite Hfst. revert Hsn. generalize (map stringify_key (map fst d)).
      induction l as [|x r IH]; intros H; [reflexivity|]. inversion H; subst.
      cbn [nodup_b]. rewrite IH by assumption. apply smem_notin in H2. rewrite H2. reflexivity. }
    rewrite Hn'. cbn [andb negb].
    unfold sd. rewrite forallb_forall in *. intros kv Hin. apply in_map_iff in Hin.
    destruct Hin as (kv0 & <- & Hin). cbn [snd]. apply Hv, Hin.
Qed.

(* ================= the tree handed to the printer has sorted members ================= *)
Lemma scalar_j_sorted x : jsorted (scalar_j x) = true.
Proof. destruct x; reflexivity. Qed.

Lemma encode_sorted : forall v, wfb v = true -> jsorted (encode C v) = true.
Proof.
  induction v as [| | | | |l IH|l IH|dt x|dt sh lay el] using pyval_rect'; intros Hw; try reflexivity.
  - cbn [encode jsorted wfb] in *. rewrite forallb_forall in *. intros t Ht.
    apply in_map_iff in Ht. destruct Ht as (x & <- & Hx). rewrite Forall_forall in IH. apply IH; auto.
  - cbn [encode jsorted wfb] in *.
    repeat (apply andb_true_iff in Hw; destruct Hw as [Hw ?]).
    rewrite map_map. cbn [fst].
    change (map (fun x : string * pyval => fst x) l) with (map fst l).
    match goal with H : sorted_b _ = true |- _ => rewrite H end. cbn [andb].
    rewrite forallb_forall in *. intros t Ht. apply in_map_iff in Ht. destruct Ht as (x & <- & Hx).
    cbn [snd]. rewrite Forall_forall in IH. apply IH; auto.
  - cbn [encode]. apply scalar_j_sorted.
  - cbn [encode]. destruct (small1d sh).
    + cbn [jsorted]. rewrite forallb_forall. intros t Ht. apply in_map_iff in Ht.
      destruct Ht as (x & <- & _). apply scalar_j_sorted.
    + cbn [jsorted map fst snd forallb]. change (sorted_b [k_ndarray; k_dtype; k_shape]) with true.
      cbn [andb]. rewrite andb_true_r. rewrite forallb_forall. intros t Ht.
      apply in_map_iff in Ht. destruct Ht as (x & <- & _). reflexivity.
Qed.

Lemma save_sorted d : wf_top_b d = true -> jsorted (save_json C d) = true.
Proof.
  intros Hw. pose proof Hw as Hw0. unfold wf_top_b in Hw.
  repeat (apply andb_true_iff in Hw; destruct Hw as [Hw ?]).
  rename Hw into Hnd. rename H1 into Hok. rename H0 into Hsort. rename H into Hv.
  apply key_nodup_b_NoDup in Hnd.
  assert (Hsn : NoDup (map stringify_key (map fst d))) by (apply stringified_nodup; assumption).
  unfold save_json.
  set (sd := map (fun kv => (stringify_key (fst kv), snd kv)) d).
  assert (Hfst : map fst sd = map stringify_key (map fst d)).
  { unfold sd. rewrite !map_map. reflexivity. }
  rewrite (dict_of_list_nodup String.eqb seqb_sound) by (rewrite Hfst; exact Hsn).
  cbn [encode jsorted]. rewrite map_map. cbn [fst snd].
  replace (map (fun x : string * pyval => fst x) sd) with (map (fun kv : key * pyval => stringify_key (fst kv)) d)
    by (unfold sd; rewrite map_map; reflexivity).
  rewrite Hsort. cbn [andb]. rewrite forallb_forall. intros t Ht.
  apply in_map_iff in Ht. destruct Ht as (x & <- & Hx). cbn [snd].
  unfold sd in Hx. apply in_map_iff in Hx. destruct Hx as (kv & <- & Hin). cbn [snd].
  apply encode_sorted. rewrite forallb_forall in Hv. apply Hv, Hin.
Qed.

Section WithText.
Context {T : Type}.
Variable L : textlayer T.
Hypothesis HL : Text_OK L.

Theorem load_save_text : forall d, wf_top_b d = true ->
  load_json_text C L (save_json_text C L d) = Some (normalise_top d).
Proof.
  intros d Hw. unfold load_json_text, save_json_text.
  rewrite (text_ne L HL), (text_rt L HL) by (apply save_sorted, Hw).
  apply load_save, Hw.
Qed.
End WithText.
End WithCodec.

(* ================= the key set, declaratively ================= *)
(* the strings _intify_keys turns into integers are exactly: an optional "-" followed by one or more
   ASCII digits *)
Lemma isdigit_iff l : isdigit l = true <-> l <> [] /\ forallb is_digit l = true.
Proof.
  unfold isdigit. destruct l as [|c r]; split.
  - discriminate.
  - intros [H _]. congruence.
  - intros H. split; [discriminate|exact H].
  - intros [_ H]. exact H.
Qed.

Lemma int_like_iff s : int_like s = true <->
  exists (neg : bool) ds, ds <> [] /\ forallb is_digit ds = true /\ s2l s = if neg then ch_minus :: ds else ds.
Proof.
  unfold int_like, intify_key. split.
  - destruct (isdigit (s2l s)) eqn:E.
    + intros _. apply isdigit_iff in E. exists false, (s2l s). tauto.
    + destruct (s2l s) as [|c r] eqn:El; [discriminate|].
      destruct (Ascii.eqb c ch_minus) eqn:Ec; [|discriminate]. cbn [andb].
      destruct (isdigit r) eqn:Er; [|discriminate]. intros _.
      apply Ascii.eqb_eq in Ec. subst c. apply isdigit_iff in Er. exists true, r. tauto.
  - intros (neg & ds & H1 & H2 & H3). rewrite H3. destruct neg.
    + replace (isdigit (ch_minus :: ds)) with false by reflexivity.
      rewrite Ascii.eqb_refl, (proj2 (isdigit_iff ds)) by tauto. reflexivity.
    + rewrite (proj2 (isdigit_iff ds)) by tauto. reflexivity.
Qed.
