(* C18/ProofsSpec.v -- the boolean checkers the correspondence runs on observed outputs imply the
   declarative statements (JSON clauses 21 / 22, parameter files clause 27). *)
From Coq Require Import ZArith List Bool String Ascii Lia ZifyBool.
From PV Require Import Base.NpSearch C18.Model C18.Spec C18.Proofs C18.ProofsJson.
Import ListNotations.
Open Scope Z_scope.

Lemma list_eqb_sound {A} (eqb : A -> A -> bool) (a b : list A) :
  (forall x y, In x a -> eqb x y = true -> x = y) -> list_eqb eqb a b = true -> a = b.
Proof.
  revert b. induction a as [|x a IH]; intros [|y b] Hs H; try discriminate; [reflexivity|].
  cbn [list_eqb] in H. apply andb_true_iff in H. destruct H as [H1 H2].
  f_equal; [apply Hs; [left; reflexivity|exact H1]|].
  apply IH; [|exact H2]. intros u v Hu. apply Hs. right. exact Hu.
Qed.

Lemma ftok_eqb_sound a b : ftok_eqb a b = true -> a = b.
Proof.
  destruct a as [n m e| |n], b as [n' m' e'| |n']; cbn [ftok_eqb]; intros H; try discriminate; try reflexivity.
  - repeat (apply andb_true_iff in H; destruct H as [H ?]). apply eqb_prop in H. subst. f_equal; lia.
  - apply eqb_prop in H. subst. reflexivity.
Qed.
Lemma scalar_eqb_sound a b : scalar_eqb a b = true -> a = b.
Proof.
  destruct a, b; cbn [scalar_eqb]; intros H; try discriminate.
  - apply eqb_prop in H. subst. reflexivity.
  - f_equal. lia.
  - f_equal. apply ftok_eqb_sound, H.
Qed.
Lemma dtype_eqb_sound a b : dtype_eqb a b = true -> a = b.
Proof. destruct a as [[] []], b as [[] []]; intros H; try discriminate H; reflexivity. Qed.
Lemma zl_eqb_sound a b : zl_eqb a b = true -> a = b.
Proof.
  revert b. induction a as [|x a IH]; intros [|y b] H; try discriminate; [reflexivity|].
  cbn [zl_eqb] in H. apply andb_true_iff in H. destruct H as [H1 H2]. f_equal; [lia|apply IH, H2].
Qed.
Lemma layout_eqb_sound a b : layout_eqb a b = true -> a = b.
Proof. destruct a, b; intros H; try discriminate H; reflexivity. Qed.

Lemma pyval_eqb_sound : forall a w, pyval_eqb a w = true -> a = w.
Proof.
  induction a as [| | | | |l IH|l IH|dt x|dt sh lay el] using pyval_rect'; intros w H;
    destruct w; cbn [pyval_eqb] in H; try discriminate H.
  - reflexivity.
  - apply eqb_prop in H. subst. reflexivity.
  - f_equal. lia.
  - f_equal. apply ftok_eqb_sound, H.
  - f_equal. apply String.eqb_eq, H.
  - f_equal. revert l0 H. induction IH as [|u l Hu _ IHl]; intros [|v l0] H; try discriminate; [reflexivity|].
    apply andb_true_iff in H. destruct H as [H1 H2]. f_equal; [apply Hu, H1|apply IHl, H2].
  - f_equal. revert l0 H. induction IH as [|[k u] l Hu _ IHl]; intros [|[k' v] l0] H; try discriminate; [reflexivity|].
    apply andb_true_iff in H. destruct H as [H1 H2]. apply andb_true_iff in H1. destruct H1 as [H0 H1].
    apply String.eqb_eq in H0. subst. cbn [snd] in Hu. rewrite (Hu v H1). f_equal. apply IHl, H2.
  - apply andb_true_iff in H. destruct H as [H1 H2]. apply dtype_eqb_sound in H1. apply scalar_eqb_sound in H2.
    subst. reflexivity.
  - apply andb_true_iff in H. destruct H as [H H0]. apply andb_true_iff in H. destruct H as [H H1].
    apply andb_true_iff in H. destruct H as [H H2].
    apply dtype_eqb_sound in H. apply zl_eqb_sound in H2. apply layout_eqb_sound in H1.
    apply (list_eqb_sound scalar_eqb) in H0; [|intros; apply scalar_eqb_sound; assumption]. subst. reflexivity.
Qed.

Lemma split_eq {A B} (a b : list (A * B)) : map fst a = map fst b -> map snd a = map snd b -> a = b.
Proof.
  revert b. induction a as [|[x y] a IH]; intros [|[x' y'] b] H1 H2; try discriminate; [reflexivity|].
  cbn [map fst snd] in *. inversion H1. inversion H2. subst. f_equal. apply IH; assumption.
Qed.

(* clauses 21 and 22 together say: the loaded dictionary is the saved one, values normalised *)
Theorem json_checker_sound d out :
  json_keys_b d out = true -> json_vals_b d out = true -> out = normalise_top d.
Proof.
  unfold json_keys_b, json_vals_b. intros H1 H2.
  apply list_eqb_sound in H1; [|intros; apply key_eqb_sound; assumption].
  apply list_eqb_sound in H2; [|intros; apply pyval_eqb_sound; assumption].
  apply split_eq; unfold normalise_top; rewrite map_map; cbn [fst snd]; assumption.
Qed.

(* clause 27: the parameter dictionary read back is the written one *)
Theorem py_checker_sound d out : py_spec_b d out = true -> out = d.
Proof.
  unfold py_spec_b. intros H. apply list_eqb_sound in H; [exact H|].
  intros [k u] [k' v] _ E. cbn [fst snd] in E. apply andb_true_iff in E. destruct E as [E1 E2].
  apply String.eqb_eq in E1. apply pyval_eqb_sound in E2. subst. reflexivity.
Qed.

(* ================= tables: clauses 24 and 25 on an observed output ================= *)
(* Row_Spec with observed cells: floats are observed as binary64 tokens and matched against the
   expected decimal by cell_match (exact for int / str / nan / inf, half-ulp test for decimals) *)
Definition Row_Obs (first : option string) (excl : list string) (n : Z) (r : row)
           (o : list (string * cell)) : Prop :=
  NoDup (map fst o) /\
  (forall k, ocell_match (if smem k excl then None
                          else match lookup String.eqb k r with Some v => expected n v | None => None end)
                         (lookup String.eqb k o) = true) /\
  (forall f, first = Some f -> In f (map fst o) -> exists t', map fst o = f :: t').

Lemma row_checker_sound first excl n r o :
  row_spec_b excl n r o = true -> first_b first [o] = true -> Row_Obs first excl n r o.
Proof.
  unfold row_spec_b. intros H Hf. apply andb_true_iff in H. destruct H as [H1 H2].
  split; [apply nodup_b_NoDup, H1|]. split.
  - intros k. destruct (in_dec string_dec k (map fst r ++ map fst o)) as [Hin|Hnot].
    + rewrite forallb_forall in H2. apply (H2 k Hin).
    + assert (Hr : ~ In k (map fst r)) by (intros Hk; apply Hnot, in_or_app; left; exact Hk).
      assert (Ho : ~ In k (map fst o)) by (intros Hk; apply Hnot, in_or_app; right; exact Hk).
      rewrite (lookup_notin String.eqb seqb_sound k r Hr), (lookup_notin String.eqb seqb_sound k o Ho).
      destruct (smem k excl); reflexivity.
  - intros f -> Hin. cbn [first_b forallb] in Hf. rewrite andb_true_r in Hf.
    apply smem_in in Hin. rewrite Hin in Hf. cbn [negb orb] in Hf.
    destruct o as [|[k c] t]; [discriminate|]. apply String.eqb_eq in Hf. subst. cbn [map fst]. eexists; reflexivity.
Qed.

Lemma first_b_cons first o out : first_b first (o :: out) = first_b first [o] && first_b first out.
Proof. destruct first; [|reflexivity]. cbn [first_b forallb]. rewrite andb_true_r. reflexivity. Qed.

Theorem rows_checker_sound first excl n : forall rows out,
  rows_spec_b excl n rows out = true -> first_b first out = true -> Forall2 (Row_Obs first excl n) rows out.
Proof.
  induction rows as [|r rows IH]; intros [|o out] H Hf; try discriminate; [constructor|].
  cbn [rows_spec_b] in H. apply andb_true_iff in H. destruct H as [H1 H2].
  rewrite first_b_cons in Hf. apply andb_true_iff in Hf. destruct Hf as [Hf1 Hf2].
  constructor; [apply row_checker_sound; assumption|apply IH; assumption].
Qed.

(* ================= completeness: the declarative statements imply the boolean clauses ================= *)
Lemma list_eqb_refl {A} (eqb : A -> A -> bool) (a : list A) :
  (forall x, In x a -> eqb x x = true) -> list_eqb eqb a a = true.
Proof.
  induction a as [|x a IH]; intros H; [reflexivity|]. cbn [list_eqb].
  rewrite (H x (or_introl eq_refl)). apply IH. intros y Hy. apply H. right. exact Hy.
Qed.
Lemma ftok_eqb_refl a : ftok_eqb a a = true.
Proof. destruct a as [n m e| |n]; cbn [ftok_eqb]; [|reflexivity|apply eqb_reflx]. rewrite eqb_reflx, !Z.eqb_refl. reflexivity. Qed.
Lemma scalar_eqb_refl a : scalar_eqb a a = true.
Proof. destruct a; cbn [scalar_eqb]; [apply eqb_reflx|apply Z.eqb_refl|apply ftok_eqb_refl]. Qed.
Lemma dtype_eqb_refl a : dtype_eqb a a = true.
Proof. destruct a as [[] []]; reflexivity. Qed.
Lemma zl_eqb_refl a : zl_eqb a a = true.
Proof. induction a as [|x a IH]; [reflexivity|]. cbn [zl_eqb]. rewrite Z.eqb_refl. exact IH. Qed.
Lemma layout_eqb_refl a : layout_eqb a a = true.
Proof. destruct a; reflexivity. Qed.

Lemma pyval_eqb_refl : forall a, pyval_eqb a a = true.
Proof.
  induction a as [| | | | |l IH|l IH|dt x|dt sh lay el] using pyval_rect'; cbn [pyval_eqb].
  - reflexivity.
  - apply eqb_reflx.
  - apply Z.eqb_refl.
  - apply ftok_eqb_refl.
  - apply String.eqb_refl.
  - induction IH as [|u l Hu _ IHl]; [reflexivity|]. rewrite Hu. exact IHl.
  - induction IH as [|[k u] l Hu _ IHl]; [reflexivity|]. cbn [snd] in Hu. rewrite String.eqb_refl, Hu. exact IHl.
  - rewrite dtype_eqb_refl, scalar_eqb_refl. reflexivity.
  - rewrite dtype_eqb_refl, zl_eqb_refl, layout_eqb_refl. cbn [andb].
    apply list_eqb_refl. intros; apply scalar_eqb_refl.
Qed.

Theorem json_checker_complete d :
  json_keys_b d (normalise_top d) = true /\ json_vals_b d (normalise_top d) = true.
Proof.
  unfold json_keys_b, json_vals_b, normalise_top. rewrite !map_map. cbn [fst snd]. split.
  - apply list_eqb_refl. intros; apply key_eqb_refl.
  - apply list_eqb_refl. intros; apply pyval_eqb_refl.
Qed.

Theorem py_checker_complete d : py_spec_b d d = true.
Proof.
  unfold py_spec_b. apply list_eqb_refl. intros x _. rewrite String.eqb_refl, pyval_eqb_refl. reflexivity.
Qed.

Lemma NoDup_nodup_b l : NoDup l -> nodup_b l = true.
Proof.
  induction 1 as [|x l Hx _ IH]; [reflexivity|]. cbn [nodup_b]. rewrite IH, andb_true_r.
  apply negb_true_iff. apply smem_notin. exact Hx.
Qed.

Lemma row_checker_complete first excl n r o :
  Row_Obs first excl n r o -> row_spec_b excl n r o = true /\ first_b first [o] = true.
Proof.
  intros (H1 & H2 & H3). split.
  - unfold row_spec_b. rewrite (NoDup_nodup_b _ H1). cbn [andb]. apply forallb_forall. intros k _. apply H2.
  - destruct first as [f|]; [|reflexivity]. cbn [first_b forallb]. rewrite andb_true_r.
    destruct (smem f (map fst o)) eqn:E; [|reflexivity]. cbn [negb orb].
    apply smem_in in E. destruct (H3 f eq_refl E) as (t' & Et). destruct o as [|[k c] t]; [discriminate Et|].
    cbn [map fst] in Et. injection Et as -> _. apply String.eqb_refl.
Qed.

Theorem rows_checker_complete first excl n : forall rows out,
  Forall2 (Row_Obs first excl n) rows out -> rows_spec_b excl n rows out = true /\ first_b first out = true.
Proof.
  induction 1 as [|r o rows out Hr _ IH]; [split; [reflexivity|destruct first; reflexivity]|].
  destruct (row_checker_complete first excl n r o Hr) as [A B]. destruct IH as [C D].
  cbn [rows_spec_b]. rewrite A, C, first_b_cons, B, D. split; reflexivity.
Qed.

(* ---- two-column tables: clause 26 on an observed output, as a statement and back ---- *)
Definition Simple_Obs (field : string) (data : list (Z * value)) (of : string) (out : list (Z * cell)) : Prop :=
  of = field /\ NoDup (map fst out) /\
  forall id, ocell_match (option_map expected_raw (lookup Z.eqb id data)) (lookup Z.eqb id out) = true.

Lemma zmem_in x l : zmem x l = true <-> In x l.
Proof.
  induction l as [|y l IH]; [split; [discriminate|intros []]|]. cbn [zmem In]. rewrite orb_true_iff, IH.
  split; intros [H|H]; auto; [left; lia|left; lia].
Qed.
Lemma znodup_b_iff l : znodup_b l = true <-> NoDup l.
Proof.
  induction l as [|x l IH]; [split; [constructor|reflexivity]|]. cbn [znodup_b]. rewrite andb_true_iff, negb_true_iff, IH.
  split.
  - intros [H1 H2]. constructor; [|exact H2]. intros Hin. apply zmem_in in Hin. congruence.
  - intros H. inversion H as [|? ? Hx Hl]; subst. split; [|exact Hl].
    destruct (zmem x l) eqn:E; [|reflexivity]. apply zmem_in in E. contradiction.
Qed.
Lemma zeqb_sound' a b : Z.eqb a b = true -> a = b.
Proof. lia. Qed.

Theorem simple_checker_iff field data of out :
  simple_spec_b field data of out = true <-> Simple_Obs field data of out.
Proof.
  unfold simple_spec_b, Simple_Obs. rewrite !andb_true_iff, String.eqb_eq, znodup_b_iff, forallb_forall. split.
  - intros [[H1 H2] H3]. split; [exact H1|]. split; [exact H2|]. intros id.
    destruct (in_dec Z.eq_dec id (map fst data ++ map fst out)) as [Hin|Hnot]; [apply H3, Hin|].
    assert (Hd : ~ In id (map fst data)) by (intros Hk; apply Hnot, in_or_app; left; exact Hk).
    assert (Ho : ~ In id (map fst out)) by (intros Hk; apply Hnot, in_or_app; right; exact Hk).
    rewrite (lookup_notin Z.eqb zeqb_sound' id data Hd), (lookup_notin Z.eqb zeqb_sound' id out Ho). reflexivity.
  - intros (H1 & H2 & H3). split; [split; assumption|]. intros id _. apply H3.
Qed.
