(* C18/Props.v -- the property theorems, and nothing else.  Each is closed by [exact] of a lemma of
   Proofs*.v and followed by Print Assumptions.  The oracles (JSON text layer, base64 / buffers, csv
   text layer, repr(float) / float()) are universally quantified records; the hypotheses Codec_OK,
   Text_OK, Csv_OK, Float_OK (Spec.v) are everything that is assumed about them. *)
From Coq Require Import ZArith List Bool String Ascii Lia.
From PV Require Import Base.NpSearch Base.NpSort C18.Model C18.Spec C18.Ref C18.Lim C18.Proofs C18.ProofsJson C18.ProofsNum
                       C18.ProofsTsv C18.ProofsPy C18.ProofsPy2 C18.ProofsRef C18.ProofsSpec C18.ProofsLim.
Import ListNotations.
Open Scope Z_scope.

(* ------------------------------------------------------------------------------------------------ *)
(* JSON                                                                                             *)
(* ------------------------------------------------------------------------------------------------ *)

(* _intify_keys . _stringify_keys is the identity on the key set of the reading: every integer
   (negative ones included) and every string that is not an optionally signed digit string *)
Theorem C18_keys : forall k, key_ok k = true -> intify_key (stringify_key k) = k.
Proof. exact intify_stringify. Qed.
Print Assumptions C18_keys.

(* hence stringification never merges two keys of a dictionary *)
Theorem C18_keys_injective : forall a b, key_ok a = true -> key_ok b = true ->
  stringify_key a = stringify_key b -> a = b.
Proof.
  intros a b Ha Hb E. rewrite <- (intify_stringify a Ha), <- (intify_stringify b Hb), E. reflexivity.
Qed.
Print Assumptions C18_keys_injective.

(* that excluded set is, declaratively: an optional "-" followed by one or more ASCII digits *)
Theorem C18_key_set : forall s, int_like s = true <->
  exists (neg : bool) ds, ds <> [] /\ forallb is_digit ds = true /\ s2l s = if neg then ch_minus :: ds else ds.
Proof. exact int_like_iff. Qed.
Print Assumptions C18_key_set.

(* str(dtype) names the dtype: np.dtype(str(dt)) = dt for every numeric dtype in either byte order *)
Theorem C18_dtype_name : forall dt, dtype_ok dt = true -> dtype_of_name (dtype_name dt) = Some dt.
Proof. exact dtype_name_inv. Qed.
Print Assumptions C18_dtype_name.

(* every well-formed value decodes from its encoding as its normal form, for every codec whose base64
   and buffer functions round-trip: structural induction over None, bool, int, float, str, lists,
   nested dictionaries, NumPy scalars and arrays of every dtype, shape and memory layout *)
Theorem C18_json : forall (C : codec), Codec_OK C ->
  forall v, wfb v = true -> decode C (encode C v) = Some (normalise v).
Proof. exact decode_encode. Qed.
Print Assumptions C18_json.

(* the array clauses of the statement, spelled out: an array that is not 1-D with <= 10 items keeps
   dtype, shape and (C-order) values whatever its layout; a 1-D array of <= 10 items is an equal list *)
Theorem C18_json_array : forall (C : codec), Codec_OK C -> forall dt shape lay el,
  wfb (PArr dt shape lay el) = true ->
  decode C (encode C (PArr dt shape lay el)) =
  Some (if small1d shape then PList (map scalar_py el) else PArr dt shape LC el).
Proof. intros C HC dt shape lay el H. rewrite (decode_encode C HC _ H). reflexivity. Qed.
Print Assumptions C18_json_array.

(* save_json then load_json on the JSON tree: keys (integers as integers) and normal forms of the values *)
Theorem C18_json_top : forall (C : codec), Codec_OK C ->
  forall d, wf_top_b d = true -> load_json C (save_json C d) = Some (normalise_top d).
Proof. exact load_save. Qed.
Print Assumptions C18_json_top.

(* the same through the file text, for every text layer that parses what it printed *)
Theorem C18_json_file : forall (C : codec), Codec_OK C -> forall (T : Type) (L : textlayer T), Text_OK L ->
  forall d, wf_top_b d = true -> load_json_text C L (save_json_text C L d) = Some (normalise_top d).
Proof. intros C HC T L HL. exact (load_save_text C HC L HL). Qed.
Print Assumptions C18_json_file.

(* the text layer is only ever asked about trees whose object members are in sorted key order, on
   which sort_keys=True is the identity *)
Theorem C18_json_sorted : forall (C : codec) d, wf_top_b d = true -> jsorted (save_json C d) = true.
Proof. exact save_sorted. Qed.
Print Assumptions C18_json_sorted.

(* the boolean clauses 21 + 22 the correspondence evaluates on phylib's observed output say exactly
   that the loaded dictionary is the saved one with normalised values *)
Theorem C18_json_checker_sound : forall d out,
  json_keys_b d out = true -> json_vals_b d out = true -> out = normalise_top d.
Proof. exact json_checker_sound. Qed.
Print Assumptions C18_json_checker_sound.

(* and conversely (completeness of the checker): the dictionary the specification demands passes both clauses *)
Theorem C18_json_checker_complete : forall d,
  json_keys_b d (normalise_top d) = true /\ json_vals_b d (normalise_top d) = true.
Proof. exact json_checker_complete. Qed.
Print Assumptions C18_json_checker_complete.

(* ------------------------------------------------------------------------------------------------ *)
(* tables                                                                                           *)
(* ------------------------------------------------------------------------------------------------ *)

(* str(int) reads back as that int; '%.nf' % x reads back as a float: the decimal literal
   round_half_even(|x| * 10^n) * 10^-n with the sign of x (nan / inf by name), never as an int *)
Theorem C18_int_text : forall z, try_make_number (CT (l2s (show_int z))) = OInt z.
Proof. exact try_number_int. Qed.
Print Assumptions C18_int_text.

Theorem C18_float_text : forall n f, 1 <= n -> (match f with FFin _ m _ => 0 <= m | _ => True end) ->
  try_make_number (CT (l2s (fmt n f))) =
  match f with
  | FFin neg m e => ODec neg (scaled n m e) (- n)
  | FNaN => ONaN
  | FInf neg => OInf neg
  end.
Proof. exact try_number_float. Qed.
Print Assumptions C18_float_text.

(* "to the written precision": the written mantissa is a nearest integer to |x| * 10^n, ties to even *)
Theorem C18_rounding : forall num den, 0 < den -> 0 <= num ->
  2 * Z.abs (rhe num den * den - num) <= den /\
  (2 * Z.abs (rhe num den * den - num) = den -> Z.even (rhe num den) = true).
Proof. intros num den H1 H2. split; [apply rhe_nearest|apply rhe_tie_even]; assumption. Qed.
Print Assumptions C18_rounding.

(* a non-numeric string (one that int() and float() both reject, non-empty) is left unchanged *)
Theorem C18_nonnumeric : forall s, nonnumeric s = true -> try_make_number (CT s) = OStr s.
Proof.
  intros s H. unfold nonnumeric in H. apply andb_true_iff in H. destruct H as [_ H].
  cbn [try_make_number]. destruct (py_int (s2l s)); [discriminate|]. destruct (py_float (s2l s)); [discriminate|].
  reflexivity.
Qed.
Print Assumptions C18_nonnumeric.

(* write_tsv then read_tsv, >= 2 columns, either delimiter, any first_field / exclude_fields,
   n >= 1 digits, rows with missing fields, None values and fully empty rows, string cells with the
   other delimiter or quotes: every row reads back as a dictionary with distinct keys, holding
   exactly the non-None, non-excluded fields of the written row with integer / float-to-precision /
   string values, the requested first field first *)
Theorem C18_tsv : forall (T : Type) (V : csvlayer T), Csv_OK V ->
  forall dl first excl n rows,
  1 <= n -> forallb row_ok rows = true -> 2 <= zlen (fields_of first excl rows) ->
  exists out, read_tsv V (write_tsv V dl first excl n rows) = Some out /\ Rows_Spec first excl n rows out.
Proof. intros T V HV. exact (read_write_tsv V HV). Qed.
Print Assumptions C18_tsv.

(* the header: distinct fields; exactly the non-excluded fields of the rows; first_field first *)
Theorem C18_tsv_fields : forall first excl rows,
  NoDup (fields_of first excl rows) /\
  (forall k, In k (fields_of first excl rows) <->
             (exists r, In r rows /\ In k (map fst r)) /\ smem k excl = false) /\
  (forall f, first = Some f -> In f (fields_of first excl rows) -> exists t, fields_of first excl rows = f :: t).
Proof.
  intros first excl rows. split; [apply fields_nodup|]. split; [apply fields_in|apply fields_first].
Qed.
Print Assumptions C18_tsv_fields.

(* clauses 24 + 25 evaluated on phylib's observed rows say: every observed row is a dictionary with
   distinct keys that agrees with the written row on EVERY field name (absent / None / excluded
   omitted, values matching the expected cell), the requested first column first *)
Theorem C18_tsv_checker_sound : forall first excl n rows out,
  rows_spec_b excl n rows out = true -> first_b first out = true -> Forall2 (Row_Obs first excl n) rows out.
Proof. exact rows_checker_sound. Qed.
Print Assumptions C18_tsv_checker_sound.

(* conversely: rows that satisfy the statement pass clauses 24 and 25 *)
Theorem C18_tsv_checker_complete : forall first excl n rows out,
  Forall2 (Row_Obs first excl n) rows out -> rows_spec_b excl n rows out = true /\ first_b first out = true.
Proof. exact rows_checker_complete. Qed.
Print Assumptions C18_tsv_checker_complete.

(* two-column cluster tables with arbitrary (also negative) distinct ids and int / float /
   non-numeric string values: field name, ids and values read back -- a float x as a float()-typed
   cell whose double is x (Cell_Is), for every repr / float() pair that round-trips (Float_OK: the text
   of repr(x) is a float literal that converts to x again, int() rejects it, float characters only) *)
Theorem C18_tsv_simple : forall (T : Type) (V : csvlayer T), Csv_OK V -> forall F : floatlayer, Float_OK F ->
  forall dl field data,
  znodup_b (map fst data) = true -> forallb (fun kv => simple_value_ok (snd kv)) data = true ->
  no_tab field = true -> str_csv_ok field = true ->
  exists out, read_simple V (write_simple V F dl field data) = Some out /\ Simple_Spec F field data out.
Proof. intros T V HV F HF. exact (read_write_simple V HV F HF). Qed.
Print Assumptions C18_tsv_simple.

(* clause 26 on an observed table is exactly: same field name, distinct ids, every id of either side
   agrees (integers / strings equal, floats the same double) -- soundness and completeness *)
Theorem C18_simple_checker_iff : forall field data of out,
  simple_spec_b field data of out = true <-> Simple_Obs field data of out.
Proof. exact simple_checker_iff. Qed.
Print Assumptions C18_simple_checker_iff.

(* ------------------------------------------------------------------------------------------------ *)
(* CPython's int_max_str_digits (4300): the bound as a guard                                         *)
(* ------------------------------------------------------------------------------------------------ *)
(* for |z| < 10^4300 the limited str() / int() are the unlimited ones of the theorems above and
   round-trip; the guard is exactly "str(|z|) has at most 4300 digits" *)
Theorem C18_int_limit : forall z, Z.abs z < 10 ^ 4300 ->
  str_int_lim 4300 z = Some (show_int z) /\
  py_int_lim 4300 (show_int z) = Some z /\
  try_make_number_lim 4300 (CT (l2s (show_int z))) = OInt z.
Proof. intros z H. apply int_limit_ok. unfold int_in_limit, int_max_str_digits. apply Z.ltb_lt, H. Qed.
Print Assumptions C18_int_limit.

(* beyond it str() raises ValueError (save_json, write_tsv, _write_tsv_simple, write_python all fail
   before anything can be read back) and int() rejects the literal *)
Theorem C18_int_limit_exceeded : forall z, 10 ^ 4300 <= Z.abs z ->
  str_int_lim 4300 z = None /\ py_int_lim 4300 (show_int z) = None.
Proof. intros z H. apply int_limit_exceeded. unfold int_in_limit, int_max_str_digits. apply Z.ltb_ge, H. Qed.
Print Assumptions C18_int_limit_exceeded.

Theorem C18_int_digits : forall n k, 0 <= n -> 1 <= k -> (zlen (show_nat n) <=? k) = (n <? 10 ^ k).
Proof. exact show_nat_len. Qed.
Print Assumptions C18_int_digits.

(* _try_make_number with the limit types a text like the unlimited one whenever the integer literal
   (if the text is one) has at most lim digits; lim = 0 (limit off) always *)
Theorem C18_number_limit_agree : forall lim s, over_limit lim (int_digits (s2l s)) = false ->
  try_make_number_lim lim (CT s) = try_make_number (CT s).
Proof. exact try_number_lim_agree. Qed.
Print Assumptions C18_number_limit_agree.

(* every cell write_tsv / _write_tsv_simple produce from a value within the guard is written and typed
   under the limit exactly as in C18_tsv / C18_tsv_simple *)
Theorem C18_cell_limit : forall n v, 1 <= n -> value_ok v = true -> value_in_limit v = true ->
  render_lim 4300 n v = Some (render n v) /\
  try_make_number_lim 4300 (render n v) = try_make_number (render n v).
Proof. exact render_lim_ok. Qed.
Print Assumptions C18_cell_limit.

Theorem C18_cell_raw_limit : forall F v, Float_OK F -> simple_value_ok v = true -> value_in_limit v = true ->
  render_raw_lim F 4300 v = Some (render_raw F v) /\
  try_make_number_lim 4300 (render_raw F v) = try_make_number (render_raw F v).
Proof. exact render_raw_lim_ok. Qed.
Print Assumptions C18_cell_raw_limit.

(* ------------------------------------------------------------------------------------------------ *)
(* parameter files                                                                                  *)
(* ------------------------------------------------------------------------------------------------ *)

(* evaluating repr(s) gives s, for every string: quotes, backslashes, line breaks, control characters *)
Theorem C18_python_repr : forall s : list ascii, eval_str_lit (repr_str s) = Some s.
Proof. exact eval_repr_str. Qed.
Print Assumptions C18_python_repr.

(* and repr(s) has no raw line break: each assignment stays on its own line *)
Theorem C18_python_one_line : forall s : list ascii,
  forallb (fun c => negb ((code c =? 10) || (code c =? 13))) (repr_str s) = true.
Proof. exact repr_str_one_line. Qed.
Print Assumptions C18_python_one_line.

(* str() / repr() of a parameter value, modelled on characters, evaluates (exec, modelled on characters)
   to the value: None, bool, int, finite float (through the float oracle), str, nested lists and
   string-keyed dictionaries *)
Theorem C18_python_text : forall F : floatlayer, Float_OK F -> forall v,
  plain v = true -> pfloat_ok v = true -> wfb v = true -> eval_expr F (py_repr F v) = Some v.
Proof. intros F HF v H1 H2 H3. apply (eval_expr_repr F HF). repeat split; assumption. Qed.
Print Assumptions C18_python_text.

(* inside a larger text: the evaluator consumes exactly the text of the value, whatever follows it
   (a token end), with fuel = the length of the text *)
Theorem C18_python_text_prefix : forall F : floatlayer, Float_OK F -> forall v rest fuel,
  plain v = true -> pfloat_ok v = true -> wfb v = true ->
  (List.length (py_repr F v) <= fuel)%nat -> rest_ok rest ->
  ev F fuel (py_repr F v ++ rest) = Some (v, rest).
Proof. intros F HF v rest fuel H1 H2 H3. apply (ev_repr F HF). repeat split; assumption. Qed.
Print Assumptions C18_python_text_prefix.

(* no right-hand side has a raw line break: every assignment is one line of the file *)
Theorem C18_python_rhs_one_line : forall F : floatlayer, Float_OK F -> forall v, pfloat_ok v = true ->
  forallb (fun c => negb ((code c =? 10) || (code c =? 13))) (py_repr F v) = true.
Proof. intros F HF. exact (py_repr_one_line F HF). Qed.
Print Assumptions C18_python_rhs_one_line.

(* the literal evaluator used inside lists / dictionaries (lit_rest) is the one of C18_python_repr
   (lit_body) without the requirement that the text ends after the closing quote *)
Theorem C18_python_literal_agree : forall q l,
  lit_body q l = match lit_rest q l with Some (s, []) => Some s | _ => None end.
Proof. exact lit_body_is_lit_rest. Qed.
Print Assumptions C18_python_literal_agree.

(* read_python (write_python d) = d for dictionaries over lower-case identifier keys and None, bool,
   int, finite float, str (any characters), lists and string-keyed dictionaries of these *)
Theorem C18_python : forall F : floatlayer, Float_OK F ->
  forall d, py_ok d = true -> read_python F (write_python F d) = Some d.
Proof. intros F HF. exact (read_write_python F HF). Qed.
Print Assumptions C18_python.

(* clause 27 on an observed output says the dictionary read back is the written one *)
Theorem C18_python_checker_sound : forall d out, py_spec_b d out = true -> out = d.
Proof. exact py_checker_sound. Qed.
Print Assumptions C18_python_checker_sound.

Theorem C18_python_checker_complete : forall d, py_spec_b d d = true.
Proof. exact py_checker_complete. Qed.
Print Assumptions C18_python_checker_complete.

(* ------------------------------------------------------------------------------------------------ *)
(* non-vacuity: the oracle hypotheses are satisfiable; concrete non-trivial instances               *)
(* ------------------------------------------------------------------------------------------------ *)
(* the reference oracles of the correspondence (Ref.v, Model.v) satisfy all four hypotheses *)
Theorem C18_oracles_satisfiable : Codec_OK ref_codec /\ Text_OK ref_text /\ Csv_OK ref_csv /\ Float_OK ref_float.
Proof. split; [exact ref_codec_ok|]. split; [exact ref_text_ok|]. split; [exact ref_csv_ok|exact ref_float_ok]. Qed.
Print Assumptions C18_oracles_satisfiable.

(* so the very terms the comparator evaluates (Corr.v, code 1) meet the specification *)
Theorem C18_json_ref : forall d, wf_top_b d = true ->
  load_json_text ref_codec ref_text (save_json_text ref_codec ref_text d) = Some (normalise_top d).
Proof. exact (load_save_text ref_codec ref_codec_ok ref_text ref_text_ok). Qed.
Print Assumptions C18_json_ref.

Theorem C18_tsv_ref : forall dl first excl n rows,
  1 <= n -> forallb row_ok rows = true -> 2 <= zlen (fields_of first excl rows) ->
  exists out, read_tsv ref_csv (write_tsv ref_csv dl first excl n rows) = Some out /\
              Rows_Spec first excl n rows out.
Proof. exact (read_write_tsv ref_csv ref_csv_ok). Qed.
Print Assumptions C18_tsv_ref.

Theorem C18_tsv_simple_ref : forall dl field data,
  znodup_b (map fst data) = true -> forallb (fun kv => simple_value_ok (snd kv)) data = true ->
  no_tab field = true -> str_csv_ok field = true ->
  exists out, read_simple ref_csv (write_simple ref_csv ref_float dl field data) = Some out /\
              Simple_Spec ref_float field data out.
Proof. exact (read_write_simple ref_csv ref_csv_ok ref_float ref_float_ok). Qed.
Print Assumptions C18_tsv_simple_ref.

Theorem C18_python_ref : forall d, py_ok d = true -> read_python ref_float (write_python ref_float d) = Some d.
Proof. exact (read_write_python ref_float ref_float_ok). Qed.
Print Assumptions C18_python_ref.

Open Scope string_scope.
Example C18_ex_keys :
  map (fun k => intify_key (stringify_key k)) [KInt (-12); KInt 0; KInt 340282366920938463463374607431768211456; KStr "-"; KStr "1a"; KStr ""]
  = [KInt (-12); KInt 0; KInt 340282366920938463463374607431768211456; KStr "-"; KStr "1a"; KStr ""].
Proof. vm_compute. reflexivity. Qed.

Example C18_ex_wf :
  wf_top_b [(KInt (-1), PArr (mkdt BI16 true) [3; 4] LF (map SInt [0; 1; 2; 3; 4; 5; 6; 7; 8; 9; 10; 11]));
            (KInt 7, PList [PNone; PNp (mkdt BF32 false) (SFlt (FFin false 1 (-2))); PStr "x"]);
            (KStr "a", PDict [("b", PArr (mkdt BF64 false) [10] LS (map (fun z => SFlt (FFin false z (-3))) [1; 3; 5; 7; 9; 11; 13; 15; 17; 19]))]);
            (KStr "v", PArr (mkdt BU8 false) [11] LR (map SInt [0; 1; 2; 3; 4; 5; 6; 7; 8; 9; 255]))] = true
  /\ wfb (PArr (mkdt BF64 false) [2] LC [SFlt (FFin true 3 (-1)); SFlt FNaN]) = true.
Proof. vm_compute. split; reflexivity. Qed.

Example C18_ex_rows :
  let rows := [[("a", VFloat (FFin true 5 (-19))); ("b", VStr "x,""y""")]; [];
               [("c", VNone); ("a", VInt 3)]; [("b", VFloat (FFin false 3 (-5))); ("a", VFloat FNaN)]] in
  forallb row_ok rows = true /\ fields_of (Some "b") [] rows = ["b"; "a"; "c"] /\
  read_tsv ref_csv (write_tsv ref_csv Comma (Some "b") [] 4 rows) =
  Some [[("b", OStr "x,""y"""); ("a", ODec true 0 (-4))]; [];
        [("a", OInt 3)]; [("b", ODec false 938 (-4)); ("a", ONaN)]].
Proof. vm_compute. repeat split; reflexivity. Qed.

Example C18_ex_simple :
  let data := [(3, VStr "good"); (-2, VFloat (FFin false 1 (-3))); (10, VInt 7); (4, VFloat (FFin true 5 2))] in
  forallb (fun kv => simple_value_ok (snd kv)) data = true /\
  l2s (ref_frepr (FFin false 1 (-3))) = "0.125" /\
  read_simple ref_csv (write_simple ref_csv ref_float Tab "group" data)
  = Some ("group", [(-2, ODec false 125 (-3)); (3, OStr "good"); (4, ODec true 200 (-1)); (10, OInt 7)]) /\
  cell_double ref_float (ODec false 125 (-3)) = Some (FFin false 1 (-3)) /\
  cell_double ref_float (ODec true 200 (-1)) = Some (FFin true 5 2).
Proof. vm_compute. repeat split; reflexivity. Qed.

Example C18_ex_python :
  let d := [("dat_path", PList [PStr "a.dat"; PStr "b ""c"".dat"]); ("n_channels_dat", PInt 384);
            ("note", PStr (l2s (map chr [104; 105; 34; 39; 92; 10; 9; 1; 200])));
            ("offset", PNone); ("probe", PDict [("ids", PList [PInt (-1); PBool true; PList []]); ("x'y", PFloat (FFin true 3 (-1)))]);
            ("sample_rate", PFloat (FFin false 1875 4))] in
  py_ok d = true /\ read_python ref_float (write_python ref_float d) = Some d /\
  l2s (py_repr ref_float (PDict [("ids", PList [PInt (-1); PBool true; PList []]); ("x'y", PFloat (FFin true 3 (-1)))]))
  = "{'ids': [-1, True, []], ""x'y"": -1.5}" /\
  eval_expr ref_float (s2l "[007]") = None /\ eval_expr ref_float (s2l "-inf") = None.
Proof. vm_compute. repeat split; reflexivity. Qed.

(* what the code does outside the statement *)
(* a table without rows has no columns: write_tsv leaves an empty file and read_tsv raises StopIteration *)
Example C18_ex_no_rows : forall dl first excl n, read_tsv ref_csv (write_tsv ref_csv dl first excl n []) = None.
Proof. exact read_write_no_rows_ref. Qed.
(* paths that do not exist: load_json / read_python raise, read_tsv gives [], _read_tsv_simple gives {};
   an empty JSON file loads as {} *)
Example C18_ex_paths :
  load_json_path ref_codec ref_text_e FMissing = None /\
  load_json_path ref_codec ref_text_e (FFile None) = Some [] /\
  read_tsv_path ref_csv FMissing = Some [] /\
  read_simple_path ref_csv FMissing = Some SNoFile /\
  read_python_path ref_float FMissing = None.
Proof. repeat split; reflexivity. Qed.
(* the int_max_str_digits guard at its boundary (the limit as a parameter on a small scale) *)
Example C18_ex_limit :
  over_limit 4300 4300 = false /\ over_limit 4300 4301 = true /\ over_limit 0 99999 = false /\
  str_int_lim 3 (-999) = Some (s2l "-999") /\ str_int_lim 3 1000 = None /\
  py_int_lim 4 (s2l " -1_234 ") = Some (-1234) /\ py_int_lim 3 (s2l " -1_234 ") = None /\
  py_int_lim 3 (s2l "0000") = None /\
  try_make_number_lim 3 (CT "1234") = ODec false 1234 0 /\ try_make_number (CT "1234") = OInt 1234.
Proof. vm_compute. repeat split; reflexivity. Qed.

(* ---- stage 6: free-text cells ------------------------------------------------------------------ *)
(* A string with a mark (a printable ASCII character outside the alphabet of numeric literals) is rejected by
   the model's int() and float() whatever other bytes it holds -- so the second conjunct of nonnumeric decides
   membership without reference to the rest of the text for such strings.  (The model side of the argument
   that CPython rejects them: proved here for the model, trusted for CPython.) *)
Theorem C18_free_text_cell : forall s, nonnumeric s = true -> str_cell_ok s = true ->
  value_ok (VStr s) = true /\ simple_value_ok (VStr s) = true /\ try_make_number (CT s) = OStr s.
Proof.
  intros s H1 H2. cbn [value_ok simple_value_ok]. rewrite H1, H2. repeat split. apply C18_nonnumeric, H1.
Qed.
Print Assumptions C18_free_text_cell.

(* header cells are cells: what the delimiter detection needs (no line break) implies what the transport needs *)
Theorem C18_header_is_cell : forall t, ctext_ok t = true -> ctext_cell_ok t = true.
Proof. exact ctext_csv_cell. Qed.
Print Assumptions C18_header_is_cell.

(* non-vacuity: a label with a line feed, one with CR LF, the line boundaries VT FF FS GS RS next to a mark,
   UTF-8 text (NEL, LS, an accented letter) next to a mark are cells of the reading; FS alone, NEL + digits,
   a NUL are not *)
Example C18_ex_free_text :
  map (fun l => value_ok (VStr (l2s (map chr l))))
      [[100; 114; 105; 102; 116; 115; 10; 97; 102; 116; 101; 114]; [120; 13; 10; 121]; [98; 11; 12; 28; 29; 30];
       [194; 133; 122]; [226; 128; 168; 35]; [99; 97; 102; 195; 169; 33];
       [28]; [194; 133; 49; 50]; [120; 0]]
  = [true; true; true; true; true; true; false; false; false].
Proof. vm_compute. reflexivity. Qed.
Example C18_ex_simple_lf :
  read_simple ref_csv (write_simple ref_csv ref_float Comma "note"
     [(7, VStr (l2s (map chr [100; 10; 97]))); (0, VStr "good")])
  = Some ("note", [(0, OStr "good"); (7, OStr (l2s (map chr [100; 10; 97])))]).
Proof. vm_compute. reflexivity. Qed.
