(* C18/Props.v -- the property theorems, and nothing else. *)
From Coq Require Import ZArith List Bool String Ascii Lia.
From PV Require Import Base.NpSearch C18.Model C18.Spec C18.Proofs.
Import ListNotations.
Open Scope Z_scope.

Theorem C18_dtype_name : forall dt, dtype_ok dt = true -> dtype_of_name (dtype_name dt) = Some dt.
Proof. exact dtype_name_inv. Qed.
Print Assumptions C18_dtype_name.
