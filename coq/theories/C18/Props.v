(* C18/Props.v -- the property theorems, and nothing else. *)
From Coq Require Import ZArith List Bool String Ascii Lia.
From PV Require Import Base.NpSearch C18.Model C18.Spec C18.Proofs.
Import ListNotations.
Open Scope Z_scope.

Theorem C18_keys : forall k, key_ok k = true -> intify_key (stringify_key k) = k.
Proof. exact intify_stringify. Qed.
Print Assumptions C18_keys.
