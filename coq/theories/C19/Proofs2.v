(* C19/Proofs2.v -- progress reporter: completion is announced exactly once per crossing *)
From Coq Require Import ZArith List Lia Bool ZifyBool.
From PV Require Import C19.Model C19.Spec.
Import ListNotations.
Open Scope Z_scope.

Definition st (p : list pop) : pstate := pexec pinit p.

Lemma pexec_snoc s p o : pexec s (p ++ [o]) = fst (pstep (pexec s p) o).
Proof. revert s. induction p as [|x p IH]; intros s; cbn [app pexec]; [reflexivity|apply IH]. Qed.

Lemma max_after_snoc p o : max_after (p ++ [o]) = max_step (max_after p) o.
Proof. unfold max_after. rewrite fold_left_app. reflexivity. Qed.

Lemma value_after_snoc p o :
  value_after (p ++ [o]) =
  match o with
  | PInc => value_after p + 1
  | PSetValue v => v
  | PSetComplete => max_after p
  | PReset _ => 0
  | PSetMax _ => value_after p
  end.
Proof.
  unfold value_after. rewrite rev_unit. destruct o; cbn [value_rev]; try reflexivity.
  rewrite rev_involutive. reflexivity.
Qed.

(* value and maximum of the model's state are the history-defined ones *)
Lemma st_values p : p_value (st p) = value_after p /\ p_max (st p) = max_after p.
Proof.
  induction p as [|o p IH] using rev_ind; [split; reflexivity|].
  unfold st in *. rewrite pexec_snoc, value_after_snoc, max_after_snoc.
  destruct IH as [Hv Hm]. destruct (pexec pinit p) as [v m d]. cbn [p_value p_max] in Hv, Hm. subst v m.
  destruct o as [|v|m| |[m|]]; unfold pstep, set_value, set_max; cbn [p_value p_max p_done max_step];
    repeat match goal with |- context [if ?b then _ else _] => destruct b end;
    cbn [fst p_value p_max]; split; reflexivity.
Qed.

(* state-level reading of one step *)
Lemma step_facts p o :
  let s := st p in let s' := st (p ++ [o]) in
  (Rearms p o -> p_done s' = false) /\
  (Completes p o -> p_done s' = true) /\
  (~ Rearms p o -> ~ Completes p o -> p_done s' = p_done s) /\
  (Completes p o <-> Reaches p o /\ p_done s = false) /\
  (Rearms p o -> ~ Completes p o).
Proof.
  intros s s'. unfold Rearms, Reaches, Completes.
  destruct (st_values (p ++ [o])) as [Hv' Hm']. destruct (st_values p) as [Hv Hm].
  rewrite <- Hv', <- Hm', <- Hm. fold s s'. clear Hv' Hm' Hm Hv.
  unfold s'. unfold st. rewrite pexec_snoc. fold (st p). fold s. clearbody s. clear s'.
  destruct s as [v m d].
  destruct d; destruct o as [|x|x| |[x|]]; unfold pstep, set_value, set_max;
    cbn [p_value p_max p_done is_update sets_value];
    repeat match goal with
           | |- context [?a <? ?b] => destruct (a <? b) eqn:?
           | |- context [?a >=? ?b] => destruct (a >=? b) eqn:?
           | |- context [?a >? ?b] => destruct (a >? b) eqn:?
           end;
    cbn [negb andb fst snd p_value p_max p_done In] in *;
    intuition (try discriminate; try lia; try congruence).
Qed.

Lemma rearms_b_iff p o : rearms_b p o = true <-> Rearms p o.
Proof. unfold rearms_b, Rearms. destruct (sets_value o); cbn [andb]; lia. Qed.
Lemma reaches_b_iff p o : reaches_b p o = true <-> Reaches p o.
Proof. unfold reaches_b, Reaches. destruct (is_update o); cbn [andb]; lia. Qed.

Lemma Rearms_dec p o : Rearms p o \/ ~ Rearms p o.
Proof. destruct (rearms_b p o) eqn:E; [left; apply rearms_b_iff, E|right; intros H; apply rearms_b_iff in H; congruence]. Qed.

Lemma Completes_dec p o : Completes p o \/ ~ Completes p o.
Proof.
  unfold Completes. induction (snd (pstep (pexec pinit p) o)) as [|e l IH]; [right; intros []|].
  destruct e; cbn [In]; [|left; left; reflexivity].
  destruct IH as [IH|IH]; [left; right; exact IH|right; intros [H|H]; [discriminate|exact (IH H)]].
Qed.

(* splitting a history that ends with o *)
Lemma snoc_split {A} (p : list A) o p1 o1 p2 :
  p ++ [o] = p1 ++ o1 :: p2 ->
  (p2 = [] /\ p1 = p /\ o1 = o) \/ (exists p2', p2 = p2' ++ [o] /\ p = p1 ++ o1 :: p2').
Proof.
  intros H. destruct p2 as [|y p2] using rev_ind.
  - left. apply app_inj_tail in H. destruct H as [-> ->]. auto.
  - right. clear IHp2. exists p2.
    replace (p1 ++ o1 :: p2 ++ [y]) with ((p1 ++ o1 :: p2) ++ [y]) in H
      by (rewrite <- app_assoc; reflexivity).
    apply app_inj_tail in H. destruct H as [-> ->]. auto.
Qed.

Lemma NoRearmIn_nil pre : NoRearmIn pre [].
Proof. intros q1 x q2 H. destruct q1; discriminate H. Qed.

Lemma NoRearmIn_snoc pre p2 o :
  NoRearmIn pre (p2 ++ [o]) <-> NoRearmIn pre p2 /\ ~ Rearms (pre ++ p2) o.
Proof.
  split.
  - intros H. split.
    + intros q1 x q2 ->. apply (H q1 x (q2 ++ [o])). rewrite <- app_assoc. reflexivity.
    + apply (H p2 o []). reflexivity.
  - intros [H1 H2] q1 x q2 E. apply snoc_split in E.
    destruct E as [(-> & -> & ->)|(q2' & -> & ->)]; [exact H2|]. apply (H1 q1 x q2'). reflexivity.
Qed.

(* the announcement that is still "pending": an earlier completion with no re-arming since *)
Definition Pending (p : list pop) : Prop :=
  exists p1 o1 p2, p = p1 ++ o1 :: p2 /\ Completes p1 o1 /\ NoRearmIn (p1 ++ [o1]) p2.

Lemma done_iff_pending p : p_done (st p) = true <-> Pending p.
Proof.
  induction p as [|o p IH] using rev_ind.
  - split; [discriminate|]. intros (p1 & o1 & p2 & H & _). destruct p1; discriminate H.
  - destruct (step_facts p o) as (F1 & F2 & F3 & F4 & F5). cbv zeta in *.
    split.
    + intros Hd. destruct (Rearms_dec p o) as [R|R]; [rewrite (F1 R) in Hd; discriminate|].
      destruct (Completes_dec p o) as [C|C].
      * exists p, o, []. split; [reflexivity|]. split; [exact C|apply NoRearmIn_nil].
      * rewrite (F3 R C) in Hd. apply IH in Hd. destruct Hd as (p1 & o1 & p2 & -> & HC & HN).
        exists p1, o1, (p2 ++ [o]). split; [rewrite <- app_assoc; reflexivity|]. split; [exact HC|].
        apply NoRearmIn_snoc. split; [exact HN|].
        replace ((p1 ++ [o1]) ++ p2) with (p1 ++ o1 :: p2) by (rewrite <- app_assoc; reflexivity). exact R.
    + intros (p1 & o1 & p2 & E & HC & HN). apply snoc_split in E.
      destruct E as [(-> & -> & ->)|(p2' & -> & ->)]; [exact (F2 HC)|].
      apply NoRearmIn_snoc in HN. destruct HN as [HN R].
      replace ((p1 ++ [o1]) ++ p2') with (p1 ++ o1 :: p2') in R by (rewrite <- app_assoc; reflexivity).
      assert (Hd : p_done (st (p1 ++ o1 :: p2')) = true) by (apply IH; exists p1, o1, p2'; auto).
      destruct (Completes_dec (p1 ++ o1 :: p2') o) as [C|C]; [exact (F2 C)|].
      rewrite (F3 R C). exact Hd.
Qed.

(* main statement, negative form *)
Theorem progress_pending p o : Completes p o <-> Reaches p o /\ ~ Pending p.
Proof.
  destruct (step_facts p o) as (_ & _ & _ & F4 & _). cbv zeta in F4. rewrite F4, <- done_iff_pending.
  destruct (p_done (st p)); intuition congruence.
Qed.

(* either some operation of p2 re-arms, or none does *)
Lemma rearm_search p2 : forall pre,
  NoRearmIn pre p2 \/ exists q1 x q2, p2 = q1 ++ x :: q2 /\ Rearms (pre ++ q1) x.
Proof.
  induction p2 as [|y r IH]; intros pre; [left; apply NoRearmIn_nil|].
  destruct (Rearms_dec pre y) as [R|R].
  - right. exists [], y, r. split; [reflexivity|]. rewrite app_nil_r. exact R.
  - destruct (IH (pre ++ [y])) as [N|(q1 & x & q2 & -> & HR)].
    + left. intros q1 x q2 E. destruct q1 as [|z q1]; cbn [app] in E; injection E as <- ->.
      * rewrite app_nil_r. exact R.
      * replace (pre ++ y :: q1) with ((pre ++ [y]) ++ q1) by (rewrite <- app_assoc; reflexivity).
        apply (N q1 x q2). reflexivity.
    + right. exists (y :: q1), x, q2. split; [reflexivity|].
      replace (pre ++ y :: q1) with ((pre ++ [y]) ++ q1) by (rewrite <- app_assoc; reflexivity). exact HR.
Qed.

(* main statement, in the words of the property: announced iff the update reaches the maximum and
   every earlier announcement is followed, before this update, by a re-arming operation *)
Theorem progress_once p o :
  Completes p o <->
  Reaches p o /\
  forall p1 o1 p2, p = p1 ++ o1 :: p2 -> Completes p1 o1 ->
    exists q1 x q2, p2 = q1 ++ x :: q2 /\ Rearms (p1 ++ [o1] ++ q1) x.
Proof.
  rewrite progress_pending. split; intros [HR H]; (split; [exact HR|]).
  - intros p1 o1 p2 E HC. destruct (rearm_search p2 (p1 ++ [o1])) as [N|(q1 & x & q2 & E2 & R)].
    + exfalso. apply H. exists p1, o1, p2. auto.
    + exists q1, x, q2. split; [exact E2|]. rewrite <- app_assoc in R. exact R.
  - intros (p1 & o1 & p2 & E & HC & N). destruct (H p1 o1 p2 E HC) as (q1 & x & q2 & E2 & R).
    apply (N q1 x q2 E2). rewrite <- app_assoc. exact R.
Qed.

(* the recursion determines the announcements: any predicate that satisfies it is the model's *)
Theorem progress_unique (Ann : list pop -> pop -> Prop) :
  (forall p o, Ann p o <->
     Reaches p o /\
     forall p1 o1 p2, p = p1 ++ o1 :: p2 -> Ann p1 o1 ->
       exists q1 x q2, p2 = q1 ++ x :: q2 /\ Rearms (p1 ++ [o1] ++ q1) x) ->
  forall p o, Ann p o <-> Completes p o.
Proof.
  intros HA.
  assert (G : forall n p o, (length p < n)%nat -> (Ann p o <-> Completes p o)).
  { induction n as [|n IH]; intros p o Hn; [lia|].
    rewrite HA, progress_once.
    assert (E : forall p1 o1 p2, p = p1 ++ o1 :: p2 -> (Ann p1 o1 <-> Completes p1 o1)).
    { intros p1 o1 p2 ->. apply IH. rewrite app_length in Hn. cbn [length] in Hn. lia. }
    split; intros [HR H]; (split; [exact HR|]); intros p1 o1 p2 Ep HC; apply (H p1 o1 p2 Ep);
      apply (E p1 o1 p2 Ep); exact HC. }
  intros p o. apply (G (S (length p))). lia.
Qed.

(* progress events: every value update emits exactly one progress(value, maximum), first, then
   possibly the completion; the other operations emit nothing *)
Theorem progress_values p o :
  p_value (st p) = value_after p /\ p_max (st p) = max_after p /\
  let evs := snd (pstep (st p) o) in
  if is_update o
  then evs = [EvProgress (value_after (p ++ [o])) (max_after (p ++ [o]))] \/
       evs = [EvProgress (value_after (p ++ [o])) (max_after (p ++ [o])); EvComplete]
  else evs = [].
Proof.
  destruct (st_values p) as [Hv Hm]. split; [exact Hv|]. split; [exact Hm|].
  rewrite value_after_snoc, max_after_snoc, <- Hv, <- Hm. destruct (st p) as [v m d].
  cbn [p_value p_max]. cbv zeta.
  destruct o as [|x|x| |[x|]]; unfold pstep, set_value, set_max;
    cbn [is_update max_step p_value p_max p_done]; try reflexivity;
    repeat match goal with |- context [if ?b then _ else _] => destruct b end; cbn [snd]; auto.
Qed.
