(* C19/Proofs6.v -- stage 3: the emit clauses evaluated by the comparator (Corr.emit_clauses, codes
   21-25) are EXACT: no code is raised for an observed emit iff the observation is what the
   history reading [spec_emit_all] prescribes (soundness and completeness of the checker). *)
From Coq Require Import ZArith List Lia Bool.
From PV Require Import C19.Model C19.Spec C19.Proofs C19.Corr.
Import ListNotations.
Open Scope Z_scope.

Lemma list_eqb_iff {A} (eqb : A -> A -> bool) :
  (forall x y, eqb x y = true <-> x = y) -> forall a b, list_eqb eqb a b = true <-> a = b.
Proof.
  intros H. induction a as [|x a IH]; intros [|y b]; cbn [list_eqb]; split; intros E; try discriminate; try reflexivity.
  - apply andb_true_iff in E. destruct E as [E1 E2]. apply H in E1. apply IH in E2. congruence.
  - injection E as -> ->. apply andb_true_iff. split; [apply H; reflexivity|apply IH; reflexivity].
Qed.

Lemma zz_eqb_iff x y : zz_eqb x y = true <-> x = y.
Proof.
  destruct x as [a b], y as [c d]. unfold zz_eqb. cbn [fst snd]. rewrite andb_true_iff, !Z.eqb_eq.
  split; [intros [-> ->]; reflexivity|intros E; injection E as -> ->; auto].
Qed.

Lemma payload_eqb_iff x y : payload_eqb x y = true <-> x = y.
Proof.
  destruct x as [a k], y as [b l]. unfold payload_eqb. cbn [pl_args pl_kw].
  rewrite andb_true_iff, (list_eqb_iff Z.eqb Z.eqb_eq), (list_eqb_iff zz_eqb zz_eqb_iff).
  split; [intros [-> ->]; reflexivity|intros E; injection E as -> ->; auto].
Qed.

Lemma call_eqb_iff (x y : hcall) : call_eqb x y = true <-> x = y.
Proof.
  destruct x as [f s a], y as [g t b]. unfold call_eqb. cbn [c_func c_sender c_arg].
  rewrite !andb_true_iff, func_eqb_eq, Z.eqb_eq, payload_eqb_iff.
  split; [intros [[-> ->] ->]; reflexivity|intros E; injection E as -> -> ->; auto].
Qed.

Lemma ret_eqb_iff (x y : ret hcall) : ret_eqb x y = true <-> x = y.
Proof.
  destruct x, y; cbn [ret_eqb]; try (split; intros; (discriminate || reflexivity)).
  - rewrite call_eqb_iff. split; [intros ->; reflexivity|intros E; injection E as ->; reflexivity].
  - rewrite (list_eqb_iff call_eqb call_eqb_iff). split; [intros ->; reflexivity|intros E; injection E as ->; reflexivity].
Qed.

Lemma flag_nil c ok : Corr.flag c ok = [] <-> ok = true.
Proof. destruct ok; cbn; split; intros; (discriminate || reflexivity). Qed.

Lemma app_nil_iff {A} (l l' : list A) : l ++ l' = [] <-> l = [] /\ l' = [].
Proof. split; [apply app_eq_nil|intros [-> ->]; reflexivity]. Qed.

Lemma perm_b_refl l : perm_b l l = true.
Proof.
  induction l as [|x l IH]; [reflexivity|]. cbn [perm_b remove1].
  rewrite (proj2 (func_eqb_eq x x) eq_refl). exact IH.
Qed.

Definition arg_ok (sd : Z) (a : payload) (x : hcall) : bool := (c_sender x =? sd) && payload_eqb (c_arg x) a.

Lemma arg_ok_iff sd a x : arg_ok sd a x = true <-> c_sender x = sd /\ c_arg x = a.
Proof. unfold arg_ok. rewrite andb_true_iff, Z.eqb_eq, payload_eqb_iff. reflexivity. Qed.

Lemma calls_rebuild (calls : list hcall) : forall (exp : list entry) sd a,
  map c_func calls = map e_func exp -> forallb (arg_ok sd a) calls = true ->
  calls = map (call_of sd a) exp.
Proof.
  induction calls as [|x calls IH]; intros [|e exp] sd a Hm Hf; cbn [map] in *; try discriminate; [reflexivity|].
  injection Hm as Hx Hm. cbn [forallb] in Hf. apply andb_true_iff in Hf. destruct Hf as [Ha Hf].
  apply arg_ok_iff in Ha. destruct Ha as [Hs Hp]. f_equal; [|apply IH; assumption].
  destruct x as [f s b]. cbn [c_func c_sender c_arg] in *. subst. reflexivity.
Qed.

Lemma calls_of_exp (exp : list entry) sd a :
  map c_func (map (call_of sd a) exp) = map e_func exp /\
  forallb (arg_ok sd a) (map (call_of sd a) exp) = true.
Proof.
  split.
  - rewrite map_map. reflexivity.
  - apply forallb_forall. intros x Hx. apply in_map_iff in Hx. destruct Hx as (e & <- & _).
    apply arg_ok_iff. split; reflexivity.
Qed.

Lemma emit_body_is_emit (reg : list entry) ev sd (a : payload) single :
  exists c r, emit_body beh0 reg ev sd a single = OEmit c r.
Proof.
  unfold emit_body. destruct (truthy single); [|eexists _, _; reflexivity].
  destruct (map (call_of sd a) (expected ev sd reg)); eexists _, _; reflexivity.
Qed.

Theorem emit_clauses_exact (p : list hop) ev sd (a : payload) single (o : hout) :
  emit_clauses p ev sd a single (Ob o) = [] <-> o = spec_emit_all beh0 p ev sd a single.
Proof.
  unfold emit_clauses, spec_emit_all.
  assert (NotEmit : forall o', (forall c r, o' <> OEmit c r) ->
            ((if silenced_all p then [25] else [21]) = [] <->
             o' = (if silenced_all p then OEmit [] RNone else emit_body beh0 (registered p) ev sd a single))).
  { intros o' Ho. split.
    - destruct (silenced_all p); discriminate.
    - intros E. exfalso. destruct (silenced_all p); [exact (Ho _ _ E)|].
      destruct (emit_body_is_emit (registered p) ev sd a single) as (c & r & Er). rewrite Er in E. exact (Ho _ _ E). }
  destruct o as [| | |calls r]; try (apply NotEmit; intros c r; discriminate).
  destruct (silenced_all p).
  { rewrite flag_nil. destruct calls as [|x calls]; destruct r; split; intros E; try discriminate; try reflexivity. }
  unfold emit_body. set (exp := expected ev sd (registered p)).
  change (forallb (fun x : call payload => (c_sender x =? sd) && payload_eqb (c_arg x) a) calls)
    with (forallb (arg_ok sd a) calls).
  destruct (truthy single).
  - (* a single result requested *)
    rewrite !app_nil_iff, !flag_nil.
    destruct exp as [|e exp']; cbn [map].
    + destruct calls as [|x calls]; cbn [map forallb].
      * rewrite ret_eqb_iff. split; [intros [[_ [_ ->]] _]; reflexivity|intros E; injection E as ->; auto].
      * split; [intros [[E _] _]; discriminate|intros E; discriminate].
    + destruct calls as [|x [|y calls]]; cbn [map].
      * split; [intros [[E _] _]; discriminate|intros E; discriminate].
      * cbn [forallb existsb]. rewrite ret_eqb_iff, func_eqb_eq, andb_true_r, arg_ok_iff. split.
        -- intros [[_ [Hf ->]] [Hs Ha]]. destruct x as [f s b]. cbn [c_func c_sender c_arg] in *. subst. reflexivity.
        -- intros E. injection E as -> ->. cbn [call_of c_func c_sender c_arg].
           rewrite (proj2 (func_eqb_eq (e_func e) (e_func e)) eq_refl). cbn [orb]. auto.
      * split; [intros [[E _] _]; discriminate|intros E; discriminate].
  - (* all results requested *)
    rewrite !app_nil_iff, !flag_nil, ret_eqb_iff, (list_eqb_iff func_eqb func_eqb_eq). split.
    + intros [[_ [Hm ->]] Hf]. rewrite (calls_rebuild calls exp sd a Hm Hf). reflexivity.
    + intros E. injection E as -> ->. destruct (calls_of_exp exp sd a) as [Hm Hf].
      rewrite Hm. split; [split; [apply perm_b_refl|split; reflexivity]|exact Hf].
Qed.
