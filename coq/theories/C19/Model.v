(* C19/Model.v -- executable model of phylib/utils/event.py (EventEmitter and ProgressReporter),
   as repaired by the two `fix:` commits of branch fix-c19 (silent() saves/restores the flag;
   ProgressReporter.reset() assigns the maximum through the setter and re-arms) and by the stage-3
   `fix:` commit of branch fix-c19c (silent() restores the flag in a `finally:` clause, so also when
   the block is left by an exception).  No proofs here.

   Python objects are abstracted as follows.
   * events, senders, owner objects: integers (identity / == of the Python objects);
   * a callback function: [func] = an identity, the event its __name__ encodes ("on_<event>", or no
     such name), and the object it is a bound method of (getattr(f, '__self__', None));
   * the positional and keyword arguments of an emit: one value of an arbitrary type [Arg];
   * what a callback returns: [beh f sender arg : Res], an arbitrary function. *)
From Coq Require Import ZArith List Bool.
Import ListNotations.
Open Scope Z_scope.

Record func := mkfunc { fn_id : Z; fn_name : option Z; fn_owner : option Z }.
(* one element of EventEmitter._callbacks: (event, sender, f, kwargs); of kwargs only the
   truth value of kwargs.get('last') is ever read *)
Record entry := mkentry { e_event : Z; e_sender : option Z; e_func : func; e_last : bool }.
(* an item given to unconnect(): a callback function, or any other object (a sender / an owner) *)
Inductive target := TFunc (f : func) | TObj (o : Z).
(* connect(f) derives the event from the function name, connect(f, event=e) does not *)
Inductive style := ByName | Explicit (e : Z).

Definition optZ_eqb (a b : option Z) : bool :=
  match a, b with Some x, Some y => x =? y | None, None => true | _, _ => false end.
Definition func_eqb (f g : func) : bool :=
  (fn_id f =? fn_id g) && optZ_eqb (fn_name f) (fn_name g) && optZ_eqb (fn_owner f) (fn_owner g).
Definition is_some_eq (o : option Z) (x : Z) : bool :=
  match o with Some y => y =? x | None => false end.

(* unconnect(items...) keeps (event, sender, f, kwargs) iff
     f not in items and sender not in items and getattr(f, '__self__', None) not in items
   (items never contain None in the modelled histories) *)
Definition target_hits (t : target) (c : entry) : bool :=
  match t with
  | TFunc g => func_eqb g (e_func c)
  | TObj o => is_some_eq (e_sender c) o || is_some_eq (fn_owner (e_func c)) o
  end.
Definition hit (items : list target) (c : entry) : bool := existsb (fun t => target_hits t c) items.

(* connect(): event = explicit event, else _get_on_name(func) (ValueError when the name is not on_<event>) *)
Definition entry_of (f : func) (st : style) (sf : option Z) (l : bool) : option entry :=
  match st with
  | Explicit e => Some (mkentry e sf f l)
  | ByName => match fn_name f with Some e => Some (mkentry e sf f l) | None => None end
  end.

(* emit(): `e == event and (s is None or s == sender)` *)
Definition matches (ev snd : Z) (c : entry) : bool :=
  (e_event c =? ev) && match e_sender c with None => true | Some s => s =? snd end.

(* `single = kwargs.pop('single', None)` ... `if single:` *)
Definition truthy (s : option bool) : bool := match s with Some true => true | _ => false end.

(* what a callback receives: which function was called, with which sender and arguments *)
Record call (Arg : Type) := mkcall { c_func : func; c_sender : Z; c_arg : Arg }.
Arguments mkcall {Arg}. Arguments c_func {Arg}. Arguments c_sender {Arg}. Arguments c_arg {Arg}.

(* value returned by emit(): None when silent, res[-1] when single, else the list res *)
Inductive ret (Res : Type) := RNone | RSingle (r : Res) | RList (l : list Res).
Arguments RNone {Res}. Arguments RSingle {Res}. Arguments RList {Res}.

Inductive op (Arg : Type) :=
| Connect (f : func) (st : style) (sf : option Z) (last : bool)
| Unconnect (items : list target)
| Reset
| SetSilent (b : bool)
| SilentEnter                      (* entering `with silent():` *)
| SilentExit                       (* leaving the innermost open `with silent():` block *)
| SilentExitExc                    (* stage 3: ... leaving it because an exception propagates out of the block *)
| Emit (ev snd : Z) (a : Arg) (single : option bool).
Arguments Connect {Arg}. Arguments Unconnect {Arg}. Arguments Reset {Arg}. Arguments SetSilent {Arg}.
Arguments SilentEnter {Arg}. Arguments SilentExit {Arg}. Arguments SilentExitExc {Arg}. Arguments Emit {Arg}.

(* observable outcome of one operation *)
Inductive out (Arg Res : Type) :=
| ONone                                              (* returned normally, nothing to observe *)
| OError                                             (* connect by name raised ValueError *)
| OBad                                               (* SilentExit without an open block: not a Python program *)
| OEmit (calls : list (call Arg)) (r : ret Res).     (* an emit: calls received, value returned *)
Arguments ONone {Arg Res}. Arguments OError {Arg Res}. Arguments OBad {Arg Res}. Arguments OEmit {Arg Res}.

(* _callbacks, is_silent, and the values saved by the open silent() generator frames (innermost first) *)
Record state := mkstate { cbs : list entry; flag : bool; saved : list bool }.
Definition init : state := mkstate [] false [].

Section Emitter.
Variables Arg Res : Type.
Variable beh : func -> Z -> Arg -> Res.

(* the `for e, s, f, k in callbacks:` loop of emit(), with its accumulator `res`
   ([calls] is the log the callbacks themselves would write); `return res[-1]` right after the
   append is the result just computed *)
Fixpoint emit_loop (single : bool) (ev snd : Z) (a : Arg) (l : list entry)
         (calls : list (call Arg)) (res : list Res) : out Arg Res :=
  match l with
  | [] => OEmit calls (RList res)
  | c :: r =>
      if matches ev snd c then
        let x := beh (e_func c) snd a in
        if single then OEmit (calls ++ [mkcall (e_func c) snd a]) (RSingle x)
        else emit_loop single ev snd a r (calls ++ [mkcall (e_func c) snd a]) (res ++ [x])
      else emit_loop single ev snd a r calls res
  end.

Definition emit (s : state) (ev snd : Z) (a : Arg) (single : option bool) : out Arg Res :=
  if flag s then OEmit [] RNone else
  emit_loop (truthy single) ev snd a
            (filter (fun c => negb (e_last c)) (cbs s) ++ filter e_last (cbs s)) [] [].

Definition step (s : state) (o : op Arg) : state * out Arg Res :=
  match o with
  | Connect f st sf l =>
      match entry_of f st sf l with
      | Some c => (mkstate (cbs s ++ [c]) (flag s) (saved s), ONone)
      | None => (s, OError)
      end
  | Unconnect items => (mkstate (filter (fun c => negb (hit items c)) (cbs s)) (flag s) (saved s), ONone)
  | Reset => (mkstate [] (flag s) (saved s), ONone)
  | SetSilent b => (mkstate (cbs s) b (saved s), ONone)
  | SilentEnter => (mkstate (cbs s) true (flag s :: saved s), ONone)
  | SilentExit | SilentExitExc =>      (* `finally: self.is_silent = is_silent` runs on both ways out;
                                         after SilentExitExc the exception goes on to the caller of the `with` *)
                  match saved s with
                  | b :: r => (mkstate (cbs s) b r, ONone)
                  | [] => (s, OBad)
                  end
  | Emit ev snd a single => (s, emit s ev snd a single)
  end.

Fixpoint exec (s : state) (h : list (op Arg)) : state :=
  match h with [] => s | o :: r => exec (fst (step s o)) r end.
Fixpoint outs (s : state) (h : list (op Arg)) : list (out Arg Res) :=
  match h with [] => [] | o :: r => snd (step s o) :: outs (fst (step s o)) r end.
End Emitter.

Arguments emit_loop {Arg Res}. Arguments emit {Arg Res}. Arguments step {Arg Res}.
Arguments exec {Arg Res}. Arguments outs {Arg Res}.

(* ---------------- ProgressReporter ---------------- *)
Inductive pop := PInc | PSetValue (v : Z) | PSetMax (m : Z) | PSetComplete | PReset (m : option Z).
Inductive pev := EvProgress (v m : Z) | EvComplete.
Record pstate := mkp { p_value : Z; p_max : Z; p_done : bool }.
Definition pinit : pstate := mkp 0 0 false.

(* _set_value *)
Definition set_value (s : pstate) (v : Z) : pstate * list pev :=
  let d := if v <? p_max s then false else p_done s in
  if negb d && (v >=? p_max s) then (mkp v (p_max s) true, [EvProgress v (p_max s); EvComplete])
  else (mkp v (p_max s) d, [EvProgress v (p_max s)]).
(* value_max setter *)
Definition set_max (s : pstate) (m : Z) : pstate :=
  mkp (p_value s) m (if m >? p_max s then false else p_done s).

Definition pstep (s : pstate) (o : pop) : pstate * list pev :=
  match o with
  | PInc => set_value s (p_value s + 1)
  | PSetValue v => set_value s v
  | PSetComplete => set_value s (p_max s)
  | PSetMax m => (set_max s m, [])
  | PReset m =>
      let s1 := mkp 0 (p_max s) (p_done s) in
      let s2 := match m with Some x => set_max s1 x | None => s1 end in
      (mkp (p_value s2) (p_max s2) (if p_value s2 <? p_max s2 then false else p_done s2), [])
  end.

Fixpoint pexec (s : pstate) (h : list pop) : pstate :=
  match h with [] => s | o :: r => pexec (fst (pstep s o)) r end.
Fixpoint pouts (s : pstate) (h : list pop) : list (list pev) :=
  match h with [] => [] | o :: r => snd (pstep s o) :: pouts (fst (pstep s o)) r end.

(* =============================================================================================
   Stage 3 additions (nothing above is changed).

   ---------------- callbacks that raise ----------------
   emit() has no try/except around `res.append(f(sender, *args, **kwargs))`: an exception raised by a
   callback leaves the loop and emit() at once -- the callbacks after it are not called and the
   results collected so far are lost.  [behx f sender arg = None] = this call raises. *)
Inductive outx (Arg Res : Type) :=
| XNone | XError | XBad
| XEmit (calls : list (call Arg)) (r : ret Res)
| XRaise (calls : list (call Arg)).   (* calls made; the last one raised and emit() propagated it *)
Arguments XNone {Arg Res}. Arguments XError {Arg Res}. Arguments XBad {Arg Res}.
Arguments XEmit {Arg Res}. Arguments XRaise {Arg Res}.

Section EmitterX.
Variables Arg Res : Type.
Variable behx : func -> Z -> Arg -> option Res.

Fixpoint emit_loop_x (single : bool) (ev snd : Z) (a : Arg) (l : list entry)
         (calls : list (call Arg)) (res : list Res) : outx Arg Res :=
  match l with
  | [] => XEmit calls (RList res)
  | c :: r =>
      if matches ev snd c then
        match behx (e_func c) snd a with
        | None => XRaise (calls ++ [mkcall (e_func c) snd a])
        | Some x =>
            if single then XEmit (calls ++ [mkcall (e_func c) snd a]) (RSingle x)
            else emit_loop_x single ev snd a r (calls ++ [mkcall (e_func c) snd a]) (res ++ [x])
        end
      else emit_loop_x single ev snd a r calls res
  end.

Definition emit_x (s : state) (ev snd : Z) (a : Arg) (single : option bool) : outx Arg Res :=
  if flag s then XEmit [] RNone else
  emit_loop_x (truthy single) ev snd a
              (filter (fun c => negb (e_last c)) (cbs s) ++ filter e_last (cbs s)) [] [].

(* the other operations are those of [step]; a raising emit leaves _callbacks and is_silent alone *)
Definition step_x (s : state) (o : op Arg) : state * outx Arg Res :=
  match o with
  | Connect f st sf l =>
      match entry_of f st sf l with
      | Some c => (mkstate (cbs s ++ [c]) (flag s) (saved s), XNone)
      | None => (s, XError)
      end
  | Unconnect items => (mkstate (filter (fun c => negb (hit items c)) (cbs s)) (flag s) (saved s), XNone)
  | Reset => (mkstate [] (flag s) (saved s), XNone)
  | SetSilent b => (mkstate (cbs s) b (saved s), XNone)
  | SilentEnter => (mkstate (cbs s) true (flag s :: saved s), XNone)
  | SilentExit | SilentExitExc =>
                  match saved s with
                  | b :: r => (mkstate (cbs s) b r, XNone)
                  | [] => (s, XBad)
                  end
  | Emit ev snd a single => (s, emit_x s ev snd a single)
  end.

Fixpoint exec_x (s : state) (h : list (op Arg)) : state :=
  match h with [] => s | o :: r => exec_x (fst (step_x s o)) r end.
Fixpoint outs_x (s : state) (h : list (op Arg)) : list (outx Arg Res) :=
  match h with [] => [] | o :: r => snd (step_x s o) :: outs_x (fst (step_x s o)) r end.
End EmitterX.
Arguments emit_loop_x {Arg Res}. Arguments emit_x {Arg Res}. Arguments step_x {Arg Res}.
Arguments exec_x {Arg Res}. Arguments outs_x {Arg Res}.

(* ---------------- ProgressReporter: accessors, keyword arguments, message callbacks ----------------
   is_complete():  `return self._value >= self._value_max` *)
Definition is_complete (s : pstate) : bool := p_value s >=? p_max s.

(* increment and set_complete (both take **kwargs) hand their keyword arguments to _set_value, which
   forwards them to BOTH emits (progress and complete); the value setter passes none, the value_max
   setter and reset() emit nothing.  [K] = a keyword dictionary, [nokw] = the empty one. *)
Section Kwargs.
Variable K : Type.
Variable nokw : K.
Record popk := mkpk { pk_op : pop; pk_kw : K }.

Definition set_value_k (s : pstate) (v : Z) (kw : K) : pstate * list (pev * K) :=
  let d := if v <? p_max s then false else p_done s in
  if negb d && (v >=? p_max s)
  then (mkp v (p_max s) true, [(EvProgress v (p_max s), kw); (EvComplete, kw)])
  else (mkp v (p_max s) d, [(EvProgress v (p_max s), kw)]).

Definition pstep_k (s : pstate) (o : popk) : pstate * list (pev * K) :=
  match pk_op o with
  | PInc => set_value_k s (p_value s + 1) (pk_kw o)
  | PSetValue v => set_value_k s v nokw
  | PSetComplete => set_value_k s (p_max s) (pk_kw o)
  | PSetMax m => (set_max s m, [])
  | PReset m => (fst (pstep s (PReset m)), [])
  end.

(* the keyword arguments the events of operation o must carry *)
Definition kw_of (o : popk) : K :=
  match pk_op o with PInc | PSetComplete => pk_kw o | _ => nokw end.

(* set_progress_message(msg) / set_complete_message(msg) connect, with sender=self,
     on_progress: kwargs['end'] = None if value == value_max else '\r'; _default_on_progress(...),
                  which prints nothing when value_max == 0 or value > value_max;
     on_complete: prints the message.
   A printed line is abstracted to: which message, the keyword the message's format field shows
   ([look kw]), and for a progress line whether it ends the line (value == value_max). *)
Inductive ptok := TokProgress (k0 : option Z) (newline : bool) | TokComplete (k0 : option Z).
Variable look : K -> option Z.
Definition printed (e : pev * K) : list ptok :=
  match fst e with
  | EvProgress v m => if m =? 0 then [] else if v <=? m then [TokProgress (look (snd e)) (v =? m)] else []
  | EvComplete => [TokComplete (look (snd e))]
  end.
End Kwargs.
Arguments mkpk {K}. Arguments pk_op {K}. Arguments pk_kw {K}. Arguments set_value_k {K}.
Arguments pstep_k {K}. Arguments kw_of {K}. Arguments printed {K}.
