(* C19/Props.v -- the property theorems, and nothing else.  Each is closed by [exact] of a lemma of
   Proofs.v / Proofs2.v and followed by Print Assumptions.

   The model is the code of phylib/utils/event.py AFTER the two repairs of branch fix-c19
   (silent() saves and restores the flag; ProgressReporter.reset() goes through the value_max
   setter and re-arms).  On the unrepaired code both statements are false (nested silent()
   blocks; reset after a completion): see notes/C19.md for the failing histories. *)
From Coq Require Import ZArith List Lia Bool Sorted.
From PV Require Import C19.Model C19.Spec C19.Proofs C19.Proofs2 C19.Proofs3 C19.Proofs4 C19.Proofs5.
From PV Require C19.Corr C19.Proofs6.   (* not imported: Corr.flag would shadow the state's flag *)
Import ListNotations.
Open Scope Z_scope.

(* ---------------------------------------------------------------------------------------------
   Event dispatch.  For every argument type, result type and callback behaviour, every history p
   of connect / unconnect / reset / set_silent / silent()-enter / silent()-leave / emit operations
   that stays inside the reading (blocks are left only when open; set_silent is not called inside
   a silent() block), and every emit executed after p (whatever follows it):
   what the emitter does is [spec_emit], which is defined on the HISTORY alone:
     - while silenced (an open silent() block, or the last set_silent was True): no call, returns None;
     - otherwise the callbacks of the successful connects of p that no later reset / unconnect (by
       function, by sender filter, by owner) of p removed, restricted to this event and to a sender
       filter that is absent or equal to the emitting sender, non-'last' ones in registration order
       followed by 'last' ones in registration order, each called with the emitting sender and the
       emit's arguments unchanged;
     - returns the list of their results in call order; with a truthy `single`: calls only the
       first one and returns its result (the empty list when nothing matches). *)
Theorem C19_dispatch : forall (Arg Res : Type) (beh : func -> Z -> Arg -> Res)
    (p : list (op Arg)) (ev snd : Z) (a : Arg) (single : option bool) (rest : list (op Arg)),
  silent_ok p = true ->
  nth_error (outs beh init (p ++ Emit ev snd a single :: rest)) (length p) =
  Some (spec_emit beh p ev snd a single).
Proof. exact dispatch. Qed.
Print Assumptions C19_dispatch.

(* "currently registered", by positions in the history: the list used by [spec_emit] consists
   exactly of the callbacks c registered by a successful connect at some position i such that no
   operation after position i is a reset or an unconnect with an item that is c's function, c's
   sender filter or the owner of c's bound method -- listed by increasing position i. *)
Theorem C19_registered_meaning : forall (Arg : Type) (p : list (op Arg)),
  map snd (registered_ix 0 p) = registered p /\
  StronglySorted (fun a b => (fst a < fst b)%nat) (registered_ix 0 p) /\
  (forall i c, In (i, c) (registered_ix 0 p) <-> Registered p i c).
Proof. exact registered_meaning. Qed.
Print Assumptions C19_registered_meaning.

(* who is called: exactly the registered callbacks for that event whose filter admits the sender *)
Theorem C19_called_exactly : forall (ev snd : Z) (reg : list entry) (c : entry),
  In c (expected ev snd reg) <->
  In c reg /\ e_event c = ev /\ (e_sender c = None \/ e_sender c = Some snd).
Proof. exact expected_in_prop. Qed.
Print Assumptions C19_called_exactly.

(* in which order: the non-'last' matching callbacks in registration order, then the 'last' ones *)
Theorem C19_last_after_others : forall (ev snd : Z) (reg : list entry),
  exists l1 l2, expected ev snd reg = l1 ++ l2 /\
    Forall (fun c => e_last c = false) l1 /\ Forall (fun c => e_last c = true) l2 /\
    l1 = filter (fun c => negb (e_last c)) (filter (matches ev snd) reg) /\
    l2 = filter e_last (filter (matches ev snd) reg).
Proof. exact expected_split. Qed.
Print Assumptions C19_last_after_others.

(* the guard of C19_dispatch is needed: with set_silent(False) inside a silent() block the
   (repaired) emitter calls callbacks although a silent() block is open *)
Theorem C19_dispatch_needs_reading :
  exists (p : list (op Z)) ev snd a single,
    silent_ok p = false /\
    nth_error (outs (fun _ _ x => x) init (p ++ [Emit ev snd a single])) (length p) <>
    Some (spec_emit (fun _ _ x => x) p ev snd a single).
Proof. exact guard_needed. Qed.
Print Assumptions C19_dispatch_needs_reading.

(* ---------------------------------------------------------------------------------------------
   Progress reporter.  For every history p over {increment, value = v, value_max = m,
   set_complete, reset(None | k)} and every next operation o: completion is announced during o
   iff o is a value update that reaches the maximum and every earlier announcement is followed,
   before o, by an operation that sets the value below the maximum or raises the maximum.
   (Reaches / Rearms are defined on the history: Spec.v.) *)
Theorem C19_progress : forall (p : list pop) (o : pop),
  Completes p o <->
  Reaches p o /\
  forall p1 o1 p2, p = p1 ++ o1 :: p2 -> Completes p1 o1 ->
    exists q1 x q2, p2 = q1 ++ x :: q2 /\ Rearms (p1 ++ [o1] ++ q1) x.
Proof. exact progress_once. Qed.
Print Assumptions C19_progress.

(* the statement determines the announcements: whatever satisfies it is the model's behaviour
   (so checking the statement on an observed trace is checking the trace) *)
Theorem C19_progress_unique : forall (Ann : list pop -> pop -> Prop),
  (forall p o, Ann p o <->
     Reaches p o /\
     forall p1 o1 p2, p = p1 ++ o1 :: p2 -> Ann p1 o1 ->
       exists q1 x q2, p2 = q1 ++ x :: q2 /\ Rearms (p1 ++ [o1] ++ q1) x) ->
  forall p o, Ann p o <-> Completes p o.
Proof. exact progress_unique. Qed.
Print Assumptions C19_progress_unique.

(* value, maximum and progress events follow the history: the maximum is the last one assigned,
   the value is the last absolute assignment plus the increments since; every value update emits
   progress(value, maximum) first and at most one completion; nothing else emits *)
Theorem C19_progress_values : forall (p : list pop) (o : pop),
  p_value (pexec pinit p) = value_after p /\ p_max (pexec pinit p) = max_after p /\
  let evs := snd (pstep (pexec pinit p) o) in
  if is_update o
  then evs = [EvProgress (value_after (p ++ [o])) (max_after (p ++ [o]))] \/
       evs = [EvProgress (value_after (p ++ [o])) (max_after (p ++ [o])); EvComplete]
  else evs = [].
Proof. exact progress_values. Qed.
Print Assumptions C19_progress_values.

(* ---- non-vacuity: concrete, non-trivial instances ---- *)
Definition f0 := mkfunc 0 (Some 0) None.        (* def on_ev0 *)
Definition f1 := mkfunc 1 (Some 1) None.        (* def on_ev1 *)
Definition f2 := mkfunc 2 None None.            (* a function not named on_<event> *)
Definition m3 := mkfunc 3 (Some 0) (Some 0).    (* bound method on_ev0 of object 0 *)
Definition ex_hist : list (op Z) :=
  [Connect f2 (Explicit 0) None true;           (* 'last', registered first *)
   Connect f0 ByName None false;
   Connect f1 (Explicit 0) (Some 1) false;      (* only for sender 1 *)
   Connect m3 ByName None false;
   Connect f2 ByName None false;                (* ValueError: nothing registered *)
   Unconnect [TObj 0];                          (* removes the bound method of object 0 *)
   SilentEnter; SilentEnter; SilentExit].       (* still inside the outer block *)

Example C19_ex_regime : silent_ok (ex_hist ++ [SilentExit]) = true.
Proof. vm_compute. reflexivity. Qed.
Example C19_ex_silenced :
  nth_error (outs (fun _ _ x => x) init (ex_hist ++ [Emit 0 1 7 None])) (length ex_hist) =
  Some (OEmit [] RNone).
Proof. vm_compute. reflexivity. Qed.
Example C19_ex_calls :
  nth_error (outs (fun f _ x => fn_id f + x) init (ex_hist ++ [SilentExit; Emit 0 1 7 None]))
            (S (length ex_hist)) =
  Some (OEmit [mkcall f0 1 7; mkcall f1 1 7; mkcall f2 1 7] (RList [7; 8; 9])).
Proof. vm_compute. reflexivity. Qed.
Example C19_ex_single :
  spec_emit (fun f _ x => fn_id f + x) (ex_hist ++ [SilentExit]) 0 0 7 (Some true) =
  OEmit [mkcall f0 0 7] (RSingle 7).
Proof. vm_compute. reflexivity. Qed.
Example C19_ex_progress :
  pouts pinit [PSetMax 1; PSetValue 1; PSetValue 1; PReset None; PSetValue 1; PReset (Some 3); PSetComplete] =
  [[]; [EvProgress 1 1; EvComplete]; [EvProgress 1 1]; []; [EvProgress 1 1; EvComplete]; [];
   [EvProgress 3 3; EvComplete]].
Proof. vm_compute. reflexivity. Qed.

(* =============================================================================================
   Stage 3.  Silencing for ALL well-bracketed histories: set_silent may be called inside silent()
   blocks (the restriction of C19_dispatch is not needed any more).  [silenced_all] is defined on
   the history alone (Spec.v): closed silent() blocks are skipped with everything they contain;
   of what remains the most recent of set_silent(b) / entering a still-open block decides.
   This is what the repaired silent() does: it saves the flag, sets it, and restores the saved
   value on exit -- in a `finally:` clause (fix-c19c), so also when the block is left by an
   exception (operation SilentExitExc) -- and a set_silent inside the block holds until the block
   is left. *)
Theorem C19_dispatch_all : forall (Arg Res : Type) (beh : func -> Z -> Arg -> Res)
    (p : list (op Arg)) (ev snd : Z) (a : Arg) (single : option bool) (rest : list (op Arg)),
  brackets_ok p = true ->
  nth_error (outs beh init (p ++ Emit ev snd a single :: rest)) (length p) =
  Some (spec_emit_all beh p ev snd a single).
Proof. exact dispatch_all. Qed.
Print Assumptions C19_dispatch_all.

(* the state of the emitter after any well-bracketed history, read off the history: the registry,
   the flag, the number of open silent() blocks *)
Theorem C19_state_after : forall (Arg Res : Type) (beh : func -> Z -> Arg -> Res) (p : list (op Arg)),
  brackets_ok p = true ->
  cbs (exec beh init p) = registered p /\ flag (exec beh init p) = silenced_all p /\
  length (saved (exec beh init p)) = (length (filter is_enter p) - length (filter is_exit p))%nat.
Proof. exact state_after. Qed.
Print Assumptions C19_state_after.

(* inside the first reading the two notions of "silenced" coincide, so C19_dispatch_all contains
   C19_dispatch *)
Theorem C19_silenced_agree : forall (Arg Res : Type) (beh : func -> Z -> Arg -> Res)
    (p : list (op Arg)) (ev snd : Z) (a : Arg) (single : option bool),
  silent_ok p = true ->
  brackets_ok p = true /\ silenced_all p = silenced p /\
  spec_emit_all beh p ev snd a single = spec_emit beh p ev snd a single.
Proof. exact silenced_agree_full. Qed.
Print Assumptions C19_silenced_agree.

(* what [silenced_all] means, without the scan: not silenced initially; set_silent(b) makes it b;
   entering a block silences; other operations change nothing; and a `with silent():` block that
   has been left -- normally (SilentExit) or by an exception (SilentExitExc), with ANY balanced body,
   set_silent calls included -- leaves silencing as it was before the block *)
Theorem C19_silenced_all_meaning : forall (Arg : Type),
  silenced_all (@nil (op Arg)) = false /\
  (forall (p : list (op Arg)) b, silenced_all (p ++ [SetSilent b]) = b) /\
  (forall p : list (op Arg), silenced_all (p ++ [SilentEnter]) = true) /\
  (forall (p : list (op Arg)) o, is_flag_op o = false -> silenced_all (p ++ [o]) = silenced_all p) /\
  (forall (p b : list (op Arg)) x, balanced b -> is_exit x = true ->
     silenced_all (p ++ SilentEnter :: b ++ [x]) = silenced_all p).
Proof. exact silenced_all_equations. Qed.
Print Assumptions C19_silenced_all_meaning.

(* ... and these five equations determine it on every well-bracketed history *)
Theorem C19_silenced_all_unique : forall (Arg : Type) (S' : list (op Arg) -> bool),
  S' [] = false ->
  (forall p b, S' (p ++ [SetSilent b]) = b) ->
  (forall p, S' (p ++ [SilentEnter]) = true) ->
  (forall p o, is_flag_op o = false -> S' (p ++ [o]) = S' p) ->
  (forall p b x, balanced b -> is_exit x = true -> S' (p ++ SilentEnter :: b ++ [x]) = S' p) ->
  forall p, brackets_ok p = true -> S' p = silenced_all p.
Proof. exact silenced_all_unique. Qed.
Print Assumptions C19_silenced_all_unique.

(* non-vacuity: set_silent inside blocks; the witness of C19_dispatch_needs_reading is now covered *)
Definition ex_hist3 : list (op Z) :=
  [Connect f0 ByName None false; SetSilent true; SilentEnter; SetSilent false].
Example C19_ex3_regime : brackets_ok (ex_hist3 ++ [SilentExit]) = true /\ silent_ok ex_hist3 = false.
Proof. vm_compute. split; reflexivity. Qed.
Example C19_ex3_inside :     (* set_silent(False) inside the block: callbacks are called *)
  nth_error (outs (fun f _ x => fn_id f + x) init (ex_hist3 ++ [Emit 0 1 7 None])) (length ex_hist3) =
  Some (OEmit [mkcall f0 1 7] (RList [7])) /\
  spec_emit_all (fun f _ x => fn_id f + x) ex_hist3 0 1 7 None = OEmit [mkcall f0 1 7] (RList [7]).
Proof. vm_compute. split; reflexivity. Qed.
Example C19_ex3_after :      (* leaving the block restores set_silent(True) *)
  spec_emit_all (fun f _ x => fn_id f + x) (ex_hist3 ++ [SilentExit]) 0 1 7 None = OEmit [] RNone /\
  balanced [@SetSilent Z false; SilentEnter; SetSilent true; SilentExit].
Proof.
  split; [vm_compute; reflexivity|].
  apply bal_other; [reflexivity|reflexivity|]. apply (bal_block Z [SetSilent true] SilentExit []).
  - reflexivity.
  - apply bal_other; [reflexivity|reflexivity|constructor].
  - constructor.
Qed.
(* a block left by an exception is closed like any other: the flag saved on entry comes back
   (on the code before fix-c19c the emitter stayed silenced for good: see notes/C19.md) *)
Example C19_ex3_exc_exit :
  outs (fun f _ x => fn_id f + x) init
       [Connect f0 ByName None false; SilentEnter; Emit 0 1 7 None; SilentExitExc; Emit 0 1 7 None;
        SetSilent true; SilentEnter; SetSilent false; SilentExitExc; Emit 0 1 7 None] =
  [ONone; ONone; OEmit [] RNone; ONone; OEmit [mkcall f0 1 7] (RList [7]);
   ONone; ONone; ONone; ONone; OEmit [] RNone] /\
  silenced_all [@SilentEnter Z; SilentExitExc] = false /\ brackets_ok [@SilentExitExc Z] = false.
Proof. vm_compute. repeat split. Qed.

(* ---------------------------------------------------------------------------------------------
   Stage 3.  Callbacks that raise.  The statement's "calls exactly the currently registered
   callbacks ... returns the results" is read for callbacks that return; emit() has no try/except,
   so the first exception leaves emit(): [behx f sender arg = None] models a call that raises.
   For every well-bracketed history and every such behaviour, what emit does is [spec_emit_x],
   defined on the history: nothing while silenced; otherwise the expected calls (same list as in
   C19_dispatch_all) are made in order until one raises, whose exception propagates -- later
   callbacks are not called, no value is returned; and the registry / flag are untouched. *)
Theorem C19_dispatch_raising : forall (Arg Res : Type) (behx : func -> Z -> Arg -> option Res)
    (p : list (op Arg)) (ev snd : Z) (a : Arg) (single : option bool) (rest : list (op Arg)),
  brackets_ok p = true ->
  nth_error (outs_x behx init (p ++ Emit ev snd a single :: rest)) (length p) =
  Some (spec_emit_x behx p ev snd a single) /\
  exec_x behx init (p ++ [Emit ev snd a single]) = exec_x behx init p.
Proof. exact dispatch_raising. Qed.
Print Assumptions C19_dispatch_raising.

(* the prefix property, spelled out: with all results requested either some expected call x raises,
   everything before it returned, and exactly l1 ++ [x] was called; or none raises and the outcome is
   the one of the statement.  With a single result requested only the first expected callback is
   ever called (it raises or its result is returned). *)
Theorem C19_raising_prefix : forall (Arg Res : Type) (behx : func -> Z -> Arg -> option Res)
    (reg : list entry) (ev snd : Z) (a : Arg),
  let l := map (call_of snd a) (expected ev snd reg) in
  ((exists l1 x l2, l = l1 ++ x :: l2 /\ Forall (fun y => resultx behx y <> None) l1 /\
                    resultx behx x = None /\ emit_body_x behx reg ev snd a None = XRaise (l1 ++ [x])) \/
   (exists vs, map (resultx behx) l = map Some vs /\
               emit_body_x behx reg ev snd a None = XEmit l (RList vs))) /\
  (emit_body_x behx reg ev snd a (Some true) =
   match l with
   | [] => XEmit [] (RList [])
   | x :: _ => match resultx behx x with None => XRaise [x] | Some v => XEmit [x] (RSingle v) end
   end).
Proof. exact raising_prefix. Qed.
Print Assumptions C19_raising_prefix.

(* callbacks that never raise: exactly the behaviour of C19_dispatch_all *)
Theorem C19_raising_conservative : forall (Arg Res : Type) (beh : func -> Z -> Arg -> Res)
    (p : list (op Arg)) (ev snd : Z) (a : Arg) (single : option bool),
  spec_emit_x (fun f s x => Some (beh f s x)) p ev snd a single =
  lift_out (spec_emit_all beh p ev snd a single).
Proof. exact raising_conservative. Qed.
Print Assumptions C19_raising_conservative.

Definition ex_behx (f : func) (_ : Z) (x : Z) : option Z := if fn_id f =? 1 then None else Some (fn_id f + x).
Definition ex_histx : list (op Z) :=
  [Connect f2 (Explicit 0) None true; Connect f0 ByName None false; Connect f1 (Explicit 0) None false;
   Connect m3 ByName None false].
Example C19_ex_raise :       (* f0 returns, f1 raises: m3 and the 'last' f2 are never called *)
  outs_x ex_behx init (ex_histx ++ [Emit 0 1 7 None; Unconnect [TFunc f1]; Emit 0 1 7 None]) =
  [XNone; XNone; XNone; XNone; XRaise [mkcall f0 1 7; mkcall f1 1 7]; XNone;
   XEmit [mkcall f0 1 7; mkcall m3 1 7; mkcall f2 1 7] (RList [7; 10; 9])].
Proof. vm_compute. reflexivity. Qed.
Example C19_ex_raise_single : (* single: f0 is the only call; the raiser is not reached *)
  spec_emit_x ex_behx ex_histx 0 1 7 (Some true) = XEmit [mkcall f0 1 7] (RSingle 7).
Proof. vm_compute. reflexivity. Qed.

(* ---------------------------------------------------------------------------------------------
   Stage 3.  Progress reporter: the checker of the correspondence is EXACT, and accessors.

   [progress_spec_b h obs] (Spec.v) is what the correspondence evaluates on the announcements
   observed from phylib (clause 26).  It accepts obs iff obs has one entry per operation and entry
   k tells whether completion is announced during operation k in the sense of C19_progress (the
   statement): soundness (->) and completeness (<-) of the checker. *)
Theorem C19_progress_checker_exact : forall (h : list pop) (obs : list bool),
  progress_spec_b h obs = true <->
  (length obs = length h /\
   forall k o, nth_error h k = Some o -> (nth k obs false = true <-> Completes (firstn k h) o)).
Proof. exact progress_checker_exact. Qed.
Print Assumptions C19_progress_checker_exact.

(* ... equivalently: exactly the announcement trace the executable model produces *)
Theorem C19_progress_checker_model : forall (h : list pop) (obs : list bool),
  progress_spec_b h obs = true <-> obs = map (existsb is_cev) (pouts pinit h).
Proof. exact progress_checker_model. Qed.
Print Assumptions C19_progress_checker_model.

(* is_complete() after history p: value >= maximum, read on the history; it is true whenever an
   announcement is pending (announced and not re-armed since), and right after a value update it
   is true exactly when that update reaches the maximum *)
Theorem C19_is_complete : forall (p : list pop),
  is_complete (pexec pinit p) = (value_after p >=? max_after p) /\
  (Pending p -> is_complete (pexec pinit p) = true) /\
  (forall o, is_update o = true -> (is_complete (pexec pinit (p ++ [o])) = true <-> Reaches p o)).
Proof. exact is_complete_reading. Qed.
Print Assumptions C19_is_complete.

(* keyword arguments of increment / set_complete: the state evolves as without them, and every
   event of the operation -- progress AND complete -- carries exactly those keyword arguments
   (none for the value setter); so all the theorems above apply to the events with the keyword
   arguments erased *)
Theorem C19_kwargs_passthrough : forall (K : Type) (nokw : K) (s : pstate) (o : popk K),
  pstep_k nokw s o =
  (fst (pstep s (pk_op o)), map (fun e => (e, kw_of nokw o)) (snd (pstep s (pk_op o)))).
Proof. exact kwargs_passthrough. Qed.
Print Assumptions C19_kwargs_passthrough.

Example C19_ex_checker :     (* the trace of C19_ex_progress is accepted, a trace with a repeated announcement is not *)
  let h := [PSetMax 1; PSetValue 1; PSetValue 1; PReset None; PSetValue 1; PReset (Some 3); PSetComplete] in
  progress_spec_b h [false; true; false; false; true; false; true] = true /\
  progress_spec_b h [false; true; true; false; true; false; true] = false /\
  progress_spec_b h [false; true; false; false; false; false; true] = false.
Proof. vm_compute. repeat split. Qed.
Example C19_ex_kwargs :
  snd (pstep_k 0 (mkp 1 2 false) (mkpk PInc 7)) = [(EvProgress 2 2, 7); (EvComplete, 7)] /\
  snd (pstep_k 0 (mkp 1 2 false) (mkpk (PSetValue 2) 7)) = [(EvProgress 2 2, 0); (EvComplete, 0)] /\
  is_complete (pexec pinit [PSetMax 2; PInc]) = false /\ is_complete (pexec pinit [PSetMax 2; PInc; PInc]) = true.
Proof. vm_compute. repeat split. Qed.

(* ---------------------------------------------------------------------------------------------
   Stage 3.  The emit clauses of the comparator (coq/theories/C19/Corr.v, codes 21-25, evaluated on
   what phylib did, with the harness's recording callbacks [Corr.beh0]) are exact: no code is raised
   for an observed emit outcome o iff o is what the history reading prescribes.  So a clean
   correspondence run means observed = [spec_emit_all], and any deviation raises a clause. *)
Theorem C19_emit_checker_exact : forall (p : list Corr.hop) (ev snd : Z) (a : Corr.payload)
    (single : option bool) (o : Corr.hout),
  Corr.emit_clauses p ev snd a single (Corr.Ob o) = [] <->
  o = spec_emit_all Corr.beh0 p ev snd a single.
Proof. exact Proofs6.emit_clauses_exact. Qed.
Print Assumptions C19_emit_checker_exact.

Example C19_ex_emit_checker :   (* a wrong order raises 22 only; a missing call 21 and 22; the prescribed outcome nothing *)
  let a := Corr.mkpl [7] [] in
  let p := [Connect f2 (Explicit 0) None true; Connect f0 ByName None false] : list Corr.hop in
  Corr.emit_clauses p 0 1 a None
    (Corr.Ob (OEmit [mkcall f2 1 a; mkcall f0 1 a] (RList [mkcall f2 1 a; mkcall f0 1 a]))) = [22] /\
  Corr.emit_clauses p 0 1 a None (Corr.Ob (OEmit [mkcall f0 1 a] (RList [mkcall f0 1 a]))) = [21; 22] /\
  Corr.emit_clauses p 0 1 a None
    (Corr.Ob (OEmit [mkcall f0 1 a; mkcall f2 1 a] (RList [mkcall f0 1 a; mkcall f2 1 a]))) = [].
Proof. vm_compute. repeat split. Qed.

(* ---------------------------------------------------------------------------------------------
   Stage 3.  Totality / error exits of the emitter model.
   The model answers "not a Python program" (OBad; comparator code 3) exactly for histories that
   leave a silent() block that is not open -- every other history is inside the theorems above. *)
Theorem C19_regime : forall (Arg Res : Type) (beh : func -> Z -> Arg -> Res) (h : list (op Arg)),
  existsb (fun o => match o with OBad => true | _ => false end) (outs beh init h) = negb (brackets_ok h).
Proof. exact (fun Arg Res beh h => bad_iff_brackets Arg Res beh h init). Qed.
Print Assumptions C19_regime.

(* connect raises ValueError exactly when the event has to come from a function name that is not
   on_<event>, and then registers nothing; otherwise it returns normally and the callback is
   appended to the registered ones *)
Theorem C19_connect_outcome : forall (Arg Res : Type) (beh : func -> Z -> Arg -> Res)
    (p : list (op Arg)) f st sf l rest,
  nth_error (outs beh init (p ++ Connect f st sf l :: rest)) (length p) =
    Some (match entry_of f st sf l with Some _ => ONone | None => OError end) /\
  registered (p ++ [@Connect Arg f st sf l]) =
    registered p ++ (match entry_of f st sf l with Some c => [c] | None => [] end) /\
  (entry_of f st sf l = None <-> st = ByName /\ fn_name f = None).
Proof. exact connect_outcome. Qed.
Print Assumptions C19_connect_outcome.

Example C19_ex_regime_bad :
  existsb (fun o => match o with OBad => true | _ => false end)
          (outs (fun _ _ (x : Z) => x) init [SilentEnter; SilentExit; SilentExit]) = true /\
  brackets_ok [@SilentEnter Z; SilentExit; SilentExit] = false.
Proof. vm_compute. split; reflexivity. Qed.
