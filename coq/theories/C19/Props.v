(* C19/Props.v *)
From Coq Require Import ZArith List Lia Bool.
From PV Require Import C19.Model C19.Spec C19.Proofs.
Import ListNotations.
Open Scope Z_scope.

Theorem C19_stub : forall (Arg Res : Type) (beh : func -> Z -> Arg -> Res) s ev snd a single,
  flag s = true -> emit beh s ev snd a single = OEmit [] RNone.
Proof. exact emit_silent_nothing. Qed.
Print Assumptions C19_stub.
