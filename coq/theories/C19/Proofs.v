(* C19/Proofs.v -- event dispatch: the state machine of Model.v refines the history reading of Spec.v *)
From Coq Require Import ZArith List Lia Bool Sorted.
From PV Require Import C19.Model C19.Spec.
Import ListNotations.
Open Scope Z_scope.

(* ---------- equality tests ---------- *)
Lemma optZ_eqb_eq a b : optZ_eqb a b = true <-> a = b.
Proof.
  destruct a as [x|], b as [y|]; cbn [optZ_eqb]; split; intros H; try discriminate; try reflexivity.
  - apply Z.eqb_eq in H. now subst.
  - injection H as ->. apply Z.eqb_refl.
Qed.

Lemma func_eqb_eq f g : func_eqb f g = true <-> f = g.
Proof.
  destruct f as [i n o], g as [i' n' o']. unfold func_eqb. cbn [fn_id fn_name fn_owner].
  rewrite !andb_true_iff, Z.eqb_eq, !optZ_eqb_eq. split.
  - intros [[-> ->] ->]. reflexivity.
  - intros H. injection H as -> -> ->. auto.
Qed.

Lemma is_some_eq_iff o x : is_some_eq o x = true <-> o = Some x.
Proof.
  destruct o as [y|]; cbn [is_some_eq]; split; intros H; try discriminate.
  - apply Z.eqb_eq in H. now subst.
  - injection H as ->. apply Z.eqb_refl.
Qed.

Lemma target_hits_iff t c : target_hits t c = true <-> Targets t c.
Proof.
  destruct t as [g|o]; cbn [target_hits Targets].
  - apply func_eqb_eq.
  - rewrite orb_true_iff, !is_some_eq_iff. tauto.
Qed.

(* ---------- list helpers ---------- *)
Lemma filter_true {A} (f : A -> bool) (l : list A) : (forall x, f x = true) -> filter f l = l.
Proof. intros H. induction l as [|x l IH]; cbn [filter]; [reflexivity|]. rewrite H, IH. reflexivity. Qed.

Lemma filter_false {A} (f : A -> bool) (l : list A) : (forall x, f x = false) -> filter f l = [].
Proof. intros H. induction l as [|x l IH]; cbn [filter]; [reflexivity|]. rewrite H, IH. reflexivity. Qed.

Lemma filter_comm {A} (f g : A -> bool) (l : list A) : filter f (filter g l) = filter g (filter f l).
Proof.
  induction l as [|x l IH]; [reflexivity|]. cbn [filter].
  destruct (g x) eqn:G, (f x) eqn:F; cbn [filter]; rewrite ?G, ?F, IH; reflexivity.
Qed.

Section Dispatch.
Variables Arg Res : Type.
Variable beh : func -> Z -> Arg -> Res.
Notation op := (op Arg).

Lemma kills_iff (o : op) c : kills o c = true <-> Kills o c.
Proof.
  unfold Kills. destruct o; cbn [kills]; split; intros H; try discriminate; try reflexivity; try (now left);
    try (destruct H as [H|(it & t & H & _)]; discriminate).
  - right. unfold hit in H. apply existsb_exists in H. destruct H as (t & Hin & Ht).
    exists items, t. split; [reflexivity|]. split; [exact Hin|]. apply target_hits_iff, Ht.
  - destruct H as [H|(it & t & H & Hin & Ht)]; [discriminate|]. injection H as ->.
    unfold hit. apply existsb_exists. exists t. split; [exact Hin|]. apply target_hits_iff, Ht.
Qed.

Lemma survives_iff (later : list op) c :
  survives later c = true <-> forall j o, nth_error later j = Some o -> ~ Kills o c.
Proof.
  unfold survives. rewrite forallb_forall. split.
  - intros H j o Hn HK. apply nth_error_In in Hn. specialize (H o Hn).
    apply kills_iff in HK. rewrite HK in H. discriminate.
  - intros H o Hin. apply In_nth_error in Hin. destruct Hin as (j & Hj).
    destruct (kills o c) eqn:E; [|reflexivity]. exfalso. apply (H j o Hj). apply kills_iff, E.
Qed.

(* ---------- the emit loop ---------- *)
Lemma emit_loop_all ev snd a l calls res :
  emit_loop beh false ev snd a l calls res =
  OEmit (calls ++ map (call_of snd a) (filter (matches ev snd) l))
        (RList (res ++ map (fun c => beh (e_func c) snd a) (filter (matches ev snd) l))).
Proof.
  revert calls res. induction l as [|c l IH]; intros calls res; cbn [emit_loop filter].
  - cbn [map]. rewrite !app_nil_r. reflexivity.
  - destruct (matches ev snd c) eqn:M.
    + rewrite IH. cbn [map]. rewrite <- !app_assoc. reflexivity.
    + apply IH.
Qed.

Lemma emit_loop_single ev snd a l calls res :
  emit_loop beh true ev snd a l calls res =
  match filter (matches ev snd) l with
  | [] => OEmit calls (RList res)
  | c :: _ => OEmit (calls ++ [call_of snd a c]) (RSingle (beh (e_func c) snd a))
  end.
Proof.
  revert calls res. induction l as [|c l IH]; intros calls res; cbn [emit_loop filter]; [reflexivity|].
  destruct (matches ev snd c) eqn:M; [reflexivity|]. apply IH.
Qed.

(* the code partitions ALL callbacks into non-last / last and then selects the matching ones in the
   loop; the statement selects the matching ones and then orders them *)
Lemma partition_then_match ev snd (l : list entry) :
  filter (matches ev snd) (filter (fun c => negb (e_last c)) l ++ filter e_last l) =
  expected ev snd l.
Proof.
  unfold expected. rewrite filter_app. f_equal; apply filter_comm.
Qed.

Lemma emit_spec s p ev snd a single :
  cbs s = registered p -> flag s = silenced p ->
  emit beh s ev snd a single = spec_emit beh p ev snd a single.
Proof.
  intros Hc Hf. unfold emit, spec_emit. rewrite Hf. destruct (silenced p); [reflexivity|].
  rewrite Hc. destruct (truthy single).
  - rewrite emit_loop_single, partition_then_match.
    destruct (expected ev snd (registered p)) as [|c r]; reflexivity.
  - rewrite emit_loop_all, partition_then_match. cbn [app]. rewrite map_map. reflexivity.
Qed.

(* ---------- registry ---------- *)
Definition new_entry (o : op) : list entry :=
  match o with
  | Connect f st sf l => match entry_of f st sf l with Some c => [c] | None => [] end
  | _ => []
  end.

Lemma survives_snoc (later : list op) o c :
  survives (later ++ [o]) c = survives later c && negb (kills o c).
Proof. unfold survives. rewrite forallb_app. cbn [forallb]. rewrite andb_true_r. reflexivity. Qed.

Lemma registered_snoc (p : list op) (o : op) :
  registered (p ++ [o]) = filter (fun c => negb (kills o c)) (registered p) ++ new_entry o.
Proof.
  induction p as [|x p IH].
  - cbn [app registered filter]. unfold new_entry.
    destruct o; reflexivity.
  - rewrite <- app_comm_cons.
    assert (G : forall rest, registered (p ++ [o]) = rest ->
                registered (x :: p ++ [o]) =
                match x with
                | Connect f st sf l =>
                    match entry_of f st sf l with
                    | Some c => if survives (p ++ [o]) c then c :: rest else rest
                    | None => rest end
                | _ => rest end).
    { intros rest <-. destruct x; reflexivity. }
    rewrite (G _ IH). clear G.
    destruct x; try reflexivity. cbn [registered].
    destruct (entry_of f st sf last) as [c|]; [|reflexivity].
    rewrite survives_snoc. destruct (survives p c); cbn [andb].
    + cbn [filter]. destruct (negb (kills o c)); reflexivity.
    + reflexivity.
Qed.

Lemma step_cbs s p (o : op) :
  cbs s = registered p -> cbs (fst (step beh s o)) = registered (p ++ [o]).
Proof.
  intros H. rewrite registered_snoc, <- H. unfold new_entry.
  destruct o; cbn [step kills].
  - destruct (entry_of f st sf last); cbn [fst cbs].
    + rewrite filter_true by reflexivity. reflexivity.
    + rewrite filter_true by reflexivity. rewrite app_nil_r. reflexivity.
  - cbn [fst cbs]. rewrite app_nil_r. reflexivity.
  - cbn [fst cbs]. rewrite filter_false by reflexivity. reflexivity.
  - cbn [fst cbs]. rewrite filter_true by reflexivity. rewrite app_nil_r. reflexivity.
  - cbn [fst cbs]. rewrite filter_true by reflexivity. rewrite app_nil_r. reflexivity.
  - destruct (saved s); cbn [fst cbs]; rewrite filter_true by reflexivity; rewrite app_nil_r; reflexivity.
  - destruct (saved s); cbn [fst cbs]; rewrite filter_true by reflexivity; rewrite app_nil_r; reflexivity.
  - cbn [fst]. rewrite filter_true by reflexivity. rewrite app_nil_r. reflexivity.
Qed.

(* ---------- silencing ---------- *)
(* the saved values on the stack of open silent() blocks: popping them all gives back the last
   set_silent value, and every intermediate flag is True *)
Fixpoint stack_inv (ls fl : bool) (sv : list bool) : Prop :=
  match sv with [] => fl = ls | b :: r => fl = true /\ stack_inv ls b r end.

Definition sil_inv (p : list op) (s : state) : Prop :=
  length (filter is_enter p) = (length (filter is_exit p) + length (saved s))%nat /\
  stack_inv (last_set false p) (flag s) (saved s).

Lemma last_set_snoc d (p : list op) (o : op) :
  last_set d (p ++ [o]) = match o with SetSilent b => b | _ => last_set d p end.
Proof.
  revert d. induction p as [|x p IH]; intros d.
  - destruct o; reflexivity.
  - rewrite <- app_comm_cons. destruct x; cbn [last_set]; apply IH.
Qed.

Lemma sil_inv_flag p s : sil_inv p s -> flag s = silenced p.
Proof.
  intros [Hn Hs]. unfold silenced, open_contexts. destruct (saved s) as [|b r]; cbn [stack_inv length] in *.
  - replace (length (filter is_enter p) - length (filter is_exit p))%nat with 0%nat by lia.
    cbn [Nat.ltb Nat.leb orb]. exact Hs.
  - destruct Hs as [-> _].
    destruct (0 <? length (filter is_enter p) - length (filter is_exit p))%nat eqn:E; [reflexivity|].
    apply Nat.ltb_ge in E. lia.
Qed.

Lemma sil_step p s (o : op) rest :
  sil_inv p s -> silent_ok_from (length (saved s)) (o :: rest) = true ->
  sil_inv (p ++ [o]) (fst (step beh s o)) /\
  silent_ok_from (length (saved (fst (step beh s o)))) rest = true.
Proof.
  intros [Hn Hs] Hok. unfold sil_inv. rewrite !filter_app, !app_length, last_set_snoc.
  destruct o; cbn [silent_ok_from] in Hok; cbn [step filter is_enter is_exit length].
  - destruct (entry_of f st sf last); cbn [fst saved flag]; (split; [split; [lia|exact Hs]|exact Hok]).
  - cbn [fst saved flag]. split; [split; [lia|exact Hs]|exact Hok].
  - cbn [fst saved flag]. split; [split; [lia|exact Hs]|exact Hok].
  - cbn [fst saved flag]. apply andb_true_iff in Hok. destruct Hok as [Hd Hok].
    apply Nat.eqb_eq in Hd. destruct (saved s); [|discriminate Hd].
    split; [split; [cbn [length] in *; lia|reflexivity]|exact Hok].
  - cbn [fst saved flag length stack_inv]. split; [split; [lia|split; [reflexivity|exact Hs]]|exact Hok].
  - destruct (saved s) as [|b r]; cbn [length] in Hok; [discriminate|].
    cbn [fst saved flag length stack_inv] in *. split; [split; [lia|apply Hs]|exact Hok].
  - destruct (saved s) as [|b r]; cbn [length] in Hok; [discriminate|].
    cbn [fst saved flag length stack_inv] in *. split; [split; [lia|apply Hs]|exact Hok].
  - cbn [fst]. split; [split; [lia|exact Hs]|exact Hok].
Qed.

(* ---------- the refinement ---------- *)
Definition inv (p : list op) (s : state) : Prop := cbs s = registered p /\ sil_inv p s.

Lemma dispatch_gen (p2 : list op) : forall p s ev snd a single rest,
  inv p s -> silent_ok_from (length (saved s)) p2 = true ->
  nth_error (outs beh s (p2 ++ Emit ev snd a single :: rest)) (length p2) =
  Some (spec_emit beh (p ++ p2) ev snd a single).
Proof.
  induction p2 as [|o p2 IH]; intros p s ev sd a single rest [Hc Hs] Hok.
  - cbn [app outs length nth_error step snd]. rewrite app_nil_r. f_equal.
    apply emit_spec; [exact Hc|apply sil_inv_flag, Hs].
  - rewrite <- app_comm_cons. cbn [outs length nth_error].
    destruct (sil_step p s o p2 Hs Hok) as [Hs' Hok'].
    rewrite (IH (p ++ [o]) (fst (step beh s o)) ev sd a single rest).
    + rewrite <- app_assoc. reflexivity.
    + split; [apply step_cbs, Hc|exact Hs'].
    + exact Hok'.
Qed.

Lemma inv_init : inv [] init.
Proof. split; [reflexivity|]. split; reflexivity. Qed.

Theorem dispatch : forall (p : list op) ev snd a single rest,
  silent_ok p = true ->
  nth_error (outs beh init (p ++ Emit ev snd a single :: rest)) (length p) =
  Some (spec_emit beh p ev snd a single).
Proof.
  intros p ev snd a single rest Hok.
  exact (dispatch_gen p [] init ev snd a single rest inv_init Hok).
Qed.

(* ---------- what "registered" means, by positions ---------- *)
Lemma Registered_head (o : op) later c :
  Registered (o :: later) 0 c <->
  (exists f st sf l, o = Connect f st sf l /\ entry_of f st sf l = Some c) /\ survives later c = true.
Proof.
  unfold Registered. cbn [nth_error]. rewrite survives_iff. split.
  - intros [(f & st & sf & l & H & He) Hk]. split.
    + exists f, st, sf, l. split; [now injection H|exact He].
    + intros j x Hj. apply (Hk (S j) x); [lia|exact Hj].
  - intros [(f & st & sf & l & -> & He) Hk]. split.
    + exists f, st, sf, l. split; [reflexivity|exact He].
    + intros j x Hj Hn. destruct j as [|j]; [lia|]. apply (Hk j x Hn).
Qed.

Lemma Registered_tail (o : op) later i c :
  Registered (o :: later) (S i) c <-> Registered later i c.
Proof.
  unfold Registered. cbn [nth_error]. split; intros [H1 H2]; (split; [exact H1|]).
  - intros j x Hj Hn. apply (H2 (S j) x); [lia|exact Hn].
  - intros j x Hj Hn. destruct j as [|j]; [lia|]. apply (H2 j x); [lia|exact Hn].
Qed.

Lemma registered_ix_spec (p : list op) : forall base,
  map snd (registered_ix base p) = registered p /\
  (forall i c, In (i, c) (registered_ix base p) <-> (base <= i)%nat /\ Registered p (i - base) c).
Proof.
  induction p as [|o later IH]; intros base.
  - cbn [registered_ix registered map]. split; [reflexivity|]. intros i c. split; [intros []|].
    intros [_ [(f & st & sf & l & H & _) _]]. destruct (i - base)%nat; discriminate H.
  - destruct (IH (S base)) as [IHm IHi].
    (* membership in the tail, re-indexed *)
    assert (T : forall i c, In (i, c) (registered_ix (S base) later) <->
                            (S base <= i)%nat /\ Registered (o :: later) (i - base) c).
    { intros i c. rewrite IHi. split; intros [Hle HR]; (split; [exact Hle|]).
      - replace (i - base)%nat with (S (i - S base)) by lia. exact (proj2 (Registered_tail o later _ c) HR).
      - replace (i - base)%nat with (S (i - S base)) in HR by lia. exact (proj1 (Registered_tail o later _ c) HR). }
    assert (N : forall r, (* generic shape when the head contributes nothing *)
              (forall c, ~ Registered (o :: later) 0 c) ->
              r = registered_ix (S base) later ->
              forall i c, In (i, c) r <-> (base <= i)%nat /\ Registered (o :: later) (i - base) c).
    { intros r Hno -> i c. rewrite T. split.
      - intros [Hle HR]. split; [lia|exact HR].
      - intros [Hle HR]. destruct (Nat.eq_dec i base) as [->|Hne].
        + rewrite Nat.sub_diag in HR. exfalso. exact (Hno c HR).
        + split; [lia|exact HR]. }
    destruct o as [f st sf l|items| |b| | | |ev snd a single];
      try (cbn [registered_ix registered]; split; [exact IHm|];
           apply N; [|reflexivity]; intros c HR; apply Registered_head in HR;
           destruct HR as [(f' & st' & sf' & l' & H & _) _]; discriminate H).
    cbn [registered_ix registered].
    destruct (entry_of f st sf l) as [c0|] eqn:He.
    + destruct (survives later c0) eqn:Hsv.
      * cbn [map snd]. split; [f_equal; exact IHm|]. intros i c. cbn [In]. rewrite T. split.
        -- intros [H|[Hle HR]].
           ++ injection H as <- <-. split; [lia|]. rewrite Nat.sub_diag. apply Registered_head.
              split; [exists f, st, sf, l; split; [reflexivity|exact He]|exact Hsv].
           ++ split; [lia|exact HR].
        -- intros [Hle HR]. destruct (Nat.eq_dec i base) as [->|Hne].
           ++ left. rewrite Nat.sub_diag in HR. apply Registered_head in HR.
              destruct HR as [(f' & st' & sf' & l' & H & He') _]. injection H as <- <- <- <-.
              rewrite He in He'. injection He' as ->. reflexivity.
           ++ right. split; [lia|exact HR].
      * split; [exact IHm|]. apply N; [|reflexivity]. intros c HR. apply Registered_head in HR.
        destruct HR as [(f' & st' & sf' & l' & H & He') Hs]. injection H as <- <- <- <-.
        rewrite He in He'. injection He' as <-. rewrite Hsv in Hs. discriminate.
    + split; [exact IHm|]. apply N; [|reflexivity]. intros c HR. apply Registered_head in HR.
      destruct HR as [(f' & st' & sf' & l' & H & He') _]. injection H as <- <- <- <-.
      rewrite He in He'. discriminate.
Qed.

Lemma registered_ix_sorted (p : list op) : forall base,
  StronglySorted (fun a b => (fst a < fst b)%nat) (registered_ix base p).
Proof.
  induction p as [|o later IH]; intros base; [constructor|].
  assert (G : forall c, StronglySorted (fun a b => (fst a < fst b)%nat)
                                       ((base, c) :: registered_ix (S base) later)).
  { intros c. constructor; [apply IH|]. apply Forall_forall. intros [i c'] Hin.
    apply (proj2 (registered_ix_spec later (S base))) in Hin. cbn [fst]. lia. }
  destruct o; cbn [registered_ix]; try apply IH.
  destruct (entry_of f st sf last); [|apply IH]. destruct (survives later e); [apply G|apply IH].
Qed.

Theorem registered_meaning (p : list op) :
  map snd (registered_ix 0 p) = registered p /\
  StronglySorted (fun a b => (fst a < fst b)%nat) (registered_ix 0 p) /\
  (forall i c, In (i, c) (registered_ix 0 p) <-> Registered p i c).
Proof.
  split; [apply registered_ix_spec|]. split; [apply registered_ix_sorted|].
  intros i c. rewrite (proj2 (registered_ix_spec p 0)). rewrite Nat.sub_0_r. split; [tauto|]. intros H. split; [lia|exact H].
Qed.

(* ---------- shape of the expected call list ---------- *)
(* every call goes to a registered callback for that event whose filter admits the sender, and
   every such callback is called; non-last ones come first *)
Lemma expected_in ev snd (reg : list entry) c :
  In c (expected ev snd reg) <-> In c reg /\ matches ev snd c = true.
Proof.
  unfold expected. rewrite in_app_iff, !filter_In. destruct (e_last c); cbn [negb]; intuition congruence.
Qed.

Lemma expected_split ev snd (reg : list entry) :
  exists l1 l2, expected ev snd reg = l1 ++ l2 /\
                Forall (fun c => e_last c = false) l1 /\ Forall (fun c => e_last c = true) l2 /\
                l1 = filter (fun c => negb (e_last c)) (filter (matches ev snd) reg) /\
                l2 = filter e_last (filter (matches ev snd) reg).
Proof.
  eexists _, _. split; [reflexivity|]. split; [|split; [|split; reflexivity]].
  - apply Forall_forall. intros c H. apply filter_In in H. destruct H as [_ H].
    destruct (e_last c); [discriminate|reflexivity].
  - apply Forall_forall. intros c H. apply filter_In in H. apply H.
Qed.

Lemma matches_iff ev snd c :
  matches ev snd c = true <-> e_event c = ev /\ (e_sender c = None \/ e_sender c = Some snd).
Proof.
  unfold matches. rewrite andb_true_iff, Z.eqb_eq. destruct (e_sender c) as [s|].
  - rewrite Z.eqb_eq. split; intros [H1 H2]; (split; [exact H1|]).
    + right. now subst.
    + destruct H2 as [H2|H2]; [discriminate|]. now injection H2.
  - split; intros [H1 _]; (split; [exact H1|]); [now left|reflexivity].
Qed.

Lemma expected_in_prop ev snd (reg : list entry) c :
  In c (expected ev snd reg) <->
  In c reg /\ e_event c = ev /\ (e_sender c = None \/ e_sender c = Some snd).
Proof. rewrite expected_in, matches_iff. reflexivity. Qed.
End Dispatch.

Lemma guard_needed :
  exists (p : list (op Z)) ev snd a single,
    silent_ok p = false /\
    nth_error (outs (fun _ _ x => x) init (p ++ [Emit ev snd a single])) (length p) <>
    Some (spec_emit (fun _ _ x => x) p ev snd a single).
Proof.
  exists [Connect (mkfunc 0 None None) (Explicit 0) None false; SilentEnter; SetSilent false], 0, 0, 5, None.
  split; [reflexivity|]. vm_compute. intros H. discriminate H.
Qed.
