(* C19/Proofs.v *)
From Coq Require Import ZArith List Lia Bool.
From PV Require Import C19.Model C19.Spec.
Import ListNotations.
Open Scope Z_scope.

Lemma emit_silent_nothing (Arg Res : Type) (beh : func -> Z -> Arg -> Res) s ev snd a single :
  flag s = true -> emit beh s ev snd a single = OEmit [] RNone.
Proof. intros H. unfold emit. rewrite H. reflexivity. Qed.
