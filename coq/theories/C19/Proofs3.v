(* C19/Proofs3.v -- stage 3: silencing for all well-bracketed histories (set_silent inside silent()
   blocks included): the state machine's flag is the history-defined [silenced_all]; the dispatch
   refinement without the restriction of the first reading; what [silenced_all] means. *)
From Coq Require Import ZArith List Lia Bool Sorted.
From PV Require Import C19.Model C19.Spec C19.Proofs.
Import ListNotations.
Open Scope Z_scope.

Section Silencing.
Variables Arg Res : Type.
Variable beh : func -> Z -> Arg -> Res.
Notation op := (op Arg).

(* ---------- the invariant: flag and saved values are what the backwards scan finds ---------- *)
(* position 0 of [flag :: saved] is the flag now; position d >= 1 is the flag that was in force
   just before the d-th innermost open block was entered *)
Definition scan_inv (p : list op) (s : state) : Prop :=
  forall d, (d <= length (saved s))%nat ->
    nth_error (flag s :: saved s) d = Some (flag_scan d (rev p)).

Lemma scan_inv_init : scan_inv [] init.
Proof. intros d Hd. cbn [init saved length] in Hd. assert (d = 0%nat) as -> by lia. reflexivity. Qed.

Lemma scan_step p s (o : op) rest :
  scan_inv p s -> brackets_ok_from (length (saved s)) (o :: rest) = true ->
  scan_inv (p ++ [o]) (fst (step beh s o)) /\
  brackets_ok_from (length (saved (fst (step beh s o)))) rest = true.
Proof.
  intros H Hok. unfold scan_inv. rewrite rev_unit.
  destruct o; cbn [brackets_ok_from] in Hok; cbn [step flag_scan].
  - destruct (entry_of f st sf last); cbn [fst saved flag]; (split; [exact H|exact Hok]).
  - cbn [fst saved flag]. split; [exact H|exact Hok].
  - cbn [fst saved flag]. split; [exact H|exact Hok].
  - cbn [fst saved flag]. split; [|exact Hok]. intros d Hd. destruct d as [|d]; [reflexivity|].
    cbn [nth_error]. exact (H (S d) Hd).
  - cbn [fst saved flag length]. split; [|exact Hok]. intros d Hd. destruct d as [|d]; [reflexivity|].
    cbn [nth_error]. apply (H d). lia.
  - destruct (saved s) as [|b r] eqn:E; cbn [length] in Hok; [discriminate|].
    cbn [fst saved flag length]. split; [|exact Hok]. intros d Hd.
    specialize (H (S d)). rewrite E in H. cbn [length nth_error] in H. cbn [nth_error]. apply H. lia.
  - destruct (saved s) as [|b r] eqn:E; cbn [length] in Hok; [discriminate|].
    cbn [fst saved flag length]. split; [|exact Hok]. intros d Hd.
    specialize (H (S d)). rewrite E in H. cbn [length nth_error] in H. cbn [nth_error]. apply H. lia.
  - cbn [fst]. split; [exact H|exact Hok].
Qed.

Lemma scan_inv_flag p s : scan_inv p s -> flag s = silenced_all p.
Proof. intros H. specialize (H 0%nat (Nat.le_0_l _)). cbn [nth_error] in H. now injection H. Qed.

(* ---------- the refinement for all well-bracketed histories ---------- *)
Lemma emit_body_eq p ev snd a single :
  spec_emit beh p ev snd a single =
  if silenced p then OEmit [] RNone else emit_body beh (registered p) ev snd a single.
Proof. reflexivity. Qed.

Lemma emit_spec_all s p ev snd a single :
  cbs s = registered p -> flag s = silenced_all p ->
  emit beh s ev snd a single = spec_emit_all beh p ev snd a single.
Proof.
  intros Hc Hf. unfold emit, spec_emit_all, emit_body. rewrite Hf. destruct (silenced_all p); [reflexivity|].
  rewrite Hc. destruct (truthy single).
  - rewrite emit_loop_single, partition_then_match.
    destruct (expected ev snd (registered p)) as [|c r]; reflexivity.
  - rewrite emit_loop_all, partition_then_match. cbn [app]. rewrite map_map. reflexivity.
Qed.

Definition inv_all (p : list op) (s : state) : Prop := cbs s = registered p /\ scan_inv p s.

Lemma inv_all_init : inv_all [] init.
Proof. split; [reflexivity|apply scan_inv_init]. Qed.

Lemma exec_inv_all (p2 : list op) : forall p s,
  inv_all p s -> brackets_ok_from (length (saved s)) p2 = true ->
  inv_all (p ++ p2) (exec beh s p2).
Proof.
  induction p2 as [|o p2 IH]; intros p s [Hc Hs] Hok.
  - rewrite app_nil_r. split; assumption.
  - cbn [exec]. destruct (scan_step p s o p2 Hs Hok) as [Hs' Hok'].
    replace (p ++ o :: p2) with ((p ++ [o]) ++ p2) by (rewrite <- app_assoc; reflexivity).
    apply IH; [split; [apply step_cbs, Hc|exact Hs']|exact Hok'].
Qed.

Lemma outs_app_nth (p2 : list op) : forall s o rest,
  nth_error (outs beh s (p2 ++ o :: rest)) (length p2) = Some (snd (step beh (exec beh s p2) o)).
Proof.
  induction p2 as [|x p2 IH]; intros s o rest; [reflexivity|].
  rewrite <- app_comm_cons. cbn [outs length nth_error exec]. apply IH.
Qed.

Theorem dispatch_all : forall (p : list op) ev sd a single rest,
  brackets_ok p = true ->
  nth_error (outs beh init (p ++ Emit ev sd a single :: rest)) (length p) =
  Some (spec_emit_all beh p ev sd a single).
Proof.
  intros p ev sd a single rest Hok. rewrite outs_app_nth. cbn [step snd]. f_equal.
  destruct (exec_inv_all p [] init inv_all_init Hok) as [Hc Hs]. cbn [app] in Hc, Hs.
  apply emit_spec_all; [exact Hc|apply scan_inv_flag, Hs].
Qed.

(* the model's flag after ANY well-bracketed history is [silenced_all], its registry [registered] *)
Theorem state_after : forall (p : list op),
  brackets_ok p = true ->
  cbs (exec beh init p) = registered p /\ flag (exec beh init p) = silenced_all p /\
  length (saved (exec beh init p)) =
    (length (filter is_enter p) - length (filter is_exit p))%nat.
Proof.
  intros p Hok. destruct (exec_inv_all p [] init inv_all_init Hok) as [Hc Hs]. cbn [app] in Hc, Hs.
  split; [exact Hc|]. split; [apply scan_inv_flag, Hs|].
  (* depth *)
  clear Hc Hs. unfold brackets_ok in Hok.
  assert (G : forall (q : list op) s, brackets_ok_from (length (saved s)) q = true ->
            (length (saved (exec beh s q)) + length (filter is_exit q) =
             length (saved s) + length (filter is_enter q))%nat /\
            (length (filter is_exit q) <= length (saved s) + length (filter is_enter q))%nat).
  { induction q as [|o q IH]; intros s H; [cbn; lia|].
    cbn [exec]. destruct o; cbn [brackets_ok_from] in H; cbn [filter is_enter is_exit length].
    - assert (E : saved (fst (step beh s (Connect f st sf last))) = saved s)
        by (cbn [step]; destruct (entry_of f st sf last); reflexivity).
      specialize (IH (fst (step beh s (Connect f st sf last)))). rewrite E in IH. apply IH, H.
    - apply (IH (fst (step beh s (Unconnect items)))), H.
    - apply (IH (fst (step beh s Reset))), H.
    - apply (IH (fst (step beh s (SetSilent b)))), H.
    - specialize (IH (fst (step beh s SilentEnter))). cbn [step fst saved length] in IH.
      specialize (IH H). cbn [step fst]. lia.
    - cbn [step]. destruct (saved s) as [|b r] eqn:E; cbn [length] in H; [discriminate|].
      specialize (IH (mkstate (cbs s) b r)). cbn [saved] in IH. specialize (IH H).
      cbn [fst length]. lia.
    - cbn [step]. destruct (saved s) as [|b r] eqn:E; cbn [length] in H; [discriminate|].
      specialize (IH (mkstate (cbs s) b r)). cbn [saved] in IH. specialize (IH H).
      cbn [fst length]. lia.
    - apply (IH (fst (step beh s (Emit ev snd a single)))), H. }
  destruct (G p init Hok) as [G1 G2]. cbn [init saved length] in G1, G2. lia.
Qed.

(* ---------- relation with the first reading ---------- *)
Lemma silent_ok_brackets (p : list op) : forall d,
  silent_ok_from d p = true -> brackets_ok_from d p = true.
Proof.
  induction p as [|o p IH]; intros d H; [reflexivity|].
  destruct o; cbn [silent_ok_from brackets_ok_from] in *; try (apply IH, H).
  - apply andb_true_iff in H. apply IH, H.
  - destruct d; [discriminate|apply IH, H].
  - destruct d; [discriminate|apply IH, H].
Qed.

Lemma exec_sil_inv (p2 : list op) : forall p s,
  sil_inv Arg p s -> silent_ok_from (length (saved s)) p2 = true -> sil_inv Arg (p ++ p2) (exec beh s p2).
Proof.
  induction p2 as [|o p2 IH]; intros p s Hs Hok.
  - rewrite app_nil_r. exact Hs.
  - cbn [exec]. destruct (sil_step Arg Res beh p s o p2 Hs Hok) as [Hs' Hok'].
    replace (p ++ o :: p2) with ((p ++ [o]) ++ p2) by (rewrite <- app_assoc; reflexivity).
    apply IH; assumption.
Qed.

(* inside the first reading (no set_silent inside a block) the two definitions agree *)
Theorem silenced_agree (p : list op) :
  silent_ok p = true -> brackets_ok p = true /\ silenced_all p = silenced p.
Proof.
  intros H. assert (Hb : brackets_ok p = true) by (apply silent_ok_brackets, H). split; [exact Hb|].
  destruct (state_after p Hb) as (_ & <- & _).
  assert (Hs : sil_inv Arg ([] ++ p) (exec beh init p)).
  { apply exec_sil_inv; [|exact H]. split; reflexivity. }
  cbn [app] in Hs. apply (sil_inv_flag Arg), Hs.
Qed.

Theorem spec_emit_agree (p : list op) ev snd a single :
  silent_ok p = true -> spec_emit_all beh p ev snd a single = spec_emit beh p ev snd a single.
Proof.
  intros H. rewrite emit_body_eq. unfold spec_emit_all.
  destruct (silenced_agree p H) as [_ ->]. reflexivity.
Qed.

Theorem silenced_agree_full (p : list op) ev sd a single :
  silent_ok p = true ->
  brackets_ok p = true /\ silenced_all p = silenced p /\
  spec_emit_all beh p ev sd a single = spec_emit beh p ev sd a single.
Proof.
  intros H. destruct (silenced_agree p H) as [H1 H2].
  split; [exact H1|]. split; [exact H2|]. apply spec_emit_agree, H.
Qed.

(* ---------- what [silenced_all] means: five equations ---------- *)
Lemma scan_skip_balanced (b : list op) : balanced b ->
  forall d r, flag_scan (S d) (rev b ++ r) = flag_scan (S d) r.
Proof.
  induction 1 as [|o b Hen Hex Hb IH|b1 x b2 Hx H1 IH1 H2 IH2]; intros d r; [reflexivity| |].
  - cbn [rev]. rewrite <- app_assoc. cbn [app]. rewrite IH.
    destruct o; cbn [flag_scan]; try reflexivity; discriminate.
  - cbn [rev]. rewrite rev_app_distr. cbn [rev]. rewrite <- !app_assoc. cbn [app].
    rewrite IH2. destruct x; try discriminate Hx; cbn [flag_scan]; rewrite IH1; reflexivity.
Qed.

Theorem silenced_all_equations :
  silenced_all (@nil op) = false /\
  (forall (p : list op) b, silenced_all (p ++ [SetSilent b]) = b) /\
  (forall p : list op, silenced_all (p ++ [SilentEnter]) = true) /\
  (forall (p : list op) o, is_flag_op o = false -> silenced_all (p ++ [o]) = silenced_all p) /\
  (forall (p b : list op) x, balanced b -> is_exit x = true ->
     silenced_all (p ++ SilentEnter :: b ++ [x]) = silenced_all p).
Proof.
  unfold silenced_all. split; [reflexivity|]. split; [|split; [|split]].
  - intros p b. rewrite rev_unit. reflexivity.
  - intros p. rewrite rev_unit. reflexivity.
  - intros p o Ho. rewrite rev_unit. destruct o; try discriminate; reflexivity.
  - intros p b x Hb Hx. rewrite rev_app_distr. cbn [rev]. rewrite rev_app_distr. cbn [rev app].
    rewrite <- app_assoc. destruct x; try discriminate Hx; cbn [app flag_scan];
      rewrite (scan_skip_balanced b Hb); reflexivity.
Qed.

(* ---------- the equations determine the predicate on well-bracketed histories ---------- *)
Fixpoint depth_from (d : nat) (p : list op) : nat :=
  match p with
  | [] => d
  | SilentEnter :: r => depth_from (S d) r
  | SilentExit :: r | SilentExitExc :: r => depth_from (pred d) r
  | _ :: r => depth_from d r
  end.

Lemma brackets_snoc (p : list op) : forall d o,
  brackets_ok_from d (p ++ [o]) =
  brackets_ok_from d p && (negb (is_exit o) || (0 <? depth_from d p)%nat).
Proof.
  induction p as [|x p IH]; intros d o.
  - cbn [app brackets_ok_from depth_from]. destruct o; cbn [is_exit negb orb andb]; try reflexivity; destruct d; reflexivity.
  - rewrite <- app_comm_cons. destruct x; cbn [brackets_ok_from depth_from]; try apply IH;
      (destruct d; [reflexivity|apply IH]).
Qed.

Lemma depth_snoc (p : list op) : forall d o,
  depth_from d (p ++ [o]) =
  match o with
  | SilentEnter => S (depth_from d p)
  | SilentExit | SilentExitExc => pred (depth_from d p)
  | _ => depth_from d p
  end.
Proof.
  induction p as [|x p IH]; intros d o.
  - destruct o; reflexivity.
  - rewrite <- app_comm_cons. destruct x; cbn [depth_from]; apply IH.
Qed.

Lemma balanced_app (a b : list op) : balanced a -> balanced b -> balanced (a ++ b).
Proof.
  induction 1 as [|o a Hen Hex Ha IH|a1 a2 H1 IH1 H2 IH2]; intros Hb; [exact Hb| |].
  - cbn [app]. apply bal_other; auto.
  - cbn [app]. rewrite <- app_assoc. cbn [app]. apply bal_block; auto.
Qed.

(* an open block: the history splits at its `enter`, and what follows is balanced *)
Lemma open_split_n (n : nat) : forall (q : list op) k,
  (length q <= n)%nat -> brackets_ok q = true -> depth_from 0 q = S k ->
  exists p' b, q = p' ++ SilentEnter :: b /\ balanced b /\ brackets_ok p' = true /\ depth_from 0 p' = k.
Proof.
  unfold brackets_ok. induction n as [|n IH]; intros q k Hn Hok Hd.
  { destruct q; [discriminate Hd|cbn [length] in Hn; lia]. }
  destruct q as [|x q _] using rev_ind; [discriminate|].
  rewrite app_length in Hn. cbn [length] in Hn.
  rewrite brackets_snoc in Hok. apply andb_true_iff in Hok. destruct Hok as [Hq Hx].
  rewrite depth_snoc in Hd.
  assert (Other : is_enter x = false -> is_exit x = false -> depth_from 0 q = S k ->
                  exists p' b, q ++ [x] = p' ++ SilentEnter :: b /\ balanced b /\
                               brackets_ok_from 0 p' = true /\ depth_from 0 p' = k).
  { intros Hen Hex Hd'. destruct (IH q k ltac:(lia) Hq Hd') as (p' & b & -> & Hb & Hp & Hk).
    exists p', (b ++ [x]). split; [rewrite <- app_assoc; reflexivity|]. split; [|split; assumption].
    apply balanced_app; [exact Hb|]. apply bal_other; [exact Hen|exact Hex|constructor]. }
  destruct (is_exit x) eqn:Ex.
  - (* a leave, normal or by an exception *)
    assert (Hd' : pred (depth_from 0 q) = S k) by (destruct x; try discriminate Ex; exact Hd).
    destruct (depth_from 0 q) as [|m] eqn:En; [discriminate|]. cbn [pred] in Hd'. subst m.
    destruct (IH q (S k) ltac:(lia) Hq En) as (p1 & b1 & -> & Hb1 & Hp1 & Hk1).
    rewrite app_length in Hn. cbn [length] in Hn.
    destruct (IH p1 k ltac:(lia) Hp1 Hk1) as (p' & b0 & -> & Hb0 & Hp & Hk).
    exists p', (b0 ++ SilentEnter :: b1 ++ [x]).
    split; [rewrite <- !app_assoc; reflexivity|].
    split; [|split; assumption].
    apply balanced_app; [exact Hb0|]. apply (bal_block Arg b1 x []); [exact Ex|exact Hb1|constructor].
  - destruct (is_enter x) eqn:En'.
    + (* enter *) destruct x; try discriminate En'. injection Hd as Hd.
      exists q, []. split; [reflexivity|]. split; [constructor|]. split; assumption.
    + apply Other; [reflexivity|reflexivity|]. destruct x; try discriminate; exact Hd.
Qed.

(* a non-empty well-bracketed history ends with a non-`leave` operation or with a whole closed block *)
Lemma last_split (p : list op) :
  brackets_ok p = true -> p <> [] ->
  (exists p' o, p = p' ++ [o] /\ is_exit o = false /\ brackets_ok p' = true) \/
  (exists p' b x, p = p' ++ SilentEnter :: b ++ [x] /\ is_exit x = true /\ balanced b /\ brackets_ok p' = true).
Proof.
  intros Hok Hne. destruct p as [|x q _] using rev_ind; [congruence|]. clear Hne.
  unfold brackets_ok in *. rewrite brackets_snoc in Hok. apply andb_true_iff in Hok. destruct Hok as [Hq Hx].
  destruct (is_exit x) eqn:Ex.
  - right. cbn [negb orb] in Hx. apply Nat.ltb_lt in Hx.
    destruct (depth_from 0 q) as [|k] eqn:Ed; [lia|].
    destruct (open_split_n (length q) q k (le_n _) Hq Ed) as (p' & b & -> & Hb & Hp & _).
    exists p', b, x. split; [rewrite <- app_assoc; reflexivity|]. split; [exact Ex|]. split; assumption.
  - left. exists q, x. split; [reflexivity|]. split; assumption.
Qed.

(* any predicate satisfying the five equations is [silenced_all] on every well-bracketed history *)
Theorem silenced_all_unique (S' : list op -> bool) :
  S' [] = false ->
  (forall p b, S' (p ++ [SetSilent b]) = b) ->
  (forall p, S' (p ++ [SilentEnter]) = true) ->
  (forall p o, is_flag_op o = false -> S' (p ++ [o]) = S' p) ->
  (forall p b x, balanced b -> is_exit x = true -> S' (p ++ SilentEnter :: b ++ [x]) = S' p) ->
  forall p, brackets_ok p = true -> S' p = silenced_all p.
Proof.
  intros E0 E1 E2 E3 E4.
  destruct silenced_all_equations as (F0 & F1 & F2 & F3 & F4).
  assert (G : forall n (p : list op), (length p <= n)%nat -> brackets_ok p = true -> S' p = silenced_all p).
  { induction n as [|n IH]; intros p Hn Hok.
    - destruct p; [rewrite E0, F0; reflexivity|cbn [length] in Hn; lia].
    - destruct p as [|x0 p0] eqn:Ep; [rewrite E0, F0; reflexivity|]. rewrite <- Ep in *.
      assert (Hne : p <> []) by (rewrite Ep; discriminate). clear Ep.
      destruct (last_split p Hok Hne) as [(p' & o & -> & Ho & Hp)|(p' & b & x & -> & Hx & Hb & Hp)].
      + rewrite app_length in Hn. cbn [length] in Hn.
        destruct o; try discriminate Ho.
        * rewrite E3, F3 by reflexivity. apply IH; [lia|exact Hp].
        * rewrite E3, F3 by reflexivity. apply IH; [lia|exact Hp].
        * rewrite E3, F3 by reflexivity. apply IH; [lia|exact Hp].
        * rewrite E1, F1. reflexivity.
        * rewrite E2, F2. reflexivity.
        * rewrite E3, F3 by reflexivity. apply IH; [lia|exact Hp].
      + rewrite E4, F4 by assumption. apply IH; [|exact Hp].
        rewrite app_length in Hn. cbn [length] in Hn. lia. }
  intros p. apply (G (length p)). lia.
Qed.

(* ---------- totality: what the non-emit operations return; when the model says "not a program" ---------- *)
Definition is_bad (o : out Arg Res) : bool := match o with OBad => true | _ => false end.

Lemma saved_step s (o : op) :
  length (saved (fst (step beh s o))) =
  match o with
  | SilentEnter => S (length (saved s))
  | SilentExit | SilentExitExc => pred (length (saved s))
  | _ => length (saved s)
  end.
Proof.
  destruct o; cbn [step]; try reflexivity.
  - destruct (entry_of f st sf last); reflexivity.
  - destruct (saved s) as [|b r] eqn:E; cbn [fst saved length pred]; [rewrite E|]; reflexivity.
  - destruct (saved s) as [|b r] eqn:E; cbn [fst saved length pred]; [rewrite E|]; reflexivity.
Qed.

(* OBad is produced exactly by histories that leave a block that is not open *)
Theorem bad_iff_brackets (h : list op) : forall s,
  existsb is_bad (outs beh s h) = negb (brackets_ok_from (length (saved s)) h).
Proof.
  induction h as [|o h IH]; intros s; [reflexivity|].
  cbn [outs existsb]. rewrite IH, saved_step.
  destruct o as [f st sf last|items| |b| | | |ev sd a single]; cbn [brackets_ok_from step snd is_bad orb]; try reflexivity.
  - destruct (entry_of f st sf last); reflexivity.
  - destruct (saved s) as [|b r]; reflexivity.
  - destruct (saved s) as [|b r]; reflexivity.
  - unfold emit. destruct (Model.flag s); [reflexivity|].
    destruct (truthy single).
    + rewrite emit_loop_single. destruct (filter _ _); reflexivity.
    + rewrite emit_loop_all. reflexivity.
Qed.

(* connect: ValueError exactly when the event is to be derived from a name that is not on_<event>;
   then nothing is registered; otherwise the callback is appended *)
Theorem connect_outcome (p : list op) f st sf l rest :
  nth_error (outs beh init (p ++ Connect f st sf l :: rest)) (length p) =
    Some (match entry_of f st sf l with Some _ => ONone | None => OError end) /\
  registered (p ++ [Connect f st sf l]) =
    registered p ++ (match entry_of f st sf l with Some c => [c] | None => [] end) /\
  (entry_of f st sf l = None <-> st = ByName /\ fn_name f = None).
Proof.
  split; [|split].
  - rewrite outs_app_nth. cbn [step]. destruct (entry_of f st sf l); reflexivity.
  - rewrite registered_snoc. cbn [kills]. rewrite filter_true by reflexivity. reflexivity.
  - unfold entry_of. destruct st; [|split; [discriminate|intros [H _]; discriminate]].
    destruct (fn_name f); split; try discriminate; auto. intros [_ H]. discriminate.
Qed.
End Silencing.
