(* C19/Spec.v -- the property read on the HISTORY (the list of operations executed so far), not on
   the emitter's state; boolean checkers for the correspondence. *)
From Coq Require Import ZArith List Bool Lia Sorted.
From PV Require Import C19.Model.
Import ListNotations.
Open Scope Z_scope.

(* ---------- which unconnect item names which callback ---------- *)
Definition Targets (t : target) (c : entry) : Prop :=
  match t with
  | TFunc g => g = e_func c
  | TObj o => e_sender c = Some o \/ fn_owner (e_func c) = Some o
  end.

Section Dispatch.
Variables Arg Res : Type.
Variable beh : func -> Z -> Arg -> Res.
Notation op := (op Arg).

(* an operation that removes callback c from the registry *)
Definition kills (o : op) (c : entry) : bool :=
  match o with Reset => true | Unconnect items => hit items c | _ => false end.
Definition Kills (o : op) (c : entry) : Prop :=
  o = Reset \/ exists items t, o = Unconnect items /\ In t items /\ Targets t c.

Definition survives (later : list op) (c : entry) : bool := forallb (fun o => negb (kills o c)) later.

(* "currently registered", on the history p executed so far: the callbacks of the successful
   connect operations, in the order of those operations, that no LATER operation of p removed
   (a reset, or an unconnect naming the function, its sender filter or its owner). *)
Fixpoint registered (p : list op) : list entry :=
  match p with
  | [] => []
  | Connect f st sf l :: later =>
      match entry_of f st sf l with
      | Some c => if survives later c then c :: registered later else registered later
      | None => registered later
      end
  | _ :: later => registered later
  end.

(* the same list with the position of the connect operation in the history *)
Fixpoint registered_ix (base : nat) (p : list op) : list (nat * entry) :=
  match p with
  | [] => []
  | Connect f st sf l :: later =>
      match entry_of f st sf l with
      | Some c => if survives later c then (base, c) :: registered_ix (S base) later
                  else registered_ix (S base) later
      | None => registered_ix (S base) later
      end
  | _ :: later => registered_ix (S base) later
  end.

(* declarative reading, by positions *)
Definition Registered (p : list op) (i : nat) (c : entry) : Prop :=
  (exists f st sf l, nth_error p i = Some (Connect f st sf l) /\ entry_of f st sf l = Some c) /\
  forall j o, (i < j)%nat -> nth_error p j = Some o -> ~ Kills o c.

(* ---------- silenced, on the history ---------- *)
Definition is_enter (o : op) : bool := match o with SilentEnter => true | _ => false end.
Definition is_exit (o : op) : bool := match o with SilentExit | SilentExitExc => true | _ => false end.
(* number of silent() blocks entered and not yet left *)
Definition open_contexts (p : list op) : nat :=
  (length (filter is_enter p) - length (filter is_exit p))%nat.
(* argument of the most recent set_silent, False when there was none (EventEmitter.__init__) *)
Fixpoint last_set (d : bool) (p : list op) : bool :=
  match p with [] => d | SetSilent b :: r => last_set b r | _ :: r => last_set d r end.
Definition silenced (p : list op) : bool := (0 <? open_contexts p)%nat || last_set false p.

(* the histories of the reading (DESIGN.md C19): blocks are left only when open, and set_silent
   is not called inside a silent() block *)
Fixpoint silent_ok_from (d : nat) (p : list op) : bool :=
  match p with
  | [] => true
  | SetSilent _ :: r => (d =? 0)%nat && silent_ok_from d r
  | SilentEnter :: r => silent_ok_from (S d) r
  | SilentExit :: r | SilentExitExc :: r => match d with O => false | S d' => silent_ok_from d' r end
  | _ :: r => silent_ok_from d r
  end.
Definition silent_ok (p : list op) : bool := silent_ok_from 0 p.

(* ---------- what an emit must do ---------- *)
(* matching callbacks: non-'last' ones in registration order, then 'last' ones in registration order *)
Definition expected (ev snd : Z) (reg : list entry) : list entry :=
  filter (fun c => negb (e_last c)) (filter (matches ev snd) reg) ++
  filter e_last (filter (matches ev snd) reg).

Definition call_of (snd : Z) (a : Arg) (c : entry) : call Arg := mkcall (e_func c) snd a.
Definition result_of (x : call Arg) : Res := beh (c_func x) (c_sender x) (c_arg x).

Definition spec_emit (p : list op) (ev snd : Z) (a : Arg) (single : option bool) : out Arg Res :=
  if silenced p then OEmit [] RNone else
  let l := map (call_of snd a) (expected ev snd (registered p)) in
  if truthy single then
    match l with
    | [] => OEmit [] (RList [])
    | x :: _ => OEmit [x] (RSingle (result_of x))
    end
  else OEmit l (RList (map result_of l)).
End Dispatch.

Arguments kills {Arg}. Arguments Kills {Arg}. Arguments survives {Arg}. Arguments registered {Arg}.
Arguments registered_ix {Arg}. Arguments Registered {Arg}. Arguments is_enter {Arg}.
Arguments is_exit {Arg}. Arguments open_contexts {Arg}. Arguments last_set {Arg}.
Arguments silenced {Arg}. Arguments silent_ok_from {Arg}. Arguments silent_ok {Arg}.
Arguments call_of {Arg}. Arguments result_of {Arg Res}. Arguments spec_emit {Arg Res}.

(* ---------- progress reporter, on the history ---------- *)
(* the maximum after history p: argument of the last value_max assignment / reset(k), initially 0 *)
Definition max_step (m : Z) (o : pop) : Z :=
  match o with PSetMax x => x | PReset (Some x) => x | _ => m end.
Definition max_after (p : list pop) : Z := fold_left max_step p 0.
(* the value after a history given most-recent-first: the last absolute assignment (value = v,
   set_complete -> the maximum at that time, reset -> 0; initially 0) plus the increments since *)
Fixpoint value_rev (rp : list pop) : Z :=
  match rp with
  | [] => 0
  | PInc :: r => value_rev r + 1
  | PSetValue v :: _ => v
  | PSetComplete :: r => max_after (rev r)
  | PReset _ :: _ => 0
  | PSetMax _ :: r => value_rev r
  end.
Definition value_after (p : list pop) : Z := value_rev (rev p).

Definition is_update (o : pop) : bool :=
  match o with PInc | PSetValue _ | PSetComplete => true | _ => false end.
Definition sets_value (o : pop) : bool :=
  match o with PSetMax _ => false | _ => true end.

(* operation o, executed after history p, is a value update that reaches the maximum *)
Definition Reaches (p : list pop) (o : pop) : Prop :=
  is_update o = true /\ value_after (p ++ [o]) >= max_after (p ++ [o]).
(* operation o, executed after history p, sets the value below the maximum, or raises the maximum *)
Definition Rearms (p : list pop) (o : pop) : Prop :=
  (sets_value o = true /\ value_after (p ++ [o]) < max_after (p ++ [o])) \/
  max_after (p ++ [o]) > max_after p.
Definition reaches_b (p : list pop) (o : pop) : bool :=
  is_update o && (value_after (p ++ [o]) >=? max_after (p ++ [o])).
Definition rearms_b (p : list pop) (o : pop) : bool :=
  (sets_value o && (value_after (p ++ [o]) <? max_after (p ++ [o]))) ||
  (max_after (p ++ [o]) >? max_after p).

(* the model announces completion when o is executed after p *)
Definition Completes (p : list pop) (o : pop) : Prop :=
  In EvComplete (snd (pstep (pexec pinit p) o)).
Definition completes_b (p : list pop) (o : pop) : bool :=
  existsb (fun e => match e with EvComplete => true | _ => false end) (snd (pstep (pexec pinit p) o)).

(* no operation of p2 (executed after history pre) re-arms *)
Definition NoRearmIn (pre p2 : list pop) : Prop :=
  forall q1 x q2, p2 = q1 ++ x :: q2 -> ~ Rearms (pre ++ q1) x.

(* ---------- boolean checkers on observed traces (used by Corr.v) ---------- *)
Definition nth_op {A} (h : list A) (k : nat) : option A := nth_error h k.

(* the literal statement, evaluated on an observed trace: [obs_c k] = completion was announced
   during operation k.  For every k: announced at k  <->  operation k reaches the maximum and
   every earlier announcement j is followed, strictly before k, by a re-arming operation. *)
Definition progress_clause_at (h : list pop) (obs_c : list bool) (k : nat) : bool :=
  match nth_error h k, nth_error obs_c k with
  | Some o, Some b =>
      Bool.eqb b
        (reaches_b (firstn k h) o &&
         forallb (fun j => negb (nth j obs_c false) ||
                           existsb (fun i => match nth_error h i with
                                             | Some x => rearms_b (firstn i h) x
                                             | None => false end)
                                   (seq (S j) (k - S j)))
                 (seq 0 k))
  | _, _ => false
  end.
Definition progress_spec_b (h : list pop) (obs_c : list bool) : bool :=
  (length obs_c =? length h)%nat && forallb (progress_clause_at h obs_c) (seq 0 (length h)).

(* progress events: every value update emits exactly one progress(value, max), first; nothing else does *)
Definition progress_events_ok (p : list pop) (o : pop) (evs : list pev) : bool :=
  let v := value_after (p ++ [o]) in let m := max_after (p ++ [o]) in
  if is_update o then
    match evs with
    | EvProgress v' m' :: rest => (v' =? v) && (m' =? m) &&
        forallb (fun e => match e with EvComplete => true | _ => false end) rest
    | _ => false
    end
  else match evs with [] => true | _ => false end.

(* =============================================================================================
   Stage 3: silencing for ALL well-bracketed histories (set_silent allowed inside silent() blocks).
   The repaired silent() saves the flag on entry, sets it, and puts the saved value back on exit;
   set_silent inside the block changes the flag until the block is left.  On the history this reads:
   a CLOSED silent() block -- whatever it contains, set_silent calls included -- has no effect on
   silencing after it; apart from closed blocks the most recent of {set_silent(b), entering a
   still-open silent() block} decides (b, resp. silenced); with neither, not silenced. *)
Section Silencing.
Variables Arg Res : Type.
Variable beh : func -> Z -> Arg -> Res.
Notation op := (op Arg).

(* a silent() block is left only when one is open (a Python `with` cannot do otherwise) *)
Fixpoint brackets_ok_from (d : nat) (p : list op) : bool :=
  match p with
  | [] => true
  | SilentEnter :: r => brackets_ok_from (S d) r
  | SilentExit :: r | SilentExitExc :: r => match d with O => false | S d' => brackets_ok_from d' r end
  | _ :: r => brackets_ok_from d r
  end.
Definition brackets_ok (p : list op) : bool := brackets_ok_from 0 p.

(* the history read most-recent-first; d = number of `leave` operations seen whose `enter` has not
   been reached yet, i.e. we are reading inside d closed blocks, whose content is skipped *)
Fixpoint flag_scan (d : nat) (rp : list op) : bool :=
  match rp with
  | [] => false
  | SetSilent b :: r => match d with O => b | S _ => flag_scan d r end
  | SilentEnter :: r => match d with O => true | S d' => flag_scan d' r end
  | SilentExit :: r | SilentExitExc :: r => flag_scan (S d) r     (* a block is closed however it is left *)
  | _ :: r => flag_scan d r
  end.
Definition silenced_all (p : list op) : bool := flag_scan 0 (rev p).

(* sequences in which every block that is entered is left, and none is left that was not entered
   inside the sequence (the body of a `with silent():` statement that completed) *)
Inductive balanced : list op -> Prop :=
| bal_nil : balanced []
| bal_other o b : is_enter o = false -> is_exit o = false -> balanced b -> balanced (o :: b)
| bal_block b1 x b2 : is_exit x = true -> balanced b1 -> balanced b2 -> balanced (SilentEnter :: b1 ++ x :: b2).

Definition is_flag_op (o : op) : bool :=
  match o with SetSilent _ | SilentEnter | SilentExit | SilentExitExc => true | _ => false end.

(* what an emit does once silencing is decided: the body of [spec_emit] *)
Definition emit_body (reg : list entry) (ev snd : Z) (a : Arg) (single : option bool) : out Arg Res :=
  let l := map (call_of snd a) (expected ev snd reg) in
  if truthy single then
    match l with
    | [] => OEmit [] (RList [])
    | x :: _ => OEmit [x] (RSingle (result_of beh x))
    end
  else OEmit l (RList (map (result_of beh) l)).

Definition spec_emit_all (p : list op) (ev snd : Z) (a : Arg) (single : option bool) : out Arg Res :=
  if silenced_all p then OEmit [] RNone else emit_body (registered p) ev snd a single.
End Silencing.

Arguments brackets_ok_from {Arg}. Arguments brackets_ok {Arg}. Arguments flag_scan {Arg}.
Arguments silenced_all {Arg}. Arguments balanced {Arg}. Arguments is_flag_op {Arg}.
Arguments emit_body {Arg Res}. Arguments spec_emit_all {Arg Res}.

(* ---------- stage 3: callbacks that raise ---------- *)
Section Raising.
Variables Arg Res : Type.
Variable behx : func -> Z -> Arg -> option Res.
Notation op := (op Arg).

Definition resultx (x : call Arg) : option Res := behx (c_func x) (c_sender x) (c_arg x).

(* make the expected calls in order until one raises *)
Fixpoint run_calls (l done : list (call Arg)) (res : list Res) : outx Arg Res :=
  match l with
  | [] => XEmit done (RList res)
  | x :: r => match resultx x with
              | None => XRaise (done ++ [x])
              | Some v => run_calls r (done ++ [x]) (res ++ [v])
              end
  end.

Definition emit_body_x (reg : list entry) (ev snd : Z) (a : Arg) (single : option bool) : outx Arg Res :=
  let l := map (call_of snd a) (expected ev snd reg) in
  if truthy single then
    match l with
    | [] => XEmit [] (RList [])
    | x :: _ => match resultx x with None => XRaise [x] | Some v => XEmit [x] (RSingle v) end
    end
  else run_calls l [] [].

Definition spec_emit_x (p : list op) (ev snd : Z) (a : Arg) (single : option bool) : outx Arg Res :=
  if silenced_all p then XEmit [] RNone else emit_body_x (registered p) ev snd a single.
End Raising.
Arguments resultx {Arg Res}. Arguments run_calls {Arg Res}. Arguments emit_body_x {Arg Res}.
Arguments spec_emit_x {Arg Res}.

Definition lift_out {Arg Res} (o : out Arg Res) : outx Arg Res :=
  match o with ONone => XNone | OError => XError | OBad => XBad | OEmit c r => XEmit c r end.
