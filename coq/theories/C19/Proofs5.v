(* C19/Proofs5.v -- stage 3, progress reporter:
   (a) the boolean checker [progress_spec_b] used by the correspondence accepts EXACTLY the traces
       that satisfy the statement (soundness and completeness);
   (b) accessors: is_complete(), keyword arguments of increment / set_complete. *)
From Coq Require Import ZArith List Lia Bool ZifyBool.
From PV Require Import C19.Model C19.Spec C19.Proofs2.
Import ListNotations.
Open Scope Z_scope.

Definition is_cev (e : pev) : bool := match e with EvComplete => true | _ => false end.

Lemma completes_b_iff p o : completes_b p o = true <-> Completes p o.
Proof.
  unfold completes_b, Completes. rewrite existsb_exists. split.
  - intros (e & Hin & He). destruct e; [discriminate|exact Hin].
  - intros H. exists EvComplete. split; [exact H|reflexivity].
Qed.

Definition dn (p : list pop) : bool := p_done (st p).

(* [step_facts] in boolean form *)
Lemma step_bool p o :
  completes_b p o = reaches_b p o && negb (dn p) /\
  dn (p ++ [o]) = (if rearms_b p o then false else dn p || completes_b p o) /\
  (rearms_b p o = true -> completes_b p o = false).
Proof.
  destruct (step_facts p o) as (F1 & F2 & F3 & F4 & F5). cbv zeta in *. fold (dn p) in *. fold (dn (p ++ [o])) in *.
  assert (R := rearms_b_iff p o). assert (C := completes_b_iff p o). assert (Q := reaches_b_iff p o).
  destruct (rearms_b p o), (completes_b p o), (reaches_b p o), (dn p), (dn (p ++ [o])); cbn [andb orb negb];
    intuition (try discriminate; try congruence).
Qed.

(* ---------- the model's announcement trace, by positions ---------- *)
Definition c_at (h : list pop) (k : nat) : bool :=
  match nth_error h k with Some o => completes_b (firstn k h) o | None => false end.
Definition ctrace (h : list pop) : list bool := map (c_at h) (seq 0 (length h)).
Definition r_at (h : list pop) (i : nat) : bool :=
  match nth_error h i with Some x => rearms_b (firstn i h) x | None => false end.
(* "every earlier announcement j is followed, strictly before k, by a re-arming operation" *)
Definition N (h : list pop) (cs : list bool) (k : nat) : bool :=
  forallb (fun j => negb (nth j cs false) || existsb (r_at h) (seq (S j) (k - S j))) (seq 0 k).

Lemma forallb_ext_in {A} (f g : A -> bool) l : (forall x, In x l -> f x = g x) -> forallb f l = forallb g l.
Proof.
  induction l as [|x l IH]; intros H; [reflexivity|]. cbn [forallb].
  rewrite (H x (or_introl eq_refl)), IH; [reflexivity|]. intros y Hy. apply H. right. exact Hy.
Qed.

Lemma forallb_orb_const {A} (f : A -> bool) (b : bool) l :
  forallb (fun j => f j || b) l = if b then true else forallb f l.
Proof.
  destruct b.
  - induction l as [|x l IH]; [reflexivity|]. cbn [forallb]. rewrite orb_true_r, IH. reflexivity.
  - apply forallb_ext_in. intros x _. apply orb_false_r.
Qed.

Lemma firstn_snoc {A} (h : list A) : forall k o, nth_error h k = Some o -> firstn (S k) h = firstn k h ++ [o].
Proof.
  induction h as [|x h IH]; intros k o H; [destruct k; discriminate|].
  destruct k as [|k]; [cbn in H; injection H as ->; reflexivity|].
  cbn [nth_error] in H. change (firstn (S (S k)) (x :: h)) with (x :: firstn (S k) h).
  rewrite (IH k o H). reflexivity.
Qed.

Lemma N_S h cs k :
  N h cs (S k) =
  forallb (fun j => (negb (nth j cs false) || existsb (r_at h) (seq (S j) (k - S j))) || r_at h k) (seq 0 k) &&
  negb (nth k cs false).
Proof.
  unfold N. rewrite seq_S, forallb_app. cbn [forallb plus]. rewrite andb_true_r. f_equal.
  - apply forallb_ext_in. intros j Hj. apply in_seq in Hj.
    replace (S k - S j)%nat with (S (k - S j)) by lia. rewrite seq_S, existsb_app. cbn [existsb].
    replace (S j + (k - S j))%nat with k by lia. rewrite orb_false_r, orb_assoc. reflexivity.
  - replace (S k - S k)%nat with 0%nat by lia. cbn [seq existsb]. apply orb_false_r.
Qed.

Lemma N_agree h cs cs' k :
  (forall j, (j < k)%nat -> nth j cs false = nth j cs' false) -> N h cs k = N h cs' k.
Proof.
  intros H. unfold N. apply forallb_ext_in. intros j Hj. apply in_seq in Hj. rewrite H by lia. reflexivity.
Qed.

Lemma nth_ctrace h j : (j < length h)%nat -> nth j (ctrace h) false = c_at h j.
Proof.
  intros Hj. unfold ctrace. rewrite (nth_indep _ false (c_at h 0)) by (rewrite map_length, seq_length; exact Hj).
  rewrite map_nth, seq_nth by exact Hj. reflexivity.
Qed.

Lemma N_model h : forall k, (k <= length h)%nat -> N h (ctrace h) k = negb (dn (firstn k h)).
Proof.
  induction k as [|k IH]; intros Hk; [reflexivity|].
  destruct (nth_error h k) as [o|] eqn:Eo; [|apply nth_error_None in Eo; lia].
  rewrite N_S, forallb_orb_const, (firstn_snoc h k o Eo), nth_ctrace by lia.
  change (forallb (fun j => negb (nth j (ctrace h) false) || existsb (r_at h) (seq (S j) (k - S j))) (seq 0 k))
    with (N h (ctrace h) k).
  rewrite IH by lia.
  replace (r_at h k) with (rearms_b (firstn k h) o) by (unfold r_at; rewrite Eo; reflexivity).
  unfold c_at. rewrite Eo.
  destruct (step_bool (firstn k h) o) as (S1 & S2 & S3). rewrite S2.
  destruct (rearms_b (firstn k h) o).
  - rewrite (S3 eq_refl). reflexivity.
  - rewrite negb_orb. reflexivity.
Qed.

Lemma clause_unfold h obs k o b :
  nth_error h k = Some o -> nth_error obs k = Some b ->
  progress_clause_at h obs k = Bool.eqb b (reaches_b (firstn k h) o && N h obs k).
Proof. intros H1 H2. unfold progress_clause_at. rewrite H1, H2. reflexivity. Qed.

Lemma ctrace_length h : length (ctrace h) = length h.
Proof. unfold ctrace. rewrite map_length, seq_length. reflexivity. Qed.

Theorem progress_spec_b_ctrace h obs : progress_spec_b h obs = true <-> obs = ctrace h.
Proof.
  unfold progress_spec_b. rewrite andb_true_iff, Nat.eqb_eq, forallb_forall. split.
  - intros [Hl Hc].
    assert (G : forall n k, (k < n)%nat -> (k < length h)%nat -> nth k obs false = c_at h k).
    { induction n as [|n IHn]; intros k Hkn Hk; [lia|].
      destruct (nth_error h k) as [o|] eqn:Eo; [|apply nth_error_None in Eo; lia].
      destruct (nth_error obs k) as [b|] eqn:Eb; [|apply nth_error_None in Eb; lia].
      assert (Hc' := Hc k ltac:(apply in_seq; lia)).
      rewrite (clause_unfold h obs k o b Eo Eb) in Hc'. apply eqb_prop in Hc'.
      rewrite (nth_error_nth obs k false Eb), Hc'.
      rewrite (N_agree h obs (ctrace h) k).
      - rewrite N_model by lia. unfold c_at. rewrite Eo.
        destruct (step_bool (firstn k h) o) as (S1 & _). symmetry. exact S1.
      - intros j Hj. rewrite nth_ctrace by lia. apply IHn; lia. }
    apply (nth_ext _ _ false false); [rewrite ctrace_length; exact Hl|].
    intros k Hk. rewrite nth_ctrace by lia. apply (G (S k)); lia.
  - intros ->. split; [apply ctrace_length|]. intros k Hk. apply in_seq in Hk.
    destruct (nth_error h k) as [o|] eqn:Eo; [|apply nth_error_None in Eo; lia].
    assert (Eb : nth_error (ctrace h) k = Some (c_at h k)).
    { rewrite <- (nth_ctrace h k) by lia. apply nth_error_nth'. rewrite ctrace_length. lia. }
    rewrite (clause_unfold h (ctrace h) k o _ Eo Eb), N_model by lia.
    unfold c_at. rewrite Eo. destruct (step_bool (firstn k h) o) as (S1 & _). rewrite <- S1.
    apply eqb_reflx.
Qed.

(* soundness and completeness of the checker w.r.t. the declarative reading: it accepts obs iff
   obs has one entry per operation and entry k says whether the model announces completion during
   operation k -- which by [progress_once] is the statement of the property *)
Theorem progress_checker_exact h obs :
  progress_spec_b h obs = true <->
  (length obs = length h /\
   forall k o, nth_error h k = Some o -> (nth k obs false = true <-> Completes (firstn k h) o)).
Proof.
  rewrite progress_spec_b_ctrace. split.
  - intros ->. split; [apply ctrace_length|]. intros k o Eo.
    assert (Hk : (k < length h)%nat) by (apply nth_error_Some; congruence).
    rewrite nth_ctrace by exact Hk. unfold c_at. rewrite Eo. apply completes_b_iff.
  - intros [Hl H]. apply (nth_ext _ _ false false); [rewrite ctrace_length; exact Hl|].
    intros k Hk. rewrite nth_ctrace by lia. unfold c_at.
    destruct (nth_error h k) as [o|] eqn:Eo; [|apply nth_error_None in Eo; lia].
    specialize (H k o Eo). rewrite <- completes_b_iff in H.
    destruct (nth k obs false), (completes_b (firstn k h) o); intuition congruence.
Qed.

(* the accepted trace is the one the executable model produces *)
Lemma ctrace_pouts_gen (h : list pop) : forall pre,
  map (fun k => c_at (pre ++ h) (length pre + k)) (seq 0 (length h)) =
  map (existsb is_cev) (pouts (pexec pinit pre) h).
Proof.
  induction h as [|o r IH]; intros pre; [reflexivity|].
  cbn [length pouts seq map]. rewrite <- seq_shift, map_map. f_equal.
  - unfold c_at. rewrite Nat.add_0_r, nth_error_app2, Nat.sub_diag by lia. cbn [nth_error].
    rewrite firstn_app, Nat.sub_diag, firstn_all. cbn [firstn]. rewrite app_nil_r. reflexivity.
  - specialize (IH (pre ++ [o])). rewrite pexec_snoc in IH. rewrite <- IH.
    apply map_ext. intros k. rewrite <- app_assoc. cbn [app]. rewrite app_length. cbn [length].
    f_equal. lia.
Qed.

Theorem progress_checker_model h obs :
  progress_spec_b h obs = true <-> obs = map (existsb is_cev) (pouts pinit h).
Proof.
  rewrite progress_spec_b_ctrace.
  assert (E : ctrace h = map (existsb is_cev) (pouts pinit h)) by exact (ctrace_pouts_gen h []).
  rewrite E. reflexivity.
Qed.

(* ---------- accessors ---------- *)
Theorem is_complete_reading (p : list pop) :
  is_complete (pexec pinit p) = (value_after p >=? max_after p) /\
  (Pending p -> is_complete (pexec pinit p) = true) /\
  (forall o, is_update o = true -> (is_complete (pexec pinit (p ++ [o])) = true <-> Reaches p o)).
Proof.
  assert (V : forall q, is_complete (pexec pinit q) = (value_after q >=? max_after q)).
  { intros q. destruct (st_values q) as [Hv Hm]. unfold is_complete, st in *. rewrite Hv, Hm. reflexivity. }
  split; [apply V|]. split.
  - intros HP. apply done_iff_pending in HP. clear V. revert HP.
    induction p as [|o p IH] using rev_ind; [discriminate|].
    unfold st in *. rewrite pexec_snoc. destruct (pexec pinit p) as [v m d]. unfold is_complete in *.
    cbn [p_value p_max p_done] in IH.
    destruct d; destruct o as [|x|x| |[x|]]; unfold pstep, set_value, set_max; cbn [p_value p_max p_done negb andb];
      repeat match goal with
             | |- context [?a <? ?b] => destruct (a <? b) eqn:?
             | |- context [?a >=? ?b] => destruct (a >=? b) eqn:?
             | |- context [?a >? ?b] => destruct (a >? b) eqn:?
             end;
      cbn [negb andb fst snd p_value p_max p_done] in *; intros HP;
      try discriminate; try lia; try (specialize (IH HP); lia).
  - intros o Hu. rewrite V. unfold Reaches. rewrite Hu. lia.
Qed.

Section Kw.
Variable K : Type.
Variable nokw : K.

Theorem kwargs_passthrough (s : pstate) (o : popk K) :
  pstep_k nokw s o =
  (fst (pstep s (pk_op o)), map (fun e => (e, kw_of nokw o)) (snd (pstep s (pk_op o)))).
Proof.
  destruct o as [o kw]. unfold pstep_k, kw_of. cbn [pk_op pk_kw].
  destruct o; cbn [pstep]; try reflexivity; unfold set_value_k, set_value;
    match goal with |- context [if ?b then _ else _] => destruct b end; reflexivity.
Qed.
End Kw.
