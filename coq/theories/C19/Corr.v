(* C19/Corr.v -- comparator evaluated by vm_compute on generated case files.
   codes: 1  = observed outputs differ from the model PV.C19.Model (every observable is determined)
          21 = an emit did not call exactly the registered matching callbacks (history reading)
          22 = ... not in registration order with 'last' callbacks after all others
          23 = a callback did not receive the emitting sender / the arguments unchanged
          24 = emit's return value is not the callbacks' results in call order
               (single: the first result after a single call; nothing matched: the empty list)
          25 = an emit while silenced called something or returned a value
          26 = a reporter's completion announcements violate "exactly once per crossing"
          27 = a reporter's progress events / value / maximum differ from the history reading
          28 = with a raising callback: the calls made are not the expected calls up to and including the
               first raising one, or the exception did not propagate out of emit (C19_dispatch_raising)
          3  = input outside the stated regime (a silent() block left that was never entered): harness bug
   Concrete instance used by the harness: the emit arguments are (positional ints, sorted keyword
   (key, int) pairs); every harness callback returns the record of what it received. *)
From Coq Require Import ZArith List Lia Bool.
From PV Require Export C19.Model C19.Spec.
Import ListNotations.
Open Scope Z_scope.

Record payload := mkpl { pl_args : list Z; pl_kw : list (Z * Z) }.
Definition hcall := call payload.
Definition beh0 (f : func) (s : Z) (a : payload) : hcall := mkcall f s a.
Definition hop := op payload.
Definition hout := out payload hcall.

(* one operation as observed: its outcome, or an unexpected exception *)
Inductive oobs := Ob (o : hout) | ObExc.
Record pobs := mkpobs { po_events : list pev; po_value : Z; po_max : Z }.

(* stage 3: histories in which the callbacks whose id is in [raisers] raise *)
Definition houtx := outx payload hcall.
Inductive xobs := Xb (o : houtx) | XbExc.
Definition behx0 (raisers : list Z) (f : func) (s : Z) (a : payload) : option hcall :=
  if existsb (Z.eqb (fn_id f)) raisers then None else Some (mkcall f s a).

Inductive input :=
| InHist (h : list hop)
| InHistX (h : list hop) (raisers : list Z)
| InProg (h : list pop).

Inductive observed :=
| ObsHist (runs : list (list oobs))      (* one trace per implementation-side configuration *)
| ObsHistX (runs : list (list xobs))
| ObsProg (l : list pobs)
| ObsCrash.

Record case := { cid : Z; cin : input; cobs : observed }.

Fixpoint list_eqb {A B} (eqb : A -> B -> bool) (a : list A) (b : list B) : bool :=
  match a, b with
  | [], [] => true
  | x :: a', y :: b' => eqb x y && list_eqb eqb a' b'
  | _, _ => false
  end.
Definition zz_eqb (a b : Z * Z) : bool := (fst a =? fst b) && (snd a =? snd b).
Definition payload_eqb (a b : payload) : bool :=
  list_eqb Z.eqb (pl_args a) (pl_args b) && list_eqb zz_eqb (pl_kw a) (pl_kw b).
Definition call_eqb (a b : hcall) : bool :=
  func_eqb (c_func a) (c_func b) && (c_sender a =? c_sender b) && payload_eqb (c_arg a) (c_arg b).
Definition ret_eqb (a b : ret hcall) : bool :=
  match a, b with
  | RNone, RNone => true
  | RSingle x, RSingle y => call_eqb x y
  | RList x, RList y => list_eqb call_eqb x y
  | _, _ => false
  end.
Definition out_eqb (a b : hout) : bool :=
  match a, b with
  | ONone, ONone => true
  | OError, OError => true
  | OBad, OBad => true
  | OEmit c r, OEmit c' r' => list_eqb call_eqb c c' && ret_eqb r r'
  | _, _ => false
  end.
Definition oobs_eqb (m : hout) (o : oobs) : bool := match o with Ob x => out_eqb m x | ObExc => false end.
Definition pev_eqb (a b : pev) : bool :=
  match a, b with
  | EvProgress v m, EvProgress v' m' => (v =? v') && (m =? m')
  | EvComplete, EvComplete => true
  | _, _ => false
  end.

Definition flag (code : Z) (ok : bool) : list Z := if ok then [] else [code].

(* multiset equality of function lists *)
Fixpoint remove1 (f : func) (l : list func) : option (list func) :=
  match l with
  | [] => None
  | g :: r => if func_eqb f g then Some r else option_map (cons g) (remove1 f r)
  end.
Fixpoint perm_b (a b : list func) : bool :=
  match a with
  | [] => match b with [] => true | _ => false end
  | x :: a' => match remove1 x b with Some b' => perm_b a' b' | None => false end
  end.

(* the clauses of the statement for one emit executed after history p, judged on what was observed *)
Definition emit_clauses (p : list hop) (ev snd : Z) (a : payload) (single : option bool) (o : oobs)
  : list Z :=
  (* stage 3: every well-bracketed history is judged, with the history-defined [silenced_all]
     (= [silenced] when set_silent is not called inside a silent() block: C19_silenced_agree) *)
  match o with
  | Ob (OEmit calls r) =>
      if silenced_all p then
        flag 25 (match calls, r with [], RNone => true | _, _ => false end)
      else
        let exp := map e_func (expected ev snd (registered p)) in
        let got := map c_func calls in
        (if truthy single then
           flag 21 (match exp, got with
                    | [], [] => true
                    | _ :: _, [g] => existsb (func_eqb g) exp
                    | _, _ => false end) ++
           flag 22 (match exp, got with e :: _, g :: _ => func_eqb g e | _, _ => true end) ++
           flag 24 (match calls with
                    | [] => ret_eqb r (RList [])
                    | x :: _ => ret_eqb r (RSingle (result_of beh0 x)) end)
         else
           flag 21 (perm_b got exp) ++
           flag 22 (list_eqb func_eqb got exp) ++
           flag 24 (ret_eqb r (RList (map (result_of beh0) calls)))) ++
        flag 23 (forallb (fun x => (c_sender x =? snd) && payload_eqb (c_arg x) a) calls)
  | _ => if silenced_all p then [25] else [21]
  end.

Fixpoint hist_clauses (p : list hop) (h : list hop) (obs : list oobs) : list Z :=
  match h, obs with
  | o :: r, x :: obs' =>
      (match o with Emit ev snd a single => emit_clauses p ev snd a single x | _ => [] end) ++
      hist_clauses (p ++ [o]) r obs'
  | [], [] => []
  | _, _ => [21]
  end.

Definition outx_eqb (a b : houtx) : bool :=
  match a, b with
  | XNone, XNone => true
  | XError, XError => true
  | XBad, XBad => true
  | XEmit c r, XEmit c' r' => list_eqb call_eqb c c' && ret_eqb r r'
  | XRaise c, XRaise c' => list_eqb call_eqb c c'
  | _, _ => false
  end.
Definition xobs_eqb (m : houtx) (o : xobs) : bool := match o with Xb x => outx_eqb m x | XbExc => false end.
Definition is_raise (o : houtx) : bool := match o with XRaise _ => true | _ => false end.

(* an emit in a history with raising callbacks: when neither the reading nor the observation
   involves an exception the clauses of the statement apply unchanged *)
Definition emit_clauses_x (raisers : list Z) (p : list hop) (ev snd : Z) (a : payload)
           (single : option bool) (o : xobs) : list Z :=
  let sp := spec_emit_x (behx0 raisers) p ev snd a single in
  match o with
  | Xb (XEmit calls r) =>
      if is_raise sp then [28] else emit_clauses p ev snd a single (Ob (OEmit calls r))
  | Xb (XRaise calls) =>
      if silenced_all p then [25] else flag 28 (outx_eqb sp (XRaise calls))
  | _ => if silenced_all p then [25] else [21]
  end.

Fixpoint hist_clauses_x (raisers : list Z) (p : list hop) (h : list hop) (obs : list xobs) : list Z :=
  match h, obs with
  | o :: r, x :: obs' =>
      (match o with Emit ev snd a single => emit_clauses_x raisers p ev snd a single x | _ => [] end) ++
      hist_clauses_x raisers (p ++ [o]) r obs'
  | [], [] => []
  | _, _ => [21]
  end.

Definition has_bad_x (l : list houtx) : bool :=
  existsb (fun o => match o with XBad => true | _ => false end) l.

Definition has_bad (l : list hout) : bool :=
  existsb (fun o => match o with OBad => true | _ => false end) l.

Definition is_complete_ev (e : pev) : bool := match e with EvComplete => true | _ => false end.

Fixpoint prog_events_ok (p : list pop) (h : list pop) (obs : list pobs) : bool :=
  match h, obs with
  | o :: r, x :: obs' =>
      progress_events_ok p o (po_events x) &&
      (po_value x =? value_after (p ++ [o])) && (po_max x =? max_after (p ++ [o])) &&
      prog_events_ok (p ++ [o]) r obs'
  | [], [] => true
  | _, _ => false
  end.

Fixpoint prog_model_eq (s : pstate) (h : list pop) (obs : list pobs) : bool :=
  match h, obs with
  | o :: r, x :: obs' =>
      let s' := fst (pstep s o) in
      list_eqb pev_eqb (snd (pstep s o)) (po_events x) &&
      (po_value x =? p_value s') && (po_max x =? p_max s') && prog_model_eq s' r obs'
  | [], [] => true
  | _, _ => false
  end.

Definition check (c : case) : list Z :=
  match cin c, cobs c with
  | InHist h, o =>
      let mo := outs beh0 init h in
      if has_bad mo then [3] else
      match o with
      | ObsHist runs =>
          match runs with [] => [3] | _ => [] end ++
          flat_map (fun run => flag 1 (list_eqb oobs_eqb mo run) ++ hist_clauses [] h run) runs
      | _ => [1; 21]
      end
  | InHistX h raisers, o =>
      let mo := outs_x (behx0 raisers) init h in
      if has_bad_x mo then [3] else
      match o with
      | ObsHistX runs =>
          match runs with [] => [3] | _ => [] end ++
          flat_map (fun run => flag 1 (list_eqb xobs_eqb mo run) ++ hist_clauses_x raisers [] h run) runs
      | _ => [1; 21]
      end
  | InProg h, o =>
      match o with
      | ObsProg l =>
          flag 1 (prog_model_eq pinit h l) ++
          flag 26 (progress_spec_b h (map (fun x => existsb is_complete_ev (po_events x)) l)) ++
          flag 27 (prog_events_ok [] h l)
      | _ => [1; 26]
      end
  end.

Definition dedup (l : list Z) : list Z := nodup Z.eq_dec l.

Definition run (cases : list case) : list (Z * Z) :=
  flat_map (fun c => map (fun code => (cid c, code)) (dedup (check c))) cases.
