(* C19/Corr.v -- comparator evaluated by vm_compute on generated case files.
   codes: 1  = observed outputs differ from the model PV.C19.Model (every observable is determined)
          21 = an emit did not call exactly the registered matching callbacks (history reading)
          22 = ... not in registration order with 'last' callbacks after all others
          23 = a callback did not receive the emitting sender / the arguments unchanged
          24 = emit's return value is not the callbacks' results in call order
               (single: the first result after a single call; nothing matched: the empty list)
          25 = an emit while silenced called something or returned a value
          26 = a reporter's completion announcements violate "exactly once per crossing"
          27 = a reporter's progress events / value / maximum differ from the history reading
          28 = with a raising callback: the calls made are not the expected calls up to and including the
               first raising one, or the exception did not propagate out of emit (C19_dispatch_raising)
          (stage 3) 26 is also judged on the lines printed by the set_complete_message callback; 27 also
               requires the keyword arguments of increment / set_complete on both events; is_complete(),
               the `progress` quotient and the printed progress lines are compared with the model (code 1)
          3  = input outside the stated regime (a silent() block left that was never entered): harness bug
   Concrete instance used by the harness: the emit arguments are (positional ints, sorted keyword
   (key, int) pairs); every harness callback returns the record of what it received. *)
From Coq Require Import ZArith List Lia Bool.
From PV Require Export C19.Model C19.Spec.
Import ListNotations.
Open Scope Z_scope.

Record payload := mkpl { pl_args : list Z; pl_kw : list (Z * Z) }.
Definition hcall := call payload.
Definition beh0 (f : func) (s : Z) (a : payload) : hcall := mkcall f s a.
Definition hop := op payload.
Definition hout := out payload hcall.

(* one operation as observed: its outcome, or an unexpected exception *)
Inductive oobs := Ob (o : hout) | ObExc.
Record pobs := mkpobs { po_events : list pev; po_value : Z; po_max : Z }.
(* stage 3: keyword dictionaries are sorted (key, value) lists; what one reporter operation shows:
   the events with their keyword arguments, value, value_max, is_complete(), the `progress`
   property as the exact ratio of the float returned (None: ZeroDivisionError), the lines printed
   by the callbacks of set_progress_message("P{k0}") / set_complete_message("C{k0}") *)
Definition kwd := list (Z * Z).
Definition look0 (kw : kwd) : option Z :=
  match find (fun p => fst p =? 0) kw with Some p => Some (snd p) | None => None end.
Definition hpopk := popk kwd.
Record pobsx := mkpobsx { px_events : list (pev * kwd); px_value : Z; px_max : Z; px_isc : bool;
                          px_progress : option (Z * Z); px_prints : list ptok }.
Definition pobs_of (x : pobsx) : pobs := mkpobs (map fst (px_events x)) (px_value x) (px_max x).

(* stage 3: histories in which the callbacks whose id is in [raisers] raise *)
Definition houtx := outx payload hcall.
Inductive xobs := Xb (o : houtx) | XbExc.
Definition behx0 (raisers : list Z) (f : func) (s : Z) (a : payload) : option hcall :=
  if existsb (Z.eqb (fn_id f)) raisers then None else Some (mkcall f s a).

Inductive input :=
| InHist (h : list hop)
| InHistX (h : list hop) (raisers : list Z)
| InProg (h : list hpopk).

Inductive observed :=
| ObsHist (runs : list (list oobs))      (* one trace per implementation-side configuration *)
| ObsHistX (runs : list (list xobs))
| ObsProg (l : list pobsx)
| ObsCrash.

Record case := { cid : Z; cin : input; cobs : observed }.

Fixpoint list_eqb {A B} (eqb : A -> B -> bool) (a : list A) (b : list B) : bool :=
  match a, b with
  | [], [] => true
  | x :: a', y :: b' => eqb x y && list_eqb eqb a' b'
  | _, _ => false
  end.
Definition zz_eqb (a b : Z * Z) : bool := (fst a =? fst b) && (snd a =? snd b).
Definition payload_eqb (a b : payload) : bool :=
  list_eqb Z.eqb (pl_args a) (pl_args b) && list_eqb zz_eqb (pl_kw a) (pl_kw b).
Definition call_eqb (a b : hcall) : bool :=
  func_eqb (c_func a) (c_func b) && (c_sender a =? c_sender b) && payload_eqb (c_arg a) (c_arg b).
Definition ret_eqb (a b : ret hcall) : bool :=
  match a, b with
  | RNone, RNone => true
  | RSingle x, RSingle y => call_eqb x y
  | RList x, RList y => list_eqb call_eqb x y
  | _, _ => false
  end.
Definition out_eqb (a b : hout) : bool :=
  match a, b with
  | ONone, ONone => true
  | OError, OError => true
  | OBad, OBad => true
  | OEmit c r, OEmit c' r' => list_eqb call_eqb c c' && ret_eqb r r'
  | _, _ => false
  end.
Definition oobs_eqb (m : hout) (o : oobs) : bool := match o with Ob x => out_eqb m x | ObExc => false end.
Definition pev_eqb (a b : pev) : bool :=
  match a, b with
  | EvProgress v m, EvProgress v' m' => (v =? v') && (m =? m')
  | EvComplete, EvComplete => true
  | _, _ => false
  end.

Definition flag (code : Z) (ok : bool) : list Z := if ok then [] else [code].

(* multiset equality of function lists *)
Fixpoint remove1 (f : func) (l : list func) : option (list func) :=
  match l with
  | [] => None
  | g :: r => if func_eqb f g then Some r else option_map (cons g) (remove1 f r)
  end.
Fixpoint perm_b (a b : list func) : bool :=
  match a with
  | [] => match b with [] => true | _ => false end
  | x :: a' => match remove1 x b with Some b' => perm_b a' b' | None => false end
  end.

(* the clauses of the statement for one emit executed after history p, judged on what was observed *)
Definition emit_clauses (p : list hop) (ev snd : Z) (a : payload) (single : option bool) (o : oobs)
  : list Z :=
  (* stage 3: every well-bracketed history is judged, with the history-defined [silenced_all]
     (= [silenced] when set_silent is not called inside a silent() block: C19_silenced_agree) *)
  match o with
  | Ob (OEmit calls r) =>
      if silenced_all p then
        flag 25 (match calls, r with [], RNone => true | _, _ => false end)
      else
        let exp := map e_func (expected ev snd (registered p)) in
        let got := map c_func calls in
        (if truthy single then
           flag 21 (match exp, got with
                    | [], [] => true
                    | _ :: _, [g] => existsb (func_eqb g) exp
                    | _, _ => false end) ++
           flag 22 (match exp, got with e :: _, g :: _ => func_eqb g e | _, _ => true end) ++
           flag 24 (match calls with
                    | [] => ret_eqb r (RList [])
                    | x :: _ => ret_eqb r (RSingle (result_of beh0 x)) end)
         else
           flag 21 (perm_b got exp) ++
           flag 22 (list_eqb func_eqb got exp) ++
           flag 24 (ret_eqb r (RList (map (result_of beh0) calls)))) ++
        flag 23 (forallb (fun x => (c_sender x =? snd) && payload_eqb (c_arg x) a) calls)
  | _ => if silenced_all p then [25] else [21]
  end.

Fixpoint hist_clauses (p : list hop) (h : list hop) (obs : list oobs) : list Z :=
  match h, obs with
  | o :: r, x :: obs' =>
      (match o with Emit ev snd a single => emit_clauses p ev snd a single x | _ => [] end) ++
      hist_clauses (p ++ [o]) r obs'
  | [], [] => []
  | _, _ => [21]
  end.

Definition outx_eqb (a b : houtx) : bool :=
  match a, b with
  | XNone, XNone => true
  | XError, XError => true
  | XBad, XBad => true
  | XEmit c r, XEmit c' r' => list_eqb call_eqb c c' && ret_eqb r r'
  | XRaise c, XRaise c' => list_eqb call_eqb c c'
  | _, _ => false
  end.
Definition xobs_eqb (m : houtx) (o : xobs) : bool := match o with Xb x => outx_eqb m x | XbExc => false end.
Definition is_raise (o : houtx) : bool := match o with XRaise _ => true | _ => false end.

(* an emit in a history with raising callbacks: when neither the reading nor the observation
   involves an exception the clauses of the statement apply unchanged *)
Definition emit_clauses_x (raisers : list Z) (p : list hop) (ev snd : Z) (a : payload)
           (single : option bool) (o : xobs) : list Z :=
  let sp := spec_emit_x (behx0 raisers) p ev snd a single in
  match o with
  | Xb (XEmit calls r) =>
      if is_raise sp then [28] else emit_clauses p ev snd a single (Ob (OEmit calls r))
  | Xb (XRaise calls) =>
      if silenced_all p then [25] else flag 28 (outx_eqb sp (XRaise calls))
  | _ => if silenced_all p then [25] else [21]
  end.

Fixpoint hist_clauses_x (raisers : list Z) (p : list hop) (h : list hop) (obs : list xobs) : list Z :=
  match h, obs with
  | o :: r, x :: obs' =>
      (match o with Emit ev snd a single => emit_clauses_x raisers p ev snd a single x | _ => [] end) ++
      hist_clauses_x raisers (p ++ [o]) r obs'
  | [], [] => []
  | _, _ => [21]
  end.

Definition has_bad_x (l : list houtx) : bool :=
  existsb (fun o => match o with XBad => true | _ => false end) l.

Definition has_bad (l : list hout) : bool :=
  existsb (fun o => match o with OBad => true | _ => false end) l.

Definition is_complete_ev (e : pev) : bool := match e with EvComplete => true | _ => false end.

Fixpoint prog_events_ok (p : list pop) (h : list pop) (obs : list pobs) : bool :=
  match h, obs with
  | o :: r, x :: obs' =>
      progress_events_ok p o (po_events x) &&
      (po_value x =? value_after (p ++ [o])) && (po_max x =? max_after (p ++ [o])) &&
      prog_events_ok (p ++ [o]) r obs'
  | [], [] => true
  | _, _ => false
  end.

Fixpoint prog_model_eq (s : pstate) (h : list pop) (obs : list pobs) : bool :=
  match h, obs with
  | o :: r, x :: obs' =>
      let s' := fst (pstep s o) in
      list_eqb pev_eqb (snd (pstep s o)) (po_events x) &&
      (po_value x =? p_value s') && (po_max x =? p_max s') && prog_model_eq s' r obs'
  | [], [] => true
  | _, _ => false
  end.

(* ---- stage 3: accessors, keyword arguments, message callbacks ---- *)
Definition kw_eqb (a b : kwd) : bool := list_eqb zz_eqb a b.
Definition pevk_eqb (a b : pev * kwd) : bool := pev_eqb (fst a) (fst b) && kw_eqb (snd a) (snd b).
Definition ptok_eqb (a b : ptok) : bool :=
  match a, b with
  | TokProgress k n, TokProgress k' n' => optZ_eqb k k' && Bool.eqb n n'
  | TokComplete k, TokComplete k' => optZ_eqb k k'
  | _, _ => false
  end.
Definition is_tokc (t : ptok) : bool := match t with TokComplete _ => true | _ => false end.
(* value / float(value_max): correctly rounded quotient of two small integers, so the float num/den
   returned satisfies |num/den - v/m| <= 2^-53 |v/m|; ZeroDivisionError iff the maximum is 0 *)
Definition progress_ok (v m : Z) (o : option (Z * Z)) : bool :=
  match o with
  | None => m =? 0
  | Some (num, den) => negb (m =? 0) && (0 <? den) &&
                       (Z.abs (num * m - v * den) * 2 ^ 53 <=? Z.abs (v * den))
  end.

Fixpoint prog_model_eq_x (s : pstate) (h : list hpopk) (obs : list pobsx) : bool :=
  match h, obs with
  | o :: r, x :: obs' =>
      let s' := fst (pstep_k [] s o) in
      let evs := snd (pstep_k [] s o) in
      list_eqb pevk_eqb evs (px_events x) &&
      Bool.eqb (px_isc x) (is_complete s') &&
      progress_ok (p_value s') (p_max s') (px_progress x) &&
      list_eqb ptok_eqb (flat_map (printed look0) evs) (px_prints x) &&
      prog_model_eq_x s' r obs'
  | [], [] => true
  | _, _ => false
  end.

Fixpoint kwargs_ok (h : list hpopk) (obs : list pobsx) : bool :=
  match h, obs with
  | o :: r, x :: obs' =>
      forallb (fun e => kw_eqb (snd e) (kw_of [] o)) (px_events x) && kwargs_ok r obs'
  | [], [] => true
  | _, _ => false
  end.

Definition check (c : case) : list Z :=
  match cin c, cobs c with
  | InHist h, o =>
      let mo := outs beh0 init h in
      if has_bad mo then [3] else
      match o with
      | ObsHist runs =>
          match runs with [] => [3] | _ => [] end ++
          flat_map (fun run => flag 1 (list_eqb oobs_eqb mo run) ++ hist_clauses [] h run) runs
      | _ => [1; 21]
      end
  | InHistX h raisers, o =>
      let mo := outs_x (behx0 raisers) init h in
      if has_bad_x mo then [3] else
      match o with
      | ObsHistX runs =>
          match runs with [] => [3] | _ => [] end ++
          flat_map (fun run => flag 1 (list_eqb xobs_eqb mo run) ++ hist_clauses_x raisers [] h run) runs
      | _ => [1; 21]
      end
  | InProg h, o =>
      match o with
      | ObsProg lx =>
          let hb := map pk_op h in
          let l := map pobs_of lx in
          flag 1 (prog_model_eq pinit hb l && prog_model_eq_x pinit h lx) ++
          flag 26 (progress_spec_b hb (map (fun x => existsb is_complete_ev (po_events x)) l) &&
                   progress_spec_b hb (map (fun x => existsb is_tokc (px_prints x)) lx)) ++
          flag 27 (prog_events_ok [] hb l && kwargs_ok h lx)
      | _ => [1; 26]
      end
  end.

Definition dedup (l : list Z) : list Z := nodup Z.eq_dec l.

Definition run (cases : list case) : list (Z * Z) :=
  flat_map (fun c => map (fun code => (cid c, code)) (dedup (check c))) cases.
