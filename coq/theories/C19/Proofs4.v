(* C19/Proofs4.v -- stage 3: callbacks that raise.  emit() propagates the first exception: the
   calls made are the prefix of the expected call list up to and including the first raising
   callback; with callbacks that never raise this is the behaviour of Proofs.v / Proofs3.v. *)
From Coq Require Import ZArith List Lia Bool.
From PV Require Import C19.Model C19.Spec C19.Proofs C19.Proofs3.
Import ListNotations.
Open Scope Z_scope.

Section Raising.
Variables Arg Res : Type.
Variable behx : func -> Z -> Arg -> option Res.
Notation op := (op Arg).

(* the registry and the flag evolve as in [step] *)
Lemma step_x_state s (o : op) : fst (step_x behx s o) = fst (step behx s o).
Proof.
  destruct o; cbn [step_x step]; try reflexivity.
  - destruct (entry_of f st sf last); reflexivity.
  - destruct (saved s); reflexivity.
  - destruct (saved s); reflexivity.
Qed.

Lemma exec_x_exec (p : list op) : forall s, exec_x behx s p = exec behx s p.
Proof.
  induction p as [|o p IH]; intros s; [reflexivity|]. cbn [exec_x exec]. rewrite step_x_state. apply IH.
Qed.

Lemma outs_x_app_nth (p2 : list op) : forall s o rest,
  nth_error (outs_x behx s (p2 ++ o :: rest)) (length p2) = Some (snd (step_x behx (exec_x behx s p2) o)).
Proof.
  induction p2 as [|x p2 IH]; intros s o rest; [reflexivity|].
  rewrite <- app_comm_cons. cbn [outs_x length nth_error exec_x]. apply IH.
Qed.

Lemma emit_loop_x_all ev sd a l calls res :
  emit_loop_x behx false ev sd a l calls res =
  run_calls behx (map (call_of sd a) (filter (matches ev sd) l)) calls res.
Proof.
  revert calls res. induction l as [|c l IH]; intros calls res; cbn [emit_loop_x filter]; [reflexivity|].
  destruct (matches ev sd c) eqn:M; [|apply IH].
  cbn [map run_calls]. change (resultx behx (call_of sd a c)) with (behx (e_func c) sd a).
  destruct (behx (e_func c) sd a); [apply IH|reflexivity].
Qed.

Lemma emit_loop_x_single ev sd a l calls res :
  emit_loop_x behx true ev sd a l calls res =
  match filter (matches ev sd) l with
  | [] => XEmit calls (RList res)
  | c :: _ => match behx (e_func c) sd a with
              | None => XRaise (calls ++ [call_of sd a c])
              | Some v => XEmit (calls ++ [call_of sd a c]) (RSingle v)
              end
  end.
Proof.
  revert calls res. induction l as [|c l IH]; intros calls res; cbn [emit_loop_x filter]; [reflexivity|].
  destruct (matches ev sd c) eqn:M; [|apply IH]. reflexivity.
Qed.

Lemma emit_x_spec s (p : list op) ev sd a single :
  cbs s = registered p -> flag s = silenced_all p ->
  emit_x behx s ev sd a single = spec_emit_x behx p ev sd a single.
Proof.
  intros Hc Hf. unfold emit_x, spec_emit_x, emit_body_x. rewrite Hf. destruct (silenced_all p); [reflexivity|].
  rewrite Hc. destruct (truthy single).
  - rewrite emit_loop_x_single, partition_then_match.
    destruct (expected ev sd (registered p)) as [|c r]; [reflexivity|]. cbn [map app]. reflexivity.
  - rewrite emit_loop_x_all, partition_then_match. reflexivity.
Qed.

Theorem dispatch_raising : forall (p : list op) ev sd a single rest,
  brackets_ok p = true ->
  nth_error (outs_x behx init (p ++ Emit ev sd a single :: rest)) (length p) =
  Some (spec_emit_x behx p ev sd a single) /\
  exec_x behx init (p ++ [Emit ev sd a single]) = exec_x behx init p.
Proof.
  intros p ev sd a single rest Hok. split.
  - rewrite outs_x_app_nth. cbn [step_x snd]. f_equal. rewrite exec_x_exec.
    destruct (state_after _ _ behx p Hok) as (Hc & Hf & _). apply emit_x_spec; assumption.
  - rewrite !exec_x_exec. clear Hok. generalize (@init). induction p as [|o p IH]; intros s; [reflexivity|].
    cbn [app exec]. apply IH.
Qed.

(* ---------- the prefix property ---------- *)
Lemma run_calls_shape (l : list (call Arg)) : forall done res,
  (exists l1 x l2, l = l1 ++ x :: l2 /\ Forall (fun y => resultx behx y <> None) l1 /\
                   resultx behx x = None /\ run_calls behx l done res = XRaise (done ++ l1 ++ [x])) \/
  (exists vs, map (resultx behx) l = map Some vs /\
              run_calls behx l done res = XEmit (done ++ l) (RList (res ++ vs))).
Proof.
  induction l as [|x l IH]; intros done res.
  - right. exists []. split; [reflexivity|]. cbn [run_calls]. rewrite !app_nil_r. reflexivity.
  - cbn [run_calls]. destruct (resultx behx x) as [v|] eqn:E.
    + destruct (IH (done ++ [x]) (res ++ [v])) as [(l1 & y & l2 & -> & Hok & Hy & Hr)|(vs & Hm & Hr)].
      * left. exists (x :: l1), y, l2. split; [reflexivity|]. split; [constructor; [congruence|exact Hok]|].
        split; [exact Hy|]. rewrite Hr, <- app_assoc. reflexivity.
      * right. exists (v :: vs). split; [cbn [map]; rewrite E, Hm; reflexivity|].
        rewrite Hr, <- !app_assoc. reflexivity.
    + left. exists [], x, l. split; [reflexivity|]. split; [constructor|]. split; [exact E|reflexivity].
Qed.

Theorem raising_prefix (reg : list entry) ev sd a :
  let l := map (call_of sd a) (expected ev sd reg) in
  (* all results requested *)
  ((exists l1 x l2, l = l1 ++ x :: l2 /\ Forall (fun y => resultx behx y <> None) l1 /\
                    resultx behx x = None /\ emit_body_x behx reg ev sd a None = XRaise (l1 ++ [x])) \/
   (exists vs, map (resultx behx) l = map Some vs /\
               emit_body_x behx reg ev sd a None = XEmit l (RList vs))) /\
  (* a single result requested: only the first expected callback is ever called *)
  (emit_body_x behx reg ev sd a (Some true) =
   match l with
   | [] => XEmit [] (RList [])
   | x :: _ => match resultx behx x with None => XRaise [x] | Some v => XEmit [x] (RSingle v) end
   end).
Proof.
  cbv zeta. split; [|reflexivity]. unfold emit_body_x. cbn [truthy].
  destruct (run_calls_shape (map (call_of sd a) (expected ev sd reg)) [] []) as [H|H]; [left|right]; exact H.
Qed.
End Raising.

(* ---------- callbacks that never raise: the behaviour of C19_dispatch_all ---------- *)
Section Total.
Variables Arg Res : Type.
Variable beh : func -> Z -> Arg -> Res.
Notation op := (op Arg).
Let behx := fun f s a => Some (beh f s a).

Lemma run_calls_total (l : list (call Arg)) : forall done res,
  run_calls behx l done res = XEmit (done ++ l) (RList (res ++ map (result_of beh) l)).
Proof.
  induction l as [|x l IH]; intros done res; cbn [run_calls map].
  - rewrite !app_nil_r. reflexivity.
  - unfold resultx, behx. rewrite IH, <- !app_assoc. reflexivity.
Qed.

Theorem raising_conservative (p : list op) ev sd a single :
  spec_emit_x behx p ev sd a single = lift_out (spec_emit_all beh p ev sd a single).
Proof.
  unfold spec_emit_x, spec_emit_all. destruct (silenced_all p); [reflexivity|].
  unfold emit_body_x, emit_body. destruct (truthy single).
  - destruct (map (call_of sd a) (expected ev sd (registered p))); reflexivity.
  - rewrite run_calls_total. reflexivity.
Qed.
End Total.
