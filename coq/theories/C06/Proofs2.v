(* C06/Proofs2.v -- get_features / get_template_features: row resolution, column rows, Dense_Spec. *)
From Coq Require Import ZArith List Lia Bool Arith ZifyBool.
From PV Require Import Base.NpList C06.Model C06.Spec C06.Proofs.
Import ListNotations.
Open Scope Z_scope.

(* ---------- np.unique / np.intersect1d ---------- *)
Fixpoint ssorted (l : list Z) : Prop :=
  match l with [] => True | x :: r => (forall y, In y r -> x < y) /\ ssorted r end.

Lemma uinsert_In x l y : In y (uinsert x l) <-> y = x \/ In y l.
Proof.
  induction l as [|a r IH]; cbn [uinsert In]; [intuition|].
  destruct (x <? a) eqn:E1; cbn [In]; [intuition|].
  destruct (x =? a) eqn:E2; cbn [In].
  - apply Z.eqb_eq in E2. subst. intuition.
  - rewrite IH. intuition.
Qed.

Lemma uinsert_sorted x l : ssorted l -> ssorted (uinsert x l).
Proof.
  induction l as [|a r IH]; intros H; cbn [uinsert ssorted]; [split; [intros y []|exact I]|].
  destruct H as [Ha Hr]. destruct (x <? a) eqn:E1.
  - cbn [ssorted]. split; [|split; assumption]. intros y [<-|Hy]; [lia|]. specialize (Ha y Hy). lia.
  - destruct (x =? a) eqn:E2; [split; assumption|]. cbn [ssorted]. split; [|now apply IH].
    intros y Hy. apply uinsert_In in Hy as [->|Hy]; [lia|now apply Ha].
Qed.

Lemma ssorted_NoDup l : ssorted l -> NoDup l.
Proof.
  induction l as [|a r IH]; intros H; constructor; destruct H as [Ha Hr].
  - intros Hin. specialize (Ha a Hin). lia.
  - now apply IH.
Qed.

Lemma np_unique_In l y : In y (np_unique l) <-> In y l.
Proof.
  induction l as [|a r IH]; cbn [np_unique fold_right In]; [tauto|].
  fold (np_unique r). rewrite uinsert_In, IH. intuition.
Qed.

Lemma np_unique_NoDup l : NoDup (np_unique l).
Proof.
  apply ssorted_NoDup. induction l as [|a r IH]; cbn [np_unique fold_right]; [exact I|].
  now apply uinsert_sorted.
Qed.

Lemma intersect1d_In a b y : In y (intersect1d a b) <-> In y a /\ In y b.
Proof. unfold intersect1d. rewrite np_unique_In, filter_In, isin_In. tauto. Qed.

Lemma intersect1d_NoDup a b : NoDup (intersect1d a b).
Proof. apply np_unique_NoDup. Qed.

(* ---------- scatter keeps row shapes ---------- *)
Lemma upd_Forall {T} (P : T -> Prop) l i v : Forall P l -> P v -> Forall P (upd l i v).
Proof.
  revert i; induction l as [|x r IH]; intros [|i] Hl Hv; cbn [upd]; auto; inversion Hl; subst; constructor; auto.
Qed.

Lemma scatter_Forall {T} (P : T -> Prop) init writes :
  Forall P init -> (forall w, In w writes -> P (snd w)) -> Forall P (scatter init writes).
Proof.
  unfold scatter. revert init; induction writes as [|w r IH]; intros init Hi Hw; cbn [fold_left]; [exact Hi|].
  apply IH.
  - apply upd_Forall; [exact Hi|]. apply Hw. now left.
  - intros w' Hw'. apply Hw. now right.
Qed.

Lemma Forall_nth_error {T} (P : T -> Prop) l i x : Forall P l -> nth_error l i = Some x -> P x.
Proof. intros H Hi. rewrite Forall_forall in H. apply H. eapply nth_error_In; eauto. Qed.

Lemma py_get_nat {T} (l : list T) q : (q < length l)%nat -> py_get l (Z.of_nat q) = nth_error l q.
Proof.
  intros H. unfold py_get, norm_idx, zlen.
  replace ((0 <=? Z.of_nat q) && (Z.of_nat q <? Z.of_nat (length l))) with true by lia.
  now rewrite Nat2Z.id.
Qed.

Lemma py_get_Z {T} (l : list T) x : 0 <= x < zlen l -> py_get l x = nth_error l (Z.to_nat x).
Proof.
  intros H. unfold py_get, norm_idx. unfold zlen in *.
  replace ((0 <=? x) && (x <? Z.of_nat (length l))) with true by lia. reflexivity.
Qed.

Lemma zpos_inj l x y : In x l -> In y l -> zpos l x = zpos l y -> x = y.
Proof.
  intros Hx Hy. unfold zpos. destruct (find_pos_some l x Hx) as (p & Hp). destruct (find_pos_some l y Hy) as (q & Hq).
  rewrite Hp, Hq. intros E. apply Nat2Z.inj in E. subst. apply find_pos_nth in Hp, Hq. congruence.
Qed.

Section Dense.
Context {A : Type}.
Variables (zero nanc : A).

Definition rows_len (n : nat) (m : list (list A)) : Prop := Forall (fun row => length row = n) m.

(* the row table branch: every requested spike found in the table receives the table's row *)
Lemma fill_rows_table (st : @store A) n_loc ids r :
  st_rows st = Some r -> NoDup r -> (forall x, In x r -> 0 <= x) -> length (st_data st) = length r ->
  NoDup ids -> (forall x, In x ids -> 0 <= x) -> rows_len n_loc (st_data st) ->
  exists feats, fill_rows nanc st n_loc ids = Some feats /\ length feats = length ids /\ rows_len n_loc feats /\
    forall p sp q, nth_error ids p = Some sp -> nth_error r q = Some sp ->
                   nth_error feats p = nth_error (st_data st) q.
Proof.
  intros Hr Hndr Hger Hlen Hndi Hgei Hrl. unfold fill_rows. rewrite Hr.
  set (s := intersect1d ids r). set (ns := length ids). set (data := st_data st) in *.
  assert (Hs_r : forall x, In x s -> In x r) by (intros x Hx; apply intersect1d_In in Hx; tauto).
  assert (Hs_i : forall x, In x s -> In x ids) by (intros x Hx; apply intersect1d_In in Hx; tauto).
  rewrite (index_of_spec s r Hndr Hger Hs_r), (index_of_spec s ids Hndi Hgei Hs_i).
  set (g := fun x => nth (Z.to_nat (zpos r x)) data []).
  set (f := fun x => Z.to_nat (zpos ids x)).
  assert (Hzr : forall x, In x s -> exists q, find_pos r x = Some q /\ (q < length data)%nat).
  { intros x Hx. destruct (find_pos_some r x (Hs_r x Hx)) as (q & Hq). exists q. split; [exact Hq|].
    rewrite Hlen. eapply find_pos_lt; eauto. }
  unfold py_gather at 1.
  rewrite (omap_map_map (py_get data) (zpos r) g).
  2:{ intros x Hx. destruct (Hzr x Hx) as (q & Hq & Hlt). unfold g, zpos. rewrite Hq, Nat2Z.id.
      rewrite py_get_nat by exact Hlt. now apply nth_error_nth'. }
  rewrite (omap_map_map (norm_idx (Z.of_nat ns)) (zpos ids) f).
  2:{ intros x Hx. destruct (find_pos_some ids x (Hs_i x Hx)) as (p & Hp). unfold f, zpos. rewrite Hp.
      pose proof (find_pos_lt _ _ _ Hp). unfold norm_idx. fold ns in H.
      replace ((0 <=? Z.of_nat p) && (Z.of_nat p <? Z.of_nat ns)) with true by lia. reflexivity. }
  set (init := repeat (repeat nanc n_loc) ns). set (writes := combine (map f s) (map g s)).
  exists (scatter init writes).
  assert (Hfst : map fst writes = map f s) by (unfold writes; apply map_fst_combine'; now rewrite !map_length).
  assert (Hb : forall w, In w writes -> (fst w < length init)%nat).
  { intros w Hw. assert (In (fst w) (map fst writes)) by now apply in_map. rewrite Hfst in H.
    apply in_map_iff in H as (x & <- & Hx). unfold init. rewrite repeat_length. unfold f, zpos.
    destruct (find_pos_some ids x (Hs_i x Hx)) as (p & Hp). rewrite Hp, Nat2Z.id. eapply find_pos_lt; eauto. }
  split; [reflexivity|]. split; [unfold init; now rewrite scatter_length, repeat_length|]. split.
  - apply scatter_Forall.
    + unfold init. apply Forall_forall. intros row Hrow. apply repeat_spec in Hrow. subst. apply repeat_length.
    + intros w Hw. unfold writes in Hw. destruct w as [a b]. apply in_combine_r in Hw.
      apply in_map_iff in Hw as (x & <- & Hx). cbn [snd]. unfold g.
      destruct (Hzr x Hx) as (q & Hq & Hlt). unfold zpos. rewrite Hq, Nat2Z.id.
      unfold rows_len in Hrl. rewrite Forall_forall in Hrl. apply Hrl. now apply nth_In.
  - intros p sp q Hp Hq.
    assert (Hin : In sp s) by (apply intersect1d_In; split; eapply nth_error_In; eauto).
    assert (Hplt : (p < length (scatter init writes))%nat).
    { rewrite scatter_length. unfold init. rewrite repeat_length. apply nth_error_Some. congruence. }
    rewrite (nth_error_nth' _ [] Hplt). rewrite (scatter_nth init writes p [] Hb).
    apply In_nth_error in Hin as (t & Ht).
    assert (Hf : f sp = p).
    { unfold f, zpos. rewrite (nth_find_pos ids sp p Hndi Hp). apply Nat2Z.id. }
    rewrite (last_write_unique p writes t (g sp)).
    + unfold g, zpos. rewrite (nth_find_pos r sp q Hndr Hq), Nat2Z.id. symmetry. apply nth_error_nth'.
      rewrite Hlen. apply nth_error_Some. congruence.
    + rewrite Hfst. apply NoDup_map_inj; [apply intersect1d_NoDup|]. intros x y Hx Hy E. unfold f in E.
      apply (zpos_inj ids); auto. unfold zpos in *.
      destruct (find_pos ids x), (find_pos ids y); lia.
    + rewrite <- Hf. unfold writes. apply nth_error_combine; now rewrite nth_error_map, Ht.
Qed.

(* no row table: row p of the result is row spike_ids[p] of the store *)
Lemma fill_rows_plain (st : @store A) n_loc ids :
  st_rows st = None -> (forall x, In x ids -> 0 <= x < zlen (st_data st)) -> rows_len n_loc (st_data st) ->
  exists feats, fill_rows nanc st n_loc ids = Some feats /\ length feats = length ids /\ rows_len n_loc feats /\
    forall p sp, nth_error ids p = Some sp -> nth_error feats p = nth_error (st_data st) (Z.to_nat sp).
Proof.
  intros Hr Hin Hrl. unfold fill_rows. rewrite Hr. set (data := st_data st) in *.
  exists (map (fun x => nth (Z.to_nat x) data []) ids).
  assert (Hg : forall x, In x ids -> py_get data x = Some (nth (Z.to_nat x) data [])).
  { intros x Hx. specialize (Hin x Hx). rewrite py_get_Z by exact Hin. apply nth_error_nth'. unfold zlen in Hin. lia. }
  split; [unfold py_gather; now apply omap_map|]. split; [now rewrite map_length|]. split.
  - unfold rows_len in *. rewrite Forall_forall in *. intros row Hrow. apply in_map_iff in Hrow as (x & <- & Hx).
    apply Hrl. apply nth_In. specialize (Hin x Hx). unfold zlen in Hin. lia.
  - intros p sp Hp. rewrite nth_error_map, Hp. cbn [option_map].
    assert (In sp ids) by (eapply nth_error_In; eauto). specialize (Hin sp H). symmetry. apply nth_error_nth'.
    unfold zlen in Hin. lia.
Qed.

Lemma col_rows_table (st : @store A) n_loc stpl ids ct :
  st_cols st = Some ct -> (forall x, In x ids -> 0 <= x < zlen stpl) -> (forall t, In t stpl -> 0 <= t < zlen ct) ->
  Forall (fun r => length r = n_loc) ct ->
  exists cols, col_rows st n_loc stpl ids = Some cols /\ length cols = length ids /\
    Forall (fun r => length r = n_loc) cols /\
    forall p sp t, nth_error ids p = Some sp -> nth_error stpl (Z.to_nat sp) = Some t ->
                   nth_error cols p = nth_error ct (Z.to_nat t).
Proof.
  intros Hc Hids Ht Hrl. unfold col_rows. rewrite Hc.
  set (g1 := fun x => nth (Z.to_nat x) stpl 0). set (g2 := fun t => nth (Z.to_nat t) ct []).
  assert (H1 : py_gather stpl ids = Some (map g1 ids)).
  { unfold py_gather. apply omap_map. intros x Hx. specialize (Hids x Hx). rewrite py_get_Z by exact Hids.
    apply nth_error_nth'. unfold zlen in Hids. lia. }
  rewrite H1.
  assert (Hmem : forall x, In x ids -> In (g1 x) stpl).
  { intros x Hx. specialize (Hids x Hx). unfold g1. apply nth_In. unfold zlen in Hids. lia. }
  assert (H2 : py_gather ct (map g1 ids) = Some (map g2 (map g1 ids))).
  { unfold py_gather. apply omap_map. intros t Hin. apply in_map_iff in Hin as (x & <- & Hx).
    specialize (Ht _ (Hmem x Hx)). rewrite py_get_Z by exact Ht. apply nth_error_nth'. unfold zlen in Ht. lia. }
  rewrite H2. eexists. split; [reflexivity|]. split; [now rewrite !map_length|]. split.
  - rewrite Forall_forall in *. intros row Hrow. apply in_map_iff in Hrow as (t & <- & Hin).
    apply in_map_iff in Hin as (x & <- & Hx). apply Hrl. apply nth_In. specialize (Ht _ (Hmem x Hx)). unfold zlen in Ht. lia.
  - intros p sp t Hp Hsp. rewrite !nth_error_map, Hp. cbn [option_map].
    assert (Hx : In sp ids) by (eapply nth_error_In; eauto).
    assert (g1 sp = t) by (unfold g1; now apply nth_error_nth). rewrite H. unfold g2. symmetry. apply nth_error_nth'.
    assert (In t stpl) by (eapply nth_error_In; eauto). specialize (Ht t H0). unfold zlen in Ht. lia.
Qed.

Lemma shape_ok_lengths (feats : list (list A)) cols n :
  length feats = length cols -> rows_len n feats -> Forall (fun r => length r = n) cols -> shape_ok feats cols = true.
Proof.
  intros Hl Hf Hc. apply shape_ok_spec. split; [exact Hl|]. intros s drow crow Hd Hcn.
  rewrite (Forall_nth_error _ _ _ _ Hf Hd). now rewrite (Forall_nth_error _ _ _ _ Hc Hcn).
Qed.

(* well-formed store + request inside the reading *)
Record Wf (st : @store A) (n_loc : nat) (stpl ids : list Z) : Prop := mkWf {
  wf_data : rows_len n_loc (st_data st);
  wf_ids_nodup : NoDup ids;
  wf_ids_range : forall x, In x ids -> 0 <= x < zlen stpl;
  wf_rows : match st_rows st with
            | Some r => NoDup r /\ (forall x, In x r -> 0 <= x) /\ length (st_data st) = length r
            | None => length (st_data st) = length stpl
            end;
  wf_cols : match st_cols st with
            | Some ct => (forall t, In t stpl -> 0 <= t < zlen ct) /\ Forall (fun r => length r = n_loc) ct
            | None => True
            end
}.

Theorem get_dense_spec (st : @store A) n_loc stpl ids chans :
  Wf st n_loc stpl ids -> NoDup chans -> (forall c, In c chans -> 0 <= c) ->
  exists out, get_dense zero nanc st n_loc stpl ids chans = Ok out /\
              Dense_Spec zero st n_loc stpl ids chans out.
Proof.
  intros [Hdata Hnd Hrange Hrows Hcols] Hndc Hgec.
  (* rows *)
  assert (Hfill : exists feats, fill_rows nanc st n_loc ids = Some feats /\ length feats = length ids /\
            rows_len n_loc feats /\
            forall p sp drow, nth_error ids p = Some sp -> stored_row st sp drow -> nth_error feats p = Some drow).
  { destruct (st_rows st) as [r|] eqn:Er.
    - destruct Hrows as (Hndr & Hger & Hlen).
      destruct (fill_rows_table st n_loc ids r Er Hndr Hger Hlen Hnd) as (feats & H1 & H2 & H3 & H4); auto.
      { intros x Hx. specialize (Hrange x Hx). lia. }
      exists feats. repeat split; auto. intros p sp drow Hp Hst. unfold stored_row in Hst. rewrite Er in Hst.
      destruct Hst as (q & Hq & Hd). rewrite (H4 p sp q Hp Hq). exact Hd.
    - destruct (fill_rows_plain st n_loc ids Er) as (feats & H1 & H2 & H3 & H4); auto.
      { intros x Hx. specialize (Hrange x Hx). unfold zlen in *. rewrite Hrows. lia. }
      exists feats. repeat split; auto. intros p sp drow Hp Hst. unfold stored_row in Hst. rewrite Er in Hst.
      destruct Hst as (_ & Hd). rewrite (H4 p sp Hp). exact Hd. }
  destruct Hfill as (feats & Hf1 & Hf2 & Hf3 & Hf4).
  (* columns *)
  assert (Hcr : exists cols, col_rows st n_loc stpl ids = Some cols /\ length cols = length ids /\
            Forall (fun r => length r = n_loc) cols /\
            forall p sp crow, nth_error ids p = Some sp -> col_row st n_loc stpl sp crow -> nth_error cols p = Some crow).
  { destruct (st_cols st) as [ct|] eqn:Ec.
    - destruct Hcols as (Ht & Hctl).
      destruct (col_rows_table st n_loc stpl ids ct Ec Hrange Ht Hctl) as (cols & H1 & H2 & H3 & H4).
      exists cols. repeat split; auto. intros p sp crow Hp Hcr. unfold col_row in Hcr. rewrite Ec in Hcr.
      destruct Hcr as (t & _ & Hst & _ & Hct). rewrite (H4 p sp t Hp Hst). exact Hct.
    - exists (repeat (arange n_loc) (length ids)). unfold col_rows. rewrite Ec. split; [reflexivity|].
      split; [apply repeat_length|]. split.
      + apply Forall_forall. intros r Hr. apply repeat_spec in Hr. subst. apply arange_length.
      + intros p sp crow Hp Hcr. unfold col_row in Hcr. rewrite Ec in Hcr. subst.
        apply nth_error_repeat. apply nth_error_Some. congruence. }
  destruct Hcr as (cols & Hc1 & Hc2 & Hc3 & Hc4).
  assert (Hsh : shape_ok feats cols = true) by (apply (shape_ok_lengths feats cols n_loc); auto; lia).
  exists (dense zero feats cols chans). split.
  - unfold get_dense. rewrite Hf1, Hc1. now apply from_sparse_closed.
  - split; [rewrite dense_length; lia|].
    intros p sp Hp.
    destruct (nth_error feats p) as [frow|] eqn:Ef.
    2:{ apply nth_error_None in Ef. assert (p < length ids)%nat by (apply nth_error_Some; congruence). lia. }
    destruct (nth_error cols p) as [crow0|] eqn:Ec0.
    2:{ apply nth_error_None in Ec0. assert (p < length ids)%nat by (apply nth_error_Some; congruence). lia. }
    exists (dense_row zero crow0 frow chans). split; [now apply dense_nth|].
    split; [unfold dense_row; now rewrite map_length|].
    intros drow crow Hst Hcr j ch Hj.
    pose proof (Hf4 p sp drow Hp Hst) as E1. pose proof (Hc4 p sp crow Hp Hcr) as E2.
    rewrite Ef in E1. rewrite Ec0 in E2. injection E1 as ->. injection E2 as ->.
    exists (dense_cell zero crow drow ch). split; [now apply dense_row_nth|].
    apply dense_cell_spec.
    rewrite (Forall_nth_error _ _ _ _ Hf3 Ef). now rewrite (Forall_nth_error _ _ _ _ Hc3 Ec0).
Qed.
End Dense.
