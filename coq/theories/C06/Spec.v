(* C06/Spec.v -- what "densified exactly" means, independently of the lookup-table algorithm, and the
   boolean checkers that judge an observed output. *)
From Coq Require Import ZArith List Bool Arith.
From PV Require Import Base.NpList C06.Model.
Import ListNotations.
Open Scope Z_scope.

Section Spec.
Context {A : Type}.
Variable zero : A.

(* The cell of the dense output for channel ch, given one sparse row (column indices crow, values
   drow): zero when ch is not stored; the stored value when ch is stored exactly once.  (When a row of
   the column table names a channel twice "the stored value" is not unique: nothing is claimed.) *)
Definition Cell_Spec (crow : list Z) (drow : list A) (ch : Z) (v : A) : Prop :=
  (~ In ch crow -> v = zero) /\
  (forall k, nth_error crow k = Some ch -> (forall k', nth_error crow k' = Some ch -> k' = k) ->
             nth_error drow k = Some v).

(* from_sparse: shape (n_spikes, |chans|), every cell as above *)
Definition FS_Spec (data : list (list A)) (cols : list (list Z)) (chans : list Z) (out : list (list A)) : Prop :=
  length out = length data /\
  forall s crow drow, nth_error cols s = Some crow -> nth_error data s = Some drow ->
    exists orow, nth_error out s = Some orow /\ length orow = length chans /\
      forall j ch, nth_error chans j = Some ch ->
        exists v, nth_error orow j = Some v /\ Cell_Spec crow drow ch v.

(* the row a feature store holds for spike sp, and the column-table row of that spike's template *)
Definition stored_row (st : @store A) (sp : Z) (drow : list A) : Prop :=
  match st_rows st with
  | None => 0 <= sp /\ nth_error (st_data st) (Z.to_nat sp) = Some drow
  | Some r => exists q, nth_error r q = Some sp /\ nth_error (st_data st) q = Some drow
  end.
Definition col_row (st : @store A) (n_loc : nat) (spike_templates : list Z) (sp : Z) (crow : list Z) : Prop :=
  match st_cols st with
  | None => crow = arange n_loc
  | Some ct => exists t, 0 <= sp /\ nth_error spike_templates (Z.to_nat sp) = Some t /\
                         0 <= t /\ nth_error ct (Z.to_nat t) = Some crow
  end.

(* get_features / get_template_features: one output row per requested spike, in request order; for
   every requested spike that the store holds, each cell is the stored value whose column index names
   that channel for the spike's template, else zero.  Nothing is claimed for spikes not stored. *)
Definition Dense_Spec (st : @store A) (n_loc : nat) (spike_templates spike_ids chans : list Z)
           (out : list (list A)) : Prop :=
  length out = length spike_ids /\
  forall p sp, nth_error spike_ids p = Some sp ->
    exists orow, nth_error out p = Some orow /\ length orow = length chans /\
      forall drow crow, stored_row st sp drow -> col_row st n_loc spike_templates sp crow ->
        forall j ch, nth_error chans j = Some ch ->
          exists v, nth_error orow j = Some v /\ Cell_Spec crow drow ch v.

(* ---------- functional form ---------- *)
(* the value written last for channel ch in one sparse row (NumPy's fancy assignment, left to right) *)
Fixpoint stored_last (crow : list Z) (drow : list A) (ch : Z) : option A :=
  match crow, drow with
  | c :: cr, d :: dr => match stored_last cr dr ch with
                        | Some v => Some v
                        | None => if c =? ch then Some d else None
                        end
  | _, _ => None
  end.
Definition dense_cell (crow : list Z) (drow : list A) (ch : Z) : A :=
  match stored_last crow drow ch with Some v => v | None => zero end.
Definition dense_row (crow : list Z) (drow : list A) (chans : list Z) : list A := map (dense_cell crow drow) chans.
Fixpoint dense (data : list (list A)) (cols : list (list Z)) (chans : list Z) : list (list A) :=
  match data, cols with
  | d :: dr, c :: cr => dense_row c d chans :: dense dr cr chans
  | _, _ => []
  end.

(* ---------- boolean checkers ---------- *)
Variable aeqb : A -> A -> bool.

(* the values stored for channel ch in one sparse row, in column order *)
Fixpoint occ (crow : list Z) (drow : list A) (ch : Z) : list A :=
  match crow, drow with
  | c :: cr, d :: dr => if c =? ch then d :: occ cr dr ch else occ cr dr ch
  | _, _ => []
  end.

Definition cell_ok (crow : list Z) (drow : list A) (ch : Z) (v : A) : bool :=
  match occ crow drow ch with
  | [] => aeqb v zero
  | [d] => aeqb v d
  | l => existsb (aeqb v) l         (* a channel named twice: any of the candidates (NumPy leaves the
                                       winner of a repeated fancy-assignment index undetermined) *)
  end.

Fixpoint row_ok (crow : list Z) (drow : list A) (chans : list Z) (orow : list A) : bool :=
  match chans, orow with
  | [], [] => true
  | ch :: cr, v :: vr => cell_ok crow drow ch v && row_ok crow drow cr vr
  | _, _ => false
  end.

Fixpoint fs_spec_b (data : list (list A)) (cols : list (list Z)) (chans : list Z) (out : list (list A)) : bool :=
  match data, cols, out with
  | [], [], [] => true
  | d :: dr, c :: cr, o :: or => row_ok c d chans o && fs_spec_b dr cr chans or
  | _, _, _ => false
  end.

(* is the output determined by the property (no requested channel named twice in a row)? *)
Definition row_determined (crow : list Z) (chans : list Z) : bool :=
  forallb (fun ch => (length (filter (Z.eqb ch) crow) <=? 1)%nat) chans.

Fixpoint find_pos (l : list Z) (x : Z) : option nat :=
  match l with
  | [] => None
  | y :: r => if y =? x then Some O else option_map S (find_pos r x)
  end.

(* the stored row / column row of spike sp, computed by plain search (not by lookup tables) *)
Definition stored_row_f (st : @store A) (sp : Z) : option (list A) :=
  match st_rows st with
  | None => if sp <? 0 then None else nth_error (st_data st) (Z.to_nat sp)
  | Some r => match find_pos r sp with Some q => nth_error (st_data st) q | None => None end
  end.
Definition col_row_f (st : @store A) (n_loc : nat) (spike_templates : list Z) (sp : Z) : option (list Z) :=
  match st_cols st with
  | None => Some (arange n_loc)
  | Some ct => if sp <? 0 then None else
               match nth_error spike_templates (Z.to_nat sp) with
               | Some t => if t <? 0 then None else nth_error ct (Z.to_nat t)
               | None => None
               end
  end.

Fixpoint dense_spec_b (st : @store A) (n_loc : nat) (stpl : list Z) (spike_ids chans : list Z)
         (out : list (list A)) : bool :=
  match spike_ids, out with
  | [], [] => true
  | sp :: sr, o :: or =>
      (length o =? length chans)%nat &&
      match stored_row_f st sp, col_row_f st n_loc stpl sp with
      | Some drow, Some crow => row_ok crow drow chans o
      | _, _ => true                  (* not stored: no value claimed *)
      end && dense_spec_b st n_loc stpl sr chans or
  | _, _ => false
  end.
End Spec.

(* ---------- principal components on exactly diagonalisable inputs (integer waveforms) ---------- *)
(* w : (n_spikes, n_samples, n_channels).  For channel k the scaled covariance of samples j, j' is
   n * sum_l w[l][j][k] w[l][j'][k] - (sum_l w[l][j][k]) (sum_l w[l][j'][k]). *)
Definition zsum (l : list Z) : Z := fold_right Z.add 0 l.
Definition wcol (w : list (list (list Z))) (j k : nat) : list Z :=
  map (fun wl => nth k (nth j wl []) 0) w.
Definition scov (w : list (list (list Z))) (k j j' : nat) : Z :=
  let a := wcol w j k in let b := wcol w j' k in
  zlen w * zsum (map (fun p => fst p * snd p) (combine a b)) - zsum a * zsum b.

(* index of the largest entry (first one), None on [] *)
Fixpoint argmax_from (i : nat) (best : nat) (bv : Z) (l : list Z) : nat :=
  match l with
  | [] => best
  | x :: r => if bv <? x then argmax_from (S i) i x r else argmax_from (S i) best bv r
  end.
Definition argmax (l : list Z) : option nat :=
  match l with [] => None | x :: r => Some (argmax_from 1 0 x r) end.
(* the three leading indices of a variance vector, when they are strictly separated from each other and
   from the rest (otherwise the leading components are not determined: None) *)
Definition knock (l : list Z) (i : nat) : list Z := upd l i (-1).
Definition leading3 (d : list Z) : option (list nat) :=
  match argmax d with
  | Some i1 => let d1 := knock d i1 in
    match argmax d1 with
    | Some i2 => let d2 := knock d1 i2 in
      match argmax d2 with
      | Some i3 => let d3 := knock d2 i3 in
        let v1 := nth i1 d 0 in let v2 := nth i2 d 0 in let v3 := nth i3 d 0 in
        let v4 := match argmax d3 with Some i4 => nth i4 d3 0 | None => -1 end in
        if (v2 <? v1) && (v3 <? v2) && (v4 <? v3) && (0 <? v3) then Some [i1; i2; i3] else None
      | None => None
      end
    | None => None
    end
  | None => None
  end.
(* regime: every channel's covariance is diagonal with separated leading variances *)
Definition pca_leading (nsamp nc : nat) (w : list (list (list Z))) : option (list (list nat)) :=
  omap (fun k =>
    if forallb (fun j => forallb (fun j' => (j =? j')%nat || (scov w k j j' =? 0)) (seq 0 nsamp)) (seq 0 nsamp)
    then leading3 (map (fun j => scov w k j j) (seq 0 nsamp)) else None) (seq 0 nc).

Definition zl_eqb (a b : list Z) : bool :=
  (length a =? length b)%nat && forallb (fun p => fst p =? snd p) (combine a b).
(* a = b or a = -b *)
Definition eq_up_to_sign (a b : list Z) : bool := zl_eqb a b || zl_eqb a (map Z.opp b).

(* observed features (n_spikes, n_channels, 3): for every channel k and component i the column over
   the spikes is +- the waveform sample of the i-th leading index *)
Definition pca_feat_b (nsamp nc : nat) (w : list (list (list Z))) (feat : list (list (list Z))) : bool :=
  match pca_leading nsamp nc w with
  | None => false
  | Some lead =>
      (length feat =? length w)%nat &&
      forallb (fun fl => (length fl =? nc)%nat && forallb (fun c => (length c =? 3)%nat) fl) feat &&
      forallb (fun k =>
        forallb (fun i =>
          eq_up_to_sign (map (fun fl => nth i (nth k fl []) 0) feat)
                        (wcol w (nth i (nth k lead []) O) k)) (seq 0 3)) (seq 0 nc)
  end.
(* observed components (3, n_samples, n_channels): +- unit vectors on the leading indices *)
Definition pca_pcs_b (nsamp nc : nat) (w : list (list (list Z))) (pcs : list (list (list Z))) : bool :=
  match pca_leading nsamp nc w with
  | None => false
  | Some lead =>
      (length pcs =? 3)%nat &&
      forallb (fun pi => (length pi =? nsamp)%nat && forallb (fun r => (length r =? nc)%nat) pi) pcs &&
      forallb (fun k =>
        forallb (fun i =>
          let v := map (fun r => nth k r 0) (nth i pcs []) in
          let e := map (fun j => if (j =? nth i (nth k lead []) O)%nat then 1 else 0) (seq 0 nsamp) in
          eq_up_to_sign v e) (seq 0 3)) (seq 0 nc)
  end.

(* ====================== stage 3 additions ====================== *)
From Coq Require Import Sorting.Mergesort Orders.

(* ---------- closed form of get_features / get_template_features, NaN rows included ---------- *)
Section Closed.
Context {A : Type}.
Variables (zero nanc : A).

(* the row of the NaN-prefilled buffer that from_sparse receives for spike sp *)
Definition filled_row (st : @store A) (n_loc : nat) (sp : Z) : list A :=
  match stored_row_f st sp with Some d => d | None => repeat nanc n_loc end.
Definition colrow_of (st : @store A) (n_loc : nat) (stpl : list Z) (sp : Z) : list Z :=
  match col_row_f st n_loc stpl sp with Some c => c | None => [] end.
(* the output row of spike sp: it depends on the store, the spike and the requested channels only --
   not on the other requested spikes, not on the position in the request *)
Definition closed_row (st : @store A) (n_loc : nat) (stpl chans : list Z) (sp : Z) : list A :=
  dense_row zero (colrow_of st n_loc stpl sp) (filled_row st n_loc sp) chans.
Definition get_dense_closed_form (st : @store A) (n_loc : nat) (stpl ids chans : list Z) : list (list A) :=
  map (closed_row st n_loc stpl chans) ids.
End Closed.

(* ---------- a boolean form of the well-formedness premise, usable on large stores ---------- *)
Module ZLe <: TotalLeBool.
  Definition t := Z.
  Definition leb := Z.leb.
  Theorem leb_total : forall a b, leb a b = true \/ leb b a = true.
  Proof. intros a b. unfold leb. destruct (Z.leb_spec a b); [now left|right]. apply Z.leb_le. apply Z.lt_le_incl. assumption. Qed.
End ZLe.
Module ZSort := Sort ZLe.

Fixpoint sinc_b (l : list Z) : bool :=
  match l with
  | x :: ((y :: _) as r) => (x <? y) && sinc_b r
  | _ => true
  end.
(* duplicate-freeness in n log n: sort, then compare neighbours *)
Definition nodup_fast (l : list Z) : bool := sinc_b (ZSort.sort l).

Section WfB.
Context {A : Type}.
(* (the lengths are bound outside the loops: vm_compute would recompute them for every element) *)
Definition wf_b (st : @store A) (n_loc : nat) (stpl ids : list Z) : bool :=
  let ns := zlen stpl in
  forallb (fun row => (length row =? n_loc)%nat) (st_data st) &&
  nodup_fast ids &&
  forallb (fun x => (0 <=? x) && (x <? ns)) ids &&
  match st_rows st with
  | Some r => nodup_fast r && forallb (fun x => 0 <=? x) r && (length (st_data st) =? length r)%nat
  | None => (length (st_data st) =? length stpl)%nat
  end &&
  match st_cols st with
  | Some ct => let nt := zlen ct in
               forallb (fun t => (0 <=? t) && (t <? nt)) stpl && forallb (fun r => (length r =? n_loc)%nat) ct
  | None => true
  end.
End WfB.

(* ---------- principal components: which components are claimed for how many spikes ---------- *)
(* With k spikes the sample covariance of a channel has rank <= k - 1, so at most k - 1 components are
   determined (up to sign); _compute_pcs is asked for three.  k <= 1: nothing is claimed (the code uses
   the bare regulariser).  *)
Definition claimed (k : nat) : nat := Nat.min 3 (k - 1).

(* the first c leading indices of a variance vector, when each is positive and strictly above all the
   remaining entries (otherwise the corresponding component is not determined: None) *)
Fixpoint leadingN (c : nat) (d : list Z) : option (list nat) :=
  match c with
  | O => Some []
  | S c' =>
      match argmax d with
      | Some i =>
          let v := nth i d 0 in
          let d' := knock d i in
          match argmax d' with
          | Some i2 => if (nth i2 d' 0 <? v) && (0 <? v) then option_map (cons i) (leadingN c' d') else None
          | None => None
          end
      | None => None
      end
  end.
Definition pca_leading_c (c nsamp nc : nat) (w : list (list (list Z))) : option (list (list nat)) :=
  omap (fun k =>
    if forallb (fun j => forallb (fun j' => (j =? j')%nat || (scov w k j j' =? 0)) (seq 0 nsamp)) (seq 0 nsamp)
    then leadingN c (map (fun j => scov w k j j) (seq 0 nsamp)) else None) (seq 0 nc).

Definition pca_feat_c_b (c nsamp nc : nat) (w : list (list (list Z))) (feat : list (list (list Z))) : bool :=
  match pca_leading_c c nsamp nc w with
  | None => false
  | Some lead =>
      (length feat =? length w)%nat &&
      forallb (fun fl => (length fl =? nc)%nat && forallb (fun cl => (length cl =? 3)%nat) fl) feat &&
      forallb (fun k =>
        forallb (fun i =>
          eq_up_to_sign (map (fun fl => nth i (nth k fl []) 0) feat)
                        (wcol w (nth i (nth k lead []) O) k)) (seq 0 c)) (seq 0 nc)
  end.
Definition pca_pcs_c_b (c nsamp nc : nat) (w : list (list (list Z))) (pcs : list (list (list Z))) : bool :=
  match pca_leading_c c nsamp nc w with
  | None => false
  | Some lead =>
      (length pcs =? 3)%nat &&
      forallb (fun pi => (length pi =? nsamp)%nat && forallb (fun r => (length r =? nc)%nat) pi) pcs &&
      forallb (fun k =>
        forallb (fun i =>
          let v := map (fun r => nth k r 0) (nth i pcs []) in
          let e := map (fun j => if (j =? nth i (nth k lead []) O)%nat then 1 else 0) (seq 0 nsamp) in
          eq_up_to_sign v e) (seq 0 c)) (seq 0 nc)
  end.

(* ---------- exactly two spikes, ANY integer waveforms: the leading component of channel k is the
   direction of d = w1[:, k] - w0[:, k] (when d <> 0), so feature 0 of spike l is +- <w_l, d> / |d|.
   |d| is irrational in general and the components are stored as float32, hence a tolerance: with
   nrm = floor(sqrt(|d|^2 * 4^30)) / 2^30 and B = sum_j |w_l[j]| |d_j|,
       | f * nrm - sg * <w_l, d> |  <=  2^-18 * (B + nrm)                                        *)
Definition close_b (num den : Z) (sg s B R : Z) : bool :=
  Z.abs (num * R - sg * s * den * 2 ^ 30) * 2 ^ 18 <=? (B * 2 ^ 30 + R) * den.
Definition dvec (w0 w1 : list (list Z)) (nsamp k : nat) : list Z :=
  map (fun j => nth k (nth j w1 []) 0 - nth k (nth j w0 []) 0) (seq 0 nsamp).
Definition wvec (wl : list (list Z)) (nsamp k : nat) : list Z := map (fun j => nth k (nth j wl []) 0) (seq 0 nsamp).
Definition zdot (a b : list Z) : Z := zsum (map (fun p => fst p * snd p) (combine a b)).
Definition zdot_abs (a b : list Z) : Z := zsum (map (fun p => Z.abs (fst p) * Z.abs (snd p)) (combine a b)).
Definition norm_R (d : list Z) : Z := Z.sqrt (zdot d d * 4 ^ 30).
