(* C06/LinkC03.v -- stage 4: the waveform-derived route of TemplateModel.get_features with its
   waveform input instantiated by C03's proved model of TemplateModel.get_waveforms.

   phylib/io/model.py, get_features, branch [sf is None and self.spike_waveforms is not None]:
       features = np.zeros((ns, nc, 3))
       spike_ids_exist = np.intersect1d(spike_ids, self.spike_waveforms.spike_ids)
       waveforms = self.get_waveforms(spike_ids_exist, channel_ids)          <- C03.Model.model_get_waveforms
       features_existing = compute_features(waveforms)                        <- C06.Model.compute_features
       ind = _index_of(spike_ids_exist, spike_ids); features[ind, ...] = features_existing   <- pca_assemble

   In stages 1-3 of C06 the waveforms were an INPUT of the model ([pca_assemble]'s [compute] argument).
   Here [compute] is C03's dispatch on a subset store followed by C06's compute_features, and the store is
   the one C03's export writes: ids, the per-spike channel rows (any width, -1 padding anywhere, channels
   missing for some spikes) and, per stored spike, the scaled zero-padded raw window on its own channel row.

   Name spaces: C03.Model and C06.Model both define store / mkstore / intersect1d / index_of / zlen.  The C03
   modules are imported first, so unqualified names are C06's; C03's are written qualified. *)
From Coq Require Import ZArith List Lia Bool Arith Permutation.
From PV Require Import Base.PySlice Base.NpSearch Base.NpList C16.Model C16.Spec
                       C03.Model C03.Spec C03.Proofs C03.Proofs2 C03.Proofs3.
From PV Require Import C06.Model C06.Spec C06.Proofs C06.Proofs2 C06.Proofs3.
Import ListNotations.
Open Scope Z_scope.

(* ---------- strictly increasing lists are determined by their elements ---------- *)
Lemma ssorted_ext a b : ssorted a -> ssorted b -> (forall y, In y a <-> In y b) -> a = b.
Proof.
  revert b; induction a as [|x ra IH]; intros [|y rb] Ha Hb H.
  - reflexivity.
  - exfalso. apply (H y). now left.
  - exfalso. apply (H x). now left.
  - destruct Ha as [Hx Hra], Hb as [Hy Hrb].
    assert (x = y).
    { destruct (proj1 (H x) (or_introl eq_refl)) as [E|Hin]; [congruence|].
      destruct (proj2 (H y) (or_introl eq_refl)) as [E|Hin']; [congruence|].
      specialize (Hx y Hin'). specialize (Hy x Hin). lia. }
    subst y. f_equal. apply IH; auto. intros z. split; intros Hz.
    + destruct (proj1 (H z) (or_intror Hz)) as [E|Hin]; [|exact Hin]. specialize (Hx z Hz). lia.
    + destruct (proj2 (H z) (or_intror Hz)) as [E|Hin]; [|exact Hin]. specialize (Hy z Hz). lia.
Qed.

Lemma np_unique_sorted l : ssorted (np_unique l).
Proof. induction l as [|a r IH]; cbn [np_unique fold_right]; [exact I|]. now apply uinsert_sorted. Qed.

(* np.intersect1d(spike_ids, stored) is the same array for every ordering of spike_ids *)
Lemma intersect1d_perm a a' b : Permutation a a' -> C06.Model.intersect1d a b = C06.Model.intersect1d a' b.
Proof.
  intros H. apply ssorted_ext; try apply np_unique_sorted.
  intros y. rewrite !C06.Proofs2.intersect1d_In. split; intros [H1 H2]; split; auto.
  - eapply Permutation_in; eauto.
  - eapply Permutation_in; [apply Permutation_sym|]; eauto.
Qed.

(* ---------- the waveforms C03's look-up returns, cell by cell ---------- *)
Section Windows.
Context {A : Type}.
Variable zero : A.
Variable scale : A -> A.

Lemma keep_flags_nodup stored q : NoDup q -> keep_flags stored q = stored_flags stored q.
Proof.
  induction 1 as [|ch r Hn Hd IH]; [reflexivity|]. cbn [keep_flags stored_flags map]. fold (stored_flags stored r).
  rewrite IH. f_equal. assert (E : memZ ch r = false) by now apply memZ_false. rewrite E. cbn [negb]. apply andb_true_r.
Qed.

(* requested channels distinct (the regime of C06): the look-up is the stored-channel mask of the scaled window
   on the requested channels -- no hypothesis on the unit factor *)
Lemma lookup_window_nodup (data : list (list A)) n sp q_ch :
  NoDup q_ch -> lookup_window zero scale data n sp q_ch = masked_window zero scale data n sp q_ch.
Proof.
  intros Hnd. rewrite masked_window_as_mask. unfold lookup_window. now rewrite keep_flags_nodup.
Qed.

Lemma masked_window_shape (data : list (list A)) n sp q_ch :
  is_shape (Z.to_nat n) (length q_ch) (masked_window zero scale data n sp q_ch) = true.
Proof.
  unfold is_shape, masked_window. rewrite map_length, zrange_length, Nat.eqb_refl. cbn [andb].
  apply forallb_forall. intros row Hrow. apply in_map_iff in Hrow as (t & <- & _). rewrite map_length. apply Nat.eqb_refl.
Qed.

Lemma nth_error_zrange a k i : (i < k)%nat -> nth_error (zrange a k) i = Some (a + Z.of_nat i).
Proof.
  intros H. rewrite (nth_error_nth' _ 0) by now rewrite zrange_length. now rewrite zrange_nth.
Qed.

(* sample j, requested channel number k of the waveform the route hands to compute_features for the stored
   spike sp: the scaled raw sample at s - n//2 + j when the channel is stored for the spike, zero otherwise;
   [cell] is zero outside the recording (C03_window_meaning) *)
Lemma ent_masked_window (data : list (list A)) n sp q_ch j k ch :
  (j < Z.to_nat n)%nat -> nth_error q_ch k = Some ch ->
  ent zero (masked_window zero scale data n sp q_ch) j k =
  if memZ ch (sp_ch sp) then scale (cell zero data (sp_s sp - n / 2 + Z.of_nat j) ch) else zero.
Proof.
  intros Hj Hk. unfold ent, masked_window.
  set (f := fun t => map (fun c => if memZ c (sp_ch sp) then scale (cell zero data t c) else zero) q_ch).
  assert (E : nth_error (map f (zrange (sp_s sp - n / 2) (Z.to_nat n))) j = Some (f (sp_s sp - n / 2 + Z.of_nat j))).
  { rewrite nth_error_map, nth_error_zrange by exact Hj. reflexivity. }
  rewrite (nth_error_nth _ _ _ E). unfold f.
  apply nth_error_nth. now rewrite nth_error_map, Hk.
Qed.
End Windows.

(* ---------- the linked model ---------- *)
Section Link.
Context {R : Type}.
Variables (radd rmul : R -> R -> R) (rzero : R).
(* _compute_pcs (np.cov + LAPACK eigh): an oracle, as in C06_compute_features_partial *)
Variable pcs_of : list (list (list R)) -> list (list (list R)).

Definition zrow3 (nc : nat) : list (list R) := repeat (repeat rzero 3%nat) nc.

(* features_existing = compute_features(self.get_waveforms(spike_ids_exist, channel_ids)); a None / an
   exception of get_waveforms propagates *)
Definition wf_compute (traces : option (list (list R))) (st : C03.Model.store (A := R)) (samples : list Z)
           (n nch : Z) (chans exist : list Z) : option (list (list (list R))) :=
  match model_get_waveforms rzero traces (Some st) samples n nch exist (Some chans) with
  | GwOut w => compute_features radd rmul rzero pcs_of (Z.to_nat n) (length chans) w
  | _ => None
  end.

(* TemplateModel.get_features(spike_ids, channel_ids) without a feature file, with a waveform store *)
Definition get_features_wf (traces : option (list (list R))) (st : C03.Model.store (A := R)) (samples : list Z)
           (n nch : Z) (spike_ids chans : list Z) : option (list (list (list R))) :=
  pca_assemble (zrow3 (length chans)) spike_ids (C03.Model.st_ids st) (wf_compute traces st samples n nch chans).

(* ORDER OF THE REQUEST.  intersect1d sorts, so the waveforms handed to the eigen-solver -- hence the
   components -- are the same for every ordering of the same set of requested ids; the row of a spike is the
   same wherever it stands.  (Unlike the stored-feature route, C06_row_local, the row of a spike DOES depend on
   which other stored spikes are requested: the components are computed from all of them.) *)
Theorem link_route_perm traces (st : C03.Model.store (A := R)) samples n nch q_ids q_ids' q_ch out :
  Permutation q_ids q_ids' -> NoDup q_ids -> (forall x, In x q_ids -> 0 <= x) ->
  get_features_wf traces st samples n nch q_ids q_ch = Some out ->
  exists out', get_features_wf traces st samples n nch q_ids' q_ch = Some out' /\ length out' = length out /\
    forall p p' x, nth_error q_ids p = Some x -> nth_error q_ids' p' = Some x -> nth_error out p = nth_error out' p'.
Proof.
  intros Hperm Hnd Hge Hout.
  assert (Hnd' : NoDup q_ids') by (eapply Permutation_NoDup; eauto).
  assert (Hge' : forall x, In x q_ids' -> 0 <= x).
  { intros x Hx. apply Hge. eapply Permutation_in; [apply Permutation_sym|]; eauto. }
  set (stored := C03.Model.st_ids st) in *.
  set (compute := wf_compute traces st samples n nch q_ch) in *.
  assert (Eex : C06.Model.intersect1d q_ids' stored = C06.Model.intersect1d q_ids stored)
    by (symmetry; now apply intersect1d_perm).
  unfold get_features_wf in *. fold stored compute in Hout |- *.
  (* the first call succeeded: compute answered, with one row per existing spike *)
  assert (Hc : exists feats, compute (C06.Model.intersect1d q_ids stored) = Some feats /\
                             length feats = length (C06.Model.intersect1d q_ids stored)).
  { unfold pca_assemble in Hout. destruct (compute (C06.Model.intersect1d q_ids stored)) as [feats|]; [|discriminate].
    exists feats. split; [reflexivity|].
    destruct (C06.Model.index_of _ q_ids) as [ind|] eqn:Ei; [|discriminate].
    destruct (omap _ ind) as [ps|] eqn:Eps; [|discriminate].
    destruct (length ps =? length feats)%nat eqn:El; [|discriminate]. apply Nat.eqb_eq in El.
    rewrite <- El. erewrite omap_length by eauto.
    assert (Hsub : forall x, In x (C06.Model.intersect1d q_ids stored) -> In x q_ids)
      by (intros x Hx; apply C06.Proofs2.intersect1d_In in Hx; tauto).
    rewrite (index_of_spec _ q_ids Hnd Hge Hsub) in Ei. injection Ei as <-. apply map_length. }
  destruct Hc as (feats & Hc & Hlen).
  destruct (pca_assemble_spec (zrow3 (length q_ch)) q_ids stored compute feats Hnd Hge Hc Hlen) as (o & Ho & Hol & Hrows).
  rewrite Ho in Hout. injection Hout as <-.
  assert (Hc' : compute (C06.Model.intersect1d q_ids' stored) = Some feats) by now rewrite Eex.
  assert (Hlen' : length feats = length (C06.Model.intersect1d q_ids' stored)) by now rewrite Eex.
  destruct (pca_assemble_spec (zrow3 (length q_ch)) q_ids' stored compute feats Hnd' Hge' Hc' Hlen') as (o' & Ho' & Hol' & Hrows').
  exists o'. split; [exact Ho'|]. split; [rewrite Hol, Hol'; symmetry; now apply Permutation_length|].
  intros p p' x Hp Hp'. destruct (Hrows p x Hp) as [Hin Hout_]. destruct (Hrows' p' x Hp') as [Hin' Hout'].
  destruct (In_dec Z.eq_dec x stored) as [Hs|Hs].
  - assert (Hx : In x (C06.Model.intersect1d q_ids stored)).
    { apply C06.Proofs2.intersect1d_In. split; [eapply nth_error_In; eauto|exact Hs]. }
    apply In_nth_error in Hx as (t & Ht). rewrite (Hin t Ht). symmetry. apply Hin'. now rewrite Eex.
  - now rewrite Hout_, Hout'.
Qed.
Variable scale : R -> R.

(* the waveform stage: what get_waveforms hands to compute_features on a store written by C03's export *)
Lemma link_waveforms c (data : list (list R)) traces samples n nch spikes ids q_ids q_ch :
  1 <= n -> Forall (fun sp => chans_ok c (sp_ch sp)) spikes ->
  Forall (fun x => 0 <= x) ids -> NpSearch.zlen ids = NpSearch.zlen spikes ->
  q_ch <> [] -> NoDup q_ch -> Forall (fun ch => -1 <= ch) q_ch ->
  exists sps, Forall2 (refers ids spikes) (C06.Model.intersect1d q_ids ids) sps /\
    model_get_waveforms rzero traces
      (Some (C03.Model.mkstore ids (map sp_ch spikes) (scaled_windows rzero scale data n spikes)))
      samples n nch (C06.Model.intersect1d q_ids ids) (Some q_ch) =
    GwOut (map (fun sp => masked_window rzero scale data n sp q_ch) sps).
Proof.
  intros Hn Hok Hids Hlen Hne Hnd Hqc.
  assert (Hq : Forall (fun x => In x ids) (C06.Model.intersect1d q_ids ids)).
  { apply Forall_forall. intros x Hx. apply C06.Proofs2.intersect1d_In in Hx. tauto. }
  destruct (route_store rzero scale c data traces samples n nch spikes ids _ q_ch Hn Hok Hids Hlen Hq Hne Hqc)
    as (sps & H1 & H2).
  exists sps. split; [exact H1|]. rewrite H2. f_equal. apply map_ext. intros sp. now apply lookup_window_nodup.
Qed.

Lemma Forall2_len {X Y} (P : X -> Y -> Prop) l1 l2 : Forall2 P l1 l2 -> length l1 = length l2.
Proof. induction 1; cbn [length]; auto. Qed.

(* THE LINK.  Store = ids + per-spike channel rows + scaled windows (what C03_export / C03_store prove the
   export writes and np.load returns).  For every request of distinct non-negative spike ids, in any order,
   stored or not, and every non-empty list of distinct requested channels:
   the waveforms handed to compute_features are W = one masked window per requested stored spike in the order of
   intersect1d; whenever compute_features succeeds on W (whatever components the oracle returns), get_features
   succeeds, has one row per requested id, the row of a requested stored spike is its row of compute_features(W),
   and the row of a requested spike the store does not hold is the zero row. *)
Theorem link_route c (data : list (list R)) traces samples n nch spikes ids q_ids q_ch :
  1 <= n -> Forall (fun sp => chans_ok c (sp_ch sp)) spikes ->
  Forall (fun x => 0 <= x) ids -> NpSearch.zlen ids = NpSearch.zlen spikes ->
  NoDup q_ids -> (forall x, In x q_ids -> 0 <= x) ->
  q_ch <> [] -> NoDup q_ch -> Forall (fun ch => -1 <= ch) q_ch ->
  let st := C03.Model.mkstore ids (map sp_ch spikes) (scaled_windows rzero scale data n spikes) in
  let exist := C06.Model.intersect1d q_ids ids in
  exists sps, Forall2 (refers ids spikes) exist sps /\
    let W := map (fun sp => masked_window rzero scale data n sp q_ch) sps in
    wf_compute traces st samples n nch q_ch exist =
      compute_features radd rmul rzero pcs_of (Z.to_nat n) (length q_ch) W /\
    forall feats, compute_features radd rmul rzero pcs_of (Z.to_nat n) (length q_ch) W = Some feats ->
      length feats = length exist /\
      exists out, get_features_wf traces st samples n nch q_ids q_ch = Some out /\ length out = length q_ids /\
        forall p x, nth_error q_ids p = Some x ->
          (forall t, nth_error exist t = Some x -> nth_error out p = nth_error feats t) /\
          (~ In x ids -> nth_error out p = Some (zrow3 (length q_ch))).
Proof.
  intros Hn Hok Hids Hlen Hndq Hq0 Hne Hndc Hqc st exist.
  destruct (link_waveforms c data traces samples n nch spikes ids q_ids q_ch Hn Hok Hids Hlen Hne Hndc Hqc)
    as (sps & Hsps & Hw).
  exists sps. split; [exact Hsps|]. intros W.
  assert (Hwc : wf_compute traces st samples n nch q_ch exist =
                compute_features radd rmul rzero pcs_of (Z.to_nat n) (length q_ch) W).
  { unfold wf_compute, st, exist. now rewrite Hw. }
  split; [exact Hwc|]. intros feats Hf.
  assert (Hfl : length feats = length exist).
  { apply compute_features_spec in Hf as [_ Hp]. apply project_spec in Hp as [Hl _]. rewrite Hl. unfold W.
    rewrite map_length. symmetry. eapply Forall2_len; eauto. }
  split; [exact Hfl|]. unfold get_features_wf. cbn [C03.Model.st_ids st].
  apply pca_assemble_spec; auto. fold exist. now rewrite Hwc.
Qed.

(* totality: the only failure of the route on such a store is an eigen-solver answer that is not three
   components of shape (n_samples, n_channels) *)
Theorem link_route_total (data : list (list R)) n (spikes : list spike) (ids exist : list Z) sps q_ch :
  Forall2 (refers ids spikes) exist sps ->
  let W := map (fun sp => masked_window rzero scale data n sp q_ch) sps in
  length (pcs_of W) = 3%nat -> forallb (is_shape (Z.to_nat n) (length q_ch)) (pcs_of W) = true ->
  exists feats, compute_features radd rmul rzero pcs_of (Z.to_nat n) (length q_ch) W = Some feats.
Proof.
  intros _ W H3 Hsh. unfold compute_features. rewrite H3. cbn [Nat.eqb negb].
  apply project_total; [exact Hsh|]. apply forallb_forall. intros xl Hxl. unfold W in Hxl.
  apply in_map_iff in Hxl as (sp & <- & _). apply masked_window_shape.
Qed.

(* the content of a computed row: every feature is the contraction of the oracle's component with the masked,
   scaled raw window -- in particular the values the route reads for a channel the spike does not store are zero *)
Theorem link_route_cells (data : list (list R)) n (sps : list spike) q_ch feats :
  let W := map (fun sp => masked_window rzero scale data n sp q_ch) sps in
  compute_features radd rmul rzero pcs_of (Z.to_nat n) (length q_ch) W = Some feats ->
  length (pcs_of W) = 3%nat /\
  forall t sp, nth_error sps t = Some sp ->
    exists frow, nth_error feats t = Some frow /\ length frow = length q_ch /\
      forall k ch, nth_error q_ch k = Some ch ->
        exists fk, nth_error frow k = Some fk /\ length fk = 3%nat /\
          forall i pi, nth_error (pcs_of W) i = Some pi ->
            nth_error fk i =
            Some (sum_prod radd rmul rzero (Z.to_nat n) (fun j => ent rzero pi j k)
                    (fun j => if memZ ch (sp_ch sp)
                              then scale (cell rzero data (sp_s sp - n / 2 + Z.of_nat j) ch) else rzero)).
Proof.
  intros W Hf. apply compute_features_spec in Hf as [H3 Hp]. split; [exact H3|].
  apply project_spec in Hp as [_ Hrows]. intros t sp Ht.
  assert (HW : nth_error W t = Some (masked_window rzero scale data n sp q_ch)) by (unfold W; now rewrite nth_error_map, Ht).
  destruct (Hrows t _ HW) as (frow & Hfr & Hlen & Hcells). exists frow. split; [exact Hfr|]. split; [exact Hlen|].
  intros k ch Hk. assert (Hklt : (k < length q_ch)%nat) by (apply nth_error_Some; congruence).
  destruct (Hcells k Hklt) as (fk & Hfk & Hl3 & Hv). exists fk. split; [exact Hfk|]. split; [now rewrite Hl3|].
  intros i pi Hi. rewrite (Hv i pi Hi). f_equal. unfold sum_prod. f_equal. apply map_ext_in. intros j Hj.
  apply in_seq in Hj. f_equal. apply ent_masked_window; [lia|exact Hk].
Qed.

Lemma rsum_zero (l : list R) : radd rzero rzero = rzero -> Forall (fun v => v = rzero) l -> rsum radd rzero l = rzero.
Proof.
  intros Hz. induction 1 as [|v r -> _ IH]; [reflexivity|]. cbn [rsum fold_right]. fold (rsum radd rzero r).
  now rewrite IH.
Qed.

(* a requested channel that is not stored for a requested stored spike: its three features are zero, whatever
   the eigen-solver returned (x * 0 = 0 and 0 + 0 = 0 are the only laws used) *)
Theorem link_route_unstored_channel (data : list (list R)) n (sps : list spike) q_ch feats t sp k ch :
  (forall a, rmul a rzero = rzero) -> radd rzero rzero = rzero ->
  let W := map (fun sp => masked_window rzero scale data n sp q_ch) sps in
  compute_features radd rmul rzero pcs_of (Z.to_nat n) (length q_ch) W = Some feats ->
  nth_error sps t = Some sp -> nth_error q_ch k = Some ch -> ~ In ch (sp_ch sp) ->
  exists frow, nth_error feats t = Some frow /\ nth_error frow k = Some (repeat rzero 3%nat).
Proof.
  intros Hm Ha W Hf Ht Hk Hns. destruct (link_route_cells data n sps q_ch feats Hf) as (H3 & Hrows).
  destruct (Hrows t sp Ht) as (frow & Hfr & _ & Hcells). exists frow. split; [exact Hfr|].
  destruct (Hcells k ch Hk) as (fk & Hfk & Hl3 & Hv). rewrite Hfk. f_equal.
  assert (E : memZ ch (sp_ch sp) = false) by now apply memZ_false.
  apply nth_ext with (d := rzero) (d' := rzero); [now rewrite repeat_length|].
  intros i Hi. rewrite nth_repeat_same.
  destruct (nth_error (pcs_of W) i) as [pi|] eqn:Epi; [|apply nth_error_None in Epi; fold W in H3; lia].
  specialize (Hv i pi Epi). rewrite E in Hv. apply nth_error_nth with (d := rzero) in Hv. rewrite Hv.
  unfold sum_prod. apply rsum_zero; [exact Ha|]. apply Forall_forall. intros v Hv'.
  apply in_map_iff in Hv' as (j & <- & _). apply Hm.
Qed.

End Link.

(* ---------- the link, starting from the export itself (C03_export: what np.load returns) ---------- *)
Theorem link_route_export {R} (radd rmul : R -> R -> R) (rzero : R) (pcs_of : list (list (list R)) -> list (list (list R)))
    (scale : R -> R) c (data : list (list R)) traces samples n nch ncs chunks spikes kf ids q_ids q_ch :
  rect c data -> 1 <= c -> 1 <= n -> 0 <= ncs -> spikes_ok (NpSearch.zlen data) c ncs spikes -> Tiles (NpSearch.zlen data) chunks ->
  Forall (fun x => 0 <= x) ids -> NpSearch.zlen ids = NpSearch.zlen spikes ->
  NoDup q_ids -> (forall x, In x q_ids -> 0 <= x) ->
  q_ch <> [] -> NoDup q_ch -> Forall (fun ch => -1 <= ch) q_ch ->
  let exist := C06.Model.intersect1d q_ids ids in
  exists f stw sps,
    export rzero scale data n chunks spikes ncs kf = Some f /\ np_load f = Some stw /\
    Forall2 (refers ids spikes) exist sps /\
    let st := C03.Model.mkstore ids (map sp_ch spikes) stw in
    let W := map (fun sp => masked_window rzero scale data n sp q_ch) sps in
    forall feats, compute_features radd rmul rzero pcs_of (Z.to_nat n) (length q_ch) W = Some feats ->
      length feats = length exist /\
      exists out, get_features_wf radd rmul rzero pcs_of traces st samples n nch q_ids q_ch = Some out /\
        length out = length q_ids /\
        forall p x, nth_error q_ids p = Some x ->
          (forall t, nth_error exist t = Some x -> nth_error out p = nth_error feats t) /\
          (~ In x ids -> nth_error out p = Some (zrow3 rzero (length q_ch))).
Proof.
  intros Hr Hc Hn Hnc Hsp Ht Hids Hlen Hndq Hq0 Hne Hndc Hqc exist.
  destruct (export_load rzero scale c data n ncs chunks spikes kf Hr Hc Hn Hnc Hsp Ht) as (f & Hf & _ & _ & Hl).
  assert (Hok : Forall (fun sp => chans_ok c (sp_ch sp)) spikes).
  { destruct Hsp as [_ H]. eapply Forall_impl; [|exact H]. cbv beta. tauto. }
  destruct (link_route radd rmul rzero pcs_of scale c data traces samples n nch spikes ids q_ids q_ch
              Hn Hok Hids Hlen Hndq Hq0 Hne Hndc Hqc) as (sps & Hsps & _ & Hmain).
  exists f, (scaled_windows rzero scale data n spikes), sps. auto.
Qed.

(* ---------- executable wrappers used by Corr.v (stored waveforms given as plain lists) ---------- *)
(* the waveforms get_features hands to compute_features: C03's dispatch on the store (no raw data) *)
Definition linked_waveforms {R} (rzero : R) (stored : list Z) (chrows : list (list Z)) (w : list (list (list R)))
           (n : Z) (exist chans : list Z) : option (list (list (list R))) :=
  match model_get_waveforms rzero None (Some (C03.Model.mkstore stored chrows w)) [] n 0 exist (Some chans) with
  | GwOut x => Some x
  | _ => None
  end.
(* the whole route, the eigen-solver's answer being given *)
Definition linked_get_features {R} (radd rmul : R -> R -> R) (rzero : R) (pcs : list (list (list R)))
           (stored : list Z) (chrows : list (list Z)) (w : list (list (list R))) (n : Z) (ids chans : list Z) :=
  get_features_wf radd rmul rzero (fun _ => pcs) None (C03.Model.mkstore stored chrows w) [] n 0 ids chans.

(* ---------- how many components of a channel are determined (exactly diagonal covariance) ---------- *)
(* With channels missing for some spikes the waveforms of a channel are zero for those spikes, so the rank of
   the channel's covariance can be lower than min(3, k - 1): the longest prefix, of at most c entries, of leading
   variances that are positive and strictly above everything that follows.  [leadingN c] (Spec.v) is the case
   where that prefix has all c entries. *)
Fixpoint lead_max (c : nat) (d : list Z) : list nat :=
  match c with
  | O => []
  | S c' =>
      match argmax d with
      | Some i =>
          let v := nth i d 0 in
          let d' := knock d i in
          match argmax d' with
          | Some i2 => if (nth i2 d' 0 <? v) && (0 <? v) then i :: lead_max c' d' else []
          | None => []
          end
      | None => []
      end
  end.

Lemma leadingN_lead_max c d l : leadingN c d = Some l -> lead_max c d = l.
Proof.
  revert d l; induction c as [|c IH]; intros d l H; cbn [leadingN lead_max] in *; [now injection H|].
  destruct (argmax d) as [i|]; [|discriminate]. destruct (argmax (knock d i)) as [i2|]; [|discriminate].
  destruct ((nth i2 (knock d i) 0 <? nth i d 0) && (0 <? nth i d 0)); [|discriminate].
  destruct (leadingN c (knock d i)) as [l'|] eqn:E; [|discriminate]. injection H as <-. f_equal. now apply IH.
Qed.

Lemma lead_max_length c d : (length (lead_max c d) <= c)%nat.
Proof.
  revert d; induction c as [|c IH]; intros d; cbn [lead_max length]; [lia|].
  destruct (argmax d) as [i|]; [|cbn; lia]. destruct (argmax (knock d i)) as [i2|]; [|cbn; lia].
  destruct ((nth i2 (knock d i) 0 <? nth i d 0) && (0 <? nth i d 0)); [|cbn; lia]. cbn [length]. specialize (IH (knock d i)). lia.
Qed.

(* the determined leading sample indices of every channel; None = some channel's covariance is not diagonal *)
Definition pca_leading_max (c nsamp nc : nat) (w : list (list (list Z))) : option (list (list nat)) :=
  omap (fun k =>
    if forallb (fun j => forallb (fun j' => (j =? j')%nat || (scov w k j j' =? 0)) (seq 0 nsamp)) (seq 0 nsamp)
    then Some (lead_max c (map (fun j => scov w k j j) (seq 0 nsamp))) else None) (seq 0 nc).

(* where every channel has all c components determined, this is Spec.pca_leading_c *)
Lemma pca_leading_c_max c nsamp nc w lead : pca_leading_c c nsamp nc w = Some lead -> pca_leading_max c nsamp nc w = Some lead.
Proof.
  unfold pca_leading_c, pca_leading_max. generalize (seq 0 nc). intros ks. revert lead.
  induction ks as [|k ks IH]; intros lead H; cbn [omap] in *; [exact H|].
  destruct (forallb _ (seq 0 nsamp)); [|discriminate].
  destruct (leadingN c _) as [l|] eqn:E; [|discriminate]. rewrite (leadingN_lead_max _ _ _ E).
  destruct (omap _ ks) as [t|] eqn:Et; [|discriminate]. now rewrite (IH t eq_refl).
Qed.

(* ---------- "the principal components OF EACH CHANNEL": a per-channel oracle ---------- *)
(* _compute_pcs loops over the channels; the components of channel k are computed from x[:, :, k] alone (np.cov +
   eigh of that channel) and stacked (np.dstack).  With the eigen-solver as a PER-CHANNEL oracle [eig] (spikes x samples
   -> 3 x samples) the features of a requested channel depend on that channel's waveforms only: on the waveform route the
   column of a channel is the same wherever, and with whatever other channels, it is requested (the analogue of
   C06_get_features_perm for stored features). *)
Section PerChannel.
Context {R : Type}.
Variables (radd rmul : R -> R -> R) (rzero : R).
Variable eig : list (list R) -> list (list R).

(* x[:, :, k] *)
Definition chan_slice (w : list (list (list R))) (k : nat) : list (list R) :=
  map (fun wl => map (fun row => nth k row rzero) wl) w.

(* pcs[i][j][k] = eig(x[:, :, k])[i][j]; no spike at all: alpha = 1. / nspikes raises (no components) *)
Definition pcs_by_channel (nsamp nc : nat) (w : list (list (list R))) : list (list (list R)) :=
  match w with
  | [] => []
  | _ :: _ => map (fun i => map (fun j => map (fun k => ent rzero (eig (chan_slice w k)) i j) (seq 0 nc)) (seq 0 nsamp))
                  (seq 0 3)
  end.

Lemma nth_error_seq0 n j : (j < n)%nat -> nth_error (seq 0 n) j = Some j.
Proof. intros H. rewrite (nth_error_nth' _ O) by now rewrite seq_length. now rewrite seq_nth. Qed.

Lemma pcs_by_channel_shape nsamp nc w : w <> [] ->
  length (pcs_by_channel nsamp nc w) = 3%nat /\ forallb (is_shape nsamp nc) (pcs_by_channel nsamp nc w) = true.
Proof.
  intros Hw. destruct w as [|w0 w]; [contradiction|]. unfold pcs_by_channel. split; [reflexivity|].
  apply forallb_forall. intros pi Hpi. apply in_map_iff in Hpi as (i & <- & _). unfold is_shape.
  rewrite map_length, seq_length, Nat.eqb_refl. cbn [andb]. apply forallb_forall. intros r Hr.
  apply in_map_iff in Hr as (j & <- & _). rewrite map_length, seq_length. apply Nat.eqb_refl.
Qed.

Lemma ent_pcs_by_channel nsamp nc w i j k pi : w <> [] -> (j < nsamp)%nat -> (k < nc)%nat ->
  nth_error (pcs_by_channel nsamp nc w) i = Some pi -> ent rzero pi j k = ent rzero (eig (chan_slice w k)) i j.
Proof.
  intros Hw Hj Hk Hi. destruct w as [|w0 w]; [contradiction|]. unfold pcs_by_channel in Hi.
  assert (Hi3 : (i < 3)%nat).
  { destruct (Nat.lt_ge_cases i 3) as [H|H]; [exact H|]. exfalso.
    rewrite (proj2 (nth_error_None _ i)) in Hi; [discriminate|]. now rewrite map_length, seq_length. }
  rewrite nth_error_map, (nth_error_seq0 3 i Hi3) in Hi. cbn [option_map] in Hi. injection Hi as <-.
  unfold ent at 1.
  rewrite (nth_error_nth _ j [] (x := map (fun k0 => ent rzero (eig (chan_slice (w0 :: w) k0)) i j) (seq 0 nc)))
    by now rewrite nth_error_map, (nth_error_seq0 nsamp j Hj).
  apply nth_error_nth. now rewrite nth_error_map, (nth_error_seq0 nc k Hk).
Qed.

Variable scale : R -> R.

(* the channel slice of the linked waveforms is a function of the channel (and of the requested stored spikes) only *)
Lemma chan_slice_masked (data : list (list R)) n sps q_ch k ch : nth_error q_ch k = Some ch ->
  chan_slice (map (fun sp => masked_window rzero scale data n sp q_ch) sps) k =
  map (fun sp => map (fun t => if memZ ch (sp_ch sp) then scale (cell rzero data t ch) else rzero)
                     (zrange (sp_s sp - n / 2) (Z.to_nat n))) sps.
Proof.
  intros Hk. unfold chan_slice. rewrite map_map. apply map_ext. intros sp. unfold masked_window. rewrite map_map.
  apply map_ext. intros t. apply nth_error_nth. now rewrite nth_error_map, Hk.
Qed.

Theorem link_channel_local (data : list (list R)) n (sps : list spike) q_ch q_ch' feats feats' k k' ch :
  let W := map (fun sp => masked_window rzero scale data n sp q_ch) sps in
  let W' := map (fun sp => masked_window rzero scale data n sp q_ch') sps in
  compute_features radd rmul rzero (pcs_by_channel (Z.to_nat n) (length q_ch)) (Z.to_nat n) (length q_ch) W = Some feats ->
  compute_features radd rmul rzero (pcs_by_channel (Z.to_nat n) (length q_ch')) (Z.to_nat n) (length q_ch') W' = Some feats' ->
  nth_error q_ch k = Some ch -> nth_error q_ch' k' = Some ch ->
  length feats = length feats' /\
  forall t frow frow', nth_error feats t = Some frow -> nth_error feats' t = Some frow' ->
    nth_error frow k = nth_error frow' k'.
Proof.
  intros W W' Hf Hf' Hk Hk'.
  destruct (link_route_cells radd rmul rzero _ scale data n sps q_ch feats Hf) as (H3 & Hrows).
  destruct (link_route_cells radd rmul rzero _ scale data n sps q_ch' feats' Hf') as (H3' & Hrows').
  fold W in H3, Hrows. fold W' in H3', Hrows'.
  split.
  { apply compute_features_spec in Hf as [_ Hp], Hf' as [_ Hp']. apply project_spec in Hp as [Hl _], Hp' as [Hl' _].
    rewrite Hl, Hl'. unfold W, W'. now rewrite !map_length. }
  intros t frow frow' Ht Ht'.
  assert (Htl : (t < length sps)%nat).
  { apply compute_features_spec in Hf as [_ Hp]. apply project_spec in Hp as [Hl _]. unfold W in Hl. rewrite map_length in Hl.
    rewrite <- Hl. apply nth_error_Some. congruence. }
  destruct (nth_error sps t) as [sp|] eqn:Esp; [|apply nth_error_None in Esp; lia].
  assert (HWne : W <> []) by (unfold W; destruct sps; [destruct t; discriminate|discriminate]).
  assert (HWne' : W' <> []) by (unfold W'; destruct sps; [destruct t; discriminate|discriminate]).
  destruct (Hrows t sp Esp) as (fr & Hfr & _ & Hcells). destruct (Hrows' t sp Esp) as (fr' & Hfr' & _ & Hcells').
  assert (fr = frow) by congruence. assert (fr' = frow') by congruence. subst fr fr'.
  destruct (Hcells k ch Hk) as (fk & Hfk & Hl3 & Hv). destruct (Hcells' k' ch Hk') as (fk' & Hfk' & Hl3' & Hv').
  rewrite Hfk, Hfk'. f_equal.
  assert (Hklt : (k < length q_ch)%nat) by (apply nth_error_Some; congruence).
  assert (Hklt' : (k' < length q_ch')%nat) by (apply nth_error_Some; congruence).
  apply nth_error_ext_eq; [now rewrite Hl3, Hl3'|]. intros i.
  destruct (nth_error (pcs_by_channel (Z.to_nat n) (length q_ch) W) i) as [pi|] eqn:Epi.
  - assert (Hi3 : (i < 3)%nat) by (rewrite <- H3; apply nth_error_Some; congruence).
    destruct (nth_error (pcs_by_channel (Z.to_nat n) (length q_ch') W') i) as [pi'|] eqn:Epi';
      [|apply nth_error_None in Epi'; lia].
    rewrite (Hv i pi Epi), (Hv' i pi' Epi'). f_equal. unfold sum_prod. f_equal. apply map_ext_in. intros j Hj.
    apply in_seq in Hj. f_equal.
    rewrite (ent_pcs_by_channel (Z.to_nat n) (length q_ch) W i j k pi HWne) by first [exact Epi | lia].
    rewrite (ent_pcs_by_channel (Z.to_nat n) (length q_ch') W' i j k' pi' HWne') by first [exact Epi' | lia].
    unfold W, W'. now rewrite (chan_slice_masked data n sps q_ch k ch Hk), (chan_slice_masked data n sps q_ch' k' ch Hk').
  - apply nth_error_None in Epi. rewrite H3 in Epi.
    assert (E1 : nth_error fk i = None) by (apply nth_error_None; lia).
    assert (E2 : nth_error fk' i = None) by (apply nth_error_None; lia). now rewrite E1, E2.
Qed.
End PerChannel.
