(* C06/Corr.v -- comparator evaluated by vm_compute on generated case files.
   codes: 1  = observed output differs from the model on a determined observable
          21 = C06_from_sparse: a cell of the dense array is not the stored value / zero (or a crash)
          22 = C06_from_sparse_shape: shape is not (n_spikes, n_requested, trailing...)
          23 = C06_from_sparse_perm: the column of a channel depends on where / with what it was requested
          24 = C06_get_features: a cell of a stored requested spike is wrong (row order, row table,
               template column table, channel order)
          25 = C06_template_features: same for template features
          26 = C06_project: features[l][k][i] <> sum_j pcs[i][j][k] * x[l][j][k]
          27 = principal components are not (+-) the leading eigenvectors on an exactly diagonal input
          28 = features of the waveform route are not the projections onto the leading components
          29 = C06_pca_assemble: waveform-route rows not placed at the requested positions / non-stored
               spikes not zero
          30 = C06_index_of: a member of the lookup list is not replaced by its position
          31 = C06_link_waveform_route: a feature of a requested stored spike on a channel that is not stored for
               that spike is not zero
          3  = input outside the stated regime (harness bug)
   Stage 3: InHist (one model object, both stores, several calls), InBig (rule-generated large stores and
   requests, judged at probed positions through the proved closed form C06_get_dense_closed), InIndexOf,
   InPcs2/InCF2/InPca2 (two spikes, any integer waveforms, tolerance), and the number of claimed
   components min(3, k - 1) for k spikes in InPcs/InComputeFeatures/InPca.
   Stage 4: InPcaS -- the waveform route on a SPARSE waveform store (per-spike channel rows with -1 padding,
   channels missing for some spikes), judged through the linked model of LinkC03.v: the waveforms that reach
   compute_features are C03's look-up (code 1), the observed features are the linked model's with the oracle
   instantiated by the components the eigen-solver was seen to return (code 1, exact regime), unstored channels
   give zero features for every oracle (31), placement (29), and the components / features are judged (27 / 28)
   per channel for as many leading components as are determined (pca_leading_max). *)
From Coq Require Import ZArith List Bool Arith.
From PV Require Export Base.Tok Base.NpList C06.Model C06.Spec.
From PV Require Import C06.LinkC03.
Import ListNotations.
Open Scope Z_scope.

Definition cell := list tok.

(* lists given by rule: arithmetic progressions and literal pieces, concatenated *)
Inductive seg := Seg (start step count : Z) | Lit (l : list Z).
(* [a; a + b; a + 2 b; ...] (n terms), built by repeated addition (Z.of_nat on unary numerals is linear) *)
Fixpoint zprog (a b : Z) (n : nat) : list Z :=
  match n with O => [] | S k => a :: zprog (a + b) b k end.
Definition expand (r : list seg) : list Z :=
  flat_map (fun s => match s with
                     | Seg a b n => zprog a b (Z.to_nat n)
                     | Lit l => l
                     end) r.

Inductive input :=
(* from_sparse(data, cols, chans) and, on the same store, from_sparse(data, cols, chans2) *)
| InFromSparse (tshape : list Z) (data : list (list cell)) (cols : list (list Z)) (chans chans2 : list Z)
(* TemplateModel.get_features on a directory holding pc_features.npy (n_rows, n_pcs, n_loc) *)
| InFeatures (n_pcs n_loc : nat) (file : list (list (list tok))) (ind : option (list (list Z)))
             (rows : option (list Z)) (spike_templates ids chans : list Z)
(* TemplateModel.get_template_features, template_features.npy (n_rows, n_loc) *)
| InTFeatures (n_loc : nat) (file : list (list tok)) (ind : option (list (list Z)))
              (rows : option (list Z)) (spike_templates ids : list Z) (n_templates : nat)
| InProject (nsamp nc : nat) (pcs x : list (list (list Z)))
| InPcs (nsamp nc : nat) (w : list (list (list Z)))
| InComputeFeatures (nsamp nc : nat) (w : list (list (list Z)))
(* get_features without a feature file: stored waveforms (n_stored, n_samples, n_channels) of the
   spikes [stored]; request ids on channels chans *)
| InPca (nsamp : nat) (w : list (list (list Z))) (stored ids chans : list Z)
(* exactly two spikes with arbitrary integer waveforms (tolerance clauses) *)
| InPcs2 (nsamp nc : nat) (w : list (list (list Z)))
| InCF2 (nsamp nc : nat) (w : list (list (list Z)))
| InPca2 (nsamp : nat) (w : list (list (list Z))) (stored ids chans : list Z)
(* one TemplateModel object holding a pc-feature store and/or a template-feature store; the calls are made
   one after the other on that object *)
| InHist (n_pcs n_loc_f : nat) (file_f : option (list (list (list tok)))) (ind_f : option (list (list Z)))
         (rows_f : option (list Z))
         (n_loc_t : nat) (file_t : option (list (list tok))) (ind_t : option (list (list Z)))
         (rows_t : option (list Z)) (stpl : list Z) (n_templates : nat) (calls : list call)
(* large store generated by rule: rows (spike-id table) and ids as segments, stored value of
   (row r, component p, local column l) = (c1 r + c2 p + c3 l) mod M + 1, spike_templates[s] = (a s + b) mod nt;
   observed: the full shape and the rows at the probed positions of the request *)
| InBig (tf : bool) (n_pcs n_loc : nat) (n_spikes : Z) (rows : option (list seg)) (drule : list Z)
        (ind : option (list (list Z))) (n_templates : nat) (trule : list Z) (ids : list seg) (chans : list Z)
        (probes : list Z)
(* _index_of(arr, lookup) *)
| InIndexOf (lookup : list seg) (arr : list Z)
(* get_features without a feature file on a SPARSE waveform store: stored waveforms (n_stored, n_samples, ncs) on the
   per-spike channel rows chrows (n_stored, ncs; -1 = padding); exact = the effective (masked) waveforms of the
   requested stored spikes have an exactly diagonal covariance on every requested channel; judged = the number of
   (channel, component) pairs the generator expects to be determined (cross-check of the regime) *)
| InPcaS (exact : bool) (judged : nat) (nsamp : nat) (w : list (list (list Z))) (chrows : list (list Z))
         (stored ids chans : list Z).

Inductive obs1 :=
| OArr (shape : list Z) (rows : list (list cell))
| OErr (e : Z)             (* 1 NotImplementedError, 2 AssertionError, 3 IndexError *)
| ONone.                   (* the accessor returned None *)

Inductive observed :=
| ObsOne (o : obs1)
| ObsPair (o1 o2 : obs1)
| ObsZ3 (a : list (list (list tok)))
| ObsCF (pcs feat : list (list (list tok)))
| ObsMany (l : list obs1)
| ObsZs (o : option (list Z))
(* waveform route: the waveforms _compute_pcs received, the components it returned, the features *)
| ObsLink (wav pcs feat : list (list (list tok)))
| ObsCrash.

Record case := { cid : Z; cin : input; cobs : observed }.

Definition flag (code : Z) (ok : bool) : list Z := if ok then [] else [code].

Definition cell_eqb (a b : cell) : bool := tl_eqb a b.
Fixpoint list_eqb {T} (eqb : T -> T -> bool) (a b : list T) : bool :=
  match a, b with
  | [], [] => true
  | x :: a', y :: b' => eqb x y && list_eqb eqb a' b'
  | _, _ => false
  end.
Definition rows_eqb := list_eqb (list_eqb cell_eqb).
Definition zs_eqb := list_eqb Z.eqb.

Definition prodn (l : list Z) : nat := Z.to_nat (fold_right Z.mul 1 l).
Definition zcell (n : nat) : cell := repeat tzero n.
Definition ncell (n : nat) : cell := repeat TNaN n.

Definition err_code {T} (r : res T) : Z :=
  match r with Ok _ => 0 | ErrDup => 1 | ErrAssert => 2 | ErrIndex => 3 end.

(* ---- from_sparse ---- *)
Definition fs_regime (tsize : nat) (data : list (list cell)) (cols : list (list Z)) (chans : list Z) : bool :=
  forallb (fun r => forallb (fun c => (length c =? tsize)%nat) r) data &&
  forallb (fun x => 0 <=? x) chans && (length data =? length cols)%nat &&
  match data with [] => true | d :: _ => forallb (fun r => (length r =? length d)%nat) data end &&
  match cols with [] => true | c :: _ => forallb (fun r => (length r =? length c)%nat) cols end.

Definition fs_check (tshape : list Z) (data : list (list cell)) (cols : list (list Z)) (chans : list Z)
           (o : obs1) : list Z :=
  let tsize := prodn tshape in
  match from_sparse (zcell tsize) data cols chans, o with
  | Ok out, OArr shape rows =>
      flag 1 (negb (forallb (fun c => row_determined c chans) cols) || rows_eqb out rows) ++
      flag 21 (fs_spec_b (zcell tsize) cell_eqb data cols chans rows) ++
      flag 22 (zs_eqb shape (zlen data :: zlen chans :: tshape))
  | Ok _, OErr _ => [1; 21]
  | Ok _, ONone => [1; 21]
  | r, OErr e => flag 1 (err_code r =? e)
  | _, _ => [1]
  end.

Fixpoint find_pos' (l : list Z) (x : Z) : option nat :=
  match l with [] => None | y :: r => if y =? x then Some O else option_map S (find_pos' r x) end.
(* columns of the channels requested in both calls agree *)
Definition perm_ok (chans chans2 : list Z) (o1 o2 : obs1) : bool :=
  match o1, o2 with
  | OArr _ r1, OArr _ r2 =>
      (length r1 =? length r2)%nat &&
      forallb (fun p =>
        forallb (fun jc =>
          match find_pos' chans2 (snd jc) with
          | Some j2 => match nth_error (fst p) (fst jc), nth_error (snd p) j2 with
                       | Some a, Some b => cell_eqb a b
                       | _, _ => false
                       end
          | None => true
          end) (combine (seq 0 (length chans)) chans)) (combine r1 r2)
  | _, _ => true
  end.

(* ---- get_features / get_template_features ---- *)
Definition ids_in_reading (n_spikes : nat) (ids : list Z) : bool :=
  nodupb ids && forallb (fun x => (0 <=? x) && (x <? Z.of_nat n_spikes)) ids.

Definition store_regime (st : @store cell) (tsize n_loc : nat) (stpl : list Z) (n_templates : nat) : bool :=
  forallb (fun r => (length r =? n_loc)%nat && forallb (fun c => (length c =? tsize)%nat) r) (st_data st) &&
  match st_cols st with
  | Some ct => (length ct =? n_templates)%nat && forallb (fun r => (length r =? n_loc)%nat) ct
  | None => true
  end &&
  match st_rows st with
  | Some r => (length r =? length (st_data st))%nat && nodupb r &&
              forallb (fun x => (0 <=? x) && (x <? zlen stpl)) r
  | None => (length (st_data st) =? length stpl)%nat
  end &&
  forallb (fun t => (0 <=? t) && (t <? Z.of_nat n_templates)) stpl.

(* r = the model's answer to the call, o1 = the observed one *)
Definition dense_check_r (code : Z) (r : res (list (list cell))) (st : @store cell) (tsize n_loc : nat) (tshape : list Z)
           (stpl ids chans : list Z) (o1 : obs1) : list Z :=
  match r, o1 with
  | Ok out, OArr shape rows =>
      flag 1 (rows_eqb out rows && zs_eqb shape (zlen ids :: zlen chans :: tshape)) ++
      (if ids_in_reading (length stpl) ids && nodupb chans
       then flag code (dense_spec_b (zcell tsize) cell_eqb st n_loc stpl ids chans rows) else [])
  | Ok _, _ => if ids_in_reading (length stpl) ids && nodupb chans then [1; code] else [1]
  | r, OErr e => flag 1 (err_code r =? e)
  | _, _ => [1]
  end.

Definition dense_check (code : Z) (st : @store cell) (tsize n_loc : nat) (tshape : list Z)
           (stpl ids chans : list Z) (o : observed) : list Z :=
  match o with
  | ObsOne o1 =>
      dense_check_r code (get_dense (zcell tsize) (ncell tsize) st n_loc stpl ids chans) st tsize n_loc tshape
                    stpl ids chans o1
  | _ => if ids_in_reading (length stpl) ids && nodupb chans then [1; code] else [1]
  end.

(* ---- principal components ---- *)
Definition z3 (a : list (list (list tok))) : option (list (list (list Z))) := omap (omap (omap tok_Z)) a.
Definition z3_eqb := list_eqb (list_eqb zs_eqb).

(* the contraction, written with indices (declarative form of C06_project) *)
Definition proj_spec_b (nsamp nc : nat) (pcs x feat : list (list (list Z))) : bool :=
  (length feat =? length x)%nat &&
  forallb (fun lf =>
    let xl := fst lf in let fl := snd lf in
    (length fl =? nc)%nat &&
    forallb (fun kf =>
      let k := fst kf in
      (length (snd kf) =? length pcs)%nat &&
      forallb (fun pf =>
        snd pf =? zsum (map (fun j => nth k (nth j (fst pf) []) 0 * nth k (nth j xl []) 0) (seq 0 nsamp)))
        (combine pcs (snd kf))) (combine (seq 0 nc) fl)) (combine x feat).

Definition w_regime (nsamp nc : nat) (w : list (list (list Z))) : bool :=
  forallb (is_shape nsamp nc) w.

Definition gather_cols (chans : list Z) (m : list (list Z)) : option (list (list Z)) :=
  omap (fun r => py_gather r chans) m.

(* ---- helpers of the waveform-route cases ---- *)
(* waveforms of the requested stored spikes (in the order of intersect1d), restricted to the requested channels *)
Definition pca_subset (w : list (list (list Z))) (stored ids chans : list Z) : option (list (list (list Z))) :=
  omap (fun sp => match find_pos' stored sp with
                  | Some q => match nth_error w q with Some m => gather_cols chans m | None => None end
                  | None => None end) (intersect1d ids stored).
Definition exist_rows {T} (stored ids : list Z) (feat : list T) : option (list T) :=
  omap (fun sp => match find_pos' ids sp with Some p => nth_error feat p | None => None end) (intersect1d ids stored).
Definition assemble_b (nc : nat) (stored ids : list Z) (feat : list (list (list Z))) : bool :=
  (length feat =? length ids)%nat &&
  forallb (fun pf => isin stored (fst pf) || list_eqb zs_eqb (snd pf) (repeat (repeat 0 3%nat) nc)) (combine ids feat).
Definition t_shape (n m : nat) (a : list (list tok)) : bool :=
  (length a =? n)%nat && forallb (fun r => (length r =? m)%nat) a.

Definition tok_close (t : tok) (sg s B R : Z) : bool :=
  match t with
  | TNum m e => if 0 <=? e then close_b (m * 2 ^ e) 1 sg s B R else close_b m (2 ^ (- e)) sg s B R
  | _ => false
  end.
(* two spikes: feature 0 of both spikes on channel k is sg * <w_l, d> / |d| for one sign sg *)
Definition feat2_b (nsamp nc : nat) (w : list (list (list Z))) (feat : list (list (list tok))) : bool :=
  match w with
  | [w0; w1] =>
      forallb (fun k =>
        let d := dvec w0 w1 nsamp k in
        if zdot d d =? 0 then true else
        let R := norm_R d in
        existsb (fun sg =>
          forallb (fun lw =>
            let x := wvec (snd lw) nsamp k in
            tok_close (nth 0 (nth k (nth (fst lw) feat []) []) TNaN) sg (zdot x d) (zdot_abs x d) R)
            [(0%nat, w0); (1%nat, w1)]) [1; -1]) (seq 0 nc)
  | _ => false
  end.
(* two spikes: component 0 on channel k is sg * d / |d| *)
Definition pcs2_b (nsamp nc : nat) (w : list (list (list Z))) (pcs : list (list (list tok))) : bool :=
  match w with
  | [w0; w1] =>
      forallb (fun k =>
        let d := dvec w0 w1 nsamp k in
        if zdot d d =? 0 then true else
        let R := norm_R d in
        existsb (fun sg =>
          forallb (fun jd =>
            tok_close (nth k (nth (fst jd) (nth 0 pcs []) []) TNaN) sg (snd jd) (Z.abs (snd jd)) R)
            (combine (seq 0 nsamp) d)) [1; -1]) (seq 0 nc)
  | _ => false
  end.

(* ---- stage 4: the sparse waveform store, judged through the linked model ---- *)
(* features / components judged per channel on the determined leading indices lead[k] (variable length) *)
Definition pca_feat_l_b (lead : list (list nat)) (nc : nat) (w feat : list (list (list Z))) : bool :=
  (length feat =? length w)%nat &&
  forallb (fun fl => (length fl =? nc)%nat && forallb (fun cl => (length cl =? 3)%nat) fl) feat &&
  forallb (fun k =>
    forallb (fun i =>
      eq_up_to_sign (map (fun fl => nth i (nth k fl []) 0) feat)
                    (wcol w (nth i (nth k lead []) O) k)) (seq 0 (length (nth k lead [])))) (seq 0 nc).
Definition pca_pcs_l_b (lead : list (list nat)) (nsamp nc : nat) (pcs : list (list (list Z))) : bool :=
  (length pcs =? 3)%nat &&
  forallb (fun pi => (length pi =? nsamp)%nat && forallb (fun r => (length r =? nc)%nat) pi) pcs &&
  forallb (fun k =>
    forallb (fun i =>
      let v := map (fun r => nth k r 0) (nth i pcs []) in
      let e := map (fun j => if (j =? nth i (nth k lead []) O)%nat then 1 else 0) (seq 0 nsamp) in
      eq_up_to_sign v e) (seq 0 (length (nth k lead [])))) (seq 0 nc).
(* link_route_unstored_channel: requested stored spike, requested channel not in its channel row -> three zeros *)
Definition unstored_zero_b (stored : list Z) (chrows : list (list Z)) (ids chans : list Z)
           (feat : list (list (list tok))) : bool :=
  forallb (fun pf =>
    match find_pos' stored (fst pf) with
    | Some q => let row := nth q chrows [] in
                forallb (fun cf => isin row (fst cf) || list_eqb tok_eqb (snd cf) (repeat tzero 3%nat))
                        (combine chans (snd pf))
    | None => true
    end) (combine ids feat).
Definition assemble_tok_b (nc : nat) (stored ids : list Z) (feat : list (list (list tok))) : bool :=
  (length feat =? length ids)%nat &&
  forallb (fun pf => (length (snd pf) =? nc)%nat && forallb (fun c => (length c =? 3)%nat) (snd pf) &&
                     (isin stored (fst pf) || list_eqb (list_eqb tok_eqb) (snd pf) (repeat (repeat tzero 3%nat) nc)))
          (combine ids feat).

Definition check (c0 : case) : list Z :=
  match cin c0 with
  | InFromSparse tshape data cols chans chans2 =>
      if negb (fs_regime (prodn tshape) data cols chans && forallb (fun x => 0 <=? x) chans2) then [3] else
      match cobs c0 with
      | ObsPair o1 o2 =>
          fs_check tshape data cols chans o1 ++ fs_check tshape data cols chans2 o2 ++
          flag 23 (perm_ok chans chans2 o1 o2)
      | _ => [1; 21]
      end
  | InFeatures n_pcs n_loc file ind rows stpl ids chans =>
      match load_pc_features n_loc file with
      | None => [3]
      | Some data =>
          let st := mkstore data ind rows in
          let ntpl := match ind with Some ct => length ct | None => Z.to_nat (zmax1 stpl + 1) end in
          if negb (store_regime st n_pcs n_loc stpl ntpl && forallb (fun x => 0 <=? x) chans &&
                   forallb (fun m => (length m =? n_pcs)%nat) file) then [3] else
          dense_check 24 st n_pcs n_loc [Z.of_nat n_pcs] stpl ids chans (cobs c0)
      end
  | InTFeatures n_loc file ind rows stpl ids n_templates =>
      let st := mkstore (map (map (fun t => [t])) file) ind rows in
      if negb (store_regime st 1 n_loc stpl n_templates) then [3] else
      dense_check 25 st 1 n_loc [] stpl ids (arange n_templates) (cobs c0)
  | InProject nsamp nc pcs x =>
      if negb (forallb (is_shape nsamp nc) pcs && forallb (is_shape nsamp nc) x) then [3] else
      match cobs c0 with
      | ObsZ3 a => match z3 a, project Z.add Z.mul 0 nsamp nc pcs x with
                   | Some feat, Some m => flag 1 (z3_eqb m feat) ++ flag 26 (proj_spec_b nsamp nc pcs x feat)
                   | _, _ => [1; 26]
                   end
      | _ => [1; 26]
      end
  | InPcs nsamp nc w =>
      let c := claimed (length w) in
      if negb (w_regime nsamp nc w && match pca_leading_c c nsamp nc w with Some _ => true | None => false end)
      then [3] else
      match cobs c0 with
      | ObsZ3 a => match z3 a with Some pcs => flag 27 (pca_pcs_c_b c nsamp nc w pcs) | None => [27] end
      | _ => [1; 27]
      end
  | InComputeFeatures nsamp nc w =>
      let c := claimed (length w) in
      if negb (w_regime nsamp nc w && match pca_leading_c c nsamp nc w with Some _ => true | None => false end)
      then [3] else
      match cobs c0 with
      | ObsCF p f => match z3 p, z3 f with
                     | Some pcs, Some feat =>
                         flag 1 (match compute_features Z.add Z.mul 0 (fun _ => pcs) nsamp nc w with
                                 | Some m => z3_eqb m feat | None => false end) ++
                         flag 26 (proj_spec_b nsamp nc pcs w feat) ++
                         flag 27 (pca_pcs_c_b c nsamp nc w pcs) ++ flag 28 (pca_feat_c_b c nsamp nc w feat)
                     | _, _ => [1; 27; 28]
                     end
      | _ => [1; 26; 27; 28]
      end
  | InPca nsamp w stored ids chans =>
      let nc := length chans in
      match pca_subset w stored ids chans with
      | None => [3]
      | Some w' =>
          let c := claimed (length w') in
          if negb (w_regime nsamp nc w' && nodupb ids && nodupb stored && nodupb chans &&
                   match pca_leading_c c nsamp nc w' with Some _ => true | None => false end) then [3] else
          match cobs c0 with
          | ObsZ3 a =>
              match z3 a with
              | Some feat =>
                  (* rows of the stored requested spikes, in the order of exist *)
                  match exist_rows stored ids feat with
                  | Some fe => flag 28 (pca_feat_c_b c nsamp nc w' fe)
                  | None => [28]
                  end ++
                  flag 29 (assemble_b nc stored ids feat)
              | None => [1; 28]
              end
          | _ => [1; 28; 29]
          end
      end
  | InPcs2 nsamp nc w =>
      if negb (w_regime nsamp nc w && (length w =? 2)%nat) then [3] else
      match cobs c0 with
      | ObsZ3 a => flag 27 ((length a =? 3)%nat && forallb (t_shape nsamp nc) a && pcs2_b nsamp nc w a)
      | _ => [1; 27]
      end
  | InCF2 nsamp nc w =>
      if negb (w_regime nsamp nc w && (length w =? 2)%nat) then [3] else
      match cobs c0 with
      | ObsCF p f => flag 27 ((length p =? 3)%nat && forallb (t_shape nsamp nc) p && pcs2_b nsamp nc w p) ++
                     flag 28 ((length f =? 2)%nat && forallb (t_shape nc 3) f && feat2_b nsamp nc w f)
      | _ => [1; 27; 28]
      end
  | InPca2 nsamp w stored ids chans =>
      let nc := length chans in
      match pca_subset w stored ids chans with
      | None => [3]
      | Some w' =>
          if negb (w_regime nsamp nc w' && nodupb ids && nodupb stored && nodupb chans && (length w' =? 2)%nat)
          then [3] else
          match cobs c0 with
          | ObsZ3 feat =>
              match exist_rows stored ids feat with
              | Some fe => flag 28 (forallb (t_shape nc 3) fe && feat2_b nsamp nc w' fe)
              | None => [28]
              end ++
              flag 29 ((length feat =? length ids)%nat &&
                       forallb (fun pf => isin stored (fst pf) ||
                                          list_eqb (list_eqb tok_eqb) (snd pf) (repeat (repeat tzero 3%nat) nc))
                               (combine ids feat))
          | _ => [1; 28; 29]
          end
      end
  | InHist n_pcs n_loc_f file_f ind_f rows_f n_loc_t file_t ind_t rows_t stpl n_templates calls =>
      let dataf := match file_f with Some f => option_map Some (load_pc_features n_loc_f f) | None => Some None end in
      match dataf with
      | None => [3]
      | Some dataf =>
          let stf := option_map (fun d => mkstore d ind_f rows_f) dataf in
          let stt := option_map (fun f => mkstore (map (map (fun t => [t])) f) ind_t rows_t) file_t in
          let okf := match stf, file_f with
                     | Some st, Some f => store_regime st n_pcs n_loc_f stpl n_templates &&
                                          forallb (fun m => (length m =? n_pcs)%nat) f
                     | _, _ => true end in
          let okt := match stt with Some st => store_regime st 1 n_loc_t stpl n_templates | None => true end in
          let okc := forallb (fun cl => match cl with CallF _ chans => forallb (fun x => 0 <=? x) chans | CallT _ => true end) calls in
          if negb (okf && okt && okc) then [3] else
          (* the two stores have cells of different widths; the session is evaluated accessor by accessor *)
          let dsf := mkdataset (option_map (fun st => (st, n_loc_f)) stf) None stpl n_templates in
          let dst := mkdataset None (option_map (fun st => (st, n_loc_t)) stt) stpl n_templates in
          let ansf := session (zcell n_pcs) (ncell n_pcs) dsf calls in
          let anst := session (zcell 1) (ncell 1) dst calls in
          match cobs c0 with
          | ObsMany os =>
              if negb (length os =? length calls)%nat then [1; 24; 25] else
              flat_map (fun x =>
                match x with
                | (cl, (af, at_), o1) =>
                    match cl with
                    | CallF ids chans =>
                        match af, stf with
                        | Some r, Some st => dense_check_r 24 r st n_pcs n_loc_f [Z.of_nat n_pcs] stpl ids chans o1
                        | _, _ => match o1 with ONone => [] | _ => [1] end
                        end
                    | CallT ids =>
                        match at_, stt with
                        | Some r, Some st => dense_check_r 25 r st 1 n_loc_t [] stpl ids (arange n_templates) o1
                        | _, _ => match o1 with ONone => [] | _ => [1] end
                        end
                    end
                end) (combine (combine calls (combine ansf anst)) os)
          | _ => [1; 24; 25]
          end
      end
  | InBig tf n_pcs n_loc n_spikes rows drule ind n_templates trule ids chans probes =>
      let code := if tf then 25 else 24 in
      let tsize := if tf then 1%nat else n_pcs in
      let tshape := if tf then [] else [Z.of_nat n_pcs] in
      let rws := option_map expand rows in
      let idl := expand ids in
      let nsp := Z.to_nat n_spikes in
      let n_rows := match rws with Some r => length r | None => nsp end in
      match drule, trule with
      | [c1; c2; c3; M], [ta; tb] =>
          let data := map (fun r => map (fun l => map (fun p => tz ((c1 * r + c2 * p + c3 * l) mod M + 1))
                                                      (zprog 0 1 tsize)) (zprog 0 1 n_loc)) (zprog 0 1 n_rows) in
          let stpl := map (fun s => (ta * s + tb) mod Z.of_nat n_templates) (zprog 0 1 nsp) in
          let st := mkstore data ind rws in
          let chans' := if tf then arange n_templates else chans in
          let pids := omap (fun p => if p <? 0 then None else nth_error idl (Z.to_nat p)) probes in
          match pids with
          | None => [3]
          | Some pids =>
              if negb (wf_b st n_loc stpl idl && nodupb chans' && forallb (fun x => 0 <=? x) chans' &&
                       (0 <? M) && (0 <? Z.of_nat n_templates) &&
                       match ind with Some ct => (length ct =? n_templates)%nat | None => true end) then [3] else
              match cobs c0 with
              | ObsOne (OArr shape prow) =>
                  (* C06_get_dense_closed: the model's answer is map closed_row over the request *)
                  let exp := map (closed_row (zcell tsize) (ncell tsize) st n_loc stpl chans') pids in
                  flag 1 (rows_eqb exp prow && zs_eqb shape (zlen idl :: zlen chans' :: tshape)) ++
                  flag code (dense_spec_b (zcell tsize) cell_eqb st n_loc stpl pids chans' prow)
              | _ => [1; code]
              end
          end
      | _, _ => [3]
      end
  | InIndexOf lookup arr =>
      let lk := expand lookup in
      match cobs c0 with
      | ObsZs o =>
          if nodup_fast lk && forallb (fun x => 0 <=? x) lk && forallb (isin lk) arr then
            (* C06_index_of (index_of_spec): index_of arr lk = Some (map (zpos lk) arr) *)
            match o with
            | Some out =>
                flag 1 (zs_eqb out (map (fun x => match find_pos lk x with Some q => Z.of_nat q | None => 0 end) arr)) ++
                flag 30 ((length out =? length arr)%nat &&
                         forallb (fun xo => if snd xo <? 0 then false else
                                            match nth_error lk (Z.to_nat (snd xo)) with
                                            | Some y => y =? fst xo | None => false end) (combine arr out))
            | None => [1; 30]
            end
          else if (length lk <=? 64)%nat && (zmax1 lk <? 4096) then
            (* outside the premises of C06_index_of (negative entries, duplicates, values not in the
               lookup list): the table model itself *)
            match index_of arr lk, o with
            | Some m, Some out => flag 1 (zs_eqb m out)
            | None, None => []
            | _, _ => [1]
            end
          else [3]
      | _ => [1; 30]
      end
  | InPcaS exact judged nsamp w chrows stored ids chans =>
      let nc := length chans in
      let n := Z.of_nat nsamp in
      let exist := intersect1d ids stored in
      let ncs := match chrows with r :: _ => length r | [] => O end in
      if negb (nodupb ids && nodupb stored && nodupb chans && forallb (fun x => 0 <=? x) ids &&
               forallb (fun x => 0 <=? x) stored && forallb (fun x => 0 <=? x) chans &&
               (0 <? nc)%nat && (0 <? nsamp)%nat && (0 <? length exist)%nat &&
               (length w =? length stored)%nat && (length chrows =? length stored)%nat &&
               forallb (is_shape nsamp ncs) w &&
               forallb (fun r => (length r =? ncs)%nat && forallb (fun x => -1 <=? x) r) chrows) then [3] else
      (* the waveform stage of the linked model: C03's get_waveforms on the store *)
      match linked_waveforms 0 stored chrows w n exist chans with
      | None => [3]
      | Some W =>
          match cobs c0 with
          | ObsLink wav pcs feat =>
              flag 1 (match z3 wav with Some wv => z3_eqb W wv | None => false end) ++
              flag 31 (unstored_zero_b stored chrows ids chans feat) ++
              flag 29 (assemble_tok_b nc stored ids feat) ++
              (if exact then
                 match pca_leading_max (claimed (length W)) nsamp nc W with
                 | None => [3]
                 | Some lead =>
                     if negb (fold_right Nat.add O (map (@length nat) lead) =? judged)%nat then [3] else
                     match z3 pcs, z3 feat with
                     | Some pz, Some fz =>
                         (* the linked model, the oracle being the components the eigen-solver returned *)
                         flag 1 (match linked_get_features Z.add Z.mul 0 pz stored chrows w n ids chans with
                                 | Some m => z3_eqb m fz | None => false end) ++
                         flag 27 (pca_pcs_l_b lead nsamp nc pz) ++
                         match exist_rows stored ids fz with
                         | Some fe => flag 28 (pca_feat_l_b lead nc W fe)
                         | None => [28]
                         end
                     | _, _ => [1; 28]
                     end
                 end
               else if (length W =? 2)%nat then
                 match exist_rows stored ids feat with
                 | Some fe => flag 28 (forallb (t_shape nc 3) fe && feat2_b nsamp nc W fe)
                 | None => [28]
                 end
               else [])
          | _ => [1; 28; 29; 31]
          end
      end
  end.

Definition run (cases : list case) : list (Z * Z) :=
  flat_map (fun c => map (fun code => (cid c, code)) (check c)) cases.
