(* C06/Corr.v -- comparator evaluated by vm_compute on generated case files.
   codes: 1  = observed output differs from the model on a determined observable
          21 = C06_from_sparse: a cell of the dense array is not the stored value / zero (or a crash)
          22 = C06_from_sparse_shape: shape is not (n_spikes, n_requested, trailing...)
          23 = C06_from_sparse_perm: the column of a channel depends on where / with what it was requested
          24 = C06_get_features: a cell of a stored requested spike is wrong (row order, row table,
               template column table, channel order)
          25 = C06_template_features: same for template features
          26 = C06_project: features[l][k][i] <> sum_j pcs[i][j][k] * x[l][j][k]
          27 = principal components are not (+-) the leading eigenvectors on an exactly diagonal input
          28 = features of the waveform route are not the projections onto the leading components
          29 = C06_pca_assemble: waveform-route rows not placed at the requested positions / non-stored
               spikes not zero
          3  = input outside the stated regime (harness bug) *)
From Coq Require Import ZArith List Bool Arith.
From PV Require Export Base.Tok Base.NpList C06.Model C06.Spec.
Import ListNotations.
Open Scope Z_scope.

Definition cell := list tok.

Inductive input :=
(* from_sparse(data, cols, chans) and, on the same store, from_sparse(data, cols, chans2) *)
| InFromSparse (tshape : list Z) (data : list (list cell)) (cols : list (list Z)) (chans chans2 : list Z)
(* TemplateModel.get_features on a directory holding pc_features.npy (n_rows, n_pcs, n_loc) *)
| InFeatures (n_pcs n_loc : nat) (file : list (list (list tok))) (ind : option (list (list Z)))
             (rows : option (list Z)) (spike_templates ids chans : list Z)
(* TemplateModel.get_template_features, template_features.npy (n_rows, n_loc) *)
| InTFeatures (n_loc : nat) (file : list (list tok)) (ind : option (list (list Z)))
              (rows : option (list Z)) (spike_templates ids : list Z) (n_templates : nat)
| InProject (nsamp nc : nat) (pcs x : list (list (list Z)))
| InPcs (nsamp nc : nat) (w : list (list (list Z)))
| InComputeFeatures (nsamp nc : nat) (w : list (list (list Z)))
(* get_features without a feature file: stored waveforms (n_stored, n_samples, n_channels) of the
   spikes [stored]; request ids on channels chans *)
| InPca (nsamp : nat) (w : list (list (list Z))) (stored ids chans : list Z).

Inductive obs1 :=
| OArr (shape : list Z) (rows : list (list cell))
| OErr (e : Z).            (* 1 NotImplementedError, 2 AssertionError, 3 IndexError *)

Inductive observed :=
| ObsOne (o : obs1)
| ObsPair (o1 o2 : obs1)
| ObsZ3 (a : list (list (list tok)))
| ObsCF (pcs feat : list (list (list tok)))
| ObsCrash.

Record case := { cid : Z; cin : input; cobs : observed }.

Definition flag (code : Z) (ok : bool) : list Z := if ok then [] else [code].

Definition cell_eqb (a b : cell) : bool := tl_eqb a b.
Fixpoint list_eqb {T} (eqb : T -> T -> bool) (a b : list T) : bool :=
  match a, b with
  | [], [] => true
  | x :: a', y :: b' => eqb x y && list_eqb eqb a' b'
  | _, _ => false
  end.
Definition rows_eqb := list_eqb (list_eqb cell_eqb).
Definition zs_eqb := list_eqb Z.eqb.

Definition prodn (l : list Z) : nat := Z.to_nat (fold_right Z.mul 1 l).
Definition zcell (n : nat) : cell := repeat tzero n.
Definition ncell (n : nat) : cell := repeat TNaN n.

Definition err_code {T} (r : res T) : Z :=
  match r with Ok _ => 0 | ErrDup => 1 | ErrAssert => 2 | ErrIndex => 3 end.

(* ---- from_sparse ---- *)
Definition fs_regime (tsize : nat) (data : list (list cell)) (cols : list (list Z)) (chans : list Z) : bool :=
  forallb (fun r => forallb (fun c => (length c =? tsize)%nat) r) data &&
  forallb (fun x => 0 <=? x) chans && (length data =? length cols)%nat &&
  match data with [] => true | d :: _ => forallb (fun r => (length r =? length d)%nat) data end &&
  match cols with [] => true | c :: _ => forallb (fun r => (length r =? length c)%nat) cols end.

Definition fs_check (tshape : list Z) (data : list (list cell)) (cols : list (list Z)) (chans : list Z)
           (o : obs1) : list Z :=
  let tsize := prodn tshape in
  match from_sparse (zcell tsize) data cols chans, o with
  | Ok out, OArr shape rows =>
      flag 1 (negb (forallb (fun c => row_determined c chans) cols) || rows_eqb out rows) ++
      flag 21 (fs_spec_b (zcell tsize) cell_eqb data cols chans rows) ++
      flag 22 (zs_eqb shape (zlen data :: zlen chans :: tshape))
  | Ok _, OErr _ => [1; 21]
  | r, OErr e => flag 1 (err_code r =? e)
  | _, OArr _ _ => [1]
  end.

Fixpoint find_pos' (l : list Z) (x : Z) : option nat :=
  match l with [] => None | y :: r => if y =? x then Some O else option_map S (find_pos' r x) end.
(* columns of the channels requested in both calls agree *)
Definition perm_ok (chans chans2 : list Z) (o1 o2 : obs1) : bool :=
  match o1, o2 with
  | OArr _ r1, OArr _ r2 =>
      (length r1 =? length r2)%nat &&
      forallb (fun p =>
        forallb (fun jc =>
          match find_pos' chans2 (snd jc) with
          | Some j2 => match nth_error (fst p) (fst jc), nth_error (snd p) j2 with
                       | Some a, Some b => cell_eqb a b
                       | _, _ => false
                       end
          | None => true
          end) (combine (seq 0 (length chans)) chans)) (combine r1 r2)
  | _, _ => true
  end.

(* ---- get_features / get_template_features ---- *)
Definition ids_in_reading (n_spikes : nat) (ids : list Z) : bool :=
  nodupb ids && forallb (fun x => (0 <=? x) && (x <? Z.of_nat n_spikes)) ids.

Definition store_regime (st : @store cell) (tsize n_loc : nat) (stpl : list Z) (n_templates : nat) : bool :=
  forallb (fun r => (length r =? n_loc)%nat && forallb (fun c => (length c =? tsize)%nat) r) (st_data st) &&
  match st_cols st with
  | Some ct => (length ct =? n_templates)%nat && forallb (fun r => (length r =? n_loc)%nat) ct
  | None => true
  end &&
  match st_rows st with
  | Some r => (length r =? length (st_data st))%nat && nodupb r &&
              forallb (fun x => (0 <=? x) && (x <? zlen stpl)) r
  | None => (length (st_data st) =? length stpl)%nat
  end &&
  forallb (fun t => (0 <=? t) && (t <? Z.of_nat n_templates)) stpl.

Definition dense_check (code : Z) (st : @store cell) (tsize n_loc : nat) (tshape : list Z)
           (stpl ids chans : list Z) (o : observed) : list Z :=
  match o with
  | ObsOne o1 =>
      match get_dense (zcell tsize) (ncell tsize) st n_loc stpl ids chans, o1 with
      | Ok out, OArr shape rows =>
          flag 1 (rows_eqb out rows && zs_eqb shape (zlen ids :: zlen chans :: tshape)) ++
          (if ids_in_reading (length stpl) ids && nodupb chans
           then flag code (dense_spec_b (zcell tsize) cell_eqb st n_loc stpl ids chans rows) else [])
      | Ok _, OErr _ => if ids_in_reading (length stpl) ids && nodupb chans then [1; code] else [1]
      | r, OErr e => flag 1 (err_code r =? e)
      | _, OArr _ _ => [1]
      end
  | _ => if ids_in_reading (length stpl) ids && nodupb chans then [1; code] else [1]
  end.

(* ---- principal components ---- *)
Definition z3 (a : list (list (list tok))) : option (list (list (list Z))) := omap (omap (omap tok_Z)) a.
Definition z3_eqb := list_eqb (list_eqb zs_eqb).

(* the contraction, written with indices (declarative form of C06_project) *)
Definition proj_spec_b (nsamp nc : nat) (pcs x feat : list (list (list Z))) : bool :=
  (length feat =? length x)%nat &&
  forallb (fun lf =>
    let xl := fst lf in let fl := snd lf in
    (length fl =? nc)%nat &&
    forallb (fun kf =>
      let k := fst kf in
      (length (snd kf) =? length pcs)%nat &&
      forallb (fun pf =>
        snd pf =? zsum (map (fun j => nth k (nth j (fst pf) []) 0 * nth k (nth j xl []) 0) (seq 0 nsamp)))
        (combine pcs (snd kf))) (combine (seq 0 nc) fl)) (combine x feat).

Definition w_regime (nsamp nc : nat) (w : list (list (list Z))) : bool :=
  forallb (is_shape nsamp nc) w.

Definition gather_cols (chans : list Z) (m : list (list Z)) : option (list (list Z)) :=
  omap (fun r => py_gather r chans) m.

Definition check (c : case) : list Z :=
  match cin c with
  | InFromSparse tshape data cols chans chans2 =>
      if negb (fs_regime (prodn tshape) data cols chans && forallb (fun x => 0 <=? x) chans2) then [3] else
      match cobs c with
      | ObsPair o1 o2 =>
          fs_check tshape data cols chans o1 ++ fs_check tshape data cols chans2 o2 ++
          flag 23 (perm_ok chans chans2 o1 o2)
      | _ => [1; 21]
      end
  | InFeatures n_pcs n_loc file ind rows stpl ids chans =>
      match load_pc_features n_loc file with
      | None => [3]
      | Some data =>
          let st := mkstore data ind rows in
          let ntpl := match ind with Some ct => length ct | None => Z.to_nat (zmax1 stpl + 1) end in
          if negb (store_regime st n_pcs n_loc stpl ntpl && forallb (fun x => 0 <=? x) chans &&
                   forallb (fun m => (length m =? n_pcs)%nat) file) then [3] else
          dense_check 24 st n_pcs n_loc [Z.of_nat n_pcs] stpl ids chans (cobs c)
      end
  | InTFeatures n_loc file ind rows stpl ids n_templates =>
      let st := mkstore (map (map (fun t => [t])) file) ind rows in
      if negb (store_regime st 1 n_loc stpl n_templates) then [3] else
      dense_check 25 st 1 n_loc [] stpl ids (arange n_templates) (cobs c)
  | InProject nsamp nc pcs x =>
      if negb (forallb (is_shape nsamp nc) pcs && forallb (is_shape nsamp nc) x) then [3] else
      match cobs c with
      | ObsZ3 a => match z3 a, project Z.add Z.mul 0 nsamp nc pcs x with
                   | Some feat, Some m => flag 1 (z3_eqb m feat) ++ flag 26 (proj_spec_b nsamp nc pcs x feat)
                   | _, _ => [1; 26]
                   end
      | _ => [1; 26]
      end
  | InPcs nsamp nc w =>
      if negb (w_regime nsamp nc w && match pca_leading nsamp nc w with Some _ => true | None => false end)
      then [3] else
      match cobs c with
      | ObsZ3 a => match z3 a with Some pcs => flag 27 (pca_pcs_b nsamp nc w pcs) | None => [27] end
      | _ => [1; 27]
      end
  | InComputeFeatures nsamp nc w =>
      if negb (w_regime nsamp nc w && match pca_leading nsamp nc w with Some _ => true | None => false end)
      then [3] else
      match cobs c with
      | ObsCF p f => match z3 p, z3 f with
                     | Some pcs, Some feat =>
                         flag 1 (match compute_features Z.add Z.mul 0 (fun _ => pcs) nsamp nc w with
                                 | Some m => z3_eqb m feat | None => false end) ++
                         flag 26 (proj_spec_b nsamp nc pcs w feat) ++
                         flag 27 (pca_pcs_b nsamp nc w pcs) ++ flag 28 (pca_feat_b nsamp nc w feat)
                     | _, _ => [1; 27; 28]
                     end
      | _ => [1; 26; 27; 28]
      end
  | InPca nsamp w stored ids chans =>
      let exist := intersect1d ids stored in
      let nc := length chans in
      match omap (fun sp => match find_pos' stored sp with
                            | Some q => match nth_error w q with Some m => gather_cols chans m | None => None end
                            | None => None end) exist with
      | None => [3]
      | Some w' =>
          if negb (w_regime nsamp nc w' && nodupb ids && nodupb stored && nodupb chans &&
                   match pca_leading nsamp nc w' with Some _ => true | None => false end) then [3] else
          match cobs c with
          | ObsZ3 a =>
              match z3 a with
              | Some feat =>
                  (* rows of the stored requested spikes, in the order of exist *)
                  match omap (fun sp => match find_pos' ids sp with Some p => nth_error feat p | None => None end) exist with
                  | Some fe => flag 28 (pca_feat_b nsamp nc w' fe)
                  | None => [28]
                  end ++
                  flag 29 ((length feat =? length ids)%nat &&
                           forallb (fun pf => isin stored (fst pf) ||
                                              list_eqb zs_eqb (snd pf) (repeat (repeat 0 3%nat) nc))
                                   (combine ids feat))
              | None => [1; 28]
              end
          | _ => [1; 28; 29]
          end
      end
  end.

Definition run (cases : list case) : list (Z * Z) :=
  flat_map (fun c => map (fun code => (cid c, code)) (check c)) cases.
