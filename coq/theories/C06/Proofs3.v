(* C06/Proofs3.v -- the 'ijk,ljk->lki' contraction, the assembly step of the waveform route, and the
   soundness of the boolean checker of from_sparse. *)
From Coq Require Import ZArith List Lia Bool Arith ZifyBool.
From PV Require Import Base.NpList C06.Model C06.Spec C06.Proofs C06.Proofs2.
Import ListNotations.
Open Scope Z_scope.

Lemma map_as_seq {T U} (f : T -> U) l d : map f l = map (fun j => f (nth j l d)) (seq 0 (length l)).
Proof.
  induction l as [|x l IH]; cbn [map length seq]; [reflexivity|]. f_equal.
  rewrite <- seq_shift, map_map. exact IH.
Qed.

Section Project.
Context {R : Type}.
Variables (radd rmul : R -> R -> R) (rzero : R).

(* entry (j, k) of a matrix given as a list of rows *)
Definition ent (m : list (list R)) (j k : nat) : R := nth k (nth j m []) rzero.
(* sum_j a(j) * b(j) for j = 0 .. n-1, added from the right: a0*b0 + (a1*b1 + (... + 0)) *)
Definition sum_prod (n : nat) (a b : nat -> R) : R :=
  rsum radd rzero (map (fun j => rmul (a j) (b j)) (seq 0 n)).

Lemma column_spec (m : list (list R)) k a :
  column m k = Some a -> a = map (fun j => ent m j k) (seq 0 (length m)).
Proof.
  intros H. unfold ent. rewrite <- (map_as_seq (fun r => nth k r rzero) m []).
  revert a H; induction m as [|r m IH]; intros a H; unfold column in H; cbn [omap] in H.
  - now injection H as <-.
  - destruct (nth_error r k) eqn:E; [|discriminate]. fold (column m k) in H.
    destruct (column m k) eqn:E2; [|discriminate]. injection H as <-. cbn [map]. f_equal.
    + symmetry. now apply nth_error_nth.
    + now apply IH.
Qed.

Lemma column_total (m : list (list R)) nsamp nc k :
  is_shape nsamp nc m = true -> (k < nc)%nat -> exists a, column m k = Some a.
Proof.
  unfold is_shape. rewrite andb_true_iff, forallb_forall. intros [_ H] Hk.
  unfold column. induction m as [|r m IH]; [cbn; eauto|]. cbn [omap].
  assert (Hr : (length r =? nc)%nat = true) by (apply H; now left). apply Nat.eqb_eq in Hr.
  destruct (nth_error r k) eqn:E; [|apply nth_error_None in E; lia].
  destruct IH as (a & ->); [intros x Hx; apply H; now right|]. eauto.
Qed.

Lemma dot_sum n (f g : nat -> R) s :
  dot radd rmul rzero (map f (seq s n)) (map g (seq s n)) =
  rsum radd rzero (map (fun j => rmul (f j) (g j)) (seq s n)).
Proof.
  revert s; induction n as [|n IH]; intros s; cbn [seq map dot rsum fold_right]; [reflexivity|].
  f_equal. apply IH.
Qed.

Theorem project_spec nsamp nc (pcs x feat : list (list (list R))) :
  project radd rmul rzero nsamp nc pcs x = Some feat ->
  length feat = length x /\
  forall l xl, nth_error x l = Some xl ->
    exists fl, nth_error feat l = Some fl /\ length fl = nc /\
      forall k, (k < nc)%nat ->
        exists fk, nth_error fl k = Some fk /\ length fk = length pcs /\
          forall i pi, nth_error pcs i = Some pi ->
            nth_error fk i = Some (sum_prod nsamp (fun j => ent pi j k) (fun j => ent xl j k)).
Proof.
  unfold project. destruct (forallb (is_shape nsamp nc) pcs && forallb (is_shape nsamp nc) x) eqn:Esh; [|discriminate].
  cbn [negb]. apply andb_true_iff in Esh as [Hp Hx]. rewrite forallb_forall in Hp, Hx.
  intros H. split; [eapply omap_length; eauto|].
  intros l xl Hl. destruct (omap_nth _ _ _ _ _ H Hl) as (fl & Hfl & Hn). exists fl. split; [exact Hn|].
  split; [erewrite omap_length by eauto; apply seq_length|].
  intros k Hk. assert (Hsk : nth_error (seq 0 nc) k = Some k).
  { rewrite nth_error_nth' with (d := O) by now rewrite seq_length. now rewrite seq_nth. }
  destruct (omap_nth _ _ _ _ _ Hfl Hsk) as (fk & Hfk & Hnk). exists fk. split; [exact Hnk|].
  split; [eapply omap_length; eauto|].
  intros i pi Hi. destruct (omap_nth _ _ _ _ _ Hfk Hi) as (v & Hv & Hnv). rewrite Hnv. f_equal.
  destruct (column pi k) as [a|] eqn:Ea; [|discriminate]. destruct (column xl k) as [b|] eqn:Eb; [|discriminate].
  injection Hv as <-.
  assert (Hpi : is_shape nsamp nc pi = true) by (apply Hp; eapply nth_error_In; eauto).
  assert (Hxl : is_shape nsamp nc xl = true) by (apply Hx; eapply nth_error_In; eauto).
  unfold is_shape in Hpi, Hxl. apply andb_true_iff in Hpi as [Hpi _], Hxl as [Hxl _].
  apply Nat.eqb_eq in Hpi, Hxl.
  rewrite (column_spec _ _ _ Ea), (column_spec _ _ _ Eb), Hpi, Hxl. apply dot_sum.
Qed.

Theorem project_total nsamp nc (pcs x : list (list (list R))) :
  forallb (is_shape nsamp nc) pcs = true -> forallb (is_shape nsamp nc) x = true ->
  exists feat, project radd rmul rzero nsamp nc pcs x = Some feat.
Proof.
  intros Hp Hx. unfold project. rewrite Hp, Hx. cbn [andb negb]. rewrite forallb_forall in Hp, Hx.
  assert (Hall : forall xl, In xl x -> exists fl,
    omap (fun k => omap (fun pi => match column pi k, column xl k with
                                   | Some a, Some b => Some (dot radd rmul rzero a b) | _, _ => None end) pcs) (seq 0 nc) = Some fl).
  { intros xl Hxl. eexists. apply omap_map with (g := fun k =>
      map (fun pi => dot radd rmul rzero (match column pi k with Some a => a | None => [] end)
                                          (match column xl k with Some b => b | None => [] end)) pcs).
    intros k Hk. apply in_seq in Hk. apply omap_map. intros pi Hpi.
    destruct (column_total pi nsamp nc k (Hp pi Hpi)) as (a & ->); [lia|].
    destruct (column_total xl nsamp nc k (Hx xl Hxl)) as (b & ->); [lia|]. reflexivity. }
  induction x as [|xl x IH]; [cbn; eauto|]. cbn [omap].
  destruct (Hall xl (or_introl eq_refl)) as (fl & ->).
  destruct IH as (feat & ->); [intros y Hy; apply Hx; now right|intros y Hy; apply Hall; now right|]. eauto.
Qed.

(* compute_features: for whatever three components the eigen-solver returns *)
Theorem compute_features_spec pcs_of nsamp nc (w feat : list (list (list R))) :
  compute_features radd rmul rzero pcs_of nsamp nc w = Some feat ->
  length (pcs_of w) = 3%nat /\ project radd rmul rzero nsamp nc (pcs_of w) w = Some feat.
Proof.
  unfold compute_features. destruct (length (pcs_of w) =? 3)%nat eqn:E; [|discriminate]. cbn [negb].
  apply Nat.eqb_eq in E. auto.
Qed.
End Project.

(* a component that is a signed unit vector picks out one sample *)
Lemma zsum_delta n s0 j0 s (X : nat -> Z) :
  (s0 <= j0 < s0 + n)%nat ->
  rsum Z.add 0 (map (fun j => (if (j =? j0)%nat then s else 0) * X j) (seq s0 n)) = s * X j0.
Proof.
  revert s0; induction n as [|n IH]; intros s0 H; [lia|]. cbn [seq map rsum fold_right].
  fold (rsum Z.add 0 (map (fun j => (if (j =? j0)%nat then s else 0) * X j) (seq (S s0) n))).
  destruct (s0 =? j0)%nat eqn:E.
  - apply Nat.eqb_eq in E. subst.
    assert (Hz : forall m t, (j0 < t)%nat ->
      rsum Z.add 0 (map (fun j => (if (j =? j0)%nat then s else 0) * X j) (seq t m)) = 0).
    { induction m as [|m IHm]; intros t Ht; cbn [seq map rsum fold_right]; [reflexivity|].
      fold (rsum Z.add 0 (map (fun j => (if (j =? j0)%nat then s else 0) * X j) (seq (S t) m))).
      rewrite IHm by lia. replace (t =? j0)%nat with false by lia. lia. }
    rewrite Hz by lia. lia.
  - rewrite IH by lia. lia.
Qed.

Theorem project_unit nsamp nc (pcs x feat : list (list (list Z))) l xl i pi k j0 s :
  project Z.add Z.mul 0 nsamp nc pcs x = Some feat ->
  nth_error x l = Some xl -> nth_error pcs i = Some pi -> (k < nc)%nat -> (j0 < nsamp)%nat ->
  (forall j, (j < nsamp)%nat -> ent 0 pi j k = if (j =? j0)%nat then s else 0) ->
  exists fl fk, nth_error feat l = Some fl /\ nth_error fl k = Some fk /\
                nth_error fk i = Some (s * ent 0 xl j0 k).
Proof.
  intros H Hl Hi Hk Hj Hunit. destruct (project_spec _ _ _ _ _ _ _ _ H) as (_ & Hs).
  destruct (Hs l xl Hl) as (fl & Hfl & _ & Hc). destruct (Hc k Hk) as (fk & Hfk & _ & Hv).
  exists fl, fk. split; [exact Hfl|]. split; [exact Hfk|]. rewrite (Hv i pi Hi). f_equal.
  unfold sum_prod. rewrite <- (zsum_delta nsamp 0 j0 s (fun j => ent 0 xl j k)) by lia.
  f_equal. apply map_ext_in. intros j Hjn. apply in_seq in Hjn. rewrite Hunit by lia. reflexivity.
Qed.

(* ---------- waveform route: assembly ---------- *)
Section Assemble.
Context {B : Type}.
Variable zrow : B.

Theorem pca_assemble_spec ids stored (compute : list Z -> option (list B)) feats :
  NoDup ids -> (forall x, In x ids -> 0 <= x) ->
  compute (intersect1d ids stored) = Some feats -> length feats = length (intersect1d ids stored) ->
  exists out, pca_assemble zrow ids stored compute = Some out /\ length out = length ids /\
    forall p sp, nth_error ids p = Some sp ->
      (forall t, nth_error (intersect1d ids stored) t = Some sp -> nth_error out p = nth_error feats t) /\
      (~ In sp stored -> nth_error out p = Some zrow).
Proof.
  intros Hnd Hge Hc Hlen. unfold pca_assemble. set (exist := intersect1d ids stored) in *. rewrite Hc.
  assert (Hsub : forall x, In x exist -> In x ids) by (intros x Hx; apply intersect1d_In in Hx; tauto).
  rewrite (index_of_spec exist ids Hnd Hge Hsub).
  set (f := fun x => Z.to_nat (zpos ids x)). set (ns := length ids).
  rewrite (omap_map_map (norm_idx (Z.of_nat ns)) (zpos ids) f).
  2:{ intros x Hx. destruct (find_pos_some ids x (Hsub x Hx)) as (p & Hp). unfold f, zpos. rewrite Hp.
      pose proof (find_pos_lt _ _ _ Hp). unfold norm_idx. fold ns in H.
      replace ((0 <=? Z.of_nat p) && (Z.of_nat p <? Z.of_nat ns)) with true by lia. reflexivity. }
  rewrite map_length, <- Hlen, Nat.eqb_refl.
  set (init := repeat zrow ns). set (writes := combine (map f exist) feats).
  exists (scatter init writes).
  assert (Hfst : map fst writes = map f exist) by (unfold writes; apply map_fst_combine'; now rewrite map_length).
  assert (Hb : forall w, In w writes -> (fst w < length init)%nat).
  { intros w Hw. assert (In (fst w) (map fst writes)) by now apply in_map. rewrite Hfst in H.
    apply in_map_iff in H as (x & <- & Hx). unfold init. rewrite repeat_length. unfold f, zpos.
    destruct (find_pos_some ids x (Hsub x Hx)) as (p & Hp). rewrite Hp, Nat2Z.id. eapply find_pos_lt; eauto. }
  split; [reflexivity|]. split; [unfold init; now rewrite scatter_length, repeat_length|].
  intros p sp Hp.
  assert (Hplt : (p < length (scatter init writes))%nat).
  { rewrite scatter_length. unfold init. rewrite repeat_length. apply nth_error_Some. congruence. }
  assert (Hf : f sp = p) by (unfold f, zpos; rewrite (nth_find_pos ids sp p Hnd Hp); apply Nat2Z.id).
  split.
  - intros t Ht.
    destruct (nth_error feats t) as [v|] eqn:Ev.
    2:{ apply nth_error_None in Ev. assert (t < length exist)%nat by (apply nth_error_Some; congruence). lia. }
    rewrite (nth_error_nth' _ zrow Hplt). f_equal. rewrite (scatter_nth init writes p zrow Hb).
    rewrite (last_write_unique p writes t v); [reflexivity| |].
    + rewrite Hfst. apply NoDup_map_inj; [apply intersect1d_NoDup|]. intros x y Hx Hy E. unfold f in E.
      apply (zpos_inj ids); auto. unfold zpos in *. destruct (find_pos ids x), (find_pos ids y); lia.
    + rewrite <- Hf. unfold writes. apply nth_error_combine; [now rewrite nth_error_map, Ht|exact Ev].
  - intros Hns. rewrite (nth_error_nth' _ zrow Hplt). f_equal. rewrite (scatter_nth init writes p zrow Hb).
    rewrite last_write_none; [unfold init; apply nth_repeat_same|].
    rewrite Hfst, in_map_iff. intros (x & E & Hx). apply Hns.
    assert (x = sp).
    { apply (zpos_inj ids); auto; [eapply nth_error_In; eauto|]. unfold f in *. unfold zpos in *.
      rewrite <- Hf in E. destruct (find_pos_some ids x (Hsub x Hx)) as (a & Ha).
      assert (In sp ids) by (eapply nth_error_In; eauto). destruct (find_pos_some ids sp H) as (b & Hb').
      rewrite Ha, Hb' in *. lia. }
    subst. apply intersect1d_In in Hx. tauto.
Qed.
End Assemble.

(* ---------- the boolean checker of from_sparse is sound ---------- *)
Section Checker.
Context {A : Type}.
Variables (zero : A) (aeqb : A -> A -> bool).
Hypothesis aeqb_eq : forall a b, aeqb a b = true -> a = b.

Lemma occ_nil crow (drow : list A) ch : length drow = length crow -> occ crow drow ch = [] -> ~ In ch crow.
Proof.
  revert drow; induction crow as [|c cr IH]; intros [|d dr] Hl H; cbn [length] in Hl; try lia; [intros []|].
  cbn [occ] in H. destruct (c =? ch) eqn:E; [discriminate|]. apply Z.eqb_neq in E.
  intros [Hc|Hc]; [congruence|]. apply (IH dr); auto.
Qed.

Lemma occ_one crow (drow : list A) ch d k :
  length drow = length crow -> occ crow drow ch = [d] -> nth_error crow k = Some ch -> nth_error drow k = Some d.
Proof.
  revert drow k; induction crow as [|c cr IH]; intros [|d0 dr] k Hl H Hk; cbn [length] in Hl; try lia.
  - destruct k; discriminate.
  - cbn [occ] in H. destruct (c =? ch) eqn:E.
    + injection H as -> H. destruct k as [|k]; [reflexivity|]. cbn [nth_error] in Hk.
      exfalso. apply (occ_nil cr dr ch); [lia|exact H|]. eapply nth_error_In; eauto.
    + apply Z.eqb_neq in E. destruct k as [|k]; cbn [nth_error] in *; [congruence|]. apply (IH dr k); auto.
Qed.

Lemma occ_In crow (drow : list A) ch d :
  In d (occ crow drow ch) -> exists k, nth_error crow k = Some ch /\ nth_error drow k = Some d.
Proof.
  revert drow; induction crow as [|c cr IH]; intros [|d0 dr] H; cbn [occ] in H; try destruct H.
  destruct (c =? ch) eqn:E.
  - destruct H as [<-|H]; [exists O; apply Z.eqb_eq in E; subst; auto|].
    destruct (IH dr H) as (k & H1 & H2). exists (S k). auto.
  - destruct (IH dr H) as (k & H1 & H2). exists (S k). auto.
Qed.

Lemma occ_two crow (drow : list A) ch d d' r :
  occ crow drow ch = d :: d' :: r ->
  exists k1 k2, k1 <> k2 /\ nth_error crow k1 = Some ch /\ nth_error crow k2 = Some ch.
Proof.
  revert drow; induction crow as [|c cr IH]; intros [|d0 dr] H; cbn [occ] in H; try discriminate.
  destruct (c =? ch) eqn:E.
  - injection H as -> H. apply Z.eqb_eq in E. subst c.
    destruct (occ_In cr dr ch d') as (k & Hk & _); [rewrite H; now left|].
    exists O, (S k). repeat split; auto.
  - destruct (IH dr H) as (k1 & k2 & Hne & H1 & H2). exists (S k1), (S k2). repeat split; auto.
Qed.

Lemma cell_ok_sound crow (drow : list A) ch v :
  length drow = length crow -> cell_ok zero aeqb crow drow ch v = true -> Cell_Spec zero crow drow ch v.
Proof.
  intros Hl H. unfold cell_ok in H. unfold Cell_Spec. destruct (occ crow drow ch) as [|d [|d' r]] eqn:E.
  - apply aeqb_eq in H. subst. split; [reflexivity|]. intros k Hk _. exfalso.
    apply (occ_nil crow drow ch Hl E). eapply nth_error_In; eauto.
  - apply aeqb_eq in H. subst. split.
    + intros Hn. exfalso. destruct (occ_In crow drow ch d) as (k & Hk & _); [rewrite E; now left|].
      apply Hn. eapply nth_error_In; eauto.
    + intros k Hk _. eapply occ_one; eauto.
  - destruct (occ_two crow drow ch d d' r E) as (k1 & k2 & Hne & Hk1 & Hk2). split.
    + intros Hn. exfalso. apply Hn. eapply nth_error_In; eauto.
    + intros k Hk Hu. exfalso. pose proof (Hu k1 Hk1). pose proof (Hu k2 Hk2). congruence.
Qed.

Lemma row_ok_sound crow (drow : list A) chans orow :
  length drow = length crow -> row_ok zero aeqb crow drow chans orow = true ->
  length orow = length chans /\
  forall j ch, nth_error chans j = Some ch -> exists v, nth_error orow j = Some v /\ Cell_Spec zero crow drow ch v.
Proof.
  intros Hl. revert orow; induction chans as [|ch cr IH]; intros [|v vr] H; cbn [row_ok] in H; try discriminate.
  - split; [reflexivity|]. intros [|j]; discriminate.
  - apply andb_true_iff in H as [H1 H2]. destruct (IH vr H2) as (Hlen & Hcells). split; [cbn [length]; lia|].
    intros [|j] ch' Hj; cbn [nth_error] in *.
    + injection Hj as <-. exists v. split; [reflexivity|]. now apply cell_ok_sound.
    + now apply Hcells.
Qed.

Theorem fs_spec_b_sound (data : list (list A)) cols chans out :
  shape_ok data cols = true -> fs_spec_b zero aeqb data cols chans out = true -> FS_Spec zero data cols chans out.
Proof.
  revert cols out; induction data as [|d dr IH]; intros [|c cr] [|o or] Hsh H; cbn [shape_ok fs_spec_b] in *; try discriminate.
  - split; [reflexivity|]. intros [|s]; discriminate.
  - apply andb_true_iff in Hsh as [Hl Hsh]. apply Nat.eqb_eq in Hl. apply andb_true_iff in H as [H1 H2].
    destruct (IH cr or Hsh H2) as (Hlen & Hrows). split; [cbn [length]; lia|].
    intros [|s] crow drow Hc Hd; cbn [nth_error] in *.
    + injection Hc as <-. injection Hd as <-. exists o. split; [reflexivity|]. now apply row_ok_sound.
    + now apply Hrows.
Qed.
End Checker.

(* ---------- corollaries used by Props.v ---------- *)
Lemma arange_NoDup n : NoDup (arange n).
Proof.
  unfold arange. apply NoDup_map_inj; [apply seq_NoDup|]. intros x y _ _ E. lia.
Qed.
Lemma arange_nonneg n c : In c (arange n) -> 0 <= c.
Proof. unfold arange. rewrite in_map_iff. intros (x & <- & _). lia. Qed.

Lemma nth_error_ext_eq {T} (a b : list T) :
  length a = length b -> (forall p, nth_error a p = nth_error b p) -> a = b.
Proof.
  revert b; induction a as [|x a IH]; intros [|y b] Hl H; cbn [length] in Hl; try lia; [reflexivity|].
  pose proof (H O) as H0. cbn in H0. injection H0 as ->. f_equal. apply IH; [lia|]. intros p. apply (H (S p)).
Qed.

Section Subset.
Context {A : Type}.
Variables (zero nanc : A).

(* a store that lists only a subset of the spikes returns, for requests inside the subset, exactly what
   the full store returns *)
Theorem subset_store_agrees (st st' : @store A) n_loc stpl ids chans r :
  st_cols st' = st_cols st -> st_rows st = None -> st_rows st' = Some r ->
  (forall q sp, nth_error r q = Some sp -> nth_error (st_data st') q = nth_error (st_data st) (Z.to_nat sp)) ->
  Wf st n_loc stpl ids -> Wf st' n_loc stpl ids -> (forall sp, In sp ids -> In sp r) ->
  get_dense zero nanc st' n_loc stpl ids chans = get_dense zero nanc st n_loc stpl ids chans.
Proof.
  intros Hcols Hr Hr' Hdata W W' Hsub.
  destruct W as [Hd Hnd Hrange Hrows _]. destruct W' as [Hd' _ _ Hrows' _]. rewrite Hr in Hrows. rewrite Hr' in Hrows'.
  destruct Hrows' as (Hndr & Hger & Hlen).
  assert (Hge0 : forall x, In x ids -> 0 <= x) by (intros x Hx; specialize (Hrange x Hx); lia).
  assert (Hin : forall x, In x ids -> 0 <= x < zlen (st_data st)).
  { intros x Hx. specialize (Hrange x Hx). unfold zlen in *. rewrite Hrows. lia. }
  destruct (fill_rows_table nanc st' n_loc ids r Hr' Hndr Hger Hlen Hnd Hge0 Hd') as (f' & H1' & H2' & _ & H4').
  destruct (fill_rows_plain nanc st n_loc ids Hr Hin Hd) as (f & H1 & H2 & _ & H4).
  assert (f' = f).
  { apply nth_error_ext_eq; [lia|]. intros p. destruct (nth_error ids p) as [sp|] eqn:Ep.
    - assert (Hinr : In sp r) by (apply Hsub; eapply nth_error_In; eauto).
      apply In_nth_error in Hinr as (q & Hq). rewrite (H4' p sp q Ep Hq), (H4 p sp Ep). now apply Hdata.
    - apply nth_error_None in Ep. assert (nth_error f' p = None) by (apply nth_error_None; lia).
      assert (nth_error f p = None) by (apply nth_error_None; lia). congruence. }
  subst f'. unfold get_dense. rewrite H1', H1. unfold col_rows. now rewrite Hcols.
Qed.
End Subset.

(* ---------- the boolean checker of get_features / get_template_features is sound ---------- *)
Section DenseChecker.
Context {A : Type}.
Variables (zero : A) (aeqb : A -> A -> bool).
Hypothesis aeqb_eq : forall a b, aeqb a b = true -> a = b.

Lemma stored_row_f_complete (st : @store A) sp drow :
  match st_rows st with Some r => NoDup r | None => True end ->
  stored_row st sp drow -> stored_row_f st sp = Some drow.
Proof.
  unfold stored_row, stored_row_f. destruct (st_rows st) as [r|]; intros Hnd H.
  - destruct H as (q & Hq & Hd). now rewrite (nth_find_pos r sp q Hnd Hq).
  - destruct H as (H0 & Hd). replace (sp <? 0) with false by lia. exact Hd.
Qed.

Lemma col_row_f_complete (st : @store A) n_loc stpl sp crow :
  col_row st n_loc stpl sp crow -> col_row_f st n_loc stpl sp = Some crow.
Proof.
  unfold col_row, col_row_f. destruct (st_cols st) as [ct|]; intros H.
  - destruct H as (t & H0 & Ht & H1 & Hc). replace (sp <? 0) with false by lia. rewrite Ht.
    replace (t <? 0) with false by lia. exact Hc.
  - now subst.
Qed.

Theorem dense_spec_b_sound (st : @store A) n_loc stpl ids chans out :
  match st_rows st with Some r => NoDup r | None => True end ->
  rows_len n_loc (st_data st) ->
  match st_cols st with Some ct => Forall (fun r => length r = n_loc) ct | None => True end ->
  dense_spec_b zero aeqb st n_loc stpl ids chans out = true -> Dense_Spec zero st n_loc stpl ids chans out.
Proof.
  intros Hnd Hdl Hcl. revert out; induction ids as [|sp sr IH]; intros [|o or] H; cbn [dense_spec_b] in H; try discriminate.
  - split; [reflexivity|]. intros [|p]; discriminate.
  - apply andb_true_iff in H as [H H3]. apply andb_true_iff in H as [H1 H2]. apply Nat.eqb_eq in H1.
    destruct (IH or H3) as (Hlen & Hrows). split; [cbn [length]; lia|].
    intros [|p] sp' Hp; cbn [nth_error] in *; [|now apply Hrows].
    injection Hp as <-. exists o. split; [reflexivity|]. split; [exact H1|].
    intros drow crow Hst Hcr j ch Hj.
    rewrite (stored_row_f_complete st sp drow Hnd Hst), (col_row_f_complete st n_loc stpl sp crow Hcr) in H2.
    assert (Hl : length drow = length crow).
    { assert (length drow = n_loc).
      { unfold stored_row in Hst. unfold rows_len in Hdl. rewrite Forall_forall in Hdl. apply Hdl.
        destruct (st_rows st); [destruct Hst as (q & _ & Hd)|destruct Hst as (_ & Hd)]; eapply nth_error_In; eauto. }
      assert (length crow = n_loc).
      { unfold col_row in Hcr. destruct (st_cols st) as [ct|].
        - destruct Hcr as (t & _ & _ & _ & Hc). rewrite Forall_forall in Hcl. apply Hcl. eapply nth_error_In; eauto.
        - subst. apply arange_length. }
      lia. }
    destruct (row_ok_sound zero aeqb aeqb_eq crow drow chans o Hl H2) as (_ & Hcells). now apply Hcells.
Qed.
End DenseChecker.

(* ---------- channel order at the level of get_features ---------- *)
Section DensePerm.
Context {A : Type}.
Variables (zero nanc : A).

Lemma from_sparse_ok_shape (data : list (list A)) cols chans out :
  from_sparse zero data cols chans = Ok out -> shape_ok data cols = true.
Proof.
  unfold from_sparse. destruct (nodupb chans); cbn [negb]; [|discriminate].
  destruct (shape_ok data cols); cbn [negb]; [reflexivity|discriminate].
Qed.

Theorem get_dense_perm (st : @store A) n_loc stpl ids chans chans' :
  Wf st n_loc stpl ids -> NoDup chans -> (forall c, In c chans -> 0 <= c) ->
  NoDup chans' -> (forall c, In c chans' -> 0 <= c) ->
  exists out out', get_dense zero nanc st n_loc stpl ids chans = Ok out /\
                   get_dense zero nanc st n_loc stpl ids chans' = Ok out' /\ length out = length out' /\
    forall p orow orow' j j' ch, nth_error out p = Some orow -> nth_error out' p = Some orow' ->
      nth_error chans j = Some ch -> nth_error chans' j' = Some ch -> nth_error orow j = nth_error orow' j'.
Proof.
  intros W H1 H2 H1' H2'. destruct (get_dense_spec zero nanc st n_loc stpl ids chans W H1 H2) as (out & Ho & _).
  unfold get_dense in *. destruct (fill_rows nanc st n_loc ids) as [feats|]; [|discriminate].
  destruct (col_rows st n_loc stpl ids) as [cols|]; [|discriminate].
  pose proof (from_sparse_ok_shape feats cols chans out Ho) as Hsh.
  rewrite (from_sparse_closed zero feats cols chans H1 H2 Hsh), (from_sparse_closed zero feats cols chans' H1' H2' Hsh).
  exists (dense zero feats cols chans), (dense zero feats cols chans'). split; [reflexivity|]. split; [reflexivity|].
  pose proof Hsh as Hs2. apply shape_ok_spec in Hs2 as (Hlc & _). split; [now rewrite !dense_length|].
  intros p orow orow' j j' ch Hp Hp' Hj Hj'.
  assert (Hlt : (p < length feats)%nat) by (rewrite <- (dense_length zero feats cols chans Hlc); apply nth_error_Some; congruence).
  destruct (nth_error feats p) as [drow|] eqn:Ed; [|apply nth_error_None in Ed; lia].
  destruct (nth_error cols p) as [crow|] eqn:Ec; [|apply nth_error_None in Ec; lia].
  rewrite (dense_nth zero feats cols chans p drow crow Ed Ec) in Hp.
  rewrite (dense_nth zero feats cols chans' p drow crow Ed Ec) in Hp'.
  injection Hp as <-. injection Hp' as <-.
  now rewrite (dense_row_nth zero crow drow chans j ch Hj), (dense_row_nth zero crow drow chans' j' ch Hj').
Qed.
End DensePerm.
