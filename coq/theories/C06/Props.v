(* C06/Props.v -- the property theorems, and nothing else. *)
From Coq Require Import ZArith List Lia Bool Arith.
From PV Require Import Base.NpList C06.Model C06.Spec C06.Proofs.
Import ListNotations.
Open Scope Z_scope.

Theorem C06_from_sparse_dup_rejected : forall (A : Type) (zero : A) data cols chans,
  nodupb chans = false -> from_sparse zero data cols chans = ErrDup.
Proof. exact (@from_sparse_dup). Qed.
Print Assumptions C06_from_sparse_dup_rejected.
