(* C06/Props.v -- the property theorems, and nothing else.  Each is closed by [exact] of a lemma of
   Proofs*.v (or a two-line corollary) and followed by Print Assumptions.  Cells are of an arbitrary
   type A (a scalar, a vector of n_pcs values, any trailing block), so every statement holds for every
   number of trailing dimensions. *)
From Coq Require Import ZArith List Lia Bool Arith.
From PV Require Import Base.NpList C06.Model C06.Spec C06.Proofs C06.Proofs2 C06.Proofs3 C06.Proofs4.
Import ListNotations.
Open Scope Z_scope.

(* ---------- from_sparse ---------- *)

(* For every data array, every column table of the same leading shape and every list of distinct
   non-negative requested channels: the call succeeds, the result has one row per spike and one cell
   per requested channel, and cell (s, j) is data[s][k] for the unique k with cols[s][k] = chans[j],
   zero when the row does not name that channel. *)
Theorem C06_from_sparse : forall (A : Type) (zero : A) (data : list (list A)) (cols : list (list Z)) (chans : list Z),
  NoDup chans -> (forall c, In c chans -> 0 <= c) -> shape_ok data cols = true ->
  exists out, from_sparse zero data cols chans = Ok out /\ FS_Spec zero data cols chans out.
Proof.
  intros A zero data cols chans H1 H2 H3. exists (dense zero data cols chans).
  split; [now apply from_sparse_closed|now apply dense_FS_Spec].
Qed.
Print Assumptions C06_from_sparse.

Example C06_from_sparse_ex :
  from_sparse 0 [[10; 11; 12]; [20; 21; 22]] [[3; 5; 7]; [5; 1; 3]] [3; 1; 9] = Ok [[10; 0; 0]; [22; 21; 0]] /\
  NoDup [3; 1; 9] /\ shape_ok [[10; 11; 12]; [20; 21; 22]] [[3; 5; 7]; [5; 1; 3]] = true.
Proof. split; [vm_compute; reflexivity|]. split; [apply nodupb_NoDup|]; reflexivity. Qed.

(* the same in closed form, also when a row names a channel twice: the entry written last wins *)
Theorem C06_from_sparse_last_write : forall (A : Type) (zero : A) data cols chans,
  NoDup chans -> (forall c, In c chans -> 0 <= c) -> shape_ok data cols = true ->
  from_sparse zero data cols chans = Ok (dense zero data cols chans).
Proof. exact (@from_sparse_closed). Qed.
Print Assumptions C06_from_sparse_last_write.

Example C06_from_sparse_last_write_ex :
  from_sparse 0 [[10; 11; 12]] [[4; 4; 1]] [4; 1] = Ok [[11; 12]] /\ dense 0 [[10; 11; 12]] [[4; 4; 1]] [4; 1] = [[11; 12]].
Proof. split; vm_compute; reflexivity. Qed.

(* shape (n_spikes, n_requested): in particular an empty spike list gives an empty result and an
   empty request gives rows without cells *)
Theorem C06_from_sparse_shape : forall (A : Type) (zero : A) data cols chans out,
  NoDup chans -> (forall c, In c chans -> 0 <= c) -> shape_ok data cols = true ->
  from_sparse zero data cols chans = Ok out ->
  length out = length data /\ forall orow, In orow out -> length orow = length chans.
Proof.
  intros A zero data cols chans out H1 H2 H3 H. rewrite (from_sparse_closed zero data cols chans H1 H2 H3) in H.
  injection H as <-. destruct (dense_FS_Spec zero data cols chans H3) as (Hl & Hrows). split; [exact Hl|].
  intros orow Hin. apply In_nth_error in Hin as (s & Hs).
  assert (Hlt : (s < length data)%nat) by (rewrite <- Hl; apply nth_error_Some; congruence).
  apply shape_ok_spec in H3 as (Hlc & _).
  destruct (nth_error data s) as [drow|] eqn:Ed; [|apply nth_error_None in Ed; lia].
  destruct (nth_error cols s) as [crow|] eqn:Ec; [|apply nth_error_None in Ec; lia].
  destruct (Hrows s crow drow Ec Ed) as (orow' & Ho & Hlen & _). congruence.
Qed.
Print Assumptions C06_from_sparse_shape.

Theorem C06_from_sparse_empty : forall (A : Type) (zero : A) chans,
  NoDup chans -> (forall c, In c chans -> 0 <= c) -> from_sparse zero [] [] chans = Ok [].
Proof. intros A zero chans H1 H2. now rewrite from_sparse_closed. Qed.
Print Assumptions C06_from_sparse_empty.

Example C06_from_sparse_empty_ex : from_sparse 0 [] [] [4; 2] = Ok [] /\ from_sparse 0 [[5; 6]] [[1; 2]] [] = Ok [[]].
Proof. split; vm_compute; reflexivity. Qed.

(* a requested channel that no row of the column table names gives a column of zeros *)
Theorem C06_from_sparse_unknown : forall (A : Type) (zero : A) data cols chans out j ch,
  NoDup chans -> (forall c, In c chans -> 0 <= c) -> shape_ok data cols = true ->
  from_sparse zero data cols chans = Ok out -> nth_error chans j = Some ch ->
  (forall crow, In crow cols -> ~ In ch crow) ->
  forall s orow, nth_error out s = Some orow -> nth_error orow j = Some zero.
Proof.
  intros A zero data cols chans out j ch H1 H2 H3 H Hj Hun s orow Hs.
  rewrite (from_sparse_closed zero data cols chans H1 H2 H3) in H. injection H as <-.
  destruct (dense_FS_Spec zero data cols chans H3) as (Hl & Hrows).
  assert (Hlt : (s < length data)%nat) by (rewrite <- Hl; apply nth_error_Some; congruence).
  apply shape_ok_spec in H3 as (Hlc & _).
  destruct (nth_error data s) as [drow|] eqn:Ed; [|apply nth_error_None in Ed; lia].
  destruct (nth_error cols s) as [crow|] eqn:Ec; [|apply nth_error_None in Ec; lia].
  destruct (Hrows s crow drow Ec Ed) as (orow' & Ho & _ & Hcells). rewrite Hs in Ho. injection Ho as <-.
  destruct (Hcells j ch Hj) as (v & Hv & Hz & _). rewrite Hv. f_equal. apply Hz. apply Hun. eapply nth_error_In; eauto.
Qed.
Print Assumptions C06_from_sparse_unknown.

Example C06_from_sparse_unknown_ex : from_sparse 0 [[10; 11]; [20; 21]] [[3; 5]; [5; 1]] [9; 5] = Ok [[0; 11]; [0; 20]].
Proof. vm_compute; reflexivity. Qed.

(* PERMUTATION EQUIVARIANCE (in the strong form "the column of a channel depends on nothing but the
   channel"): request the same channel ch at position j of one list and at position j' of any other list
   -- a permutation, a sub-list, a super-list -- and the two columns are equal, spike by spike. *)
Theorem C06_from_sparse_perm : forall (A : Type) (zero : A) data cols chans chans',
  NoDup chans -> (forall c, In c chans -> 0 <= c) -> NoDup chans' -> (forall c, In c chans' -> 0 <= c) ->
  shape_ok data cols = true ->
  exists out out', from_sparse zero data cols chans = Ok out /\ from_sparse zero data cols chans' = Ok out' /\
    length out = length out' /\
    forall s orow orow' j j' ch, nth_error out s = Some orow -> nth_error out' s = Some orow' ->
      nth_error chans j = Some ch -> nth_error chans' j' = Some ch -> nth_error orow j = nth_error orow' j'.
Proof.
  intros A zero data cols chans chans' H1 H2 H1' H2' H3.
  exists (dense zero data cols chans), (dense zero data cols chans').
  split; [now apply from_sparse_closed|]. split; [now apply from_sparse_closed|].
  pose proof H3 as Hsh. apply shape_ok_spec in Hsh as (Hlc & _).
  split; [now rewrite !dense_length|].
  intros s orow orow' j j' ch Ho Ho' Hj Hj'.
  assert (Hlt : (s < length data)%nat) by (rewrite <- (dense_length zero data cols chans Hlc); apply nth_error_Some; congruence).
  destruct (nth_error data s) as [drow|] eqn:Ed; [|apply nth_error_None in Ed; lia].
  destruct (nth_error cols s) as [crow|] eqn:Ec; [|apply nth_error_None in Ec; lia].
  rewrite (dense_nth zero data cols chans s drow crow Ed Ec) in Ho.
  rewrite (dense_nth zero data cols chans' s drow crow Ed Ec) in Ho'.
  injection Ho as <-. injection Ho' as <-.
  now rewrite (dense_row_nth zero crow drow chans j ch Hj), (dense_row_nth zero crow drow chans' j' ch Hj').
Qed.
Print Assumptions C06_from_sparse_perm.

Example C06_from_sparse_perm_ex :
  from_sparse 0 [[10; 11; 12]; [20; 21; 22]] [[3; 5; 7]; [5; 1; 3]] [3; 1; 5] = Ok [[10; 0; 11]; [22; 21; 20]] /\
  from_sparse 0 [[10; 11; 12]; [20; 21; 22]] [[3; 5; 7]; [5; 1; 3]] [5; 3; 1] = Ok [[11; 10; 0]; [20; 22; 21]].
Proof. split; vm_compute; reflexivity. Qed.

(* the documented rejections *)
Theorem C06_from_sparse_dup_rejected : forall (A : Type) (zero : A) data cols chans,
  ~ NoDup chans -> from_sparse zero data cols chans = ErrDup.
Proof.
  intros A zero data cols chans H. apply from_sparse_dup. destruct (nodupb chans) eqn:E; [|reflexivity].
  exfalso. apply H. now apply nodupb_NoDup.
Qed.
Print Assumptions C06_from_sparse_dup_rejected.

Example C06_from_sparse_dup_ex : from_sparse 0 [[10; 11]] [[0; 1]] [1; 1] = ErrDup.
Proof. vm_compute; reflexivity. Qed.

(* the boolean checker run on the implementation's output implies the statement *)
Theorem C06_checker_sound : forall (A : Type) (zero : A) (aeqb : A -> A -> bool),
  (forall a b, aeqb a b = true -> a = b) -> forall data cols chans out,
  shape_ok data cols = true -> fs_spec_b zero aeqb data cols chans out = true -> FS_Spec zero data cols chans out.
Proof. exact (@fs_spec_b_sound). Qed.
Print Assumptions C06_checker_sound.

(* the lookup table of _index_of: members of a duplicate-free non-negative lookup list are replaced by
   their positions *)
Theorem C06_index_of : forall arr lookup,
  NoDup lookup -> (forall x, In x lookup -> 0 <= x) -> (forall x, In x arr -> In x lookup) ->
  exists out, index_of arr lookup = Some out /\ length out = length arr /\
    forall i x, nth_error arr i = Some x -> exists q, nth_error out i = Some (Z.of_nat q) /\ nth_error lookup q = Some x.
Proof.
  intros arr lookup H1 H2 H3. exists (map (zpos lookup) arr). split; [now apply index_of_spec|].
  split; [apply map_length|]. intros i x Hi. rewrite nth_error_map, Hi. cbn [option_map].
  assert (Hx : In x lookup) by (apply H3; eapply nth_error_In; eauto).
  destruct (find_pos_some lookup x Hx) as (q & Hq). exists q. unfold zpos. rewrite Hq. split; [reflexivity|].
  now apply find_pos_nth.
Qed.
Print Assumptions C06_index_of.

Example C06_index_of_ex : index_of [7; 2; 2; 5] [5; 2; 7] = Some [2; 1; 1; 0].
Proof. vm_compute; reflexivity. Qed.

(* ---------- get_features / get_template_features ---------- *)

(* For every well-formed store (with or without a spike-id row table, with or without a per-template
   column table), every list of distinct existing spike ids IN ANY ORDER and every list of distinct
   non-negative channels: the call succeeds, row p of the result belongs to the p-th requested spike,
   and for every requested spike the store holds, each cell is the stored value whose column index
   names that channel for the spike's template, else zero. *)
Theorem C06_get_features : forall (A : Type) (zero nanc : A) (st : @store A) n_loc stpl ids chans,
  Wf st n_loc stpl ids -> NoDup chans -> (forall c, In c chans -> 0 <= c) ->
  exists out, get_features zero nanc st n_loc stpl ids chans = Ok out /\
              Dense_Spec zero st n_loc stpl ids chans out.
Proof. exact (@get_dense_spec). Qed.
Print Assumptions C06_get_features.

Definition ex_store : @store Z := mkstore [[10; 11]; [20; 21]; [30; 31]] (Some [[0; 1]; [2; 3]]) (Some [4; 2; 7]).
Example C06_get_features_ex :
  Wf ex_store 2 [0; 0; 1; 1; 0; 1; 0; 1] [7; 3; 4] /\
  get_features 0 99 ex_store 2 [0; 0; 1; 1; 0; 1; 0; 1] [7; 3; 4] [0; 1; 2; 3] =
    Ok [[0; 0; 30; 31]; [0; 0; 99; 99]; [10; 11; 0; 0]].
Proof.
  split; [|vm_compute; reflexivity]. constructor; cbn [ex_store st_data st_rows st_cols].
  - repeat constructor.
  - apply nodupb_NoDup. reflexivity.
  - intros x Hx. cbn [In] in Hx. unfold zlen. cbn [length]. lia.
  - split; [apply nodupb_NoDup; reflexivity|]. split; [intros x Hx; cbn [In] in Hx; lia|reflexivity].
  - split; [intros x Hx; cbn [In] in Hx; unfold zlen; cbn [length]; lia|repeat constructor].
Qed.

(* "independently of the order of the requested channels": the column of channel ch is the same
   wherever, and with whatever other channels, ch is requested *)
Theorem C06_get_features_perm : forall (A : Type) (zero nanc : A) (st : @store A) n_loc stpl ids chans chans',
  Wf st n_loc stpl ids -> NoDup chans -> (forall c, In c chans -> 0 <= c) ->
  NoDup chans' -> (forall c, In c chans' -> 0 <= c) ->
  exists out out', get_features zero nanc st n_loc stpl ids chans = Ok out /\
                   get_features zero nanc st n_loc stpl ids chans' = Ok out' /\ length out = length out' /\
    forall p orow orow' j j' ch, nth_error out p = Some orow -> nth_error out' p = Some orow' ->
      nth_error chans j = Some ch -> nth_error chans' j' = Some ch -> nth_error orow j = nth_error orow' j'.
Proof. exact (@get_dense_perm). Qed.
Print Assumptions C06_get_features_perm.

Example C06_get_features_perm_ex :
  get_features 0 99 ex_store 2 [0; 0; 1; 1; 0; 1; 0; 1] [7; 4] [0; 1; 2; 3] = Ok [[0; 0; 30; 31]; [10; 11; 0; 0]] /\
  get_features 0 99 ex_store 2 [0; 0; 1; 1; 0; 1; 0; 1] [7; 4] [3; 0; 2] = Ok [[31; 0; 30]; [0; 10; 0]].
Proof. split; vm_compute; reflexivity. Qed.

(* template features: the requested "channels" are all templates 0 .. n_templates-1 *)
Theorem C06_template_features : forall (A : Type) (zero nanc : A) (st : @store A) n_loc stpl ids n_templates,
  Wf st n_loc stpl ids ->
  exists out, get_template_features zero nanc st n_loc stpl ids n_templates = Ok out /\
              Dense_Spec zero st n_loc stpl ids (arange n_templates) out.
Proof.
  intros A zero nanc st n_loc stpl ids nt W. unfold get_template_features.
  apply get_dense_spec; [exact W|apply arange_NoDup|apply arange_nonneg].
Qed.
Print Assumptions C06_template_features.

Example C06_template_features_ex :
  get_template_features 0 99 (mkstore [[10; 11]; [20; 21]] (Some [[0; 2]; [1; 2]; [2; 0]]) (Some [2; 1])) 2 [2; 2; 1] [1; 2] 3
  = Ok [[21; 0; 20]; [0; 10; 11]].
Proof. vm_compute; reflexivity. Qed.

(* "independently of whether the store holds all spikes or only a listed subset": a store that lists a
   subset of the spikes answers every request inside the subset exactly like the full store *)
Theorem C06_subset_store_agrees : forall (A : Type) (zero nanc : A) (st st' : @store A) n_loc stpl ids chans r,
  st_cols st' = st_cols st -> st_rows st = None -> st_rows st' = Some r ->
  (forall q sp, nth_error r q = Some sp -> nth_error (st_data st') q = nth_error (st_data st) (Z.to_nat sp)) ->
  Wf st n_loc stpl ids -> Wf st' n_loc stpl ids -> (forall sp, In sp ids -> In sp r) ->
  get_features zero nanc st' n_loc stpl ids chans = get_features zero nanc st n_loc stpl ids chans.
Proof. exact (@subset_store_agrees). Qed.
Print Assumptions C06_subset_store_agrees.

Example C06_subset_store_ex :
  get_features 0 99 (mkstore [[30; 31]; [10; 11]] (Some [[0; 1]; [2; 3]]) (Some [2; 0])) 2 [0; 1; 1] [2; 0] [3; 0; 1] =
  get_features 0 99 (mkstore [[10; 11]; [20; 21]; [30; 31]] (Some [[0; 1]; [2; 3]]) None) 2 [0; 1; 1] [2; 0] [3; 0; 1] /\
  get_features 0 99 (mkstore [[30; 31]; [10; 11]] (Some [[0; 1]; [2; 3]]) (Some [2; 0])) 2 [0; 1; 1] [2; 0] [3; 0; 1] =
  Ok [[31; 0; 0]; [0; 10; 11]].
Proof. split; vm_compute; reflexivity. Qed.

(* the boolean checker run on the output of get_features / get_template_features implies the statement *)
Theorem C06_dense_checker_sound : forall (A : Type) (zero : A) (aeqb : A -> A -> bool),
  (forall a b, aeqb a b = true -> a = b) -> forall (st : @store A) n_loc stpl ids chans out,
  match st_rows st with Some r => NoDup r | None => True end ->
  rows_len n_loc (st_data st) ->
  match st_cols st with Some ct => Forall (fun r => length r = n_loc) ct | None => True end ->
  dense_spec_b zero aeqb st n_loc stpl ids chans out = true -> Dense_Spec zero st n_loc stpl ids chans out.
Proof. exact (@dense_spec_b_sound). Qed.
Print Assumptions C06_dense_checker_sound.

(* ---------- projection onto principal components ---------- *)

(* _project_pcs is the contraction 'ijk,ljk->lki': features[l][k][i] = sum_j pcs[i][j][k] * x[l][j][k],
   in any carrier (no algebraic law is used: the sum is taken in index order) *)
Theorem C06_project : forall (R : Type) (radd rmul : R -> R -> R) (rzero : R) nsamp nc (pcs x feat : list (list (list R))),
  project radd rmul rzero nsamp nc pcs x = Some feat ->
  length feat = length x /\
  forall l xl, nth_error x l = Some xl ->
    exists fl, nth_error feat l = Some fl /\ length fl = nc /\
      forall k, (k < nc)%nat ->
        exists fk, nth_error fl k = Some fk /\ length fk = length pcs /\
          forall i pi, nth_error pcs i = Some pi ->
            nth_error fk i = Some (sum_prod radd rmul rzero nsamp (fun j => ent rzero pi j k) (fun j => ent rzero xl j k)).
Proof. exact (@project_spec). Qed.
Print Assumptions C06_project.

Theorem C06_project_total : forall (R : Type) (radd rmul : R -> R -> R) (rzero : R) nsamp nc (pcs x : list (list (list R))),
  forallb (is_shape nsamp nc) pcs = true -> forallb (is_shape nsamp nc) x = true ->
  exists feat, project radd rmul rzero nsamp nc pcs x = Some feat.
Proof. exact (@project_total). Qed.
Print Assumptions C06_project_total.

Example C06_project_ex :
  project Z.add Z.mul 0 2 2 [[[1; 0]; [0; 1]]; [[0; 1]; [1; 0]]; [[1; 1]; [1; 1]]] [[[1; 2]; [3; 4]]] = Some [[[1; 3; 4]; [4; 2; 6]]].
Proof. vm_compute; reflexivity. Qed.

(* in Z: a component that is a signed unit vector e_j0 on channel k reads out sample j0 of that channel *)
Theorem C06_project_unit : forall nsamp nc (pcs x feat : list (list (list Z))) l xl i pi k j0 s,
  project Z.add Z.mul 0 nsamp nc pcs x = Some feat ->
  nth_error x l = Some xl -> nth_error pcs i = Some pi -> (k < nc)%nat -> (j0 < nsamp)%nat ->
  (forall j, (j < nsamp)%nat -> ent 0 pi j k = if (j =? j0)%nat then s else 0) ->
  exists fl fk, nth_error feat l = Some fl /\ nth_error fl k = Some fk /\ nth_error fk i = Some (s * ent 0 xl j0 k).
Proof. exact project_unit. Qed.
Print Assumptions C06_project_unit.

(* PARTIAL.  Full statement: "the features are the projections of each waveform onto the three leading
   principal components of each channel".  Proved: compute_features is the contraction of the waveforms
   with whatever three components the eigen-solver returned (pcs_of is universally quantified).  NOT
   proved (no Gallina model of LAPACK's eigh): that those components are the three leading eigenvectors
   of the regularised per-channel covariance; validated numerically by the correspondence run on
   exactly diagonalisable inputs only (clauses 27, 28). *)
Theorem C06_compute_features_partial : forall (R : Type) (radd rmul : R -> R -> R) (rzero : R)
    (pcs_of : list (list (list R)) -> list (list (list R))) nsamp nc (w feat : list (list (list R))),
  compute_features radd rmul rzero pcs_of nsamp nc w = Some feat ->
  length (pcs_of w) = 3%nat /\ project radd rmul rzero nsamp nc (pcs_of w) w = Some feat.
Proof. exact (@compute_features_spec). Qed.
Print Assumptions C06_compute_features_partial.

(* waveform route of get_features: the computed rows land at the positions of their spikes in the
   request (any order), spikes without a stored waveform get the zero row *)
Theorem C06_pca_assemble : forall (B : Type) (zrow : B) ids stored (compute : list Z -> option (list B)) feats,
  NoDup ids -> (forall x, In x ids -> 0 <= x) ->
  compute (intersect1d ids stored) = Some feats -> length feats = length (intersect1d ids stored) ->
  exists out, pca_assemble zrow ids stored compute = Some out /\ length out = length ids /\
    forall p sp, nth_error ids p = Some sp ->
      (forall t, nth_error (intersect1d ids stored) t = Some sp -> nth_error out p = nth_error feats t) /\
      (~ In sp stored -> nth_error out p = Some zrow).
Proof. exact (@pca_assemble_spec). Qed.
Print Assumptions C06_pca_assemble.

Example C06_pca_assemble_ex :
  pca_assemble 0 [9; 2; 5; 4] [2; 4; 9; 7] (fun ex => Some (map (fun s => 100 + s) ex)) = Some [109; 102; 0; 104].
Proof. vm_compute; reflexivity. Qed.

(* ====================== stage 3 ====================== *)

(* THE CLOSED FORM of get_features / get_template_features, NaN rows included: on every well-formed store
   and request the answer is [map closed_row ids] -- row p is computed from the store, the requested
   channels and the p-th requested spike alone: its stored row (found by plain search in the spike-id
   table, no lookup table), or the NaN row when a subset store does not hold the spike, densified with the
   column row of the spike's template.  (The correspondence run judges the rule-generated large stores
   through this theorem: the lookup-table model is quadratic on Coq lists.) *)
Theorem C06_get_dense_closed : forall (A : Type) (zero nanc : A) (st : @store A) n_loc stpl ids chans,
  Wf st n_loc stpl ids -> NoDup chans -> (forall c, In c chans -> 0 <= c) ->
  get_features zero nanc st n_loc stpl ids chans = Ok (map (closed_row zero nanc st n_loc stpl chans) ids).
Proof. exact (@get_dense_closed). Qed.
Print Assumptions C06_get_dense_closed.

Example C06_get_dense_closed_ex :
  map (closed_row 0 99 ex_store 2 [0; 0; 1; 1; 0; 1; 0; 1] [0; 1; 2; 3]) [7; 3; 4] = [[0; 0; 30; 31]; [0; 0; 99; 99]; [10; 11; 0; 0]].
Proof. vm_compute; reflexivity. Qed.

(* the row returned for a spike does not depend on the rest of the request: other spikes, order, length *)
Theorem C06_row_local : forall (A : Type) (zero nanc : A) (st : @store A) n_loc stpl ids ids' chans out out' p p' sp,
  Wf st n_loc stpl ids -> Wf st n_loc stpl ids' -> NoDup chans -> (forall c, In c chans -> 0 <= c) ->
  get_features zero nanc st n_loc stpl ids chans = Ok out -> get_features zero nanc st n_loc stpl ids' chans = Ok out' ->
  nth_error ids p = Some sp -> nth_error ids' p' = Some sp ->
  nth_error out p = nth_error out' p' /\ nth_error out p = Some (closed_row zero nanc st n_loc stpl chans sp).
Proof. exact (@get_dense_row_local). Qed.
Print Assumptions C06_row_local.

Example C06_row_local_ex :
  get_features 0 99 ex_store 2 [0; 0; 1; 1; 0; 1; 0; 1] [7; 3; 4] [0; 1; 2; 3] = Ok [[0; 0; 30; 31]; [0; 0; 99; 99]; [10; 11; 0; 0]] /\
  get_features 0 99 ex_store 2 [0; 0; 1; 1; 0; 1; 0; 1] [4] [0; 1; 2; 3] = Ok [[10; 11; 0; 0]].
Proof. split; vm_compute; reflexivity. Qed.

(* the boolean well-formedness test evaluated by the correspondence run (duplicate-freeness by merge sort)
   implies the premise Wf of the theorems above *)
Theorem C06_wf_checker_sound : forall (A : Type) (st : @store A) n_loc stpl ids,
  wf_b st n_loc stpl ids = true -> Wf st n_loc stpl ids.
Proof. exact (@wf_b_sound). Qed.
Print Assumptions C06_wf_checker_sound.

Example C06_wf_checker_ex : wf_b ex_store 2 [0; 0; 1; 1; 0; 1; 0; 1] [7; 3; 4] = true /\
                            wf_b ex_store 2 [0; 0; 1; 1; 0; 1; 0; 1] [7; 3; 7] = false.
Proof. split; vm_compute; reflexivity. Qed.

(* ---------- the dtype of _index_of's lookup table ---------- *)
(* The result of _index_of does not depend on the integer type of its table as long as that type represents
   -1 and every position below len(lookup) (for a signed type of [bits] bits: len(lookup) <= 2^(bits-1)) --
   for EVERY arr and lookup, error exits included. *)
Theorem C06_index_of_dtype : forall (cast : Z -> Z) arr lookup,
  (forall v, -1 <= v < Z.max 1 (zlen lookup) -> cast v = v) ->
  index_of_dt cast arr lookup = index_of arr lookup.
Proof. exact index_of_dt_fits. Qed.
Print Assumptions C06_index_of_dtype.

Theorem C06_index_of_dtype_bits : forall bits arr lookup,
  1 <= bits -> zlen lookup <= 2 ^ (bits - 1) ->
  index_of_dt (wrap bits) arr lookup = index_of arr lookup.
Proof. exact index_of_wrap_fits. Qed.
Print Assumptions C06_index_of_dtype_bits.

Example C06_index_of_dtype_ex :
  index_of_dt (wrap 3) [7; 2; 9; -1] [5; 2; 7; 9] = Some [2; 1; 3; -1] /\ index_of [7; 2; 9; -1] [5; 2; 7; 9] = Some [2; 1; 3; -1].
Proof. split; vm_compute; reflexivity. Qed.

(* ... and the failure condition of a table that is too narrow, made explicit: the member at position q
   comes back as wrap(q); with 16 bits, position 32768 reads -32768 (a valid index from the end). *)
Theorem C06_index_of_narrow_table : forall bits lookup q x,
  1 <= bits -> NoDup lookup -> (forall y, In y lookup -> 0 <= y) -> nth_error lookup q = Some x ->
  index_of_dt (wrap bits) [x] lookup = Some [wrap bits (Z.of_nat q)] /\ index_of [x] lookup = Some [Z.of_nat q].
Proof. exact index_of_wrap_member. Qed.
Print Assumptions C06_index_of_narrow_table.

Example C06_index_of_narrow_table_ex :
  index_of_dt (wrap 3) [8] [5; 2; 7; 9; 8] = Some [-4] /\ index_of [8] [5; 2; 7; 9; 8] = Some [4] /\
  wrap 16 32768 = -32768 /\ wrap 16 32767 = 32767.
Proof. repeat split; vm_compute; reflexivity. Qed.

(* ---------- one model object, many calls ---------- *)
(* The accessors write nothing: in a session the answer to a call is the answer to that call alone,
   whatever was asked before or after (what the history cases of the correspondence run compare with). *)
Theorem C06_session_stateless : forall (A : Type) (zero nanc : A) (ds : @dataset A) pre c post,
  nth_error (session zero nanc ds (pre ++ c :: post)) (length pre) = Some (answer zero nanc ds c).
Proof. exact (@session_nth). Qed.
Print Assumptions C06_session_stateless.

Example C06_session_ex :
  session 0 99 (mkdataset (Some (ex_store, 2%nat)) (Some (mkstore [[10; 11]; [20; 21]] (Some [[0; 2]; [1; 2]; [2; 0]]) (Some [2; 1]), 2%nat))
                          [0; 0; 1; 1; 0; 1; 0; 1] 3)
          [CallF [7; 4] [0; 1; 2; 3]; CallT [2; 1]; CallF [4] [3; 0]] =
  [Some (Ok [[0; 0; 30; 31]; [10; 11; 0; 0]]); Some (Ok [[0; 10; 11]; [20; 0; 21]]); Some (Ok [[0; 10]])].
Proof. vm_compute; reflexivity. Qed.

(* ---------- which principal components are determined: exactly two spikes ---------- *)
(* With two spikes the (scaled) covariance of a channel is the outer product d d^T of the difference of the
   two waveforms: d is an eigenvector for |d|^2 and every vector orthogonal to d one for 0.  So for d <> 0
   the leading component is +- d / |d| (clauses 27/28 judge component 0 and feature 0 against it) and
   components 2 and 3 are not determined: claimed 2 = 1.  In general claimed k = min 3 (k - 1). *)
Theorem C06_two_spike_leading : forall (w0 w1 : list (list Z)) k nsamp,
  let d := fun j => nth k (nth j w1 []) 0 - nth k (nth j w0 []) 0 in
  (forall j, zsum (map (fun j' => scov [w0; w1] k j j' * d j') (seq 0 nsamp)) =
             zsum (map (fun j' => d j' * d j') (seq 0 nsamp)) * d j) /\
  (forall v : nat -> Z, zsum (map (fun j' => d j' * v j') (seq 0 nsamp)) = 0 ->
     forall j, zsum (map (fun j' => scov [w0; w1] k j j' * v j') (seq 0 nsamp)) = 0).
Proof. exact two_spike_eigen. Qed.
Print Assumptions C06_two_spike_leading.

Example C06_two_spike_ex :
  map (fun j => map (fun j' => scov [[[1]; [5]; [0]]; [[4]; [9]; [0]]] 0 j j') (seq 0 3)) (seq 0 3) = [[9; 12; 0]; [12; 16; 0]; [0; 0; 0]] /\
  claimed 1 = 0%nat /\ claimed 2 = 1%nat /\ claimed 3 = 2%nat /\ claimed 4 = 3%nat /\ claimed 9 = 3%nat.
Proof. repeat split; vm_compute; reflexivity. Qed.

(* ---------- the checkers never reject the model (completeness of the checkers relative to the model) ---------- *)
(* Together with C06_from_sparse_last_write and C06_get_dense_closed: on every input inside the reading the
   output of the model passes fs_spec_b / dense_spec_b -- also where a row names a channel twice --, so a
   clause 21 / 24 / 25 alarm can only come from an implementation output that differs from the model's. *)
Theorem C06_checker_accepts_model : forall (A : Type) (zero : A) (aeqb : A -> A -> bool),
  (forall a, aeqb a a = true) -> forall data cols chans,
  length data = length cols -> fs_spec_b zero aeqb data cols chans (dense zero data cols chans) = true.
Proof. exact (@fs_spec_b_accepts_dense). Qed.
Print Assumptions C06_checker_accepts_model.

Theorem C06_dense_checker_accepts_model : forall (A : Type) (zero nanc : A) (aeqb : A -> A -> bool),
  (forall a, aeqb a a = true) -> forall (st : @store A) n_loc stpl ids chans,
  dense_spec_b zero aeqb st n_loc stpl ids chans (map (closed_row zero nanc st n_loc stpl chans) ids) = true.
Proof. exact (@dense_spec_b_accepts_closed). Qed.
Print Assumptions C06_dense_checker_accepts_model.

Example C06_checker_accepts_ex :
  fs_spec_b 0 Z.eqb [[10; 11; 12]] [[4; 4; 1]] [4; 1] [[11; 12]] = true /\
  fs_spec_b 0 Z.eqb [[10; 11; 12]] [[4; 4; 1]] [4; 1] [[12; 11]] = false /\
  dense_spec_b 0 Z.eqb ex_store 2 [0; 0; 1; 1; 0; 1; 0; 1] [7; 3; 4] [0; 1; 2; 3] [[0; 0; 30; 31]; [0; 0; 99; 99]; [10; 11; 0; 0]] = true /\
  dense_spec_b 0 Z.eqb ex_store 2 [0; 0; 1; 1; 0; 1; 0; 1] [7; 3; 4] [0; 1; 2; 3] [[10; 11; 0; 0]; [0; 0; 99; 99]; [0; 0; 30; 31]] = false.
Proof. repeat split; vm_compute; reflexivity. Qed.

(* ====================== stage 4: the waveform route linked to C03 ====================== *)
(* C03.Model and C06.Model both define store / mkstore / intersect1d / index_of / zlen: from here on the C03 names
   are the unqualified ones and C06's are written qualified. *)
From PV Require Import Base.PySlice Base.NpSearch C16.Model C16.Spec C03.Model C03.Spec C03.Proofs2 C06.LinkC03.

(* THE LINK.  get_features without a feature file ([get_features_wf]: intersect1d with the store's ids, C03's model of
   TemplateModel.get_waveforms on those ids and the requested channels, compute_features with the eigen-solver as an
   oracle, placement through _index_of) on a store written by C03's export of the raw data: ids, per-spike channel rows
   (any width, -1 anywhere, channels missing for some spikes) and what np.load returns for the exported file.
   For every request of distinct non-negative ids in any order, stored or not, and every non-empty list of distinct
   channels: the waveforms handed to the eigen-solver and to the projection are W = for each requested stored spike,
   in increasing id order, its scaled zero-padded raw window on the requested channels, zero on the channels not stored
   for that spike ([masked_window], C03_store_masked); whenever compute_features answers on W -- whatever components
   the oracle returns -- get_features answers with one row per requested id, the row of a requested stored spike being
   its row of compute_features(W) and the row of a spike the store does not hold being zero.
   ([refers ids spikes x sp]: sp is the stored spike at the last position of x in the store's id vector, as in C03_store --
   the only position when the stored ids are distinct, which is not needed.) *)
Theorem C06_link_waveform_route : forall (R : Type) (radd rmul : R -> R -> R) (rzero : R)
    (pcs_of : list (list (list R)) -> list (list (list R))) (scale : R -> R) (c : Z) (data : list (list R))
    (traces : option (list (list R))) (samples : list Z) (n nch ncs : Z) (chunks : list iv) (spikes : list spike)
    (kf : fkind) (ids q_ids q_ch : list Z),
  rect c data -> 1 <= c -> 1 <= n -> 0 <= ncs -> spikes_ok (NpSearch.zlen data) c ncs spikes ->
  Tiles (NpSearch.zlen data) chunks ->
  Forall (fun x => 0 <= x) ids -> NpSearch.zlen ids = NpSearch.zlen spikes ->
  NoDup q_ids -> (forall x, In x q_ids -> 0 <= x) ->
  q_ch <> [] -> NoDup q_ch -> Forall (fun ch => -1 <= ch) q_ch ->
  let exist := C06.Model.intersect1d q_ids ids in
  exists f stw sps,
    export rzero scale data n chunks spikes ncs kf = Some f /\ np_load f = Some stw /\
    Forall2 (refers ids spikes) exist sps /\
    let st := C03.Model.mkstore ids (map sp_ch spikes) stw in
    let W := map (fun sp => masked_window rzero scale data n sp q_ch) sps in
    forall feats, compute_features radd rmul rzero pcs_of (Z.to_nat n) (length q_ch) W = Some feats ->
      length feats = length exist /\
      exists out, get_features_wf radd rmul rzero pcs_of traces st samples n nch q_ids q_ch = Some out /\
        length out = length q_ids /\
        forall p x, nth_error q_ids p = Some x ->
          (forall t, nth_error exist t = Some x -> nth_error out p = nth_error feats t) /\
          (~ In x ids -> nth_error out p = Some (zrow3 rzero (length q_ch))).
Proof. exact (@link_route_export). Qed.
Print Assumptions C06_link_waveform_route.

(* the same on the store in the form C03_route_model_store uses (ids, channel rows, scaled windows): no hypothesis on
   the recording, the spike samples or the chunking; and the waveform stage stated as an equation *)
Theorem C06_link_waveform_route_store : forall (R : Type) (radd rmul : R -> R -> R) (rzero : R)
    (pcs_of : list (list (list R)) -> list (list (list R))) (scale : R -> R) (c : Z) (data : list (list R))
    (traces : option (list (list R))) (samples : list Z) (n nch : Z) (spikes : list spike) (ids q_ids q_ch : list Z),
  1 <= n -> Forall (fun sp => chans_ok c (sp_ch sp)) spikes ->
  Forall (fun x => 0 <= x) ids -> NpSearch.zlen ids = NpSearch.zlen spikes ->
  NoDup q_ids -> (forall x, In x q_ids -> 0 <= x) ->
  q_ch <> [] -> NoDup q_ch -> Forall (fun ch => -1 <= ch) q_ch ->
  let st := C03.Model.mkstore ids (map sp_ch spikes) (scaled_windows rzero scale data n spikes) in
  let exist := C06.Model.intersect1d q_ids ids in
  exists sps, Forall2 (refers ids spikes) exist sps /\
    let W := map (fun sp => masked_window rzero scale data n sp q_ch) sps in
    wf_compute radd rmul rzero pcs_of traces st samples n nch q_ch exist =
      compute_features radd rmul rzero pcs_of (Z.to_nat n) (length q_ch) W /\
    forall feats, compute_features radd rmul rzero pcs_of (Z.to_nat n) (length q_ch) W = Some feats ->
      length feats = length exist /\
      exists out, get_features_wf radd rmul rzero pcs_of traces st samples n nch q_ids q_ch = Some out /\
        length out = length q_ids /\
        forall p x, nth_error q_ids p = Some x ->
          (forall t, nth_error exist t = Some x -> nth_error out p = nth_error feats t) /\
          (~ In x ids -> nth_error out p = Some (zrow3 rzero (length q_ch))).
Proof. exact (@link_route). Qed.
Print Assumptions C06_link_waveform_route_store.

(* what a computed row contains: feature i of requested channel number k (channel ch) of the stored spike sp is
   sum_j pcs[i][j][k] * x_j with x_j = factor x raw sample at s - n//2 + j on channel ch (zero outside the recording:
   C03's [cell]) when ch is stored for the spike, and x_j = 0 when it is not *)
Theorem C06_link_cells : forall (R : Type) (radd rmul : R -> R -> R) (rzero : R)
    (pcs_of : list (list (list R)) -> list (list (list R))) (scale : R -> R) (data : list (list R)) (n : Z)
    (sps : list spike) (q_ch : list Z) (feats : list (list (list R))),
  let W := map (fun sp => masked_window rzero scale data n sp q_ch) sps in
  compute_features radd rmul rzero pcs_of (Z.to_nat n) (length q_ch) W = Some feats ->
  length (pcs_of W) = 3%nat /\
  forall t sp, nth_error sps t = Some sp ->
    exists frow, nth_error feats t = Some frow /\ length frow = length q_ch /\
      forall k ch, nth_error q_ch k = Some ch ->
        exists fk, nth_error frow k = Some fk /\ length fk = 3%nat /\
          forall i pi, nth_error (pcs_of W) i = Some pi ->
            nth_error fk i =
            Some (sum_prod radd rmul rzero (Z.to_nat n) (fun j => ent rzero pi j k)
                    (fun j => if memZ ch (sp_ch sp)
                              then scale (cell rzero data (sp_s sp - n / 2 + Z.of_nat j) ch) else rzero)).
Proof. exact (@link_route_cells). Qed.
Print Assumptions C06_link_cells.

(* ... so a requested channel that is not stored for a requested stored spike has three zero features, whatever the
   eigen-solver returned (only x * 0 = 0 and 0 + 0 = 0 are used; comparator clause 31) *)
Theorem C06_link_unstored_channel : forall (R : Type) (radd rmul : R -> R -> R) (rzero : R)
    (pcs_of : list (list (list R)) -> list (list (list R))) (scale : R -> R) (data : list (list R)) (n : Z)
    (sps : list spike) (q_ch : list Z) (feats : list (list (list R))) (t : nat) (sp : spike) (k : nat) (ch : Z),
  (forall a, rmul a rzero = rzero) -> radd rzero rzero = rzero ->
  let W := map (fun sp => masked_window rzero scale data n sp q_ch) sps in
  compute_features radd rmul rzero pcs_of (Z.to_nat n) (length q_ch) W = Some feats ->
  nth_error sps t = Some sp -> nth_error q_ch k = Some ch -> ~ In ch (sp_ch sp) ->
  exists frow, nth_error feats t = Some frow /\ nth_error frow k = Some (repeat rzero 3%nat).
Proof. exact (@link_route_unstored_channel). Qed.
Print Assumptions C06_link_unstored_channel.

(* totality: on such waveforms compute_features fails only when the eigen-solver's answer is not three components of
   shape (n_samples, n_requested_channels) *)
Theorem C06_link_total : forall (R : Type) (radd rmul : R -> R -> R) (rzero : R)
    (pcs_of : list (list (list R)) -> list (list (list R))) (scale : R -> R) (data : list (list R)) (n : Z)
    (spikes : list spike) (ids exist : list Z) (sps : list spike) (q_ch : list Z),
  Forall2 (refers ids spikes) exist sps ->
  let W := map (fun sp => masked_window rzero scale data n sp q_ch) sps in
  length (pcs_of W) = 3%nat -> forallb (is_shape (Z.to_nat n) (length q_ch)) (pcs_of W) = true ->
  exists feats, compute_features radd rmul rzero pcs_of (Z.to_nat n) (length q_ch) W = Some feats.
Proof. exact (@link_route_total). Qed.
Print Assumptions C06_link_total.

(* ORDER OF THE REQUEST (any store, any oracle): intersect1d sorts, so the waveforms handed to the eigen-solver are the
   same for every ordering of the same requested ids, and the row of a spike is the same wherever it stands.  Unlike
   C06_row_local (stored features) the row DOES depend on which other stored spikes are requested. *)
Theorem C06_link_request_order : forall (R : Type) (radd rmul : R -> R -> R) (rzero : R)
    (pcs_of : list (list (list R)) -> list (list (list R))) (traces : option (list (list R)))
    (st : C03.Model.store (A := R)) (samples : list Z) (n nch : Z) (q_ids q_ids' q_ch : list Z)
    (out : list (list (list R))),
  Permutation.Permutation q_ids q_ids' -> NoDup q_ids -> (forall x, In x q_ids -> 0 <= x) ->
  get_features_wf radd rmul rzero pcs_of traces st samples n nch q_ids q_ch = Some out ->
  exists out', get_features_wf radd rmul rzero pcs_of traces st samples n nch q_ids' q_ch = Some out' /\
    length out' = length out /\
    forall p p' x, nth_error q_ids p = Some x -> nth_error q_ids' p' = Some x -> nth_error out p = nth_error out' p'.
Proof. exact (@link_route_perm). Qed.
Print Assumptions C06_link_request_order.

(* the comparator's per-channel rule (as many leading components as are determined: lead_max) is Spec.v's
   pca_leading_c wherever every channel has all its min(3, k-1) components determined *)
Theorem C06_link_leading_max : forall c nsamp nc w lead,
  pca_leading_c c nsamp nc w = Some lead -> pca_leading_max c nsamp nc w = Some lead.
Proof. exact pca_leading_c_max. Qed.
Print Assumptions C06_link_leading_max.

(* ---- stage 4: non-vacuity.  C03's example recording (3 samples x 2 channels), two spikes exported with factor 5:
   id 7 = sample 0 on the channel row [-1; 1] (channel 0 NOT stored, -1 in a non-final position), id 3 = sample 2 on
   [1; 0].  Request [3; 9; 7] (9 is not stored) on channels [0; 1]; a fixed oracle. ---- *)
Definition ex4_data : list (list Z) := [[1; 2]; [11; 12]; [21; 22]].
Definition ex4_spikes := [mkspike 0 [-1; 1]; mkspike 2 [1; 0]].
Definition ex4_chunks := [mkiv 0 2; mkiv 2 3].
Definition ex4_pcs : list (list (list Z)) := [[[1; 0]; [0; 1]]; [[0; 1]; [1; 0]]; [[1; 1]; [1; 1]]].
Definition ex4_store : option (C03.Model.store (A := Z)) :=
  match export 0 (fun v => v * 5) ex4_data 2 ex4_chunks ex4_spikes 2 PyFloat with
  | Some f => option_map (C03.Model.mkstore [7; 3] (map sp_ch ex4_spikes)) (np_load f)
  | None => None
  end.
Example C06_link_ex_premises :
  spikes_ok_b 3 2 2 ex4_spikes = true /\ tiles_b 3 ex4_chunks = true /\ C06.Model.intersect1d [3; 9; 7] [7; 3] = [3; 7].
Proof. vm_compute. repeat split; reflexivity. Qed.
Example C06_link_ex :
  (* the waveforms that reach compute_features: id 3 whole, id 7 with channel 0 masked and its first row outside the recording *)
  option_map (fun st => model_get_waveforms 0 None (Some st) [] 2 2 [3; 7] (Some [0; 1])) ex4_store =
    Some (GwOut [[[55; 60]; [105; 110]]; [[0; 0]; [0; 10]]]) /\
  map (fun sp => masked_window 0 (fun v => v * 5) ex4_data 2 sp [0; 1]) [mkspike 2 [1; 0]; mkspike 0 [-1; 1]] =
    [[[55; 60]; [105; 110]]; [[0; 0]; [0; 10]]] /\
  (* the features: row 0 = id 3, row 1 = zero (id 9 not stored), row 2 = id 7 with zeros on channel 0 *)
  option_map (fun st => get_features_wf Z.add Z.mul 0 (fun _ => ex4_pcs) None st [] 2 2 [3; 9; 7] [0; 1]) ex4_store =
    Some (Some [[[55; 105; 160]; [110; 60; 170]]; [[0; 0; 0]; [0; 0; 0]]; [[0; 0; 0]; [10; 0; 10]]]) /\
  (* another order of the request: same rows, other places *)
  option_map (fun st => get_features_wf Z.add Z.mul 0 (fun _ => ex4_pcs) None st [] 2 2 [7; 3; 9] [0; 1]) ex4_store =
    Some (Some [[[0; 0; 0]; [10; 0; 10]]; [[55; 105; 160]; [110; 60; 170]]; [[0; 0; 0]; [0; 0; 0]]]).
Proof. vm_compute. repeat split; reflexivity. Qed.
(* the per-channel rule: five spikes, channel 0 carried by two of them only (rank 1): one component determined out of
   the three claimed for five spikes; channel 1 by all five: three *)
Example C06_link_leading_ex :
  pca_leading_max 3 3 2 [[[2; 1]; [0; 1]; [0; 1]]; [[-2; -1]; [0; 1]; [0; 1]]; [[0; 0]; [0; -2]; [0; 1]]; [[0; 0]; [0; 0]; [0; -3]]; [[0; 0]; [0; 0]; [0; 0]]] =
    Some [[0%nat]; [2%nat; 1%nat; 0%nat]] /\
  pca_leading_c 3 3 2 [[[2; 1]; [0; 1]; [0; 1]]; [[-2; -1]; [0; 1]; [0; 1]]; [[0; 0]; [0; -2]; [0; 1]]; [[0; 0]; [0; 0]; [0; -3]]; [[0; 0]; [0; 0]; [0; 0]]] = None.
Proof. vm_compute. split; reflexivity. Qed.

(* "THE PRINCIPAL COMPONENTS OF EACH CHANNEL".  _compute_pcs computes the components of channel k from x[:, :, k] alone;
   with the eigen-solver as a per-channel oracle [eig] ([pcs_by_channel]: pcs[i][j][k] = eig(x[:, :, k])[i][j], nothing
   for an empty spike list) the three features of a requested channel depend on that channel's masked windows only: on the
   waveform route the column of channel ch is the same wherever, and with whatever other channels, it is requested --
   the waveform-route analogue of C06_get_features_perm. *)
Theorem C06_link_channel_local : forall (R : Type) (radd rmul : R -> R -> R) (rzero : R)
    (eig : list (list R) -> list (list R)) (scale : R -> R) (data : list (list R)) (n : Z) (sps : list spike)
    (q_ch q_ch' : list Z) (feats feats' : list (list (list R))) (k k' : nat) (ch : Z),
  let W := map (fun sp => masked_window rzero scale data n sp q_ch) sps in
  let W' := map (fun sp => masked_window rzero scale data n sp q_ch') sps in
  compute_features radd rmul rzero (pcs_by_channel rzero eig (Z.to_nat n) (length q_ch)) (Z.to_nat n) (length q_ch) W = Some feats ->
  compute_features radd rmul rzero (pcs_by_channel rzero eig (Z.to_nat n) (length q_ch')) (Z.to_nat n) (length q_ch') W' = Some feats' ->
  nth_error q_ch k = Some ch -> nth_error q_ch' k' = Some ch ->
  length feats = length feats' /\
  forall t frow frow', nth_error feats t = Some frow -> nth_error feats' t = Some frow' ->
    nth_error frow k = nth_error frow' k'.
Proof. exact (@link_channel_local). Qed.
Print Assumptions C06_link_channel_local.

(* a data-dependent per-channel oracle (first spike's samples, last spike's samples, first spike's samples + 1): the
   columns of channels 0 and 1 are the same in the requests [0; 1], [1; 0] and [1] *)
Definition ex4_eig (x : list (list Z)) : list (list Z) := [hd [] x; last x []; map (fun v => v + 1) (hd [] x)].
Example C06_link_channel_local_ex :
  option_map (fun st => get_features_wf Z.add Z.mul 0 (pcs_by_channel 0 ex4_eig 2 2) None st [] 2 2 [3; 7] [0; 1]) ex4_store =
    Some (Some [[[14050; 0; 14210]; [15700; 1100; 15870]]; [[0; 0; 0]; [1100; 100; 1110]]]) /\
  option_map (fun st => get_features_wf Z.add Z.mul 0 (pcs_by_channel 0 ex4_eig 2 2) None st [] 2 2 [7; 3] [1; 0]) ex4_store =
    Some (Some [[[1100; 100; 1110]; [0; 0; 0]]; [[15700; 1100; 15870]; [14050; 0; 14210]]]) /\
  option_map (fun st => get_features_wf Z.add Z.mul 0 (pcs_by_channel 0 ex4_eig 2 1) None st [] 2 2 [7; 3] [1]) ex4_store =
    Some (Some [[[1100; 100; 1110]]; [[15700; 1100; 15870]]]) /\
  (* no requested spike is stored: no components (the real code divides by zero), the call fails *)
  option_map (fun st => get_features_wf Z.add Z.mul 0 (pcs_by_channel 0 ex4_eig 2 2) None st [] 2 2 [9] [0; 1]) ex4_store = Some None.
Proof. vm_compute. repeat split; reflexivity. Qed.
