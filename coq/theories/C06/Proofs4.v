(* C06/Proofs4.v -- stage 3: the closed form of get_features / get_template_features (NaN rows of the
   spikes a subset store does not hold included), the boolean well-formedness checker used on large
   stores, the dtype of _index_of's lookup table, sessions on one model object, and the algebra behind
   "with two spikes the leading component is the direction of their difference". *)
From Coq Require Import ZArith List Lia Bool Arith ZifyBool Permutation Sorting.Mergesort Sorted.
From PV Require Import Base.NpList C06.Model C06.Spec C06.Proofs C06.Proofs2 C06.Proofs3.
Import ListNotations.
Open Scope Z_scope.

(* ---------- small list facts ---------- *)
Lemma map_const_repeat {T U} (c : U) (l : list T) : map (fun _ => c) l = repeat c (length l).
Proof. induction l as [|x r IH]; cbn [map repeat length]; [reflexivity|now rewrite IH]. Qed.

Lemma find_pos_none_inv l x : find_pos l x = None -> ~ In x l.
Proof. intros H Hin. destruct (find_pos_some l x Hin) as (q & Hq). congruence. Qed.

Section Closed.
Context {A : Type}.
Variables (zero nanc : A).

(* the row-table branch once more, now saying what the rows of the spikes OUTSIDE the table are *)
Lemma fill_rows_table_nan (st : @store A) n_loc ids r :
  st_rows st = Some r -> NoDup r -> (forall x, In x r -> 0 <= x) -> length (st_data st) = length r ->
  NoDup ids -> (forall x, In x ids -> 0 <= x) ->
  exists feats, fill_rows nanc st n_loc ids = Some feats /\ length feats = length ids /\
    (forall p sp q, nth_error ids p = Some sp -> nth_error r q = Some sp ->
                    nth_error feats p = nth_error (st_data st) q) /\
    (forall p sp, nth_error ids p = Some sp -> ~ In sp r -> nth_error feats p = Some (repeat nanc n_loc)).
Proof.
  intros Hr Hndr Hger Hlen Hndi Hgei. unfold fill_rows. rewrite Hr.
  set (s := intersect1d ids r). set (ns := length ids). set (data := st_data st) in *.
  assert (Hs_r : forall x, In x s -> In x r) by (intros x Hx; apply intersect1d_In in Hx; tauto).
  assert (Hs_i : forall x, In x s -> In x ids) by (intros x Hx; apply intersect1d_In in Hx; tauto).
  rewrite (index_of_spec s r Hndr Hger Hs_r), (index_of_spec s ids Hndi Hgei Hs_i).
  set (g := fun x => nth (Z.to_nat (zpos r x)) data []).
  set (f := fun x => Z.to_nat (zpos ids x)).
  assert (Hzr : forall x, In x s -> exists q, find_pos r x = Some q /\ (q < length data)%nat).
  { intros x Hx. destruct (find_pos_some r x (Hs_r x Hx)) as (q & Hq). exists q. split; [exact Hq|].
    rewrite Hlen. eapply find_pos_lt; eauto. }
  unfold py_gather at 1.
  rewrite (omap_map_map (py_get data) (zpos r) g).
  2:{ intros x Hx. destruct (Hzr x Hx) as (q & Hq & Hlt). unfold g, zpos. rewrite Hq, Nat2Z.id.
      rewrite py_get_nat by exact Hlt. now apply nth_error_nth'. }
  rewrite (omap_map_map (norm_idx (Z.of_nat ns)) (zpos ids) f).
  2:{ intros x Hx. destruct (find_pos_some ids x (Hs_i x Hx)) as (p & Hp). unfold f, zpos. rewrite Hp.
      pose proof (find_pos_lt _ _ _ Hp). unfold norm_idx. fold ns in H.
      replace ((0 <=? Z.of_nat p) && (Z.of_nat p <? Z.of_nat ns)) with true by lia. reflexivity. }
  set (init := repeat (repeat nanc n_loc) ns). set (writes := combine (map f s) (map g s)).
  exists (scatter init writes).
  assert (Hfst : map fst writes = map f s) by (unfold writes; apply map_fst_combine'; now rewrite !map_length).
  assert (Hb : forall w, In w writes -> (fst w < length init)%nat).
  { intros w Hw. assert (In (fst w) (map fst writes)) by now apply in_map. rewrite Hfst in H.
    apply in_map_iff in H as (x & <- & Hx). unfold init. rewrite repeat_length. unfold f, zpos.
    destruct (find_pos_some ids x (Hs_i x Hx)) as (p & Hp). rewrite Hp, Nat2Z.id. eapply find_pos_lt; eauto. }
  split; [reflexivity|]. split; [unfold init; now rewrite scatter_length, repeat_length|]. split.
  - intros p sp q Hp Hq.
    assert (Hin : In sp s) by (apply intersect1d_In; split; eapply nth_error_In; eauto).
    assert (Hplt : (p < length (scatter init writes))%nat).
    { rewrite scatter_length. unfold init. rewrite repeat_length. apply nth_error_Some. congruence. }
    rewrite (nth_error_nth' _ [] Hplt). rewrite (scatter_nth init writes p [] Hb).
    apply In_nth_error in Hin as (t & Ht).
    assert (Hf : f sp = p).
    { unfold f, zpos. rewrite (nth_find_pos ids sp p Hndi Hp). apply Nat2Z.id. }
    rewrite (last_write_unique p writes t (g sp)).
    + unfold g, zpos. rewrite (nth_find_pos r sp q Hndr Hq), Nat2Z.id. symmetry. apply nth_error_nth'.
      rewrite Hlen. apply nth_error_Some. congruence.
    + rewrite Hfst. apply NoDup_map_inj; [apply intersect1d_NoDup|]. intros x y Hx Hy E. unfold f in E.
      apply (zpos_inj ids); auto. unfold zpos in *.
      destruct (find_pos ids x), (find_pos ids y); lia.
    + rewrite <- Hf. unfold writes. apply nth_error_combine; now rewrite nth_error_map, Ht.
  - intros p sp Hp Hnot.
    assert (Hpn : (p < ns)%nat) by (apply nth_error_Some; congruence).
    assert (Hplt : (p < length (scatter init writes))%nat).
    { rewrite scatter_length. unfold init. now rewrite repeat_length. }
    rewrite (nth_error_nth' _ [] Hplt). rewrite (scatter_nth init writes p [] Hb).
    rewrite last_write_none.
    + f_equal. apply nth_error_nth. unfold init. now apply nth_error_repeat.
    + rewrite Hfst, in_map_iff. intros (x & E & Hx). apply Hnot.
      destruct (find_pos_some ids x (Hs_i x Hx)) as (p' & Hp').
      unfold f, zpos in E. rewrite Hp', Nat2Z.id in E. subst p'.
      apply find_pos_nth in Hp'. rewrite Hp in Hp'. injection Hp' as <-. now apply Hs_r.
Qed.

(* fill_rows in closed form: row p is the stored row of the p-th requested spike, or the NaN row *)
Lemma fill_rows_closed (st : @store A) n_loc stpl ids :
  Wf st n_loc stpl ids ->
  fill_rows nanc st n_loc ids = Some (map (filled_row nanc st n_loc) ids).
Proof.
  intros [Hdata Hnd Hrange Hrows _].
  assert (Hge0 : forall x, In x ids -> 0 <= x) by (intros x Hx; specialize (Hrange x Hx); lia).
  destruct (st_rows st) as [r|] eqn:Er.
  - destruct Hrows as (Hndr & Hger & Hlen).
    destruct (fill_rows_table_nan st n_loc ids r Er Hndr Hger Hlen Hnd Hge0) as (feats & H1 & H2 & H3 & H4).
    rewrite H1. f_equal. apply nth_error_ext_eq; [now rewrite map_length|]. intros p.
    rewrite nth_error_map. destruct (nth_error ids p) as [sp|] eqn:Ep; cbn [option_map].
    + unfold filled_row, stored_row_f. rewrite Er. destruct (find_pos r sp) as [q|] eqn:Eq.
      * pose proof (find_pos_nth _ _ _ Eq) as Hq. rewrite (H3 p sp q Ep Hq).
        assert (Hlt : (q < length (st_data st))%nat) by (rewrite Hlen; eapply find_pos_lt; eauto).
        destruct (nth_error (st_data st) q) eqn:Ed; [reflexivity|]. apply nth_error_None in Ed. lia.
      * apply (H4 p sp Ep). now apply find_pos_none_inv.
    + apply nth_error_None. apply nth_error_None in Ep. lia.
  - assert (Hin : forall x, In x ids -> 0 <= x < zlen (st_data st)).
    { intros x Hx. specialize (Hrange x Hx). unfold zlen in *. rewrite Hrows. lia. }
    destruct (fill_rows_plain nanc st n_loc ids Er Hin Hdata) as (feats & H1 & H2 & _ & H4).
    rewrite H1. f_equal. apply nth_error_ext_eq; [now rewrite map_length|]. intros p.
    rewrite nth_error_map. destruct (nth_error ids p) as [sp|] eqn:Ep; cbn [option_map].
    + rewrite (H4 p sp Ep). unfold filled_row, stored_row_f. rewrite Er.
      assert (Hx : In sp ids) by (eapply nth_error_In; eauto). specialize (Hin sp Hx).
      replace (sp <? 0) with false by lia.
      destruct (nth_error (st_data st) (Z.to_nat sp)) eqn:Ed; [reflexivity|].
      apply nth_error_None in Ed. unfold zlen in Hin. lia.
    + apply nth_error_None. apply nth_error_None in Ep. lia.
Qed.

Lemma col_rows_closed (st : @store A) n_loc stpl ids :
  Wf st n_loc stpl ids ->
  col_rows st n_loc stpl ids = Some (map (colrow_of st n_loc stpl) ids).
Proof.
  intros [_ _ Hrange _ Hcols].
  destruct (st_cols st) as [ct|] eqn:Ec.
  - destruct Hcols as (Ht & Hctl).
    destruct (col_rows_table st n_loc stpl ids ct Ec Hrange Ht Hctl) as (cols & H1 & H2 & _ & H4).
    rewrite H1. f_equal. apply nth_error_ext_eq; [now rewrite map_length|]. intros p.
    rewrite nth_error_map. destruct (nth_error ids p) as [sp|] eqn:Ep; cbn [option_map].
    + assert (Hx : In sp ids) by (eapply nth_error_In; eauto). pose proof (Hrange sp Hx) as Hsp.
      destruct (nth_error stpl (Z.to_nat sp)) as [t|] eqn:Et.
      2:{ apply nth_error_None in Et. unfold zlen in Hsp. lia. }
      rewrite (H4 p sp t Ep Et). unfold colrow_of, col_row_f. rewrite Ec.
      replace (sp <? 0) with false by lia. rewrite Et.
      assert (Htin : In t stpl) by (eapply nth_error_In; eauto). specialize (Ht t Htin).
      replace (t <? 0) with false by lia.
      destruct (nth_error ct (Z.to_nat t)) eqn:Ect; [reflexivity|]. apply nth_error_None in Ect. unfold zlen in Ht. lia.
    + apply nth_error_None. apply nth_error_None in Ep. lia.
  - unfold col_rows. rewrite Ec. f_equal.
    replace (map (colrow_of st n_loc stpl) ids) with (map (fun _ : Z => arange n_loc) ids).
    + symmetry. apply map_const_repeat.
    + apply map_ext. intros sp. unfold colrow_of, col_row_f. now rewrite Ec.
Qed.

Lemma dense_map {T} (f : T -> list A) (g : T -> list Z) (l : list T) chans :
  dense zero (map f l) (map g l) chans = map (fun x => dense_row zero (g x) (f x) chans) l.
Proof. induction l as [|x r IH]; cbn [map dense]; [reflexivity|now rewrite IH]. Qed.

Lemma filled_row_length (st : @store A) n_loc stpl ids sp :
  Wf st n_loc stpl ids -> length (filled_row nanc st n_loc sp) = n_loc.
Proof.
  intros [Hdata _ _ _ _]. unfold filled_row. destruct (stored_row_f st sp) as [d|] eqn:E; [|apply repeat_length].
  unfold rows_len in Hdata. rewrite Forall_forall in Hdata. apply Hdata.
  unfold stored_row_f in E. destruct (st_rows st) as [r|].
  - destruct (find_pos r sp); [|discriminate]. eapply nth_error_In; eauto.
  - destruct (sp <? 0); [discriminate|]. eapply nth_error_In; eauto.
Qed.

Lemma colrow_of_length (st : @store A) n_loc stpl ids sp :
  Wf st n_loc stpl ids -> In sp ids -> length (colrow_of st n_loc stpl sp) = n_loc.
Proof.
  intros [_ _ Hrange _ Hcols] Hin. unfold colrow_of, col_row_f. destruct (st_cols st) as [ct|]; [|apply arange_length].
  destruct Hcols as (Ht & Hctl). specialize (Hrange sp Hin). replace (sp <? 0) with false by lia.
  destruct (nth_error stpl (Z.to_nat sp)) as [t|] eqn:Et.
  2:{ apply nth_error_None in Et. unfold zlen in Hrange. lia. }
  assert (Htin : In t stpl) by (eapply nth_error_In; eauto). specialize (Ht t Htin).
  replace (t <? 0) with false by lia.
  destruct (nth_error ct (Z.to_nat t)) as [c|] eqn:Ect.
  - rewrite Forall_forall in Hctl. apply Hctl. eapply nth_error_In; eauto.
  - apply nth_error_None in Ect. unfold zlen in Ht. lia.
Qed.

(* THE CLOSED FORM: the answer is, row by row, a function of the store, the requested channels and
   that row's spike alone *)
Theorem get_dense_closed (st : @store A) n_loc stpl ids chans :
  Wf st n_loc stpl ids -> NoDup chans -> (forall c, In c chans -> 0 <= c) ->
  get_dense zero nanc st n_loc stpl ids chans = Ok (get_dense_closed_form zero nanc st n_loc stpl ids chans).
Proof.
  intros W Hnd Hge. unfold get_dense.
  rewrite (fill_rows_closed st n_loc stpl ids W), (col_rows_closed st n_loc stpl ids W).
  rewrite from_sparse_closed; [|exact Hnd|exact Hge|].
  - unfold get_dense_closed_form, closed_row. now rewrite dense_map.
  - apply shape_ok_spec. split; [now rewrite !map_length|].
    intros s drow crow Hd Hc. rewrite nth_error_map in Hd, Hc.
    destruct (nth_error ids s) as [sp|] eqn:Es; cbn [option_map] in *; [|discriminate].
    injection Hd as <-. injection Hc as <-.
    rewrite (filled_row_length st n_loc stpl ids sp W).
    symmetry. apply (colrow_of_length st n_loc stpl ids sp W). eapply nth_error_In; eauto.
Qed.

(* consequence: the row returned for a spike does not depend on the rest of the request (the other
   spikes, their order, their number) *)
Corollary get_dense_row_local (st : @store A) n_loc stpl ids ids' chans out out' p p' sp :
  Wf st n_loc stpl ids -> Wf st n_loc stpl ids' -> NoDup chans -> (forall c, In c chans -> 0 <= c) ->
  get_dense zero nanc st n_loc stpl ids chans = Ok out -> get_dense zero nanc st n_loc stpl ids' chans = Ok out' ->
  nth_error ids p = Some sp -> nth_error ids' p' = Some sp ->
  nth_error out p = nth_error out' p' /\ nth_error out p = Some (closed_row zero nanc st n_loc stpl chans sp).
Proof.
  intros W W' Hnd Hge H H' Hp Hp'.
  rewrite (get_dense_closed st n_loc stpl ids chans W Hnd Hge) in H.
  rewrite (get_dense_closed st n_loc stpl ids' chans W' Hnd Hge) in H'.
  injection H as <-. injection H' as <-. unfold get_dense_closed_form.
  now rewrite !nth_error_map, Hp, Hp'.
Qed.
End Closed.

(* ---------- the boolean well-formedness checker ---------- *)
Lemma sinc_b_sorted l : sinc_b l = true -> ssorted l.
Proof.
  induction l as [|x r IH]; [intros; exact I|]. destruct r as [|y r'].
  - intros _. split; [intros y []|exact I].
  - cbn [sinc_b]. rewrite andb_true_iff. intros [Hxy Hr]. specialize (IH Hr). split; [|exact IH].
    intros z [<-|Hz]; [lia|]. destruct IH as [Hy _]. specialize (Hy z Hz). lia.
Qed.

Lemma nodup_fast_sound l : nodup_fast l = true -> NoDup l.
Proof.
  unfold nodup_fast. intros H. apply sinc_b_sorted in H. apply ssorted_NoDup in H.
  eapply Permutation_NoDup; [|exact H]. apply Permutation_sym. apply ZSort.Permuted_sort.
Qed.

Lemma wf_b_sound {A} (st : @store A) n_loc stpl ids : wf_b st n_loc stpl ids = true -> Wf st n_loc stpl ids.
Proof.
  unfold wf_b. cbv zeta. rewrite !andb_true_iff. intros ((((H1 & H2) & H3) & H4) & H5). constructor.
  - unfold rows_len. apply Forall_forall. intros row Hrow. rewrite forallb_forall in H1.
    specialize (H1 row Hrow). now apply Nat.eqb_eq.
  - now apply nodup_fast_sound.
  - intros x Hx. rewrite forallb_forall in H3. specialize (H3 x Hx). lia.
  - destruct (st_rows st) as [r|].
    + rewrite !andb_true_iff in H4. destruct H4 as ((Ha & Hb) & Hc). split; [now apply nodup_fast_sound|]. split.
      * intros x Hx. rewrite forallb_forall in Hb. specialize (Hb x Hx). lia.
      * now apply Nat.eqb_eq.
    + now apply Nat.eqb_eq.
  - destruct (st_cols st) as [ct|]; [|exact I]. rewrite andb_true_iff in H5. destruct H5 as (Ha & Hb). split.
    + intros t Ht. rewrite forallb_forall in Ha. specialize (Ha t Ht). lia.
    + apply Forall_forall. intros r Hr. rewrite forallb_forall in Hb. specialize (Hb r Hr). now apply Nat.eqb_eq.
Qed.

(* ---------- dtype of the lookup table of _index_of ---------- *)
Lemma upd_map {T U} (f : T -> U) l i v : map f (upd l i v) = upd (map f l) i (f v).
Proof. revert i; induction l as [|x r IH]; intros [|k]; cbn [upd map]; try reflexivity. now rewrite IH. Qed.

Lemma scatter_map {T U} (f : T -> U) init (writes : list (nat * T)) :
  map f (scatter init writes) = scatter (map f init) (map (fun w => (fst w, f (snd w))) writes).
Proof.
  unfold scatter. revert init; induction writes as [|w r IH]; intros init; cbn [fold_left map]; [reflexivity|].
  rewrite IH. cbn [fst snd]. now rewrite upd_map.
Qed.

Lemma combine_map_r {T U V} (f : U -> V) (a : list T) (b : list U) :
  combine a (map f b) = map (fun w => (fst w, f (snd w))) (combine a b).
Proof. revert b; induction a as [|x a IH]; intros [|y b]; cbn [combine map]; try reflexivity. now rewrite IH. Qed.

Lemma map_repeat {T U} (f : T -> U) x n : map f (repeat x n) = repeat (f x) n.
Proof. induction n as [|n IH]; cbn [repeat map]; [reflexivity|now rewrite IH]. Qed.

Lemma omap_map_comm {T U V} (f : T -> option U) (g : T -> option V) (h : U -> V) l :
  (forall x, g x = option_map h (f x)) -> omap g l = option_map (map h) (omap f l).
Proof.
  intros H. induction l as [|x r IH]; [reflexivity|]. cbn [omap]. rewrite H, IH.
  destruct (f x); cbn [option_map]; [|reflexivity]. destruct (omap f r); reflexivity.
Qed.

Lemma py_get_map {T U} (f : T -> U) (l : list T) i : py_get (map f l) i = option_map f (py_get l i).
Proof.
  unfold py_get, zlen. rewrite map_length. destruct (norm_idx _ i); [|reflexivity]. apply nth_error_map.
Qed.

(* a table whose items are cast on assignment is the cast of the table (the zeros of np.zeros included) *)
Theorem index_of_dt_map (cast : Z -> Z) arr lookup :
  cast 0 = 0 -> index_of_dt cast arr lookup = option_map (map cast) (index_of arr lookup).
Proof.
  intros H0. unfold index_of_dt, index_of, index_table_dt, index_table.
  set (len := zmax1 lookup + 1 + 1). destruct (len <? 0); [reflexivity|].
  destruct (norm_idx len (-1)) as [p|]; [|reflexivity].
  destruct (omap (norm_idx len) lookup) as [ps|]; [|reflexivity].
  rewrite combine_map_r.
  replace (upd (repeat 0 (Z.to_nat len)) p (cast (-1))) with (map cast (upd (repeat 0 (Z.to_nat len)) p (-1))).
  2:{ rewrite upd_map, map_repeat, H0. reflexivity. }
  rewrite <- (scatter_map cast). unfold py_gather.
  apply omap_map_comm. intros x. apply py_get_map.
Qed.

(* every item of the table is -1, 0 or a position in the lookup list *)
Lemma index_table_range lookup tmp :
  index_table lookup = Some tmp -> Forall (fun v => -1 <= v < Z.max 1 (zlen lookup)) tmp.
Proof.
  unfold index_table. set (len := zmax1 lookup + 1 + 1). destruct (len <? 0); [discriminate|].
  destruct (norm_idx len (-1)) as [p|]; [|discriminate].
  destruct (omap (norm_idx len) lookup) as [ps|]; [|discriminate]. intros H; injection H as <-.
  apply scatter_Forall.
  - apply upd_Forall; [|lia]. apply Forall_forall. intros v Hv. apply repeat_spec in Hv. lia.
  - intros w Hw. destruct w as [a b]. apply in_combine_r in Hw. cbn [snd]. unfold arange in Hw.
    apply in_map_iff in Hw as (q & <- & Hq). apply in_seq in Hq. unfold zlen. lia.
Qed.

Lemma omap_In {T U} (f : T -> option U) l r y : omap f l = Some r -> In y r -> exists x, In x l /\ f x = Some y.
Proof.
  revert r; induction l as [|a l IH]; intros r H Hy; cbn [omap] in H.
  - injection H as <-. destruct Hy.
  - destruct (f a) as [b|] eqn:Ea; [|discriminate]. destruct (omap f l) as [t|]; [|discriminate].
    injection H as <-. destruct Hy as [<-|Hy].
    + exists a. split; [now left|exact Ea].
    + destruct (IH t eq_refl Hy) as (x & Hx & Ex). exists x. split; [now right|exact Ex].
Qed.

(* DTYPE INDEPENDENCE: whenever the cast is the identity on -1 .. max(1, len(lookup)) - 1 -- e.g. a signed
   type of [bits] bits with len(lookup) <= 2^(bits-1) -- the result is the same as with the platform int,
   for EVERY arr and lookup (error exits included) *)
Theorem index_of_dt_fits (cast : Z -> Z) arr lookup :
  (forall v, -1 <= v < Z.max 1 (zlen lookup) -> cast v = v) ->
  index_of_dt cast arr lookup = index_of arr lookup.
Proof.
  intros Hc. rewrite index_of_dt_map by (apply Hc; lia).
  unfold index_of. destruct (index_table lookup) as [tmp|] eqn:Et; [|reflexivity].
  pose proof (index_table_range lookup tmp Et) as Hr. rewrite Forall_forall in Hr.
  destruct (py_gather tmp arr) as [out|] eqn:Eg; [|reflexivity]. cbn [option_map]. f_equal.
  rewrite <- (map_id out) at 2. apply map_ext_in. intros v Hv. apply Hc.
  unfold py_gather in Eg. destruct (omap_In _ _ _ _ Eg Hv) as (x & _ & Ex).
  unfold py_get in Ex. destruct (norm_idx (zlen tmp) x); [|discriminate]. apply Hr. eapply nth_error_In; eauto.
Qed.

Lemma wrap_id bits v : 1 <= bits -> - 2 ^ (bits - 1) <= v < 2 ^ (bits - 1) -> wrap bits v = v.
Proof.
  intros Hb Hv. unfold wrap. replace (2 ^ bits) with (2 * 2 ^ (bits - 1)).
  2:{ replace bits with (Z.succ (bits - 1)) at 2 by lia. rewrite Z.pow_succ_r by lia. reflexivity. }
  rewrite Z.mod_small by lia. lia.
Qed.

Theorem index_of_wrap_fits bits arr lookup :
  1 <= bits -> zlen lookup <= 2 ^ (bits - 1) ->
  index_of_dt (wrap bits) arr lookup = index_of arr lookup.
Proof.
  intros Hb Hl. apply index_of_dt_fits. intros v Hv. apply wrap_id; [exact Hb|].
  assert (1 <= 2 ^ (bits - 1)) by (apply (Z.pow_le_mono_r 2 0 (bits - 1)); lia). lia.
Qed.

(* ... and when it does not fit: the member at position q of the lookup list comes back as wrap(q) *)
Theorem index_of_wrap_member bits lookup q x :
  1 <= bits -> NoDup lookup -> (forall y, In y lookup -> 0 <= y) -> nth_error lookup q = Some x ->
  index_of_dt (wrap bits) [x] lookup = Some [wrap bits (Z.of_nat q)] /\ index_of [x] lookup = Some [Z.of_nat q].
Proof.
  intros Hb Hnd Hge Hq.
  assert (H0 : wrap bits 0 = 0).
  { apply wrap_id; [exact Hb|]. assert (1 <= 2 ^ (bits - 1)) by (apply (Z.pow_le_mono_r 2 0 (bits - 1)); lia). lia. }
  assert (Hi : index_of [x] lookup = Some [Z.of_nat q]).
  { rewrite index_of_spec; auto.
    - cbn [map]. unfold zpos. now rewrite (nth_find_pos lookup x q Hnd Hq).
    - intros y [<-|[]]. eapply nth_error_In; eauto. }
  split; [|exact Hi]. rewrite index_of_dt_map by exact H0. now rewrite Hi.
Qed.

(* ---------- sessions ---------- *)
Lemma session_nth {A} (zero nanc : A) (ds : @dataset A) pre c post :
  nth_error (session zero nanc ds (pre ++ c :: post)) (length pre) = Some (answer zero nanc ds c).
Proof.
  unfold session. rewrite nth_error_map, nth_error_app2 by lia. now rewrite Nat.sub_diag.
Qed.

(* ---------- two spikes ---------- *)
(* the scaled covariance of two spikes is the outer product of their difference with itself *)
Lemma scov_two (w0 w1 : list (list Z)) k j j' :
  scov [w0; w1] k j j' =
  (nth k (nth j w1 []) 0 - nth k (nth j w0 []) 0) * (nth k (nth j' w1 []) 0 - nth k (nth j' w0 []) 0).
Proof. unfold scov, wcol, zlen, zsum. cbn [map combine fold_right length fst snd]. lia. Qed.

Lemma zsum_map_mul_l {T} c (f : T -> Z) l : zsum (map (fun x => c * f x) l) = c * zsum (map f l).
Proof. unfold zsum. induction l as [|x r IH]; cbn [map fold_right]; [lia|]. rewrite IH. lia. Qed.

(* d is an eigenvector of that matrix for the eigenvalue |d|^2, and every v orthogonal to d is one for the
   eigenvalue 0: the spectrum is { |d|^2, 0, ..., 0 }, so for d <> 0 the leading component is +- d / |d|
   and no other component is determined *)
Theorem two_spike_eigen (w0 w1 : list (list Z)) k nsamp :
  let d := fun j => nth k (nth j w1 []) 0 - nth k (nth j w0 []) 0 in
  (forall j, zsum (map (fun j' => scov [w0; w1] k j j' * d j') (seq 0 nsamp)) =
             zsum (map (fun j' => d j' * d j') (seq 0 nsamp)) * d j) /\
  (forall v : nat -> Z, zsum (map (fun j' => d j' * v j') (seq 0 nsamp)) = 0 ->
     forall j, zsum (map (fun j' => scov [w0; w1] k j j' * v j') (seq 0 nsamp)) = 0).
Proof.
  intros d. split.
  - intros j. rewrite (map_ext _ (fun j' => d j * (d j' * d j'))).
    + rewrite zsum_map_mul_l. lia.
    + intros j'. rewrite scov_two. fold (d j) (d j'). lia.
  - intros v Hv j. rewrite (map_ext _ (fun j' => d j * (d j' * v j'))).
    + rewrite zsum_map_mul_l, Hv. lia.
    + intros j'. rewrite scov_two. fold (d j) (d j'). lia.
Qed.

(* ---------- the boolean checkers accept the closed forms (no alarm of the checker on the model) ---------- *)
Section Accept.
Context {A : Type}.
Variables (zero nanc : A) (aeqb : A -> A -> bool).
Hypothesis aeqb_refl : forall a, aeqb a a = true.

Fixpoint last_opt (l : list A) : option A :=
  match l with [] => None | x :: r => match last_opt r with Some v => Some v | None => Some x end end.

Lemma stored_last_occ crow (drow : list A) ch : stored_last crow drow ch = last_opt (occ crow drow ch).
Proof.
  revert drow; induction crow as [|c cr IH]; intros [|d dr]; try reflexivity.
  cbn [stored_last occ]. rewrite IH. destruct (c =? ch); [reflexivity|].
  destruct (last_opt (occ cr dr ch)); reflexivity.
Qed.

Lemma last_opt_In l v : last_opt l = Some v -> In v l.
Proof.
  induction l as [|x r IH]; [discriminate|]. cbn [last_opt]. destruct (last_opt r) as [u|].
  - intros H; injection H as <-. right. now apply IH.
  - intros H; injection H as <-. now left.
Qed.

Lemma last_opt_some x r : exists v, last_opt (x :: r) = Some v.
Proof. cbn [last_opt]. destruct (last_opt r) as [u|]; eauto. Qed.

Lemma cell_ok_dense crow (drow : list A) ch : cell_ok zero aeqb crow drow ch (dense_cell zero crow drow ch) = true.
Proof.
  unfold cell_ok, dense_cell. rewrite stored_last_occ. destruct (occ crow drow ch) as [|x [|y r]].
  - apply aeqb_refl.
  - apply aeqb_refl.
  - destruct (last_opt_some x (y :: r)) as (v & Hv). rewrite Hv.
    apply existsb_exists. exists v. split; [now apply last_opt_In|apply aeqb_refl].
Qed.

Lemma row_ok_dense crow (drow : list A) chans : row_ok zero aeqb crow drow chans (dense_row zero crow drow chans) = true.
Proof.
  unfold dense_row. induction chans as [|ch r IH]; [reflexivity|]. cbn [map row_ok]. now rewrite cell_ok_dense, IH.
Qed.

Theorem fs_spec_b_accepts_dense (data : list (list A)) cols chans :
  length data = length cols -> fs_spec_b zero aeqb data cols chans (dense zero data cols chans) = true.
Proof.
  revert cols; induction data as [|d dr IH]; intros [|c cr] H; cbn [length] in H; try lia; [reflexivity|].
  cbn [dense fs_spec_b]. rewrite row_ok_dense, IH by lia. reflexivity.
Qed.

Theorem dense_spec_b_accepts_closed (st : @store A) n_loc stpl ids chans :
  dense_spec_b zero aeqb st n_loc stpl ids chans (get_dense_closed_form zero nanc st n_loc stpl ids chans) = true.
Proof.
  unfold get_dense_closed_form. induction ids as [|sp r IH]; [reflexivity|]. cbn [map dense_spec_b]. rewrite IH.
  unfold closed_row at 1 2. unfold dense_row at 1. rewrite map_length, Nat.eqb_refl.
  unfold filled_row, colrow_of. destruct (stored_row_f st sp) as [drow|]; [|reflexivity].
  destruct (col_row_f st n_loc stpl sp) as [crow|]; [|reflexivity]. now rewrite row_ok_dense.
Qed.
End Accept.
