(* C06/Proofs.v *)
From Coq Require Import ZArith List Lia Bool Arith.
From PV Require Import Base.NpList C06.Model C06.Spec.
Import ListNotations.
Open Scope Z_scope.

Lemma from_sparse_dup {A} (zero : A) data cols chans :
  nodupb chans = false -> from_sparse zero data cols chans = ErrDup.
Proof. intros H. unfold from_sparse. now rewrite H. Qed.
