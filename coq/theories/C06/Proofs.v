(* C06/Proofs.v -- lookup-table and scatter lemmas, the closed form of from_sparse. *)
From Coq Require Import ZArith List Lia Bool Arith ZifyBool.
From PV Require Import Base.NpList C06.Model C06.Spec.
Import ListNotations.
Open Scope Z_scope.

(* ---------- omap ---------- *)
Lemma omap_map {T U} (f : T -> option U) (g : T -> U) l :
  (forall x, In x l -> f x = Some (g x)) -> omap f l = Some (map g l).
Proof.
  induction l as [|x r IH]; intros H; [reflexivity|]. cbn [omap map].
  rewrite (H x) by now left. rewrite IH; [reflexivity|]. intros y Hy. apply H. now right.
Qed.

Lemma omap_length {T U} (f : T -> option U) l r : omap f l = Some r -> length r = length l.
Proof.
  revert r; induction l as [|x l IH]; intros r H; cbn [omap] in H.
  - injection H as <-. reflexivity.
  - destruct (f x); [|discriminate]. destruct (omap f l) eqn:E; [|discriminate].
    injection H as <-. cbn [length]. now rewrite (IH l0).
Qed.

Lemma omap_nth {T U} (f : T -> option U) l r i x :
  omap f l = Some r -> nth_error l i = Some x -> exists y, f x = Some y /\ nth_error r i = Some y.
Proof.
  revert r i; induction l as [|a l IH]; intros r i H Hi; [destruct i; discriminate|].
  cbn [omap] in H. destruct (f a) eqn:Ea; [|discriminate]. destruct (omap f l) eqn:E; [|discriminate].
  injection H as <-. destruct i as [|i]; cbn [nth_error] in *.
  - injection Hi as <-. eauto.
  - eapply IH; eauto.
Qed.

(* ---------- small list facts ---------- *)
Lemma isin_In l x : isin l x = true <-> In x l.
Proof.
  unfold isin. rewrite existsb_exists. split.
  - intros (y & Hy & E). apply Z.eqb_eq in E. now subst.
  - intros H. exists x. split; [exact H|apply Z.eqb_refl].
Qed.

Lemma isin_false l x : isin l x = false <-> ~ In x l.
Proof. rewrite <- isin_In. destruct (isin l x); split; intros; try discriminate; tauto. Qed.

Lemma nodupb_NoDup l : nodupb l = true <-> NoDup l.
Proof.
  induction l as [|x r IH]; cbn [nodupb].
  - split; [constructor|reflexivity].
  - rewrite andb_true_iff, negb_true_iff, isin_false, IH. split.
    + intros [H1 H2]. now constructor.
    + intros H. inversion H; subst. tauto.
Qed.

Lemma fold_max_ge_init a r : a <= fold_right Z.max a r.
Proof. induction r as [|b r IH]; cbn [fold_right]; lia. Qed.
Lemma fold_max_ge_in a r x : In x r -> x <= fold_right Z.max a r.
Proof.
  induction r as [|b r IH]; intros H; [destruct H|]. cbn [fold_right].
  destruct H as [->|H]; [lia|]. specialize (IH H). lia.
Qed.
Lemma zmax1_ge l x : In x l -> x <= zmax1 l.
Proof.
  destruct l as [|a r]; [intros []|]. cbn [zmax1]. intros [->|H].
  - apply fold_max_ge_init.
  - now apply fold_max_ge_in.
Qed.

Lemma NoDup_map_inj {T U} (f : T -> U) l :
  NoDup l -> (forall x y, In x l -> In y l -> f x = f y -> x = y) -> NoDup (map f l).
Proof.
  induction 1 as [|a l Hn Hd IH]; intros Hinj; cbn [map]; constructor.
  - rewrite in_map_iff. intros (y & E & Hy). apply Hn.
    rewrite (Hinj a y); auto; [now left|now right].
  - apply IH. intros x y Hx Hy. apply Hinj; now right.
Qed.

Lemma map_fst_combine' {T U} (a : list T) (b : list U) : length a = length b -> map fst (combine a b) = a.
Proof. revert b; induction a as [|x a IH]; intros [|y b] H; cbn in *; try lia; [reflexivity|]. f_equal. apply IH. lia. Qed.

Lemma nth_error_combine {T U} (a : list T) (b : list U) i x y :
  nth_error a i = Some x -> nth_error b i = Some y -> nth_error (combine a b) i = Some (x, y).
Proof.
  revert b i; induction a as [|a0 a IH]; intros [|b0 b] [|i] Ha Hb; cbn in *; try discriminate.
  - now injection Ha as ->; injection Hb as ->.
  - now apply IH.
Qed.

Lemma arange_length n : length (arange n) = n.
Proof. unfold arange. now rewrite map_length, seq_length. Qed.
Lemma arange_nth n q : (q < n)%nat -> nth_error (arange n) q = Some (Z.of_nat q).
Proof.
  intros H. unfold arange. rewrite nth_error_map. rewrite nth_error_nth' with (d := O) by now rewrite seq_length.
  rewrite seq_nth by exact H. reflexivity.
Qed.

Lemma nth_error_repeat {T} (x : T) n i : (i < n)%nat -> nth_error (repeat x n) i = Some x.
Proof. revert i; induction n as [|n IH]; intros [|i] H; cbn; try lia; [reflexivity|]. apply IH. lia. Qed.

(* ---------- position of an element ---------- *)
Lemma find_pos_nth l x q : find_pos l x = Some q -> nth_error l q = Some x.
Proof.
  revert q; induction l as [|y r IH]; intros q H; cbn [find_pos] in H; [discriminate|].
  destruct (y =? x) eqn:E.
  - injection H as <-. apply Z.eqb_eq in E. now subst.
  - destruct (find_pos r x) eqn:F; [|discriminate]. injection H as <-. cbn. now apply IH.
Qed.

Lemma nth_find_pos l x q : NoDup l -> nth_error l q = Some x -> find_pos l x = Some q.
Proof.
  revert q; induction l as [|y r IH]; intros q Hnd H; [destruct q; discriminate|].
  inversion Hnd as [|? ? Hn Hd]; subst. cbn [find_pos]. destruct q as [|q]; cbn [nth_error] in H.
  - injection H as ->. now rewrite Z.eqb_refl.
  - destruct (y =? x) eqn:E.
    + apply Z.eqb_eq in E. subst. exfalso. apply Hn. eapply nth_error_In; eauto.
    + now rewrite (IH q Hd H).
Qed.

Lemma find_pos_none l x : ~ In x l -> find_pos l x = None.
Proof.
  induction l as [|y r IH]; intros H; [reflexivity|]. cbn [find_pos].
  destruct (y =? x) eqn:E.
  - apply Z.eqb_eq in E. exfalso. apply H. now left.
  - rewrite IH; [reflexivity|]. intros H'. apply H. now right.
Qed.

Lemma find_pos_some l x : In x l -> exists q, find_pos l x = Some q.
Proof.
  induction l as [|y r IH]; intros H; [destruct H|]. cbn [find_pos].
  destruct (y =? x) eqn:E; [eauto|]. apply Z.eqb_neq in E. destruct H as [H|H]; [congruence|].
  destruct (IH H) as (q & ->). cbn. eauto.
Qed.

Lemma find_pos_lt l x q : find_pos l x = Some q -> (q < length l)%nat.
Proof. intros H. apply find_pos_nth in H. apply nth_error_Some. congruence. Qed.

(* ---------- Python index normalisation ---------- *)
Definition pos_of (len x : Z) : nat := Z.to_nat (if x <? 0 then x + len else x).

Lemma norm_idx_in len x : - len <= x < len -> norm_idx len x = Some (pos_of len x).
Proof.
  intros H. unfold norm_idx, pos_of.
  destruct ((0 <=? x) && (x <? len)) eqn:E1.
  - replace (x <? 0) with false by lia. reflexivity.
  - replace ((- len <=? x) && (x <? 0)) with true by lia. replace (x <? 0) with true by lia. reflexivity.
Qed.

Lemma pos_of_m1 len : pos_of len (-1) = Z.to_nat (len - 1).
Proof. unfold pos_of. change (-1 <? 0) with true. cbv iota. f_equal. lia. Qed.

Lemma norm_idx_lt len x p : norm_idx len x = Some p -> (p < Z.to_nat len)%nat.
Proof.
  unfold norm_idx. destruct ((0 <=? x) && (x <? len)) eqn:E1.
  - intros H; injection H as <-. lia.
  - destruct ((- len <=? x) && (x <? 0)) eqn:E2; [|discriminate]. intros H; injection H as <-. lia.
Qed.

(* ---------- _index_of: the lookup table ---------- *)
(* every member of the lookup list (distinct entries, each >= -1) is mapped to its position; -1 is kept
   when it is not a member *)
Lemma index_table_spec lookup :
  NoDup lookup -> (forall x, In x lookup -> -1 <= x) ->
  exists tmp, index_table lookup = Some tmp /\
    (forall q x, nth_error lookup q = Some x -> py_get tmp x = Some (Z.of_nat q)) /\
    (~ In (-1) lookup -> py_get tmp (-1) = Some (-1)).
Proof.
  intros Hnd Hge. unfold index_table.
  set (len := zmax1 lookup + 1 + 1).
  assert (Hlen : 1 <= len).
  { unfold len. destruct lookup as [|a r]; [cbn [zmax1]; lia|].
    pose proof (zmax1_ge (a :: r) a (or_introl eq_refl)). specialize (Hge a (or_introl eq_refl)). lia. }
  assert (Hrange : forall x, In x lookup -> - len <= x < len).
  { intros x Hx. pose proof (zmax1_ge _ _ Hx). specialize (Hge x Hx). unfold len. lia. }
  replace (len <? 0) with false by lia.
  rewrite (norm_idx_in len (-1)) by lia.
  rewrite (omap_map (norm_idx len) (pos_of len) lookup) by (intros x Hx; apply norm_idx_in; auto).
  set (init := upd (repeat 0 (Z.to_nat len)) (pos_of len (-1)) (-1)).
  set (writes := combine (map (pos_of len) lookup) (arange (length lookup))).
  exists (scatter init writes). split; [reflexivity|].
  assert (Hil : length init = Z.to_nat len) by (unfold init; now rewrite upd_length, repeat_length).
  assert (Hsl : zlen (scatter init writes) = len).
  { unfold zlen. rewrite scatter_length, Hil. lia. }
  assert (Hfst : map fst writes = map (pos_of len) lookup).
  { unfold writes. apply map_fst_combine'. now rewrite map_length, arange_length. }
  assert (Hbound : forall w, In w writes -> (fst w < length init)%nat).
  { intros w Hw. assert (In (fst w) (map fst writes)) by now apply in_map.
    rewrite Hfst in H. apply in_map_iff in H as (x & E & Hx). rewrite <- E, Hil.
    specialize (Hrange x Hx). unfold pos_of. destruct (x <? 0) eqn:Ex0; lia. }
  assert (Hinj : NoDup (map fst writes)).
  { rewrite Hfst. apply NoDup_map_inj; [exact Hnd|]. intros x y Hx Hy E.
    pose proof (Hge x Hx). pose proof (Hge y Hy). pose proof (zmax1_ge _ _ Hx). pose proof (zmax1_ge _ _ Hy).
    unfold pos_of, len in E. destruct (x <? 0) eqn:Ex; destruct (y <? 0) eqn:Ey; lia. }
  split.
  - intros q x Hq. unfold py_get. rewrite Hsl.
    assert (Hx : In x lookup) by (eapply nth_error_In; eauto).
    rewrite (norm_idx_in len x) by auto.
    assert (Hp : (pos_of len x < length (scatter init writes))%nat).
    { rewrite scatter_length, Hil. specialize (Hrange x Hx). unfold pos_of. destruct (x <? 0) eqn:Ex0; lia. }
    rewrite (nth_error_nth' _ 0 Hp). f_equal.
    rewrite (scatter_nth init writes (pos_of len x) 0 Hbound).
    rewrite (last_write_unique (pos_of len x) writes q (Z.of_nat q) Hinj); [reflexivity|].
    unfold writes. apply nth_error_combine.
    + now rewrite nth_error_map, Hq.
    + apply arange_nth. apply nth_error_Some. congruence.
  - intros Hno. unfold py_get. rewrite Hsl. rewrite (norm_idx_in len (-1)) by lia.
    assert (Hp : (pos_of len (-1) < length (scatter init writes))%nat).
    { rewrite scatter_length, Hil, pos_of_m1. lia. }
    rewrite (nth_error_nth' _ 0 Hp). f_equal.
    rewrite (scatter_nth init writes (pos_of len (-1)) 0 Hbound).
    rewrite last_write_none.
    + unfold init. apply upd_nth_same. rewrite repeat_length, pos_of_m1. lia.
    + rewrite Hfst, in_map_iff. intros (x & E & Hx). apply Hno.
      pose proof (Hge x Hx). pose proof (zmax1_ge _ _ Hx).
      rewrite pos_of_m1 in E. unfold pos_of, len in E. destruct (x <? 0) eqn:Ex.
      * assert (x = -1) by lia. now subst.
      * lia.
Qed.

(* position of x in l as an integer (0 when absent: only used on members) *)
Definition zpos (l : list Z) (x : Z) : Z := match find_pos l x with Some q => Z.of_nat q | None => 0 end.

Lemma index_of_spec arr lookup :
  NoDup lookup -> (forall x, In x lookup -> 0 <= x) -> (forall x, In x arr -> In x lookup) ->
  index_of arr lookup = Some (map (zpos lookup) arr).
Proof.
  intros Hnd Hge Hsub. unfold index_of.
  destruct (index_table_spec lookup Hnd) as (tmp & -> & Hmem & _).
  { intros x Hx. specialize (Hge x Hx). lia. }
  unfold py_gather. apply omap_map. intros x Hx. unfold zpos.
  destruct (find_pos_some lookup x (Hsub x Hx)) as (q & Hq). rewrite Hq.
  apply Hmem. now apply find_pos_nth.
Qed.

(* ---------- from_sparse: closed form ---------- *)
Lemma omap_map_map {T U V} (f : U -> option V) (h : T -> U) (g : T -> V) l :
  (forall x, In x l -> f (h x) = Some (g x)) -> omap f (map h l) = Some (map g l).
Proof.
  induction l as [|x r IH]; intros H; [reflexivity|]. cbn [omap map].
  rewrite (H x) by now left. rewrite IH; [reflexivity|]. intros y Hy. apply H. now right.
Qed.

Lemma NoDup_snoc {T} (l : list T) a : NoDup l -> ~ In a l -> NoDup (l ++ [a]).
Proof.
  induction 1 as [|x l Hn Hd IH]; intros Ha; cbn [app]; [repeat constructor; intros []|].
  constructor.
  - rewrite in_app_iff. intros [H|[H|[]]]; [tauto|]. subst. apply Ha. now left.
  - apply IH. intros H. apply Ha. now right.
Qed.

Lemma nth_firstn_lt {T} (l : list T) n j d : (j < n)%nat -> nth j (firstn n l) d = nth j l d.
Proof.
  revert l j; induction n as [|n IH]; intros l j H; [lia|].
  destruct l as [|x l]; [now destruct j|]. cbn [firstn]. destruct j as [|j]; [reflexivity|].
  cbn [nth]. apply IH. lia.
Qed.

Lemma nth_repeat_same {T} (x : T) n j : nth j (repeat x n) x = x.
Proof. revert j; induction n as [|n IH]; intros [|j]; cbn; auto. Qed.

Section FS.
Context {A : Type}.
Variable zero : A.

(* relative column of an entry of the column table: its position among the requested channels, or the
   discard column *)
Definition loc (chans : list Z) (x : Z) : Z :=
  if isin chans x then zpos chans x else zlen chans.

Lemma loc_range chans x : 0 <= loc chans x <= zlen chans.
Proof.
  unfold loc, zpos, zlen. destruct (isin chans x); [|lia].
  destruct (find_pos chans x) eqn:E; [|lia]. apply find_pos_lt in E. lia.
Qed.

Lemma loc_eq chans j ch c :
  NoDup chans -> nth_error chans j = Some ch -> (Z.to_nat (loc chans c) = j <-> c = ch).
Proof.
  intros Hnd Hj. assert (Hlt : (j < length chans)%nat) by (apply nth_error_Some; congruence).
  unfold loc. destruct (isin chans c) eqn:E.
  - apply isin_In in E. destruct (find_pos_some chans c E) as (q & Hq). unfold zpos. rewrite Hq.
    rewrite Nat2Z.id. pose proof (find_pos_nth _ _ _ Hq) as Hn. split.
    + intros ->. congruence.
    + intros ->. rewrite (nth_find_pos chans ch j Hnd Hj) in Hq. congruence.
  - apply isin_false in E. unfold zlen. rewrite Nat2Z.id. split; [lia|].
    intros ->. exfalso. apply E. eapply nth_error_In; eauto.
Qed.

Lemma last_write_stored (f : Z -> nat) j ch crow (drow : list A) :
  (forall c, f c = j <-> c = ch) ->
  last_write j (combine (map f crow) drow) = stored_last crow drow ch.
Proof.
  intros Hf. revert drow; induction crow as [|c cr IH]; intros [|d dr]; cbn [map combine last_write stored_last]; try reflexivity.
  rewrite IH. destruct (stored_last cr dr ch); [reflexivity|]. cbn [fst snd].
  destruct (c =? ch) eqn:E.
  - apply Z.eqb_eq in E. apply Hf in E. rewrite E, Nat.eqb_refl. reflexivity.
  - apply Z.eqb_neq in E. destruct (Nat.eqb (f c) j) eqn:E2; [|reflexivity].
    apply Nat.eqb_eq in E2. apply Hf in E2. contradiction.
Qed.

Lemma fs_row_closed chans crow (drow : list A) :
  NoDup chans ->
  fs_row zero (length chans) (map (loc chans) crow) drow = Some (dense_row zero crow drow chans).
Proof.
  intros Hnd. unfold fs_row. set (n := length chans).
  rewrite (omap_map_map (norm_idx (Z.of_nat n + 1)) (loc chans) (fun x => Z.to_nat (loc chans x))).
  2:{ intros x _. pose proof (loc_range chans x) as Hr. unfold zlen in Hr. fold n in Hr.
      unfold norm_idx. replace ((0 <=? loc chans x) && (loc chans x <? Z.of_nat n + 1)) with true by lia.
      reflexivity. }
  f_equal. set (writes := combine (map (fun x => Z.to_nat (loc chans x)) crow) drow).
  assert (Hb : forall w, In w writes -> (fst w < length (repeat zero (S n)))%nat).
  { intros w Hw. rewrite repeat_length. unfold writes in Hw. destruct w as [p v]. apply in_combine_l in Hw.
    apply in_map_iff in Hw as (x & <- & _). cbn [fst]. pose proof (loc_range chans x) as Hr. unfold zlen in Hr.
    fold n in Hr. lia. }
  apply nth_ext with (d := zero) (d' := dense_cell zero crow drow 0).
  - rewrite firstn_length, scatter_length, repeat_length. unfold dense_row. rewrite map_length. fold n. lia.
  - rewrite firstn_length, scatter_length, repeat_length. intros j Hj.
    assert (Hjn : (j < n)%nat) by lia.
    rewrite nth_firstn_lt by exact Hjn. unfold dense_row. rewrite map_nth.
    rewrite (scatter_nth _ writes j zero Hb).
    destruct (nth_error chans j) as [ch|] eqn:Ech.
    2:{ apply nth_error_None in Ech. fold n in Ech. lia. }
    rewrite (nth_error_nth chans j 0 Ech).
    unfold writes. rewrite (last_write_stored (fun x => Z.to_nat (loc chans x)) j ch).
    2:{ intros c. now apply loc_eq. }
    unfold dense_cell. destruct (stored_last crow drow ch); [reflexivity|].
    apply nth_repeat_same.
Qed.

Lemma fs_rows_closed chans (data : list (list A)) cols :
  NoDup chans -> shape_ok data cols = true ->
  fs_rows zero (length chans) (map (map (loc chans)) cols) data = Some (dense zero data cols chans).
Proof.
  intros Hnd. revert cols; induction data as [|d dr IH]; intros [|c cr] H; cbn [shape_ok] in H; try discriminate;
    cbn [map fs_rows dense]; [reflexivity|].
  apply andb_true_iff in H as [_ H]. rewrite fs_row_closed by exact Hnd. rewrite IH by exact H. reflexivity.
Qed.

Theorem from_sparse_closed (data : list (list A)) cols chans :
  NoDup chans -> (forall c, In c chans -> 0 <= c) -> shape_ok data cols = true ->
  from_sparse zero data cols chans = Ok (dense zero data cols chans).
Proof.
  intros Hnd Hge Hsh. unfold from_sparse.
  rewrite (proj2 (nodupb_NoDup chans) Hnd), Hsh. cbn [negb].
  assert (Hm1 : ~ In (-1) chans) by (intros H; specialize (Hge _ H); lia).
  destruct (index_table_spec (chans ++ [-1])) as (tmp & -> & Hmem & _).
  { now apply NoDup_snoc. }
  { intros x Hx. apply in_app_iff in Hx as [Hx|[<-|[]]]; [specialize (Hge _ Hx)|]; lia. }
  rewrite (omap_map_map (py_gather tmp) (map (fun x => if isin chans x then x else -1)) (map (loc chans))).
  2:{ intros crow _. unfold py_gather. apply omap_map_map. intros x _. unfold loc.
      destruct (isin chans x) eqn:E.
      - apply isin_In in E. destruct (find_pos_some chans x E) as (q & Hq). unfold zpos. rewrite Hq.
        apply Hmem. rewrite nth_error_app1 by (eapply find_pos_lt; eauto). now apply find_pos_nth.
      - apply (Hmem (length chans)). rewrite nth_error_app2 by lia. now rewrite Nat.sub_diag. }
  rewrite fs_rows_closed by assumption. reflexivity.
Qed.

(* errors *)
Lemma from_sparse_dup (data : list (list A)) cols chans :
  nodupb chans = false -> from_sparse zero data cols chans = ErrDup.
Proof. intros H. unfold from_sparse. now rewrite H. Qed.

Lemma from_sparse_shape_err (data : list (list A)) cols chans :
  nodupb chans = true -> shape_ok data cols = false -> from_sparse zero data cols chans = ErrAssert.
Proof. intros H1 H2. unfold from_sparse. now rewrite H1, H2. Qed.
End FS.

(* ---------- the closed form meets the declarative specification ---------- *)
Section FSSpec.
Context {A : Type}.
Variable zero : A.

Lemma stored_last_none crow (drow : list A) ch : ~ In ch crow -> stored_last crow drow ch = None.
Proof.
  revert drow; induction crow as [|c cr IH]; intros [|d dr] H; cbn [stored_last]; try reflexivity.
  rewrite IH by (intros H'; apply H; now right).
  destruct (c =? ch) eqn:E; [|reflexivity]. apply Z.eqb_eq in E. exfalso. apply H. now left.
Qed.

Lemma stored_last_unique crow (drow : list A) ch k :
  length drow = length crow -> nth_error crow k = Some ch ->
  (forall k', nth_error crow k' = Some ch -> k' = k) ->
  exists v, stored_last crow drow ch = Some v /\ nth_error drow k = Some v.
Proof.
  revert drow k; induction crow as [|c cr IH]; intros [|d dr] k Hl Hk Hu; cbn [length] in Hl; try lia.
  - destruct k; discriminate.
  - cbn [stored_last]. destruct k as [|k]; cbn [nth_error] in *.
    + injection Hk as ->. rewrite stored_last_none.
      * rewrite Z.eqb_refl. eauto.
      * intros Hin. apply In_nth_error in Hin as (k' & Hk'). specialize (Hu (S k') Hk'). discriminate.
    + destruct (IH dr k) as (v & Hv & Hn); [lia|exact Hk| |].
      * intros k' Hk'. specialize (Hu (S k') Hk'). lia.
      * rewrite Hv. eauto.
Qed.

Lemma dense_cell_spec crow (drow : list A) ch :
  length drow = length crow -> Cell_Spec zero crow drow ch (dense_cell zero crow drow ch).
Proof.
  intros Hl. unfold Cell_Spec, dense_cell. split.
  - intros H. now rewrite stored_last_none.
  - intros k Hk Hu. destruct (stored_last_unique crow drow ch k Hl Hk Hu) as (v & -> & Hn). exact Hn.
Qed.

Lemma dense_length (data : list (list A)) cols chans :
  length data = length cols -> length (dense zero data cols chans) = length data.
Proof.
  revert cols; induction data as [|d dr IH]; intros [|c cr] H; cbn [length dense] in *; try lia. rewrite IH; lia.
Qed.

Lemma dense_nth (data : list (list A)) cols chans s drow crow :
  nth_error data s = Some drow -> nth_error cols s = Some crow ->
  nth_error (dense zero data cols chans) s = Some (dense_row zero crow drow chans).
Proof.
  revert cols s; induction data as [|d dr IH]; intros [|c cr] [|s] Hd Hc; cbn [nth_error dense] in *; try discriminate.
  - now injection Hd as ->; injection Hc as ->.
  - now apply IH.
Qed.

Lemma dense_row_nth crow (drow : list A) chans j ch :
  nth_error chans j = Some ch -> nth_error (dense_row zero crow drow chans) j = Some (dense_cell zero crow drow ch).
Proof. intros H. unfold dense_row. now rewrite nth_error_map, H. Qed.

Lemma shape_ok_spec (data : list (list A)) cols :
  shape_ok data cols = true <->
  length data = length cols /\
  forall s drow crow, nth_error data s = Some drow -> nth_error cols s = Some crow -> length drow = length crow.
Proof.
  revert cols; induction data as [|d dr IH]; intros [|c cr]; cbn [shape_ok length].
  - split; [|reflexivity]. intros _. split; [reflexivity|]. intros [|s]; discriminate.
  - split; [discriminate|]. intros [H _]. discriminate.
  - split; [discriminate|]. intros [H _]. discriminate.
  - rewrite andb_true_iff, IH, Nat.eqb_eq. split.
    + intros (H1 & H2 & H3). split; [lia|]. intros [|s] drow crow Hd Hc; cbn [nth_error] in *.
      * now injection Hd as <-; injection Hc as <-.
      * eapply H3; eauto.
    + intros (H1 & H2). split; [apply (H2 O); reflexivity|]. split; [lia|].
      intros s drow crow Hd Hc. apply (H2 (S s)); assumption.
Qed.

Theorem dense_FS_Spec (data : list (list A)) cols chans :
  shape_ok data cols = true -> FS_Spec zero data cols chans (dense zero data cols chans).
Proof.
  intros Hsh. apply shape_ok_spec in Hsh as (Hl & Hrows). split; [now apply dense_length|].
  intros s crow drow Hc Hd. exists (dense_row zero crow drow chans). split; [now apply dense_nth|].
  split; [unfold dense_row; now rewrite map_length|].
  intros j ch Hj. exists (dense_cell zero crow drow ch). split; [now apply dense_row_nth|].
  apply dense_cell_spec. eapply Hrows; eauto.
Qed.
End FSSpec.
